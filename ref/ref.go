// Package ref holds the boring reference models: exact integer / modular arithmetic written
// independently of the library (division-based uint64 arithmetic, math/big, schoolbook products).
package ref

import (
	"math/big"
	"math/bits"
)

// MulMod returns a*b mod q by 128-bit product and hardware division (no Barrett/Montgomery).
func MulMod(a, b, q uint64) uint64 {
	a %= q
	b %= q
	hi, lo := bits.Mul64(a, b)
	_, r := bits.Div64(hi, lo, q)
	return r
}

// AddMod returns a+b mod q for arbitrary uint64 a, b.
func AddMod(a, b, q uint64) uint64 {
	a %= q
	b %= q
	s, c := bits.Add64(a, b, 0)
	if c == 1 || s >= q {
		s -= q
	}
	return s
}

// SubMod returns a-b mod q for arbitrary a, b.
func SubMod(a, b, q uint64) uint64 {
	a %= q
	b %= q
	if a >= b {
		return a - b
	}
	return a + (q - b)
}

// NegMod returns -a mod q.
func NegMod(a, q uint64) uint64 { return SubMod(0, a, q) }

// PowMod returns a^e mod q.
func PowMod(a, e, q uint64) uint64 {
	r := uint64(1) % q
	a %= q
	for e > 0 {
		if e&1 == 1 {
			r = MulMod(r, a, q)
		}
		a = MulMod(a, a, q)
		e >>= 1
	}
	return r
}

// InvMod returns a^-1 mod prime q.
func InvMod(a, q uint64) uint64 { return PowMod(a, q-2, q) }

// Pow2Mod returns 2^k mod q.
func Pow2Mod(k int, q uint64) uint64 { return PowMod(2, uint64(k), q) }

// IsPrime is a deterministic Miller-Rabin for uint64 (independent of ring.IsPrime / big.ProbablyPrime).
func IsPrime(n uint64) bool {
	if n < 2 {
		return false
	}
	for _, p := range []uint64{2, 3, 5, 7, 11, 13, 17, 19, 23, 29, 31, 37} {
		if n%p == 0 {
			return n == p
		}
	}
	d := n - 1
	s := 0
	for d&1 == 0 {
		d >>= 1
		s++
	}
	for _, a := range []uint64{2, 3, 5, 7, 11, 13, 17, 19, 23, 29, 31, 37} {
		x := PowMod(a, d, n)
		if x == 1 || x == n-1 {
			continue
		}
		comp := true
		for r := 1; r < s; r++ {
			x = MulMod(x, x, n)
			if x == n-1 {
				comp = false
				break
			}
		}
		if comp {
			return false
		}
	}
	return true
}

// PrimesNear returns k NTT-friendly primes (≡1 mod m) closest below (down=true) or above `around`.
func PrimesNear(around, m uint64, k int, down bool) []uint64 {
	var r []uint64
	x := around - (around % m) + 1
	if down {
		for x >= around {
			x -= m
		}
		for len(r) < k && x > m {
			if IsPrime(x) {
				r = append(r, x)
			}
			x -= m
		}
	} else {
		for x <= around {
			x += m
		}
		for len(r) < k {
			if IsPrime(x) {
				r = append(r, x)
			}
			x += m
		}
	}
	return r
}

// SmallestPrimes returns the k smallest primes ≡ 1 mod m.
func SmallestPrimes(m uint64, k int) []uint64 {
	var r []uint64
	for x := m + 1; len(r) < k; x += m {
		if IsPrime(x) {
			r = append(r, x)
		}
	}
	return r
}

// NegacyclicMul returns a*b in Z_q[X]/(X^N+1) by schoolbook.
func NegacyclicMul(a, b []uint64, q uint64) []uint64 {
	n := len(a)
	c := make([]uint64, n)
	for i := 0; i < n; i++ {
		if a[i]%q == 0 {
			continue
		}
		for j := 0; j < n; j++ {
			p := MulMod(a[i], b[j], q)
			k := i + j
			if k >= n {
				c[k-n] = SubMod(c[k-n], p, q)
			} else {
				c[k] = AddMod(c[k], p, q)
			}
		}
	}
	return c
}

// Automorphism returns a(X^g) in Z_q[X]/(X^N+1), g odd.
func Automorphism(a []uint64, g uint64, q uint64) []uint64 {
	n := uint64(len(a))
	c := make([]uint64, n)
	for i := uint64(0); i < n; i++ {
		k := (i * g) % (2 * n)
		v := a[i] % q
		if k >= n {
			c[k-n] = NegMod(v, q)
		} else {
			c[k] = v
		}
	}
	return c
}

// MonomialMul returns a * X^k (k any integer) in Z_q[X]/(X^N+1).
func MonomialMul(a []uint64, k int, q uint64) []uint64 {
	n := len(a)
	k = ((k % (2 * n)) + 2*n) % (2 * n)
	c := make([]uint64, n)
	for i := 0; i < n; i++ {
		j := i + k
		v := a[i] % q
		neg := false
		for j >= n {
			j -= n
			neg = !neg
		}
		if neg {
			v = NegMod(v, q)
		}
		c[j] = v
	}
	return c
}

// --- big integer helpers ----------------------------------------------------------------------

// CRT reconstructs the integer in [0, prod(moduli)) with the given residues.
func CRT(res []uint64, moduli []uint64) *big.Int {
	Q := Prod(moduli)
	x := new(big.Int)
	for i, q := range moduli {
		qi := new(big.Int).SetUint64(q)
		Qi := new(big.Int).Quo(Q, qi)
		inv := new(big.Int).ModInverse(new(big.Int).Mod(Qi, qi), qi)
		t := new(big.Int).SetUint64(res[i] % q)
		t.Mul(t, inv)
		t.Mod(t, qi)
		t.Mul(t, Qi)
		x.Add(x, t)
	}
	return x.Mod(x, Q)
}

// Prod returns the product of the moduli.
func Prod(moduli []uint64) *big.Int {
	Q := big.NewInt(1)
	for _, q := range moduli {
		Q.Mul(Q, new(big.Int).SetUint64(q))
	}
	return Q
}

// Center maps x in [0,Q) to (-Q/2, Q/2].
func Center(x, Q *big.Int) *big.Int {
	r := new(big.Int).Mod(x, Q)
	h := new(big.Int).Rsh(Q, 1)
	if r.Cmp(h) > 0 {
		r.Sub(r, Q)
	}
	return r
}

// ModU returns x mod q as uint64 (non-negative representative).
func ModU(x *big.Int, q uint64) uint64 {
	r := new(big.Int).Mod(x, new(big.Int).SetUint64(q))
	return r.Uint64()
}

// FloorDiv returns floor(x/d) for d>0 and any sign of x.
func FloorDiv(x, d *big.Int) *big.Int {
	q, m := new(big.Int).DivMod(x, d, new(big.Int)) // Euclidean: m >= 0, so q is the floor for d>0
	_ = m
	return q
}

// RoundDivHalfUp returns floor(x/d + 1/2).
func RoundDivHalfUp(x, d *big.Int) *big.Int {
	t := new(big.Int).Lsh(x, 1)
	t.Add(t, d)
	return FloorDiv(t, new(big.Int).Lsh(d, 1))
}

// PolyCRT reconstructs all coefficients of an RNS polynomial given as coeffs[level][j].
func PolyCRT(coeffs [][]uint64, moduli []uint64) []*big.Int {
	n := len(coeffs[0])
	out := make([]*big.Int, n)
	res := make([]uint64, len(moduli))
	for j := 0; j < n; j++ {
		for i := range moduli {
			res[i] = coeffs[i][j]
		}
		out[j] = CRT(res, moduli)
	}
	return out
}

// BigNegacyclicMul multiplies two integer polynomials in Z[X]/(X^N+1) (no modulus).
func BigNegacyclicMul(a, b []*big.Int) []*big.Int {
	n := len(a)
	c := make([]*big.Int, n)
	for i := range c {
		c[i] = new(big.Int)
	}
	t := new(big.Int)
	for i := 0; i < n; i++ {
		if a[i].Sign() == 0 {
			continue
		}
		for j := 0; j < n; j++ {
			t.Mul(a[i], b[j])
			k := i + j
			if k >= n {
				c[k-n].Sub(c[k-n], t)
			} else {
				c[k].Add(c[k], t)
			}
		}
	}
	return c
}

// InfNorm returns max |a_i|.
func InfNorm(a []*big.Int) *big.Int {
	m := new(big.Int)
	t := new(big.Int)
	for _, x := range a {
		t.Abs(x)
		if t.Cmp(m) > 0 {
			m.Set(t)
		}
	}
	return m
}
