// Package bgvu holds the helpers shared by the C05 and C07 checks: tiny BGV parameter sets (DESIGN §5)
// and arithmetic on slot vectors over Z_t (the reference model of the plaintext space).
package bgvu

import (
	"fmt"
	"math/big"

	"github.com/tuneinsight/lattigo/v6/schemes/bgv"

	"verif/ref"
	"verif/uni"
)

// Conf describes one tiny BGV parameter set.
type Conf struct {
	Name  string
	LogN  int
	QBits int // size of the Q primes
	NQ    int
	PBits int
	NP    int
	T     uint64
	// QAbove: take the NQ+NP primes just above 2^QBits instead of just below (used for 60-bit plaintext moduli,
	// which need Q[0] > t, while staying away from the 61-bit primes bgv.NewParameters picks for its internal
	// auxiliary basis QMul)
	QAbove bool
	// Q, P: explicit prime chains (override QBits/NQ/PBits/NP when Q is non-empty)
	Q, P []uint64
}

// PrimeBelow returns the skip-th NTT-friendly prime (= 1 mod 2^(logN+2)) below num/den * 2^bits: a prime of exactly
// `bits` bits placed inside its bit-length range instead of next to a power of two.
func PrimeBelow(logN, bits int, num, den uint64, skip int) uint64 {
	around := (uint64(1) << (bits - 8)) / den * num << 8
	return ref.PrimesNear(around, uint64(1)<<(logN+2), skip+1, true)[skip]
}

// PlainModulus returns a prime t ≡ 1 mod 2^(logN+1) just below 2^bits (so that the plaintext ring has the
// full degree N), not colliding with the Q/P primes produced by uni.Primes (those are ≡ 1 mod 2^(logN+2):
// we pick t ≢ 1 mod 2^(logN+2) whenever possible, which also makes t different from every ciphertext prime).
func PlainModulus(logN, bits int) uint64 {
	m := uint64(1) << (logN + 1)
	cands := ref.PrimesNear(uint64(1)<<bits, m, 8, true)
	for _, p := range cands {
		if p%(2*m) != 1 {
			return p
		}
	}
	return cands[0]
}

// PlainModulusAt is PlainModulus for a prime below num/den * 2^bits (a `bits`-bit plaintext modulus in the middle of
// its range, so that 2t stays below a Q[0] of bits+1 bits).
func PlainModulusAt(logN, bits int, num, den uint64) uint64 {
	m := uint64(1) << (logN + 1)
	around := (uint64(1) << (bits - 8)) / den * num << 8
	cands := ref.PrimesNear(around, m, 8, true)
	for _, p := range cands {
		if p%(2*m) != 1 {
			return p
		}
	}
	return cands[0]
}

// Build constructs the parameters (panics on harness misuse).
func (cf Conf) Build() bgv.Parameters {
	p, err := cf.TryBuild()
	if err != nil {
		panic(fmt.Sprintf("bgvu.Build(%s): %v", cf.Name, err))
	}
	return p
}

// TryBuild constructs the parameters and returns the library's verdict.
func (cf Conf) TryBuild() (bgv.Parameters, error) {
	lit := bgv.ParametersLiteral{LogN: cf.LogN, PlaintextModulus: cf.T}
	if len(cf.Q) > 0 {
		lit.Q, lit.P = cf.Q, cf.P
	} else if cf.QAbove {
		all := ref.PrimesNear(uint64(1)<<cf.QBits, uint64(1)<<(cf.LogN+2), cf.NQ+cf.NP, false)
		lit.Q, lit.P = all[:cf.NQ], all[cf.NQ:]
	} else if cf.NP > 0 && cf.PBits == cf.QBits {
		all := uni.Primes(cf.LogN, cf.QBits, cf.NQ+cf.NP)
		lit.Q, lit.P = all[:cf.NQ], all[cf.NQ:]
	} else {
		lit.Q = uni.Primes(cf.LogN, cf.QBits, cf.NQ)
		if cf.NP > 0 {
			lit.P = uni.Primes(cf.LogN, cf.PBits, cf.NP)
		}
	}
	return bgv.NewParametersFromLiteral(lit)
}

// Q61 returns k NTT-friendly 61-bit primes at 0.9 * 2^61 (skipping the first `skip`): large enough for a 60-bit
// plaintext modulus below Q[0]/2, far from the primes next to 2^61 that bgv.NewParameters takes for its internal
// auxiliary basis.
func Q61(logN, k, skip int) []uint64 {
	r := make([]uint64, k)
	for i := range r {
		r[i] = PrimeBelow(logN, 61, 9, 10, skip+i)
	}
	return r
}

// ---------------------------------------------------------------------------------------------
// Z_t helpers (t prime, < 2^61)

// BigToT reduces any integer into [0,t).
func BigToT(x *big.Int, t uint64) uint64 {
	return ref.ModU(x, t)
}

// I64ToT reduces a signed integer into [0,t).
func I64ToT(x int64, t uint64) uint64 { return ref.ModU(big.NewInt(x), t) }

// Centered returns the representative of x (in [0,t)) in (-t/2, t/2].
func Centered(x, t uint64) int64 {
	if x > t/2 {
		return -int64(t - x)
	}
	return int64(x)
}

func VecAdd(a, b []uint64, t uint64) []uint64 {
	r := make([]uint64, len(a))
	for i := range a {
		r[i] = ref.AddMod(a[i], b[i], t)
	}
	return r
}

func VecSub(a, b []uint64, t uint64) []uint64 {
	r := make([]uint64, len(a))
	for i := range a {
		r[i] = ref.SubMod(a[i], b[i], t)
	}
	return r
}

func VecMul(a, b []uint64, t uint64) []uint64 {
	r := make([]uint64, len(a))
	for i := range a {
		r[i] = ref.MulMod(a[i], b[i], t)
	}
	return r
}

func VecConst(c uint64, n int) []uint64 {
	r := make([]uint64, n)
	for i := range r {
		r[i] = c
	}
	return r
}

func VecEq(a, b []uint64) bool {
	if len(a) != len(b) {
		return false
	}
	for i := range a {
		if a[i] != b[i] {
			return false
		}
	}
	return true
}

// PadMod reduces every entry mod t and pads with zeros to length n.
func PadModU(v []uint64, n int, t uint64) []uint64 {
	r := make([]uint64, n)
	for i, x := range v {
		r[i] = x % t
	}
	return r
}

func PadModI(v []int64, n int, t uint64) []uint64 {
	r := make([]uint64, n)
	for i, x := range v {
		r[i] = I64ToT(x, t)
	}
	return r
}

// DistinctVectors returns k vectors of length n over Z_t \ {0,1} such that each vector has pairwise distinct
// entries (when t allows it) and any two vectors differ in every slot: swaps of operands, of slots or of
// registers are then visible in every slot.
func DistinctVectors(k, n int, t uint64) [][]uint64 {
	out := make([][]uint64, 0, k)
	// v_i[j] = c_i + m_i*j mod t: search (c_i,m_i) greedily.
	for c := uint64(2); len(out) < k && c < t; c++ {
		for m := uint64(1); m < t && m < 64 && len(out) < k; m++ {
			v := make([]uint64, n)
			ok := true
			for j := 0; j < n && ok; j++ {
				v[j] = (c + ref.MulMod(m, uint64(j), t)) % t
				if v[j] < 2 {
					ok = false
				}
				for _, w := range out {
					if w[j] == v[j] {
						ok = false
					}
				}
			}
			if ok {
				// the multiplier must differ from those already used (otherwise differences are constant)
				out = append(out, v)
				break
			}
		}
	}
	if len(out) < k {
		panic("DistinctVectors: plaintext modulus too small")
	}
	return out
}
