// Package cklib holds what the C06 and C11 checks share: tiny CKKS/BGV configurations built from the
// current tree's constructors, a plain big.Float complex-vector model, and worst-case noise bounds
// derived from the declared supports of the error / secret distributions.
package cklib

import (
	"math"
	"math/big"
)

// Prec is the precision of the reference model (far above every scale used: ≤ 2^80 default scales,
// products ≤ 2^200).
const Prec = 320

// C is one complex number of the reference model.
type C struct{ Re, Im *big.Float }

func fl() *big.Float { return new(big.Float).SetPrec(Prec) }

// F makes a model real from a float64 (exactly).
func F(x float64) *big.Float { return fl().SetFloat64(x) }

// NewC makes a model complex from two float64 (exactly).
func NewC(re, im float64) C { return C{F(re), F(im)} }

// FromBig makes a model complex from big.Float parts (nil = 0), exactly.
func FromBig(re, im *big.Float) C {
	c := C{fl(), fl()}
	if re != nil {
		c.Re.Set(re)
	}
	if im != nil {
		c.Im.Set(im)
	}
	return c
}

func (a C) Add(b C) C { return C{fl().Add(a.Re, b.Re), fl().Add(a.Im, b.Im)} }
func (a C) Sub(b C) C { return C{fl().Sub(a.Re, b.Re), fl().Sub(a.Im, b.Im)} }
func (a C) Neg() C    { return C{fl().Neg(a.Re), fl().Neg(a.Im)} }
func (a C) Conj() C   { return C{fl().Set(a.Re), fl().Neg(a.Im)} }
func (a C) Clone() C  { return C{fl().Set(a.Re), fl().Set(a.Im)} }
func (a C) Mul(b C) C {
	re := fl().Mul(a.Re, b.Re)
	re.Sub(re, fl().Mul(a.Im, b.Im))
	im := fl().Mul(a.Re, b.Im)
	im.Add(im, fl().Mul(a.Im, b.Re))
	return C{re, im}
}

// Scale multiplies by a real.
func (a C) Scale(r *big.Float) C { return C{fl().Mul(a.Re, r), fl().Mul(a.Im, r)} }

// Abs returns an upper estimate of |a| as float64 (|re|+|im| ≥ |a|, rounded up by one ulp-ish factor).
func (a C) Abs() float64 {
	re, _ := a.Re.Float64()
	im, _ := a.Im.Float64()
	return (math.Abs(re) + math.Abs(im)) * (1 + 1e-12)
}

// Float returns the value as complex128 (for hashing / notes only).
func (a C) Float() complex128 {
	re, _ := a.Re.Float64()
	im, _ := a.Im.Float64()
	return complex(re, im)
}

// Vec is a slot vector of the model.
type Vec []C

func (v Vec) Clone() Vec {
	r := make(Vec, len(v))
	for i := range v {
		r[i] = v[i].Clone()
	}
	return r
}

// MaxAbs is an upper estimate of max_i |v_i|.
func (v Vec) MaxAbs() float64 {
	m := 0.0
	for _, x := range v {
		if a := x.Abs(); a > m {
			m = a
		}
	}
	return m
}

// Map2 applies f slot-wise.
func Map2(a, b Vec, f func(x, y C) C) Vec {
	r := make(Vec, len(a))
	for i := range a {
		r[i] = f(a[i], b[i])
	}
	return r
}

// Map1 applies f slot-wise.
func Map1(a Vec, f func(x C) C) Vec {
	r := make(Vec, len(a))
	for i := range a {
		r[i] = f(a[i])
	}
	return r
}

// RotL is the documented rotation "by k positions to the left": out[i] = in[(i+k) mod n].
func RotL(a Vec, k int) Vec {
	n := len(a)
	r := make(Vec, n)
	for i := range a {
		r[i] = a[(((i+k)%n)+n)%n]
	}
	return r
}

// Floats returns the vector as []complex128 (hashing, notes).
func (v Vec) Floats() []complex128 {
	r := make([]complex128, len(v))
	for i := range v {
		r[i] = v[i].Float()
	}
	return r
}

// Hash64 packs the vector into uint64 words for engine.Hash / c.State.
func (v Vec) Hash64() []uint64 {
	r := make([]uint64, 0, 2*len(v))
	for _, x := range v {
		f := x.Float()
		r = append(r, math.Float64bits(real(f)), math.Float64bits(imag(f)))
	}
	return r
}

// DistUpper returns an upper estimate of |a-b| as float64.
func DistUpper(a, b C) float64 { return a.Sub(b).Abs() }
