package cklib

import (
	"fmt"

	"verif/engine"
)

// The engine keeps at most 200 violating leaves per worker process. A genuine defect that sits on a hot
// path (say, one operand type that always panics) would otherwise fill that list with copies of itself
// and push a *different* violation found later in the same worker out of the report. FailOnce therefore
// records a signature for at most MaxLeavesPerSig distinct leaves per worker process; further leaves that
// run into the same signature are marked out of scope ("already reported"), which is counted in the
// evidence and never hides a different signature. A leaf that already recorded the signature records it
// again when re-executed (determinism gate, replay in a fresh process).
const MaxLeavesPerSig = 3

var recorded = map[string][]string{}

func FailOnce(c *engine.Chooser, leafKey, sig, format string, args ...interface{}) {
	l := recorded[sig]
	for _, k := range l {
		if k == leafKey {
			c.Fail(sig, format, args...)
			return
		}
	}
	if len(l) >= MaxLeavesPerSig {
		c.Skip("defect already recorded by earlier leaves of this worker: " + sig)
		return
	}
	recorded[sig] = append(l, leafKey)
	c.Fail(sig, format, args...)
}

// LeafKey builds a key from parts.
func LeafKey(parts ...interface{}) string { return fmt.Sprint(parts...) }
