package cklib

import (
	"math"

	"github.com/tuneinsight/lattigo/v6/ring"
	"github.com/tuneinsight/lattigo/v6/schemes/ckks"
)

// Bounds computes hard worst-case bounds, all expressed in the *root domain*: a bound on
// max over the N (2N in the conjugate-invariant ring) embedding roots ζ of |p(ζ)| for the polynomial p
// in question, in phase units (divide by the scale to get message units). Every slot the decoder
// returns is such an evaluation (or, for sparse packing, an average of such evaluations), and every
// coefficient of p is at most that maximum (inverse DFT = average), so the same number bounds slot
// errors and coefficient sizes.
//
// Ingredients, all declared supports and not statistics:
//   - error polynomials have integer coefficients |e_i| <= B = Xe.Bound (truncated Gaussian);
//   - the secret is ternary with l1-norm H (H is read off the key actually drawn: a sound and tighter
//     replacement for the worst case H = N);
//   - a polynomial with |coeff| <= c has |p(ζ)| <= Emb·c, Emb = N (standard ring) or 2N (conjugate
//     invariant ring, whose element c_0 + Σ c_i (X^i + X^-i) has 2N-1 monomials);
//   - |s(ζ)| <= SRoot = H·Emb/N.
type Bounds struct {
	N      int
	LogN   int
	Emb    float64
	SRoot  float64
	B      float64
	Q, P   []uint64
	Pow2   int
	EncEps float64 // unit roundoff of the encoder's arithmetic: 2^-53 (float64) or 2^-prec
}

func NewBounds(p ckks.Parameters, h, pow2 int) Bounds {
	b := Bounds{N: p.N(), LogN: p.LogN(), Q: p.Q(), P: p.P(), Pow2: pow2}
	b.Emb = float64(p.N())
	if p.RingType() == ring.ConjugateInvariant {
		b.Emb = 2 * float64(p.N())
	}
	b.SRoot = float64(h) * b.Emb / float64(p.N())
	b.B = math.Ceil(p.NoiseBound()) // declared truncation bound of Xe
	b.EncEps = math.Exp2(-float64(p.EncodingPrecision()))
	return b
}

// Fresh: secret-key encryption adds exactly one error polynomial e to the phase.
func (b Bounds) Fresh() float64 { return b.Emb * b.B }

// RescaleRound: dividing c_0..c_deg by the last prime(s) with rounding changes each coefficient of each
// c_i by at most 1 (1/2 per division, geometric tail for two primes), so the phase changes by
// r_0 + r_1 s + r_2 s^2 with |r_i coeff| <= 1: at a root at most Emb·(1 + SRoot + SRoot^2).
func (b Bounds) RescaleRound(degree int) float64 {
	t := 1.0
	pw := 1.0
	for i := 1; i <= degree; i++ {
		pw *= b.SRoot
		t += pw
	}
	return b.Emb * t
}

// KeySwitch bounds the phase error added by one gadget product (relinearisation or automorphism) at
// level `level`: Σ_digits d_j·e_j / P + ModDown rounding.
//   - hybrid (#P>=1, no base-2): ceil((level+1)/#P) digits, each digit is the residue of c modulo a
//     group of #P primes of Q, basis-extended with at most #P overflows: |d_j coeff| < (#P+1)·Qgroup;
//   - base-2^w digits (w>0, #P<=1) or no P: one digit per prime and per w-bit window, |d_j coeff| < 2^w
//     (or < q_i without windows);
//   - each e_j has |coeff| <= B; products are bounded at the roots: |d_j(ζ) e_j(ζ)| <= Emb·D · Emb·B;
//   - division by P with rounding (basis extension error <= #P) on the two components: (#P+1)·(1+SRoot)
//     per coefficient.
func (b Bounds) KeySwitch(level int) float64 {
	np := len(b.P)
	maxq := 0.0
	for _, q := range b.Q[:level+1] {
		if float64(q) > maxq {
			maxq = float64(q)
		}
	}
	var sum float64 // Σ_j max|d_j coeff|
	if np >= 1 && !(b.Pow2 > 0 && np == 1) {
		nd := (level + np) / np
		sum = float64(nd) * float64(np+1) * math.Pow(maxq, float64(np))
	} else if b.Pow2 > 0 {
		for _, q := range b.Q[:level+1] {
			w := (int(math.Ceil(math.Log2(float64(q)))) + b.Pow2 - 1) / b.Pow2
			sum += float64(w) * math.Exp2(float64(b.Pow2))
		}
	} else {
		for _, q := range b.Q[:level+1] {
			sum += float64(q)
		}
	}
	pprod := 1.0
	for _, p := range b.P {
		pprod *= float64(p)
	}
	e := sum * b.Emb * b.Emb * b.B / pprod
	if np > 0 {
		e += b.Emb * float64(np+1) * (1 + b.SRoot)
	}
	return e
}

// FFTErr bounds the error (in message units) of one run of the encoder's FFT/IFFT over values of
// magnitude <= mag: log2(N)+1 butterfly stages, each butterfly (one complex multiplication by a rounded
// root, one addition) loses at most 8 units in the last place of the running magnitude, which never
// exceeds N·mag. Also covers the float conversion of scale and coefficients (one more unit each).
func (b Bounds) FFTErr(mag float64) float64 {
	return 16 * float64(b.LogN+1) * float64(b.N) * b.EncEps * mag
}

// Encode bounds the error (message units) of encoding values of magnitude <= mag at scale `scale`:
// rounding each coefficient to an integer (1/2 per coefficient, Emb/2 at a root) plus the FFT error.
func (b Bounds) Encode(mag, scale float64) float64 {
	return b.Emb*0.5/scale + b.FFTErr(mag)
}
