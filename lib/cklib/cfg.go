package cklib

import (
	"fmt"
	"math"
	"math/big"

	"github.com/tuneinsight/lattigo/v6/core/rlwe"
	"github.com/tuneinsight/lattigo/v6/ring"
	"github.com/tuneinsight/lattigo/v6/schemes/ckks"
	"github.com/tuneinsight/lattigo/v6/utils/bignum"
	"github.com/tuneinsight/lattigo/v6/utils/sampling"

	"verif/engine"
	"verif/uni"
)

// Cfg is one tiny CKKS configuration (DESIGN §5). Primes are the NTT-friendly primes just below
// 2^bits (valid for both ring types), distinct across Q and P.
type Cfg struct {
	Name     string
	RingType ring.Type
	LogN     int
	LogQ     []int // bit sizes of the chain, level 0 first
	LogP     []int // bit sizes of the auxiliary primes (empty: no P)
	LogScale int   // log2 of the default scale; > 64 selects PREC128 (two primes per rescale)
	LogSlots int   // packing of the ciphertexts used by the check (<= LogMaxSlots); -1 = full
	Pow2     int   // BaseTwoDecomposition of the evaluation keys (0 = none); needed when there is no P
}

// Literal builds the ckks.ParametersLiteral of the configuration.
func (cf Cfg) Literal() ckks.ParametersLiteral {
	used := map[int]int{}
	take := func(bits int) uint64 {
		k := used[bits]
		used[bits]++
		return uni.Primes(cf.LogN, bits, k+1)[k]
	}
	lit := ckks.ParametersLiteral{LogN: cf.LogN, RingType: cf.RingType, LogDefaultScale: cf.LogScale}
	for _, b := range cf.LogQ {
		lit.Q = append(lit.Q, take(b))
	}
	for _, b := range cf.LogP {
		lit.P = append(lit.P, take(b))
	}
	return lit
}

// Ctx is everything built once per configuration and worker process.
type Ctx struct {
	Cfg     Cfg
	Params  ckks.Parameters
	Kgen    *rlwe.KeyGenerator
	Sk      *rlwe.SecretKey
	H       int // Hamming weight (= l1 norm, ternary) of the secret actually drawn
	Ecd     *ckks.Encoder
	Enc     *rlwe.Encryptor // secret-key encryptor: fresh noise is one error polynomial
	Dec     *rlwe.Decryptor
	Rlk     *rlwe.RelinearizationKey
	Slots   int
	LogSl   int
	EvkPar  []rlwe.EvaluationKeyParameters
	NB      Bounds
	BuildNS int64
}

// NewCtx builds parameters and keys deterministically from (seed, cfg.Name): the context does not
// depend on which leaf happens to trigger its construction, so replays see the same keys.
func NewCtx(seed uint64, cf Cfg) *Ctx {
	sampling.VerifSeed(engine.Hash(seed, "cklib.ctx", cf.Name))
	params, err := ckks.NewParametersFromLiteral(cf.Literal())
	if err != nil {
		panic(fmt.Sprintf("cklib: cfg %s: %v", cf.Name, err))
	}
	x := &Ctx{Cfg: cf, Params: params}
	x.Kgen = rlwe.NewKeyGenerator(params)
	x.Sk = x.Kgen.GenSecretKeyNew()
	for _, s := range uni.SecretCoeffs(params.Parameters, x.Sk) {
		if s.Sign() != 0 {
			if s.CmpAbs(big.NewInt(1)) != 0 {
				panic("cklib: secret is not ternary")
			}
			x.H++
		}
	}
	if cf.Pow2 > 0 {
		p2 := cf.Pow2
		x.EvkPar = []rlwe.EvaluationKeyParameters{{BaseTwoDecomposition: &p2}}
	}
	x.Ecd = ckks.NewEncoder(params)
	x.Enc = rlwe.NewEncryptor(params, x.Sk)
	x.Dec = rlwe.NewDecryptor(params, x.Sk)
	x.Rlk = x.Kgen.GenRelinearizationKeyNew(x.Sk, x.EvkPar...)
	x.LogSl = cf.LogSlots
	if x.LogSl < 0 || x.LogSl > params.LogMaxSlots() {
		x.LogSl = params.LogMaxSlots()
	}
	x.Slots = 1 << x.LogSl
	x.NB = NewBounds(params, x.H, cf.Pow2)
	return x
}

// GaloisKeys generates keys for exactly the given elements.
func (x *Ctx) GaloisKeys(galEls []uint64) []*rlwe.GaloisKey {
	return x.Kgen.GenGaloisKeysNew(galEls, x.Sk, x.EvkPar...)
}

// Evaluator returns a ckks evaluator holding the relinearization key and keys for exactly galEls.
func (x *Ctx) Evaluator(galEls []uint64) *ckks.Evaluator {
	return ckks.NewEvaluator(x.Params, rlwe.NewMemEvaluationKeySet(x.Rlk, x.GaloisKeys(galEls)...))
}

// EncryptVec encodes v (model vector, len <= slots) at the given level/scale/logSlots and encrypts it
// under the secret key. Inputs are float64-exact so []complex128 carries them without loss.
func (x *Ctx) EncryptVec(v Vec, level int, scale rlwe.Scale, logSlots int) *rlwe.Ciphertext {
	pt := x.EncodeVec(v, level, scale, logSlots)
	ct, err := x.Enc.EncryptNew(pt)
	if err != nil {
		panic(err)
	}
	return ct
}

// EncodeVec encodes v on a fresh plaintext.
func (x *Ctx) EncodeVec(v Vec, level int, scale rlwe.Scale, logSlots int) *rlwe.Plaintext {
	pt := ckks.NewPlaintext(x.Params, level)
	pt.Scale = scale
	pt.LogDimensions.Cols = logSlots
	var err error
	if x.Params.RingType() == ring.ConjugateInvariant {
		f := make([]float64, len(v))
		for i := range v {
			f[i], _ = v[i].Re.Float64()
		}
		err = x.Ecd.Encode(f, pt)
	} else {
		err = x.Ecd.Encode(v.Floats(), pt)
	}
	if err != nil {
		panic(err)
	}
	return pt
}

// DecryptDecode decrypts with the library decryptor and decodes with the library decoder using the
// metadata recorded on the ciphertext, into model numbers.
func (x *Ctx) DecryptDecode(ct *rlwe.Ciphertext) (Vec, error) {
	pt := x.Dec.DecryptNew(ct)
	return x.DecodePt(pt)
}

// DecodePt decodes a plaintext (slot encoding) using its own metadata.
func (x *Ctx) DecodePt(pt *rlwe.Plaintext) (Vec, error) {
	ls := pt.LogDimensions.Cols
	if ls < 0 || ls > x.Params.LogMaxSlots() {
		return nil, fmt.Errorf("LogDimensions.Cols=%d out of range", ls)
	}
	n := 1 << ls
	// A ShallowCopy has fresh zero buffers and shares the (read-only) roots: every decode is a first decode,
	// independent of what this process decoded before (the arbitrary-precision decoder of the conjugate-
	// invariant ring is known to depend on it: C06 finding "decode/.../stale-imaginary-part", pinned by its own
	// scenario).
	ecd := x.Ecd.ShallowCopy()
	if ecd.Prec() <= 53 {
		out := make([]complex128, n)
		if err := ecd.Decode(pt, out); err != nil {
			return nil, err
		}
		v := make(Vec, n)
		for i := range v {
			v[i] = NewC(real(out[i]), imag(out[i]))
		}
		return v, nil
	}
	outB := make([]*bignum.Complex, n)
	if err := ecd.Decode(pt, outB); err != nil {
		return nil, err
	}
	v := make(Vec, n)
	for i := range v {
		v[i] = FromBig(outB[i][0], outB[i][1])
	}
	return v, nil
}

// Log2 of a scale (float64, notes only).
func Log2Scale(s rlwe.Scale) float64 {
	f, _ := s.Value.Float64()
	if f == 0 || math.IsInf(f, 0) {
		m := new(big.Float)
		e := s.Value.MantExp(m)
		mf, _ := m.Float64()
		return float64(e) + math.Log2(mf)
	}
	return math.Log2(f)
}
