// Package rk ("rlwe kit") holds the helpers shared by checks C03 and C04: the catalogue of modulus
// chains, cached parameter construction, ring-type aware integer reference arithmetic (phase over Q
// and over QP with the secret lifted to Z), declared supports / nominal deviations of the error and
// secret distributions, and small statistics helpers. Nothing here calls rlwe.Decryptor or any
// evaluator: it is the independent side of the oracles.
package rk

import (
	"fmt"
	"math"
	"math/big"
	"sync"

	"github.com/tuneinsight/lattigo/v6/core/rlwe"
	"github.com/tuneinsight/lattigo/v6/ring"
	"github.com/tuneinsight/lattigo/v6/ring/ringqp"

	"verif/ref"
	"verif/uni"
)

// ---------------------------------------------------------------------------------------------
// modulus chains

// Chain is a shape of a modulus chain: bit-sizes of the primes of Q and of P.
type Chain struct {
	Name  string
	QBits []int
	PBits []int
}

// Moduli returns pairwise distinct NTT-friendly primes of the requested sizes. They are ≡ 1 mod
// 2^(maxLogN+2), hence valid for the standard and the conjugate-invariant ring of every degree up to
// 2^maxLogN (needed for ring-degree switching, where both degrees must share Q).
func (ch Chain) Moduli(maxLogN int) (q, p []uint64) {
	need := map[int]int{}
	for _, b := range ch.QBits {
		need[b]++
	}
	for _, b := range ch.PBits {
		need[b]++
	}
	pool := map[int][]uint64{}
	for b, k := range need {
		if b < 0 { // −b: primes just ABOVE 2^|b| (bit length |b|+1 although log2 rounds to |b|)
			pool[b] = ref.PrimesNear(uint64(1)<<uint(-b), uint64(1)<<uint(maxLogN+2), k, false)
		} else {
			pool[b] = uni.Primes(maxLogN, b, k)
		}
	}
	take := func(b int) uint64 {
		v := pool[b][0]
		pool[b] = pool[b][1:]
		return v
	}
	for _, b := range ch.QBits {
		q = append(q, take(b))
	}
	for _, b := range ch.PBits {
		p = append(p, take(b))
	}
	return
}

// Lit builds a parameter literal on the chain.
func (ch Chain) Lit(logN, maxLogN int, rt ring.Type, ntt bool, xs, xe ring.DistributionParameters) rlwe.ParametersLiteral {
	q, p := ch.Moduli(maxLogN)
	return rlwe.ParametersLiteral{LogN: logN, Q: q, P: p, Xs: xs, Xe: xe, RingType: rt, NTTFlag: ntt}
}

var (
	pmu    sync.Mutex
	pcache = map[string]rlwe.Parameters{}
)

// Params builds (and caches per process: construction factors q-1 for every prime, ≈10 ms) the
// parameters of a literal. A literal the library rejects is a harness error here: the catalogue only
// contains literals that are plainly admissible.
func Params(lit rlwe.ParametersLiteral) rlwe.Parameters {
	key := fmt.Sprintf("%d|%v|%v|%#v|%#v|%d|%v", lit.LogN, lit.Q, lit.P, lit.Xs, lit.Xe, lit.RingType, lit.NTTFlag)
	pmu.Lock()
	defer pmu.Unlock()
	if p, ok := pcache[key]; ok {
		return p
	}
	p, err := rlwe.NewParametersFromLiteral(lit)
	if err != nil {
		panic(fmt.Sprintf("rk.Params: %v (%s)", err, key))
	}
	pcache[key] = p
	return p
}

// ---------------------------------------------------------------------------------------------
// declared distributions

// AbsBound is the largest absolute value the declared distribution can produce: a hard consequence
// of the declared truncation (Gaussian: the sampler rejects |x| > Bound before rounding half-up, so
// |x| ≤ floor(Bound+1/2) ≤ ceil(Bound)); ternary: 1.
func AbsBound(d ring.DistributionParameters) int64 {
	switch d := d.(type) {
	case ring.DiscreteGaussian:
		return int64(math.Ceil(d.Bound))
	case ring.Ternary:
		return 1
	}
	panic("rk.AbsBound: unknown distribution")
}

// Sigma is the nominal standard deviation of one coefficient, from the definition of the
// distribution (not from rlwe.Distribution.Std): Gaussian σ; Ternary{P}: P is the probability of a
// non-zero coefficient (±1 equiprobable) → sqrt(P); Ternary{H}: exactly H of N coefficients are ±1.
func Sigma(d ring.DistributionParameters, n int) float64 {
	switch d := d.(type) {
	case ring.DiscreteGaussian:
		return d.Sigma
	case ring.Ternary:
		if d.H != 0 {
			return math.Sqrt(float64(d.H) / float64(n))
		}
		return math.Sqrt(d.P)
	}
	panic("rk.Sigma: unknown distribution")
}

// DistName is a short stable name for coverage buckets.
func DistName(d ring.DistributionParameters) string {
	switch d := d.(type) {
	case ring.DiscreteGaussian:
		return fmt.Sprintf("Gauss(%.3g,%.3g)", d.Sigma, d.Bound)
	case ring.Ternary:
		if d.H != 0 {
			return fmt.Sprintf("TernaryH%d", d.H)
		}
		return fmt.Sprintf("TernaryP%.2f", d.P)
	}
	return "?"
}

// ---------------------------------------------------------------------------------------------
// integer polynomials (coefficient vectors over Z), ring-type aware

// Unfold maps the N-coefficient compressed form of an element of Z[X+X^-1]/(X^2N+1) to its 2N
// coefficients in Z[X]/(X^2N+1): coefficient i (1 ≤ i < N) stands for X^i + X^-i = X^i − X^(2N−i).
func Unfold(a []*big.Int) []*big.Int {
	n := len(a)
	u := make([]*big.Int, 2*n)
	for i := range u {
		u[i] = new(big.Int)
	}
	u[0].Set(a[0])
	for i := 1; i < n; i++ {
		u[i].Set(a[i])
		u[2*n-i].Neg(a[i])
	}
	return u
}

// Mul multiplies two elements of the ring of the given type over Z (no modulus).
func Mul(rt ring.Type, a, b []*big.Int) []*big.Int {
	if rt == ring.ConjugateInvariant {
		return ref.BigNegacyclicMul(Unfold(a), Unfold(b))[:len(a)]
	}
	return ref.BigNegacyclicMul(a, b)
}

// Auto applies X -> X^g (g odd) over Z. For the conjugate-invariant ring the map is taken in the
// 2N-coefficient ring and folded back (the image is again conjugate invariant).
func Auto(rt ring.Type, a []*big.Int, g uint64) []*big.Int {
	src := a
	if rt == ring.ConjugateInvariant {
		src = Unfold(a)
	}
	n := uint64(len(src))
	out := make([]*big.Int, n)
	for i := range out {
		out[i] = new(big.Int)
	}
	for i := uint64(0); i < n; i++ {
		k := (i * (g % (2 * n))) % (2 * n)
		if k >= n {
			out[k-n].Neg(src[i])
		} else {
			out[k].Set(src[i])
		}
	}
	return out[:len(a)]
}

// Embed maps a(Y) to a(X^gap) in the ring of degree gap·len(a) (Y = X^gap).
func Embed(a []*big.Int, gap int) []*big.Int {
	out := make([]*big.Int, len(a)*gap)
	for i := range out {
		out[i] = new(big.Int)
	}
	for i := range a {
		out[i*gap].Set(a[i])
	}
	return out
}

// Subsample keeps the coefficients of X^(i·gap).
func Subsample(a []*big.Int, gap int) []*big.Int {
	out := make([]*big.Int, len(a)/gap)
	for i := range out {
		out[i] = new(big.Int).Set(a[i*gap])
	}
	return out
}

// AddMod returns a+b centred mod Q.
func AddMod(a, b []*big.Int, Q *big.Int) []*big.Int {
	r := make([]*big.Int, len(a))
	for i := range a {
		r[i] = ref.Center(new(big.Int).Add(a[i], b[i]), Q)
	}
	return r
}

// CenterAll centres every coefficient mod Q.
func CenterAll(a []*big.Int, Q *big.Int) []*big.Int {
	r := make([]*big.Int, len(a))
	for i := range a {
		r[i] = ref.Center(a[i], Q)
	}
	return r
}

// Equal reports coefficient-wise equality.
func Equal(a, b []*big.Int) bool {
	if len(a) != len(b) {
		return false
	}
	for i := range a {
		if a[i].Cmp(b[i]) != 0 {
			return false
		}
	}
	return true
}

// IsZero reports whether all coefficients are zero.
func IsZero(a []*big.Int) bool {
	for _, x := range a {
		if x.Sign() != 0 {
			return false
		}
	}
	return true
}

// Norm2 returns Σ a_i² as float (small coefficients only).
func Norm2(a []*big.Int) float64 {
	s := 0.0
	for _, x := range a {
		f, _ := new(big.Float).SetInt(x).Float64()
		s += f * f
	}
	return s
}

// UnfNorm2 is the squared 2-norm of the element as seen by the ring product: the plain one in the
// standard ring, the one of the unfolded element in the conjugate-invariant ring.
func UnfNorm2(rt ring.Type, a []*big.Int) float64 {
	if rt == ring.ConjugateInvariant {
		return Norm2(Unfold(a))
	}
	return Norm2(a)
}

// ---------------------------------------------------------------------------------------------
// CRT with the per-chain constants cached (ref.CRT recomputes a modular inverse per coefficient)

type crtConsts struct {
	Q *big.Int
	c []*big.Int // c_i = (Q/q_i)·((Q/q_i)^-1 mod q_i): x = Σ res_i·c_i mod Q
}

var (
	crtMu    sync.Mutex
	crtCache = map[string]*crtConsts{}
)

func crtFor(moduli []uint64) *crtConsts {
	key := fmt.Sprint(moduli)
	crtMu.Lock()
	defer crtMu.Unlock()
	if c, ok := crtCache[key]; ok {
		return c
	}
	cc := &crtConsts{Q: ref.Prod(moduli)}
	for _, q := range moduli {
		qi := new(big.Int).SetUint64(q)
		Qi := new(big.Int).Quo(cc.Q, qi)
		inv := new(big.Int).ModInverse(new(big.Int).Mod(Qi, qi), qi)
		cc.c = append(cc.c, Qi.Mul(Qi, inv))
	}
	crtCache[key] = cc
	return cc
}

// PolyCRT reconstructs all coefficients of an RNS polynomial rows[i][j] (residues, any uint64
// representative) as integers in [0, Π moduli).
func PolyCRT(rows [][]uint64, moduli []uint64) []*big.Int {
	cc := crtFor(moduli)
	n := len(rows[0])
	out := make([]*big.Int, n)
	t := new(big.Int)
	for j := 0; j < n; j++ {
		x := new(big.Int)
		for i, q := range moduli {
			t.SetUint64(rows[i][j] % q)
			t.Mul(t, cc.c[i])
			x.Add(x, t)
		}
		out[j] = x.Mod(x, cc.Q)
	}
	return out
}

// PolyCoeffs returns the coefficients of an RNS polynomial at `level` as integers in [0,Q_level),
// taken out of the NTT / Montgomery domains as flagged. The input is not modified.
func PolyCoeffs(rQ *ring.Ring, p ring.Poly, level int, isNTT, isMont bool) []*big.Int {
	r := rQ.AtLevel(level)
	t := r.NewPoly()
	for i := 0; i <= level; i++ {
		copy(t.Coeffs[i], p.Coeffs[i])
	}
	if isNTT {
		r.INTT(t, t)
	}
	if isMont {
		r.IMForm(t, t)
	}
	return PolyCRT(t.Coeffs[:level+1], r.ModuliChain()[:level+1])
}

// ---------------------------------------------------------------------------------------------
// reading library objects into Z

// Secret returns the secret as centred integer coefficients (uni.SecretCoeffs reads the q0 row; all
// secrets here have |s_i| far below q0/2).
func Secret(params rlwe.Parameters, sk *rlwe.SecretKey) []*big.Int {
	return uni.SecretCoeffs(params, sk)
}

// CoeffsQ returns the coefficients of p mod Q_level as centred integers, honouring the flags.
func CoeffsQ(rQ *ring.Ring, p ring.Poly, level int, isNTT, isMont bool) []*big.Int {
	c := PolyCoeffs(rQ, p, level, isNTT, isMont)
	return CenterAll(c, ref.Prod(rQ.ModuliChain()[:level+1]))
}

// CoeffsQP returns the coefficients of p over the modulus Q_levelQ·P_levelP (levelP = -1: Q only) as
// integers in [0, QP), honouring the flags, together with QP. The input is not modified.
func CoeffsQP(rQP *ringqp.Ring, p ringqp.Poly, levelQ, levelP int, isNTT, isMont bool) ([]*big.Int, *big.Int) {
	r := rQP.AtLevel(levelQ, levelP)
	var rows [][]uint64
	var moduli []uint64
	tq := r.RingQ.NewPoly()
	for i := 0; i <= levelQ; i++ {
		copy(tq.Coeffs[i], p.Q.Coeffs[i])
	}
	if isNTT {
		r.RingQ.INTT(tq, tq)
	}
	if isMont {
		r.RingQ.IMForm(tq, tq)
	}
	rows = append(rows, tq.Coeffs[:levelQ+1]...)
	moduli = append(moduli, r.RingQ.ModuliChain()[:levelQ+1]...)
	if levelP >= 0 {
		tp := r.RingP.NewPoly()
		for i := 0; i <= levelP; i++ {
			copy(tp.Coeffs[i], p.P.Coeffs[i])
		}
		if isNTT {
			r.RingP.INTT(tp, tp)
		}
		if isMont {
			r.RingP.IMForm(tp, tp)
		}
		rows = append(rows, tp.Coeffs[:levelP+1]...)
		moduli = append(moduli, r.RingP.ModuliChain()[:levelP+1]...)
	}
	return PolyCRT(rows, moduli), ref.Prod(moduli)
}

// SetPoly writes the integer coefficients (any sign) into an RNS polynomial of rQ at `level`, then
// moves it into the Montgomery / NTT domains as flagged (the inverse of CoeffsQ).
func SetPoly(rQ *ring.Ring, level int, coeffs []*big.Int, isNTT, isMont bool, out ring.Poly) {
	r := rQ.AtLevel(level)
	for i, q := range r.ModuliChain()[:level+1] {
		for j := range coeffs {
			out.Coeffs[i][j] = ref.ModU(coeffs[j], q)
		}
	}
	if isMont {
		r.MForm(out, out)
	}
	if isNTT {
		r.NTT(out, out)
	}
}

// Phase returns Σ_d c_d·s^d centred mod Q_level for an element over Q, with the product of the ring
// type and the secret given as integer coefficients (so that it can be the key of another parameter
// set). Independent of rlwe.Decryptor.
func Phase(rt ring.Type, rQ *ring.Ring, el *rlwe.Element[ring.Poly], s []*big.Int) []*big.Int {
	level := el.Level()
	Q := ref.Prod(rQ.ModuliChain()[:level+1])
	n := len(s)
	acc := make([]*big.Int, n)
	spow := make([]*big.Int, n)
	for j := range acc {
		acc[j] = new(big.Int)
		spow[j] = new(big.Int)
	}
	spow[0].SetInt64(1)
	for d := 0; d <= el.Degree(); d++ {
		cd := PolyCoeffs(rQ, el.Value[d], level, el.IsNTT, el.IsMontgomery)
		term := Mul(rt, cd, spow)
		for j := range acc {
			acc[j].Add(acc[j], term[j])
			acc[j].Mod(acc[j], Q)
		}
		if d < el.Degree() {
			spow = CenterAll(Mul(rt, spow, s), Q)
		}
	}
	return CenterAll(acc, Q)
}

// PhaseQP returns c0 + c1·s centred mod QP for a degree-1 sample over QP (key rows).
func PhaseQP(rt ring.Type, rQP *ringqp.Ring, c0, c1 ringqp.Poly, levelQ, levelP int, isNTT, isMont bool, s []*big.Int) ([]*big.Int, *big.Int) {
	a0, QP := CoeffsQP(rQP, c0, levelQ, levelP, isNTT, isMont)
	a1, _ := CoeffsQP(rQP, c1, levelQ, levelP, isNTT, isMont)
	t := Mul(rt, a1, s)
	for j := range t {
		t[j].Add(t[j], a0[j])
	}
	return CenterAll(t, QP), QP
}

// ---------------------------------------------------------------------------------------------
// statistics on small integer vectors

// Pool accumulates small integer samples for the lower-bound clauses.
type Pool struct {
	N       int
	Sum2    float64
	NonZero int
}

// Add pools the coefficients.
func (p *Pool) Add(a []*big.Int) {
	for _, x := range a {
		f, _ := new(big.Float).SetInt(x).Float64()
		p.Sum2 += f * f
		if x.Sign() != 0 {
			p.NonZero++
		}
		p.N++
	}
}

// Std is the empirical root mean square (the distributions are centred).
func (p *Pool) Std() float64 {
	if p.N == 0 {
		return 0
	}
	return math.Sqrt(p.Sum2 / float64(p.N))
}

// HashPoly is a cheap fingerprint of a coefficient vector (for "differs" clauses and outcomes).
func HashPoly(a []*big.Int) string {
	s := ""
	for _, x := range a {
		s += x.Text(36) + ","
	}
	return s
}
