package optable

import (
	"fmt"
	"math/big"
	"reflect"

	"github.com/tuneinsight/lattigo/v6/core/rlwe"
	"github.com/tuneinsight/lattigo/v6/ring/ringqp"
	"github.com/tuneinsight/lattigo/v6/schemes/ckks"
	"github.com/tuneinsight/lattigo/v6/utils/bignum"
)

// ---------------------------------------------------------------------------------------------
// ckks.Evaluator (schemes/ckks/evaluator.go, linear_transformation.go)

type ckksE = *ckks.Evaluator

func bigF(x float64) *big.Float { return new(big.Float).SetPrec(128).SetFloat64(x) }

// ckksBinKinds: op1 may be an rlwe.ElementInterface, complex128, float64, int, int64, uint, uint64,
// *big.Int, *big.Float, *bignum.Complex, []complex128, []float64, []*big.Float, []*bignum.Complex.
// The default scale is 2^40; "scale" kinds use operands whose scales differ by an integer factor
// (the evaluator then multiplies the smaller-scale operand by the ratio).
func ckksBinKinds() []Kind {
	n := []string{"op0", "op1"}
	mk := func(name, class string, d0, dl0 int, s0 float64, op1 func(e *Env, g *Gen) interface{}) Kind {
		return Kind{Name: name, Class: class, Names: n, Make: func(e *Env, g *Gen) []interface{} {
			a := g.Ct(e, d0, e.MaxLevel()+dl0)
			if s0 != 0 {
				a.Scale = e.CKKSScale(40, s0)
			}
			return []interface{}{a, op1(e, g)}
		}}
	}
	ctOp := func(d, dl int, s float64) func(e *Env, g *Gen) interface{} {
		return func(e *Env, g *Gen) interface{} {
			b := g.Ct(e, d, e.MaxLevel()+dl)
			if s != 0 {
				b.Scale = e.CKKSScale(40, s)
			}
			return b
		}
	}
	ptOp := func(dl int, s float64) func(e *Env, g *Gen) interface{} {
		return func(e *Env, g *Gen) interface{} {
			b := g.Pt(e, e.MaxLevel()+dl)
			if s != 0 {
				b.Scale = e.CKKSScale(40, s)
			}
			return b
		}
	}
	c := func(v interface{}) func(*Env, *Gen) interface{} { return func(*Env, *Gen) interface{} { return v } }
	slots := func(e *Env) int { return e.CKKS.MaxSlots() }
	// big-number scalar value alphabet (*big.Int, *big.Float, *bignum.Complex): zero, units, non-integers, Gaussian
	// integers, negative, beyond 2^64 — the scalar path branches on IsInt() and on the sign; inputs-intact oracle
	// on the big-number argument itself
	bigAlphabet := func() []Kind {
		var r []Kind
		add := func(name, class string, v func() interface{}) {
			k := mk("ct1-"+name, class, 1, 0, 3, func(*Env, *Gen) interface{} { return v() })
			k.Light = true
			r = append(r, k)
		}
		for _, x := range []int64{0, 1, -1, 97} {
			x := x
			add("bigint="+itoa(int(x)), "bigint", func() interface{} { return big.NewInt(x) })
		}
		add("bigint=2^130+7", "bigint", func() interface{} { v := new(big.Int).Lsh(big.NewInt(1), 130); return v.Add(v, big.NewInt(7)) })
		for _, x := range []float64{0, 1, -2, 0.5, -1e-9, 3e30} {
			x := x
			add("bigfloat="+ftoa(x), "bigfloat", func() interface{} { return bigF(x) })
		}
		for _, x := range [][2]float64{{0, 0}, {2, -3}, {0, 1}, {0.5, 0}, {-1.25, 7}} {
			x := x
			add("bigcomplex="+ftoa(x[0])+","+ftoa(x[1]), "bigcomplex", func() interface{} { return &bignum.Complex{bigF(x[0]), bigF(x[1])} })
		}
		return r
	}()
	return append([]Kind{
		// ciphertext x ciphertext: every (degree of op0, degree of op1) in {1,2}^2 crossed with equal / smaller /
		// larger scale of op0 (evaluateInPlace has one branch per (aliasing, scale order)), the level relation
		// varying along the list; each kind is then crossed with every aliasing pattern
		mk("ct1-ct1", "ct-ct", 1, 0, 0, ctOp(1, 0, 0)),
		mk("ct1-ct1/scale<", "ct-ct/scale", 1, 0, 1, ctOp(1, 0, 3)),
		mk("ct1-ct1/scale>", "ct-ct/scale", 1, 0, 6, ctOp(1, -1, 2)),
		mk("ct1-ct1/level", "ct-ct", 1, -1, 0, ctOp(1, 0, 0)),
		mk("ct1-ct2", "ct-ct/degree", 1, -1, 0, ctOp(2, 0, 0)),
		mk("ct1-ct2/scale<", "ct-ct/degree+scale", 1, 0, 1, ctOp(2, 0, 5)),
		mk("ct1-ct2/scale>", "ct-ct/degree+scale", 1, 0, 6, ctOp(2, -1, 3)),
		mk("ct2-ct1", "ct-ct/degree", 2, 0, 0, ctOp(1, -1, 0)),
		mk("ct2-ct1/scale<", "ct-ct/degree+scale", 2, -1, 1, ctOp(1, 0, 3)),
		mk("ct2-ct1/scale>", "ct-ct/degree+scale", 2, 0, 4, ctOp(1, 0, 1)),
		mk("ct2-ct2", "ct-ct/degree2", 2, 0, 0, ctOp(2, 0, 0)),
		mk("ct2-ct2/scale<", "ct-ct/degree2+scale", 2, 0, 1, ctOp(2, -1, 3)),
		mk("ct2-ct2/scale>", "ct-ct/degree2+scale", 2, -1, 6, ctOp(2, 0, 2)),
		// ciphertext x plaintext (degree 0): degrees 1 and 2 crossed with equal / smaller / larger scale
		mk("ct1-pt", "ct-pt", 1, 0, 0, ptOp(0, 0)),
		mk("ct1-pt/scale<", "ct-pt/scale", 1, 0, 1, ptOp(-1, 3)),
		mk("ct1-pt/scale>", "ct-pt/scale", 1, -1, 6, ptOp(0, 2)),
		mk("ct2-pt", "ct-pt", 2, -1, 0, ptOp(0, 0)),
		mk("ct2-pt/scale<", "ct-pt/scale", 2, 0, 1, ptOp(0, 3)),
		mk("ct2-pt/scale>", "ct-pt/scale", 2, -1, 6, ptOp(0, 2)),
		mk("ct1-complex128", "complex128", 1, 0, 0, c(complex(1.5, -2.25))),
		mk("ct2-complex128/int", "complex128", 2, -1, 3, c(complex(3, -2))),
		mk("ct1-float64", "float64", 1, 0, 0, c(float64(0.3))),
		mk("ct1-int", "int", 1, 0, 3, c(int(-7))),
		mk("ct1-int64", "int64", 1, 0, 3, c(int64(1)<<41)),
		mk("ct1-uint", "uint", 1, 0, 3, c(uint(5))),
		mk("ct1-uint64", "uint64", 1, 0, 3, c(uint64(1)<<63)),
		mk("ct1-bigint", "bigint", 1, 0, 3, func(*Env, *Gen) interface{} { return new(big.Int).Lsh(big.NewInt(-12345), 70) }),
		mk("ct1-bigfloat", "bigfloat", 1, 0, 3, func(*Env, *Gen) interface{} { return bigF(-0.7) }),
		mk("ct2-bigcomplex", "bigcomplex", 2, -1, 3, func(*Env, *Gen) interface{} { return &bignum.Complex{bigF(0.25), bigF(-3)} }),
		withHistory(mk("ct1-[]complex128", "[]complex128", 1, 0, 3, func(e *Env, g *Gen) interface{} {
			v := make([]complex128, slots(e))
			for i := range v {
				v[i] = complex(float64(g.U64()%1000)/500-1, float64(g.U64()%1000)/500-1)
			}
			return v
		})),
		// scale 2^70: beyond the 53 bits of a float64 mantissa, so the result tells a default-precision encoder
		// from an arbitrary-precision one (environment ckks-prec)
		mk("ct1/scale=2^70-[]float64", "[]float64", 1, 0, float64(1<<30), func(e *Env, g *Gen) interface{} {
			v := make([]float64, slots(e))
			for i := range v {
				v[i] = float64(g.U64()%1000003)/1000003 - 0.5
			}
			return v
		}),
		mk("ct2-[]float64", "[]float64", 2, -1, 3, func(e *Env, g *Gen) interface{} {
			v := make([]float64, slots(e)-3)
			for i := range v {
				v[i] = float64(g.U64()%1000)/500 - 1
			}
			return v
		}),
		mk("ct1-[]bigfloat", "[]bigfloat", 1, 0, 3, func(e *Env, g *Gen) interface{} {
			v := make([]*big.Float, slots(e))
			for i := range v {
				v[i] = bigF(float64(g.U64()%1000)/500 - 1)
			}
			return v
		}),
		mk("ct1-[]bigcomplex", "[]bigcomplex", 1, -1, 3, func(e *Env, g *Gen) interface{} {
			v := make([]*bignum.Complex, slots(e))
			for i := range v {
				v[i] = &bignum.Complex{bigF(float64(g.U64()%1000)/500 - 1), bigF(float64(g.U64()%1000)/500 - 1)}
			}
			return v
		}),
	}, bigAlphabet...)
}

func withHistory(k Kind) Kind { k.History = true; return k }

func ftoa(x float64) string { return fmt.Sprint(x) }

func ckksEvaluatorTarget() *Target {
	bk := ckksBinKinds()
	sc := func(log2 int, mul float64) func(e *Env, ct *rlwe.Ciphertext) {
		return func(e *Env, ct *rlwe.Ciphertext) { ct.Scale = e.CKKSScale(log2, mul) }
	}
	unK := []Kind{
		ctKind("ct1", 1, 0, nil),
		ctKind("ct1/scale+level", 1, -1, sc(41, 1.5)),
		ctKind("ct2/scale", 2, 0, sc(80, 1)),
	}
	un1 := unK[:2]
	// ciphertexts whose scale asks for 0, 1 and 2 rescalings
	resK := []Kind{
		ctKind("ct1/scale=2^80", 1, 0, sc(80, 1)),
		ctKind("ct2/scale=2^120", 2, 0, sc(120, 1)),
		ctKind("ct1/scale=2^40", 1, -1, sc(40, 1)),
	}
	withArg := func(ks []Kind, label string, argName string, vals ...interface{}) []Kind {
		var r []Kind
		for _, k := range ks {
			for i, v := range vals {
				k, v := k, v
				r = append(r, Kind{Name: k.Name + "/" + label + string(rune('a'+i)), Class: "ct", Names: []string{"op0", argName},
					Make: func(e *Env, g *Gen) []interface{} { return append(k.Make(e, g), v) }})
			}
		}
		return r
	}
	withInt := func(ks []Kind, label string, vals ...int) []Kind {
		var r []Kind
		for _, k := range ks {
			for _, v := range vals {
				k, v := k, v
				r = append(r, Kind{Name: k.Name + "/" + label + "=" + itoa(v), Class: "ct", Names: []string{"op0", label},
					Make: func(e *Env, g *Gen) []interface{} { return append(k.Make(e, g), v) }})
			}
		}
		return r
	}
	with2Int := func(ks []Kind, pairs ...[2]int) []Kind {
		var r []Kind
		for _, k := range ks {
			for _, p := range pairs {
				k, p := k, p
				r = append(r, Kind{Name: k.Name + "/batch=" + itoa(p[0]) + ",n=" + itoa(p[1]), Class: "ct", Names: []string{"ctIn", "batchSize", "n"},
					Make: func(e *Env, g *Gen) []interface{} { return append(k.Make(e, g), p[0], p[1]) }})
			}
		}
		return r
	}
	same := func(d0, _ int) int { return d0 }
	accScale := func(e *Env, in []interface{}) rlwe.Scale { return e.CKKSScale(78, 1) }
	rots := []int{1, 0, 3, -2}
	rotK := func() []Kind {
		var r []Kind
		for _, k := range un1 {
			k := k
			r = append(r, Kind{Name: k.Name + "/rots", Class: "ct", Names: []string{"ctIn", "rotations"},
				Make: func(e *Env, g *Gen) []interface{} { return append(k.Make(e, g), append([]int(nil), rots...)) }})
		}
		return r
	}()

	t := &Target{
		Name: "ckks.Evaluator", Envs: []string{"ckks", "ckks-1p", "ckks-prec", "ckks-ci"},
		Type: reflect.TypeOf(&ckks.Evaluator{}),
		New: func(e *Env) interface{} {
			ev := ckks.NewEvaluator(e.CKKS, e.Evk)
			if e.Prec != 0 {
				ev.Encoder = ckks.NewEncoder(e.CKKS, e.Prec)
			}
			return ev
		},
		Shared: func(e *Env) []interface{} { return []interface{}{e.Evk} },
		NotTabled: map[string]string{
			"BuffQ": "accessor returning the internal buffers", "GetParameters": "accessor", "GetRLWEParameters": "accessor",
			"ShallowCopy": "copy constructor (C10)", "WithKey": "copy constructor (C10)",
		},
	}
	t.Rows = []Row{
		binRow("Add", ckksE.Add, bk, ctOut(degMax, allShapes), "Add adds op1 to op0 and returns the result in opOut."),
		binNewRow("AddNew", ckksE.AddNew, bk, "returns the result in a newly created element opOut"),
		binRow("Sub", ckksE.Sub, bk, ctOut(degMax, allShapes), "Sub subtracts op1 from op0 and returns the result in opOut."),
		binNewRow("SubNew", ckksE.SubNew, bk, "returns the result in a newly created element opOut"),
		binRow("Mul", ckksE.Mul, bk, ctOut(degSum, allShapes), "Mul multiplies op0 with op1 without relinearization and returns the result in opOut."),
		binNewRow("MulNew", ckksE.MulNew, bk, "returns the result in a newly created element opOut"),
		binRow("MulRelin", ckksE.MulRelin, bk, ctOut(degRelin, allShapes), "MulRelin multiplies op0 with op1 with relinearization and returns the result in opOut."),
		binNewRow("MulRelinNew", ckksE.MulRelinNew, bk, "returns the result in a newly created element"),
		binRow("MulThenAdd", ckksE.MulThenAdd, bk, ctAcc(degSum, accScale, "MulThenAdd"),
			"MulThenAdd evaluates opOut = opOut + op0 * op1; error if op0 == opOut or op1 == opOut (element operands)"),
		binRow("MulRelinThenAdd", ckksE.MulRelinThenAdd, bk, ctAcc(degRelin, accScale, "MulRelinThenAdd"),
			"MulRelinThenAdd multiplies op0 with op1 with relinearization and adds the result on opOut"),
		unRow("Rescale", ckksE.Rescale, unK, &OutSpec{Shapes: []Shape{ShapeDirtyWords, ShapeDirtyMeta, ShapeLargerDegree, ShapeLargerLevel, ShapeSmallerLevel},
			New: func(e *Env, in []interface{}, dDeg, dLvl int) interface{} {
				d, l := degLvl(in[0])
				return e.NewCt(d+dDeg, l-1+dLvl)
			}}, "Rescale divides op0 by the last prime of the moduli chain and returns the result in opOut"),
		{Method: "RescaleTo", Doc: "RescaleTo divides op0 by the last moduli until its scale would fall below minScale/2, result in opOut",
			Kinds: withArg(resK, "min", "minScale", rlwe.NewScale(new(big.Float).SetMantExp(big.NewFloat(1), 40))),
			Out: &OutSpec{Shapes: allShapes, New: func(e *Env, in []interface{}, dDeg, dLvl int) interface{} {
				ct := asCt(in[0])
				drop := int(ct.Scale.Log2()+0.5)/40 - 1
				return e.NewCt(ct.Degree()+dDeg, ct.Level()-drop+dLvl)
			}},
			Call: func(rcv interface{}, in []interface{}, o interface{}) (interface{}, error) {
				return o, rcv.(ckksE).RescaleTo(asCt(in[0]), in[1].(rlwe.Scale), asCt(o))
			}},
		unNewRow("RelinearizeNew", ckksE.RelinearizeNew, unK[2:], "applies the relinearization procedure on op0 and returns the result in a newly created opOut"),
		{Method: "ApplyEvaluationKeyNew", Doc: "re-encrypts op0 under a different key and returns the result in a newly created element",
			Kinds: []Kind{ctKind("ct1-evk", 1, 0, nil, func(e *Env) interface{} { return e.Swk }), ctKind("ct1/level-evk", 1, -1, nil, func(e *Env) interface{} { return e.Swk })},
			Call: func(rcv interface{}, in []interface{}, o interface{}) (interface{}, error) {
				return rcv.(ckksE).ApplyEvaluationKeyNew(asCt(in[0]), in[1].(*rlwe.EvaluationKey))
			}},
		intRow("Rotate", ckksE.Rotate, withInt(un1, "k", 1, -2, 0), ctOut(same, allShapes), "Rotate rotates the columns of op0 by k positions to the left and returns the result in opOut"),
		intNewRow("RotateNew", ckksE.RotateNew, withInt(un1, "k", 1, -2, 0), "returns the result in a newly created element"),
		unRow("Conjugate", ckksE.Conjugate, un1, ctOut(same, allShapes), "Conjugate conjugates op0 and returns the result in opOut"),
		unNewRow("ConjugateNew", ckksE.ConjugateNew, un1, "returns the result in a newly created element"),
		{Method: "RotateHoisted", Doc: "RotateHoisted takes an input Ciphertext and a list of rotations and populates a map of pre-allocated Ciphertexts",
			Kinds: rotK,
			Out: &OutSpec{Shapes: []Shape{ShapeDirtyWords, ShapeLargerLevel}, New: func(e *Env, in []interface{}, dDeg, dLvl int) interface{} {
				m := map[int]*rlwe.Ciphertext{}
				for _, r := range in[1].([]int) {
					if m[r] = e.NewCt(1+dDeg, asCt(in[0]).Level()+dLvl); m[r] == nil {
						return nil
					}
				}
				return m
			}},
			Call: func(rcv interface{}, in []interface{}, o interface{}) (interface{}, error) {
				return o, rcv.(ckksE).RotateHoisted(asCt(in[0]), in[1].([]int), o.(map[int]*rlwe.Ciphertext))
			}},
		{Method: "RotateHoistedNew", Doc: "returns the rotations in a newly allocated map", Kinds: rotK,
			Call: func(rcv interface{}, in []interface{}, o interface{}) (interface{}, error) {
				return rcv.(ckksE).RotateHoistedNew(asCt(in[0]), in[1].([]int))
			}},
		{Method: "RotateHoistedLazyNew", Doc: "applies a series of rotations on the same ciphertext and returns each different rotation in a map (not rescaled by P)",
			Kinds: []Kind{{Name: "ct1-decomp", Class: "ct", Names: []string{"level", "rotations", "ct", "c2DecompQP"}, Make: func(e *Env, g *Gen) []interface{} {
				ct := g.Ct(e, 1, e.MaxLevel())
				return []interface{}{ct.Level(), []int{1, 0, 3}, ct, decompOf(e, ct)}
			}}},
			Call: func(rcv interface{}, in []interface{}, o interface{}) (interface{}, error) {
				return rcv.(ckksE).RotateHoistedLazyNew(in[0].(int), in[1].([]int), asCt(in[2]), in[3].([]ringqp.Poly))
			}},
		int2Row("InnerSum", ckksE.InnerSum, with2Int(un1, [2]int{1, 4}, [2]int{2, 4}, [2]int{8, 1}, [2]int{1, 8}), ctOut(same, allShapes),
			"InnerSum applies an optimized inner sum on the Ciphertext, result in opOut"),
		int2Row("RotateAndAdd", ckksE.RotateAndAdd, with2Int(un1, [2]int{1, 3}, [2]int{2, 4}, [2]int{3, 1}), ctOut(same, allShapes),
			"RotateAndAdd computes the sum of the rotations by batchSize*i, result in opOut"),
		intRow("Average", ckksE.Average, withInt(un1, "logBatchSize", 0, 2, 3), ctOut(same, allShapes), "Average returns the average of vectors of batchSize elements, result in opOut"),
		intNewRow("TraceNew", ckksE.TraceNew, withInt(un1, "logSlots", 0, 2), "maps X -> sum((-1)^i * X^{i*n+1}) and returns the result on a new ciphertext"),
		{Method: "ScaleUp", Doc: "ScaleUp multiplies op0 by scale and sets its scale to its previous scale times scale, returns the result in opOut",
			Kinds: withArg(unK, "s", "scale", rlwe.NewScale(1<<20)),
			Out:   ctOut(same, allShapes),
			Call: func(rcv interface{}, in []interface{}, o interface{}) (interface{}, error) {
				return o, rcv.(ckksE).ScaleUp(asCt(in[0]), in[1].(rlwe.Scale), asCt(o))
			}},
		{Method: "ScaleUpNew", Doc: "returns the result in a newly created element", Kinds: withArg(unK, "s", "scale", rlwe.NewScale(1<<20)),
			Call: func(rcv interface{}, in []interface{}, o interface{}) (interface{}, error) {
				return rcv.(ckksE).ScaleUpNew(asCt(in[0]), in[1].(rlwe.Scale))
			}},
		{Method: "SetScale", Doc: "SetScale sets the scale of the ciphertext to the input scale (consumes a level) — in place on ct",
			Kinds: []Kind{{Name: "ct1/scale", Class: "ct", Names: []string{"scale"}, Make: func(e *Env, g *Gen) []interface{} {
				return []interface{}{e.CKKSScale(38, 1.75)}
			}}},
			Out: &OutSpec{Accumulates: true, New: func(e *Env, in []interface{}, _, _ int) interface{} { return NewGen("SetScale").Ct(e, 1, e.MaxLevel()) }},
			Call: func(rcv interface{}, in []interface{}, o interface{}) (interface{}, error) {
				return o, rcv.(ckksE).SetScale(asCt(o), in[0].(rlwe.Scale))
			}},
		{Method: "DropLevel", Doc: "DropLevel reduces the level of op0 by levels (in place)",
			Kinds: []Kind{{Name: "ct1/levels=1", Class: "ct", Names: []string{"levels"}, Make: func(e *Env, g *Gen) []interface{} { return []interface{}{1} }}},
			Out: &OutSpec{Accumulates: true, New: func(e *Env, in []interface{}, _, _ int) interface{} {
				return NewGen("DropLevel").Ct(e, 1, e.MaxLevel())
			}},
			Call: func(rcv interface{}, in []interface{}, o interface{}) (interface{}, error) {
				rcv.(ckksE).DropLevel(asCt(o), in[0].(int))
				return o, nil
			}},
		{Method: "DropLevelNew", Doc: "DropLevelNew reduces the level of op0 by levels and returns the result in a newly created element",
			Kinds: withInt(unK, "levels", 1, 0),
			Call: func(rcv interface{}, in []interface{}, o interface{}) (interface{}, error) {
				return rcv.(ckksE).DropLevelNew(asCt(in[0]), in[1].(int)), nil
			}},
	}
	for _, m := range promotedMethods(reflect.TypeOf(&rlwe.Evaluator{})) {
		if _, own := t.NotTabled[m]; !own && !t.has(m) {
			t.NotTabled[m] = "promoted from *rlwe.Evaluator: tabled under target rlwe.Evaluator (also run on the evaluator embedded in a ckks.Evaluator)"
		}
	}
	for _, m := range promotedMethods(reflect.TypeOf(&ckks.Encoder{})) {
		if _, own := t.NotTabled[m]; !own && !t.has(m) {
			t.NotTabled[m] = "promoted from *ckks.Encoder: tabled under target ckks.Encoder"
		}
	}
	return t
}
