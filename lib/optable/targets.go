package optable

import "sync"

var (
	targetsOnce sync.Once
	targets     []*Target
)

// Targets returns the whole method table (built once).
func Targets() []*Target {
	targetsOnce.Do(func() {
		targets = []*Target{
			bgvEvaluatorTarget(),
			ckksEvaluatorTarget(),
			rlweEvaluatorTarget(),
			ringTarget(),
			basisExtenderTarget(),
			decomposerTarget(),
			bgvEncoderTarget(),
			ckksEncoderTarget(),
			encryptorTarget("rlwe.Encryptor[sk]", false),
			encryptorTarget("rlwe.Encryptor[pk]", true),
			decryptorTarget(),
			keyGeneratorTarget(),
			ringSwapKeyGenTarget(),
			rgswEvaluatorTarget(),
			lintransEvaluatorTarget(),
			polynomialEvaluatorTarget(),
		}
		targets = append(targets, multipartyTargets()...)
		targets = append(targets, mpSchemeTargets()...)
		targets = append(targets, ringSwitchTargets()...)
		targets = append(targets, ringPackingTarget(), blindrotTarget(), bignumPolynomialTarget())
	})
	return targets
}
