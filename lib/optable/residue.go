package optable

import (
	"fmt"
	"math/big"
	"reflect"
	"sort"
	"strings"
	"unsafe"
)

// Residue fills: every scratch buffer reachable from a receiver (evaluator, encoder, encryptor, ...) is
// overwritten so that an operation that reads scratch memory before writing it produces a result
// that differs from the one computed on a brand-new receiver.
//
// What counts as scratch is decided by *field name*: a struct field whose lower-cased name starts with
// "buf", "tmp" or "pool" (BuffQP, BuffCt, BuffInvNTT, BuffDecompQP, BuffBitDecomp, buffQ, buffQMul,
// buffP, bufQ, bufT, bufB, buff, buffCmplx, buffQP, bufSkIn, bufSkOut, buf, tmp0.., poolMod2N), plus
// the ckks encoder's bigintCoeffs and the mpckks protocols' maskBigint / ssBigint (scratch by their use:
// overwritten at the start of every call that reads them), and the blind-rotation evaluator's accumulator.
// Everything reachable below such a field is filled; nothing else is touched. The walk does not enter
// rings, parameters, keys, samplers or PRNGs (read-only or stateful-by-design objects).

// FillMode selects the residue pattern.
type FillMode int

const (
	FillOnes    FillMode = iota // every 64-bit word = 2^64-1 (above every modulus: "unreduced garbage")
	FillPattern                 // word i of a slice = a fixed 28-bit pseudo-random value (< every modulus used: "a valid looking old result")
)

func isScratchName(n string) bool {
	l := strings.ToLower(n)
	return strings.HasPrefix(l, "buf") || strings.HasPrefix(l, "tmp") || strings.HasPrefix(l, "pool") ||
		n == "bigintCoeffs" || n == "maskBigint" || n == "ssBigint" || n == "accumulator"
}

// types the search never enters
func denied(t reflect.Type) bool {
	n := t.Name()
	switch n {
	case "Ring", "SubRing", "Parameters", "MemEvaluationKeySet", "SecretKey", "PublicKey", "EvaluationKey", "GaloisKey",
		"RelinearizationKey", "GadgetCiphertext", "KeyedPRNG", "Decomposer", "ModUpConstants":
		return true
	}
	return strings.Contains(n, "Sampler")
}

type filler struct {
	src   *Gen // when set: words are drawn from this generator (28-bit residues)
	mode  FillMode
	seen  map[seenKey]bool
	paths []string
	words int
}

// FillResidue overwrites the scratch buffers reachable from rcv and returns the field paths filled
// and the number of 64-bit words written.
func FillResidue(rcv interface{}, mode FillMode) (paths []string, words int) {
	f := &filler{mode: mode, seen: map[seenKey]bool{}}
	f.search(addressable(reflect.ValueOf(rcv)), "")
	return f.paths, f.words
}

// search looks for scratch-named fields.
func (f *filler) search(v reflect.Value, path string) {
	v = open(v)
	switch v.Kind() {
	case reflect.Ptr:
		if v.IsNil() || denied(v.Type().Elem()) {
			return
		}
		k := seenKey{v.Pointer(), v.Type()}
		if f.seen[k] {
			return
		}
		f.seen[k] = true
		f.search(v.Elem(), path)
	case reflect.Interface:
		if v.IsNil() {
			return
		}
		e := v.Elem()
		if e.Kind() == reflect.Ptr { // only pointers can lead to mutable scratch memory
			f.search(e, path)
		}
	case reflect.Struct:
		if denied(v.Type()) {
			return
		}
		t := v.Type()
		for i := 0; i < v.NumField(); i++ {
			fld := t.Field(i)
			p := path + "." + fld.Name
			if isScratchName(fld.Name) {
				before := f.words
				f.fill(v.Field(i))
				if f.words > before {
					f.paths = append(f.paths, p)
				}
				continue
			}
			switch fld.Type.Kind() {
			case reflect.Ptr, reflect.Struct, reflect.Interface:
				f.search(v.Field(i), p)
			case reflect.Map: // e.g. RingPackingEvaluator.Evaluators: one evaluator per ring degree
				if ek := fld.Type.Elem().Kind(); ek == reflect.Ptr || ek == reflect.Interface {
					m := open(v.Field(i))
					keys := m.MapKeys()
					sort.Slice(keys, func(a, b int) bool { return keyLess(keys[a], keys[b]) })
					for _, k := range keys {
						f.search(addressable(m.MapIndex(k)), p+fmt.Sprintf("[%v]", k))
					}
				}
			}
		}
	}
}

func (f *filler) word(i int) uint64 {
	if f.src != nil {
		return f.src.U64()&(1<<28-1) | 1
	}
	if f.mode == FillOnes {
		return ^uint64(0)
	}
	x := uint64(i)*0x9E3779B97F4A7C15 + 0x7F4A7C15
	x ^= x >> 29
	x *= 0xBF58476D1CE4E5B9
	x ^= x >> 32
	return x&(1<<28-1) | 1
}

// fill overwrites everything below a scratch field.
func (f *filler) fill(v reflect.Value) {
	v = open(v)
	switch v.Kind() {
	case reflect.Ptr:
		if v.IsNil() || denied(v.Type().Elem()) {
			return
		}
		k := seenKey{v.Pointer(), v.Type()}
		if f.seen[k] {
			return
		}
		f.seen[k] = true
		if bi, ok := v.Interface().(*big.Int); ok {
			bi.SetUint64(f.word(f.words))
			bi.Lsh(bi, 70)
			bi.Neg(bi)
			f.words++
			return
		}
		if bf, ok := v.Interface().(*big.Float); ok {
			bf.SetFloat64(-float64(f.word(f.words)) * 1e6)
			f.words++
			return
		}
		if v.Type().Elem().Name() == "MetaData" {
			return // metadata of a buffer ciphertext is not scratch memory
		}
		f.fill(v.Elem())
	case reflect.Interface:
		if v.IsNil() {
			return
		}
		e := v.Elem()
		if e.Kind() == reflect.Ptr || e.Kind() == reflect.Slice {
			f.fill(addressable(e))
		}
	case reflect.Struct:
		if denied(v.Type()) {
			return
		}
		for i := 0; i < v.NumField(); i++ {
			f.fill(v.Field(i))
		}
	case reflect.Map:
		for _, k := range v.MapKeys() {
			if e := v.MapIndex(k); e.Kind() == reflect.Ptr || e.Kind() == reflect.Slice {
				f.fill(addressable(e))
			}
		}
	case reflect.Array, reflect.Slice:
		n := v.Len()
		if n == 0 {
			return
		}
		switch v.Type().Elem().Kind() {
		case reflect.Uint64:
			var p unsafe.Pointer
			if v.Kind() == reflect.Slice {
				p = v.UnsafePointer()
			} else {
				p = unsafe.Pointer(v.UnsafeAddr())
			}
			w := unsafe.Slice((*uint64)(p), n)
			for i := range w {
				w[i] = f.word(i)
			}
			f.words += n
		case reflect.Int64:
			for i := 0; i < n; i++ {
				open(v.Index(i)).SetInt(-int64(f.word(i)))
			}
			f.words += n
		case reflect.Float64:
			for i := 0; i < n; i++ {
				open(v.Index(i)).SetFloat(-float64(f.word(i)) * 1e3)
			}
			f.words += n
		case reflect.Complex128:
			for i := 0; i < n; i++ {
				open(v.Index(i)).SetComplex(complex(-float64(f.word(i))*1e3, float64(f.word(i+1))*1e3))
			}
			f.words += 2 * n
		case reflect.Ptr, reflect.Struct, reflect.Slice, reflect.Array, reflect.Interface:
			for i := 0; i < n; i++ {
				f.fill(v.Index(i))
			}
		}
	}
}

// FillObject overwrites every uint64 word reachable from obj (an output object: ciphertext,
// plaintext, polynomial, share, key) with the pattern: "the object previously held another result".
// Metadata is not touched (see DirtyMeta).
func FillObject(obj interface{}, mode FillMode) int {
	f := &filler{mode: mode, seen: map[seenKey]bool{}}
	f.fill(addressable(reflect.ValueOf(obj)))
	return f.words
}
