package optable

import (
	"math/big"
	"reflect"

	"github.com/tuneinsight/lattigo/v6/core/rlwe"
	"github.com/tuneinsight/lattigo/v6/ring"
	"github.com/tuneinsight/lattigo/v6/ring/ringqp"
	"github.com/tuneinsight/lattigo/v6/schemes/bgv"
	"github.com/tuneinsight/lattigo/v6/schemes/ckks"
	"github.com/tuneinsight/lattigo/v6/utils/bignum"
)

// ---------------------------------------------------------------------------------------------
// bgv.Encoder (schemes/bgv/encoder.go) and ckks.Encoder (schemes/ckks/encoder.go)
//
// For Encode the plaintext's metadata (scale, level, IsBatched, IsNTT) is an *input*: only the words
// of pt.Value are the output, so the only output history is "dirty words". ptSpec travels with the
// inputs as a plain descriptor (the Call ignores it, the OutSpec reads it).

type ptSpec struct {
	Batched bool
	DLevel  int
	Scale   uint64 // bgv: scale mod t (0: default)
	LogS    int    // ckks: log2 scale (0: default)
	Cols    int    // ckks: LogDimensions.Cols (0: default)
	NTT     bool
}

func (s ptSpec) build(e *Env) *rlwe.Plaintext {
	pt := e.NewPt(e.MaxLevel() + s.DLevel)
	pt.IsBatched = s.Batched
	pt.IsNTT = s.NTT
	if s.Scale != 0 {
		pt.Scale = e.BGVScale(s.Scale)
	}
	if s.LogS != 0 {
		pt.Scale = e.CKKSScale(s.LogS, 1.5)
	}
	if s.Cols != 0 {
		pt.LogDimensions.Cols = s.Cols
	}
	return pt
}

func ptOutFromSpec(idx int) *OutSpec {
	return &OutSpec{Shapes: []Shape{ShapeDirtyWords}, New: func(e *Env, in []interface{}, dDeg, dLvl int) interface{} {
		if dDeg != 0 || dLvl != 0 {
			return nil
		}
		return in[idx].(ptSpec).build(e)
	}}
}

func u64vec(g *Gen, n int, mod uint64) []uint64 {
	v := make([]uint64, n)
	for i := range v {
		v[i] = g.U64() % mod
	}
	return v
}

func i64vec(g *Gen, n int, mod uint64) []int64 {
	v := make([]int64, n)
	for i := range v {
		v[i] = int64(g.U64()%mod) - int64(mod/2)
	}
	return v
}

func bgvEncoderTarget() *Target {
	type E = *bgv.Encoder
	specs := []struct {
		n string
		s ptSpec
	}{{"batched", ptSpec{Batched: true, NTT: true}}, {"batched/scale+level", ptSpec{Batched: true, NTT: true, DLevel: -1, Scale: 5}},
		{"coeffs/scale", ptSpec{Batched: false, NTT: true, Scale: 3}}, {"batched/level0", ptSpec{Batched: true, NTT: true, DLevel: -3, Scale: 7}}}
	var encK, decK []Kind
	for _, sp := range specs {
		sp := sp
		encK = append(encK,
			Kind{Name: "[]uint64->" + sp.n, Class: "[]uint64", Names: []string{"values", "(pt-spec)"}, Make: func(e *Env, g *Gen) []interface{} {
				return []interface{}{u64vec(g, e.BGV.MaxSlots(), 97), sp.s}
			}},
			Kind{Name: "[]int64/short->" + sp.n, Class: "[]int64", Names: []string{"values", "(pt-spec)"}, Make: func(e *Env, g *Gen) []interface{} {
				return []interface{}{i64vec(g, e.BGV.MaxSlots()-5, 97), sp.s}
			}})
		mkpt := func(e *Env, g *Gen) *rlwe.Plaintext {
			pt := sp.s.build(e)
			g.FillPoly(e.RLWE.RingQ(), pt.Value)
			return pt
		}
		decK = append(decK,
			Kind{Name: sp.n + "->[]uint64", Class: "[]uint64", Names: []string{"pt", "(len)"}, Make: func(e *Env, g *Gen) []interface{} { return []interface{}{mkpt(e, g), "u"} }},
			Kind{Name: sp.n + "->[]int64", Class: "[]int64", Names: []string{"pt", "(len)"}, Make: func(e *Env, g *Gen) []interface{} { return []interface{}{mkpt(e, g), "i"} }})
	}
	valuesOut := func(idx int) *OutSpec {
		return &OutSpec{Shapes: []Shape{ShapeDirtyWords}, New: func(e *Env, in []interface{}, dDeg, dLvl int) interface{} {
			if dDeg != 0 || dLvl != 0 {
				return nil
			}
			if in[idx].(string) == "u" {
				return make([]uint64, e.BGV.MaxSlots())
			}
			return make([]int64, e.BGV.MaxSlots())
		}}
	}
	ringTPoly := func(e *Env, g *Gen) ring.Poly {
		p := e.BGV.RingT().NewPoly()
		for j := range p.Coeffs[0] {
			p.Coeffs[0][j] = g.U64() % 97
		}
		return p
	}
	outT := &OutSpec{Shapes: []Shape{ShapeDirtyWords}, New: func(e *Env, in []interface{}, dDeg, dLvl int) interface{} {
		if dDeg != 0 || dLvl != 0 {
			return nil
		}
		return e.BGV.RingT().NewPoly()
	}}
	embedK := func(withScaleUp bool) []Kind {
		var r []Kind
		for _, which := range []string{"ring.Poly", "ringqp.Poly"} {
			which := which
			r = append(r, Kind{Name: "[]uint64->" + which, Class: which, Names: []string{"values", "scaleUp", "metadata", "(out)"}, Make: func(e *Env, g *Gen) []interface{} {
				md := &rlwe.MetaData{}
				md.Scale = e.BGVScale(5)
				md.IsNTT, md.IsBatched, md.IsMontgomery = true, true, which == "ringqp.Poly"
				md.LogDimensions = e.BGV.LogMaxDimensions()
				return []interface{}{u64vec(g, e.BGV.MaxSlots()-2, 97), withScaleUp, md, which}
			}})
		}
		return r
	}
	embedOut := &OutSpec{Shapes: []Shape{ShapeDirtyWords}, New: func(e *Env, in []interface{}, dDeg, dLvl int) interface{} {
		if dDeg != 0 || dLvl != 0 {
			return nil
		}
		if in[3].(string) == "ring.Poly" {
			return e.RLWE.RingQ().AtLevel(e.MaxLevel() - 1).NewPoly()
		}
		return e.RLWE.RingQP().AtLevel(e.MaxLevel()-1, e.RLWE.MaxLevelP()).NewPoly()
	}}
	t := &Target{
		Name: "bgv.Encoder", Envs: []string{"bgv"},
		Type:      reflect.TypeOf(&bgv.Encoder{}),
		New:       func(e *Env) interface{} { return bgv.NewEncoder(e.BGV) },
		NotTabled: map[string]string{"GetRLWEParameters": "accessor", "ShallowCopy": "copy constructor (C10)"},
	}
	t.Rows = []Row{
		{Method: "Encode", Doc: "encodes an IntegerSlice on a pre-allocated plaintext (at the plaintext's level / scale / domain)", Kinds: encK, Out: ptOutFromSpec(1),
			Call: func(rcv interface{}, in []interface{}, o interface{}) (interface{}, error) {
				return o, rcv.(E).Encode(in[0], o.(*rlwe.Plaintext))
			}},
		{Method: "Decode", Doc: "decodes a plaintext on an IntegerSlice mod PlaintextModulus", Kinds: decK, Out: valuesOut(1),
			Call: func(rcv interface{}, in []interface{}, o interface{}) (interface{}, error) {
				return o, rcv.(E).Decode(in[0].(*rlwe.Plaintext), o)
			}},
		{Method: "EncodeRingT", Doc: "encodes an IntegerSlice at the given scale on a polynomial pT with coefficients modulo the plaintext modulus",
			Kinds: []Kind{
				{Name: "[]uint64,scale", Class: "[]uint64", Names: []string{"values", "scale"}, Make: func(e *Env, g *Gen) []interface{} {
					return []interface{}{u64vec(g, e.BGV.MaxSlots(), 1<<40), e.BGVScale(5)}
				}},
				{Name: "[]int64/short,scale", Class: "[]int64", Names: []string{"values", "scale"}, Make: func(e *Env, g *Gen) []interface{} {
					return []interface{}{i64vec(g, e.BGV.MaxSlots()-3, 1<<40), e.BGVScale(3)}
				}}},
			Out: outT,
			Call: func(rcv interface{}, in []interface{}, o interface{}) (interface{}, error) {
				return o, rcv.(E).EncodeRingT(in[0], in[1].(rlwe.Scale), asPoly(o))
			}},
		{Method: "DecodeRingT", Doc: "decodes a polynomial pT with coefficients modulo the plaintext modulus on an IntegerSlice at the given scale",
			Kinds: []Kind{
				{Name: "pT,scale->[]uint64", Class: "[]uint64", Names: []string{"pT", "scale", "(len)"}, Make: func(e *Env, g *Gen) []interface{} {
					return []interface{}{ringTPoly(e, g), e.BGVScale(5), "u"}
				}},
				{Name: "pT,scale->[]int64", Class: "[]int64", Names: []string{"pT", "scale", "(len)"}, Make: func(e *Env, g *Gen) []interface{} {
					return []interface{}{ringTPoly(e, g), e.BGVScale(3), "i"}
				}}},
			Out: valuesOut(2),
			Call: func(rcv interface{}, in []interface{}, o interface{}) (interface{}, error) {
				return o, rcv.(E).DecodeRingT(asPoly(in[0]), in[1].(rlwe.Scale), o)
			}},
		{Method: "Embed", Doc: "Embed = EmbedScale with scaleUp=false: encodes an IntegerSlice on ringqp.Poly or ring.Poly according to the metadata", Kinds: embedK(false), Out: embedOut,
			Call: func(rcv interface{}, in []interface{}, o interface{}) (interface{}, error) {
				return o, rcv.(E).Embed(in[0], in[2].(*rlwe.MetaData), o)
			}},
		{Method: "EmbedScale", Doc: "generic method to encode an IntegerSlice on ringqp.Poly or ring.Poly; encoding is done according to the metadata", Kinds: embedK(true), Out: embedOut,
			Call: func(rcv interface{}, in []interface{}, o interface{}) (interface{}, error) {
				return o, rcv.(E).EmbedScale(in[0], in[1].(bool), in[2].(*rlwe.MetaData), o)
			}},
		{Method: "RingT2Q", Doc: "takes pT in base PlaintextModulus and writes it in base Q[level] on pQ",
			Kinds: []Kind{
				{Name: "pT/scaleUp", Class: "poly", Names: []string{"level", "scaleUp", "pT"}, Make: func(e *Env, g *Gen) []interface{} { return []interface{}{e.MaxLevel() - 1, true, ringTPoly(e, g)} }},
				{Name: "pT", Class: "poly", Names: []string{"level", "scaleUp", "pT"}, Make: func(e *Env, g *Gen) []interface{} { return []interface{}{e.MaxLevel(), false, ringTPoly(e, g)} }}},
			Out: &OutSpec{Shapes: []Shape{ShapeDirtyWords}, New: func(e *Env, in []interface{}, dDeg, dLvl int) interface{} {
				if dDeg != 0 || dLvl != 0 {
					return nil
				}
				return e.RLWE.RingQ().AtLevel(in[0].(int)).NewPoly()
			}},
			Call: func(rcv interface{}, in []interface{}, o interface{}) (interface{}, error) {
				rcv.(E).RingT2Q(in[0].(int), in[1].(bool), asPoly(in[2]), asPoly(o))
				return o, nil
			}},
		{Method: "RingQ2T", Doc: "takes pQ in base Q[level] and writes it in base PlaintextModulus on pT",
			Kinds: []Kind{
				{Name: "pQ/scaleDown", Class: "poly", Names: []string{"level", "scaleDown", "pQ"}, Make: func(e *Env, g *Gen) []interface{} {
					return []interface{}{e.MaxLevel() - 1, true, g.Poly(e.RLWE.RingQ(), e.MaxLevel()-1)}
				}},
				{Name: "pQ/level0", Class: "poly", Names: []string{"level", "scaleDown", "pQ"}, Make: func(e *Env, g *Gen) []interface{} {
					return []interface{}{0, false, g.Poly(e.RLWE.RingQ(), 0)}
				}}},
			Out: outT,
			Call: func(rcv interface{}, in []interface{}, o interface{}) (interface{}, error) {
				rcv.(E).RingQ2T(in[0].(int), in[1].(bool), asPoly(in[2]), asPoly(o))
				return o, nil
			}},
	}
	return t
}

func ckksEncoderTarget() *Target {
	type E = *ckks.Encoder
	cvec := func(g *Gen, n int) []complex128 {
		v := make([]complex128, n)
		for i := range v {
			v[i] = complex(float64(g.U64()%2000)/1000-1, float64(g.U64()%2000)/1000-1)
		}
		return v
	}
	fvec := func(g *Gen, n int) []float64 {
		v := make([]float64, n)
		for i := range v {
			v[i] = float64(g.U64()%2000)/1000 - 1
		}
		return v
	}
	bfvec := func(g *Gen, n int) []*big.Float {
		v := make([]*big.Float, n)
		for i := range v {
			v[i] = bigF(float64(g.U64()%2000)/1000 - 1)
		}
		return v
	}
	bcvec := func(g *Gen, n int) []*bignum.Complex {
		v := make([]*bignum.Complex, n)
		for i := range v {
			v[i] = &bignum.Complex{bigF(float64(g.U64()%2000)/1000 - 1), bigF(float64(g.U64()%2000)/1000 - 1)}
		}
		return v
	}
	type vk struct {
		name string
		mk   func(g *Gen, n int) interface{}
	}
	vks := []vk{{"[]complex128", func(g *Gen, n int) interface{} { return cvec(g, n) }}, {"[]float64", func(g *Gen, n int) interface{} { return fvec(g, n) }},
		{"[]bigfloat", func(g *Gen, n int) interface{} { return bfvec(g, n) }}, {"[]bigcomplex", func(g *Gen, n int) interface{} { return bcvec(g, n) }}}
	specs := []struct {
		n string
		s ptSpec
	}{{"batched", ptSpec{Batched: true, NTT: true}}, {"batched/sparse+scale+level", ptSpec{Batched: true, NTT: true, DLevel: -1, LogS: 33, Cols: 2}},
		{"coeffs", ptSpec{Batched: false, NTT: true, LogS: 35}},
		// scale beyond the 53 bits of a float64 mantissa: distinguishes the default from the arbitrary-precision encoder
		{"batched/scale=2^70", ptSpec{Batched: true, NTT: true, LogS: 70}}}
	var encK, decK []Kind
	for _, sp := range specs {
		for _, v := range vks {
			sp, v := sp, v
			if !sp.s.Batched && (v.name == "[]complex128" || v.name == "[]bigcomplex") {
				continue // documented: only []float64 and []*big.Float for IsBatched=false
			}
			encK = append(encK, Kind{Name: v.name + "->" + sp.n, Class: v.name, Names: []string{"values", "(pt-spec)"}, Make: func(e *Env, g *Gen) []interface{} {
				n := e.CKKS.MaxSlots()
				if sp.s.Cols != 0 {
					n = 1<<sp.s.Cols - 1
				}
				return []interface{}{v.mk(g, n), sp.s}
			}})
			decK = append(decK, Kind{Name: sp.n + "->" + v.name, Class: v.name, Names: []string{"pt", "(kind)"}, Make: func(e *Env, g *Gen) []interface{} {
				pt := sp.s.build(e)
				// small coefficients (|c| < 2^45) so that decoded values are ordinary numbers
				for i := range pt.Value.Coeffs {
					q := e.RLWE.RingQ().SubRings[i].Modulus
					gg := NewGen("ckksdec", sp.n)
					for j := range pt.Value.Coeffs[i] {
						x := gg.U64()
						if x&1 == 0 {
							pt.Value.Coeffs[i][j] = (x >> 20) % q
						} else {
							pt.Value.Coeffs[i][j] = (q - (x>>20)%q) % q
						}
					}
				}
				if pt.IsNTT {
					e.RLWE.RingQ().AtLevel(pt.Level()).NTT(pt.Value, pt.Value)
				}
				return []interface{}{pt, v.name}
			}})
		}
	}
	valuesOut := &OutSpec{Shapes: []Shape{ShapeDirtyWords}, New: func(e *Env, in []interface{}, dDeg, dLvl int) interface{} {
		if dDeg != 0 || dLvl != 0 {
			return nil
		}
		n := in[0].(*rlwe.Plaintext).Slots()
		switch in[1].(string) {
		case "[]complex128":
			return make([]complex128, n)
		case "[]float64":
			return make([]float64, n)
		case "[]bigfloat":
			// explicit precision: the precision of a caller-provided big.Float is the caller's choice (an
			// input of the call by math/big's conventions), so it is the same in every output history
			v := make([]*big.Float, n)
			for i := range v {
				v[i] = new(big.Float).SetPrec(128)
			}
			return v
		}
		v := make([]*bignum.Complex, n)
		for i := range v {
			v[i] = &bignum.Complex{new(big.Float).SetPrec(128), new(big.Float).SetPrec(128)}
		}
		return v
	}}
	fftK := func() []Kind {
		var r []Kind
		r = append(r, Kind{Name: "[]complex128/logN=3", Class: "[]complex128", Names: []string{"logN"}, Make: func(e *Env, g *Gen) []interface{} { return []interface{}{3, "c"} }})
		r = append(r, Kind{Name: "[]bigcomplex/logN=2", Class: "[]bigcomplex", Names: []string{"logN"}, Make: func(e *Env, g *Gen) []interface{} { return []interface{}{2, "b"} }})
		return r
	}()
	fftOut := func(label string) *OutSpec {
		return &OutSpec{Accumulates: true, New: func(e *Env, in []interface{}, _, _ int) interface{} {
			g := NewGen("fft", label)
			n := 1 << in[0].(int)
			if in[1].(string) == "c" {
				return cvec(g, n)
			}
			return bcvec(g, n)
		}}
	}
	t := &Target{
		Name: "ckks.Encoder", Envs: []string{"ckks", "ckks-prec", "ckks-ci"},
		Type: reflect.TypeOf(&ckks.Encoder{}),
		New: func(e *Env) interface{} {
			if e.Prec != 0 {
				return ckks.NewEncoder(e.CKKS, e.Prec)
			}
			return ckks.NewEncoder(e.CKKS)
		},
		NotTabled: map[string]string{"GetRLWEParameters": "accessor", "GetParameters": "accessor", "Prec": "accessor", "ShallowCopy": "copy constructor (C10)"},
	}
	t.Rows = []Row{
		{Method: "Encode", Doc: "encodes a FloatSlice on the target plaintext, at the level and scale of the plaintext, domain according to its metadata", Kinds: encK, Out: ptOutFromSpec(1),
			Call: func(rcv interface{}, in []interface{}, o interface{}) (interface{}, error) {
				return o, rcv.(E).Encode(in[0], o.(*rlwe.Plaintext))
			}},
		{Method: "Decode", Doc: "decodes the input plaintext on a FloatSlice", Kinds: decK, Out: valuesOut,
			Call: func(rcv interface{}, in []interface{}, o interface{}) (interface{}, error) {
				return o, rcv.(E).Decode(in[0].(*rlwe.Plaintext), o)
			}},
		{Method: "DecodePublic", Doc: "decodes the input plaintext on a FloatSlice, rounding to logprec bits", Kinds: decK, Out: valuesOut,
			Call: func(rcv interface{}, in []interface{}, o interface{}) (interface{}, error) {
				return o, rcv.(E).DecodePublic(in[0].(*rlwe.Plaintext), o, 20)
			}},
		{Method: "Embed", Doc: "generic method to encode a FloatSlice on the target polyOut (ringqp.Poly or ring.Poly) according to the provided metadata",
			Kinds: func() []Kind {
				var r []Kind
				for _, which := range []string{"ring.Poly", "ringqp.Poly"} {
					for _, v := range vks[:2] {
						which, v := which, v
						r = append(r, Kind{Name: v.name + "->" + which, Class: which, Names: []string{"values", "metadata", "(out)"}, Make: func(e *Env, g *Gen) []interface{} {
							md := &rlwe.MetaData{}
							md.Scale = e.CKKSScale(35, 1.25)
							md.IsNTT, md.IsBatched, md.IsMontgomery = true, true, which == "ringqp.Poly"
							md.LogDimensions = ring.Dimensions{Rows: 0, Cols: 2}
							return []interface{}{v.mk(g, 3), md, which}
						}})
					}
				}
				return r
			}(),
			Out: &OutSpec{Shapes: []Shape{ShapeDirtyWords}, New: func(e *Env, in []interface{}, dDeg, dLvl int) interface{} {
				if dDeg != 0 || dLvl != 0 {
					return nil
				}
				if in[2].(string) == "ring.Poly" {
					return e.RLWE.RingQ().AtLevel(e.MaxLevel() - 1).NewPoly()
				}
				return e.RLWE.RingQP().AtLevel(e.MaxLevel()-1, e.RLWE.MaxLevelP()).NewPoly()
			}},
			Call: func(rcv interface{}, in []interface{}, o interface{}) (interface{}, error) {
				return o, rcv.(E).Embed(in[0], in[1].(*rlwe.MetaData), o)
			}},
		{Method: "FFT", Doc: "evaluates the special 2^{LogN}-th decoding discrete Fourier transform on FloatSlice (in place)", Kinds: fftK, Out: fftOut("FFT"),
			Call: func(rcv interface{}, in []interface{}, o interface{}) (interface{}, error) {
				return o, rcv.(E).FFT(o, in[0].(int))
			}},
		{Method: "IFFT", Doc: "evaluates the special 2^{LogN}-th encoding discrete Fourier transform on FloatSlice (in place)", Kinds: fftK, Out: fftOut("IFFT"),
			Call: func(rcv interface{}, in []interface{}, o interface{}) (interface{}, error) {
				return o, rcv.(E).IFFT(o, in[0].(int))
			}},
	}
	return t
}

var _ = ringqp.Poly{}
