package optable

import (
	"reflect"
	"sort"

	"github.com/tuneinsight/lattigo/v6/core/rlwe"
	"github.com/tuneinsight/lattigo/v6/ring"
	"github.com/tuneinsight/lattigo/v6/ring/ringqp"
)

// Target is one receiver type whose exported methods are tabled.
type Target struct {
	Name string   // "bgv.Evaluator"
	Envs []string // environments it is exercised under ("" entries are filtered by tier)
	// New returns a brand-new receiver.
	New func(e *Env) interface{}
	// Type is the receiver type whose exported method set is compared with the rows (coverage report).
	Type reflect.Type
	// Randomized: the receiver owns a PRNG, so its results legitimately depend on how many calls were
	// made before (previous calls are then not used as "evaluator history"; residue fills still are).
	Randomized bool
	// Shared returns the long-lived objects the receiver was built from (keys): they must stay intact.
	Shared func(e *Env) []interface{}
	Rows   []Row
	// NoScratch: the receiver has no scratch memory (residue fills are then no-ops).
	NoScratch bool
	// DefaultNotTabled: reason applying to every exported method that has neither a row nor a NotTabled entry.
	DefaultNotTabled string
	// NotTabled: exported methods deliberately without a row, with the reason (accessors returning
	// internal state, copy constructors = C10's subject, methods promoted from an embedded type that
	// has its own target).
	NotTabled map[string]string
}

// Row is one exported method.
type Row struct {
	Method string
	// Kinds are the operand-kind variants (every admissible dynamic type / degree / level / scale class
	// of the arguments). Operands are distinct objects with different content, and different scale /
	// level / degree wherever the operation admits it.
	Kinds []Kind
	// Call invokes the method. in: the inputs in signature order without the designated output;
	// out: the designated output object (nil when the method allocates or returns its result).
	// It returns the result object (out itself, or what the method returned).
	Call func(rcv interface{}, in []interface{}, out interface{}) (res interface{}, err error)
	// Out describes the designated output parameter (nil: the method has none).
	Out *OutSpec
	// InPlace lists the inputs (indices) the doc comment declares as modified by the call; they are
	// exempt from the inputs-intact oracle.
	InPlace []int
	// NoAlias: the doc comment forbids passing an input as output (reason). Such calls are not generated.
	NoAlias string
	// OperandArgs lists the inputs whose static type is an interface (rlwe.Operand / rlwe.ElementInterface): a
	// ciphertext can be passed there under its other representations (its .El(), its .Plaintext() view).
	OperandArgs []int
	// OutMayBeLargerInput: the doc comment allows the output polynomial to have more rows than the result
	// (so an input polynomial of the input's size may be passed as output).
	OutMayBeLargerInput bool
	// Func: the row is a package-level function or a method of another type grouped under this target.
	Func bool
	// Doc is the relevant sentence of the method's doc comment the classification was read from.
	Doc string
}

// Kind is one operand-kind variant of a row.
type Kind struct {
	Name string
	// Class is the coarse operand kind used in violation signatures (several Kinds that differ only in
	// the shape of op0 share a Class); empty: Name.
	Class string
	// Light: a value-alphabet kind (same code path class as a full kind, another value of a scalar): it is only
	// crossed with the aliasing patterns and the new / residue-filled receivers, not with the output histories
	// and the previous-call histories.
	Light bool
	// History: besides the first kind of each row, this kind is also used as "previous call on the same
	// receiver" in the quick tier (kinds that leave characteristic content in scratch buffers, e.g. a vector
	// operand with non-zero imaginary parts going through the evaluator's encoder).
	History bool
	// ClassOf, when set, overrides Class per environment (a defect that exists only for some parameter
	// shapes — e.g. two or more special primes — must not share a signature with the other shapes).
	ClassOf func(e *Env) string
	Names   []string // argument names, for messages
	// Make returns fresh inputs; the content must be a pure function of (e, g).
	Make func(e *Env, g *Gen) []interface{}
}

// Shape is the history of the output object handed to the call.
type Shape int

const (
	ShapeExact         Shape = iota // freshly allocated, exactly the shape of the result, zeroed, default metadata
	ShapeDirtyWords                 // exact shape, default metadata, but every word holds an old value
	ShapeDirtyMeta                  // exact shape, zeroed, but the metadata of another result (other scale / dimensions / batching flag)
	ShapeLargerDegree               // one more polynomial than the result, old values in every word
	ShapeLargerLevel                // one more level than the result (when the chain allows it), old values
	ShapeSmallerLevel               // one level less than the result would have, old values (the reference is then a fresh output of that smaller level); the object was allocated at the full level, filled, then shrunk in place (Resize): its spare capacity holds old rows
	ShapeSmallerDegree              // one component less than the result (degree >= 1 kept): allocated with the full degree, filled, then shrunk in place by Resize — the dropped component stays in the spare capacity of the backing array; operations that grow the receiver again must not get it back (reference: a fresh output of that smaller degree)
)

func (s Shape) String() string {
	return [...]string{"exact", "dirty-words", "dirty-meta", "larger-degree", "larger-level", "smaller-level", "shrunk-degree"}[s]
}

// Weaker returns the output histories that are strictly "contained" in s (used to attribute a failure
// to the smallest deviation that reproduces it).
func (s Shape) Weaker() []Shape {
	switch s {
	case ShapeLargerDegree, ShapeLargerLevel, ShapeSmallerLevel, ShapeSmallerDegree:
		return []Shape{ShapeDirtyWords}
	}
	return nil
}

// OutSpec describes the designated output parameter of a row.
type OutSpec struct {
	// New returns an output object for these inputs: fresh=true: zeroed with default metadata;
	// otherwise "previously used". dDeg / dLvl are added to the exact degree / level of the result
	// (the function returns nil if that shape does not exist, e.g. level above the chain).
	New func(e *Env, in []interface{}, dDeg, dLvl int) interface{}
	// Shapes lists the output histories that are admissible for this method besides ShapeExact.
	Shapes []Shape
	// Accumulates: the previous content of the output is an input of the operation (…ThenAdd,
	// documented in-place updates). New then returns an object with deterministic content and no
	// output history is enumerated.
	Accumulates bool
}

// MakeOut builds the output for a shape (nil if the shape does not exist for these inputs).
func (o *OutSpec) MakeOut(e *Env, in []interface{}, sh Shape) interface{} {
	var out interface{}
	switch sh {
	case ShapeExact:
		return o.New(e, in, 0, 0)
	case ShapeDirtyWords, ShapeDirtyMeta:
		out = o.New(e, in, 0, 0)
	case ShapeLargerDegree:
		out = o.New(e, in, 1, 0)
	case ShapeLargerLevel:
		out = o.New(e, in, 0, 1)
	case ShapeSmallerLevel:
		if isNilOut(o.New(e, in, 0, -1)) {
			return nil
		}
		// allocated at the full level, every word old, then shrunk in place by the library's Resize (as DropLevel /
		// Rescale do): the dropped rows stay in the spare capacity of the row slices
		if out = o.New(e, in, 0, 0); !isNilOut(out) && canShrink(out) {
			FillObject(out, FillPattern)
			shrink(out, 0, -1)
			return out
		}
		out = o.New(e, in, 0, -1)
	case ShapeSmallerDegree:
		if isNilOut(o.New(e, in, -1, 0)) {
			return nil
		}
		out = o.New(e, in, 0, 0)
		if isNilOut(out) || len(ciphertextsOf(out)) == 0 || minDegree(out) < 2 {
			return nil
		}
		if o.Accumulates {
			fillTop(out) // the accumulator's content is an input: only the component that is dropped holds old values
		} else {
			FillObject(out, FillPattern)
		}
		shrink(out, -1, 0)
		return out
	}
	if isNilOut(out) {
		return nil
	}
	if sh == ShapeDirtyMeta {
		ms := metasOf(out)
		if len(ms) == 0 {
			return nil // no metadata: the shape does not exist
		}
		for _, m := range ms {
			e.DirtyMeta(m)
		}
		return out
	}
	FillObject(out, FillPattern)
	return out
}

func isNilOut(out interface{}) bool {
	if out == nil {
		return true
	}
	v := reflect.ValueOf(out)
	switch v.Kind() {
	case reflect.Ptr, reflect.Map, reflect.Slice:
		return v.IsNil()
	}
	return false
}

// ciphertextsOf returns the ciphertexts of an output object that the library's Resize can shrink in place.
func ciphertextsOf(x interface{}) []*rlwe.Ciphertext {
	switch o := x.(type) {
	case *rlwe.Ciphertext:
		return []*rlwe.Ciphertext{o}
	case []*rlwe.Ciphertext:
		return o
	case map[int]*rlwe.Ciphertext:
		var r []*rlwe.Ciphertext
		for _, k := range sortedIntKeys(o) {
			r = append(r, o[k])
		}
		return r
	}
	return nil
}

func sortedIntKeys(m map[int]*rlwe.Ciphertext) []int {
	keys := make([]int, 0, len(m))
	for k := range m {
		keys = append(keys, k)
	}
	sort.Ints(keys)
	return keys
}

func canShrink(x interface{}) bool {
	if _, ok := x.(*rlwe.Plaintext); ok {
		return true
	}
	return len(ciphertextsOf(x)) > 0
}

func minDegree(x interface{}) int {
	d := 1 << 20
	for _, ct := range ciphertextsOf(x) {
		if ct.Degree() < d {
			d = ct.Degree()
		}
	}
	return d
}

// shrink reduces degree / level in place with rlwe.Element.Resize (what Relinearize, Rescale, DropLevel do).
func shrink(x interface{}, dDeg, dLvl int) {
	if pt, ok := x.(*rlwe.Plaintext); ok {
		pt.Resize(0, pt.Level()+dLvl)
		pt.Value = pt.Element.Value[0]
		return
	}
	for _, ct := range ciphertextsOf(x) {
		ct.Resize(ct.Degree()+dDeg, ct.Level()+dLvl)
	}
}

// fillTop writes old values into the last component only.
func fillTop(x interface{}) {
	for _, ct := range ciphertextsOf(x) {
		FillObject(ct.Value[ct.Degree()], FillPattern)
	}
}

// MetaHolder is implemented by composite output objects (several ciphertexts) of the table.
type MetaHolder interface{ Metas() []*rlwe.MetaData }

// metasOf returns the metadata blocks of an output object (all of them for slices / maps / composites).
func metasOf(x interface{}) []*rlwe.MetaData {
	var r []*rlwe.MetaData
	add := func(m *rlwe.MetaData) {
		if m != nil {
			r = append(r, m)
		}
	}
	switch o := x.(type) {
	case *rlwe.Ciphertext:
		add(o.MetaData)
	case *rlwe.Plaintext:
		add(o.MetaData)
	case *rlwe.Element[ring.Poly]:
		add(o.MetaData)
	case *rlwe.Element[ringqp.Poly]:
		add(o.MetaData)
	case []*rlwe.Ciphertext:
		for _, c := range o {
			add(c.MetaData)
		}
	case map[int]*rlwe.Ciphertext:
		keys := make([]int, 0, len(o))
		for k := range o {
			keys = append(keys, k)
		}
		sort.Ints(keys)
		for _, k := range keys {
			add(o[k].MetaData)
		}
	case MetaHolder:
		return o.Metas()
	}
	return r
}

// ---------------------------------------------------------------------------------------------
// aliasing patterns

// Pattern is one aliasing pattern of a call: OutIs = index of the input that is also passed as
// output (-1: distinct output); Same = pair of inputs that are the same object (nil: none).
type Pattern struct {
	Name  string
	OutIs int
	Same  *[2]int
	// Rep: the input that aliases the output is not passed as the output object itself but as another
	// representation of the same memory: "el" = out.El() (the *rlwe.Element embedded in the ciphertext),
	// "ptview" = out.Plaintext() (the library's degree-0 view on Value[0]), "header" = &c for c := *out
	// (a second header on the same polynomials and metadata). "" = the output object itself.
	Rep string
}

// ApplyRep returns the representation rep of ct (see Pattern.Rep).
func ApplyRep(rep string, ct *rlwe.Ciphertext) interface{} {
	switch rep {
	case "el":
		return ct.El()
	case "ptview":
		return ct.Plaintext()
	case "header":
		c := *ct
		return &c
	}
	return ct
}

// fits: a polynomial value a can stand for b only if it has the same number of rows (a Q-basis
// polynomial is not a P-basis polynomial), or more rows where the row's doc allows it.
func fits(a, b interface{}, larger bool) bool {
	switch x := a.(type) {
	case ring.Poly:
		y, ok := b.(ring.Poly)
		return ok && (len(x.Coeffs) == len(y.Coeffs) || larger && len(x.Coeffs) > len(y.Coeffs))
	case ringqp.Poly:
		y, ok := b.(ringqp.Poly)
		return ok && len(x.Q.Coeffs) == len(y.Q.Coeffs) && len(x.P.Coeffs) == len(y.P.Coeffs)
	}
	return true
}

func aliasable(v interface{}) bool {
	if v == nil {
		return false
	}
	switch v.(type) {
	case ring.Poly, ringqp.Poly:
		return true // a struct of slices: passing the same value shares the memory
	}
	k := reflect.ValueOf(v).Kind()
	if (k == reflect.Ptr || k == reflect.Map) && reflect.ValueOf(v).IsNil() {
		return false // an optional argument left out
	}
	// struct values (shares, CRPs: structs of polynomials) share their backing arrays when passed twice
	return k == reflect.Ptr || k == reflect.Map || k == reflect.Struct
}

// PtrAlias reports whether out is a pointer to the type of the (struct) value a: the call f(a, b, &a).
func PtrAlias(a, out interface{}) bool {
	if a == nil || out == nil {
		return false
	}
	ta := reflect.TypeOf(a)
	return ta.Kind() == reflect.Struct && reflect.TypeOf(out) == reflect.PtrTo(ta)
}

// AddrOf returns a pointer to a copy of the struct value a (sharing all its backing arrays) and that copy.
func AddrOf(a interface{}) (ptr interface{}, val interface{}) {
	p := reflect.New(reflect.TypeOf(a))
	p.Elem().Set(reflect.ValueOf(a))
	return p.Interface(), p.Elem().Interface()
}

// Patterns enumerates the aliasing patterns the signature permits for these (prototype) operands:
// an input can be passed as the output, or two inputs can be the same object, whenever their dynamic
// types are identical reference types.
func Patterns(r *Row, in []interface{}, out interface{}, names []string) []Pattern {
	ps := []Pattern{{Name: "fresh", OutIs: -1}}
	name := func(i int) string {
		if i < len(names) {
			return names[i]
		}
		return "arg" + string(rune('0'+i))
	}
	var outIdx []int
	if out != nil && r.NoAlias == "" {
		for i, a := range in {
			if aliasable(a) && !contains(r.InPlace, i) && reflect.TypeOf(a) == reflect.TypeOf(out) && fits(a, out, r.OutMayBeLargerInput) {
				ps = append(ps, Pattern{Name: "out==" + name(i), OutIs: i})
				outIdx = append(outIdx, i)
				if _, isCt := a.(*rlwe.Ciphertext); isCt {
					if contains(r.OperandArgs, i) {
						ps = append(ps, Pattern{Name: "out==" + name(i) + ".El()", OutIs: i, Rep: "el"},
							Pattern{Name: "out==" + name(i) + ".Plaintext()", OutIs: i, Rep: "ptview"})
					}
					ps = append(ps, Pattern{Name: "out==&copy(*" + name(i) + ")", OutIs: i, Rep: "header"})
				}
			} else if PtrAlias(a, out) && !contains(r.InPlace, i) {
				ps = append(ps, Pattern{Name: "out==&" + name(i), OutIs: i})
				outIdx = append(outIdx, i)
			}
		}
	}
	for i := range in {
		for j := i + 1; j < len(in); j++ {
			if aliasable(in[i]) && !contains(r.InPlace, i) && !contains(r.InPlace, j) && reflect.TypeOf(in[i]) == reflect.TypeOf(in[j]) && fits(in[i], in[j], false) {
				p := [2]int{i, j}
				ps = append(ps, Pattern{Name: name(i) + "==" + name(j), OutIs: -1, Same: &p})
				if contains(outIdx, i) && contains(outIdx, j) {
					q := [2]int{i, j}
					ps = append(ps, Pattern{Name: "out==" + name(i) + "==" + name(j), OutIs: i, Same: &q})
				}
			}
		}
	}
	return ps
}

func contains(s []int, x int) bool {
	for _, v := range s {
		if v == x {
			return true
		}
	}
	return false
}

// ---------------------------------------------------------------------------------------------
// canonical form of a result

// Part is one separately compared component of a result.
type Part struct {
	Name string
	B    []byte
}

// Parts returns the meaningful part of a result, split into separately compared components so that
// one defect (say, a scale that is not propagated) does not hide another (wrong residues).
// Ciphertext-like results are compared as what they denote: "meta:Scale", "meta" (all other metadata),
// "level" and "value" (the polynomials Value[0..degree] at levels 0..level), where
// trailing all-zero polynomials are dropped (c0+c1·s and c0+c1·s+0·s² are the same result; what lies
// beyond the result's degree / level in the backing arrays is not part of it). Everything else is
// compared by its full value snapshot ("value").
func Parts(res interface{}) []Part {
	switch r := res.(type) {
	case nil:
		return []Part{{"value", []byte{0}}}
	case *rlwe.Ciphertext:
		if r == nil {
			return []Part{{"value", []byte{0}}}
		}
		return partsEl(&r.Element)
	case *rlwe.Element[ring.Poly]:
		if r == nil {
			return []Part{{"value", []byte{0}}}
		}
		return partsEl(r)
	case []*rlwe.Ciphertext:
		var all [][]Part
		for _, c := range r {
			all = append(all, Parts(c))
		}
		return mergeParts(all, nil)
	case map[int]*rlwe.Ciphertext:
		keys := make([]int, 0, len(r))
		for k := range r {
			keys = append(keys, k)
		}
		sort.Ints(keys)
		var all [][]Part
		for _, k := range keys {
			all = append(all, Parts(r[k]))
		}
		return mergeParts(all, keys)
	case []interface{}:
		var all [][]Part
		for _, c := range r {
			all = append(all, Parts(c))
		}
		return mergeParts(all, nil)
	}
	return []Part{{"value", Bytes(false, res)}}
}

func mergeParts(all [][]Part, keys []int) []Part {
	idx := map[string]int{}
	var out []Part
	for i, ps := range all {
		for _, p := range ps {
			j, ok := idx[p.Name]
			if !ok {
				j = len(out)
				idx[p.Name] = j
				out = append(out, Part{Name: p.Name})
			}
			k := i
			if keys != nil {
				k = keys[i]
			}
			out[j].B = append(out[j].B, byte(k), byte(k>>8), 0xEE)
			out[j].B = append(out[j].B, p.B...)
		}
	}
	if len(out) == 0 {
		out = []Part{{"value", []byte{0xE0}}}
	}
	return out
}

func partsEl(el *rlwe.Element[ring.Poly]) []Part {
	var scale, meta []byte
	if el.MetaData == nil {
		meta = []byte{0}
	} else {
		// numeric value of the scale (exact, independent of the big.Float precision it was computed with)
		scale = []byte(el.MetaData.Scale.Value.Text('p', 0))
		if el.MetaData.Scale.Mod != nil {
			scale = append(scale, ("%" + el.MetaData.Scale.Mod.String())...)
		}
		m := *el.MetaData
		m.Scale = rlwe.Scale{}
		meta = Bytes(false, m)
	}
	d := len(el.Value) - 1
	for d > 0 && isZero(el.Value[d]) {
		d--
	}
	var val []byte
	for i := 0; i <= d; i++ {
		val = append(val, Bytes(false, el.Value[i].Coeffs)...)
	}
	return []Part{{"meta:Scale", scale}, {"meta", meta}, {"level", []byte{byte(el.Level())}}, {"value", val}}
}

func isZero(p ring.Poly) bool {
	for _, row := range p.Coeffs {
		for _, w := range row {
			if w != 0 {
				return false
			}
		}
	}
	return true
}
