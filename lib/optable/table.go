package optable

import (
	"reflect"
	"sort"

	"github.com/tuneinsight/lattigo/v6/core/rlwe"
	"github.com/tuneinsight/lattigo/v6/ring"
	"github.com/tuneinsight/lattigo/v6/ring/ringqp"
)

// Target is one receiver type whose exported methods are tabled.
type Target struct {
	Name string   // "bgv.Evaluator"
	Envs []string // environments it is exercised under ("" entries are filtered by tier)
	// New returns a brand-new receiver.
	New func(e *Env) interface{}
	// Type is the receiver type whose exported method set is compared with the rows (coverage report).
	Type reflect.Type
	// Randomized: the receiver owns a PRNG, so its results legitimately depend on how many calls were
	// made before (previous calls are then not used as "evaluator history"; residue fills still are).
	Randomized bool
	// Shared returns the long-lived objects the receiver was built from (keys): they must stay intact.
	Shared func(e *Env) []interface{}
	Rows   []Row
	// NotTabled: exported methods deliberately without a row, with the reason (accessors returning
	// internal state, copy constructors = C10's subject, methods promoted from an embedded type that
	// has its own target).
	NotTabled map[string]string
}

// Row is one exported method.
type Row struct {
	Method string
	// Kinds are the operand-kind variants (every admissible dynamic type / degree / level / scale class
	// of the arguments). Operands are distinct objects with different content, and different scale /
	// level / degree wherever the operation admits it.
	Kinds []Kind
	// Call invokes the method. in: the inputs in signature order without the designated output;
	// out: the designated output object (nil when the method allocates or returns its result).
	// It returns the result object (out itself, or what the method returned).
	Call func(rcv interface{}, in []interface{}, out interface{}) (res interface{}, err error)
	// Out describes the designated output parameter (nil: the method has none).
	Out *OutSpec
	// InPlace lists the inputs (indices) the doc comment declares as modified by the call; they are
	// exempt from the inputs-intact oracle.
	InPlace []int
	// NoAlias: the doc comment forbids passing an input as output (reason). Such calls are not generated.
	NoAlias string
	// Doc is the relevant sentence of the method's doc comment the classification was read from.
	Doc string
}

// Kind is one operand-kind variant of a row.
type Kind struct {
	Name  string
	Names []string // argument names, for messages
	// Make returns fresh inputs; the content must be a pure function of (e, g).
	Make func(e *Env, g *Gen) []interface{}
}

// Shape is the history of the output object handed to the call.
type Shape int

const (
	ShapeExact        Shape = iota // freshly allocated, exactly the shape of the result, zeroed
	ShapeLargerDegree              // one more polynomial than the result, previously used (garbage)
	ShapeLargerLevel               // one more level than the result (when the chain allows it), garbage
	ShapeGarbage                   // exact shape, but holding another result: garbage words, other scale / dimensions
	ShapeSmallerLevel              // one level less than the inputs, garbage (the reference is then a fresh output of that smaller level)
)

func (s Shape) String() string {
	return [...]string{"exact", "larger-degree", "larger-level", "garbage", "smaller-level"}[s]
}

// OutSpec describes the designated output parameter of a row.
type OutSpec struct {
	// New returns an output object for these inputs: fresh=true: zeroed with default metadata;
	// otherwise "previously used". dDeg / dLvl are added to the exact degree / level of the result
	// (the function returns nil if that shape does not exist, e.g. level above the chain).
	New func(e *Env, in []interface{}, dDeg, dLvl int) interface{}
	// Shapes lists the output histories that are admissible for this method besides ShapeExact.
	Shapes []Shape
	// Accumulates: the previous content of the output is an input of the operation (…ThenAdd,
	// documented in-place updates). New then returns an object with deterministic content and no
	// output history is enumerated.
	Accumulates bool
}

// MakeOut builds the output for a shape (nil if the shape does not exist for these inputs).
func (o *OutSpec) MakeOut(e *Env, in []interface{}, sh Shape) interface{} {
	var out interface{}
	switch sh {
	case ShapeExact:
		return o.New(e, in, 0, 0)
	case ShapeLargerDegree:
		out = o.New(e, in, 1, 0)
	case ShapeLargerLevel:
		out = o.New(e, in, 0, 1)
	case ShapeGarbage:
		out = o.New(e, in, 0, 0)
	case ShapeSmallerLevel:
		out = o.New(e, in, 0, -1)
	}
	if out == nil || reflect.ValueOf(out).Kind() == reflect.Ptr && reflect.ValueOf(out).IsNil() {
		return nil
	}
	FillObject(out, FillPattern)
	if sh == ShapeGarbage || sh == ShapeSmallerLevel {
		e.DirtyMeta(metaOf(out))
	}
	return out
}

func metaOf(x interface{}) *rlwe.MetaData {
	switch o := x.(type) {
	case *rlwe.Ciphertext:
		return o.MetaData
	case *rlwe.Plaintext:
		return o.MetaData
	case *rlwe.Element[ring.Poly]:
		return o.MetaData
	case *rlwe.Element[ringqp.Poly]:
		return o.MetaData
	}
	return nil
}

// ---------------------------------------------------------------------------------------------
// aliasing patterns

// Pattern is one aliasing pattern of a call: OutIs = index of the input that is also passed as
// output (-1: distinct output); Same = pair of inputs that are the same object (nil: none).
type Pattern struct {
	Name  string
	OutIs int
	Same  *[2]int
}

func aliasable(v interface{}) bool {
	if v == nil {
		return false
	}
	switch v.(type) {
	case ring.Poly, ringqp.Poly:
		return true // a struct of slices: passing the same value shares the memory
	}
	k := reflect.ValueOf(v).Kind()
	return k == reflect.Ptr || k == reflect.Map
}

// Patterns enumerates the aliasing patterns the signature permits for these (prototype) operands:
// an input can be passed as the output, or two inputs can be the same object, whenever their dynamic
// types are identical reference types.
func Patterns(r *Row, in []interface{}, out interface{}, names []string) []Pattern {
	ps := []Pattern{{Name: "fresh", OutIs: -1}}
	name := func(i int) string {
		if i < len(names) {
			return names[i]
		}
		return "arg" + string(rune('0'+i))
	}
	var outIdx []int
	if out != nil && r.NoAlias == "" && !(r.Out != nil && r.Out.Accumulates && false) {
		for i, a := range in {
			if aliasable(a) && reflect.TypeOf(a) == reflect.TypeOf(out) {
				ps = append(ps, Pattern{Name: "out==" + name(i), OutIs: i})
				outIdx = append(outIdx, i)
			}
		}
	}
	for i := range in {
		for j := i + 1; j < len(in); j++ {
			if aliasable(in[i]) && reflect.TypeOf(in[i]) == reflect.TypeOf(in[j]) {
				p := [2]int{i, j}
				ps = append(ps, Pattern{Name: name(i) + "==" + name(j), OutIs: -1, Same: &p})
				if contains(outIdx, i) && contains(outIdx, j) {
					q := [2]int{i, j}
					ps = append(ps, Pattern{Name: "out==" + name(i) + "==" + name(j), OutIs: i, Same: &q})
				}
			}
		}
	}
	return ps
}

func contains(s []int, x int) bool {
	for _, v := range s {
		if v == x {
			return true
		}
	}
	return false
}

// ---------------------------------------------------------------------------------------------
// canonical form of a result

// Canon returns the bytes of the meaningful part of a result. Ciphertext-like results are compared as
// what they denote: metadata, level, and the polynomials Value[0..degree] at levels 0..level, where
// trailing all-zero polynomials are dropped (c0+c1·s and c0+c1·s+0·s² are the same result; what lies
// beyond the result's degree / level in the backing arrays is not part of it). Everything else is
// compared by its full value snapshot.
func Canon(res interface{}) []byte {
	switch r := res.(type) {
	case nil:
		return []byte{0}
	case *rlwe.Ciphertext:
		if r == nil {
			return []byte{0}
		}
		return canonEl(&r.Element)
	case *rlwe.Element[ring.Poly]:
		if r == nil {
			return []byte{0}
		}
		return canonEl(r)
	case []*rlwe.Ciphertext:
		var b []byte
		for _, c := range r {
			b = append(b, Canon(c)...)
			b = append(b, 0xEE)
		}
		return b
	case map[int]*rlwe.Ciphertext:
		keys := make([]int, 0, len(r))
		for k := range r {
			keys = append(keys, k)
		}
		sort.Ints(keys)
		var b []byte
		for _, k := range keys {
			b = append(b, byte(k), byte(k>>8))
			b = append(b, Canon(r[k])...)
			b = append(b, 0xEE)
		}
		return b
	case []interface{}:
		var b []byte
		for _, c := range r {
			b = append(b, Canon(c)...)
			b = append(b, 0xEF)
		}
		return b
	}
	return Bytes(false, res)
}

func canonEl(el *rlwe.Element[ring.Poly]) []byte {
	b := Bytes(false, el.MetaData)
	d := len(el.Value) - 1
	for d > 0 && isZero(el.Value[d]) {
		d--
	}
	b = append(b, byte(d), byte(el.Level()))
	for i := 0; i <= d; i++ {
		b = append(b, Bytes(false, el.Value[i].Coeffs)...)
	}
	return b
}

func isZero(p ring.Poly) bool {
	for _, row := range p.Coeffs {
		for _, w := range row {
			if w != 0 {
				return false
			}
		}
	}
	return true
}
