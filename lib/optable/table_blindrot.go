package optable

import (
	"reflect"
	"sync"

	"github.com/tuneinsight/lattigo/v6/core/rgsw/blindrot"
	"github.com/tuneinsight/lattigo/v6/core/rlwe"
	"github.com/tuneinsight/lattigo/v6/ring"
	"github.com/tuneinsight/lattigo/v6/utils/sampling"

	"verif/uni"
)

// ---------------------------------------------------------------------------------------------
// blindrot.Evaluator (core/rgsw/blindrot/evaluator.go). Own tiny universe (as in the package's test, scaled
// down): blind-rotation ring N=32 with one 27-bit modulus and no P (the 32-bit external product path),
// LWE ring N=16 with the modulus 12289, base-two decomposition 7.

type blindrotEnv struct {
	BR, LWE rlwe.Parameters
	BRK     blindrot.MemBlindRotationEvaluationKeySet
}

var (
	brOnce sync.Once
	brEnv  *blindrotEnv
)

func getBlindrotEnv() *blindrotEnv {
	brOnce.Do(func() {
		sampling.VerifSeed(0xC09B1D)
		br, err := rlwe.NewParametersFromLiteral(rlwe.ParametersLiteral{LogN: 5, Q: uni.Primes(5, 27, 1), NTTFlag: true})
		if err != nil {
			panic(err)
		}
		lwe, err := rlwe.NewParametersFromLiteral(rlwe.ParametersLiteral{LogN: 4, Q: []uint64{0x3001}, NTTFlag: true})
		if err != nil {
			panic(err)
		}
		b2 := 7
		skBR, skLWE := rlwe.NewKeyGenerator(br).GenSecretKeyNew(), rlwe.NewKeyGenerator(lwe).GenSecretKeyNew()
		brEnv = &blindrotEnv{BR: br, LWE: lwe, BRK: blindrot.GenEvaluationKeyNew(br, skBR, lwe, skLWE, rlwe.EvaluationKeyParameters{BaseTwoDecomposition: &b2})}
	})
	return brEnv
}

func blindrotTarget() *Target {
	type E = *blindrot.Evaluator
	t := &Target{
		Name: "blindrot.Evaluator", Envs: []string{"rlwe"}, // (the environment is only a label: the target has its own parameters)
		Type:             reflect.TypeOf(&blindrot.Evaluator{}),
		New:              func(e *Env) interface{} { b := getBlindrotEnv(); return blindrot.NewEvaluator(b.BR, b.LWE) },
		Shared:           func(e *Env) []interface{} { return []interface{}{getBlindrotEnv().BRK} },
		DefaultNotTabled: "promoted from the embedded *rgsw.Evaluator / rlwe.Evaluator (own targets)",
		NotTabled:        map[string]string{},
	}
	testPolys := func(g *Gen, slots ...int) map[int]*ring.Poly {
		b := getBlindrotEnv()
		m := map[int]*ring.Poly{}
		for _, s := range slots {
			p := g.Poly(b.BR.RingQ(), b.BR.MaxLevel())
			m[s] = &p
		}
		return m
	}
	t.Rows = []Row{
		{Method: "Evaluate", Doc: "extracts on the fly LWE samples and evaluates the provided blind rotation on the LWE; returns a map[slot_index] -> BlindRotate(ct[slot_index])",
			Kinds: []Kind{
				{Name: "ctLWE,polys{0,3,7}", Class: "ct", Names: []string{"ct", "testPolyWithSlotIndex", "BRK"}, Make: func(e *Env, g *Gen) []interface{} {
					b := getBlindrotEnv()
					return []interface{}{g.CtN(b.LWE, 1, 0), testPolys(g, 0, 3, 7), b.BRK}
				}},
				{Name: "ctLWE/coef,polys{5}", Class: "ct", Names: []string{"ct", "testPolyWithSlotIndex", "BRK"}, Make: func(e *Env, g *Gen) []interface{} {
					b := getBlindrotEnv()
					ct := g.CtN(b.LWE, 1, 0)
					ct.IsNTT = false
					return []interface{}{ct, testPolys(g, 5), b.BRK}
				}}},
			Call: func(rcv interface{}, in []interface{}, o interface{}) (interface{}, error) {
				return rcv.(E).Evaluate(asCt(in[0]), in[1].(map[int]*ring.Poly), in[2].(blindrot.MemBlindRotationEvaluationKeySet))
			}},
		{Method: "BlindRotateCore", Doc: "implements Algorithm 3 of https://eprint.iacr.org/2022/198: rotates the accumulator acc (in place) by the LWE mask a",
			Kinds: []Kind{{Name: "a,BRK", Class: "acc", Names: []string{"a", "BRK"}, Make: func(e *Env, g *Gen) []interface{} {
				b := getBlindrotEnv()
				a := make([]uint64, b.LWE.N())
				for i := range a {
					a[i] = g.U64()%uint64(2*b.BR.N()) | 1 // odd: an element of Z_{2N}^*
				}
				return []interface{}{a, b.BRK}
			}}},
			Out: &OutSpec{Accumulates: true, New: func(e *Env, in []interface{}, _, _ int) interface{} {
				b := getBlindrotEnv()
				return NewGen("BlindRotateCore").CtN(b.BR, 1, b.BR.MaxLevel())
			}},
			Call: func(rcv interface{}, in []interface{}, o interface{}) (interface{}, error) {
				return o, rcv.(E).BlindRotateCore(in[0].([]uint64), asCt(o), in[1].(blindrot.MemBlindRotationEvaluationKeySet))
			}},
	}
	return t
}
