package optable

import (
	"math/big"
	"reflect"

	bgvpoly "github.com/tuneinsight/lattigo/v6/circuits/bgv/polynomial"
	ckkspoly "github.com/tuneinsight/lattigo/v6/circuits/ckks/polynomial"
	"github.com/tuneinsight/lattigo/v6/circuits/common/lintrans"
	"github.com/tuneinsight/lattigo/v6/circuits/common/polynomial"
	"github.com/tuneinsight/lattigo/v6/core/rgsw"
	"github.com/tuneinsight/lattigo/v6/core/rlwe"
	"github.com/tuneinsight/lattigo/v6/ring"
	"github.com/tuneinsight/lattigo/v6/ring/ringqp"
	"github.com/tuneinsight/lattigo/v6/schemes"
	"github.com/tuneinsight/lattigo/v6/schemes/bgv"
	"github.com/tuneinsight/lattigo/v6/schemes/ckks"
	"github.com/tuneinsight/lattigo/v6/utils/bignum"
)

// ---------------------------------------------------------------------------------------------
// rgsw.Evaluator (core/rgsw/evaluator.go)

func rgswEvaluatorTarget() *Target {
	type E = *rgsw.Evaluator
	mkRGSW := func(e *Env, label string, dl int) *rgsw.Ciphertext {
		base2 := 0
		if e.Name == "rlwe-pow2" {
			base2 = 16
		}
		ct := rgsw.NewCiphertext(e.RLWE, e.MaxLevel()+dl, e.RLWE.MaxLevelP(), base2)
		// independent pseudo-random residues modulo every q_i and p_j. (Identical small words in the Q and
		// the P rows would denote a small integer mod QP: the product divided by P is then identically
		// zero and the row would compare zeros with zeros.)
		g := NewGen("rgsw", e.Name, label)
		rqp := e.RLWE.RingQP()
		for k := range ct.Value {
			for i := range ct.Value[k].Value {
				for j := range ct.Value[k].Value[i] {
					for c := range ct.Value[k].Value[i][j] {
						g.FillPolyQP(rqp, ct.Value[k].Value[i][j][c])
					}
				}
			}
		}
		return ct
	}
	// the number of special primes selects the code path (levelP >= 1: multiple-P product; levelP == 0:
	// single P with optional bit decomposition), so it is part of the operand class
	classOf := func(e *Env) string {
		if e.RLWE.PCount() >= 2 {
			return "ct-rgsw/2P"
		}
		return "ct-rgsw/1P"
	}
	kinds := []Kind{
		{Name: "ct1,rgsw", Class: "ct-rgsw", ClassOf: classOf, Names: []string{"op0", "op1"}, Make: func(e *Env, g *Gen) []interface{} {
			return []interface{}{g.Ct(e, 1, e.MaxLevel()), mkRGSW(e, "a", 0)}
		}},
		{Name: "ct1,rgsw/level", Class: "ct-rgsw", ClassOf: classOf, Names: []string{"op0", "op1"}, Make: func(e *Env, g *Gen) []interface{} {
			return []interface{}{g.Ct(e, 1, e.MaxLevel()-1), mkRGSW(e, "b", -1)}
		}},
	}
	t := &Target{
		Name: "rgsw.Evaluator", Envs: []string{"rlwe", "bgv-1p", "rlwe-pow2"},
		Type:      reflect.TypeOf(&rgsw.Evaluator{}),
		New:       func(e *Env) interface{} { return rgsw.NewEvaluator(e.RLWE, e.Evk) },
		Shared:    func(e *Env) []interface{} { return []interface{}{e.Evk} },
		NotTabled: map[string]string{"ShallowCopy": "copy constructor (C10)", "WithKey": "copy constructor (C10)"},
	}
	t.Rows = []Row{{Method: "ExternalProduct", Doc: "ExternalProduct computes RLWE x RGSW -> RLWE (result on opOut)", Kinds: kinds,
		Out: &OutSpec{Shapes: []Shape{ShapeDirtyWords}, New: func(e *Env, in []interface{}, dDeg, dLvl int) interface{} {
			_, l := degLvl(in[0])
			return e.NewCt(1+dDeg, l+dLvl)
		}},
		Call: func(rcv interface{}, in []interface{}, o interface{}) (interface{}, error) {
			rcv.(E).ExternalProduct(asCt(in[0]), in[1].(*rgsw.Ciphertext), asCt(o))
			return o, nil
		}}}
	for _, m := range promotedMethods(reflect.TypeOf(&rlwe.Evaluator{})) {
		if _, own := t.NotTabled[m]; !own && !t.has(m) {
			t.NotTabled[m] = "promoted from the embedded rlwe.Evaluator: tabled under target rlwe.Evaluator"
		}
	}
	return t
}

// ---------------------------------------------------------------------------------------------
// lintrans.Evaluator (circuits/common/lintrans/lintrans_evaluator.go), over a ckks or bgv evaluator

func schemeEvaluator(e *Env) schemes.Evaluator {
	if e.Scheme == "bgv" {
		return bgv.NewEvaluator(e.BGV, e.Evk, e.ScaleInvariant)
	}
	return ckks.NewEvaluator(e.CKKS, e.Evk)
}

func logDims(e *Env) ring.Dimensions {
	if e.Scheme == "bgv" {
		return e.BGV.LogMaxDimensions()
	}
	return e.CKKS.LogMaxDimensions()
}

// mkLT returns a linear transformation with pseudo-random diagonals (residues, not encodings: the
// evaluation is algebraic in them).
func mkLT(e *Env, g *Gen, diags []int, levelQ int, bsgs int) lintrans.LinearTransformation {
	scale := rlwe.NewScale(e.RLWE.Q()[levelQ])
	if e.Scheme == "bgv" {
		scale = e.BGVScale(3)
	}
	lt := lintrans.NewLinearTransformation(e.Params(), lintrans.Parameters{DiagonalsIndexList: diags, LevelQ: levelQ, LevelP: e.RLWE.MaxLevelP(),
		Scale: scale, LogDimensions: logDims(e), LogBabyStepGiantStepRatio: bsgs})
	keys := make([]int, 0, len(lt.Vec))
	for k := range lt.Vec {
		keys = append(keys, k)
	}
	sortInts(keys)
	rqp := e.RLWE.RingQP().AtLevel(levelQ, e.RLWE.MaxLevelP())
	for _, k := range keys {
		g.FillPolyQP(&rqp, lt.Vec[k])
	}
	return lt
}

func sortInts(a []int) {
	for i := 1; i < len(a); i++ {
		for j := i; j > 0 && a[j] < a[j-1]; j-- {
			a[j], a[j-1] = a[j-1], a[j]
		}
	}
}

// noJ0Diags returns a diagonal set whose BSGS decomposition (for the given log ratio) has no giant step
// j = 0, i.e. no non-zero diagonal with index in [0, N1): the accumulator of MultiplyByDiagMatrixBSGS is
// then initialised by a giant step j != 0 (a code path of its own).
func noJ0Diags(e *Env, logRatio int, which int) []int {
	cols := 1 << logDims(e).Cols
	cands := [][]int{{5}, {cols - 1, cols - 2, cols - 3, cols - 4}, {6, 7}, {3}, {cols - 1}, {4, 5, 6, 7}}
	var ok [][]int
	for _, d := range cands {
		n1 := lintrans.FindBestBSGSRatio(d, cols, logRatio)
		if n1 < 1 {
			continue
		}
		if idx, _, _ := lintrans.BSGSIndex(d, cols, n1); idx[0] == nil && len(idx) > 0 {
			ok = append(ok, d)
		}
	}
	if len(ok) == 0 {
		panic("optable: no diagonal set without giant step 0")
	}
	return ok[which%len(ok)]
}

func lintransEvaluatorTarget() *Target {
	type E = *lintrans.Evaluator
	diagsA, diagsB := []int{0, 1, 2, 5}, []int{0, 3, -1}
	ctOutLT := func(n int) *OutSpec {
		return &OutSpec{Shapes: []Shape{ShapeDirtyWords, ShapeDirtyMeta, ShapeLargerDegree, ShapeLargerLevel}, New: func(e *Env, in []interface{}, dDeg, dLvl int) interface{} {
			_, l := degLvl(in[0])
			if n == 0 {
				return e.NewCt(1+dDeg, l+dLvl)
			}
			out := make([]*rlwe.Ciphertext, n)
			for i := range out {
				if out[i] = e.NewCt(1+dDeg, l+dLvl); out[i] == nil {
					return nil
				}
			}
			return out
		}}
	}
	t := &Target{
		Name: "lintrans.Evaluator", Envs: []string{"ckks", "bgv", "ckks-1p", "ckks-ci"},
		Type:             reflect.TypeOf(&lintrans.Evaluator{}),
		New:              func(e *Env) interface{} { return &lintrans.Evaluator{Evaluator: schemeEvaluator(e)} },
		Shared:           func(e *Env) []interface{} { return []interface{}{e.Evk} },
		DefaultNotTabled: "promoted from the embedded schemes.Evaluator interface (the scheme evaluator has its own target)",
		NotTabled:        map[string]string{},
	}
	t.Rows = []Row{
		{Method: "EvaluateMany", Doc: "takes a ciphertext ctIn, a list of linear transformations and a list of pre-allocated receivers opOut, evaluates opOut[i] = M_i(ctIn)",
			Kinds: []Kind{
				{Name: "ct1,[bsgs,naive]", Class: "ct", Names: []string{"ctIn", "linearTransformations"}, Make: func(e *Env, g *Gen) []interface{} {
					return []interface{}{g.Ct(e, 1, e.MaxLevel()), []lintrans.LinearTransformation{mkLT(e, g, diagsA, e.MaxLevel(), 0), mkLT(e, g, diagsB, e.MaxLevel(), -1)}}
				}},
				{Name: "ct1/level,[naive,bsgs]", Class: "ct", Names: []string{"ctIn", "linearTransformations"}, Make: func(e *Env, g *Gen) []interface{} {
					return []interface{}{g.Ct(e, 1, e.MaxLevel()-1), []lintrans.LinearTransformation{mkLT(e, g, diagsA, e.MaxLevel()-1, -1), mkLT(e, g, diagsB, e.MaxLevel()-1, 1)}}
				}},
				{Name: "ct1,[bsgs/no-j0,bsgs/no-j0]", Class: "ct", Names: []string{"ctIn", "linearTransformations"}, Make: func(e *Env, g *Gen) []interface{} {
					return []interface{}{g.Ct(e, 1, e.MaxLevel()), []lintrans.LinearTransformation{mkLT(e, g, noJ0Diags(e, 0, 0), e.MaxLevel(), 0), mkLT(e, g, noJ0Diags(e, 1, 1), e.MaxLevel(), 1)}}
				}}},
			Out: ctOutLT(2),
			Call: func(rcv interface{}, in []interface{}, o interface{}) (interface{}, error) {
				return o, rcv.(E).EvaluateMany(asCt(in[0]), in[1].([]lintrans.LinearTransformation), o.([]*rlwe.Ciphertext))
			}},
		{Method: "EvaluateSequential", Doc: "evaluates opOut = M_n(...M_1(M_0(ctIn))), rescaling after each transformation",
			Kinds: []Kind{{Name: "ct1,[bsgs,naive]", Class: "ct", Names: []string{"ctIn", "linearTransformations"}, Make: func(e *Env, g *Gen) []interface{} {
				return []interface{}{g.Ct(e, 1, e.MaxLevel()), []lintrans.LinearTransformation{mkLT(e, g, diagsA, e.MaxLevel(), 0), mkLT(e, g, diagsB, e.MaxLevel()-1, -1)}}
			}}, {Name: "ct1,[bsgs/no-j0,bsgs/no-j0]", Class: "ct", Names: []string{"ctIn", "linearTransformations"}, Make: func(e *Env, g *Gen) []interface{} {
				return []interface{}{g.Ct(e, 1, e.MaxLevel()), []lintrans.LinearTransformation{mkLT(e, g, noJ0Diags(e, 0, 1), e.MaxLevel(), 0), mkLT(e, g, noJ0Diags(e, 0, 0), e.MaxLevel()-1, 0)}}
			}}},
			Out: &OutSpec{Shapes: []Shape{ShapeDirtyWords, ShapeDirtyMeta, ShapeLargerDegree}, New: func(e *Env, in []interface{}, dDeg, dLvl int) interface{} {
				return e.NewCt(1+dDeg, e.MaxLevel()+dLvl)
			}},
			Call: func(rcv interface{}, in []interface{}, o interface{}) (interface{}, error) {
				return o, rcv.(E).EvaluateSequential(asCt(in[0]), in[1].([]lintrans.LinearTransformation), asCt(o))
			}},
		{Method: "MultiplyByDiagMatrix", Doc: "multiplies the Ciphertext ctIn by the plaintext matrix and returns the result on opOut; BuffDecompQP is the hoisted decomposition of ctIn",
			Kinds: []Kind{{Name: "ct1,naive,decomp", Class: "ct", Names: []string{"ctIn", "matrix", "BuffDecompQP"}, Make: func(e *Env, g *Gen) []interface{} {
				ct := g.Ct(e, 1, e.MaxLevel())
				return []interface{}{ct, mkLT(e, g, diagsA, e.MaxLevel(), -1), decompOf(e, ct)}
			}}},
			Out: ctOutLT(0),
			Call: func(rcv interface{}, in []interface{}, o interface{}) (interface{}, error) {
				return o, rcv.(E).MultiplyByDiagMatrix(asCt(in[0]), in[1].(lintrans.LinearTransformation), in[2].([]ringqp.Poly), asCt(o))
			}},
		{Method: "MultiplyByDiagMatrixBSGS", Doc: "multiplies the Ciphertext ctIn by the plaintext matrix (BSGS) using the pre-rotated ciphertexts ctInPreRot, result on opOut",
			Kinds: func() []Kind {
				mk := func(name string, diags func(e *Env) []int, ratio int) Kind {
					return Kind{Name: name, Class: "ct", Names: []string{"ctIn", "matrix", "ctInPreRot"}, Make: func(e *Env, g *Gen) []interface{} {
						ct := g.Ct(e, 1, e.MaxLevel())
						lt := mkLT(e, g, diags(e), e.MaxLevel(), ratio)
						_, _, rotN2 := lt.BSGSIndex()
						pre := map[int]*rlwe.Element[ringqp.Poly]{}
						ev := &lintrans.Evaluator{Evaluator: schemeEvaluator(e)}
						if err := ev.PreRotatedCiphertextForDiagonalMatrixMultiplication(ct.Level(), e.RLWE.MaxLevelP(), ct, decompOf(e, ct), rotN2, pre); err != nil {
							panic(err)
						}
						return []interface{}{ct, lt, pre}
					}}
				}
				return []Kind{
					mk("ct1,bsgs,prerot", func(*Env) []int { return diagsA }, 0),
					// no non-zero diagonal in [0, N1): the first giant step is not j = 0
					mk("ct1,bsgs/no-j0/shift,prerot", func(e *Env) []int { return noJ0Diags(e, 0, 0) }, 0),
					mk("ct1,bsgs/no-j0/band,prerot", func(e *Env) []int { return noJ0Diags(e, 1, 1) }, 1),
				}
			}(),
			Out: ctOutLT(0),
			Call: func(rcv interface{}, in []interface{}, o interface{}) (interface{}, error) {
				return o, rcv.(E).MultiplyByDiagMatrixBSGS(asCt(in[0]), in[1].(lintrans.LinearTransformation), in[2].(map[int]*rlwe.Element[ringqp.Poly]), asCt(o))
			}},
		{Method: "PreRotatedCiphertextForDiagonalMatrixMultiplication", Doc: "populates ctPreRot with the pre-rotated ciphertext for the rotations rots and deletes rotated ciphertexts that are not in rots",
			Kinds: []Kind{{Name: "ct1,decomp,rots", Class: "ct", Names: []string{"levelQ", "levelP", "ctIn", "BuffDecompQP", "rots"}, Make: func(e *Env, g *Gen) []interface{} {
				ct := g.Ct(e, 1, e.MaxLevel())
				return []interface{}{ct.Level(), e.RLWE.MaxLevelP(), ct, decompOf(e, ct), []int{0, 2, 4}}
			}}},
			Out: &OutSpec{New: func(e *Env, in []interface{}, dDeg, dLvl int) interface{} {
				if dDeg != 0 || dLvl != 0 {
					return nil
				}
				return map[int]*rlwe.Element[ringqp.Poly]{}
			}},
			Call: func(rcv interface{}, in []interface{}, o interface{}) (interface{}, error) {
				return o, rcv.(E).PreRotatedCiphertextForDiagonalMatrixMultiplication(in[0].(int), in[1].(int), asCt(in[2]), in[3].([]ringqp.Poly), in[4].([]int), o.(map[int]*rlwe.Element[ringqp.Poly]))
			}},
	}
	return t
}

// ---------------------------------------------------------------------------------------------
// polynomial.Evaluator (circuits/common/polynomial/polynomial_evaluator.go), reached through the scheme
// wrappers circuits/ckks/polynomial.Evaluator and circuits/bgv/polynomial.Evaluator (the only public
// constructors of its SimEvaluator argument).

type polyEval interface {
	Evaluate(ct *rlwe.Ciphertext, p interface{}, targetScale rlwe.Scale) (*rlwe.Ciphertext, error)
	EvaluateFromPowerBasis(pb polynomial.PowerBasis, p interface{}, targetScale rlwe.Scale) (*rlwe.Ciphertext, error)
	EvaluateMonomial(a, b, xpow *rlwe.Ciphertext) error
	EvaluatePolynomialVectorFromPowerBasis(targetLevel int, pol polynomial.PolynomialVector, pb polynomial.PowerBasis, targetScale rlwe.Scale) (*rlwe.Ciphertext, error)
}

func polynomialEvaluatorTarget() *Target {
	mkPoly := func(e *Env) bignum.Polynomial {
		if e.Scheme == "bgv" {
			return bignum.NewPolynomial(bignum.Monomial, []uint64{3, 5, 0, 7}, nil)
		}
		return bignum.NewPolynomial(bignum.Monomial, []complex128{0.5, 1.25, 0, -0.75}, nil)
	}
	target := func(e *Env) rlwe.Scale {
		if e.Scheme == "bgv" {
			return e.BGV.DefaultScale()
		}
		return e.CKKS.DefaultScale()
	}
	mkPB := func(e *Env, g *Gen) polynomial.PowerBasis {
		// genuine powers X, X^2, X^3 (with the scales the evaluator expects), computed by a private evaluator
		pb := polynomial.NewPowerBasis(g.Ct(e, 1, e.MaxLevel()), bignum.Monomial)
		ev := schemeEvaluator(e)
		for _, n := range []int{2, 3} {
			if err := pb.GenPower(n, false, ev); err != nil {
				panic(err)
			}
		}
		return pb
	}
	// polynomials with holes (nil coefficients) at irregular positions, of a degree that is split by
	// Paterson-Stockmeyer: Factorize then takes the "remainder has no coefficient at n-j" branches
	holed := func(e *Env, basis bignum.Basis, deg int, holes ...int) bignum.Polynomial {
		g := NewGen("holed", basis, deg)
		c := make([]*bignum.Complex, deg+1)
		for i := range c {
			if e.Scheme == "bgv" {
				c[i] = &bignum.Complex{new(big.Float).SetUint64(g.U64()%96 + 1), new(big.Float)}
			} else {
				c[i] = &bignum.Complex{bigF(float64(g.U64()%2000)/1000 - 1.0005), bigF(0)}
			}
		}
		for _, h := range holes {
			c[h] = nil
		}
		var interval interface{}
		if basis == bignum.Chebyshev {
			interval = [2]float64{-1, 1}
		}
		return bignum.NewPolynomial(basis, c, interval)
	}
	deepKinds := func() []Kind {
		mk := func(name string, p func(e *Env) interface{}) Kind {
			return Kind{Name: name, Class: "ct/deep", Names: []string{"ct", "p", "targetScale"}, Make: func(e *Env, g *Gen) []interface{} {
				if e.MaxLevel() < 5 {
					return []interface{}{g.Ct(e, 1, e.MaxLevel()), mkPoly(e), target(e)} // shallow environments: the small polynomial
				}
				return []interface{}{g.Ct(e, 1, e.MaxLevel()), p(e), target(e)}
			}}
		}
		basis := func(e *Env) bignum.Basis {
			if e.Scheme == "bgv" {
				return bignum.Monomial
			}
			return bignum.Chebyshev
		}
		return []Kind{
			mk("ct1,deg9/hole7", func(e *Env) interface{} { return holed(e, basis(e), 9, 7) }),
			mk("ct1,deg13/holes5,10", func(e *Env) interface{} { return holed(e, basis(e), 13, 5, 10) }),
			mk("ct1,deg17/holes15,6,1", func(e *Env) interface{} { return holed(e, basis(e), 17, 15, 6, 1) }),
			mk("ct1,monomial-deg11/holes7,9", func(e *Env) interface{} { return holed(e, bignum.Monomial, 11, 7, 9) }),
			mk("ct1,vector[deg9/hole7,deg9/hole6]", func(e *Env) interface{} {
				pv, err := polynomial.NewPolynomialVector([]bignum.Polynomial{holed(e, basis(e), 9, 7), holed(e, basis(e), 9, 6)}, map[int][]int{0: {0, 1, 2}, 1: {3, 4}})
				if err != nil {
					panic(err)
				}
				return pv
			}),
		}
	}()
	t := &Target{
		Name: "polynomial.Evaluator", Envs: []string{"ckks", "bgv", "ckks-deep", "bgv-deep"},
		Type: reflect.TypeOf(&polynomial.Evaluator[uint64]{}),
		New: func(e *Env) interface{} {
			if e.Scheme == "bgv" {
				return bgvpoly.NewEvaluator(e.BGV, bgv.NewEvaluator(e.BGV, e.Evk))
			}
			return ckkspoly.NewEvaluator(e.CKKS, ckks.NewEvaluator(e.CKKS, e.Evk))
		},
		Shared:           func(e *Env) []interface{} { return []interface{}{e.Evk} },
		DefaultNotTabled: "promoted from the embedded schemes.Evaluator / CoefficientGetter interfaces",
		NotTabled: map[string]string{
			"EvaluateBabyStep":                           "its PatersonStockmeyerPolynomialVector argument can only be built with the scheme packages' unexported SimEvaluator; exercised through Evaluate",
			"EvaluateGianStep":                           "same (internal step of Evaluate)",
			"EvaluatePatersonStockmeyerPolynomialVector": "same (internal step of Evaluate)",
		},
	}
	t.Rows = []Row{
		{Method: "Evaluate", Doc: "evaluates a polynomial on the input Ciphertext in ceil(log2(deg+1)) levels; returns a new ciphertext",
			Kinds: append([]Kind{{Name: "ct1,poly3", Class: "ct", Names: []string{"ct", "p", "targetScale"}, Make: func(e *Env, g *Gen) []interface{} {
				return []interface{}{g.Ct(e, 1, e.MaxLevel()), mkPoly(e), target(e)}
			}}}, deepKinds...),
			Call: func(rcv interface{}, in []interface{}, o interface{}) (interface{}, error) {
				r, err := rcv.(polyEval).Evaluate(asCt(in[0]), in[1], in[2].(rlwe.Scale))
				if r == nil {
					return nil, err
				}
				return r, err
			}},
		{Method: "EvaluateFromPowerBasis", Func: true, InPlace: []int{0},
			Doc: "(scheme wrapper) same as Evaluate except that the encrypted input is a PowerBasis holding pre-computed powers of X; the PowerBasis is a cache: the powers that are missing are generated and stored in it (PowerBasis.GenPower), so it is exempt from the inputs-intact oracle",
			Kinds: []Kind{{Name: "pb,poly3", Class: "pb", Names: []string{"pb", "p", "targetScale"}, Make: func(e *Env, g *Gen) []interface{} {
				return []interface{}{mkPB(e, g), mkPoly(e), target(e)}
			}}, {Name: "pb,deg9/hole7", Class: "pb/deep", Names: []string{"pb", "p", "targetScale"}, Make: func(e *Env, g *Gen) []interface{} {
				if e.MaxLevel() < 5 {
					return []interface{}{mkPB(e, g), mkPoly(e), target(e)}
				}
				b := bignum.Chebyshev
				if e.Scheme == "bgv" {
					b = bignum.Monomial
				}
				pb := polynomial.NewPowerBasis(g.Ct(e, 1, e.MaxLevel()), b)
				return []interface{}{pb, holed(e, b, 9, 7), target(e)}
			}}},
			Call: func(rcv interface{}, in []interface{}, o interface{}) (interface{}, error) {
				r, err := rcv.(polyEval).EvaluateFromPowerBasis(in[0].(polynomial.PowerBasis), in[1], in[2].(rlwe.Scale))
				if r == nil {
					return nil, err
				}
				return r, err
			}},
		{Method: "EvaluateMonomial", Doc: "evaluates a monomial of the form a + b * X^{pow} and writes the results in b",
			Kinds: []Kind{{Name: "a,xpow", Class: "ct", Names: []string{"a", "xpow"}, Make: func(e *Env, g *Gen) []interface{} {
				a, x := g.Ct(e, 1, e.MaxLevel()-1), g.Ct(e, 1, e.MaxLevel()-1)
				if e.Scheme == "ckks" {
					// scale(a) must equal scale(rescale(b)) * scale(xpow)
					qL := rlwe.NewScale(e.RLWE.Q()[e.MaxLevel()])
					a.Scale = e.CKKSScale(80, 1).Div(qL).Mul(x.Scale)
				} else {
					b := NewGen("EvaluateMonomial").Ct(e, 2, e.MaxLevel())
					tmp := b.CopyNew()
					ev := bgv.NewEvaluator(e.BGV, e.Evk)
					_ = ev.Relinearize(tmp, tmp)
					_ = ev.Rescale(tmp, tmp)
					a.Scale = tmp.Scale.Mul(x.Scale)
				}
				return []interface{}{a, x}
			}}},
			Out: &OutSpec{Accumulates: true, New: func(e *Env, in []interface{}, _, _ int) interface{} {
				b := NewGen("EvaluateMonomial").Ct(e, 2, e.MaxLevel())
				if e.Scheme == "ckks" {
					b.Scale = e.CKKSScale(80, 1)
				}
				return b
			}},
			Call: func(rcv interface{}, in []interface{}, o interface{}) (interface{}, error) {
				return o, rcv.(polyEval).EvaluateMonomial(asCt(in[0]), asCt(o), asCt(in[1]))
			}},
		{Method: "EvaluatePolynomialVectorFromPowerBasis", Doc: "evaluates P(ct) = sum c_i * ct^{i} from the pre-computed powers; returns a new ciphertext",
			Kinds: []Kind{{Name: "level,polvec,pb", Class: "pb", Names: []string{"targetLevel", "pol", "pb", "targetScale"}, Make: func(e *Env, g *Gen) []interface{} {
				pv := polynomial.PolynomialVector{Value: []polynomial.Polynomial{polynomial.NewPolynomial(mkPoly(e))}}
				ts := target(e)
				if e.Scheme == "ckks" {
					ts = e.CKKSScale(80, 1)
				}
				return []interface{}{e.MaxLevel() - 1, pv, mkPB(e, g), ts}
			}}},
			Call: func(rcv interface{}, in []interface{}, o interface{}) (interface{}, error) {
				r, err := rcv.(polyEval).EvaluatePolynomialVectorFromPowerBasis(in[0].(int), in[1].(polynomial.PolynomialVector), in[2].(polynomial.PowerBasis), in[3].(rlwe.Scale))
				if r == nil {
					return nil, err
				}
				return r, err
			}},
	}
	return t
}
