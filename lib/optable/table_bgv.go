package optable

import (
	"math/big"
	"reflect"

	"github.com/tuneinsight/lattigo/v6/core/rlwe"
	"github.com/tuneinsight/lattigo/v6/ring/ringqp"
	"github.com/tuneinsight/lattigo/v6/schemes/bgv"
)

// ---------------------------------------------------------------------------------------------
// bgv.Evaluator (schemes/bgv/evaluator.go). The same rows run under "bgv" (standard tensoring) and
// "bfv" (ScaleInvariant evaluator).

type bgvE = *bgv.Evaluator

// bgvBinKinds: operand kinds of op1 (and shapes of op0) accepted by Add/Sub/Mul...:
// rlwe.ElementInterface (ciphertext / plaintext), *big.Int, uint64, int64, int, []uint64, []int64.
// Scales are units mod t=97; the default scale is 1.
func bgvBinKinds() []Kind {
	n := []string{"op0", "op1"}
	mk := func(name string, d0, dl0 int, s0 uint64, op1 func(e *Env, g *Gen) interface{}) Kind {
		return Kind{Name: name, Class: bgvClass[name], Names: n, Make: func(e *Env, g *Gen) []interface{} {
			a := g.Ct(e, d0, e.MaxLevel()+dl0)
			if s0 != 0 {
				a.Scale = e.BGVScale(s0)
			}
			return []interface{}{a, op1(e, g)}
		}}
	}
	ctOp := func(d, dl int, s uint64) func(e *Env, g *Gen) interface{} {
		return func(e *Env, g *Gen) interface{} {
			b := g.Ct(e, d, e.MaxLevel()+dl)
			if s != 0 {
				b.Scale = e.BGVScale(s)
			}
			return b
		}
	}
	ptOp := func(dl int, s uint64) func(e *Env, g *Gen) interface{} {
		return func(e *Env, g *Gen) interface{} {
			b := g.Pt(e, e.MaxLevel()+dl)
			if s != 0 {
				b.Scale = e.BGVScale(s)
			}
			return b
		}
	}
	vecU := func(e *Env, g *Gen) interface{} {
		v := make([]uint64, e.BGV.MaxSlots())
		for i := range v {
			v[i] = g.U64() % 97
		}
		return v
	}
	vecI := func(e *Env, g *Gen) interface{} {
		v := make([]int64, e.BGV.MaxSlots()-3) // shorter than the slot count
		for i := range v {
			v[i] = int64(g.U64()%97) - 48
		}
		return v
	}
	// *big.Int value alphabet, t = 97: one value on each side of every branch of the scalar normalisation
	// (reduction mod t only when outside [0,t), centring only above t/2, scale multiplication), each with the
	// inputs-intact oracle on the big.Int itself (words and sign)
	bigAlphabet := func() []Kind {
		vals := []struct {
			n string
			v func() *big.Int
		}{
			{"0", func() *big.Int { return big.NewInt(0) }}, {"1", func() *big.Int { return big.NewInt(1) }},
			{"t/2", func() *big.Int { return big.NewInt(48) }}, {"t/2+1", func() *big.Int { return big.NewInt(49) }},
			{"t-1", func() *big.Int { return big.NewInt(96) }}, {"t", func() *big.Int { return big.NewInt(97) }},
			{"t+5", func() *big.Int { return big.NewInt(102) }}, {"3t-1", func() *big.Int { return big.NewInt(290) }},
			{"-1", func() *big.Int { return big.NewInt(-1) }}, {"-t/2-1", func() *big.Int { return big.NewInt(-49) }},
			{"-2^64-3", func() *big.Int { x := new(big.Int).Lsh(big.NewInt(1), 64); x.Add(x, big.NewInt(3)); return x.Neg(x) }},
			{"2^130+60", func() *big.Int { x := new(big.Int).Lsh(big.NewInt(1), 130); return x.Add(x, big.NewInt(60)) }},
		}
		var r []Kind
		for i, val := range vals {
			val := val
			s0 := uint64(0)
			if i%2 == 1 {
				s0 = 5
			}
			k := mk("ct1-bigint="+val.n, 1, 0, s0, func(*Env, *Gen) interface{} { return val.v() })
			k.Class, k.Light = "bigint", true
			r = append(r, k)
		}
		return r
	}()
	return append([]Kind{
		// ciphertext x ciphertext: every (degree of op0, degree of op1) in {1,2}^2 crossed with equal / different
		// scales (the scale-matching path is a different function), the level relation varying along the list;
		// each kind is then crossed with every aliasing pattern (out fresh, out==op0, out==op1, op0==op1, all equal)
		mk("ct1-ct1", 1, 0, 0, ctOp(1, 0, 0)),
		mk("ct1-ct1/scale", 1, 0, 5, ctOp(1, 0, 3)),
		mk("ct1-ct1/level", 1, 0, 0, ctOp(1, -1, 0)),
		mk("ct1-ct1/scale+level", 1, -1, 7, ctOp(1, 0, 11)),
		mk("ct1-ct2", 1, 0, 0, ctOp(2, 0, 0)),
		mk("ct1-ct2/scale", 1, 0, 5, ctOp(2, -1, 3)),
		mk("ct2-ct1", 2, -1, 0, ctOp(1, 0, 0)),
		mk("ct2-ct1/scale", 2, 0, 5, ctOp(1, 0, 3)),
		mk("ct2-ct2", 2, 0, 0, ctOp(2, -1, 0)),
		mk("ct2-ct2/scale", 2, -1, 7, ctOp(2, 0, 11)),
		// ciphertext x plaintext (degree 0): degrees 1 and 2 crossed with equal / different scales
		mk("ct1-pt", 1, 0, 0, ptOp(0, 0)),
		mk("ct1-pt/scale", 1, 0, 5, ptOp(0, 3)),
		mk("ct1-pt/level", 1, 0, 0, ptOp(-1, 0)),
		mk("ct2-pt", 2, 0, 0, ptOp(-1, 0)),
		mk("ct2-pt/scale", 2, -1, 5, ptOp(0, 3)),
		mk("ct1-bigint", 1, 0, 0, func(*Env, *Gen) interface{} { return big.NewInt(1000) }),
		mk("ct1/scale-bigint", 1, 0, 5, func(*Env, *Gen) interface{} { return big.NewInt(-77) }),
		mk("ct2-bigint", 2, -1, 5, func(*Env, *Gen) interface{} { return new(big.Int).Lsh(big.NewInt(12345), 70) }),
		mk("ct1-uint64", 1, 0, 5, func(*Env, *Gen) interface{} { return uint64(1 << 40) }),
		mk("ct1-int64", 1, 0, 5, func(*Env, *Gen) interface{} { return int64(-123456789) }),
		mk("ct1-int", 1, 0, 5, func(*Env, *Gen) interface{} { return int(96) }),
		mk("ct1-[]uint64", 1, 0, 5, vecU),
		mk("ct2-[]int64", 2, -1, 5, vecI),
	}, bigAlphabet...)
}

// coarse operand classes used in signatures: the kind of op1, and whether scales / degrees differ
var bgvClass = map[string]string{
	"ct1-ct1": "ct-ct", "ct1-ct1/level": "ct-ct", "ct1-ct1/scale": "ct-ct/scale", "ct1-ct1/scale+level": "ct-ct/scale",
	"ct1-ct2": "ct-ct/degree", "ct2-ct1/scale": "ct-ct/scale", "ct1-ct2/scale": "ct-ct/degree+scale", "ct2-ct1": "ct-ct/degree",
	"ct2-ct2": "ct-ct/degree2", "ct2-ct2/scale": "ct-ct/degree2+scale", "ct2-pt": "ct-pt",
	"ct1-pt": "ct-pt", "ct1-pt/level": "ct-pt", "ct1-pt/scale": "ct-pt/scale", "ct2-pt/scale": "ct-pt/scale",
	"ct1-bigint": "bigint", "ct1/scale-bigint": "bigint", "ct2-bigint": "bigint",
	"ct1-uint64": "uint64", "ct1-int64": "int64", "ct1-int": "int", "ct1-[]uint64": "[]uint64", "ct2-[]int64": "[]int64",
}

// accumulator scale for …ThenAdd: differs from op0.scale*op1.scale so that the scale matching path runs
func bgvAccScale(e *Env, in []interface{}) rlwe.Scale { return e.BGVScale(13) }

func bgvEvaluatorTarget() *Target {
	bk := bgvBinKinds()
	unK := []Kind{
		ctKind("ct1", 1, 0, nil),
		ctKind("ct1/scale+level", 1, -1, func(e *Env, ct *rlwe.Ciphertext) { ct.Scale = e.BGVScale(5) }),
		ctKind("ct2/scale", 2, 0, func(e *Env, ct *rlwe.Ciphertext) { ct.Scale = e.BGVScale(5) }),
	}
	withInt := func(ks []Kind, label string, vals ...int) []Kind {
		var r []Kind
		for _, k := range ks {
			for _, v := range vals {
				k, v := k, v
				r = append(r, Kind{Name: k.Name + "/" + label + "=" + itoa(v), Class: "ct", Names: []string{"op0", label},
					Make: func(e *Env, g *Gen) []interface{} { return append(k.Make(e, g), v) }})
			}
		}
		return r
	}
	with2Int := func(ks []Kind, pairs ...[2]int) []Kind {
		var r []Kind
		for _, k := range ks {
			for _, p := range pairs {
				k, p := k, p
				r = append(r, Kind{Name: k.Name + "/batch=" + itoa(p[0]) + ",n=" + itoa(p[1]), Class: "ct", Names: []string{"ctIn", "batchSize", "n"},
					Make: func(e *Env, g *Gen) []interface{} { return append(k.Make(e, g), p[0], p[1]) }})
			}
		}
		return r
	}
	un1 := unK[:2] // degree-1 only operations
	same := func(d0, _ int) int { return d0 }

	t := &Target{
		Name: "bgv.Evaluator", Envs: []string{"bgv", "bfv", "bgv-1p"},
		Type:   reflect.TypeOf(&bgv.Evaluator{}),
		New:    func(e *Env) interface{} { return bgv.NewEvaluator(e.BGV, e.Evk, e.ScaleInvariant) },
		Shared: func(e *Env) []interface{} { return []interface{}{e.Evk} },
		NotTabled: map[string]string{
			"BuffQ": "accessor returning the internal buffers", "GetParameters": "accessor", "GetRLWEParameters": "accessor",
			"ShallowCopy": "copy constructor (C10)", "WithKey": "copy constructor (C10)",
		},
	}
	t.Rows = []Row{
		binRow("Add", bgvE.Add, bk, ctOut(degMax, allShapes), "Add adds op1 to op0 and returns the result in opOut."),
		binNewRow("AddNew", bgvE.AddNew, bk, "returns the result on a new opOut"),
		binRow("Sub", bgvE.Sub, bk, ctOut(degMax, allShapes), "Sub subtracts op1 to op0 and returns the result in opOut."),
		binNewRow("SubNew", bgvE.SubNew, bk, "returns the result in a new opOut"),
		binRow("Mul", bgvE.Mul, bk, ctOut(degSum, allShapes), "multiplies op0 with op1 without relinearization ... returns the result in opOut"),
		binNewRow("MulNew", bgvE.MulNew, bk, "returns the result in a new opOut"),
		binRow("MulRelin", bgvE.MulRelin, bk, ctOut(degRelin, allShapes), "multiplies op0 with op1 with relinearization and returns the result in opOut"),
		binNewRow("MulRelinNew", bgvE.MulRelinNew, bk, "returns the result in a new opOut"),
		binRow("MulScaleInvariant", bgvE.MulScaleInvariant, bk, ctOut(degSum, allShapes), "BFV-style tensoring, result in opOut"),
		binNewRow("MulScaleInvariantNew", bgvE.MulScaleInvariantNew, bk, "result in a new opOut"),
		binRow("MulRelinScaleInvariant", bgvE.MulRelinScaleInvariant, bk, ctOut(degRelin, allShapes), "BFV-style tensoring with relinearization, result in opOut"),
		binNewRow("MulRelinScaleInvariantNew", bgvE.MulRelinScaleInvariantNew, bk, "result in a new opOut"),
		binRow("MulThenAdd", bgvE.MulThenAdd, bk, ctAcc(degSum, bgvAccScale, "MulThenAdd"),
			"multiplies op0 with op1 and adds the result on opOut; error if op0 == opOut or op1 == opOut"),
		binRow("MulRelinThenAdd", bgvE.MulRelinThenAdd, bk, ctAcc(degRelin, bgvAccScale, "MulRelinThenAdd"),
			"multiplies op0 with op1 with relinearization and adds the result on opOut; error if op0 == opOut or op1 == opOut"),
		unRow("Rescale", bgvE.Rescale, unK, &OutSpec{Shapes: []Shape{ShapeDirtyWords, ShapeDirtyMeta, ShapeLargerDegree, ShapeLargerLevel},
			New: func(e *Env, in []interface{}, dDeg, dLvl int) interface{} {
				d, l := degLvl(in[0])
				if e.ScaleInvariant {
					return nil // "if the evaluator has been instantiated as scale-invariant (BFV-style), then Rescale is a nop": nothing to compare
				}
				return e.NewCt(d+dDeg, l-1+dLvl)
			}}, "divides op0 by the last prime and returns the result on opOut; error if opOut.Level() < op0.Level()-1"),
		unNewRow("RelinearizeNew", bgvE.RelinearizeNew, unK[2:], "applies the relinearization procedure on op0 and returns the result in a new opOut"),
		{Method: "ApplyEvaluationKeyNew", Doc: "re-encrypts op0 under a different key and returns the result in a new opOut",
			Kinds: []Kind{ctKind("ct1-evk", 1, 0, nil, func(e *Env) interface{} { return e.Swk }), ctKind("ct1/level-evk", 1, -1, nil, func(e *Env) interface{} { return e.Swk })},
			Call: func(rcv interface{}, in []interface{}, o interface{}) (interface{}, error) {
				return rcv.(bgvE).ApplyEvaluationKeyNew(asCt(in[0]), in[1].(*rlwe.EvaluationKey))
			}},
		intRow("RotateColumns", bgvE.RotateColumns, withInt(un1, "k", 1, -2, 0), ctOut(same, allShapes), "rotates the columns of op0 by k positions to the left and returns the result in opOut"),
		intNewRow("RotateColumnsNew", bgvE.RotateColumnsNew, withInt(un1, "k", 1, -2, 0), "returns the result in a newly created element"),
		unRow("RotateRows", bgvE.RotateRows, un1, ctOut(same, allShapes), "swaps the rows of op0 and returns the result in op1"),
		unNewRow("RotateRowsNew", bgvE.RotateRowsNew, un1, "returns the result in a new opOut"),
		{Method: "RotateHoistedLazyNew", Doc: "applies a series of rotations on the same ciphertext and returns each different rotation in a map",
			Kinds: []Kind{{Name: "ct1-decomp", Names: []string{"level", "rotations", "op0", "c2DecompQP"}, Make: func(e *Env, g *Gen) []interface{} {
				ct := g.Ct(e, 1, e.MaxLevel())
				return []interface{}{ct.Level(), []int{1, 0, 3}, ct, decompOf(e, ct)}
			}}},
			Call: func(rcv interface{}, in []interface{}, o interface{}) (interface{}, error) {
				return rcv.(bgvE).RotateHoistedLazyNew(in[0].(int), in[1].([]int), asCt(in[2]), in[3].([]ringqp.Poly))
			}},
		int2Row("InnerSum", bgvE.InnerSum, with2Int(un1, [2]int{1, 4}, [2]int{2, 8}, [2]int{1, 16}, [2]int{16, 1}), ctOut(same, allShapes),
			"InnerSum: sums n sub-vectors of size batchSize, result in opOut"),
		int2Row("RotateAndAdd", bgvE.RotateAndAdd, with2Int(un1, [2]int{1, 3}, [2]int{2, 4}, [2]int{3, 1}), ctOut(same, allShapes),
			"RotateAndAdd computes the sum of the rotations of ctIn by batchSize*i, result in opOut"),
		{Method: "MatchScalesAndLevel", Doc: "updates the both input ciphertexts to ensures that their scale matches (both arguments are outputs)",
			Kinds: []Kind{{Name: "ct1,ct1/scale+level", Names: []string{}, Make: func(e *Env, g *Gen) []interface{} { return nil }}},
			Out: &OutSpec{Accumulates: true, New: func(e *Env, in []interface{}, _, _ int) interface{} {
				g := NewGen("MatchScalesAndLevel")
				a, b := g.Ct(e, 1, e.MaxLevel()), g.Ct(e, 2, e.MaxLevel()-1)
				a.Scale, b.Scale = e.BGVScale(5), e.BGVScale(3)
				return []*rlwe.Ciphertext{a, b}
			}},
			Call: func(rcv interface{}, in []interface{}, o interface{}) (interface{}, error) {
				p := o.([]*rlwe.Ciphertext)
				rcv.(bgvE).MatchScalesAndLevel(p[0], p[1])
				return o, nil
			}},
		{Method: "DropLevel", Doc: "reduces the level of op0 by levels (in place)",
			Kinds: []Kind{{Name: "ct1/levels=1", Names: []string{"levels"}, Make: func(e *Env, g *Gen) []interface{} { return []interface{}{1} }},
				{Name: "ct1/levels=0", Names: []string{"levels"}, Make: func(e *Env, g *Gen) []interface{} { return []interface{}{0} }}},
			Out: &OutSpec{Accumulates: true, New: func(e *Env, in []interface{}, _, _ int) interface{} {
				return NewGen("DropLevel").Ct(e, 1, e.MaxLevel())
			}},
			Call: func(rcv interface{}, in []interface{}, o interface{}) (interface{}, error) {
				rcv.(bgvE).DropLevel(asCt(o), in[0].(int))
				return o, nil
			}},
	}
	for _, m := range promotedMethods(reflect.TypeOf(&rlwe.Evaluator{})) {
		if _, own := t.NotTabled[m]; !own && !t.has(m) {
			t.NotTabled[m] = "promoted from *rlwe.Evaluator: tabled under target rlwe.Evaluator (also run on the evaluator embedded in a bgv.Evaluator)"
		}
	}
	for _, m := range promotedMethods(reflect.TypeOf(&bgv.Encoder{})) {
		if _, own := t.NotTabled[m]; !own && !t.has(m) {
			t.NotTabled[m] = "promoted from *bgv.Encoder: tabled under target bgv.Encoder"
		}
	}
	return t
}

func (t *Target) has(method string) bool {
	for _, r := range t.Rows {
		if r.Method == method {
			return true
		}
	}
	return false
}

func promotedMethods(t reflect.Type) []string {
	var r []string
	for i := 0; i < t.NumMethod(); i++ {
		r = append(r, t.Method(i).Name)
	}
	return r
}

func itoa(v int) string {
	if v < 0 {
		return "-" + itoa(-v)
	}
	if v < 10 {
		return string(rune('0' + v))
	}
	return itoa(v/10) + string(rune('0'+v%10))
}

// decompOf returns the hoisted decomposition of ct.Value[1] computed with a private evaluator.
func decompOf(e *Env, ct *rlwe.Ciphertext) []ringqp.Poly {
	ev := rlwe.NewEvaluator(e.RLWE, nil)
	lvl := ct.Level()
	ev.DecomposeNTT(lvl, e.RLWE.MaxLevelP(), e.RLWE.PCount(), ct.Value[1], ct.IsNTT, ev.BuffDecompQP)
	out := make([]ringqp.Poly, len(ev.BuffDecompQP))
	for i := range out {
		out[i] = *ev.BuffDecompQP[i].CopyNew()
	}
	return out
}
