package optable

import (
	"math/big"
	"reflect"

	"github.com/tuneinsight/lattigo/v6/ring"
)

// ---------------------------------------------------------------------------------------------
// ring.Ring: the entry points of ring/scaling.go and ring/operations.go (C09 anchors); the other
// methods of ring.Ring (NTT, automorphisms, samplers ...) are C01's subject.
// ring.BasisExtender / ring.Decomposer: ring/basis_extension.go.

type ringR = *ring.Ring

func asPoly(x interface{}) ring.Poly { return x.(ring.Poly) }

// polysKind: n input polynomials at the ring's level (+ extra scalar arguments).
func polysKind(name string, n int, extra func(e *Env, g *Gen) []interface{}, names ...string) Kind {
	return Kind{Name: name, Class: "poly", Names: names, Make: func(e *Env, g *Gen) []interface{} {
		var in []interface{}
		for i := 0; i < n; i++ {
			in = append(in, g.Poly(e.RLWE.RingQ(), e.MaxLevel()))
		}
		if extra != nil {
			in = append(in, extra(e, g)...)
		}
		return in
	}}
}

// polyOut: output polynomial at the ring's level + dLvl; acc: it accumulates (…ThenAdd).
func polyOut(acc bool, baseDLvl int, label string) *OutSpec {
	if acc {
		return &OutSpec{Accumulates: true, New: func(e *Env, in []interface{}, _, _ int) interface{} {
			return NewGen("acc", label).Poly(e.RLWE.RingQ(), e.MaxLevel())
		}}
	}
	shapes := []Shape{ShapeDirtyWords}
	if baseDLvl < 0 {
		shapes = append(shapes, ShapeLargerLevel) // "output poly level must be equal or one less than input level"
	}
	return &OutSpec{Shapes: shapes, New: func(e *Env, in []interface{}, _, dLvl int) interface{} {
		l := e.MaxLevel() + baseDLvl + dLvl
		if l < 0 || l > e.MaxLevel() {
			return nil
		}
		return e.RLWE.RingQ().AtLevel(l).NewPoly()
	}}
}

func ringTarget() *Target {
	t := &Target{
		Name: "ring.Ring", Envs: []string{"rlwe"}, NoScratch: true,
		Type:             reflect.TypeOf(&ring.Ring{}),
		New:              func(e *Env) interface{} { return e.RLWE.RingQ().AtLevel(e.MaxLevel()) },
		DefaultNotTabled: "not in ring/operations.go or ring/scaling.go (the C09 anchors); kernels, NTT and automorphisms are exercised with aliasing by C01",
		NotTabled:        map[string]string{},
	}
	p3 := func(name string, f func(ringR, ring.Poly, ring.Poly, ring.Poly), acc bool) Row {
		return Row{Method: name, Kinds: []Kind{polysKind("p1,p2", 2, nil, "p1", "p2")}, Out: polyOut(acc, 0, name), Doc: "p3 = f(p1, p2) coefficient-wise",
			Call: func(rcv interface{}, in []interface{}, o interface{}) (interface{}, error) {
				f(rcv.(ringR), asPoly(in[0]), asPoly(in[1]), asPoly(o))
				return o, nil
			}}
	}
	p2 := func(name string, f func(ringR, ring.Poly, ring.Poly)) Row {
		return Row{Method: name, Kinds: []Kind{polysKind("p1", 1, nil, "p1")}, Out: polyOut(false, 0, name), Doc: "p2 = f(p1) coefficient-wise",
			Call: func(rcv interface{}, in []interface{}, o interface{}) (interface{}, error) {
				f(rcv.(ringR), asPoly(in[0]), asPoly(o))
				return o, nil
			}}
	}
	u64 := func(name string, f func(ringR, ring.Poly, uint64, ring.Poly), acc bool) Row {
		return Row{Method: name, Kinds: []Kind{polysKind("p1,uint64", 1, func(*Env, *Gen) []interface{} { return []interface{}{uint64(1<<50 + 12345)} }, "p1", "scalar")},
			Out: polyOut(acc, 0, name), Doc: "p2 = f(p1, scalar)",
			Call: func(rcv interface{}, in []interface{}, o interface{}) (interface{}, error) {
				f(rcv.(ringR), asPoly(in[0]), in[1].(uint64), asPoly(o))
				return o, nil
			}}
	}
	bigK := []Kind{
		polysKind("p1,bigint", 1, func(*Env, *Gen) []interface{} { return []interface{}{new(big.Int).Lsh(big.NewInt(12345), 200)} }, "p1", "scalar"),
		polysKind("p1,bigint<0", 1, func(*Env, *Gen) []interface{} { return []interface{}{big.NewInt(-77)} }, "p1", "scalar"),
	}
	bg := func(name string, f func(ringR, ring.Poly, *big.Int, ring.Poly), acc bool) Row {
		return Row{Method: name, Kinds: bigK, Out: polyOut(acc, 0, name), Doc: "p2 = f(p1, scalar *big.Int)",
			Call: func(rcv interface{}, in []interface{}, o interface{}) (interface{}, error) {
				f(rcv.(ringR), asPoly(in[0]), in[1].(*big.Int), asPoly(o))
				return o, nil
			}}
	}
	rnsScalars := func(e *Env, g *Gen) []interface{} {
		r := e.RLWE.RingQ()
		a, b := r.NewRNSScalar(), r.NewRNSScalar()
		for i := range a {
			a[i], b[i] = g.U64()%r.SubRings[i].Modulus, g.U64()%r.SubRings[i].Modulus
		}
		return []interface{}{a, b}
	}
	drns := func(name string, f func(ringR, ring.Poly, ring.RNSScalar, ring.RNSScalar, ring.Poly), acc bool) Row {
		return Row{Method: name, Kinds: []Kind{polysKind("p1,rns,rns", 1, rnsScalars, "p1", "scalar0", "scalar1")}, Out: polyOut(acc, 0, name), Doc: "p2 = f(p1, scalar0, scalar1)",
			Call: func(rcv interface{}, in []interface{}, o interface{}) (interface{}, error) {
				f(rcv.(ringR), asPoly(in[0]), in[1].(ring.RNSScalar), in[2].(ring.RNSScalar), asPoly(o))
				return o, nil
			}}
	}
	intR := func(name string, f func(ringR, ring.Poly, int, ring.Poly), ks ...int) Row {
		var kinds []Kind
		for _, k := range ks {
			k := k
			kinds = append(kinds, polysKind("p1,k="+itoa(k), 1, func(*Env, *Gen) []interface{} { return []interface{}{k} }, "p1", "k"))
		}
		return Row{Method: name, Kinds: kinds, Out: polyOut(false, 0, name), Doc: "p2 = f(p1, k)",
			Call: func(rcv interface{}, in []interface{}, o interface{}) (interface{}, error) {
				f(rcv.(ringR), asPoly(in[0]), in[1].(int), asPoly(o))
				return o, nil
			}}
	}
	vec := func(name string, f func(ringR, ring.Poly, []uint64, ring.Poly), acc bool) Row {
		return Row{Method: name, Kinds: []Kind{polysKind("p1,vector", 1, func(e *Env, g *Gen) []interface{} {
			v := make([]uint64, e.RLWE.N())
			for i := range v {
				v[i] = g.U64() >> 30
			}
			return []interface{}{v}
		}, "p1", "vector")}, Out: polyOut(acc, 0, name), Doc: "p2 = f(p1, vector)",
			Call: func(rcv interface{}, in []interface{}, o interface{}) (interface{}, error) {
				f(rcv.(ringR), asPoly(in[0]), in[1].([]uint64), asPoly(o))
				return o, nil
			}}
	}
	// scaling: (p0, buff, p1): buff is a caller-provided scratch polynomial (documented as buffer)
	divNTT := func(name string, f func(ringR, ring.Poly, ring.Poly, ring.Poly)) Row {
		return Row{Method: name, Kinds: []Kind{polysKind("p0,buff", 2, nil, "p0", "buff")}, InPlace: []int{1}, Out: polyOut(false, -1, name), OutMayBeLargerInput: true,
			Doc: "divides the polynomial by its last modulus; buff is a scratch polynomial; output level equal or one less than input level",
			Call: func(rcv interface{}, in []interface{}, o interface{}) (interface{}, error) {
				f(rcv.(ringR), asPoly(in[0]), asPoly(in[1]), asPoly(o))
				return levelView(asPoly(o), rcv.(ringR).Level()-1), nil
			}}
	}
	div := func(name string, f func(ringR, ring.Poly, ring.Poly)) Row {
		return Row{Method: name, Kinds: []Kind{polysKind("p0", 1, nil, "p0")}, Out: polyOut(false, -1, name), OutMayBeLargerInput: true,
			Doc: "divides the polynomial by its last modulus; output level equal or one less than input level",
			Call: func(rcv interface{}, in []interface{}, o interface{}) (interface{}, error) {
				f(rcv.(ringR), asPoly(in[0]), asPoly(o))
				return levelView(asPoly(o), rcv.(ringR).Level()-1), nil
			}}
	}
	divMany := func(name string, f func(ringR, int, ring.Poly, ring.Poly, ring.Poly)) Row {
		var kinds []Kind
		for _, nb := range []int{0, 1, 2} {
			nb := nb
			kinds = append(kinds, Kind{Name: "nb=" + itoa(nb), Class: "poly", Names: []string{"nbRescales", "p0", "buff"}, Make: func(e *Env, g *Gen) []interface{} {
				return []interface{}{nb, g.Poly(e.RLWE.RingQ(), e.MaxLevel()), g.Poly(e.RLWE.RingQ(), e.MaxLevel())}
			}})
		}
		return Row{Method: name, Kinds: kinds, InPlace: []int{2}, OutMayBeLargerInput: true,
			Doc: "divides sequentially nbRescales times the polynomial by its last modulus; buff is scratch; output level equal or nbRescales less than input level",
			Out: &OutSpec{Shapes: []Shape{ShapeDirtyWords}, New: func(e *Env, in []interface{}, _, dLvl int) interface{} {
				l := e.MaxLevel() - in[0].(int) + dLvl
				if l < 0 || l > e.MaxLevel() {
					return nil
				}
				return e.RLWE.RingQ().AtLevel(l).NewPoly()
			}},
			Call: func(rcv interface{}, in []interface{}, o interface{}) (interface{}, error) {
				f(rcv.(ringR), in[0].(int), asPoly(in[1]), asPoly(in[2]), asPoly(o))
				return levelView(asPoly(o), rcv.(ringR).Level()-in[0].(int)), nil
			}}
	}
	t.Rows = []Row{
		divNTT("DivFloorByLastModulusNTT", ringR.DivFloorByLastModulusNTT),
		div("DivFloorByLastModulus", ringR.DivFloorByLastModulus),
		divMany("DivFloorByLastModulusManyNTT", ringR.DivFloorByLastModulusManyNTT),
		divMany("DivFloorByLastModulusMany", ringR.DivFloorByLastModulusMany),
		divNTT("DivRoundByLastModulusNTT", ringR.DivRoundByLastModulusNTT),
		div("DivRoundByLastModulus", ringR.DivRoundByLastModulus),
		divMany("DivRoundByLastModulusManyNTT", ringR.DivRoundByLastModulusManyNTT),
		divMany("DivRoundByLastModulusMany", ringR.DivRoundByLastModulusMany),

		p3("Add", ringR.Add, false), p3("AddLazy", ringR.AddLazy, false), p3("Sub", ringR.Sub, false), p3("SubLazy", ringR.SubLazy, false),
		p2("Neg", ringR.Neg), p2("Reduce", ringR.Reduce), p2("ReduceLazy", ringR.ReduceLazy),
		p3("MulCoeffsBarrett", ringR.MulCoeffsBarrett, false), p3("MulCoeffsBarrettLazy", ringR.MulCoeffsBarrettLazy, false),
		p3("MulCoeffsBarrettThenAdd", ringR.MulCoeffsBarrettThenAdd, true), p3("MulCoeffsBarrettThenAddLazy", ringR.MulCoeffsBarrettThenAddLazy, true),
		p3("MulCoeffsMontgomery", ringR.MulCoeffsMontgomery, false), p3("MulCoeffsMontgomeryLazy", ringR.MulCoeffsMontgomeryLazy, false),
		p3("MulCoeffsMontgomeryLazyThenNeg", ringR.MulCoeffsMontgomeryLazyThenNeg, false),
		p3("MulCoeffsMontgomeryThenAdd", ringR.MulCoeffsMontgomeryThenAdd, true), p3("MulCoeffsMontgomeryThenAddLazy", ringR.MulCoeffsMontgomeryThenAddLazy, true),
		p3("MulCoeffsMontgomeryLazyThenAddLazy", ringR.MulCoeffsMontgomeryLazyThenAddLazy, true),
		p3("MulCoeffsMontgomeryThenSub", ringR.MulCoeffsMontgomeryThenSub, true), p3("MulCoeffsMontgomeryThenSubLazy", ringR.MulCoeffsMontgomeryThenSubLazy, true),
		p3("MulCoeffsMontgomeryLazyThenSubLazy", ringR.MulCoeffsMontgomeryLazyThenSubLazy, true),
		u64("AddScalar", ringR.AddScalar, false), bg("AddScalarBigint", ringR.AddScalarBigint, false),
		drns("AddDoubleRNSScalar", ringR.AddDoubleRNSScalar, false), drns("SubDoubleRNSScalar", ringR.SubDoubleRNSScalar, false),
		u64("SubScalar", ringR.SubScalar, false), bg("SubScalarBigint", ringR.SubScalarBigint, false),
		u64("MulScalar", ringR.MulScalar, false), u64("MulScalarThenAdd", ringR.MulScalarThenAdd, true),
		{Method: "MulRNSScalarMontgomery", Doc: "p2 = p1 * scalar (RNS scalar in Montgomery form)",
			Kinds: []Kind{polysKind("p1,rns", 1, func(e *Env, g *Gen) []interface{} { return rnsScalars(e, g)[:1] }, "p1", "scalar")}, Out: polyOut(false, 0, ""),
			Call: func(rcv interface{}, in []interface{}, o interface{}) (interface{}, error) {
				rcv.(ringR).MulRNSScalarMontgomery(asPoly(in[0]), in[1].(ring.RNSScalar), asPoly(o))
				return o, nil
			}},
		u64("MulScalarThenSub", ringR.MulScalarThenSub, true), bg("MulScalarBigint", ringR.MulScalarBigint, false), bg("MulScalarBigintThenAdd", ringR.MulScalarBigintThenAdd, true),
		drns("MulDoubleRNSScalar", ringR.MulDoubleRNSScalar, false), drns("MulDoubleRNSScalarThenAdd", ringR.MulDoubleRNSScalarThenAdd, true),
		{Method: "EvalPolyScalar", Doc: "p2 = p1(scalar) coefficient-wise (p1 is a slice of polynomials)",
			Kinds: []Kind{{Name: "[]poly,uint64", Class: "poly", Names: []string{"p1", "scalar"}, Make: func(e *Env, g *Gen) []interface{} {
				ps := []ring.Poly{g.Poly(e.RLWE.RingQ(), e.MaxLevel()), g.Poly(e.RLWE.RingQ(), e.MaxLevel()), g.Poly(e.RLWE.RingQ(), e.MaxLevel())}
				return []interface{}{ps, uint64(1<<33 + 7)}
			}}}, Out: polyOut(false, 0, ""),
			Call: func(rcv interface{}, in []interface{}, o interface{}) (interface{}, error) {
				rcv.(ringR).EvalPolyScalar(in[0].([]ring.Poly), in[1].(uint64), asPoly(o))
				return o, nil
			}},
		intR("Shift", ringR.Shift, 3, -5, 0), p2("MForm", ringR.MForm), p2("MFormLazy", ringR.MFormLazy), p2("IMForm", ringR.IMForm),
		intR("MultByMonomial", ringR.MultByMonomial, 3, -5, 0, 17, 35),
		vec("MulByVectorMontgomery", ringR.MulByVectorMontgomery, false), vec("MulByVectorMontgomeryThenAddLazy", ringR.MulByVectorMontgomeryThenAddLazy, true),
	}
	return t
}

// levelView restricts a polynomial to its first level+1 rows (what a division "to level" defines
// when the output polynomial has more rows).
func levelView(p ring.Poly, level int) ring.Poly {
	if level < 0 {
		level = 0
	}
	if len(p.Coeffs) > level+1 {
		return ring.Poly{Coeffs: p.Coeffs[:level+1]}
	}
	return p
}

func basisExtenderTarget() *Target {
	type be = *ring.BasisExtender
	qp := func(name string, nQ, nP int) Kind {
		return Kind{Name: name, Class: "poly", Names: []string{"levelQ", "levelP", "a", "b"}, Make: func(e *Env, g *Gen) []interface{} {
			in := []interface{}{e.MaxLevel(), e.RLWE.MaxLevelP()}
			for i := 0; i < nQ; i++ {
				in = append(in, g.Poly(e.RLWE.RingQ(), e.MaxLevel()))
			}
			for i := 0; i < nP; i++ {
				in = append(in, g.Poly(e.RLWE.RingP(), e.RLWE.MaxLevelP()))
			}
			return in
		}}
	}
	outQ := &OutSpec{Shapes: []Shape{ShapeDirtyWords}, New: func(e *Env, in []interface{}, _, dLvl int) interface{} {
		if dLvl != 0 {
			return nil
		}
		return e.RLWE.RingQ().NewPoly()
	}}
	outP := &OutSpec{Shapes: []Shape{ShapeDirtyWords}, New: func(e *Env, in []interface{}, _, dLvl int) interface{} {
		if dLvl != 0 {
			return nil
		}
		return e.RLWE.RingP().NewPoly()
	}}
	t := &Target{
		Name: "ring.BasisExtender", Envs: []string{"rlwe", "bgv-1p"},
		Type:      reflect.TypeOf(&ring.BasisExtender{}),
		New:       func(e *Env) interface{} { return ring.NewBasisExtender(e.RLWE.RingQ(), e.RLWE.RingP()) },
		NotTabled: map[string]string{"ShallowCopy": "copy constructor (C10)"},
	}
	t.Rows = []Row{
		{Method: "ModUpQtoP", Doc: "extends the RNS basis of a polynomial from Q to QP: polP = polQ mod P", Kinds: []Kind{qp("polQ", 1, 0)}, Out: outP,
			Call: func(rcv interface{}, in []interface{}, o interface{}) (interface{}, error) {
				rcv.(be).ModUpQtoP(in[0].(int), in[1].(int), asPoly(in[2]), asPoly(o))
				return o, nil
			}},
		{Method: "ModUpPtoQ", Doc: "extends the RNS basis of a polynomial from P to PQ: polQ = polP mod Q", Kinds: []Kind{qp("polP", 0, 1)}, Out: outQ,
			Call: func(rcv interface{}, in []interface{}, o interface{}) (interface{}, error) {
				rcv.(be).ModUpPtoQ(in[1].(int), in[0].(int), asPoly(in[2]), asPoly(o))
				return o, nil
			}},
		{Method: "ModDownQPtoQ", Doc: "reduces the basis from QP to Q and does a rounded integer division of the result by P", Kinds: []Kind{qp("p1Q,p1P", 1, 1)}, Out: outQ,
			Call: func(rcv interface{}, in []interface{}, o interface{}) (interface{}, error) {
				rcv.(be).ModDownQPtoQ(in[0].(int), in[1].(int), asPoly(in[2]), asPoly(in[3]), asPoly(o))
				return o, nil
			}},
		{Method: "ModDownQPtoQNTT", Doc: "same as ModDownQPtoQ, inputs must be in the NTT domain", Kinds: []Kind{qp("p1Q,p1P", 1, 1)}, Out: outQ,
			Call: func(rcv interface{}, in []interface{}, o interface{}) (interface{}, error) {
				rcv.(be).ModDownQPtoQNTT(in[0].(int), in[1].(int), asPoly(in[2]), asPoly(in[3]), asPoly(o))
				return o, nil
			}},
		{Method: "ModDownQPtoP", Doc: "reduces the basis from QP to P and does a floored integer division of the result by Q", Kinds: []Kind{qp("p1Q,p1P", 1, 1)}, Out: outP,
			Call: func(rcv interface{}, in []interface{}, o interface{}) (interface{}, error) {
				rcv.(be).ModDownQPtoP(in[0].(int), in[1].(int), asPoly(in[2]), asPoly(in[3]), asPoly(o))
				return o, nil
			}},
	}
	return t
}

func decomposerTarget() *Target {
	t := &Target{
		Name: "ring.Decomposer", Envs: []string{"rlwe", "bgv-1p"}, NoScratch: true,
		Type:      reflect.TypeOf(&ring.Decomposer{}),
		New:       func(e *Env) interface{} { return ring.NewDecomposer(e.RLWE.RingQ(), e.RLWE.RingP()) },
		NotTabled: map[string]string{},
	}
	t.Rows = []Row{
		{Method: "DecomposeAndSplit", Doc: "decomposes a polynomial p(x) in basis Q, reduces it modulo qi, and returns the result in basis QP separately (p1Q, p1P)",
			Kinds: func() []Kind {
				var r []Kind
				for _, d := range []int{0, 1} {
					d := d
					r = append(r, Kind{Name: "p0Q/digit" + itoa(d), Class: "poly", Names: []string{"levelQ", "levelP", "nbPi", "digit", "p0Q"}, Make: func(e *Env, g *Gen) []interface{} {
						return []interface{}{e.MaxLevel(), e.RLWE.MaxLevelP(), e.RLWE.PCount(), d, g.Poly(e.RLWE.RingQ(), e.MaxLevel())}
					}})
				}
				return r
			}(),
			Out: &OutSpec{Shapes: []Shape{ShapeDirtyWords}, New: func(e *Env, in []interface{}, _, dLvl int) interface{} {
				if dLvl != 0 {
					return nil
				}
				return &polyPair{e.RLWE.RingQ().NewPoly(), e.RLWE.RingP().NewPoly()}
			}},
			Call: func(rcv interface{}, in []interface{}, o interface{}) (interface{}, error) {
				p := o.(*polyPair)
				rcv.(*ring.Decomposer).DecomposeAndSplit(in[0].(int), in[1].(int), in[2].(int), in[3].(int), asPoly(in[4]), p.Q, p.P)
				// the rows of the digit's own moduli are left to the caller (rlwe.Evaluator.DecomposeSingleNTT copies
				// them from the NTT form of the input): they are not part of what this method defines
				view := &polyPair{P: p.P}
				lo, hi := in[3].(int)*in[2].(int), in[3].(int)*in[2].(int)+in[2].(int)
				for i, row := range p.Q.Coeffs {
					if i < lo || i >= hi {
						view.Q.Coeffs = append(view.Q.Coeffs, row)
					}
				}
				return view, nil
			}},
	}
	return t
}
