// Package optable is the hand-classified table of public lattigo operations (one Row per exported
// method) together with the helpers a check needs to drive it generically: deep snapshots,
// residue fills of scratch buffers, environments with tiny parameters and operand factories.
//
// It was written for C09 (inputs intact / aliasing / history insensitivity) and is kept free of any
// C09 oracle so that other checks (C10: copy constructors) can walk the same table.
package optable

import (
	"fmt"
	"math/big"
	"reflect"
	"sort"
	"unsafe"
)

// Snap is a canonical byte encoding of everything reachable from a value: every word of every
// slice, every scalar field (exported or not), big.Int / big.Float / bignum.Complex words (they are
// plain structs of scalars and word slices, so the generic walk covers them), map entries in key
// order, nil-ness of pointers/slices/maps/funcs.
//
//   - identity mode (WithPtr=true) additionally records the data pointer and capacity of every slice
//     and the address of every pointee: two snapshots of the *same objects* taken before and after a
//     call are equal iff nothing reachable was written, re-sliced or re-allocated ("bit-for-bit
//     unchanged, including slice headers").
//   - value mode (WithPtr=false) records values only: snapshots of two *different* object graphs are
//     equal iff they hold the same data (used to compare a result with a reference result).
type Snap struct {
	WithPtr bool
	Buf     []byte
	seen    map[seenKey]int
	// path tracing (only enabled when describing a difference)
	trace  bool
	target int // byte offset to locate
	path   []string
	Found  string
}

var bigFloatType = reflect.TypeOf(big.Float{})

type seenKey struct {
	p uintptr
	t reflect.Type
}

// Bytes snapshots all the given roots.
func Bytes(withPtr bool, roots ...interface{}) []byte {
	s := &Snap{WithPtr: withPtr, seen: map[seenKey]int{}}
	for i, r := range roots {
		s.u64(uint64(i) | 0xA5<<56)
		s.Root(r)
	}
	return s.Buf
}

// Locate re-walks the roots and returns the path of the node that covers byte offset off of the
// encoding (the walk is deterministic, so up to the first differing byte the two encodings have
// the same structure).
func Locate(withPtr bool, off int, names []string, roots ...interface{}) string {
	s := &Snap{WithPtr: withPtr, seen: map[seenKey]int{}, trace: true, target: off}
	for i, r := range roots {
		n := fmt.Sprintf("arg%d", i)
		if i < len(names) {
			n = names[i]
		}
		s.path = []string{n}
		s.u64(uint64(i) | 0xA5<<56)
		s.Root(r)
		if s.Found != "" {
			return s.Found
		}
	}
	return "?"
}

// FirstDiff returns the first differing offset of two encodings, or -1.
func FirstDiff(a, b []byte) int {
	n := len(a)
	if len(b) < n {
		n = len(b)
	}
	for i := 0; i < n; i++ {
		if a[i] != b[i] {
			return i
		}
	}
	if len(a) != len(b) {
		return n
	}
	return -1
}

func (s *Snap) u64(x uint64) {
	s.Buf = append(s.Buf, byte(x), byte(x>>8), byte(x>>16), byte(x>>24), byte(x>>32), byte(x>>40), byte(x>>48), byte(x>>56))
	if s.trace && s.Found == "" && len(s.Buf) > s.target {
		s.Found = pathString(s.path)
	}
}

func (s *Snap) raw(p unsafe.Pointer, n int) {
	if n > 0 {
		s.Buf = append(s.Buf, unsafe.Slice((*byte)(p), n)...)
	}
	if s.trace && s.Found == "" && len(s.Buf) > s.target {
		s.Found = pathString(s.path)
	}
}

func pathString(p []string) string {
	r := ""
	for _, e := range p {
		r += e
	}
	return r
}

func (s *Snap) push(e string) {
	if s.trace {
		s.path = append(s.path, e)
	}
}
func (s *Snap) pop() {
	if s.trace {
		s.path = s.path[:len(s.path)-1]
	}
}

// Root walks one root value.
func (s *Snap) Root(r interface{}) {
	if r == nil {
		s.u64(0)
		return
	}
	s.walk(addressable(reflect.ValueOf(r)))
}

// addressable returns an addressable copy of v (shallow: slices/pointers keep their targets).
func addressable(v reflect.Value) reflect.Value {
	if v.CanAddr() {
		return v
	}
	n := reflect.New(v.Type()).Elem()
	n.Set(v)
	return n
}

// open makes an unexported (read-only flagged) field value usable.
func open(v reflect.Value) reflect.Value {
	if v.CanInterface() || !v.CanAddr() {
		return v
	}
	return reflect.NewAt(v.Type(), unsafe.Pointer(v.UnsafeAddr())).Elem()
}

func (s *Snap) walk(v reflect.Value) {
	if len(s.Buf) > 1<<28 {
		panic("optable.Snap: snapshot larger than 256MB (walking into shared parameters?)")
	}
	v = open(v)
	switch v.Kind() {
	case reflect.Bool:
		if v.Bool() {
			s.u64(1)
		} else {
			s.u64(0)
		}
	case reflect.Int, reflect.Int8, reflect.Int16, reflect.Int32, reflect.Int64:
		s.u64(uint64(v.Int()))
	case reflect.Uint, reflect.Uint8, reflect.Uint16, reflect.Uint32, reflect.Uint64, reflect.Uintptr:
		s.u64(v.Uint())
	case reflect.Float32, reflect.Float64:
		s.u64(floatBits(v.Float()))
	case reflect.Complex64, reflect.Complex128:
		c := v.Complex()
		s.u64(floatBits(real(c)))
		s.u64(floatBits(imag(c)))
	case reflect.String:
		str := v.String()
		s.u64(uint64(len(str)))
		s.Buf = append(s.Buf, str...)
		for len(s.Buf)%8 != 0 {
			s.Buf = append(s.Buf, 0)
		}
	case reflect.Ptr:
		if v.IsNil() {
			s.u64(0)
			return
		}
		k := seenKey{v.Pointer(), v.Type()}
		if id, ok := s.seen[k]; ok {
			s.u64(2)
			s.u64(uint64(id))
			return
		}
		s.seen[k] = len(s.seen)
		s.u64(1)
		if s.WithPtr {
			s.u64(uint64(v.Pointer()))
		}
		s.push("->")
		s.walk(v.Elem())
		s.pop()
	case reflect.Slice:
		if v.IsNil() {
			s.u64(0)
			return
		}
		s.u64(1)
		s.u64(uint64(v.Len()))
		if s.WithPtr {
			s.u64(uint64(v.Cap()))
			s.u64(uint64(v.Pointer()))
		}
		s.elems(v)
	case reflect.Array:
		s.elems(v)
	case reflect.Struct:
		t := v.Type()
		if !s.WithPtr && t == bigFloatType && v.CanAddr() {
			// value mode: a big.Float is compared as the number it denotes (precision + exact value); its
			// mantissa words are not canonical (a zero keeps the stale words of the previous value)
			f := (*big.Float)(unsafe.Pointer(v.UnsafeAddr()))
			txt := f.Text('p', 0)
			s.u64(uint64(f.Prec()))
			s.u64(uint64(len(txt)) | 2<<40)
			s.Buf = append(s.Buf, txt...)
			for len(s.Buf)%8 != 0 {
				s.Buf = append(s.Buf, 0)
			}
			if s.trace && s.Found == "" && len(s.Buf) > s.target {
				s.Found = pathString(s.path)
			}
			return
		}
		for i := 0; i < v.NumField(); i++ {
			s.push("." + t.Field(i).Name)
			s.walk(v.Field(i))
			s.pop()
		}
	case reflect.Map:
		if v.IsNil() {
			s.u64(0)
			return
		}
		s.u64(1)
		s.u64(uint64(v.Len()))
		if s.WithPtr {
			s.u64(uint64(v.Pointer()))
		}
		keys := v.MapKeys()
		sort.Slice(keys, func(i, j int) bool { return keyLess(keys[i], keys[j]) })
		for _, k := range keys {
			s.push(fmt.Sprintf("[%v]", k))
			s.walk(addressable(k))
			s.walk(addressable(v.MapIndex(k)))
			s.pop()
		}
	case reflect.Interface:
		if v.IsNil() {
			s.u64(0)
			return
		}
		e := v.Elem()
		name := e.Type().String()
		s.u64(uint64(len(name)) | 1<<40)
		s.Buf = append(s.Buf, name...)
		for len(s.Buf)%8 != 0 {
			s.Buf = append(s.Buf, 0)
		}
		s.walk(addressable(e))
	case reflect.Func, reflect.Chan, reflect.UnsafePointer:
		if v.IsNil() {
			s.u64(0)
		} else {
			s.u64(1)
		}
	default:
		panic(fmt.Sprintf("optable.Snap: unsupported kind %v", v.Kind()))
	}
}

func (s *Snap) elems(v reflect.Value) {
	n := v.Len()
	if n == 0 {
		return
	}
	switch v.Type().Elem().Kind() {
	case reflect.Uint64, reflect.Int64, reflect.Int, reflect.Uint, reflect.Float64, reflect.Uintptr:
		s.push("[*]")
		s.bulk(v, n, 8)
		s.pop()
		return
	case reflect.Complex128:
		s.push("[*]")
		s.bulk(v, n, 16)
		s.pop()
		return
	case reflect.Uint8, reflect.Int8:
		s.push("[*]")
		s.bulk(v, n, 1)
		for len(s.Buf)%8 != 0 {
			s.Buf = append(s.Buf, 0)
		}
		s.pop()
		return
	}
	for i := 0; i < n; i++ {
		s.push(fmt.Sprintf("[%d]", i))
		s.walk(v.Index(i))
		s.pop()
	}
}

func (s *Snap) bulk(v reflect.Value, n, size int) {
	var p unsafe.Pointer
	if v.Kind() == reflect.Slice {
		p = v.UnsafePointer()
	} else {
		if !v.CanAddr() {
			v = addressable(v)
		}
		p = unsafe.Pointer(v.UnsafeAddr())
	}
	if s.trace && s.Found == "" && len(s.Buf)+n*size > s.target {
		idx := (s.target - len(s.Buf)) / size
		if idx < 0 {
			idx = 0
		}
		s.path[len(s.path)-1] = fmt.Sprintf("[%d]", idx)
	}
	s.raw(p, n*size)
}

func floatBits(f float64) uint64 { return *(*uint64)(unsafe.Pointer(&f)) }

func keyLess(a, b reflect.Value) bool {
	switch a.Kind() {
	case reflect.Int, reflect.Int8, reflect.Int16, reflect.Int32, reflect.Int64:
		return a.Int() < b.Int()
	case reflect.Uint, reflect.Uint8, reflect.Uint16, reflect.Uint32, reflect.Uint64, reflect.Uintptr:
		return a.Uint() < b.Uint()
	case reflect.String:
		return a.String() < b.String()
	}
	return fmt.Sprint(a) < fmt.Sprint(b)
}
