package optable

import (
	"github.com/tuneinsight/lattigo/v6/core/rlwe"
	"github.com/tuneinsight/lattigo/v6/ring"
	"github.com/tuneinsight/lattigo/v6/schemes/bgv"
	"github.com/tuneinsight/lattigo/v6/schemes/ckks"
)

// Row builders shared by the scheme evaluators (bgv and ckks have the same method shapes).

func asCt(x interface{}) *rlwe.Ciphertext { return x.(*rlwe.Ciphertext) }

// degLvl returns degree and level of an operand (scalars and vectors: degree 0, no level bound).
func degLvl(x interface{}) (int, int) {
	if el, ok := x.(rlwe.ElementInterface[ring.Poly]); ok {
		return el.Degree(), el.Level()
	}
	return 0, 1 << 20
}

func minInt(a, b int) int {
	if a < b {
		return a
	}
	return b
}
func maxInt(a, b int) int {
	if a > b {
		return a
	}
	return b
}

// NewCt returns a zeroed ciphertext of the environment's scheme with default metadata.
func (e *Env) NewCt(degree, level int) *rlwe.Ciphertext {
	if degree < 0 || level < 0 || level > e.MaxLevel() {
		return nil
	}
	switch e.Scheme {
	case "bgv":
		return bgv.NewCiphertext(e.BGV, degree, level)
	case "ckks":
		return ckks.NewCiphertext(e.CKKS, degree, level)
	}
	return rlwe.NewCiphertext(e.RLWE, degree, level)
}

// NewPt returns a zeroed plaintext with default metadata.
func (e *Env) NewPt(level int) *rlwe.Plaintext {
	if level < 0 || level > e.MaxLevel() {
		return nil
	}
	switch e.Scheme {
	case "bgv":
		return bgv.NewPlaintext(e.BGV, level)
	case "ckks":
		return ckks.NewPlaintext(e.CKKS, level)
	}
	return rlwe.NewPlaintext(e.RLWE, level)
}

var allShapes = []Shape{ShapeDirtyWords, ShapeDirtyMeta, ShapeLargerDegree, ShapeLargerLevel, ShapeSmallerLevel, ShapeSmallerDegree}

// ctOut is the output spec of an operation whose result is a ciphertext of degree degf(d0,d1) at the
// minimum level of its element operands (first two inputs).
func ctOut(degf func(d0, d1 int) int, shapes []Shape) *OutSpec {
	return &OutSpec{Shapes: shapes, New: func(e *Env, in []interface{}, dDeg, dLvl int) interface{} {
		d0, l0 := degLvl(in[0])
		d1, l1 := 0, 1<<20
		if len(in) > 1 {
			d1, l1 = degLvl(in[1])
		}
		if ct := e.NewCt(degf(d0, d1)+dDeg, minInt(l0, l1)+dLvl); ct != nil {
			return ct
		}
		return nil
	}}
}

// ctAcc is the output spec of an accumulating operation (out += f(in)): the accumulator has
// deterministic content, the given degree, the level of op0 and the given scale (nil: default).
func ctAcc(degf func(d0, d1 int) int, scale func(e *Env, in []interface{}) rlwe.Scale, label string) *OutSpec {
	return &OutSpec{Accumulates: true, Shapes: []Shape{ShapeSmallerDegree}, New: func(e *Env, in []interface{}, dDeg, dLvl int) interface{} {
		d0, l0 := degLvl(in[0])
		d1, l1 := 0, 1<<20
		if len(in) > 1 {
			d1, l1 = degLvl(in[1])
		}
		if degf(d0, d1)+dDeg < 1 {
			return nil
		}
		ct := NewGen("acc", label).Ct(e, degf(d0, d1)+dDeg, minInt(l0, l1))
		if scale != nil {
			ct.Scale = scale(e, in)
		}
		return ct
	}}
}

func degMax(a, b int) int { return maxInt(a, b) }
func degSum(a, b int) int { return a + b }
func degOp0(a, b int) int { return a }
func degOne(a, b int) int { return 1 }
func degRelin(a, b int) int {
	if a == 1 && b == 1 {
		return 1
	}
	return maxInt(a, b)
}

// binRow: f(op0 *Ciphertext, op1 Operand, opOut *Ciphertext) error
func binRow[E any](method string, f func(E, *rlwe.Ciphertext, rlwe.Operand, *rlwe.Ciphertext) error, kinds []Kind, out *OutSpec, doc string) Row {
	return Row{Method: method, Kinds: kinds, Out: out, Doc: doc, OperandArgs: []int{1},
		Call: func(rcv interface{}, in []interface{}, o interface{}) (interface{}, error) {
			return o, f(rcv.(E), asCt(in[0]), in[1], asCt(o))
		}}
}

// binNewRow: f(op0 *Ciphertext, op1 Operand) (*Ciphertext, error)
func binNewRow[E any](method string, f func(E, *rlwe.Ciphertext, rlwe.Operand) (*rlwe.Ciphertext, error), kinds []Kind, doc string) Row {
	return Row{Method: method, Kinds: kinds, Doc: doc,
		Call: func(rcv interface{}, in []interface{}, o interface{}) (interface{}, error) {
			r, err := f(rcv.(E), asCt(in[0]), in[1])
			if r == nil { // typed nil -> untyped nil
				return nil, err
			}
			return r, err
		}}
}

// unRow: f(op0, opOut *Ciphertext) error
func unRow[E any](method string, f func(E, *rlwe.Ciphertext, *rlwe.Ciphertext) error, kinds []Kind, out *OutSpec, doc string) Row {
	return Row{Method: method, Kinds: kinds, Out: out, Doc: doc,
		Call: func(rcv interface{}, in []interface{}, o interface{}) (interface{}, error) {
			return o, f(rcv.(E), asCt(in[0]), asCt(o))
		}}
}

// unNewRow: f(op0 *Ciphertext) (*Ciphertext, error)
func unNewRow[E any](method string, f func(E, *rlwe.Ciphertext) (*rlwe.Ciphertext, error), kinds []Kind, doc string) Row {
	return Row{Method: method, Kinds: kinds, Doc: doc,
		Call: func(rcv interface{}, in []interface{}, o interface{}) (interface{}, error) {
			r, err := f(rcv.(E), asCt(in[0]))
			if r == nil {
				return nil, err
			}
			return r, err
		}}
}

// intRow: f(op0 *Ciphertext, k int, opOut *Ciphertext) error
func intRow[E any](method string, f func(E, *rlwe.Ciphertext, int, *rlwe.Ciphertext) error, kinds []Kind, out *OutSpec, doc string) Row {
	return Row{Method: method, Kinds: kinds, Out: out, Doc: doc,
		Call: func(rcv interface{}, in []interface{}, o interface{}) (interface{}, error) {
			return o, f(rcv.(E), asCt(in[0]), in[1].(int), asCt(o))
		}}
}

// intNewRow: f(op0 *Ciphertext, k int) (*Ciphertext, error)
func intNewRow[E any](method string, f func(E, *rlwe.Ciphertext, int) (*rlwe.Ciphertext, error), kinds []Kind, doc string) Row {
	return Row{Method: method, Kinds: kinds, Doc: doc,
		Call: func(rcv interface{}, in []interface{}, o interface{}) (interface{}, error) {
			r, err := f(rcv.(E), asCt(in[0]), in[1].(int))
			if r == nil {
				return nil, err
			}
			return r, err
		}}
}

// int2Row: f(ctIn *Ciphertext, a, b int, opOut *Ciphertext) error  (InnerSum, RotateAndAdd, Replicate, ...)
func int2Row[E any](method string, f func(E, *rlwe.Ciphertext, int, int, *rlwe.Ciphertext) error, kinds []Kind, out *OutSpec, doc string) Row {
	return Row{Method: method, Kinds: kinds, Out: out, Doc: doc,
		Call: func(rcv interface{}, in []interface{}, o interface{}) (interface{}, error) {
			return o, f(rcv.(E), asCt(in[0]), in[1].(int), in[2].(int), asCt(o))
		}}
}

// unary ciphertext kinds shared by both schemes and the rlwe evaluator
func ctKind(name string, degree, dLevel int, tweak func(e *Env, ct *rlwe.Ciphertext), extra ...func(e *Env) interface{}) Kind {
	names := []string{"op0"}
	for i := range extra {
		names = append(names, "arg"+string(rune('1'+i)))
	}
	return Kind{Name: name, Class: "ct", Names: names, Make: func(e *Env, g *Gen) []interface{} {
		ct := g.Ct(e, degree, e.MaxLevel()+dLevel)
		if tweak != nil {
			tweak(e, ct)
		}
		in := []interface{}{ct}
		for _, x := range extra {
			in = append(in, x(e))
		}
		return in
	}}
}

func constArg(v interface{}) func(e *Env) interface{} { return func(*Env) interface{} { return v } }
