package optable

import (
	"reflect"

	"github.com/tuneinsight/lattigo/v6/core/rlwe"
)

// ---------------------------------------------------------------------------------------------
// rlwe.Encryptor, rlwe.Decryptor, rlwe.KeyGenerator (core/rlwe/encryptor.go, decryptor.go,
// keygenerator.go). Encryptor and KeyGenerator own a PRNG: reference and measured execution are run
// under the same seed, previous calls are not used as history (they advance the PRNG), residue fills are.

func encryptorTarget(name string, pk bool) *Target {
	type E = *rlwe.Encryptor
	ptK := func(label string, dl int, dirtyMeta bool) Kind {
		return Kind{Name: label, Class: "pt", Names: []string{"pt"}, Make: func(e *Env, g *Gen) []interface{} {
			pt := g.Pt(e, e.MaxLevel()+dl)
			if dirtyMeta {
				e.DirtyMeta(pt.MetaData)
			}
			return []interface{}{pt}
		}}
	}
	kinds := []Kind{ptK("pt", 0, false), ptK("pt/level+meta", -1, true)}
	t := &Target{
		Name: name, Envs: []string{"rlwe", "rlwe-coef", "bgv", "ckks", "bgv-1p", "ckks-ci"}, Randomized: true,
		Type: reflect.TypeOf(&rlwe.Encryptor{}),
		New: func(e *Env) interface{} {
			if pk {
				return rlwe.NewEncryptor(e.Params(), e.PK)
			}
			return rlwe.NewEncryptor(e.Params(), e.SK)
		},
		Shared: func(e *Env) []interface{} {
			if pk {
				return []interface{}{e.PK}
			}
			return []interface{}{e.SK}
		},
		NotTabled: map[string]string{"GetRLWEParameters": "accessor", "ShallowCopy": "copy constructor (C10)", "WithKey": "copy constructor (C10)", "WithPRNG": "copy constructor (C10)"},
	}
	t.Rows = []Row{
		{Method: "Encrypt", Doc: "encrypts the input plaintext and writes the result on ct; the output Ciphertext MetaData will match the Plaintext MetaData", Kinds: kinds,
			Out: &OutSpec{Shapes: []Shape{ShapeDirtyWords, ShapeDirtyMeta, ShapeLargerLevel, ShapeSmallerLevel}, New: func(e *Env, in []interface{}, dDeg, dLvl int) interface{} {
				_, l := degLvl(in[0])
				return e.NewCt(1+dDeg, l+dLvl)
			}},
			Call: func(rcv interface{}, in []interface{}, o interface{}) (interface{}, error) {
				return o, rcv.(E).Encrypt(in[0].(*rlwe.Plaintext), o)
			}},
		{Method: "EncryptNew", Doc: "encrypts the input plaintext and returns a newly allocated Ciphertext", Kinds: kinds,
			Call: func(rcv interface{}, in []interface{}, o interface{}) (interface{}, error) {
				r, err := rcv.(E).EncryptNew(in[0].(*rlwe.Plaintext))
				if r == nil {
					return nil, err
				}
				return r, err
			}},
		{Method: "EncryptZero", Doc: "generates an encryption of zero and writes the result on ct, according to the given Ciphertext MetaData (the metadata and shape of ct are inputs)",
			Kinds: []Kind{
				{Name: "ct1", Class: "ct", Names: []string{"(level)"}, Make: func(e *Env, g *Gen) []interface{} { return []interface{}{e.MaxLevel()} }},
				{Name: "ct1/level", Class: "ct", Names: []string{"(level)"}, Make: func(e *Env, g *Gen) []interface{} { return []interface{}{e.MaxLevel() - 2} }}},
			Out: &OutSpec{Shapes: []Shape{ShapeDirtyWords}, New: func(e *Env, in []interface{}, dDeg, dLvl int) interface{} { return e.NewCt(1+dDeg, in[0].(int)+dLvl) }},
			Call: func(rcv interface{}, in []interface{}, o interface{}) (interface{}, error) {
				return o, rcv.(E).EncryptZero(o)
			}},
		{Method: "EncryptZeroNew", Doc: "generates an encryption of zero and returns a newly allocated Ciphertext",
			Kinds: []Kind{{Name: "level", Class: "level", Names: []string{"level"}, Make: func(e *Env, g *Gen) []interface{} { return []interface{}{e.MaxLevel() - 1} }}},
			Call: func(rcv interface{}, in []interface{}, o interface{}) (interface{}, error) {
				return rcv.(E).EncryptZeroNew(in[0].(int)), nil
			}},
	}
	return t
}

func decryptorTarget() *Target {
	type D = *rlwe.Decryptor
	kinds := []Kind{ctKind("ct1", 1, 0, nil), ctKind("ct2/level+meta", 2, -1, func(e *Env, ct *rlwe.Ciphertext) { e.DirtyMeta(ct.MetaData) }), ctKind("ct0", 0, 0, nil)}
	t := &Target{
		Name: "rlwe.Decryptor", Envs: []string{"rlwe", "rlwe-coef", "bgv", "ckks", "ckks-ci"},
		Type:      reflect.TypeOf(&rlwe.Decryptor{}),
		New:       func(e *Env) interface{} { return rlwe.NewDecryptor(e.Params(), e.SK) },
		Shared:    func(e *Env) []interface{} { return []interface{}{e.SK} },
		NotTabled: map[string]string{"GetRLWEParameters": "accessor", "ShallowCopy": "copy constructor (C10)", "WithKey": "copy constructor (C10)"},
	}
	t.Rows = []Row{
		{Method: "Decrypt", Doc: "decrypts the Ciphertext and writes the result in pt; the level of the output is min(ct.Level(), pt.Level()); output metadata matches the input ciphertext", Kinds: kinds,
			Out: &OutSpec{Shapes: []Shape{ShapeDirtyWords, ShapeDirtyMeta, ShapeLargerLevel, ShapeSmallerLevel}, New: func(e *Env, in []interface{}, dDeg, dLvl int) interface{} {
				_, l := degLvl(in[0])
				return e.NewPt(l + dLvl)
			}},
			Call: func(rcv interface{}, in []interface{}, o interface{}) (interface{}, error) {
				rcv.(D).Decrypt(asCt(in[0]), o.(*rlwe.Plaintext))
				return o, nil
			}},
		{Method: "DecryptNew", Doc: "decrypts the Ciphertext and returns the result in a new Plaintext", Kinds: kinds,
			Call: func(rcv interface{}, in []interface{}, o interface{}) (interface{}, error) {
				return rcv.(D).DecryptNew(asCt(in[0])), nil
			}},
	}
	return t
}

func keyGeneratorTarget() *Target {
	type K = *rlwe.KeyGenerator
	skK := []Kind{{Name: "sk", Class: "sk", Names: []string{"sk"}, Make: func(e *Env, g *Gen) []interface{} { return []interface{}{e.SK.CopyNew()} }}}
	none := []Kind{{Name: "-", Class: "-", Names: nil, Make: func(e *Env, g *Gen) []interface{} { return nil }}}
	dirty := []Shape{ShapeDirtyWords}
	gal := func(e *Env) uint64 { return e.RLWE.GaloisElement(3) }
	t := &Target{
		Name: "rlwe.KeyGenerator", Envs: []string{"rlwe", "rlwe-pow2"}, Randomized: true,
		Type: reflect.TypeOf(&rlwe.KeyGenerator{}),
		New:  func(e *Env) interface{} { return rlwe.NewKeyGenerator(e.RLWE) },
		NotTabled: map[string]string{
			"GenEvaluationKeysForRingSwapNew": "tabled under target rlwe.KeyGenerator[ring-swap] (needs a conjugate-invariant companion parameter set)",
			"GetRLWEParameters":               "promoted accessor", "ShallowCopy": "promoted copy constructor (C10)", "WithKey": "promoted copy constructor (C10)", "WithPRNG": "promoted copy constructor (C10)",
			"Encrypt": "promoted from *rlwe.Encryptor (own target)", "EncryptNew": "promoted from *rlwe.Encryptor (own target)",
			"EncryptZero": "promoted from *rlwe.Encryptor (own target)", "EncryptZeroNew": "promoted from *rlwe.Encryptor (own target)",
		},
	}
	t.Rows = []Row{
		{Method: "GenSecretKey", Doc: "generates a SecretKey on the receiver sk", Kinds: none,
			Out: &OutSpec{Shapes: dirty, New: func(e *Env, in []interface{}, dDeg, dLvl int) interface{} {
				return onlyExact(dDeg, dLvl, rlwe.NewSecretKey(e.RLWE))
			}},
			Call: func(rcv interface{}, in []interface{}, o interface{}) (interface{}, error) {
				rcv.(K).GenSecretKey(o.(*rlwe.SecretKey))
				return o, nil
			}},
		{Method: "GenSecretKeyNew", Doc: "generates a new SecretKey", Kinds: none,
			Call: func(rcv interface{}, in []interface{}, o interface{}) (interface{}, error) {
				return rcv.(K).GenSecretKeyNew(), nil
			}},
		{Method: "GenSecretKeyWithHammingWeight", Doc: "generates a SecretKey with exactly hw non-zero coefficients on sk",
			Kinds: []Kind{{Name: "hw=5", Class: "hw", Names: []string{"hw"}, Make: func(e *Env, g *Gen) []interface{} { return []interface{}{5} }}},
			Out: &OutSpec{Shapes: dirty, New: func(e *Env, in []interface{}, dDeg, dLvl int) interface{} {
				return onlyExact(dDeg, dLvl, rlwe.NewSecretKey(e.RLWE))
			}},
			Call: func(rcv interface{}, in []interface{}, o interface{}) (interface{}, error) {
				rcv.(K).GenSecretKeyWithHammingWeight(in[0].(int), o.(*rlwe.SecretKey))
				return o, nil
			}},
		{Method: "GenSecretKeyWithHammingWeightNew", Doc: "generates a new SecretKey with exactly hw non-zero coefficients",
			Kinds: []Kind{{Name: "hw=5", Class: "hw", Names: []string{"hw"}, Make: func(e *Env, g *Gen) []interface{} { return []interface{}{5} }}},
			Call: func(rcv interface{}, in []interface{}, o interface{}) (interface{}, error) {
				return rcv.(K).GenSecretKeyWithHammingWeightNew(in[0].(int)), nil
			}},
		{Method: "GenPublicKey", Doc: "generates a public key from the provided SecretKey on pk", Kinds: skK,
			Out: &OutSpec{Shapes: dirty, New: func(e *Env, in []interface{}, dDeg, dLvl int) interface{} {
				return onlyExact(dDeg, dLvl, rlwe.NewPublicKey(e.RLWE))
			}},
			Call: func(rcv interface{}, in []interface{}, o interface{}) (interface{}, error) {
				rcv.(K).GenPublicKey(in[0].(*rlwe.SecretKey), o.(*rlwe.PublicKey))
				return o, nil
			}},
		{Method: "GenPublicKeyNew", Doc: "generates a new public key from the provided SecretKey", Kinds: skK,
			Call: func(rcv interface{}, in []interface{}, o interface{}) (interface{}, error) {
				return rcv.(K).GenPublicKeyNew(in[0].(*rlwe.SecretKey)), nil
			}},
		{Method: "GenKeyPairNew", Doc: "generates a new SecretKey and a corresponding public key", Kinds: none,
			Call: func(rcv interface{}, in []interface{}, o interface{}) (interface{}, error) {
				sk, pk := rcv.(K).GenKeyPairNew()
				return []interface{}{sk, pk}, nil
			}},
		{Method: "GenRelinearizationKey", Doc: "generates an EvaluationKey that will be used to relinearize Ciphertexts during multiplication, on rlk", Kinds: skK,
			Out: &OutSpec{Shapes: dirty, New: func(e *Env, in []interface{}, dDeg, dLvl int) interface{} {
				return onlyExact(dDeg, dLvl, rlwe.NewRelinearizationKey(e.RLWE))
			}},
			Call: func(rcv interface{}, in []interface{}, o interface{}) (interface{}, error) {
				rcv.(K).GenRelinearizationKey(in[0].(*rlwe.SecretKey), o.(*rlwe.RelinearizationKey))
				return o, nil
			}},
		{Method: "GenRelinearizationKeyNew", Doc: "generates a new relinearization key", Kinds: skK,
			Call: func(rcv interface{}, in []interface{}, o interface{}) (interface{}, error) {
				return rcv.(K).GenRelinearizationKeyNew(in[0].(*rlwe.SecretKey)), nil
			}},
		{Method: "GenGaloisKey", Doc: "generates a GaloisKey for the automorphism X -> X^galEl on gk",
			Kinds: []Kind{{Name: "galEl,sk", Class: "sk", Names: []string{"galEl", "sk"}, Make: func(e *Env, g *Gen) []interface{} { return []interface{}{gal(e), e.SK.CopyNew()} }}},
			Out: &OutSpec{Shapes: dirty, New: func(e *Env, in []interface{}, dDeg, dLvl int) interface{} {
				return onlyExact(dDeg, dLvl, rlwe.NewGaloisKey(e.RLWE))
			}},
			Call: func(rcv interface{}, in []interface{}, o interface{}) (interface{}, error) {
				rcv.(K).GenGaloisKey(in[0].(uint64), in[1].(*rlwe.SecretKey), o.(*rlwe.GaloisKey))
				return o, nil
			}},
		{Method: "GenGaloisKeyNew", Doc: "generates a new GaloisKey",
			Kinds: []Kind{{Name: "galEl,sk", Class: "sk", Names: []string{"galEl", "sk"}, Make: func(e *Env, g *Gen) []interface{} { return []interface{}{gal(e), e.SK.CopyNew()} }}},
			Call: func(rcv interface{}, in []interface{}, o interface{}) (interface{}, error) {
				return rcv.(K).GenGaloisKeyNew(in[0].(uint64), in[1].(*rlwe.SecretKey)), nil
			}},
		{Method: "GenGaloisKeys", Doc: "generates the GaloisKey objects for all galois elements in galEls, and stores the resulting key for galois element i in gks[i]",
			Kinds: []Kind{{Name: "galEls,sk", Class: "sk", Names: []string{"galEls", "sk"}, Make: func(e *Env, g *Gen) []interface{} {
				return []interface{}{[]uint64{gal(e), e.RLWE.RingQ().NthRoot() - 1}, e.SK.CopyNew()}
			}}},
			Out: &OutSpec{Shapes: dirty, New: func(e *Env, in []interface{}, dDeg, dLvl int) interface{} {
				if dDeg != 0 || dLvl != 0 {
					return nil
				}
				return []*rlwe.GaloisKey{rlwe.NewGaloisKey(e.RLWE), rlwe.NewGaloisKey(e.RLWE)}
			}},
			Call: func(rcv interface{}, in []interface{}, o interface{}) (interface{}, error) {
				rcv.(K).GenGaloisKeys(in[0].([]uint64), in[1].(*rlwe.SecretKey), o.([]*rlwe.GaloisKey))
				return o, nil
			}},
		{Method: "GenGaloisKeysNew", Doc: "generates new GaloisKeys",
			Kinds: []Kind{{Name: "galEls,sk", Class: "sk", Names: []string{"galEls", "sk"}, Make: func(e *Env, g *Gen) []interface{} {
				return []interface{}{[]uint64{gal(e), e.RLWE.RingQ().NthRoot() - 1}, e.SK.CopyNew()}
			}}},
			Call: func(rcv interface{}, in []interface{}, o interface{}) (interface{}, error) {
				return rcv.(K).GenGaloisKeysNew(in[0].([]uint64), in[1].(*rlwe.SecretKey)), nil
			}},
		{Method: "GenEvaluationKey", Doc: "generates an EvaluationKey re-encrypting from skInput to skOutput, on evk",
			Kinds: []Kind{{Name: "skIn,skOut", Class: "sk", Names: []string{"skInput", "skOutput"}, Make: func(e *Env, g *Gen) []interface{} { return []interface{}{e.SK.CopyNew(), e.SK2.CopyNew()} }}},
			Out: &OutSpec{Shapes: dirty, New: func(e *Env, in []interface{}, dDeg, dLvl int) interface{} {
				return onlyExact(dDeg, dLvl, rlwe.NewEvaluationKey(e.RLWE))
			}},
			Call: func(rcv interface{}, in []interface{}, o interface{}) (interface{}, error) {
				rcv.(K).GenEvaluationKey(in[0].(*rlwe.SecretKey), in[1].(*rlwe.SecretKey), o.(*rlwe.EvaluationKey))
				return o, nil
			}},
		{Method: "GenEvaluationKeyNew", Doc: "generates a new EvaluationKey",
			Kinds: []Kind{{Name: "skIn,skOut", Class: "sk", Names: []string{"skInput", "skOutput"}, Make: func(e *Env, g *Gen) []interface{} { return []interface{}{e.SK.CopyNew(), e.SK2.CopyNew()} }}},
			Call: func(rcv interface{}, in []interface{}, o interface{}) (interface{}, error) {
				return rcv.(K).GenEvaluationKeyNew(in[0].(*rlwe.SecretKey), in[1].(*rlwe.SecretKey)), nil
			}},
	}
	return t
}

// ringSwapKeyGenTarget: KeyGenerator of the standard ring Z[X]/(X^2N+1) generating the keys that switch
// to / from the conjugate-invariant ring of the "ckks-ci" environment.
func ringSwapKeyGenTarget() *Target {
	type K = *rlwe.KeyGenerator
	return &Target{
		Name: "rlwe.KeyGenerator[ring-swap]", Envs: []string{"ckks-ci"}, Randomized: true,
		New:       func(e *Env) interface{} { return rlwe.NewKeyGenerator(e.Standard().Params) },
		NotTabled: map[string]string{},
		Rows: []Row{{Method: "GenEvaluationKeysForRingSwapNew", Func: true,
			Doc: "generates the necessary evaluation keys to switch from a standard ring to a conjugate invariant ring and vice-versa (returns two new keys)",
			Kinds: []Kind{{Name: "skStd,skCI", Class: "sk", Names: []string{"skStd", "skConjugateInvariant"}, Make: func(e *Env, g *Gen) []interface{} {
				return []interface{}{e.Standard().SK.CopyNew(), e.SK.CopyNew()}
			}}},
			Call: func(rcv interface{}, in []interface{}, o interface{}) (interface{}, error) {
				a, b := rcv.(K).GenEvaluationKeysForRingSwapNew(in[0].(*rlwe.SecretKey), in[1].(*rlwe.SecretKey))
				return []interface{}{a, b}, nil
			}}},
	}
}

func onlyExact(dDeg, dLvl int, x interface{}) interface{} {
	if dDeg != 0 || dLvl != 0 {
		return nil
	}
	return x
}
