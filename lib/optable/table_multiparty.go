package optable

import (
	"reflect"

	"github.com/tuneinsight/lattigo/v6/core/rlwe"
	"github.com/tuneinsight/lattigo/v6/multiparty"
	"github.com/tuneinsight/lattigo/v6/ring"
	"github.com/tuneinsight/lattigo/v6/utils/sampling"
)

// ---------------------------------------------------------------------------------------------
// multiparty protocols (multiparty/*.go): GenShare / AggregateShares / Gen<Key> / KeySwitch.
//
// Every protocol object owns a PRNG (Randomized targets). Shares given as *inputs* are allocated with the
// protocol's AllocateShare and filled with deterministic small residues (the aggregation and
// finalisation steps are algebraic in them); CRPs are sampled from a PRNG keyed by a constant.
// Shares are passed by value and the output by pointer: the aliasing pattern "out==&share1" is the
// call AggregateShares(a, b, &a).

// FillAny overwrites every uint64 word reachable from obj with residues < 2^28 drawn from g.
func (g *Gen) FillAny(obj interface{}) {
	f := &filler{mode: FillPattern, seen: map[seenKey]bool{}, src: g}
	f.fill(addressable(reflect.ValueOf(obj)))
}

func fixedCRS(label string) sampling.PRNG {
	key := make([]byte, 64)
	copy(key, "C09-crs-"+label)
	p, err := sampling.NewKeyedPRNG(key)
	if err != nil {
		panic(err)
	}
	return p
}

var floodNoise = ring.DiscreteGaussian{Sigma: 3.2 * 8, Bound: 6 * 3.2 * 8}

func sharesOut(alloc func(e *Env) interface{}) *OutSpec {
	return &OutSpec{Shapes: []Shape{ShapeDirtyWords}, New: func(e *Env, in []interface{}, dDeg, dLvl int) interface{} {
		if dDeg != 0 || dLvl != 0 {
			return nil
		}
		return alloc(e)
	}}
}

func multipartyTargets() []*Target {
	var ts []*Target
	notTabled := func(extra map[string]string) map[string]string {
		m := map[string]string{"AllocateShare": "allocator (no inputs, fresh result)", "ShallowCopy": "copy constructor (C10)",
			"SampleCRP": "reads the caller's CRS by design (the CRS is an in/out stream)"}
		for k, v := range extra {
			m[k] = v
		}
		return m
	}
	envs := []string{"rlwe", "rlwe-coef"}

	// ---- PublicKeyGenProtocol
	{
		type P = multiparty.PublicKeyGenProtocol
		newP := func(e *Env) interface{} { return multiparty.NewPublicKeyGenProtocol(e.RLWE) }
		crp := func(e *Env) multiparty.PublicKeyGenCRP {
			return multiparty.NewPublicKeyGenProtocol(e.RLWE).SampleCRP(fixedCRS("cpk"))
		}
		share := func(e *Env, g *Gen) multiparty.PublicKeyGenShare {
			s := multiparty.NewPublicKeyGenProtocol(e.RLWE).AllocateShare()
			g.FillAny(s)
			return s
		}
		alloc := func(e *Env) interface{} { s := multiparty.NewPublicKeyGenProtocol(e.RLWE).AllocateShare(); return &s }
		ts = append(ts, &Target{Name: "multiparty.PublicKeyGenProtocol", Envs: envs, Randomized: true, NoScratch: true, Type: reflect.TypeOf(P{}), New: newP, NotTabled: notTabled(nil),
			Rows: []Row{
				{Method: "GenShare", Doc: "generates the party's public key share from its secret key as crp*s_i + e_i (on shareOut)",
					Kinds: []Kind{{Name: "sk,crp", Class: "sk", Names: []string{"sk", "crp"}, Make: func(e *Env, g *Gen) []interface{} { return []interface{}{e.SK.CopyNew(), crp(e)} }}},
					Out:   sharesOut(alloc),
					Call: func(rcv interface{}, in []interface{}, o interface{}) (interface{}, error) {
						rcv.(P).GenShare(in[0].(*rlwe.SecretKey), in[1].(multiparty.PublicKeyGenCRP), o.(*multiparty.PublicKeyGenShare))
						return o, nil
					}},
				{Method: "AggregateShares", Doc: "aggregates a new share to the aggregate key (shareOut = share1 + share2)",
					Kinds: []Kind{{Name: "share,share", Class: "share", Names: []string{"share1", "share2"}, Make: func(e *Env, g *Gen) []interface{} { return []interface{}{share(e, g), share(e, g)} }}},
					Out:   sharesOut(alloc),
					Call: func(rcv interface{}, in []interface{}, o interface{}) (interface{}, error) {
						rcv.(P).AggregateShares(in[0].(multiparty.PublicKeyGenShare), in[1].(multiparty.PublicKeyGenShare), o.(*multiparty.PublicKeyGenShare))
						return o, nil
					}},
				{Method: "GenPublicKey", Doc: "returns the current aggregation of the received shares as a rlwe.PublicKey (on pubkey)",
					Kinds: []Kind{{Name: "share,crp", Class: "share", Names: []string{"roundShare", "crp"}, Make: func(e *Env, g *Gen) []interface{} { return []interface{}{share(e, g), crp(e)} }}},
					Out:   sharesOut(func(e *Env) interface{} { return rlwe.NewPublicKey(e.RLWE) }),
					Call: func(rcv interface{}, in []interface{}, o interface{}) (interface{}, error) {
						rcv.(P).GenPublicKey(in[0].(multiparty.PublicKeyGenShare), in[1].(multiparty.PublicKeyGenCRP), o.(*rlwe.PublicKey))
						return o, nil
					}},
			}})
	}
	// ---- EvaluationKeyGenProtocol
	{
		type P = multiparty.EvaluationKeyGenProtocol
		newP := func(e *Env) interface{} { return multiparty.NewEvaluationKeyGenProtocol(e.RLWE) }
		crp := func(e *Env) multiparty.EvaluationKeyGenCRP {
			return multiparty.NewEvaluationKeyGenProtocol(e.RLWE).SampleCRP(fixedCRS("evk"))
		}
		share := func(e *Env, g *Gen) multiparty.EvaluationKeyGenShare {
			s := multiparty.NewEvaluationKeyGenProtocol(e.RLWE).AllocateShare()
			g.FillAny(s)
			return s
		}
		alloc := func(e *Env) interface{} {
			s := multiparty.NewEvaluationKeyGenProtocol(e.RLWE).AllocateShare()
			return &s
		}
		ts = append(ts, &Target{Name: "multiparty.EvaluationKeyGenProtocol", Envs: envs, Randomized: true, Type: reflect.TypeOf(P{}), New: newP, NotTabled: notTabled(nil),
			Rows: []Row{
				{Method: "GenShare", Doc: "generates a party's share in the EvaluationKey generation (on shareOut)",
					Kinds: []Kind{{Name: "skIn,skOut,crp", Class: "sk", Names: []string{"skIn", "skOut", "crp"}, Make: func(e *Env, g *Gen) []interface{} {
						return []interface{}{e.SK.CopyNew(), e.SK2.CopyNew(), crp(e)}
					}}},
					Out: sharesOut(alloc),
					Call: func(rcv interface{}, in []interface{}, o interface{}) (interface{}, error) {
						return o, rcv.(P).GenShare(in[0].(*rlwe.SecretKey), in[1].(*rlwe.SecretKey), in[2].(multiparty.EvaluationKeyGenCRP), o.(*multiparty.EvaluationKeyGenShare))
					}},
				{Method: "AggregateShares", Doc: "computes share3 = share1 + share2",
					Kinds: []Kind{{Name: "share,share", Class: "share", Names: []string{"share1", "share2"}, Make: func(e *Env, g *Gen) []interface{} { return []interface{}{share(e, g), share(e, g)} }}},
					Out:   sharesOut(alloc),
					Call: func(rcv interface{}, in []interface{}, o interface{}) (interface{}, error) {
						return o, rcv.(P).AggregateShares(in[0].(multiparty.EvaluationKeyGenShare), in[1].(multiparty.EvaluationKeyGenShare), o.(*multiparty.EvaluationKeyGenShare))
					}},
				{Method: "GenEvaluationKey", Doc: "finalizes the EvaluationKey generation and populates the input EvaluationKey with the computed collective key",
					Kinds: []Kind{{Name: "share,crp", Class: "share", Names: []string{"share", "crp"}, Make: func(e *Env, g *Gen) []interface{} { return []interface{}{share(e, g), crp(e)} }}},
					Out:   sharesOut(func(e *Env) interface{} { return rlwe.NewEvaluationKey(e.RLWE) }),
					Call: func(rcv interface{}, in []interface{}, o interface{}) (interface{}, error) {
						return o, rcv.(P).GenEvaluationKey(in[0].(multiparty.EvaluationKeyGenShare), in[1].(multiparty.EvaluationKeyGenCRP), o.(*rlwe.EvaluationKey))
					}},
			}})
	}
	// ---- GaloisKeyGenProtocol
	{
		type P = multiparty.GaloisKeyGenProtocol
		newP := func(e *Env) interface{} { return multiparty.NewGaloisKeyGenProtocol(e.RLWE) }
		crp := func(e *Env) multiparty.GaloisKeyGenCRP {
			return multiparty.NewGaloisKeyGenProtocol(e.RLWE).SampleCRP(fixedCRS("gal"))
		}
		share := func(e *Env, g *Gen) multiparty.GaloisKeyGenShare {
			s := multiparty.NewGaloisKeyGenProtocol(e.RLWE).AllocateShare()
			g.FillAny(s)
			s.GaloisElement = e.RLWE.GaloisElement(3)
			return s
		}
		alloc := func(e *Env) interface{} { s := multiparty.NewGaloisKeyGenProtocol(e.RLWE).AllocateShare(); return &s }
		ts = append(ts, &Target{Name: "multiparty.GaloisKeyGenProtocol", Envs: envs, Randomized: true, Type: reflect.TypeOf(P{}), New: newP,
			NotTabled: notTabled(map[string]string{"GenEvaluationKey": "promoted from EvaluationKeyGenProtocol (own target)"}),
			Rows: []Row{
				{Method: "GenShare", Doc: "generates a party's share in the GaloisKey generation (on shareOut)",
					Kinds: []Kind{{Name: "sk,galEl,crp", Class: "sk", Names: []string{"sk", "galEl", "crp"}, Make: func(e *Env, g *Gen) []interface{} {
						return []interface{}{e.SK.CopyNew(), e.RLWE.GaloisElement(3), crp(e)}
					}}},
					Out: sharesOut(alloc),
					Call: func(rcv interface{}, in []interface{}, o interface{}) (interface{}, error) {
						return o, rcv.(P).GenShare(in[0].(*rlwe.SecretKey), in[1].(uint64), in[2].(multiparty.GaloisKeyGenCRP), o.(*multiparty.GaloisKeyGenShare))
					}},
				{Method: "AggregateShares", Doc: "computes share3 = share1 + share2",
					Kinds: []Kind{{Name: "share,share", Class: "share", Names: []string{"share1", "share2"}, Make: func(e *Env, g *Gen) []interface{} { return []interface{}{share(e, g), share(e, g)} }}},
					Out:   sharesOut(alloc),
					Call: func(rcv interface{}, in []interface{}, o interface{}) (interface{}, error) {
						return o, rcv.(P).AggregateShares(in[0].(multiparty.GaloisKeyGenShare), in[1].(multiparty.GaloisKeyGenShare), o.(*multiparty.GaloisKeyGenShare))
					}},
				{Method: "GenGaloisKey", Doc: "finalizes the GaloisKey generation and populates the input GaloisKey with the computed collective GaloisKey",
					Kinds: []Kind{{Name: "share,crp", Class: "share", Names: []string{"share", "crp"}, Make: func(e *Env, g *Gen) []interface{} { return []interface{}{share(e, g), crp(e)} }}},
					Out:   sharesOut(func(e *Env) interface{} { return rlwe.NewGaloisKey(e.RLWE) }),
					Call: func(rcv interface{}, in []interface{}, o interface{}) (interface{}, error) {
						return o, rcv.(P).GenGaloisKey(in[0].(multiparty.GaloisKeyGenShare), in[1].(multiparty.GaloisKeyGenCRP), o.(*rlwe.GaloisKey))
					}},
			}})
	}
	// ---- RelinearizationKeyGenProtocol
	{
		type P = multiparty.RelinearizationKeyGenProtocol
		newP := func(e *Env) interface{} { return multiparty.NewRelinearizationKeyGenProtocol(e.RLWE) }
		crp := func(e *Env) multiparty.RelinearizationKeyGenCRP {
			return multiparty.NewRelinearizationKeyGenProtocol(e.RLWE).SampleCRP(fixedCRS("rlk"))
		}
		share := func(e *Env, g *Gen) multiparty.RelinearizationKeyGenShare {
			_, s, _ := multiparty.NewRelinearizationKeyGenProtocol(e.RLWE).AllocateShare()
			g.FillAny(s)
			return s
		}
		alloc := func(e *Env) interface{} {
			_, s, _ := multiparty.NewRelinearizationKeyGenProtocol(e.RLWE).AllocateShare()
			return &s
		}
		type r1out struct {
			EphSk *rlwe.SecretKey
			Share *multiparty.RelinearizationKeyGenShare
		}
		ts = append(ts, &Target{Name: "multiparty.RelinearizationKeyGenProtocol", Envs: envs, Randomized: true, Type: reflect.TypeOf(P{}), New: newP, NotTabled: notTabled(nil),
			Rows: []Row{
				{Method: "GenShareRoundOne", Doc: "first round: generates the ephemeral key (ephSkOut) and the round-one share (shareOut)",
					Kinds: []Kind{{Name: "sk,crp", Class: "sk", Names: []string{"sk", "crp"}, Make: func(e *Env, g *Gen) []interface{} { return []interface{}{e.SK.CopyNew(), crp(e)} }}},
					Out: sharesOut(func(e *Env) interface{} {
						eph, s, _ := multiparty.NewRelinearizationKeyGenProtocol(e.RLWE).AllocateShare()
						return &r1out{eph, &s}
					}),
					Call: func(rcv interface{}, in []interface{}, o interface{}) (interface{}, error) {
						r := o.(*r1out)
						rcv.(P).GenShareRoundOne(in[0].(*rlwe.SecretKey), in[1].(multiparty.RelinearizationKeyGenCRP), r.EphSk, r.Share)
						return o, nil
					}},
				{Method: "GenShareRoundTwo", Doc: "second round: round2 share from the ephemeral key, the secret key and the aggregated round-one share (on shareOut)",
					Kinds: []Kind{{Name: "ephSk,sk,round1", Class: "sk", Names: []string{"ephSk", "sk", "round1"}, Make: func(e *Env, g *Gen) []interface{} {
						return []interface{}{e.SK2.CopyNew(), e.SK.CopyNew(), share(e, g)}
					}}},
					Out: sharesOut(alloc),
					Call: func(rcv interface{}, in []interface{}, o interface{}) (interface{}, error) {
						rcv.(P).GenShareRoundTwo(in[0].(*rlwe.SecretKey), in[1].(*rlwe.SecretKey), in[2].(multiparty.RelinearizationKeyGenShare), o.(*multiparty.RelinearizationKeyGenShare))
						return o, nil
					}},
				{Method: "AggregateShares", Doc: "adds share1 and share2 on shareOut",
					Kinds: []Kind{{Name: "share,share", Class: "share", Names: []string{"share1", "share2"}, Make: func(e *Env, g *Gen) []interface{} { return []interface{}{share(e, g), share(e, g)} }}},
					Out:   sharesOut(alloc),
					Call: func(rcv interface{}, in []interface{}, o interface{}) (interface{}, error) {
						rcv.(P).AggregateShares(in[0].(multiparty.RelinearizationKeyGenShare), in[1].(multiparty.RelinearizationKeyGenShare), o.(*multiparty.RelinearizationKeyGenShare))
						return o, nil
					}},
				{Method: "GenRelinearizationKey", Doc: "computes the generated RLK from the public shares and write the result in evalKeyOut",
					Kinds: []Kind{{Name: "round1,round2", Class: "share", Names: []string{"round1", "round2"}, Make: func(e *Env, g *Gen) []interface{} { return []interface{}{share(e, g), share(e, g)} }}},
					Out:   sharesOut(func(e *Env) interface{} { return rlwe.NewRelinearizationKey(e.RLWE) }),
					Call: func(rcv interface{}, in []interface{}, o interface{}) (interface{}, error) {
						rcv.(P).GenRelinearizationKey(in[0].(multiparty.RelinearizationKeyGenShare), in[1].(multiparty.RelinearizationKeyGenShare), o.(*rlwe.RelinearizationKey))
						return o, nil
					}},
			}})
	}
	// ---- KeySwitchProtocol
	{
		type P = multiparty.KeySwitchProtocol
		newP := func(e *Env) interface{} {
			p, err := multiparty.NewKeySwitchProtocol(e.RLWE, floodNoise)
			if err != nil {
				panic(err)
			}
			return p
		}
		share := func(e *Env, g *Gen, lvl int) multiparty.KeySwitchShare {
			s := newP(e).(P).AllocateShare(lvl)
			g.FillAny(s)
			return s
		}
		ts = append(ts, &Target{Name: "multiparty.KeySwitchProtocol", Envs: envs, Randomized: true, Type: reflect.TypeOf(P{}), New: newP, NotTabled: notTabled(nil),
			Rows: []Row{
				{Method: "GenShare", Doc: "computes a party's share in the CKS protocol from secret-key skInput to secret-key skOutput (on shareOut)",
					Kinds: []Kind{
						{Name: "skIn,skOut,ct", Class: "ct", Names: []string{"skInput", "skOutput", "ct"}, Make: func(e *Env, g *Gen) []interface{} {
							return []interface{}{e.SK.CopyNew(), e.SK2.CopyNew(), g.Ct(e, 1, e.MaxLevel())}
						}},
						{Name: "skIn,skOut,ct/level", Class: "ct", Names: []string{"skInput", "skOutput", "ct"}, Make: func(e *Env, g *Gen) []interface{} {
							return []interface{}{e.SK.CopyNew(), e.SK2.CopyNew(), g.Ct(e, 1, e.MaxLevel()-1)}
						}}},
					Out: &OutSpec{Shapes: []Shape{ShapeDirtyWords, ShapeLargerLevel}, New: func(e *Env, in []interface{}, dDeg, dLvl int) interface{} {
						_, l := degLvl(in[2])
						if dDeg != 0 || l+dLvl < 0 || l+dLvl > e.MaxLevel() {
							return nil
						}
						s := newP(e).(P).AllocateShare(l + dLvl)
						return &s
					}},
					Call: func(rcv interface{}, in []interface{}, o interface{}) (interface{}, error) {
						rcv.(P).GenShare(in[0].(*rlwe.SecretKey), in[1].(*rlwe.SecretKey), asCt(in[2]), o.(*multiparty.KeySwitchShare))
						return o, nil
					}},
				{Method: "AggregateShares", Doc: "shareOut = share1 + share2; error if levels differ",
					Kinds: []Kind{{Name: "share,share", Class: "share", Names: []string{"share1", "share2"}, Make: func(e *Env, g *Gen) []interface{} {
						return []interface{}{share(e, g, e.MaxLevel()-1), share(e, g, e.MaxLevel()-1)}
					}}},
					Out: sharesOut(func(e *Env) interface{} { s := newP(e).(P).AllocateShare(e.MaxLevel() - 1); return &s }),
					Call: func(rcv interface{}, in []interface{}, o interface{}) (interface{}, error) {
						return o, rcv.(P).AggregateShares(in[0].(multiparty.KeySwitchShare), in[1].(multiparty.KeySwitchShare), o.(*multiparty.KeySwitchShare))
					}},
				{Method: "KeySwitch", Doc: "performs the actual keyswitching operation on a ciphertext ct and put the result in opOut",
					Kinds: []Kind{{Name: "ct,share", Class: "ct", Names: []string{"ctIn", "combined"}, Make: func(e *Env, g *Gen) []interface{} {
						return []interface{}{g.Ct(e, 1, e.MaxLevel()-1), share(e, g, e.MaxLevel()-1)}
					}}},
					Out: ctOut(func(d0, _ int) int { return d0 }, allShapes),
					Call: func(rcv interface{}, in []interface{}, o interface{}) (interface{}, error) {
						rcv.(P).KeySwitch(asCt(in[0]), in[1].(multiparty.KeySwitchShare), asCt(o))
						return o, nil
					}},
			}})
	}
	// ---- PublicKeySwitchProtocol
	{
		type P = multiparty.PublicKeySwitchProtocol
		newP := func(e *Env) interface{} {
			p, err := multiparty.NewPublicKeySwitchProtocol(e.RLWE, floodNoise)
			if err != nil {
				panic(err)
			}
			return p
		}
		share := func(e *Env, g *Gen, lvl int) multiparty.PublicKeySwitchShare {
			s := newP(e).(P).AllocateShare(lvl)
			g.FillAny(s)
			return s
		}
		nt := notTabled(nil)
		for _, m := range promotedMethods(reflect.TypeOf(&rlwe.Encryptor{})) {
			if m != "ShallowCopy" {
				nt[m] = "promoted from the embedded *rlwe.Encryptor (own target)"
			}
		}
		ts = append(ts, &Target{Name: "multiparty.PublicKeySwitchProtocol", Envs: envs, Randomized: true, Type: reflect.TypeOf(P{}), New: newP, NotTabled: nt,
			Rows: []Row{
				{Method: "GenShare", Doc: "computes a party's share in the PCKS protocol from secret-key sk to public-key pk (on shareOut)",
					Kinds: []Kind{{Name: "sk,pk,ct", Class: "ct", Names: []string{"sk", "pk", "ct"}, Make: func(e *Env, g *Gen) []interface{} {
						return []interface{}{e.SK.CopyNew(), e.PK.CopyNew(), g.Ct(e, 1, e.MaxLevel()-1)}
					}}},
					Out: sharesOut(func(e *Env) interface{} { s := newP(e).(P).AllocateShare(e.MaxLevel() - 1); return &s }),
					Call: func(rcv interface{}, in []interface{}, o interface{}) (interface{}, error) {
						rcv.(P).GenShare(in[0].(*rlwe.SecretKey), in[1].(*rlwe.PublicKey), asCt(in[2]), o.(*multiparty.PublicKeySwitchShare))
						return o, nil
					}},
				{Method: "AggregateShares", Doc: "is the second part of the first and unique round of the PCKS protocol: shareOut = share1 + share2",
					Kinds: []Kind{{Name: "share,share", Class: "share", Names: []string{"share1", "share2"}, Make: func(e *Env, g *Gen) []interface{} {
						return []interface{}{share(e, g, e.MaxLevel()-1), share(e, g, e.MaxLevel()-1)}
					}}},
					Out: sharesOut(func(e *Env) interface{} { s := newP(e).(P).AllocateShare(e.MaxLevel() - 1); return &s }),
					Call: func(rcv interface{}, in []interface{}, o interface{}) (interface{}, error) {
						return o, rcv.(P).AggregateShares(in[0].(multiparty.PublicKeySwitchShare), in[1].(multiparty.PublicKeySwitchShare), o.(*multiparty.PublicKeySwitchShare))
					}},
				{Method: "KeySwitch", Doc: "performs the actual keyswitching operation on a ciphertext ct and put the result in opOut",
					Kinds: []Kind{{Name: "ct,share", Class: "ct", Names: []string{"ctIn", "combined"}, Make: func(e *Env, g *Gen) []interface{} {
						return []interface{}{g.Ct(e, 1, e.MaxLevel()-1), share(e, g, e.MaxLevel()-1)}
					}}},
					Out: ctOut(func(d0, _ int) int { return d0 }, allShapes),
					Call: func(rcv interface{}, in []interface{}, o interface{}) (interface{}, error) {
						rcv.(P).KeySwitch(asCt(in[0]), in[1].(multiparty.PublicKeySwitchShare), asCt(o))
						return o, nil
					}},
			}})
	}
	// ---- Thresholdizer, Combiner
	{
		type T = multiparty.Thresholdizer
		newT := func(e *Env) interface{} { return multiparty.NewThresholdizer(e.RLWE) }
		sshare := func(e *Env, g *Gen) multiparty.ShamirSecretShare {
			s := multiparty.NewThresholdizer(e.RLWE).AllocateThresholdSecretShare()
			g.FillAny(s)
			return s
		}
		alloc := func(e *Env) interface{} {
			s := multiparty.NewThresholdizer(e.RLWE).AllocateThresholdSecretShare()
			return &s
		}
		ts = append(ts, &Target{Name: "multiparty.Thresholdizer", Envs: envs[:1], Randomized: true, NoScratch: true, Type: reflect.TypeOf(T{}), New: newT,
			NotTabled: map[string]string{"AllocateThresholdSecretShare": "allocator"},
			Rows: []Row{
				{Method: "GenShamirPolynomial", Doc: "generates a new secret ShamirPolynomial to be used in GenShamirSecretShare (returned)",
					Kinds: []Kind{{Name: "t=3,sk", Class: "sk", Names: []string{"threshold", "secret"}, Make: func(e *Env, g *Gen) []interface{} { return []interface{}{3, e.SK.CopyNew()} }}},
					Call: func(rcv interface{}, in []interface{}, o interface{}) (interface{}, error) {
						return rcv.(T).GenShamirPolynomial(in[0].(int), in[1].(*rlwe.SecretKey))
					}},
				{Method: "GenShamirSecretShare", Doc: "generates a secret share for the given recipient; the result is stored in shareOut",
					Kinds: []Kind{{Name: "point,poly", Class: "poly", Names: []string{"recipient", "secretPoly"}, Make: func(e *Env, g *Gen) []interface{} {
						sp := multiparty.ShamirPolynomial{}
						for i := 0; i < 3; i++ {
							p := e.RLWE.RingQP().NewPoly()
							g.FillPolyQP(e.RLWE.RingQP(), p)
							sp.Value = append(sp.Value, p)
						}
						return []interface{}{multiparty.ShamirPublicPoint(7), sp}
					}}},
					Out: sharesOut(alloc),
					Call: func(rcv interface{}, in []interface{}, o interface{}) (interface{}, error) {
						rcv.(T).GenShamirSecretShare(in[0].(multiparty.ShamirPublicPoint), in[1].(multiparty.ShamirPolynomial), o.(*multiparty.ShamirSecretShare))
						return o, nil
					}},
				{Method: "AggregateShares", Doc: "aggregates two ShamirSecretShare and stores the result in outShare",
					Kinds: []Kind{{Name: "share,share", Class: "share", Names: []string{"share1", "share2"}, Make: func(e *Env, g *Gen) []interface{} { return []interface{}{sshare(e, g), sshare(e, g)} }}},
					Out:   sharesOut(alloc),
					Call: func(rcv interface{}, in []interface{}, o interface{}) (interface{}, error) {
						return o, rcv.(T).AggregateShares(in[0].(multiparty.ShamirSecretShare), in[1].(multiparty.ShamirSecretShare), o.(*multiparty.ShamirSecretShare))
					}},
			}})
		type C = multiparty.Combiner
		pts := []multiparty.ShamirPublicPoint{2, 3, 5, 7}
		ts = append(ts, &Target{Name: "multiparty.Combiner", Envs: envs[:1], Type: reflect.TypeOf(C{}),
			New:       func(e *Env) interface{} { return multiparty.NewCombiner(e.RLWE, 3, pts, 3) },
			NotTabled: map[string]string{},
			Rows: []Row{{Method: "GenAdditiveShare", Doc: "generates a t-out-of-t additive share of the secret from a local aggregated share and the set of active identities; stores the result in skOut",
				Kinds: []Kind{{Name: "actives,own,share", Class: "share", Names: []string{"activesPoints", "ownPoint", "ownShare"}, Make: func(e *Env, g *Gen) []interface{} {
					return []interface{}{[]multiparty.ShamirPublicPoint{7, 3, 2}, multiparty.ShamirPublicPoint(3), sshare(e, g)}
				}}},
				Out: sharesOut(func(e *Env) interface{} { return rlwe.NewSecretKey(e.RLWE) }),
				Call: func(rcv interface{}, in []interface{}, o interface{}) (interface{}, error) {
					return o, rcv.(C).GenAdditiveShare(in[0].([]multiparty.ShamirPublicPoint), in[1].(multiparty.ShamirPublicPoint), in[2].(multiparty.ShamirSecretShare), o.(*rlwe.SecretKey))
				}}}})
	}
	return ts
}
