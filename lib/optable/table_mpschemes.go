package optable

import (
	"math/big"
	"reflect"

	"github.com/tuneinsight/lattigo/v6/core/rlwe"
	"github.com/tuneinsight/lattigo/v6/multiparty"
	"github.com/tuneinsight/lattigo/v6/multiparty/mpbgv"
	"github.com/tuneinsight/lattigo/v6/multiparty/mpckks"
	"github.com/tuneinsight/lattigo/v6/utils/bignum"
)

// ---------------------------------------------------------------------------------------------
// multiparty/mpbgv and multiparty/mpckks: encryption-to-shares, shares-to-encryption, masked
// transform and refresh protocols. All Randomized (own PRNGs); inputs built as in table_multiparty.go.

func ksCRP(e *Env, level int, label string) multiparty.KeySwitchCRP {
	p, err := multiparty.NewKeySwitchProtocol(e.RLWE, floodNoise)
	if err != nil {
		panic(err)
	}
	return p.SampleCRP(level, fixedCRS(label))
}

func ksShare(e *Env, g *Gen, level int) multiparty.KeySwitchShare {
	p, err := multiparty.NewKeySwitchProtocol(e.RLWE, floodNoise)
	if err != nil {
		panic(err)
	}
	s := p.AllocateShare(level)
	g.FillAny(s)
	return s
}

func refreshShare(e *Env, g *Gen, lIn, lOut int, md *rlwe.MetaData) multiparty.RefreshShare {
	s := multiparty.RefreshShare{EncToShareShare: ksShare(e, g, lIn), ShareToEncShare: ksShare(e, g, lOut)}
	if md != nil {
		s.MetaData = *md
	}
	return s
}

func mpSchemeTargets() []*Target {
	var ts []*Target
	nt := func(extra map[string]string) map[string]string {
		m := map[string]string{"AllocateShare": "allocator (no inputs, fresh result)", "ShallowCopy": "copy constructor (C10)",
			"SampleCRP": "reads the caller's CRS by design (the CRS is an in/out stream)", "WithParams": "copy constructor (C10)"}
		for k, v := range extra {
			m[k] = v
		}
		return m
	}
	ksPromoted := map[string]string{"AggregateShares": "promoted from multiparty.KeySwitchProtocol (own target)", "KeySwitch": "promoted from multiparty.KeySwitchProtocol (own target)"}

	// =========================== mpbgv ===========================
	bgvEnvs := []string{"bgv"}
	addShareT := func(e *Env, g *Gen) multiparty.AdditiveShare {
		s := mpbgv.NewAdditiveShare(e.BGV)
		for j := range s.Value.Coeffs[0] {
			s.Value.Coeffs[0][j] = g.U64() % 97
		}
		return s
	}
	{
		type P = mpbgv.EncToShareProtocol
		newP := func(e *Env) interface{} {
			p, err := mpbgv.NewEncToShareProtocol(e.BGV, floodNoise)
			if err != nil {
				panic(err)
			}
			return p
		}
		type e2sOut struct {
			Secret *multiparty.AdditiveShare
			Public *multiparty.KeySwitchShare
		}
		ts = append(ts, &Target{Name: "mpbgv.EncToShareProtocol", Envs: bgvEnvs, Randomized: true, Type: reflect.TypeOf(P{}), New: newP, NotTabled: nt(ksPromoted),
			Rows: []Row{
				{Method: "GenShare", Doc: "generates a party's share in the encryption-to-shares protocol (secretShareOut and publicShareOut)",
					Kinds: []Kind{{Name: "sk,ct", Class: "ct", Names: []string{"sk", "ct"}, Make: func(e *Env, g *Gen) []interface{} { return []interface{}{e.SK.CopyNew(), g.Ct(e, 1, e.MaxLevel()-1)} }}},
					Out: sharesOut(func(e *Env) interface{} {
						a, p := mpbgv.NewAdditiveShare(e.BGV), newP(e).(P).AllocateShare(e.MaxLevel()-1)
						return &e2sOut{&a, &p}
					}),
					Call: func(rcv interface{}, in []interface{}, o interface{}) (interface{}, error) {
						r := o.(*e2sOut)
						rcv.(P).GenShare(in[0].(*rlwe.SecretKey), asCt(in[1]), r.Secret, r.Public)
						return o, nil
					}},
				{Method: "GetShare", Doc: "is the final step of the encryption-to-share protocol: secretShareOut = secretShare + decryption share (secretShare can be nil)",
					Kinds: []Kind{
						{Name: "secret,agg,ct", Class: "share", Names: []string{"secretShare", "aggregatePublicShare", "ct"}, Make: func(e *Env, g *Gen) []interface{} {
							s := addShareT(e, g)
							return []interface{}{&s, ksShare(e, g, e.MaxLevel()-1), g.Ct(e, 1, e.MaxLevel()-1)}
						}},
						{Name: "nil,agg,ct", Class: "share", Names: []string{"secretShare", "aggregatePublicShare", "ct"}, Make: func(e *Env, g *Gen) []interface{} {
							return []interface{}{(*multiparty.AdditiveShare)(nil), ksShare(e, g, e.MaxLevel()-1), g.Ct(e, 1, e.MaxLevel()-1)}
						}}},
					Out: sharesOut(func(e *Env) interface{} { a := mpbgv.NewAdditiveShare(e.BGV); return &a }),
					Call: func(rcv interface{}, in []interface{}, o interface{}) (interface{}, error) {
						rcv.(P).GetShare(in[0].(*multiparty.AdditiveShare), in[1].(multiparty.KeySwitchShare), asCt(in[2]), o.(*multiparty.AdditiveShare))
						return o, nil
					}},
			}})
	}
	{
		type P = mpbgv.ShareToEncProtocol
		newP := func(e *Env) interface{} {
			p, err := mpbgv.NewShareToEncProtocol(e.BGV, floodNoise)
			if err != nil {
				panic(err)
			}
			return p
		}
		ts = append(ts, &Target{Name: "mpbgv.ShareToEncProtocol", Envs: bgvEnvs, Randomized: true, Type: reflect.TypeOf(P{}), New: newP, NotTabled: nt(ksPromoted),
			Rows: []Row{
				{Method: "GenShare", Doc: "generates a party's in the shares-to-encryption protocol (c0ShareOut); error if crp and c0ShareOut levels differ",
					Kinds: []Kind{{Name: "sk,crp,secret", Class: "share", Names: []string{"sk", "crp", "secretShare"}, Make: func(e *Env, g *Gen) []interface{} {
						return []interface{}{e.SK.CopyNew(), ksCRP(e, e.MaxLevel()-1, "s2e"), addShareT(e, g)}
					}}},
					Out: sharesOut(func(e *Env) interface{} { p := newP(e).(P).AllocateShare(e.MaxLevel() - 1); return &p }),
					Call: func(rcv interface{}, in []interface{}, o interface{}) (interface{}, error) {
						return o, rcv.(P).GenShare(in[0].(*rlwe.SecretKey), in[1].(multiparty.KeySwitchCRP), in[2].(multiparty.AdditiveShare), o.(*multiparty.KeySwitchShare))
					}},
				{Method: "GetEncryption", Doc: "computes the final encryption of the secret-shared message when provided with the aggregation c0Agg of the parties' shares (on opOut, degree 1)",
					Kinds: []Kind{{Name: "agg,crp", Class: "share", Names: []string{"c0Agg", "crp"}, Make: func(e *Env, g *Gen) []interface{} {
						return []interface{}{ksShare(e, g, e.MaxLevel()-1), ksCRP(e, e.MaxLevel()-1, "s2e")}
					}}},
					Out: &OutSpec{Shapes: []Shape{ShapeDirtyWords}, New: func(e *Env, in []interface{}, dDeg, dLvl int) interface{} {
						return e.NewCt(1+dDeg, e.MaxLevel()-1+dLvl)
					}},
					Call: func(rcv interface{}, in []interface{}, o interface{}) (interface{}, error) {
						return o, rcv.(P).GetEncryption(in[0].(multiparty.KeySwitchShare), in[1].(multiparty.KeySwitchCRP), asCt(o))
					}},
			}})
	}
	bgvTransform := func() *mpbgv.MaskedTransformFunc {
		return &mpbgv.MaskedTransformFunc{Decode: true, Encode: true, Func: func(c []uint64) {
			for i := range c {
				c[i] = (c[i]*3 + 1) % 97
			}
		}}
	}
	{
		type P = mpbgv.MaskedTransformProtocol
		newP := func(e *Env) interface{} {
			p, err := mpbgv.NewMaskedTransformProtocol(e.BGV, e.BGV, floodNoise)
			if err != nil {
				panic(err)
			}
			return p
		}
		lIn, lOut := func(e *Env) int { return e.MaxLevel() - 2 }, func(e *Env) int { return e.MaxLevel() }
		alloc := func(e *Env) interface{} { s := newP(e).(P).AllocateShare(lIn(e), lOut(e)); return &s }
		ts = append(ts, &Target{Name: "mpbgv.MaskedTransformProtocol", Envs: bgvEnvs, Randomized: true, Type: reflect.TypeOf(P{}), New: newP, NotTabled: nt(nil),
			Rows: []Row{
				{Method: "GenShare", Doc: "generates the shares of the PermuteProtocol (shareOut); ct level must be at least the e2s share level, crs level equal to the s2e share level",
					Kinds: []Kind{
						{Name: "skIn,skOut,ct,crs,func", Class: "ct", Names: []string{"skIn", "skOut", "ct", "crs", "transform"}, Make: func(e *Env, g *Gen) []interface{} {
							ct := g.Ct(e, 1, lIn(e))
							ct.Scale = e.BGVScale(5)
							return []interface{}{e.SK.CopyNew(), e.SK2.CopyNew(), ct, ksCRP(e, lOut(e), "mt"), bgvTransform()}
						}},
						{Name: "skIn,skOut,ct,crs,nil", Class: "ct", Names: []string{"skIn", "skOut", "ct", "crs", "transform"}, Make: func(e *Env, g *Gen) []interface{} {
							return []interface{}{e.SK.CopyNew(), e.SK2.CopyNew(), g.Ct(e, 1, lIn(e)), ksCRP(e, lOut(e), "mt"), (*mpbgv.MaskedTransformFunc)(nil)}
						}}},
					Out: sharesOut(alloc),
					Call: func(rcv interface{}, in []interface{}, o interface{}) (interface{}, error) {
						return o, rcv.(P).GenShare(in[0].(*rlwe.SecretKey), in[1].(*rlwe.SecretKey), asCt(in[2]), in[3].(multiparty.KeySwitchCRP), in[4].(*mpbgv.MaskedTransformFunc), o.(*multiparty.RefreshShare))
					}},
				{Method: "AggregateShares", Doc: "sums share1 and share2 on shareOut; error if levels differ",
					Kinds: []Kind{{Name: "share,share", Class: "share", Names: []string{"share1", "share2"}, Make: func(e *Env, g *Gen) []interface{} {
						return []interface{}{refreshShare(e, g, lIn(e), lOut(e), nil), refreshShare(e, g, lIn(e), lOut(e), nil)}
					}}},
					Out: sharesOut(alloc),
					Call: func(rcv interface{}, in []interface{}, o interface{}) (interface{}, error) {
						return o, rcv.(P).AggregateShares(in[0].(multiparty.RefreshShare), in[1].(multiparty.RefreshShare), o.(*multiparty.RefreshShare))
					}},
				{Method: "Transform", Doc: "applies Decrypt, Recode, Recrypt on the input ciphertext; the result is written on ciphertextOut",
					Kinds: []Kind{
						{Name: "ct,func,crs,share", Class: "ct", Names: []string{"ct", "transform", "crs", "share"}, Make: func(e *Env, g *Gen) []interface{} {
							ct := g.Ct(e, 1, lIn(e))
							ct.Scale = e.BGVScale(5)
							return []interface{}{ct, bgvTransform(), ksCRP(e, lOut(e), "mt"), refreshShare(e, g, lIn(e), lOut(e), ct.MetaData)}
						}},
						{Name: "ct,nil,crs,share", Class: "ct", Names: []string{"ct", "transform", "crs", "share"}, Make: func(e *Env, g *Gen) []interface{} {
							ct := g.Ct(e, 1, lIn(e))
							ct.Scale = e.BGVScale(5)
							return []interface{}{ct, (*mpbgv.MaskedTransformFunc)(nil), ksCRP(e, lOut(e), "mt"), refreshShare(e, g, lIn(e), lOut(e), ct.MetaData)}
						}}},
					Out: &OutSpec{Shapes: []Shape{ShapeDirtyWords, ShapeDirtyMeta, ShapeSmallerLevel}, New: func(e *Env, in []interface{}, dDeg, dLvl int) interface{} { return e.NewCt(1+dDeg, lOut(e)+dLvl) }},
					Call: func(rcv interface{}, in []interface{}, o interface{}) (interface{}, error) {
						return o, rcv.(P).Transform(asCt(in[0]), in[1].(*mpbgv.MaskedTransformFunc), in[2].(multiparty.KeySwitchCRP), in[3].(multiparty.RefreshShare), asCt(o))
					}},
			}})
		type R = mpbgv.RefreshProtocol
		newR := func(e *Env) interface{} {
			p, err := mpbgv.NewRefreshProtocol(e.BGV, floodNoise)
			if err != nil {
				panic(err)
			}
			return p
		}
		ts = append(ts, &Target{Name: "mpbgv.RefreshProtocol", Envs: bgvEnvs, Randomized: true, Type: reflect.TypeOf(R{}), New: newR,
			NotTabled: nt(map[string]string{"Transform": "promoted from MaskedTransformProtocol (own target)"}),
			Rows: []Row{
				{Method: "GenShare", Doc: "generates a share for the Refresh protocol (shareOut)",
					Kinds: []Kind{{Name: "sk,ct,crp", Class: "ct", Names: []string{"sk", "ct", "crp"}, Make: func(e *Env, g *Gen) []interface{} {
						return []interface{}{e.SK.CopyNew(), g.Ct(e, 1, lIn(e)), ksCRP(e, lOut(e), "rf")}
					}}},
					Out: sharesOut(alloc),
					Call: func(rcv interface{}, in []interface{}, o interface{}) (interface{}, error) {
						return o, rcv.(R).GenShare(in[0].(*rlwe.SecretKey), asCt(in[1]), in[2].(multiparty.KeySwitchCRP), o.(*multiparty.RefreshShare))
					}},
				{Method: "AggregateShares", Doc: "aggregates two parties' shares in the Refresh protocol",
					Kinds: []Kind{{Name: "share,share", Class: "share", Names: []string{"share1", "share2"}, Make: func(e *Env, g *Gen) []interface{} {
						return []interface{}{refreshShare(e, g, lIn(e), lOut(e), nil), refreshShare(e, g, lIn(e), lOut(e), nil)}
					}}},
					Out: sharesOut(alloc),
					Call: func(rcv interface{}, in []interface{}, o interface{}) (interface{}, error) {
						return o, rcv.(R).AggregateShares(in[0].(multiparty.RefreshShare), in[1].(multiparty.RefreshShare), o.(*multiparty.RefreshShare))
					}},
				{Method: "Finalize", Doc: "applies Decrypt, Recode and Recrypt on the input ciphertext, result on opOut",
					Kinds: []Kind{{Name: "ct,crp,share", Class: "ct", Names: []string{"ctIn", "crp", "share"}, Make: func(e *Env, g *Gen) []interface{} {
						ct := g.Ct(e, 1, lIn(e))
						ct.Scale = e.BGVScale(5)
						return []interface{}{ct, ksCRP(e, lOut(e), "rf"), refreshShare(e, g, lIn(e), lOut(e), ct.MetaData)}
					}}},
					Out: &OutSpec{Shapes: []Shape{ShapeDirtyWords, ShapeDirtyMeta, ShapeSmallerLevel}, New: func(e *Env, in []interface{}, dDeg, dLvl int) interface{} { return e.NewCt(1+dDeg, lOut(e)+dLvl) }},
					Call: func(rcv interface{}, in []interface{}, o interface{}) (interface{}, error) {
						return o, rcv.(R).Finalize(asCt(in[0]), in[1].(multiparty.KeySwitchCRP), in[2].(multiparty.RefreshShare), asCt(o))
					}},
			}})
	}

	// =========================== mpckks ===========================
	ckksEnvs := []string{"ckks"}
	const logBound = 60
	addShareB := func(e *Env, g *Gen) multiparty.AdditiveShareBigint {
		s := mpckks.NewAdditiveShare(e.CKKS, e.CKKS.LogMaxSlots())
		for i := range s.Value {
			s.Value[i] = new(big.Int).SetInt64(int64(g.U64()>>20) - 1<<42)
		}
		return s
	}
	{
		type P = mpckks.EncToShareProtocol
		newP := func(e *Env) interface{} {
			p, err := mpckks.NewEncToShareProtocol(e.CKKS, floodNoise)
			if err != nil {
				panic(err)
			}
			return p
		}
		type e2sOut struct {
			Secret *multiparty.AdditiveShareBigint
			Public *multiparty.KeySwitchShare
		}
		ts = append(ts, &Target{Name: "mpckks.EncToShareProtocol", Envs: ckksEnvs, Randomized: true, Type: reflect.TypeOf(P{}), New: newP, NotTabled: nt(ksPromoted),
			Rows: []Row{
				{Method: "GenShare", Doc: "generates a party's share in the encryption-to-shares protocol (secretShareOut, publicShareOut)",
					Kinds: []Kind{{Name: "sk,logBound,ct", Class: "ct", Names: []string{"sk", "logBound", "ct"}, Make: func(e *Env, g *Gen) []interface{} {
						return []interface{}{e.SK.CopyNew(), uint(logBound), g.Ct(e, 1, e.MaxLevel()-1)}
					}}},
					Out: sharesOut(func(e *Env) interface{} {
						a, p := mpckks.NewAdditiveShare(e.CKKS, e.CKKS.LogMaxSlots()), newP(e).(P).AllocateShare(e.MaxLevel()-1)
						return &e2sOut{&a, &p}
					}),
					Call: func(rcv interface{}, in []interface{}, o interface{}) (interface{}, error) {
						r := o.(*e2sOut)
						return o, rcv.(P).GenShare(in[0].(*rlwe.SecretKey), in[1].(uint), asCt(in[2]), r.Secret, r.Public)
					}},
				{Method: "GetShare", Doc: "is the final step of the encryption-to-share protocol (secretShare can be nil), result on secretShareOut",
					Kinds: []Kind{
						{Name: "secret,agg,ct", Class: "share", Names: []string{"secretShare", "aggregatePublicShare", "ct"}, Make: func(e *Env, g *Gen) []interface{} {
							s := addShareB(e, g)
							return []interface{}{&s, ksShare(e, g, e.MaxLevel()-1), g.Ct(e, 1, e.MaxLevel()-1)}
						}},
						{Name: "nil,agg,ct", Class: "share", Names: []string{"secretShare", "aggregatePublicShare", "ct"}, Make: func(e *Env, g *Gen) []interface{} {
							return []interface{}{(*multiparty.AdditiveShareBigint)(nil), ksShare(e, g, e.MaxLevel()-1), g.Ct(e, 1, e.MaxLevel()-1)}
						}}},
					Out: sharesOut(func(e *Env) interface{} { a := mpckks.NewAdditiveShare(e.CKKS, e.CKKS.LogMaxSlots()); return &a }),
					Call: func(rcv interface{}, in []interface{}, o interface{}) (interface{}, error) {
						rcv.(P).GetShare(in[0].(*multiparty.AdditiveShareBigint), in[1].(multiparty.KeySwitchShare), asCt(in[2]), o.(*multiparty.AdditiveShareBigint))
						return o, nil
					}},
			}})
	}
	{
		type P = mpckks.ShareToEncProtocol
		newP := func(e *Env) interface{} {
			p, err := mpckks.NewShareToEncProtocol(e.CKKS, floodNoise)
			if err != nil {
				panic(err)
			}
			return p
		}
		ts = append(ts, &Target{Name: "mpckks.ShareToEncProtocol", Envs: ckksEnvs, Randomized: true, Type: reflect.TypeOf(P{}), New: newP, NotTabled: nt(ksPromoted),
			Rows: []Row{
				{Method: "GenShare", Doc: "generates a party's in the shares-to-encryption protocol (c0ShareOut)",
					Kinds: []Kind{{Name: "sk,crs,metadata,secret", Class: "share", Names: []string{"sk", "crs", "metadata", "secretShare"}, Make: func(e *Env, g *Gen) []interface{} {
						md := g.Ct(e, 1, 0).MetaData
						return []interface{}{e.SK.CopyNew(), ksCRP(e, e.MaxLevel()-1, "s2e"), md, addShareB(e, g)}
					}}},
					Out: sharesOut(func(e *Env) interface{} { p := newP(e).(P).AllocateShare(e.MaxLevel() - 1); return &p }),
					Call: func(rcv interface{}, in []interface{}, o interface{}) (interface{}, error) {
						return o, rcv.(P).GenShare(in[0].(*rlwe.SecretKey), in[1].(multiparty.KeySwitchCRP), in[2].(*rlwe.MetaData), in[3].(multiparty.AdditiveShareBigint), o.(*multiparty.KeySwitchShare))
					}},
				{Method: "GetEncryption", Doc: "computes the final encryption of the secret-shared message (on opOut; degree 1, level equal to the crs level)",
					Kinds: []Kind{{Name: "agg,crs", Class: "share", Names: []string{"c0Agg", "crs"}, Make: func(e *Env, g *Gen) []interface{} {
						return []interface{}{ksShare(e, g, e.MaxLevel()-1), ksCRP(e, e.MaxLevel()-1, "s2e")}
					}}},
					Out: &OutSpec{Shapes: []Shape{ShapeDirtyWords}, New: func(e *Env, in []interface{}, dDeg, dLvl int) interface{} {
						return e.NewCt(1+dDeg, e.MaxLevel()-1+dLvl)
					}},
					Call: func(rcv interface{}, in []interface{}, o interface{}) (interface{}, error) {
						return o, rcv.(P).GetEncryption(in[0].(multiparty.KeySwitchShare), in[1].(multiparty.KeySwitchCRP), asCt(o))
					}},
			}})
	}
	{
		type P = mpckks.MaskedLinearTransformationProtocol
		newP := func(e *Env) interface{} {
			p, err := mpckks.NewMaskedLinearTransformationProtocol(e.CKKS, e.CKKS, 128, floodNoise)
			if err != nil {
				panic(err)
			}
			return p
		}
		lIn, lOut := func(e *Env) int { return e.MaxLevel() - 1 }, func(e *Env) int { return e.MaxLevel() }
		alloc := func(e *Env) interface{} { s := newP(e).(P).AllocateShare(lIn(e), lOut(e)); return &s }
		tf := func() *mpckks.MaskedLinearTransformationFunc {
			return &mpckks.MaskedLinearTransformationFunc{Decode: true, Encode: true, Func: func(c []*bignum.Complex) {
				for i := range c {
					c[i][0].Neg(c[i][0])
				}
			}}
		}
		ptrShare := func(e *Env, g *Gen, md *rlwe.MetaData) *multiparty.RefreshShare {
			s := refreshShare(e, g, lIn(e), lOut(e), md)
			return &s
		}
		ts = append(ts, &Target{Name: "mpckks.MaskedLinearTransformationProtocol", Envs: ckksEnvs, Randomized: true, Type: reflect.TypeOf(P{}), New: newP, NotTabled: nt(nil),
			Rows: []Row{
				{Method: "GenShare", Doc: "generates the decryption/recryption shares of the protocol (shareOut)",
					Kinds: []Kind{
						{Name: "skIn,skOut,logBound,ct,crs,func", Class: "ct", Names: []string{"skIn", "skOut", "logBound", "ct", "crs", "transform"}, Make: func(e *Env, g *Gen) []interface{} {
							return []interface{}{e.SK.CopyNew(), e.SK2.CopyNew(), uint(logBound), g.Ct(e, 1, lIn(e)), ksCRP(e, lOut(e), "mlt"), tf()}
						}},
						{Name: "skIn,skOut,logBound,ct,crs,nil", Class: "ct", Names: []string{"skIn", "skOut", "logBound", "ct", "crs", "transform"}, Make: func(e *Env, g *Gen) []interface{} {
							return []interface{}{e.SK.CopyNew(), e.SK2.CopyNew(), uint(logBound), g.Ct(e, 1, lIn(e)), ksCRP(e, lOut(e), "mlt"), (*mpckks.MaskedLinearTransformationFunc)(nil)}
						}}},
					Out: sharesOut(alloc),
					Call: func(rcv interface{}, in []interface{}, o interface{}) (interface{}, error) {
						return o, rcv.(P).GenShare(in[0].(*rlwe.SecretKey), in[1].(*rlwe.SecretKey), in[2].(uint), asCt(in[3]), in[4].(multiparty.KeySwitchCRP), in[5].(*mpckks.MaskedLinearTransformationFunc), o.(*multiparty.RefreshShare))
					}},
				{Method: "AggregateShares", Doc: "sums share1 and share2 on shareOut",
					Kinds: []Kind{{Name: "share,share", Class: "share", Names: []string{"share1", "share2"}, Make: func(e *Env, g *Gen) []interface{} {
						return []interface{}{ptrShare(e, g, nil), ptrShare(e, g, nil)}
					}}},
					Out: sharesOut(alloc),
					Call: func(rcv interface{}, in []interface{}, o interface{}) (interface{}, error) {
						return o, rcv.(P).AggregateShares(in[0].(*multiparty.RefreshShare), in[1].(*multiparty.RefreshShare), o.(*multiparty.RefreshShare))
					}},
				{Method: "Transform", Doc: "applies Decrypt, Recode, Recrypt on the input ciphertext; result on ciphertextOut; the scale of the output is the default scale of the output parameters",
					Kinds: []Kind{
						{Name: "ct,func,crs,share", Class: "ct", Names: []string{"ct", "transform", "crs", "share"}, Make: func(e *Env, g *Gen) []interface{} {
							ct := g.Ct(e, 1, lIn(e))
							return []interface{}{ct, tf(), ksCRP(e, lOut(e), "mlt"), refreshShare(e, g, lIn(e), lOut(e), ct.MetaData)}
						}},
						{Name: "ct,nil,crs,share", Class: "ct", Names: []string{"ct", "transform", "crs", "share"}, Make: func(e *Env, g *Gen) []interface{} {
							ct := g.Ct(e, 1, lIn(e))
							return []interface{}{ct, (*mpckks.MaskedLinearTransformationFunc)(nil), ksCRP(e, lOut(e), "mlt"), refreshShare(e, g, lIn(e), lOut(e), ct.MetaData)}
						}}},
					Out: &OutSpec{Shapes: []Shape{ShapeDirtyWords, ShapeDirtyMeta}, New: func(e *Env, in []interface{}, dDeg, dLvl int) interface{} { return e.NewCt(1+dDeg, lOut(e)+dLvl) }},
					Call: func(rcv interface{}, in []interface{}, o interface{}) (interface{}, error) {
						return o, rcv.(P).Transform(asCt(in[0]), in[1].(*mpckks.MaskedLinearTransformationFunc), in[2].(multiparty.KeySwitchCRP), in[3].(multiparty.RefreshShare), asCt(o))
					}},
			}})
		type R = mpckks.RefreshProtocol
		newR := func(e *Env) interface{} {
			p, err := mpckks.NewRefreshProtocol(e.CKKS, 128, floodNoise)
			if err != nil {
				panic(err)
			}
			return p
		}
		ts = append(ts, &Target{Name: "mpckks.RefreshProtocol", Envs: ckksEnvs, Randomized: true, Type: reflect.TypeOf(R{}), New: newR,
			NotTabled: nt(map[string]string{"Transform": "promoted from MaskedLinearTransformationProtocol (own target)"}),
			Rows: []Row{
				{Method: "GenShare", Doc: "generates a share for the Refresh protocol (shareOut)",
					Kinds: []Kind{{Name: "sk,logBound,ct,crs", Class: "ct", Names: []string{"sk", "logBound", "ct", "crs"}, Make: func(e *Env, g *Gen) []interface{} {
						return []interface{}{e.SK.CopyNew(), uint(logBound), g.Ct(e, 1, lIn(e)), ksCRP(e, lOut(e), "rf")}
					}}},
					Out: sharesOut(alloc),
					Call: func(rcv interface{}, in []interface{}, o interface{}) (interface{}, error) {
						return o, rcv.(R).GenShare(in[0].(*rlwe.SecretKey), in[1].(uint), asCt(in[2]), in[3].(multiparty.KeySwitchCRP), o.(*multiparty.RefreshShare))
					}},
				{Method: "AggregateShares", Doc: "aggregates two parties' shares in the Refresh protocol",
					Kinds: []Kind{{Name: "share,share", Class: "share", Names: []string{"share1", "share2"}, Make: func(e *Env, g *Gen) []interface{} {
						return []interface{}{ptrShare(e, g, nil), ptrShare(e, g, nil)}
					}}},
					Out: sharesOut(alloc),
					Call: func(rcv interface{}, in []interface{}, o interface{}) (interface{}, error) {
						return o, rcv.(R).AggregateShares(in[0].(*multiparty.RefreshShare), in[1].(*multiparty.RefreshShare), o.(*multiparty.RefreshShare))
					}},
				{Method: "Finalize", Doc: "applies Decrypt, Recode and Recrypt on the input ciphertext, result on opOut",
					Kinds: []Kind{{Name: "ct,crs,share", Class: "ct", Names: []string{"ctIn", "crs", "share"}, Make: func(e *Env, g *Gen) []interface{} {
						ct := g.Ct(e, 1, lIn(e))
						return []interface{}{ct, ksCRP(e, lOut(e), "rf"), refreshShare(e, g, lIn(e), lOut(e), ct.MetaData)}
					}}},
					Out: &OutSpec{Shapes: []Shape{ShapeDirtyWords, ShapeDirtyMeta}, New: func(e *Env, in []interface{}, dDeg, dLvl int) interface{} { return e.NewCt(1+dDeg, lOut(e)+dLvl) }},
					Call: func(rcv interface{}, in []interface{}, o interface{}) (interface{}, error) {
						return o, rcv.(R).Finalize(asCt(in[0]), in[1].(multiparty.KeySwitchCRP), in[2].(multiparty.RefreshShare), asCt(o))
					}},
			}})
	}
	return ts
}
