package optable

import (
	"fmt"
	"math/big"
	"sync"

	"github.com/tuneinsight/lattigo/v6/core/rlwe"
	"github.com/tuneinsight/lattigo/v6/ring"
	"github.com/tuneinsight/lattigo/v6/ring/ringqp"
	"github.com/tuneinsight/lattigo/v6/schemes/bgv"
	"github.com/tuneinsight/lattigo/v6/schemes/ckks"
	"github.com/tuneinsight/lattigo/v6/utils/sampling"

	"verif/uni"
)

// Env is one tiny parameter set with its keys. Everything in it is built once per process and is
// treated as read-only afterwards (oracle (a) of C09 re-checks the keys on the baseline leaves).
type Env struct {
	Name           string
	Scheme         string // "bgv" | "ckks" | "rlwe"
	RLWE           rlwe.Parameters
	BGV            bgv.Parameters
	CKKS           ckks.Parameters
	ScaleInvariant bool // bgv evaluator in BFV mode
	Prec           uint // ckks encoder precision (0: default)

	SK, SK2 *rlwe.SecretKey
	PK      *rlwe.PublicKey
	Evk     *rlwe.MemEvaluationKeySet // relinearisation key + every Galois key of the ring
	Swk     *rlwe.EvaluationKey       // SK -> SK2
	GalEls  []uint64
}

// Params returns the scheme-level parameter provider.
func (e *Env) Params() rlwe.ParameterProvider {
	switch e.Scheme {
	case "bgv":
		return e.BGV
	case "ckks":
		return e.CKKS
	}
	return e.RLWE
}

// MaxLevel of the Q chain.
func (e *Env) MaxLevel() int { return e.RLWE.MaxLevel() }

var (
	envMu    sync.Mutex
	envCache = map[string]*Env{}
)

// EnvNames lists the environments available to a tier.
func EnvNames(tier string) []string {
	// bgv-1p: one special prime (single-P gadget product / RGSW paths); rlwe-pow2: one special prime and
	// a power-of-two gadget decomposition
	// ckks-prec: the ckks encoder (stand-alone and inside the evaluator) in arbitrary precision (128 bits):
	// big.Float / bignum.Complex scratch buffers and the embedArbitrary / big-number FFT code paths
	// ckks-ci: CKKS over the conjugate-invariant ring Z[X+X^-1]/(X^2N+1) (real slots only, NthRoot = 4N)
	n := []string{"bgv", "bfv", "ckks", "rlwe", "rlwe-coef", "bgv-1p", "rlwe-pow2", "ckks-prec", "ckks-ci", "ckks-1p", "ckks-deep", "bgv-deep"}
	_ = tier // every environment is part of both tiers; the tiers differ in the depth of the receiver histories
	return n
}

// LogN of the tiny universe.
const LogN = 4

// GetEnv builds (once per process) the named environment. The keys are generated under a fixed
// PRNG seed that depends only on the name, so every process sees the same keys; callers must
// (re-)seed after GetEnv returns.
func GetEnv(name string) *Env {
	envMu.Lock()
	defer envMu.Unlock()
	if e, ok := envCache[name]; ok {
		return e
	}
	sampling.VerifSeed(0xC09<<32 | uint64(len(name))<<8 | uint64(name[0]))
	e := &Env{Name: name}
	// Q: four primes of unequal size (55,45,40,36 bits) so that digit counts / overflow margins differ
	// per level; P: two 56-bit primes (or one, "-1p": the single-P gadget product path).
	q := []uint64{uni.Primes(LogN, 55, 1)[0], uni.Primes(LogN, 45, 1)[0], uni.Primes(LogN, 40, 1)[0], uni.Primes(LogN, 36, 1)[0]}
	p := uni.Primes(LogN, 56, 2)
	pow2 := 0
	switch name {
	case "bgv-1p", "ckks-1p":
		p = p[:1]
	case "rlwe-pow2":
		p = p[:1]
		pow2 = 16
	}
	var err error
	switch name {
	case "bgv", "bfv", "bgv-1p", "bgv-deep":
		e.Scheme = "bgv"
		if name == "bgv-deep" { // six levels: polynomials of degree up to 31 (Paterson-Stockmeyer splits)
			q = append(q, uni.PrimesSkip(LogN, 40, 2, 1)...)
		}
		e.ScaleInvariant = name == "bfv"
		e.BGV, err = bgv.NewParametersFromLiteral(bgv.ParametersLiteral{LogN: LogN, Q: q, P: p, PlaintextModulus: 97})
		if err == nil {
			e.RLWE = e.BGV.Parameters
		}
	case "ckks", "ckks-1p", "ckks-prec", "ckks-ci", "ckks-deep":
		e.Scheme = "ckks"
		if name == "ckks-prec" {
			e.Prec = 128
		}
		// q0 55 bits, then three 40-bit primes: LogDefaultScale 40 rescales exactly one prime per level
		nq := 3
		if name == "ckks-deep" { // six levels: polynomials of degree up to 31 (Paterson-Stockmeyer splits)
			nq = 5
		}
		cq := append([]uint64{q[0]}, uni.Primes(LogN, 40, nq)...)
		rt := ring.Standard
		if name == "ckks-ci" {
			rt = ring.ConjugateInvariant
		}
		e.CKKS, err = ckks.NewParametersFromLiteral(ckks.ParametersLiteral{LogN: LogN, Q: cq, P: p, LogDefaultScale: 40, RingType: rt})
		if err == nil {
			e.RLWE = e.CKKS.Parameters
		}
	case "rlwe", "rlwe-pow2":
		e.Scheme = "rlwe"
		e.RLWE, err = rlwe.NewParametersFromLiteral(rlwe.ParametersLiteral{LogN: LogN, Q: q, P: p, NTTFlag: true})
	case "rlwe-coef":
		e.Scheme = "rlwe"
		e.RLWE, err = rlwe.NewParametersFromLiteral(rlwe.ParametersLiteral{LogN: LogN, Q: q, P: p, NTTFlag: false})
	default:
		panic("optable: unknown env " + name)
	}
	if err != nil {
		panic(fmt.Sprintf("optable.GetEnv(%s): %v", name, err))
	}
	kg := rlwe.NewKeyGenerator(e.RLWE)
	e.SK, e.PK = kg.GenKeyPairNew()
	e.SK2 = kg.GenSecretKeyNew()
	var evkp []rlwe.EvaluationKeyParameters
	if pow2 != 0 {
		evkp = []rlwe.EvaluationKeyParameters{{BaseTwoDecomposition: &pow2}}
	}
	rlk := kg.GenRelinearizationKeyNew(e.SK, evkp...)
	// every non-trivial Galois element of Z_{2N}^*: all rotations, conjugation, traces are available
	n2 := uint64(e.RLWE.RingQ().NthRoot())
	if e.RLWE.RingType() == ring.ConjugateInvariant {
		// the automorphisms of the conjugate-invariant ring are the rotations X -> X^(5^k) only
		seen := map[uint64]bool{1: true}
		for k := 1; k < e.RLWE.N(); k++ {
			if g := e.RLWE.GaloisElement(k); !seen[g] {
				seen[g] = true
				e.GalEls = append(e.GalEls, g)
			}
		}
	} else {
		for g := uint64(3); g < n2; g += 2 {
			e.GalEls = append(e.GalEls, g)
		}
	}
	gks := kg.GenGaloisKeysNew(e.GalEls, e.SK, evkp...)
	e.Evk = rlwe.NewMemEvaluationKeySet(rlk, gks...)
	e.Swk = kg.GenEvaluationKeyNew(e.SK, e.SK2, evkp...)
	envCache[name] = e
	return e
}

// ---------------------------------------------------------------------------------------------
// deterministic content

// Gen is a splitmix64 stream: operand content is a pure function of the label it was created with.
type Gen struct{ s uint64 }

// NewGen returns a generator for the given label.
func NewGen(parts ...interface{}) *Gen {
	h := uint64(0xcbf29ce484222325)
	for _, b := range []byte(fmt.Sprint(parts...)) {
		h = (h ^ uint64(b)) * 0x100000001b3
	}
	return &Gen{h}
}

// U64 returns the next word.
func (g *Gen) U64() uint64 {
	g.s += 0x9E3779B97F4A7C15
	x := g.s
	x = (x ^ x>>30) * 0xBF58476D1CE4E5B9
	x = (x ^ x>>27) * 0x94D049BB133111EB
	return x ^ x>>31
}

// FillPoly fills p (all its rows) with residues uniform-looking modulo the moduli of r.
func (g *Gen) FillPoly(r *ring.Ring, p ring.Poly) {
	for i := range p.Coeffs {
		q := r.SubRings[i].Modulus
		row := p.Coeffs[i]
		for j := range row {
			row[j] = g.U64() % q
		}
	}
}

// FillPolyQP fills a QP polynomial.
func (g *Gen) FillPolyQP(r *ringqp.Ring, p ringqp.Poly) {
	if p.Q.Coeffs != nil {
		g.FillPoly(r.RingQ, p.Q)
	}
	if p.P.Coeffs != nil {
		g.FillPoly(r.RingP, p.P)
	}
}

// Poly returns a new polynomial at the given level with pseudo-random residues.
func (g *Gen) Poly(r *ring.Ring, level int) ring.Poly {
	p := r.AtLevel(level).NewPoly()
	g.FillPoly(r, p)
	return p
}

// Ct returns a ciphertext-shaped object (degree, level) with pseudo-random residues and the
// scheme's default metadata. The operations under test are algebraic functions of the residues:
// they do not need the content to be a valid encryption.
func (g *Gen) Ct(e *Env, degree, level int) *rlwe.Ciphertext {
	var ct *rlwe.Ciphertext
	switch e.Scheme {
	case "bgv":
		ct = bgv.NewCiphertext(e.BGV, degree, level)
	case "ckks":
		ct = ckks.NewCiphertext(e.CKKS, degree, level)
	default:
		ct = rlwe.NewCiphertext(e.RLWE, degree, level)
	}
	for i := range ct.Value {
		g.FillPoly(e.RLWE.RingQ(), ct.Value[i])
	}
	return ct
}

// Pt returns a plaintext at level with pseudo-random residues and default metadata.
func (g *Gen) Pt(e *Env, level int) *rlwe.Plaintext {
	var pt *rlwe.Plaintext
	switch e.Scheme {
	case "bgv":
		pt = bgv.NewPlaintext(e.BGV, level)
	case "ckks":
		pt = ckks.NewPlaintext(e.CKKS, level)
	default:
		pt = rlwe.NewPlaintext(e.RLWE, level)
	}
	g.FillPoly(e.RLWE.RingQ(), pt.Value)
	return pt
}

// BGVScale returns a bgv scale (unit mod t) different from the default scale.
func (e *Env) BGVScale(v uint64) rlwe.Scale { return e.BGV.NewScale(v) }

// CKKSScale returns 2^log2 * mul as a ckks scale.
func (e *Env) CKKSScale(log2 int, mul float64) rlwe.Scale {
	f := new(big.Float).SetPrec(128).SetMantExp(big.NewFloat(mul), log2)
	return rlwe.NewScale(f)
}

// DirtyMeta gives an output object the metadata "of another previous result": a different
// (admissible) scale, different logical dimensions, the batched flag flipped.
func (e *Env) DirtyMeta(m *rlwe.MetaData) {
	if m == nil {
		return
	}
	switch e.Scheme {
	case "bgv":
		m.Scale = e.BGVScale(29)
	case "ckks":
		m.Scale = e.CKKSScale(33, 1.25)
	default:
		m.Scale = rlwe.NewScale(12345)
	}
	m.LogDimensions = ring.Dimensions{Rows: 0, Cols: 1}
	m.IsBatched = !m.IsBatched
}

// ---------------------------------------------------------------------------------------------
// companion ring of twice the degree (ring-degree switching: Y = X^{N/n})

// LargeRing is the companion of an rlwe environment: same moduli, LogN+1, with a secret key and the two
// evaluation keys small<->large generated by the key generator of the large ring.
type LargeRing struct {
	Params       rlwe.Parameters
	SK           *rlwe.SecretKey
	SmallToLarge *rlwe.EvaluationKey // skSmall -> skLarge
	LargeToSmall *rlwe.EvaluationKey // skLarge -> skSmall
}

var (
	largeMu    sync.Mutex
	largeCache = map[string]*LargeRing{}
)

// Large returns (building it once per process, under a fixed PRNG seed) the companion ring of e.
func (e *Env) Large() *LargeRing { return e.large(e.RLWE.RingType(), "") }

// Standard returns the standard ring of twice the degree of a conjugate-invariant environment
// (Z[X+X^-1]/(X^2N+1) embeds into Z[X]/(X^2N+1)).
func (e *Env) Standard() *LargeRing { return e.large(ring.Standard, "/std") }

func (e *Env) large(rt ring.Type, tag string) *LargeRing {
	largeMu.Lock()
	defer largeMu.Unlock()
	if l, ok := largeCache[e.Name+tag]; ok {
		return l
	}
	sampling.VerifSeed(0xC09AA<<24 | uint64(len(e.Name)+len(tag)))
	p, err := rlwe.NewParametersFromLiteral(rlwe.ParametersLiteral{LogN: LogN + 1, Q: e.RLWE.Q(), P: e.RLWE.P(), NTTFlag: e.RLWE.NTTFlag(), RingType: rt})
	if err != nil {
		panic(fmt.Sprintf("optable.Large(%s): %v", e.Name, err))
	}
	kg := rlwe.NewKeyGenerator(p)
	l := &LargeRing{Params: p, SK: kg.GenSecretKeyNew()}
	if tag == "" {
		l.SmallToLarge = kg.GenEvaluationKeyNew(e.SK, l.SK)
		l.LargeToSmall = kg.GenEvaluationKeyNew(l.SK, e.SK)
	}
	largeCache[e.Name+tag] = l
	return l
}

// CtN returns a ciphertext-shaped object with pseudo-random residues in the given parameters.
func (g *Gen) CtN(p rlwe.Parameters, degree, level int) *rlwe.Ciphertext {
	ct := rlwe.NewCiphertext(p, degree, level)
	for i := range ct.Value {
		g.FillPoly(p.RingQ(), ct.Value[i])
	}
	return ct
}

// ---------------------------------------------------------------------------------------------
// ring packing keys (rings of degree N and 2N over the environment's moduli)

// RingPack holds the evaluation keys of a rlwe.RingPackingEvaluator over LogN and LogN+1.
type RingPack struct {
	Key          *rlwe.RingPackingEvaluationKey
	Small, Large rlwe.Parameters
}

var (
	rpMu    sync.Mutex
	rpCache = map[string]*RingPack{}
)

// RingPack returns (building it once per process, under a fixed PRNG seed) the ring packing keys of e.
func (e *Env) RingPack() *RingPack {
	rpMu.Lock()
	defer rpMu.Unlock()
	if r, ok := rpCache[e.Name]; ok {
		return r
	}
	sampling.VerifSeed(0xC09BB<<24 | uint64(len(e.Name)))
	large, err := rlwe.NewParametersFromLiteral(rlwe.ParametersLiteral{LogN: LogN + 1, Q: e.RLWE.Q(), P: e.RLWE.P(), NTTFlag: e.RLWE.NTTFlag()})
	if err != nil {
		panic(err)
	}
	sk := rlwe.NewKeyGenerator(large).GenSecretKeyNew()
	lq, lp := large.MaxLevelQ(), large.MaxLevelP()
	evkp := rlwe.EvaluationKeyParameters{LevelQ: &lq, LevelP: &lp}
	key := &rlwe.RingPackingEvaluationKey{}
	ski, err := key.GenRingSwitchingKeys(large, sk, LogN, evkp)
	if err != nil {
		panic(err)
	}
	for _, ln := range []int{LogN, LogN + 1} {
		key.GenRepackEvaluationKeys(key.Parameters[ln], ski[ln], evkp)
		key.GenExtractEvaluationKeys(key.Parameters[ln], ski[ln], evkp)
	}
	r := &RingPack{Key: key, Small: *key.Parameters[LogN].GetRLWEParameters(), Large: large}
	rpCache[e.Name] = r
	return r
}
