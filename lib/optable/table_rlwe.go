package optable

import (
	"reflect"

	"github.com/tuneinsight/lattigo/v6/core/rlwe"
	"github.com/tuneinsight/lattigo/v6/ring"
	"github.com/tuneinsight/lattigo/v6/ring/ringqp"
	"github.com/tuneinsight/lattigo/v6/schemes/bgv"
	"github.com/tuneinsight/lattigo/v6/schemes/ckks"
)

// ---------------------------------------------------------------------------------------------
// rlwe.Evaluator (core/rlwe/evaluator.go, evaluator_automorphism.go, evaluator_evaluationkey.go,
// evaluator_gadget_product.go, inner_sum.go). Under the "bgv"/"ckks" environments the receiver is the
// *rlwe.Evaluator embedded in a scheme evaluator (same code, the scheme's parameters).

type rlweE = *rlwe.Evaluator

// polyPair is the output of DecomposeSingleNTT (two receiver polynomials).
type polyPair struct{ Q, P ring.Poly }

func asQP(x interface{}) *rlwe.Element[ringqp.Poly] { return x.(*rlwe.Element[ringqp.Poly]) }

func newRLWEEvaluator(e *Env) interface{} {
	switch e.Scheme {
	case "bgv":
		return bgv.NewEvaluator(e.BGV, e.Evk, e.ScaleInvariant).Evaluator
	case "ckks":
		return ckks.NewEvaluator(e.CKKS, e.Evk).Evaluator
	}
	return rlwe.NewEvaluator(e.RLWE, e.Evk)
}

// qpOut is an output element mod QP of degree 1 at (level of the ciphertext input, max level P).
func qpOut(ctArg int) *OutSpec {
	return &OutSpec{Shapes: []Shape{ShapeDirtyWords}, New: func(e *Env, in []interface{}, dDeg, dLvl int) interface{} {
		l := e.MaxLevel()
		if ctArg >= 0 {
			_, l = degLvl(in[ctArg])
		} else {
			l = in[0].(int)
		}
		if l+dLvl < 0 || l+dLvl > e.MaxLevel() {
			return nil
		}
		el := rlwe.NewElementExtended(e.RLWE, 1+dDeg, l+dLvl, e.RLWE.MaxLevelP())
		return el
	}}
}

func rlweEvaluatorTarget() *Target {
	galA := func(e *Env) uint64 { return e.RLWE.GaloisElement(1) }
	galB := func(e *Env) uint64 { return e.RLWE.RingQ().NthRoot() - 1 }
	ctK := []Kind{ctKind("ct1", 1, 0, nil), ctKind("ct1/level", 1, -1, nil)}
	same := func(d0, _ int) int { return d0 }
	with := func(ks []Kind, label string, names []string, extra func(e *Env, g *Gen, ct *rlwe.Ciphertext) []interface{}) []Kind {
		var r []Kind
		for _, k := range ks {
			k := k
			r = append(r, Kind{Name: k.Name + label, Class: "ct", Names: names, Make: func(e *Env, g *Gen) []interface{} {
				in := k.Make(e, g)
				return append(in, extra(e, g, asCt(in[0]))...)
			}})
		}
		return r
	}
	gal := func(name string, f func(e *Env) uint64) []Kind {
		return with(ctK, "/galEl="+name, []string{"ctIn", "galEl"}, func(e *Env, g *Gen, ct *rlwe.Ciphertext) []interface{} { return []interface{}{f(e)} })
	}
	galK := append(append(gal("5", galA), gal("-1", galB)...), gal("1", func(*Env) uint64 { return 1 })...)
	// hoisted: (level, ctIn, decomposition, galEl)
	hoistK := func(f func(e *Env) uint64, name string) []Kind {
		var r []Kind
		for _, k := range ctK {
			k := k
			r = append(r, Kind{Name: k.Name + "/galEl=" + name, Class: "ct", Names: []string{"level", "ctIn", "c1DecompQP", "galEl"}, Make: func(e *Env, g *Gen) []interface{} {
				ct := asCt(k.Make(e, g)[0])
				return []interface{}{ct.Level(), ct, decompOf(e, ct), f(e)}
			}})
		}
		return r
	}
	hK := append(hoistK(galA, "5"), hoistK(galB, "-1")...)
	with2Int := func(ks []Kind, pairs ...[2]int) []Kind {
		var r []Kind
		for _, k := range ks {
			for _, p := range pairs {
				k, p := k, p
				r = append(r, Kind{Name: k.Name + "/a=" + itoa(p[0]) + ",n=" + itoa(p[1]), Class: "ct", Names: []string{"ctIn", "batchSize", "n"},
					Make: func(e *Env, g *Gen) []interface{} { return append(k.Make(e, g), p[0], p[1]) }})
			}
		}
		return r
	}
	rlkGadget := func(e *Env) *rlwe.GadgetCiphertext { return &e.Evk.RelinearizationKey.GadgetCiphertext }
	// (levelQ, cx, gadgetCt)
	gpK := []Kind{
		{Name: "poly/L", Class: "poly", Names: []string{"levelQ", "cx", "gadgetCt"}, Make: func(e *Env, g *Gen) []interface{} {
			return []interface{}{e.MaxLevel(), g.Poly(e.RLWE.RingQ(), e.MaxLevel()), rlkGadget(e)}
		}},
		{Name: "poly/L-1", Class: "poly", Names: []string{"levelQ", "cx", "gadgetCt"}, Make: func(e *Env, g *Gen) []interface{} {
			return []interface{}{e.MaxLevel() - 1, g.Poly(e.RLWE.RingQ(), e.MaxLevel()-1), rlkGadget(e)}
		}},
	}
	// (levelQ, decomposition, gadgetCt)
	gphK := []Kind{
		{Name: "decomp/L", Class: "decomp", Names: []string{"levelQ", "BuffQPDecompQP", "gadgetCt"}, Make: func(e *Env, g *Gen) []interface{} {
			ct := g.Ct(e, 1, e.MaxLevel())
			return []interface{}{e.MaxLevel(), decompOf(e, ct), rlkGadget(e)}
		}},
		{Name: "decomp/L-1", Class: "decomp", Names: []string{"levelQ", "BuffQPDecompQP", "gadgetCt"}, Make: func(e *Env, g *Gen) []interface{} {
			ct := g.Ct(e, 1, e.MaxLevel()-1)
			return []interface{}{e.MaxLevel() - 1, decompOf(e, ct), rlkGadget(e)}
		}},
	}
	ctAtLevelArg := &OutSpec{Shapes: []Shape{ShapeDirtyWords}, New: func(e *Env, in []interface{}, dDeg, dLvl int) interface{} {
		return e.NewCt(1+dDeg, in[0].(int)+dLvl)
	}}
	hoistedOut := &OutSpec{Shapes: allShapes, New: func(e *Env, in []interface{}, dDeg, dLvl int) interface{} {
		return e.NewCt(1+dDeg, in[0].(int)+dLvl)
	}}
	addF := func(e *Env) func(a, b, c *rlwe.Ciphertext) error {
		return func(a, b, c *rlwe.Ciphertext) error {
			r := e.RLWE.RingQ().AtLevel(minInt(c.Level(), minInt(a.Level(), b.Level())))
			for i := 0; i < 2; i++ { // degree-1 operands by the method's contract
				r.Add(a.Value[i], b.Value[i], c.Value[i])
			}
			return nil
		}
	}

	t := &Target{
		Name: "rlwe.Evaluator", Envs: []string{"rlwe", "rlwe-coef", "rlwe-pow2", "bgv", "ckks", "ckks-ci"},
		Type:   reflect.TypeOf(&rlwe.Evaluator{}),
		New:    newRLWEEvaluator,
		Shared: func(e *Env) []interface{} { return []interface{}{e.Evk} },
		NotTabled: map[string]string{
			"AutomorphismIndex": "accessor returning internal state", "CheckAndGetGaloisKey": "accessor (key lookup)",
			"CheckAndGetRelinearizationKey": "accessor (key lookup)", "GetBuffCt": "accessor", "GetBuffDecompQP": "accessor", "GetBuffQP": "accessor",
			"GetEvaluatorBuffer": "accessor", "GetRLWEParameters": "accessor", "ShallowCopy": "copy constructor (C10)", "WithKey": "copy constructor (C10)",
			"GetGaloisKey": "promoted accessor of the key set", "GetGaloisKeysList": "promoted accessor of the key set", "GetRelinearizationKey": "promoted accessor of the key set",
		},
	}
	t.Rows = []Row{
		{Method: "ApplyEvaluationKey", Doc: "re-encrypts ctIn under a different key and returns the result in opOut; error if degrees != 1",
			Kinds: with(ctK, "-evk", []string{"ctIn", "evk"}, func(e *Env, g *Gen, ct *rlwe.Ciphertext) []interface{} { return []interface{}{e.Swk} }),
			Out:   ctOut(same, allShapes),
			Call: func(rcv interface{}, in []interface{}, o interface{}) (interface{}, error) {
				return o, rcv.(rlweE).ApplyEvaluationKey(asCt(in[0]), in[1].(*rlwe.EvaluationKey), asCt(o))
			}},
		{Method: "Automorphism", Doc: "computes phi(ct), where phi is the map X -> X^galEl; error if degrees != 1", Kinds: galK, Out: ctOut(same, allShapes),
			Call: func(rcv interface{}, in []interface{}, o interface{}) (interface{}, error) {
				return o, rcv.(rlweE).Automorphism(asCt(in[0]), in[1].(uint64), asCt(o))
			}},
		{Method: "AutomorphismHoisted", Doc: "similar to Automorphism, except that it takes as input ctIn and c1DecompQP (from DecomposeNTT)", Kinds: hK,
			Out: hoistedOut,
			Call: func(rcv interface{}, in []interface{}, o interface{}) (interface{}, error) {
				return o, rcv.(rlweE).AutomorphismHoisted(in[0].(int), asCt(in[1]), in[2].([]ringqp.Poly), in[3].(uint64), asCt(o))
			}},
		{Method: "AutomorphismHoistedLazy", Doc: "similar to AutomorphismHoisted, except that it returns a ciphertext modulo QP and scaled by P", Kinds: hK,
			Out: qpOut(1),
			Call: func(rcv interface{}, in []interface{}, o interface{}) (interface{}, error) {
				return o, rcv.(rlweE).AutomorphismHoistedLazy(in[0].(int), asCt(in[1]), in[2].([]ringqp.Poly), in[3].(uint64), asQP(o))
			}},
		unRow("Relinearize", rlweE.Relinearize, []Kind{ctKind("ct2", 2, 0, nil), ctKind("ct2/level", 2, -1, nil)}, ctOut(degOne, allShapes),
			"Relinearize applies the relinearization procedure on ct0 and returns the result in opOut"),
		{Method: "GadgetProduct", Doc: "evaluates poly x Gadget -> RLWE; ct = [<decomp(cx), gadget[0]>, <decomp(cx), gadget[1]>] mod Q", Kinds: gpK, Out: ctAtLevelArg,
			Call: func(rcv interface{}, in []interface{}, o interface{}) (interface{}, error) {
				rcv.(rlweE).GadgetProduct(in[0].(int), in[1].(ring.Poly), in[2].(*rlwe.GadgetCiphertext), asCt(o))
				return o, nil
			}},
		{Method: "GadgetProductLazy", Doc: "evaluates poly x Gadget -> RLWE mod QP; error if ctQP.Level() < gadgetCt.Level()", Kinds: gpK, Out: qpOut(-1),
			Call: func(rcv interface{}, in []interface{}, o interface{}) (interface{}, error) {
				return o, rcv.(rlweE).GadgetProductLazy(in[0].(int), in[1].(ring.Poly), in[2].(*rlwe.GadgetCiphertext), asQP(o))
			}},
		{Method: "GadgetProductHoisted", Doc: "applies the key-switch to the decomposed polynomial c2 mod QP and divides the result by P", Kinds: gphK, Out: ctAtLevelArg,
			Call: func(rcv interface{}, in []interface{}, o interface{}) (interface{}, error) {
				rcv.(rlweE).GadgetProductHoisted(in[0].(int), in[1].([]ringqp.Poly), in[2].(*rlwe.GadgetCiphertext), asCt(o))
				return o, nil
			}},
		{Method: "GadgetProductHoistedLazy", Doc: "applies the gadget product to the decomposed polynomial c2 mod QP, result mod QP", Kinds: gphK, Out: qpOut(-1),
			Call: func(rcv interface{}, in []interface{}, o interface{}) (interface{}, error) {
				return o, rcv.(rlweE).GadgetProductHoistedLazy(in[0].(int), in[1].([]ringqp.Poly), in[2].(*rlwe.GadgetCiphertext), asQP(o))
			}},
		{Method: "ModDown", Doc: "ModDown takes ctQP (mod QP) and returns ct = (ctQP/P) (mod Q)",
			Kinds: []Kind{{Name: "qp/L", Class: "qp", Names: []string{"levelQ", "levelP", "ctQP"}, Make: func(e *Env, g *Gen) []interface{} {
				el := rlwe.NewElementExtended(e.RLWE, 1, e.MaxLevel(), e.RLWE.MaxLevelP())
				for i := range el.Value {
					g.FillPolyQP(e.RLWE.RingQP(), el.Value[i])
				}
				return []interface{}{e.MaxLevel(), e.RLWE.MaxLevelP(), el}
			}}},
			Out: ctAtLevelArg,
			Call: func(rcv interface{}, in []interface{}, o interface{}) (interface{}, error) {
				rcv.(rlweE).ModDown(in[0].(int), in[1].(int), asQP(in[2]), asCt(o))
				return o, nil
			}},
		{Method: "ModDownQPtoQNTT", Doc: "wrapper of BasisExtender.ModDownQPtoQNTT: p2Q = (p1Q,p1P)/P",
			Kinds: []Kind{{Name: "polys/L", Class: "polys", Names: []string{"levelQ", "levelP", "p1Q", "p1P"}, Make: func(e *Env, g *Gen) []interface{} {
				return []interface{}{e.MaxLevel(), e.RLWE.MaxLevelP(), g.Poly(e.RLWE.RingQ(), e.MaxLevel()), g.Poly(e.RLWE.RingP(), e.RLWE.MaxLevelP())}
			}}},
			Out: &OutSpec{Shapes: []Shape{ShapeDirtyWords}, New: func(e *Env, in []interface{}, _, dLvl int) interface{} {
				if dLvl != 0 {
					return nil
				}
				return e.RLWE.RingQ().NewPoly()
			}},
			Call: func(rcv interface{}, in []interface{}, o interface{}) (interface{}, error) {
				rcv.(rlweE).ModDownQPtoQNTT(in[0].(int), in[1].(int), in[2].(ring.Poly), in[3].(ring.Poly), o.(ring.Poly))
				return o, nil
			}},
		{Method: "DecomposeNTT", Doc: "applies the full RNS basis decomposition on c2; expects the IsNTT flag to reflect the domain of c2; result in decompQP",
			Kinds: []Kind{
				{Name: "poly/ntt", Class: "poly", Names: []string{"levelQ", "levelP", "nbPi", "c2", "c2IsNTT"}, Make: func(e *Env, g *Gen) []interface{} {
					return []interface{}{e.MaxLevel(), e.RLWE.MaxLevelP(), e.RLWE.PCount(), g.Poly(e.RLWE.RingQ(), e.MaxLevel()), true}
				}},
				{Name: "poly/coef/L-1", Class: "poly", Names: []string{"levelQ", "levelP", "nbPi", "c2", "c2IsNTT"}, Make: func(e *Env, g *Gen) []interface{} {
					return []interface{}{e.MaxLevel() - 1, e.RLWE.MaxLevelP(), e.RLWE.PCount(), g.Poly(e.RLWE.RingQ(), e.MaxLevel()-1), false}
				}}},
			Out: &OutSpec{Shapes: []Shape{ShapeDirtyWords}, New: func(e *Env, in []interface{}, _, dLvl int) interface{} {
				if dLvl != 0 {
					return nil
				}
				n := e.RLWE.BaseRNSDecompositionVectorSize(e.MaxLevel(), e.RLWE.MaxLevelP())
				d := make([]ringqp.Poly, n)
				for i := range d {
					d[i] = e.RLWE.RingQP().NewPoly()
				}
				return d
			}},
			Call: func(rcv interface{}, in []interface{}, o interface{}) (interface{}, error) {
				rcv.(rlweE).DecomposeNTT(in[0].(int), in[1].(int), in[2].(int), in[3].(ring.Poly), in[4].(bool), o.([]ringqp.Poly))
				// only the first BaseRNSDecompositionVectorSize(levelQ, levelP) entries are the result
				n := rcv.(rlweE).GetRLWEParameters().BaseRNSDecompositionVectorSize(in[0].(int), in[1].(int))
				return levelSlice(o.([]ringqp.Poly)[:n], in[0].(int)), nil
			}},
		{Method: "DecomposeSingleNTT", Doc: "takes c2 (NTT and non-NTT form) and returns the i-th digit on c2QiQ and c2QiP (in the NTT domain)",
			Kinds: []Kind{{Name: "polys/digit1", Class: "polys", Names: []string{"levelQ", "levelP", "nbPi", "i", "c2NTT", "c2InvNTT"}, Make: func(e *Env, g *Gen) []interface{} {
				r := e.RLWE.RingQ()
				inv := g.Poly(r, e.MaxLevel())
				ntt := r.NewPoly()
				r.NTT(inv, ntt)
				return []interface{}{e.MaxLevel(), e.RLWE.MaxLevelP(), e.RLWE.PCount(), 1, ntt, inv}
			}}},
			Out: &OutSpec{Shapes: []Shape{ShapeDirtyWords}, New: func(e *Env, in []interface{}, _, dLvl int) interface{} {
				if dLvl != 0 {
					return nil
				}
				return &polyPair{e.RLWE.RingQ().NewPoly(), e.RLWE.RingP().NewPoly()}
			}},
			Call: func(rcv interface{}, in []interface{}, o interface{}) (interface{}, error) {
				p := o.(*polyPair)
				rcv.(rlweE).DecomposeSingleNTT(in[0].(int), in[1].(int), in[2].(int), in[3].(int), in[4].(ring.Poly), in[5].(ring.Poly), p.Q, p.P)
				return o, nil
			}},
		{Method: "InnerFunction", Doc: "applies a user-defined bilinear function f on the rotations of ctIn (log2(n)+HW(n) rotations), result in opOut",
			Kinds: func() []Kind {
				var r []Kind
				for _, k := range with2Int(ctK[:1], [2]int{1, 3}, [2]int{2, 4}, [2]int{1, 1}) {
					k := k
					r = append(r, Kind{Name: k.Name, Class: "ct", Names: []string{"ctIn", "batchSize", "n", "f"}, Make: func(e *Env, g *Gen) []interface{} { return append(k.Make(e, g), addF(e)) }})
				}
				return r
			}(),
			Out: ctOut(same, allShapes),
			Call: func(rcv interface{}, in []interface{}, o interface{}) (interface{}, error) {
				return o, rcv.(rlweE).InnerFunction(asCt(in[0]), in[1].(int), in[2].(int), in[3].(func(a, b, c *rlwe.Ciphertext) error), asCt(o))
			}},
		int2Row("PartialTracesSum", rlweE.PartialTracesSum, with2Int(ctK, [2]int{1, 3}, [2]int{2, 4}, [2]int{3, 1}, [2]int{1, 7}), ctOut(same, allShapes),
			"applies a set of automorphisms on the input ciphertext and sum the results, opOut = sum phi(i*offset, ctIn)"),
		int2Row("Replicate", rlweE.Replicate, with2Int(ctK, [2]int{1, 3}, [2]int{2, 4}), ctOut(same, allShapes),
			"Replicate applies an optimized replication on the Ciphertext, result in opOut"),
		intRow("Trace", rlweE.Trace, func() []Kind {
			var r []Kind
			for _, k := range ctK {
				for _, v := range []int{0, 2, LogN - 1} {
					k, v := k, v
					r = append(r, Kind{Name: k.Name + "/logN=" + itoa(v), Class: "ct", Names: []string{"ctIn", "logN"}, Make: func(e *Env, g *Gen) []interface{} { return append(k.Make(e, g), v) }})
				}
			}
			return r
		}(), ctOut(same, allShapes), "Trace maps X -> sum((-1)^i * X^{i*n+1}) for n <= i < N; error if the input and output ciphertexts degree is not one"),
		{Method: "InitOutputBinaryOp", Doc: "initializes the output Element opOut for receiving the result of a binary operation (updates opOut's metadata)",
			Kinds: []Kind{{Name: "ct1,pt", Class: "ct-pt", Names: []string{"op0", "op1", "opInTotalMaxDegree"}, Make: func(e *Env, g *Gen) []interface{} {
				a, b := g.Ct(e, 1, e.MaxLevel()), g.Pt(e, e.MaxLevel()-1)
				a.LogDimensions, b.LogDimensions = ring.Dimensions{Rows: 1, Cols: 2}, ring.Dimensions{Rows: 0, Cols: 3}
				return []interface{}{&a.Element, &b.Element, 2}
			}}},
			Out: &OutSpec{Shapes: []Shape{ShapeDirtyWords, ShapeDirtyMeta}, New: func(e *Env, in []interface{}, dDeg, dLvl int) interface{} {
				_, l0 := degLvl(in[0])
				_, l1 := degLvl(in[1])
				if ct := e.NewCt(1+dDeg, minInt(l0, l1)+dLvl); ct != nil {
					return &ct.Element
				}
				return nil
			}},
			Call: func(rcv interface{}, in []interface{}, o interface{}) (interface{}, error) {
				d, l, err := rcv.(rlweE).InitOutputBinaryOp(in[0].(*rlwe.Element[ring.Poly]), in[1].(*rlwe.Element[ring.Poly]), in[2].(int), o.(*rlwe.Element[ring.Poly]))
				m := o.(*rlwe.Element[ring.Poly]).MetaData
				// documented effect: IsNTT, IsBatched, LogDimensions of opOut; plus the returned pair
				return []interface{}{d, l, m.IsNTT, m.IsBatched, m.LogDimensions}, err
			}},
		{Method: "InitOutputUnaryOp", Doc: "initializes the output Element opOut for receiving the result of a unary operation (updates opOut's metadata)",
			Kinds: []Kind{{Name: "ct1", Class: "ct", Names: []string{"op0"}, Make: func(e *Env, g *Gen) []interface{} {
				a := g.Ct(e, 1, e.MaxLevel())
				a.LogDimensions = ring.Dimensions{Rows: 1, Cols: 2}
				return []interface{}{&a.Element}
			}}},
			Out: &OutSpec{Shapes: []Shape{ShapeDirtyWords, ShapeDirtyMeta}, New: func(e *Env, in []interface{}, dDeg, dLvl int) interface{} {
				if ct := e.NewCt(1+dDeg, e.MaxLevel()+dLvl); ct != nil {
					return &ct.Element
				}
				return nil
			}},
			Call: func(rcv interface{}, in []interface{}, o interface{}) (interface{}, error) {
				d, l, err := rcv.(rlweE).InitOutputUnaryOp(in[0].(*rlwe.Element[ring.Poly]), o.(*rlwe.Element[ring.Poly]))
				m := o.(*rlwe.Element[ring.Poly]).MetaData
				return []interface{}{d, l, m.IsNTT, m.IsBatched, m.LogDimensions}, err
			}},
	}
	return t
}

// levelSlice returns views of the polynomials restricted to levels 0..levelQ of Q (what an operation
// "at level levelQ" defines).
func levelSlice(ps []ringqp.Poly, levelQ int) []ringqp.Poly {
	out := make([]ringqp.Poly, len(ps))
	for i, p := range ps {
		out[i] = ringqp.Poly{Q: ring.Poly{Coeffs: p.Q.Coeffs[:levelQ+1]}, P: p.P}
	}
	return out
}
