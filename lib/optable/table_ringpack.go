package optable

import (
	"reflect"

	"github.com/tuneinsight/lattigo/v6/core/rlwe"
)

// ---------------------------------------------------------------------------------------------
// rlwe.RingPackingEvaluator (core/rlwe/ring_packing.go), over the rings of degree N=16 and 2N=32.

type splitOut struct{ Even, Odd *rlwe.Ciphertext }

// Metas implements MetaHolder.
func (s *splitOut) Metas() []*rlwe.MetaData { return []*rlwe.MetaData{s.Even.MetaData, s.Odd.MetaData} }

func ringPackingTarget() *Target {
	type E = *rlwe.RingPackingEvaluator
	ctAt := func(e *Env, g *Gen, large bool, dl int) *rlwe.Ciphertext {
		p := e.RingPack().Small
		if large {
			p = e.RingPack().Large
		}
		return g.CtN(p, 1, p.MaxLevel()+dl)
	}
	ctMap := func(e *Env, g *Gen, large bool, keys ...int) map[int]*rlwe.Ciphertext {
		m := map[int]*rlwe.Ciphertext{}
		for _, k := range keys {
			m[k] = ctAt(e, g, large, 0)
		}
		return m
	}
	t := &Target{
		Name: "rlwe.RingPackingEvaluator", Envs: []string{"rlwe", "rlwe-coef"},
		Type: reflect.TypeOf(&rlwe.RingPackingEvaluator{}),
		New:  func(e *Env) interface{} { return rlwe.NewRingPackingEvaluator(e.RingPack().Key) },
		Shared: func(e *Env) []interface{} {
			return []interface{}{e.RingPack().Key.RingSwitchingKeys, e.RingPack().Key.RepackKeys, e.RingPack().Key.ExtractKeys}
		},
		NotTabled: map[string]string{"ShallowCopy": "copy constructor (C10)", "MinLogN": "accessor", "MaxLogN": "accessor",
			"GenRingSwitchingKeys":    "key generation on the key object (promoted from *RingPackingEvaluationKey; populates the receiver by design)",
			"GenRepackEvaluationKeys": "same", "GenExtractEvaluationKeys": "same"},
	}
	t.Rows = []Row{
		{Method: "Split", NoAlias: "input and outputs live in rings of different degree",
			Doc: "splits a ciphertext of degree N into two ciphertexts of degree N/2: ctN[X] = ctEvenNHalf[Y] + X * ctOddNHalf[Y]",
			Kinds: []Kind{{Name: "ctN", Class: "ct", Names: []string{"ctN"}, Make: func(e *Env, g *Gen) []interface{} { return []interface{}{ctAt(e, g, true, 0)} }},
				{Name: "ctN/level", Class: "ct", Names: []string{"ctN"}, Make: func(e *Env, g *Gen) []interface{} { return []interface{}{ctAt(e, g, true, -1)} }}},
			Out: &OutSpec{Shapes: []Shape{ShapeDirtyWords, ShapeDirtyMeta}, New: func(e *Env, in []interface{}, dDeg, dLvl int) interface{} {
				if dDeg != 0 || dLvl != 0 {
					return nil
				}
				l := asCt(in[0]).Level()
				return &splitOut{rlwe.NewCiphertext(e.RingPack().Small, 1, l), rlwe.NewCiphertext(e.RingPack().Small, 1, l)}
			}},
			Call: func(rcv interface{}, in []interface{}, o interface{}) (interface{}, error) {
				s := o.(*splitOut)
				return []interface{}{s.Even, s.Odd}, rcv.(E).Split(asCt(in[0]), s.Even, s.Odd)
			}},
		{Method: "SplitNew", Doc: "splits a ciphertext of degree N into two new ciphertexts of degree N/2",
			Kinds: []Kind{{Name: "ctN", Class: "ct", Names: []string{"ctN"}, Make: func(e *Env, g *Gen) []interface{} { return []interface{}{ctAt(e, g, true, 0)} }}},
			Call: func(rcv interface{}, in []interface{}, o interface{}) (interface{}, error) {
				a, b, err := rcv.(E).SplitNew(asCt(in[0]))
				return []interface{}{a, b}, err
			}},
		{Method: "Merge", Doc: "merges two ciphertexts of degree N/2 into a ciphertext of degree N (on ctN)",
			Kinds: []Kind{{Name: "even,odd", Class: "ct", Names: []string{"ctEvenNHalf", "ctOddNHalf"}, Make: func(e *Env, g *Gen) []interface{} {
				return []interface{}{ctAt(e, g, false, 0), ctAt(e, g, false, 0)}
			}}, {Name: "even,odd/level", Class: "ct", Names: []string{"ctEvenNHalf", "ctOddNHalf"}, Make: func(e *Env, g *Gen) []interface{} {
				return []interface{}{ctAt(e, g, false, -1), ctAt(e, g, false, -1)}
			}}},
			Out: &OutSpec{Shapes: []Shape{ShapeDirtyWords, ShapeDirtyMeta, ShapeLargerLevel}, New: func(e *Env, in []interface{}, dDeg, dLvl int) interface{} {
				l := asCt(in[0]).Level() + dLvl
				if dDeg != 0 || l < 0 || l > e.MaxLevel() {
					return nil
				}
				return rlwe.NewCiphertext(e.RingPack().Large, 1, l)
			}},
			Call: func(rcv interface{}, in []interface{}, o interface{}) (interface{}, error) {
				return o, rcv.(E).Merge(asCt(in[0]), asCt(in[1]), asCt(o))
			}},
		{Method: "MergeNew", Doc: "merges two ciphertexts of degree N/2 into a new ciphertext of degree N",
			Kinds: []Kind{{Name: "even,odd", Class: "ct", Names: []string{"ctEvenNHalf", "ctOddNHalf"}, Make: func(e *Env, g *Gen) []interface{} {
				return []interface{}{ctAt(e, g, false, 0), ctAt(e, g, false, 0)}
			}}},
			Call: func(rcv interface{}, in []interface{}, o interface{}) (interface{}, error) {
				r, err := rcv.(E).MergeNew(asCt(in[0]), asCt(in[1]))
				if r == nil {
					return nil, err
				}
				return r, err
			}},
	}
	ext := func(name string, f func(E, *rlwe.Ciphertext, map[int]bool) (map[int]*rlwe.Ciphertext, error)) Row {
		return Row{Method: name, Doc: "takes a ciphertext encrypting P(X) = c[i] * X^i and returns a map of ciphertexts of degree MinLogN, each encrypting c[i] for i in idx",
			Kinds: []Kind{{Name: "ctN,idx", Class: "ct", Names: []string{"ct", "idx"}, Make: func(e *Env, g *Gen) []interface{} {
				return []interface{}{ctAt(e, g, true, 0), map[int]bool{0: true, 3: true, 17: true}}
			}}, {Name: "ctN/2,idx", Class: "ct", Names: []string{"ct", "idx"}, Make: func(e *Env, g *Gen) []interface{} {
				return []interface{}{ctAt(e, g, false, -1), map[int]bool{1: true, 6: true}}
			}}},
			Call: func(rcv interface{}, in []interface{}, o interface{}) (interface{}, error) {
				return f(rcv.(E), asCt(in[0]), in[1].(map[int]bool))
			}}
	}
	rep := func(name string, f func(E, map[int]*rlwe.Ciphertext) (*rlwe.Ciphertext, error)) Row {
		return Row{Method: name, Doc: "takes a map of ciphertexts and repacks the constant coefficient of each into a single ciphertext of degree MaxLogN following the indexing of the map",
			Kinds: []Kind{{Name: "cts(N/2)", Class: "cts", Names: []string{"cts"}, Make: func(e *Env, g *Gen) []interface{} {
				return []interface{}{ctMap(e, g, false, 0, 1, 4, 9)}
			}}, {Name: "cts(N)", Class: "cts", Names: []string{"cts"}, Make: func(e *Env, g *Gen) []interface{} {
				return []interface{}{ctMap(e, g, true, 0, 2, 5)}
			}}},
			Call: func(rcv interface{}, in []interface{}, o interface{}) (interface{}, error) {
				r, err := f(rcv.(E), in[0].(map[int]*rlwe.Ciphertext))
				if r == nil {
					return nil, err
				}
				return r, err
			}}
	}
	t.Rows = append(t.Rows,
		ext("Extract", E.Extract), ext("ExtractNaive", E.ExtractNaive), rep("Repack", E.Repack), rep("RepackNaive", E.RepackNaive),
		Row{Method: "Expand", Doc: "expands a RLWE Ciphertext encrypting P(X) = ci * X^i and returns a map of ciphertexts, each encrypting ci * X^0, for i divisible by 2^logGap",
			Kinds: []Kind{{Name: "ctN/2,logGap=1", Class: "ct", Names: []string{"ct", "logGap"}, Make: func(e *Env, g *Gen) []interface{} { return []interface{}{ctAt(e, g, false, 0), 1} }},
				{Name: "ctN,logGap=3", Class: "ct", Names: []string{"ct", "logGap"}, Make: func(e *Env, g *Gen) []interface{} { return []interface{}{ctAt(e, g, true, -1), 3} }}},
			Call: func(rcv interface{}, in []interface{}, o interface{}) (interface{}, error) {
				return rcv.(E).Expand(asCt(in[0]), in[1].(int))
			}},
		Row{Method: "Pack", Doc: "packs a map of ciphertexts, each encrypting ci * X^i, and returns a ciphertext encrypting the sum; zeroGarbageSlots: slots which are not multiples of X^{2^logGap} are zeroed",
			Kinds: []Kind{{Name: "cts(N/2),gap=2,zero", Class: "cts", Names: []string{"cts", "inputLogGap", "zeroGarbageSlots"}, Make: func(e *Env, g *Gen) []interface{} {
				return []interface{}{ctMap(e, g, false, 0, 1, 2, 3), 2, true}
			}}, {Name: "cts(N),gap=3", Class: "cts", Names: []string{"cts", "inputLogGap", "zeroGarbageSlots"}, Make: func(e *Env, g *Gen) []interface{} {
				return []interface{}{ctMap(e, g, true, 0, 2, 5), 3, false}
			}}},
			Call: func(rcv interface{}, in []interface{}, o interface{}) (interface{}, error) {
				r, err := rcv.(E).Pack(in[0].(map[int]*rlwe.Ciphertext), in[1].(int), in[2].(bool))
				if r == nil {
					return nil, err
				}
				return r, err
			}})
	return t
}
