package optable

import (
	"math/big"
	"reflect"

	"github.com/tuneinsight/lattigo/v6/utils/bignum"
)

// ---------------------------------------------------------------------------------------------
// bignum.Polynomial (utils/bignum/polynomial.go): Factorize / Evaluate / ChangeOfBasis / EvaluateModP.
// The polynomial is passed as an *input* (a pointer), so the inputs-intact oracle watches its coefficient
// objects (values of every big.Float, not only the pointers).

func bignumPolynomialTarget() *Target {
	poly := func(basis bignum.Basis, deg int, holes ...int) *bignum.Polynomial {
		g := NewGen("bignum.Polynomial", basis, deg)
		c := make([]*bignum.Complex, deg+1)
		for i := range c {
			c[i] = &bignum.Complex{bigF(float64(g.U64()%2000)/1000 - 1.0005), bigF(float64(g.U64()%2000)/1000 - 1.0005)}
		}
		for _, h := range holes {
			c[h] = nil
		}
		var interval interface{}
		if basis == bignum.Chebyshev {
			interval = [2]float64{-3, 5}
		}
		p := bignum.NewPolynomial(basis, c, interval)
		return &p
	}
	t := &Target{
		Name: "bignum.Polynomial", Envs: []string{"rlwe"}, NoScratch: true, // (the environment is only a label)
		Type:             reflect.TypeOf(&bignum.Polynomial{}),
		New:              func(e *Env) interface{} { return &envHolder{e} },
		DefaultNotTabled: "accessor (Degree, Depth) or copy constructor (Clone: C10)",
		NotTabled:        map[string]string{},
	}
	factK := func() []Kind {
		mk := func(name string, basis bignum.Basis, deg, n int, holes ...int) Kind {
			return Kind{Name: name, Class: "poly", Names: []string{"p", "n"}, Make: func(e *Env, g *Gen) []interface{} {
				return []interface{}{poly(basis, deg, holes...), n}
			}}
		}
		return []Kind{
			mk("cheb9/hole7,n=8", bignum.Chebyshev, 9, 8, 7),
			mk("cheb13/holes5,10,n=8", bignum.Chebyshev, 13, 8, 5, 10),
			mk("cheb17/holes15,6,1,n=16", bignum.Chebyshev, 17, 16, 15, 6, 1),
			mk("cheb15/dense,n=8", bignum.Chebyshev, 15, 8),
			mk("mono11/holes7,9,n=8", bignum.Monomial, 11, 8, 7, 9),
			mk("cheb9/hole3,n=4", bignum.Chebyshev, 7, 4, 3),
		}
	}()
	t.Rows = []Row{
		{Method: "Factorize", Func: true, Doc: "Factorize factorizes p as X^{n} * pq + pr (returns two new polynomials)", Kinds: factK,
			Call: func(rcv interface{}, in []interface{}, o interface{}) (interface{}, error) {
				pq, pr := in[0].(*bignum.Polynomial).Factorize(in[1].(int))
				return []interface{}{pq, pr}, nil
			}},
		{Method: "Evaluate", Func: true, Doc: "Evaluate takes x a *big.Float or *big.Complex and returns y = P(x)",
			Kinds: []Kind{
				{Name: "cheb9/hole7,bigfloat", Class: "poly", Names: []string{"p", "x"}, Make: func(e *Env, g *Gen) []interface{} {
					return []interface{}{poly(bignum.Chebyshev, 9, 7), bigF(0.37)}
				}},
				{Name: "mono11/holes7,9,bigcomplex", Class: "poly", Names: []string{"p", "x"}, Make: func(e *Env, g *Gen) []interface{} {
					return []interface{}{poly(bignum.Monomial, 11, 7, 9), &bignum.Complex{bigF(0.37), bigF(-0.2)}}
				}},
				{Name: "cheb13/holes5,10,float64", Class: "poly", Names: []string{"p", "x"}, Make: func(e *Env, g *Gen) []interface{} {
					return []interface{}{poly(bignum.Chebyshev, 13, 5, 10), float64(-0.81)}
				}}},
			Call: func(rcv interface{}, in []interface{}, o interface{}) (interface{}, error) {
				return in[0].(*bignum.Polynomial).Evaluate(in[1]), nil
			}},
		{Method: "ChangeOfBasis", Func: true, Doc: "returns the scalar and constant of the change of basis of the polynomial's interval",
			Kinds: []Kind{
				{Name: "cheb9/hole7", Class: "poly", Names: []string{"p"}, Make: func(e *Env, g *Gen) []interface{} { return []interface{}{poly(bignum.Chebyshev, 9, 7)} }},
				{Name: "mono11", Class: "poly", Names: []string{"p"}, Make: func(e *Env, g *Gen) []interface{} { return []interface{}{poly(bignum.Monomial, 11)} }}},
			Call: func(rcv interface{}, in []interface{}, o interface{}) (interface{}, error) {
				a, b := in[0].(*bignum.Polynomial).ChangeOfBasis()
				return []interface{}{a, b}, nil
			}},
		{Method: "EvaluateModP", Func: true, Doc: "evaluates y = p(x) mod P (integer coefficients)",
			Kinds: []Kind{{Name: "mono-int7,x,P", Class: "poly", Names: []string{"p", "xInt", "PInt"}, Make: func(e *Env, g *Gen) []interface{} {
				p := bignum.NewPolynomial(bignum.Monomial, []uint64{3, 5, 0, 7, 11, 0, 2, 9}, nil)
				return []interface{}{&p, big.NewInt(123456789), big.NewInt(97)}
			}}},
			Call: func(rcv interface{}, in []interface{}, o interface{}) (interface{}, error) {
				return in[0].(*bignum.Polynomial).EvaluateModP(in[1].(*big.Int), in[2].(*big.Int)), nil
			}},
	}
	return t
}
