// Package circ holds the helpers shared by the circuit checks C12 (linear transformations) and C13
// (polynomial evaluation): tiny BGV / CKKS worlds (parameters, secret key, encoder, decryptor), per-leaf
// encryption with a fresh (seeded) encryptor, and the CKKS worst-case noise terms used by the ε oracles.
//
// Nothing here is an oracle by itself: model values are computed by the checks.
package circ

import (
	"fmt"
	"math"
	"math/big"

	"github.com/tuneinsight/lattigo/v6/core/rlwe"
	"github.com/tuneinsight/lattigo/v6/ring"
	"github.com/tuneinsight/lattigo/v6/schemes/bgv"
	"github.com/tuneinsight/lattigo/v6/schemes/ckks"

	"verif/uni"
)

// ---------------------------------------------------------------------------------------------
// BGV

// BGVSpec describes a tiny BGV parameter set: NQ primes of QBits bits, NP primes of PBits bits.
type BGVSpec struct {
	LogN, NQ, QBits, NP, PBits int
	T                          uint64
	Q0Bits                     int // 0: like the others; otherwise the size of the first prime of Q
	BigAt                      int // index in Q at which the Q0Bits-sized prime is placed (0: first)
}

func (s BGVSpec) String() string {
	if s.Q0Bits > 0 {
		at := ""
		if s.BigAt > 0 {
			at = fmt.Sprintf("-bigat%d", s.BigAt)
		}
		return fmt.Sprintf("bgv-N%d-q%d+%dx%d-p%dx%d-t%d%s", s.LogN, s.Q0Bits, s.NQ-1, s.QBits, s.NP, s.PBits, s.T, at)
	}
	return fmt.Sprintf("bgv-N%d-q%dx%d-p%dx%d-t%d", s.LogN, s.NQ, s.QBits, s.NP, s.PBits, s.T)
}

// BGV is a tiny BGV world. Encryptors and key generators are created per leaf (after uni.Seed) so that
// a leaf's randomness does not depend on how many leaves ran before it in the same process.
type BGV struct {
	Spec   BGVSpec
	Params bgv.Parameters
	Sk     *rlwe.SecretKey
	Ecd    *bgv.Encoder
	Dec    *rlwe.Decryptor
	T      uint64
}

// NewBGV builds the world. Call uni.Seed first: the secret key consumes NewPRNG streams.
func NewBGV(s BGVSpec) *BGV {
	lit := bgv.ParametersLiteral{LogN: s.LogN, PlaintextModulus: s.T}
	if s.Q0Bits > 0 {
		lit.Q = append(uni.Primes(s.LogN, s.Q0Bits, 1), distinctFrom(uni.Primes(s.LogN, s.QBits, s.NQ+1), uni.Primes(s.LogN, s.Q0Bits, 1), s.NQ-1)...)
		lit.P = distinctFrom(uni.Primes(s.LogN, s.PBits, s.NP+s.NQ+1), lit.Q, s.NP)
		lit.Q[0], lit.Q[s.BigAt] = lit.Q[s.BigAt], lit.Q[0]
	} else if s.QBits == s.PBits {
		all := uni.Primes(s.LogN, s.QBits, s.NQ+s.NP)
		// the larger primes go to P (key-switching noise is divided by P)
		lit.P, lit.Q = all[:s.NP], all[s.NP:]
	} else {
		lit.Q = uni.Primes(s.LogN, s.QBits, s.NQ)
		lit.P = uni.Primes(s.LogN, s.PBits, s.NP)
	}
	p, err := bgv.NewParametersFromLiteral(lit)
	if err != nil {
		panic(fmt.Sprintf("circ.NewBGV(%v): %v", s, err))
	}
	w := &BGV{Spec: s, Params: p, T: s.T}
	w.Sk = rlwe.NewKeyGenerator(p).GenSecretKeyNew()
	w.Ecd = bgv.NewEncoder(p)
	w.Dec = rlwe.NewDecryptor(p, w.Sk)
	return w
}

// Encrypt encodes values (batched, one value per slot) at the given level and scale and encrypts
// them under the secret key with a fresh encryptor.
func (w *BGV) Encrypt(values []uint64, level int, scale uint64) *rlwe.Ciphertext {
	pt := bgv.NewPlaintext(w.Params, level)
	pt.Scale = rlwe.NewScaleModT(scale, w.T)
	if err := w.Ecd.Encode(values, pt); err != nil {
		panic(fmt.Sprintf("circ.BGV.Encrypt: encode: %v", err))
	}
	ct, err := rlwe.NewEncryptor(w.Params, w.Sk).EncryptNew(pt)
	if err != nil {
		panic(fmt.Sprintf("circ.BGV.Encrypt: %v", err))
	}
	return ct
}

// Decode decrypts ct and decodes the slots *at the scale given by the caller* (the scale the oracle
// expects, not the one the ciphertext reports: the reported scale is compared separately).
func (w *BGV) Decode(ct *rlwe.Ciphertext, scale uint64) []uint64 {
	pt := w.Dec.DecryptNew(ct)
	pt.Scale = rlwe.NewScaleModT(scale, w.T)
	out := make([]uint64, w.Params.MaxSlots())
	if err := w.Ecd.Decode(pt, out); err != nil {
		panic(fmt.Sprintf("circ.BGV.Decode: %v", err))
	}
	return out
}

// ---------------------------------------------------------------------------------------------
// CKKS

// CKKSSpec describes a tiny CKKS parameter set: one Q0 prime of Q0Bits, NQ-1 primes of QBits (≈ scale),
// NP primes of PBits.
type CKKSSpec struct {
	LogN, NQ, Q0Bits, QBits, NP, PBits, LogScale int
	CI                                           bool // conjugate-invariant ring (real slots, N of them)
	BigAt                                        int  // index in Q at which the Q0Bits-sized prime is placed (0: first)
}

func (s CKKSSpec) String() string {
	r := ""
	if s.CI {
		r = "-ci"
	}
	if s.BigAt > 0 {
		r += fmt.Sprintf("-bigat%d", s.BigAt)
	}
	return fmt.Sprintf("ckks-N%d-q%d+%dx%d-p%dx%d-s%d%s", s.LogN, s.Q0Bits, s.NQ-1, s.QBits, s.NP, s.PBits, s.LogScale, r)
}

// CKKS is a tiny CKKS world.
type CKKS struct {
	Spec   CKKSSpec
	Params ckks.Parameters
	Sk     *rlwe.SecretKey
	Ecd    *ckks.Encoder
	Dec    *rlwe.Decryptor
}

// NewCKKS builds the world. Call uni.Seed first.
func NewCKKS(s CKKSSpec) *CKKS {
	lit := ckks.ParametersLiteral{LogN: s.LogN, LogDefaultScale: s.LogScale}
	if s.CI {
		lit.RingType = ring.ConjugateInvariant
	}
	// all primes ≡ 1 mod 2^(LogN+2): valid for both ring types; the three size classes must not collide
	lit.Q = append(uni.Primes(s.LogN, s.Q0Bits, 1), distinctFrom(uni.Primes(s.LogN, s.QBits, s.NQ+1), uni.Primes(s.LogN, s.Q0Bits, 1), s.NQ-1)...)
	lit.P = distinctFrom(uni.Primes(s.LogN, s.PBits, s.NP+s.NQ+1), lit.Q, s.NP)
	lit.Q[0], lit.Q[s.BigAt] = lit.Q[s.BigAt], lit.Q[0]
	p, err := ckks.NewParametersFromLiteral(lit)
	if err != nil {
		panic(fmt.Sprintf("circ.NewCKKS(%v): %v", s, err))
	}
	w := &CKKS{Spec: s, Params: p}
	w.Sk = rlwe.NewKeyGenerator(p).GenSecretKeyNew()
	w.Ecd = ckks.NewEncoder(p)
	w.Dec = rlwe.NewDecryptor(p, w.Sk)
	return w
}

func distinctFrom(cand, used []uint64, k int) []uint64 {
	var r []uint64
	for _, c := range cand {
		dup := false
		for _, u := range used {
			if u == c {
				dup = true
			}
		}
		if !dup && len(r) < k {
			r = append(r, c)
		}
	}
	if len(r) < k {
		panic("circ: not enough distinct primes")
	}
	return r
}

// Encrypt encodes values on logSlots slots at the given level and scale and encrypts them under the
// secret key with a fresh encryptor. values may be []complex128, []float64 or []*bignum.Complex.
func (w *CKKS) Encrypt(values interface{}, logSlots, level int, scale rlwe.Scale) *rlwe.Ciphertext {
	pt := ckks.NewPlaintext(w.Params, level)
	pt.Scale = scale
	pt.LogDimensions = ring.Dimensions{Rows: 0, Cols: logSlots}
	if err := w.Ecd.Encode(values, pt); err != nil {
		panic(fmt.Sprintf("circ.CKKS.Encrypt: encode: %v", err))
	}
	ct, err := rlwe.NewEncryptor(w.Params, w.Sk).EncryptNew(pt)
	if err != nil {
		panic(fmt.Sprintf("circ.CKKS.Encrypt: %v", err))
	}
	return ct
}

// Decode decrypts ct and decodes 2^logSlots slots at the scale given by the caller.
func (w *CKKS) Decode(ct *rlwe.Ciphertext, logSlots int, scale rlwe.Scale) []complex128 {
	pt := w.Dec.DecryptNew(ct)
	pt.Scale = scale
	pt.LogDimensions = ring.Dimensions{Rows: 0, Cols: logSlots}
	out := make([]complex128, 1<<logSlots)
	if err := w.Ecd.Decode(pt, out); err != nil {
		panic(fmt.Sprintf("circ.CKKS.Decode: %v", err))
	}
	return out
}

// Noise collects the worst-case (support-derived, not statistical) coefficient-domain noise terms of
// an RLWE parameter set with a ternary secret and an error distribution truncated at B.
type Noise struct {
	N     float64 // ring degree
	B     float64 // truncation bound of the error distribution (params.NoiseBound())
	Embed float64 // |slot(e)| <= Embed * |e|_inf : N for the standard ring, 2N used for both (sound)
}

// NoiseOf reads the declared supports from the parameters.
func NoiseOf(p rlwe.Parameters) Noise {
	n := float64(p.N())
	return Noise{N: n, B: p.NoiseBound(), Embed: 2 * n}
}

// Fresh bounds |phase - Δ·m|_inf of a fresh secret-key encryption of an encoded plaintext:
// the error polynomial (<= B) plus the encoder's rounding to integers (<= 1/2, we allow 1 for the
// float64 FFT slop, which is < 2^-5 for Δ <= 2^45 and |m| <= 2^3).
func (z Noise) Fresh() float64 { return z.B + 1 }

// KeySwitch bounds the coefficient-domain noise added to the phase by ONE key-switch (gadget product
// followed by division by P) at decomposition level levelQ with levelP+1 special primes:
//
//	digits: beta = ceil((levelQ+1)/(levelP+1)), each digit coefficient < D = prod of its group <= qmax^(levelP+1)
//	sum_i digit_i * e_i (negacyclic, N terms, |e_i| <= B)          <= beta * N * D * B
//	divided by P >= pmin^(levelP+1)                                <= beta * N * B * (qmax/pmin)^(levelP+1)
//	rounding of the division on c0 and c1 (<= 1/2 each) plus the approximate basis extension of the P part
//	(off by at most levelP+1 multiples of P), c1 multiplied by the ternary secret: <= (levelP+2) * (N+1)
func KeySwitch(p rlwe.Parameters, levelQ, levelP int) float64 {
	z := NoiseOf(p)
	g := float64(levelP + 1)
	beta := math.Ceil(float64(levelQ+1) / g)
	var qmax, pmin float64
	for _, q := range p.Q()[:levelQ+1] {
		qmax = math.Max(qmax, float64(q))
	}
	pmin = math.Inf(1)
	for _, pi := range p.P()[:levelP+1] {
		pmin = math.Min(pmin, float64(pi))
	}
	r := math.Pow(qmax/pmin, g)
	if r < 1 {
		r = 1
	}
	return beta*z.N*z.B*r + 2*(g+1)*(z.N+1)
}

// Rescale bounds the coefficient-domain phase error added by one division-with-rounding by a prime:
// 1/2 on c0 and 1/2 on c1 times the ternary secret.
func (z Noise) Rescale() float64 { return (z.N + 1) / 2 }

// ScaleF returns the scale as float64.
func ScaleF(s rlwe.Scale) float64 { f, _ := s.Value.Float64(); return f }

// ScaleClose reports |a/b - 1| <= 2^-100 (rlwe.Scale carries 128 bits; products round at 2^-128).
func ScaleClose(a rlwe.Scale, b *big.Float) bool {
	x := new(big.Float).SetPrec(256).Set(&a.Value)
	y := new(big.Float).SetPrec(256).Set(b)
	if y.Sign() == 0 {
		return x.Sign() == 0
	}
	d := new(big.Float).SetPrec(256).Sub(x, y)
	d.Quo(d, y)
	d.Abs(d)
	return d.Cmp(new(big.Float).SetMantExp(big.NewFloat(1), -100)) <= 0
}

// BigScale returns the scale value at 256-bit precision.
func BigScale(s rlwe.Scale) *big.Float { return new(big.Float).SetPrec(256).Set(&s.Value) }
