package mp

import (
	"fmt"
	"io"

	"math"
	"math/big"
	"verif/uni"

	"github.com/tuneinsight/lattigo/v6/core/rlwe"
	"github.com/tuneinsight/lattigo/v6/multiparty"
	"github.com/tuneinsight/lattigo/v6/ring"
)

// Flood returns the noise-flooding distribution of standard deviation sigma, truncated at 6 sigma
// (the shape the repository's tests use). sigma = 0: the parameters' own error distribution ("default").
func Flood(params rlwe.Parameters, sigma float64) ring.DiscreteGaussian {
	if sigma == 0 {
		return params.Xe().(ring.DiscreteGaussian)
	}
	return ring.DiscreteGaussian{Sigma: sigma, Bound: 6 * sigma}
}

// KSNoise describes the error a KeySwitchProtocol share carries for a requested flooding distribution:
// NewKeySwitchProtocol samples one Gaussian of sigma_eff = sqrt(sigma_fresh^2 + sigma_flood^2) truncated at
// 6*sigma_eff, and the sampler rounds half up: sup = floor(6*sigma_eff + 0.5).
func KSNoise(params rlwe.Parameters, flood ring.DiscreteGaussian) (sigmaEff float64, sup *big.Int) {
	f := params.NoiseFreshSK()
	sigmaEff = math.Sqrt(f*f + flood.Sigma*flood.Sigma)
	return sigmaEff, XeSup(ring.DiscreteGaussian{Sigma: sigmaEff, Bound: 6 * sigmaEff})
}

// KSOps is the lattice description of KeySwitchShare (also used by the enc-to-share / share-to-enc protocols).
func KSOps(params rlwe.Parameters, sig, key string, level int, agg func(a, b multiparty.KeySwitchShare, out *multiparty.KeySwitchShare) error, alloc func(level int) multiparty.KeySwitchShare) Ops[multiparty.KeySwitchShare] {
	return Ops[multiparty.KeySwitchShare]{
		Sig: sig, Key: key,
		New: func() multiparty.KeySwitchShare { return alloc(level) },
		Agg: agg,
		Hop: func(a multiparty.KeySwitchShare) (r multiparty.KeySwitchShare, err error) {
			var data []byte
			if data, err = a.MarshalBinary(); err != nil {
				return
			}
			err = r.UnmarshalBinary(data)
			return
		},
		Stream: func(a multiparty.KeySwitchShare, wrap func(io.Reader) io.Reader) (multiparty.KeySwitchShare, error) {
			return StreamHop[multiparty.KeySwitchShare](a, wrap)
		},
		Used: func(which int) multiparty.KeySwitchShare {
			// a receive buffer that held a share at the maximum level (A) / at level 0 (B)
			lv := params.MaxLevel()
			if which == 1 {
				lv = 0
			}
			r := alloc(lv)
			ring.NewUniformSampler(uni.KeyedPRNG(key, "used-receiver", which), params.RingQ().AtLevel(lv)).Read(r.Value)
			return r
		},
		Into: func(a multiparty.KeySwitchShare, recv *multiparty.KeySwitchShare) error {
			data, err := a.MarshalBinary()
			if err != nil {
				return err
			}
			return recv.UnmarshalBinary(data)
		},
		Flat: func(a multiparty.KeySwitchShare) Flat {
			return Flat{Tag: fmt.Sprintf("ks|lvl=%d", a.Value.Level()), Rows: RowsQ(nil, params.RingQ(), a.Value)}
		},
	}
}

// FlatRefresh flattens a RefreshShare (both halves and the metadata it must carry along).
func FlatRefresh(paramsIn, paramsOut rlwe.Parameters, a multiparty.RefreshShare) Flat {
	md, _ := a.MetaData.MarshalBinary()
	f := Flat{Tag: fmt.Sprintf("refresh|e2s=%d|s2e=%d|md=%x", a.EncToShareShare.Value.Level(), a.ShareToEncShare.Value.Level(), md)}
	f.Rows = RowsQ(f.Rows, paramsIn.RingQ(), a.EncToShareShare.Value)
	f.Rows = RowsQ(f.Rows, paramsOut.RingQ(), a.ShareToEncShare.Value)
	return f
}

// HopRefresh sends a RefreshShare through MarshalBinary/UnmarshalBinary.
func HopRefresh(a multiparty.RefreshShare) (r multiparty.RefreshShare, err error) {
	var data []byte
	if data, err = a.MarshalBinary(); err != nil {
		return
	}
	err = r.UnmarshalBinary(data)
	return
}

// LinearResidual computes share + c1*key over Z_Q (centred) with the harness's own phase computation
// (uni.Phase on the pair (share, c1)): what is left of a key-switch share once the part c1*(s_in-s_out)
// is removed (pass key = s_out - s_in) is the error the share carries (plus whatever the caller adds back).
func LinearResidual(params rlwe.Parameters, share, c1 ring.Poly, isNTT bool, key *rlwe.SecretKey) []*big.Int {
	lvl := share.Level()
	el := &rlwe.Element[ring.Poly]{Value: []ring.Poly{share, *c1.CopyNew()}, MetaData: &rlwe.MetaData{}}
	el.Value[1].Resize(lvl)
	el.IsNTT = isNTT
	return Phase(params, el, key)
}

// DiffKeys returns a - b as an rlwe.SecretKey (Q part only is meaningful for phases).
func DiffKeys(params rlwe.Parameters, a, b *rlwe.SecretKey) *rlwe.SecretKey {
	s := rlwe.NewSecretKey(params)
	params.RingQ().Sub(a.Value.Q, b.Value.Q, s.Value.Q)
	return s
}

// PooledSigma returns sqrt(mean(e^2)) of integer samples (float64 is ample: samples are < 2^40).
func PooledSigma(samples []*big.Int) float64 {
	var acc float64
	for _, e := range samples {
		f, _ := new(big.Float).SetInt(e).Float64()
		acc += f * f
	}
	return math.Sqrt(acc / float64(len(samples)))
}

// UsedRefresh returns a receive buffer that held a RefreshShare of another shape: both halves at the maximum level
// (which = 0) / at level 0 (which = 1), uniform content, other metadata.
func UsedRefresh(paramsIn, paramsOut rlwe.Parameters, alloc func(levelDecrypt, levelRecrypt int) multiparty.RefreshShare, which int, key ...interface{}) multiparty.RefreshShare {
	li, lo := paramsIn.MaxLevel(), paramsOut.MaxLevel()
	if which == 1 {
		li, lo = 0, 0
	}
	r := alloc(li, lo)
	prng := uni.KeyedPRNG(append(key, "used-refresh-receiver", which)...)
	ring.NewUniformSampler(prng, paramsIn.RingQ().AtLevel(li)).Read(r.EncToShareShare.Value)
	ring.NewUniformSampler(prng, paramsOut.RingQ().AtLevel(lo)).Read(r.ShareToEncShare.Value)
	r.MetaData.IsNTT = true
	r.MetaData.LogDimensions.Cols = 1
	r.MetaData.Scale = rlwe.NewScale(12345)
	return r
}

// IntoRefresh decodes a (MarshalBinary) into an existing receiver (UnmarshalBinary).
func IntoRefresh(a multiparty.RefreshShare, recv *multiparty.RefreshShare) error {
	data, err := a.MarshalBinary()
	if err != nil {
		return err
	}
	return recv.UnmarshalBinary(data)
}
