// Package mp holds what the multiparty checks C14, C15, C16 share: the merge-lattice search over
// share aggregation, party/ideal-secret setup, tiny parameter sets and the functional oracles.
package mp

import (
	"bytes"
	"fmt"
	"io"
	"sort"
	"strings"
	"testing/iotest"

	"verif/engine"
	"verif/ref"
	"verif/uni"
)

// Row is one residue vector of a share together with its modulus.
type Row struct {
	Q uint64
	C []uint64
}

// Flat is the implementation-independent view of a share: a tag (metadata that aggregation must
// preserve: Galois element, decomposition base, ...) and all its residue rows in a fixed order.
type Flat struct {
	Tag  string
	Rows []Row
}

// Equal compares two flats residue by residue *modulo the row modulus* (so a lazily reduced but
// congruent value is not an alarm: the property says "the same aggregate", not "the same bits").
func (f Flat) Equal(g Flat) (bool, string) {
	if f.Tag != g.Tag {
		return false, fmt.Sprintf("tag %q != %q", f.Tag, g.Tag)
	}
	if len(f.Rows) != len(g.Rows) {
		return false, fmt.Sprintf("%d rows != %d rows", len(f.Rows), len(g.Rows))
	}
	for i := range f.Rows {
		a, b := f.Rows[i], g.Rows[i]
		if a.Q != b.Q || len(a.C) != len(b.C) {
			return false, fmt.Sprintf("row %d: shape (q=%d,n=%d) != (q=%d,n=%d)", i, a.Q, len(a.C), b.Q, len(b.C))
		}
		for j := range a.C {
			if a.C[j]%a.Q != b.C[j]%a.Q {
				return false, fmt.Sprintf("row %d (q=%d) coeff %d: %d != %d", i, a.Q, j, a.C[j]%a.Q, b.C[j]%a.Q)
			}
		}
	}
	return true, ""
}

// Hash is a stable digest of the reduced residues.
func (f Flat) Hash() uint64 {
	parts := []interface{}{f.Tag}
	for _, r := range f.Rows {
		red := make([]uint64, len(r.C))
		for j, v := range r.C {
			red[j] = v % r.Q
		}
		parts = append(parts, r.Q, red)
	}
	return engine.Hash(parts...)
}

// AddFlat is the reference aggregation: row-wise, coefficient-wise modular sum (division based).
func AddFlat(a, b Flat) Flat {
	if a.Tag != b.Tag || len(a.Rows) != len(b.Rows) {
		panic("mp.AddFlat: harness error: shapes differ")
	}
	out := Flat{Tag: a.Tag, Rows: make([]Row, len(a.Rows))}
	for i := range a.Rows {
		q := a.Rows[i].Q
		c := make([]uint64, len(a.Rows[i].C))
		for j := range c {
			c[j] = ref.AddMod(a.Rows[i].C[j]%q, b.Rows[i].C[j]%q, q)
		}
		out.Rows[i] = Row{Q: q, C: c}
	}
	return out
}

// Ops describes one share type to the lattice search.
type Ops[T any] struct {
	// Sig is the signature prefix of the protocol, e.g. "C14/cpk".
	Sig string
	// Key distinguishes model states of different scenarios (scenario name).
	Key string
	// New allocates a zero share of the scenario's shape (the aggregation output).
	New func() T
	// Agg is the implementation's AggregateShares.
	Agg func(a, b T, out *T) error
	// Hop sends a share through MarshalBinary / UnmarshalBinary into a freshly allocated receiver.
	Hop func(a T) (T, error)
	// Stream sends a share through WriteTo / ReadFrom (into a zero-value receiver) over a transport that
	// fragments the byte stream (wrap decorates the reader). nil: the type has no fragmenting stream hop.
	Stream func(a T, wrap func(io.Reader) io.Reader) (T, error)
	// Used returns a receiver that already holds a share of another shape (which = 0, 1: two different shapes, where
	// the type allows a larger and a smaller one); Into decodes a (MarshalBinary) into it (UnmarshalBinary). nil: not offered.
	Used func(which int) T
	Into func(a T, recv *T) error
	// Flat projects a share on its residues.
	Flat func(a T) Flat
}

// StreamHop is the generic WriteTo -> (fragmenting reader) -> ReadFrom round trip.
func StreamHop[T any, PT interface {
	*T
	io.ReaderFrom
}](a io.WriterTo, wrap func(io.Reader) io.Reader) (r T, err error) {
	var buf bytes.Buffer
	if _, err = a.WriteTo(&buf); err != nil {
		return
	}
	var rd io.Reader = bytes.NewReader(buf.Bytes())
	if wrap != nil {
		rd = wrap(rd)
	}
	_, err = PT(&r).ReadFrom(rd)
	return
}

// splitReader returns at most k bytes on its first Read (a transport that fragments at one particular byte).
type splitReader struct {
	r    io.Reader
	k    int
	done bool
}

func (s *splitReader) Read(p []byte) (int, error) {
	if !s.done && len(p) > s.k {
		p = p[:s.k]
	}
	s.done = true
	return s.r.Read(p)
}

// OneByte and SplitAt are the two fragmenting transports of the lattice search.
func OneByte(r io.Reader) io.Reader { return iotest.OneByteReader(r) }
func SplitAt(k int) func(io.Reader) io.Reader {
	return func(r io.Reader) io.Reader { return &splitReader{r: r, k: k} }
}

var variantNames = [...]string{"plain", "swap", "hop-first", "hop-second", "alias-first", "alias-second", "stream-first-1byte", "stream-second-split5", "decode-first-into-used-receiver-A", "decode-second-into-used-receiver-B"}

// Mode selects which part of the merge lattice is explored.
type Mode int

const (
	// Full: any two pending groups may be merged (every order and every tree shape).
	Full Mode = iota
	// LeftDeep: one accumulator, the next party to fold in is chosen (every order, one shape).
	// Used with a deviation bound for 6..8 parties.
	LeftDeep
	// Adjacent: only index-adjacent groups are merged (every tree shape in index order).
	Adjacent
)

func (m Mode) String() string { return [...]string{"full", "leftdeep", "adjacent"}[m] }

// Search configures the extra axes of every transition.
type Search struct {
	Mode Mode
	// Variants enables, per merge, the non-free choices: operand swap (b,a), serialization hop of the
	// first/second operand, and output aliasing the first/second operand (the in-place accumulation
	// the repository's own tests use). Subject to the scenario's deviation bound.
	Variants bool
}

type group[T any] struct {
	mask uint
	lo   int // smallest member (Adjacent mode ordering)
	val  T
}

// Histories returns the number of pair-choice histories of the mode for n parties.
func Histories(m Mode, n int) int {
	r := 1
	switch m {
	case Full:
		for k := n; k >= 2; k-- {
			r *= k * (k - 1) / 2
		}
	case LeftDeep: // n choices for the accumulator, then the remaining parties in any order: n!
		for k := n; k >= 2; k-- {
			r *= k
		}
	case Adjacent:
		for k := n; k >= 2; k-- {
			r *= k - 1
		}
	}
	return r
}

func partitionKey[T any](p []group[T]) string {
	ms := make([]int, len(p))
	for i, g := range p {
		ms[i] = int(g.mask)
	}
	sort.Ints(ms)
	var sb strings.Builder
	for _, m := range ms {
		fmt.Fprintf(&sb, "%x.", m)
	}
	return sb.String()
}

// Merge runs ONE path through the merge lattice of the given party shares, every decision taken
// through the Chooser (so the engine enumerates all paths), and checks on every transition:
//
//   - the aggregate of a group equals the reference sum (AddFlat) of its members' shares. Since the
//     reference sum depends only on the member set, two histories reaching the same partition hold
//     identical group shares, and all terminal states are identical;
//   - operands are left intact unless the output aliases them;
//   - a serialization hop returns the same share.
//
// It returns the final aggregate. ok=false: a violation was recorded (the leaf should stop).
// The shares slice is consumed (aliasing variants overwrite entries).
func Merge[T any](c *engine.Chooser, ops Ops[T], shares []T, s Search) (final T, ok bool) {
	n := len(shares)
	refs := make(map[uint]Flat, 2*n)
	pend := make([]group[T], n)
	for i := range shares {
		pend[i] = group[T]{mask: 1 << uint(i), lo: i, val: shares[i]}
		refs[pend[i].mask] = ops.Flat(shares[i])
	}
	c.State(ops.Key, partitionKey(pend))
	for len(pend) > 1 {
		k := len(pend)
		var ia, ib int
		switch s.Mode {
		case Full:
			// pair index -> (ia<ib) in lexicographic order; choice 0 = (0,1) = index-order left-deep fold
			p := c.ChooseFree(k*(k-1)/2, "pair")
			for ia = 0; ia < k; ia++ {
				if p < k-1-ia {
					ib = ia + 1 + p
					break
				}
				p -= k - 1 - ia
			}
		case LeftDeep:
			// the accumulator is pend[0]; before the first merge it is chosen too
			if k == n && n > 1 {
				first := c.Choose(k, "first")
				pend[0], pend[first] = pend[first], pend[0]
			}
			ia, ib = 0, 1+c.Choose(k-1, "next")
		case Adjacent:
			sort.Slice(pend, func(x, y int) bool { return pend[x].lo < pend[y].lo })
			ia = c.ChooseFree(k-1, "adj")
			ib = ia + 1
		}
		a, b := pend[ia], pend[ib]
		variant := 0
		if s.Variants {
			// 0 plain | 1 swapped operands | 2,3 MarshalBinary hop of first/second operand | 4,5 output aliases
			// first/second | 6,7 WriteTo/ReadFrom hop of first (one byte per read) / second (first read cut at byte 5,
			// inside the leading 8-byte word)
			// 8,9 MarshalBinary, then UnmarshalBinary of the first / second operand into a receiver that already holds a
			// share of another shape (A / B: e.g. a larger and a smaller one), as an aggregator reusing receive buffers does
			avail := []int{0, 1, 2, 3, 4, 5}
			if ops.Stream != nil {
				avail = append(avail, 6, 7)
			}
			if ops.Into != nil {
				avail = append(avail, 8, 9)
			}
			variant = avail[c.Choose(len(avail), "variant")]
		}
		c.Cover("merge-variant", variantNames[variant])
		if variant == 1 {
			a, b = b, a
		}
		if variant == 2 || variant == 3 || variant >= 6 {
			src := &a
			if variant == 3 || variant == 7 || variant == 9 {
				src = &b
			}
			var h T
			how := "MarshalBinary/UnmarshalBinary"
			err, pan := uni.Try(func() (e error) {
				switch variant {
				case 6:
					how = "WriteTo/ReadFrom over a one-byte-per-read transport"
					h, e = ops.Stream(src.val, OneByte)
				case 7:
					how = "WriteTo/ReadFrom over a transport whose first read ends at byte 5"
					h, e = ops.Stream(src.val, SplitAt(5))
				case 8, 9:
					how = "MarshalBinary/UnmarshalBinary into a receiver holding a share of another shape"
					h = ops.Used(variant - 8)
					e = ops.Into(src.val, &h)
				default:
					h, e = ops.Hop(src.val)
				}
				return
			})
			kind := "serialize"
			if variant == 6 || variant == 7 {
				kind = "stream"
			} else if variant >= 8 {
				kind = "decode-into-used-receiver"
			}
			if pan != nil || err != nil {
				c.Fail(ops.Sig+"/"+kind+"/error", "share of group %x: %s failed: err=%v panic=%v", src.mask, how, err, pan)
				return final, false
			}
			if same, why := ops.Flat(h).Equal(refs[src.mask]); !same {
				c.Fail(ops.Sig+"/"+kind+"/roundtrip-differs", "share of group %x changed through %s: %s", src.mask, how, why)
				return final, false
			}
			src.val = h
		}
		want := AddFlat(refs[a.mask], refs[b.mask])
		var out T
		switch variant {
		case 4:
			out = a.val
		case 5:
			out = b.val
		default:
			out = ops.New()
		}
		err, pan := uni.Try(func() error { return ops.Agg(a.val, b.val, &out) })
		if pan != nil {
			c.Fail(ops.Sig+"/AggregateShares/panic", "AggregateShares(%x,%x) of matching shares panicked: %v", a.mask, b.mask, pan)
			return final, false
		}
		if err != nil {
			c.Fail(ops.Sig+"/AggregateShares/error-on-matching-shares", "AggregateShares(%x,%x): %v", a.mask, b.mask, err)
			return final, false
		}
		if same, why := ops.Flat(out).Equal(want); !same {
			c.Fail(ops.Sig+"/AggregateShares/not-the-sum", "AggregateShares(%x,%x) [variant %d] differs from the coefficient-wise sum of the members' shares: %s", a.mask, b.mask, variant, why)
			return final, false
		}
		if variant != 4 {
			if same, why := ops.Flat(a.val).Equal(refs[a.mask]); !same {
				c.Fail(ops.Sig+"/AggregateShares/operand-modified", "first operand (group %x) changed: %s", a.mask, why)
				return final, false
			}
		}
		if variant != 5 {
			if same, why := ops.Flat(b.val).Equal(refs[b.mask]); !same {
				c.Fail(ops.Sig+"/AggregateShares/operand-modified", "second operand (group %x) changed: %s", b.mask, why)
				return final, false
			}
		}
		g := group[T]{mask: a.mask | b.mask, lo: min(a.lo, b.lo), val: out}
		refs[g.mask] = want
		// remove ia, ib (ia<ib holds for the indices even when operands were swapped)
		// the merged group goes in front: choice 0 everywhere = the index-order left-deep fold
		np := make([]group[T], 0, k-1)
		np = append(np, g)
		for i := range pend {
			if i != ia && i != ib {
				np = append(np, pend[i])
			}
		}
		pend = np
		c.State(ops.Key, partitionKey(pend))
	}
	c.Cover("merge-mode", s.Mode.String())
	c.Cover("parties", fmt.Sprint(n))
	return pend[0].val, true
}

// ReferenceSum is the coefficient-wise modular sum of all shares (the terminal state every history must reach).
func ReferenceSum[T any](ops Ops[T], shares []T) Flat {
	f := ops.Flat(shares[0])
	for _, s := range shares[1:] {
		f = AddFlat(f, ops.Flat(s))
	}
	return f
}

// FoldOrMerge searches the lattice (search=true) or folds the shares in index order with the
// implementation's AggregateShares, still checked against the reference sum.
func FoldOrMerge[T any](c *engine.Chooser, ops Ops[T], shares []T, s Search, search bool) (T, bool) {
	if search {
		return Merge(c, ops, shares, s)
	}
	want := CloneFlat(ReferenceSum(ops, shares))
	acc := shares[0]
	for i := 1; i < len(shares); i++ {
		out := ops.New()
		err, pan := uni.Try(func() error { return ops.Agg(acc, shares[i], &out) })
		if err != nil || pan != nil {
			c.Fail(ops.Sig+"/AggregateShares/panic", "index-order fold: err=%v panic=%v", err, pan)
			return acc, false
		}
		acc = out
	}
	if same, why := ops.Flat(acc).Equal(want); !same {
		c.Fail(ops.Sig+"/AggregateShares/not-the-sum", "index-order fold differs from the coefficient-wise sum: %s", why)
		return acc, false
	}
	return acc, true
}
