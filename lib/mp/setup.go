package mp

import (
	"fmt"
	"math/big"
	"sync"

	"github.com/tuneinsight/lattigo/v6/core/rlwe"
	"github.com/tuneinsight/lattigo/v6/ring"
	"github.com/tuneinsight/lattigo/v6/schemes/bgv"
	"github.com/tuneinsight/lattigo/v6/schemes/ckks"
	"github.com/tuneinsight/lattigo/v6/utils/sampling"

	"verif/ref"
	"verif/uni"
)

// Chain is a tiny modulus chain: bit sizes of the Q and P primes (NTT friendly for both ring types).
type Chain struct {
	Name  string
	LogN  int
	QBits []int
	PBits []int
	CI    bool // conjugate-invariant ring Z[X+X^-1]/(X^2N+1)
	// QAround, when set, replaces QBits: the Q primes are the NTT-friendly primes just below these values (sizes that
	// are not near a power of two, so that the partial products Q_0..Q_k have varied fractional bit lengths).
	QAround []uint64
}

// The catalogue of chains (DESIGN §5): equal sizes with #P not dividing #Q, unequal sizes (so that
// the per-modulus base-two digit counts differ), smallest prime first, no auxiliary modulus.
var (
	ChainMid   = Chain{"mid", 4, []int{30, 30, 30}, []int{30, 30}, false, nil}
	ChainMixed = Chain{"mixed", 4, []int{55, 30, 45, 36}, []int{56}, false, nil}
	ChainMixup = Chain{"mixup", 4, []int{30, 55, 40}, []int{56}, false, nil}
	ChainNoP   = Chain{"nop", 4, []int{30, 30}, nil, false, nil}
	ChainBig   = Chain{"big", 4, []int{60, 59}, []int{61}, false, nil}
	// ChainBig61: the largest primes the library accepts, in Q and in P: lazily reduced sums of k values in [0,cq)
	// cross 2^64 here first (c*k*q > 2^64 from 5..8 parties on)
	ChainBig61 = Chain{"big61", 4, []int{61, 60, 61}, []int{61, 61}, false, nil}
	ChainMid5  = Chain{"mid5", 5, []int{30, 30, 30}, []int{30, 30}, false, nil}
	// conjugate-invariant rings: even and odd log N, with and without unequal prime sizes / P
	ChainMidCI   = Chain{"midci", 4, []int{30, 30, 30}, []int{30, 30}, true, nil}
	ChainMixedCI = Chain{"mixedci", 5, []int{55, 30, 45, 36}, []int{56}, true, nil}
	ChainNoPCI   = Chain{"nopci", 5, []int{30, 30}, nil, true, nil}
	// ChainTiny: the smallest NTT-friendly primes (bits 0 = smallest), so that residues of public points collide easily
	ChainTiny = Chain{"tiny", 4, []int{0, 0, 0}, []int{0}, false, nil}
	// CKKS chains: enough modulus below the top for GetMinimumLevelForRefresh(128, scale, N, Q) to have room
	ChainCK40 = Chain{"ck40", 4, []int{60, 50, 50, 40, 40, 40}, []int{61}, false, nil}
	ChainCK25 = Chain{"ck25", 5, []int{55, 50, 50, 25, 25}, []int{56}, false, nil}
	// high-precision CKKS: scale 2^90 (two 45-bit primes per rescale), enough modulus for lambda=128 masks
	ChainCK90   = Chain{"ck90", 4, []int{60, 60, 60, 55, 45, 45, 45, 45}, []int{61, 61}, false, nil}
	ChainCK40CI = Chain{"ck40ci", 4, []int{60, 50, 50, 40, 40, 40}, []int{61}, true, nil}
	ChainCK25CI = Chain{"ck25ci", 5, []int{55, 50, 50, 25, 25}, []int{56}, true, nil}
	// output parameter sets of the parameter-switching masked transforms: another chain of the same degree, and the
	// same shape at twice / half the degree (the moduli differ with the degree: they are 1 mod 2^(LogN+2))
	ChainCK40x  = Chain{"ck40x", 4, []int{58, 45, 45, 45}, []int{59}, false, nil}
	ChainCK40N5 = Chain{"ck40n5", 5, []int{58, 45, 45, 45}, []int{59}, false, nil}
	ChainCK25N4 = Chain{"ck25n4", 4, []int{55, 45, 45, 45}, []int{56}, false, nil}
	// ChainCKFrac: prime sizes between powers of two (1.37*2^44, 1.21*2^43, 1.6*2^42, 1.13*2^45, 1.45*2^40, 1.27*2^39):
	// the bit lengths of Q_0..Q_k have fractional parts spread over [0,1), so that for every party count some
	// (lambda, k) puts Q_k less than one bit above the mask bound
	ChainCKFrac = Chain{Name: "ckfrac", LogN: 4, PBits: []int{61}, QAround: []uint64{
		137 * (1 << 44) / 100, 121 * (1 << 43) / 100, 160 * (1 << 42) / 100, 113 * (1 << 45) / 100, 145 * (1 << 40) / 100, 127 * (1 << 39) / 100}}
	// Tight chains (primes just above a power of two): at level 2, Q is barely above N_parties * 2^logBound with
	// logBound = 128+40, i.e. GetMinimumLevelForRefresh's answer leaves no slack (1 party: 2^168, 2 parties: 2^169)
	ChainCKTight1 = Chain{"cktight1", 4, []int{-60, -54, -54, 40}, []int{61}, false, nil}
	ChainCKTight2 = Chain{"cktight2", 4, []int{-60, -55, -54, 40}, []int{61}, false, nil}
)

// Moduli returns distinct primes of the requested sizes.
func (ch Chain) Moduli() (Q, P []uint64) {
	if len(ch.QAround) > 0 {
		seen := map[uint64]bool{}
		for _, v := range ch.QAround {
			for _, q := range ref.PrimesNear(v, uint64(1)<<uint(ch.LogN+2), 4, true) {
				if !seen[q] {
					seen[q] = true
					Q = append(Q, q)
					break
				}
			}
		}
		for i, b := range ch.PBits {
			P = append(P, uni.Primes(ch.LogN, b, len(ch.PBits))[i])
		}
		return
	}
	need := map[int]int{}
	for _, b := range ch.QBits {
		need[b]++
	}
	for _, b := range ch.PBits {
		need[b]++
	}
	pool := map[int][]uint64{}
	for b, k := range need {
		if b < 0 { // negative size: the primes just ABOVE 2^|b|
			pool[b] = ref.PrimesNear(uint64(1)<<uint(-b), uint64(1)<<uint(ch.LogN+2), k, false)
		} else {
			pool[b] = uni.Primes(ch.LogN, b, k)
		}
	}
	take := func(b int) uint64 {
		v := pool[b][0]
		pool[b] = pool[b][1:]
		return v
	}
	for _, b := range ch.QBits {
		Q = append(Q, take(b))
	}
	for _, b := range ch.PBits {
		P = append(P, take(b))
	}
	return
}

var (
	cacheMu sync.Mutex
	cache   = map[string]interface{}{}
)

// Cached builds a value once per process (parameter construction factors q-1: ~10 ms each).
// Only immutable objects (parameter sets) are cached.
func Cached[T any](key string, build func() T) T {
	cacheMu.Lock()
	defer cacheMu.Unlock()
	if v, ok := cache[key]; ok {
		return v.(T)
	}
	v := build()
	cache[key] = v
	return v
}

// RLWE returns the rlwe.Parameters of a chain.
func (ch Chain) RLWE(ntt bool) rlwe.Parameters {
	return Cached(fmt.Sprintf("rlwe/%s/%v", ch.Name, ntt), func() rlwe.Parameters {
		Q, P := ch.Moduli()
		rt := ring.Standard
		if ch.CI {
			rt = ring.ConjugateInvariant
		}
		return uni.RLWE(rlwe.ParametersLiteral{LogN: ch.LogN, Q: Q, P: P, NTTFlag: ntt, RingType: rt})
	})
}

// BGV returns bgv.Parameters over the chain with plaintext modulus t.
func (ch Chain) BGV(t uint64) bgv.Parameters {
	return Cached(fmt.Sprintf("bgv/%s/%d", ch.Name, t), func() bgv.Parameters {
		Q, P := ch.Moduli()
		p, err := bgv.NewParametersFromLiteral(bgv.ParametersLiteral{LogN: ch.LogN, Q: Q, P: P, PlaintextModulus: t})
		if err != nil {
			panic(fmt.Sprintf("mp.BGV: %v", err))
		}
		return p
	})
}

// CKKS returns ckks.Parameters over the chain with default scale 2^logScale.
func (ch Chain) CKKS(logScale int) ckks.Parameters {
	return Cached(fmt.Sprintf("ckks/%s/%d", ch.Name, logScale), func() ckks.Parameters {
		Q, P := ch.Moduli()
		rt := ring.Standard
		if ch.CI {
			rt = ring.ConjugateInvariant
		}
		p, err := ckks.NewParametersFromLiteral(ckks.ParametersLiteral{LogN: ch.LogN, Q: Q, P: P, LogDefaultScale: logScale, RingType: rt})
		if err != nil {
			panic(fmt.Sprintf("mp.CKKS: %v", err))
		}
		return p
	})
}

// Parties holds the secret keys of the parties and the ideal secret (their sum).
type Parties struct {
	Params rlwe.Parameters
	SK     []*rlwe.SecretKey
	Ideal  *rlwe.SecretKey
}

// NewParties samples n secret keys with the library's key generator (ternary, seeded through
// uni.Seed) and builds the ideal secret.
func NewParties(params rlwe.Parameters, n int) *Parties {
	kg := rlwe.NewKeyGenerator(params)
	p := &Parties{Params: params}
	for i := 0; i < n; i++ {
		p.SK = append(p.SK, kg.GenSecretKeyNew())
	}
	p.Ideal = SumKeys(params, p.SK)
	return p
}

// SumKeys returns an rlwe.SecretKey holding Σ sk_i: the Q and P parts are added with the ring's Add
// (secret keys are stored in the NTT and Montgomery domains, both linear).
func SumKeys(params rlwe.Parameters, sks []*rlwe.SecretKey) *rlwe.SecretKey {
	s := rlwe.NewSecretKey(params)
	for _, sk := range sks {
		params.RingQ().Add(s.Value.Q, sk.Value.Q, s.Value.Q)
		if params.RingP() != nil {
			params.RingP().Add(s.Value.P, sk.Value.P, s.Value.P)
		}
	}
	return s
}

// CRS returns a common reference string: a KeyedPRNG with a fixed key (which = 0,1: two different strings).
func CRS(which int) *sampling.KeyedPRNG {
	p, err := sampling.NewKeyedPRNG([]byte{'v', 'e', 'r', 'i', 'f', '-', 'c', 'r', 's', byte('0' + which)})
	if err != nil {
		panic(err)
	}
	return p
}

// XeSup is the largest absolute value the error distribution can return: the sampler accepts
// norm*sigma <= Bound and rounds half up (ring/sampler_gaussian.go), hence floor(Bound+0.5).
func XeSup(d ring.DistributionParameters) *big.Int {
	g, ok := d.(ring.DiscreteGaussian)
	if !ok {
		panic("mp.XeSup: not a discrete Gaussian")
	}
	f := new(big.Float).SetFloat64(g.Bound + 0.5)
	i, _ := f.Int(nil)
	return i
}

// UniformPlaintext returns a plaintext at `level` whose polynomial is uniform (keyed, reproducible),
// hence all coefficients distinct with overwhelming probability, and its coefficient vector in [0,Q).
func UniformPlaintext(params rlwe.Parameters, level int, key ...interface{}) (*rlwe.Plaintext, []*big.Int) {
	pt := rlwe.NewPlaintext(params, level)
	ring.NewUniformSampler(uni.KeyedPRNG(key...), params.RingQ().AtLevel(level)).Read(pt.Value)
	return pt, uni.PolyCoeffs(params.RingQ(), pt.Value, level, pt.IsNTT, false)
}

// Instances builds the protocol objects of n parties. mode 0: party 0 is constructed, every other party is a
// ShallowCopy of party 0 (the repository's usage); 1: every party constructs its own; 2: a chain of copies
// (party i = ShallowCopy of party i-1). Results must not depend on the mode.
func Instances[P any](mode, n int, fresh func() P, copyOf func(P) P) []P {
	out := make([]P, n)
	for i := range out {
		switch {
		case i == 0 || mode == 1:
			out[i] = fresh()
		case mode == 2:
			out[i] = copyOf(out[i-1])
		default:
			out[i] = copyOf(out[0])
		}
	}
	return out
}

// InstanceNames are the coverage buckets of the instance axis.
var InstanceNames = [...]string{"copies-of-party0", "all-constructed", "chain-of-copies"}
