package mp

import (
	"fmt"
	"math/big"

	"github.com/tuneinsight/lattigo/v6/core/rlwe"
	"github.com/tuneinsight/lattigo/v6/ring"
	"github.com/tuneinsight/lattigo/v6/ring/ringqp"

	"verif/lib/rk"
	"verif/ref"
	"verif/uni"
)

// RowsQ appends the residue rows of a ring.Poly (levels 0..p.Level()) of ring r.
func RowsQ(rows []Row, r *ring.Ring, p ring.Poly) []Row {
	mod := r.ModuliChain()
	for i := range p.Coeffs {
		rows = append(rows, Row{Q: mod[i], C: p.Coeffs[i]})
	}
	return rows
}

// RowsQP appends the residue rows of a ringqp.Poly.
func RowsQP(rows []Row, params rlwe.Parameters, p ringqp.Poly) []Row {
	rows = RowsQ(rows, params.RingQ(), p.Q)
	if params.RingP() != nil && p.LevelP() >= 0 {
		rows = RowsQ(rows, params.RingP(), p.P)
	}
	return rows
}

// FlatGadget flattens a gadget ciphertext (evaluation-key shaped share); the tag carries the
// shape: decomposition base, digit counts per RNS component, levels, degree.
func FlatGadget(params rlwe.Parameters, g *rlwe.GadgetCiphertext, extraTag string) Flat {
	f := Flat{Tag: fmt.Sprintf("%s|b2=%d|digits=%v|lq=%d|lp=%d|deg=%d", extraTag, g.BaseTwoDecomposition,
		g.BaseTwoDecompositionVectorSize(), g.LevelQ(), g.LevelP(), g.Degree())}
	for i := range g.Value {
		for j := range g.Value[i] {
			for k := range g.Value[i][j] {
				f.Rows = RowsQP(f.Rows, params, g.Value[i][j][k])
			}
		}
	}
	return f
}

// CloneFlat deep-copies the rows (a Flat normally aliases the share's memory).
func CloneFlat(f Flat) Flat {
	g := Flat{Tag: f.Tag, Rows: make([]Row, len(f.Rows))}
	for i, r := range f.Rows {
		g.Rows[i] = Row{Q: r.Q, C: append([]uint64(nil), r.C...)}
	}
	return g
}

// NoiseInf returns ‖phase_sk(el) − want‖∞ with the phase computed independently of the library's
// decryptor (uni.Phase: CRT of the raw residues, schoolbook products over Z).
func NoiseInf(params rlwe.Parameters, el *rlwe.Element[ring.Poly], sk *rlwe.SecretKey, want []*big.Int) *big.Int {
	ph := Phase(params, el, sk)
	Q := uni.QAtLevel(params, el.Level())
	return ref.InfNorm(uni.SubCentered(ph, want, Q))
}

// Phase is the independent phase of an element under sk in the ring of the parameters (standard: negacyclic
// schoolbook products over Z; conjugate invariant: products in the unfolded ring, lib/rk).
func Phase(params rlwe.Parameters, el *rlwe.Element[ring.Poly], sk *rlwe.SecretKey) []*big.Int {
	return rk.Phase(params.RingType(), params.RingQ(), el, rk.Secret(params, sk))
}

// RingFactor bounds a product in the ring: |a*b|_inf <= RingFactor * |a|_inf * |b|_inf. N terms per coefficient in
// Z[X]/(X^N+1); in Z[X+X^-1]/(X^2N+1) an element with N stored coefficients has 2N-1 non-zero unfolded
// coefficients, so 2N terms.
func RingFactor(params rlwe.Parameters) int64 {
	if params.RingType() == ring.ConjugateInvariant {
		return int64(2 * params.N())
	}
	return int64(params.N())
}

func bi(v int64) *big.Int { return big.NewInt(v) }

func mulAll(x *big.Int, ys ...*big.Int) *big.Int {
	r := new(big.Int).Set(x)
	for _, y := range ys {
		r.Mul(r, y)
	}
	return r
}

// GadgetNoiseBound is a sound (support-derived, deliberately generous) bound on the sup-norm of the
// phase error one gadget product adds, for a polynomial at level lvl multiplied with the given key
// (auxiliary level levelP, base-two decomposition b2) whose every row carries key noise of
// sup-norm <= E, the result being read under a secret of sup-norm <= S.
//
//		error = ( Σ_rows digit_row * e_row ) / P  +  rounding of the division by P applied to (c0,c1)
//
//	  - each product digit*e is a negacyclic convolution of N terms: sup <= N * sup(digit) * E;
//	  - levelP > 0 (RNS decomposition in groups of α=levelP+1 primes, base two ignored by the evaluator):
//	    a digit is the residue modulo the group product G_i, reconstructed by a fast basis extension that
//	    may be off by a small multiple of G_i: sup(digit) <= (α+1)*G_i;
//	  - levelP <= 0: one row per prime q_i (sup(digit) <= q_i) or, with base two w, ceil(bits(q_i)/w) rows
//	    with digits < 2^w;
//	  - the division by P rounds each of c0, c1 with an error <= 1/2 plus <= (levelP+1) for the approximate
//	    basis extension; read under s this is <= (levelP+2) * (1 + N*S). No P: no division, no rounding.
func GadgetNoiseBound(params rlwe.Parameters, lvl int, key *rlwe.GadgetCiphertext, E, S *big.Int) *big.Int {
	levelP, b2, digits := key.LevelP(), key.BaseTwoDecomposition, key.BaseTwoDecompositionVectorSize()
	N := bi(RingFactor(params))
	q := params.RingQ().ModuliChain()
	sum := new(big.Int)
	if levelP > 0 {
		alpha := levelP + 1
		for st := 0; st <= lvl; st += alpha {
			G := bi(1)
			for i := st; i < st+alpha && i <= lvl; i++ {
				G.Mul(G, new(big.Int).SetUint64(q[i]))
			}
			sum.Add(sum, mulAll(N, bi(int64(alpha+1)), G, E))
		}
	} else {
		for i := 0; i <= lvl; i++ {
			qi := new(big.Int).SetUint64(q[i])
			if b2 == 0 {
				sum.Add(sum, mulAll(N, qi, E))
			} else {
				// digits[i] rows (as allocated in the key) with digits < 2^b2
				sum.Add(sum, mulAll(N, bi(int64(digits[i])), new(big.Int).Lsh(bi(1), uint(b2)), E))
			}
		}
	}
	if levelP >= 0 {
		P := ref.Prod(params.RingP().ModuliChain()[:levelP+1])
		sum.Div(sum, P)
		sum.Add(sum, bi(1))
		round := mulAll(bi(int64(levelP+2)), new(big.Int).Add(bi(1), new(big.Int).Mul(N, S)))
		sum.Add(sum, round)
	}
	return sum
}

// KeyRowNoise is the evaluator-independent functional oracle for a gadget (evaluation) key: every row (b, a) of
// the key must satisfy  b + a*s_out = P * 2^(w*j) * [residues of RNS group i] * s_in + e  over Q_levelQ * P_levelP,
// i.e. be an RLWE sample of the gadget multiple of the input secret under the output secret. It returns the
// largest |e| over all rows (phase over QP with lib/rk, secrets as integer polynomials; s_in may be any integer
// polynomial, e.g. s^2 for a relinearisation key).
func KeyRowNoise(params rlwe.Parameters, key *rlwe.GadgetCiphertext, sIn, sOut []*big.Int) *big.Int {
	rt := params.RingType()
	levelQ, levelP := key.LevelQ(), key.LevelP()
	rQP := params.RingQP()
	moduli := append([]uint64{}, params.Q()[:levelQ+1]...)
	P := bi(1)
	if levelP >= 0 {
		moduli = append(moduli, params.P()[:levelP+1]...)
		P = ref.Prod(params.P()[:levelP+1])
	}
	alpha := levelP + 1
	if alpha < 1 {
		alpha = 1
	}
	worst := new(big.Int)
	n := len(sIn)
	for i := range key.Value {
		for j := range key.Value[i] {
			row := key.Value[i][j]
			ph, QP := rk.PhaseQP(rt, rQP, row[0], row[1], levelQ, levelP, true, true, sOut)
			// expected: factor * s_in on the residues of group i, zero on every other residue
			factor := new(big.Int).Lsh(P, uint(key.BaseTwoDecomposition*j))
			rows := make([][]uint64, len(moduli))
			for u, q := range moduli {
				rows[u] = make([]uint64, n)
				if u > levelQ || u < i*alpha || u >= (i+1)*alpha {
					continue
				}
				f := ref.ModU(factor, q)
				for c := 0; c < n; c++ {
					rows[u][c] = ref.MulMod(f, ref.ModU(sIn[c], q), q)
				}
			}
			want := rk.PolyCRT(rows, moduli)
			for c := 0; c < n; c++ {
				d := ref.Center(new(big.Int).Mod(new(big.Int).Sub(ph[c], want[c]), QP), QP)
				if d.Abs(d).Cmp(worst) > 0 {
					worst.Set(d)
				}
			}
		}
	}
	return worst
}

// SecretInts returns a secret key as centred integer coefficients.
func SecretInts(params rlwe.Parameters, sk *rlwe.SecretKey) []*big.Int { return rk.Secret(params, sk) }

// RingMul multiplies two integer polynomials in the ring of the parameters; RingAuto applies X -> X^g.
func RingMul(params rlwe.Parameters, a, b []*big.Int) []*big.Int {
	return rk.Mul(params.RingType(), a, b)
}
func RingAuto(params rlwe.Parameters, a []*big.Int, g uint64) []*big.Int {
	return rk.Auto(params.RingType(), a, g)
}

// FillGadget overwrites every polynomial of a gadget ciphertext with uniform residues (keyed, reproducible): the
// content of a receive buffer that held some other share.
func FillGadget(params rlwe.Parameters, g *rlwe.GadgetCiphertext, key ...interface{}) {
	prng := uni.KeyedPRNG(key...)
	for i := range g.Value {
		for j := range g.Value[i] {
			for k := range g.Value[i][j] {
				p := g.Value[i][j][k]
				ringqp.NewUniformSampler(prng, params.RingQP().AtLevel(p.LevelQ(), p.LevelP())).Read(p)
			}
		}
	}
}

// UsedShapes are the two receiver shapes of the decode-into-used-receiver variants for evaluation-key shaped
// shares: A the largest (all of Q and P, the finest base two => most rows), B the smallest (level 0, no P, one row).
func UsedShapes(params rlwe.Parameters, which int) rlwe.EvaluationKeyParameters {
	lq, lp, b2 := params.MaxLevelQ(), params.MaxLevelP(), 7
	if which == 1 {
		lq, lp, b2 = 0, -1, 0
	}
	return rlwe.EvaluationKeyParameters{LevelQ: &lq, LevelP: &lp, BaseTwoDecomposition: &b2}
}
