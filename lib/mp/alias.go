package mp

import (
	"fmt"

	"verif/snap"
)

// SnapOpt: parameter sets, rings and PRNG internals are opaque (immutable tables shared by design; walking them
// costs megabytes per snapshot): what is compared is the objects' own state (buffers, polynomials, metadata).
var SnapOpt = snap.Options{SkipTypes: []string{
	"*sampling.KeyedPRNG", "sampling.KeyedPRNG", "blake2b.XOF", "*blake2b.xof",
	"rlwe.Parameters", "*rlwe.Parameters", "bgv.Parameters", "*bgv.Parameters", "ckks.Parameters", "*ckks.Parameters",
	"ring.Ring", "*ring.Ring", "ringqp.Ring", "*ringqp.Ring", "*ring.SubRing", "ring.SubRing",
}}

// Snap takes a deep snapshot (contents and memory ranges, unexported fields included) of named roots (pointers).
func Snap(roots ...interface{}) *snap.Snapshot { return snap.Take(SnapOpt, roots...) }

// Overlap reports memory shared between two object graphs: "an output must not alias the callee's scratch memory or
// its inputs unless documented". Each argument list is name, pointer, name, pointer, ...
func Overlap(a []interface{}, b []interface{}) string {
	ov := Snap(a...).Overlaps(Snap(b...))
	if len(ov) == 0 {
		return ""
	}
	return fmt.Sprintf("%s shares memory with %s (%d overlapping regions)", ov[0][0], ov[0][1], len(ov))
}

// Changed reports what differs between a snapshot taken before a call and the same roots now.
func Changed(before *snap.Snapshot, roots ...interface{}) string {
	d := before.Diff(Snap(roots...))
	if len(d) == 0 {
		return ""
	}
	if len(d) > 4 {
		return fmt.Sprintf("%v ... (%d paths)", d[:4], len(d))
	}
	return fmt.Sprint(d)
}
