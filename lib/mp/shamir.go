package mp

import (
	"math/big"

	"github.com/tuneinsight/lattigo/v6/core/rlwe"
	"github.com/tuneinsight/lattigo/v6/ring/ringqp"
)

// Reference model of the Shamir layer (refshamir): everything is coefficient-wise and linear, so it is
// done residue by residue over each prime of QP with math/big, directly on the stored residues
// (whatever domain the polynomials are in: NTT and Montgomery forms are linear bijections).

// FlatQP flattens a ringqp.Poly (all Q rows then all P rows) with copies of the residues.
func FlatQP(params rlwe.Parameters, p ringqp.Poly, tag string) Flat {
	return CloneFlat(Flat{Tag: tag, Rows: RowsQP(nil, params, p)})
}

// PointsAdmissible reports whether the public points are pairwise distinct and non-zero modulo
// every prime of QP (Shamir's precondition over each field Z_q); why names the first violation.
func PointsAdmissible(params rlwe.Parameters, pts []uint64) (ok bool, why string) {
	primes := append([]uint64{}, params.Q()...)
	primes = append(primes, params.P()...)
	for _, q := range primes {
		seen := map[uint64]int{}
		for i, x := range pts {
			r := x % q
			if r == 0 {
				return false, "point " + big.NewInt(0).SetUint64(x).String() + " is 0 mod " + big.NewInt(0).SetUint64(q).String()
			}
			if j, dup := seen[r]; dup {
				return false, "points " + big.NewInt(0).SetUint64(pts[j]).String() + " and " + big.NewInt(0).SetUint64(x).String() + " collide mod " + big.NewInt(0).SetUint64(q).String()
			}
			seen[r] = i
		}
	}
	return true, ""
}

// MakeAdmissible walks each candidate upwards in steps of `step` until the list satisfies the precondition.
func MakeAdmissible(params rlwe.Parameters, cand []uint64, step uint64) []uint64 {
	var out []uint64
	for _, x := range cand {
		for {
			if ok, _ := PointsAdmissible(params, append(append([]uint64{}, out...), x)); ok {
				break
			}
			x += step
		}
		out = append(out, x)
	}
	return out
}

func u(x uint64) *big.Int { return new(big.Int).SetUint64(x) }

// EvalShamir is the reference for GenShamirSecretShare: Σ_k coeff[k] * x^k, per residue.
func EvalShamir(coeffs []Flat, x uint64) Flat {
	out := Flat{Tag: coeffs[0].Tag, Rows: make([]Row, len(coeffs[0].Rows))}
	for r := range out.Rows {
		q := coeffs[0].Rows[r].Q
		Q, X := u(q), new(big.Int).Mod(u(x), u(q))
		c := make([]uint64, len(coeffs[0].Rows[r].C))
		for w := range c {
			acc, pow := new(big.Int), big.NewInt(1)
			for k := range coeffs {
				t := new(big.Int).Mul(u(coeffs[k].Rows[r].C[w]%q), pow)
				acc.Add(acc, t)
				acc.Mod(acc, Q)
				pow.Mul(pow, X)
				pow.Mod(pow, Q)
			}
			c[w] = acc.Uint64()
		}
		out.Rows[r] = Row{Q: q, C: c}
	}
	return out
}

// Lagrange returns, for the prime q, the coefficient at 0 of party `own` among the active points:
// Π_{j != own} x_j / (x_j - x_own) mod q (math/big, inverse by ModInverse).
func Lagrange(q uint64, actives []uint64, own uint64) *big.Int {
	Q := u(q)
	num, den := big.NewInt(1), big.NewInt(1)
	for _, xj := range actives {
		if xj == own {
			continue
		}
		num.Mul(num, u(xj))
		num.Mod(num, Q)
		d := new(big.Int).Sub(u(xj), u(own))
		den.Mul(den, d.Mod(d, Q))
		den.Mod(den, Q)
	}
	inv := new(big.Int).ModInverse(den, Q)
	if inv == nil {
		return nil // colliding points: no coefficient exists
	}
	return num.Mul(num, inv).Mod(num, Q)
}

// ScaleFlat multiplies every row by the per-prime scalar lam(q).
func ScaleFlat(f Flat, lam func(q uint64) *big.Int) Flat {
	out := Flat{Tag: f.Tag, Rows: make([]Row, len(f.Rows))}
	for r, row := range f.Rows {
		l, Q := lam(row.Q), u(row.Q)
		c := make([]uint64, len(row.C))
		for w := range c {
			t := new(big.Int).Mul(u(row.C[w]%row.Q), l)
			c[w] = t.Mod(t, Q).Uint64()
		}
		out.Rows[r] = Row{Q: row.Q, C: c}
	}
	return out
}

// Retag returns f with another tag (sums of differently tagged flats).
func Retag(f Flat, tag string) Flat { return Flat{Tag: tag, Rows: f.Rows} }

// SecretFromCoeffs builds an rlwe.SecretKey from small integer coefficients (stored, like the key
// generator's keys, in the NTT and Montgomery domains over Q and P).
func SecretFromCoeffs(params rlwe.Parameters, coeffs []int64) *rlwe.SecretKey {
	sk := rlwe.NewSecretKey(params)
	set := func(rows [][]uint64, mod []uint64) {
		for i, q := range mod {
			for j, v := range coeffs {
				if v >= 0 {
					rows[i][j] = uint64(v) % q
				} else {
					rows[i][j] = q - uint64(-v)%q
				}
			}
		}
	}
	set(sk.Value.Q.Coeffs, params.Q())
	if params.RingP() != nil {
		set(sk.Value.P.Coeffs, params.P())
	}
	rqp := params.RingQP()
	rqp.NTT(sk.Value, sk.Value)
	rqp.MForm(sk.Value, sk.Value)
	return sk
}
