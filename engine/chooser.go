// Package engine is the bounded-exhaustive explorer shared by all checks (DESIGN §2).
//
// A harness is an ordinary Go function that asks a *Chooser for every decision it needs. The
// engine runs the harness once per leaf of the resulting choice tree, depth-first: it replays a
// prefix of recorded choices (a replayed choice that no longer fits is a hard error: captured
// nondeterminism failed), takes choice 0 at every later point and then branches on every
// alternative, either over the full product or under a deviation bound.
package engine

import (
	"fmt"
	"hash/fnv"
	"sort"
)

// point is one recorded decision.
type point struct {
	N     int
	Label string
	Taken int
	Free  bool // does not count as a deviation
}

// Violation is one oracle failure of one leaf.
type Violation struct {
	Sig string `json:"sig"` // stable signature: call site / input class (known-finding key)
	Msg string `json:"msg"`
}

// Chooser is handed to a harness for one execution (one leaf).
type Chooser struct {
	prefix   []int
	plabels  []string
	trace    []point
	viol     []Violation
	skipped  string
	evals    int64
	outcomes map[uint64]struct{}
	states   map[uint64]struct{}
	trans    int64
	cover    map[string]int64
	notes    []string
	Verbose  bool
	Seed     uint64
	Tier     string
}

type engineError struct{ msg string }

func (e engineError) Error() string { return e.msg }

// Choose returns a value in [0,n). Value 0 is the default (ordinary) answer.
func (c *Chooser) Choose(n int, label string) int { return c.choose(n, label, false) }

// ChooseFree is Choose for an axis that is always fully enumerated (no deviation cost).
func (c *Chooser) ChooseFree(n int, label string) int { return c.choose(n, label, true) }

func (c *Chooser) choose(n int, label string, free bool) int {
	if n <= 0 {
		panic(engineError{fmt.Sprintf("Choose(%d,%q): empty domain", n, label)})
	}
	i := len(c.trace)
	v := 0
	if i < len(c.prefix) {
		v = c.prefix[i]
		if v >= n || (i < len(c.plabels) && c.plabels[i] != "" && c.plabels[i] != label) {
			panic(engineError{fmt.Sprintf("replay divergence at point %d: recorded %d/%q, now n=%d label=%q",
				i, v, c.plabel(i), n, label)})
		}
	}
	c.trace = append(c.trace, point{N: n, Label: label, Taken: v, Free: free})
	return v
}

func (c *Chooser) plabel(i int) string {
	if i < len(c.plabels) {
		return c.plabels[i]
	}
	return ""
}

// Bool is Choose(2).
func (c *Chooser) Bool(label string) bool { return c.Choose(2, label) == 1 }

// Fail records an oracle failure. sig must identify the call site / input class, not the instance.
func (c *Chooser) Fail(sig, format string, args ...interface{}) {
	for _, v := range c.viol {
		if v.Sig == sig {
			return // one entry per signature and leaf
		}
	}
	if len(c.viol) < 16 {
		c.viol = append(c.viol, Violation{Sig: sig, Msg: fmt.Sprintf(format, args...)})
	}
}

// Failed reports whether this leaf already recorded a violation.
func (c *Chooser) Failed() bool { return len(c.viol) > 0 }

// Skip marks the leaf as outside the scope of the property (counted, not judged).
func (c *Chooser) Skip(reason string) { c.skipped = reason }

// Count adds n evaluations performed inside this leaf (a leaf may be a batch).
func (c *Chooser) Count(n int) { c.evals += int64(n) }

// Outcome records an observed outcome class (for vacuity detection: one outcome = nothing collided).
func (c *Chooser) Outcome(parts ...interface{}) {
	c.outcomes[hashOf(parts...)] = struct{}{}
}

// State records a visited state and one transition into it (model-checking evidence).
func (c *Chooser) State(parts ...interface{}) {
	c.states[hashOf(parts...)] = struct{}{}
	c.trans++
}

// Cover increments a coverage bucket "axis=bucket".
func (c *Chooser) Cover(axis, bucket string) { c.cover[axis+"="+bucket]++ }

// Note attaches a human-readable detail to the leaf (kept in samples and replay artefacts).
func (c *Chooser) Note(format string, args ...interface{}) {
	if len(c.notes) < 32 {
		c.notes = append(c.notes, fmt.Sprintf(format, args...))
	}
}

// Logf prints only in replay (verbose) mode.
func (c *Chooser) Logf(format string, args ...interface{}) {
	if c.Verbose {
		fmt.Printf("  | "+format+"\n", args...)
	}
}

func hashOf(parts ...interface{}) uint64 {
	h := fnv.New64a()
	for _, p := range parts {
		switch v := p.(type) {
		case []byte:
			h.Write(v)
		case string:
			h.Write([]byte(v))
		case []uint64:
			var b [8]byte
			for _, x := range v {
				for k := 0; k < 8; k++ {
					b[k] = byte(x >> (8 * k))
				}
				h.Write(b[:])
			}
		default:
			fmt.Fprintf(h, "%v", v)
		}
		h.Write([]byte{0xff})
	}
	return h.Sum64()
}

// Hash is exported for harnesses that want to pre-hash large states.
func Hash(parts ...interface{}) uint64 { return hashOf(parts...) }

func (c *Chooser) choices() []int {
	r := make([]int, len(c.trace))
	for i, p := range c.trace {
		r[i] = p.Taken
	}
	return r
}

func (c *Chooser) labels() []string {
	r := make([]string, len(c.trace))
	for i, p := range c.trace {
		r[i] = p.Label
	}
	return r
}

func (c *Chooser) describe() string {
	s := ""
	for i, p := range c.trace {
		if i > 0 {
			s += " "
		}
		s += fmt.Sprintf("%s=%d/%d", p.Label, p.Taken, p.N)
	}
	return s
}

func sortedKeys(m map[string]int64) []string {
	k := make([]string, 0, len(m))
	for s := range m {
		k = append(k, s)
	}
	sort.Strings(k)
	return k
}
