package engine

import (
	"fmt"
	"runtime"
	"strings"
	"time"
)

// Scenario is one closed harness: a function whose decisions all go through the Chooser.
type Scenario struct {
	Name string
	Fn   func(c *Chooser)
	// Bound < 0: full product of all choice points. Bound >= 0: at most Bound non-default
	// answers at non-free points (iterative deviation bounding collapses to one pass because
	// every execution with <= Bound deviations is enumerated exactly once).
	Bound int
}

// leafResult is what one execution produced.
type leafResult struct {
	Choices []int
	Labels  []string
	Desc    string
	Viol    []Violation
	Skipped string
	Notes   []string
}

type workerStats struct {
	Leaves            int64
	Evals             int64
	Skipped           int64
	Transitions       int64
	Outcomes          map[uint64]struct{}
	States            map[uint64]struct{}
	Cover             map[string]int64
	Violations        []foundViolation
	Samples           []sample
	Capped            bool
	CPU, MaxWorkerCPU float64 // parent only: CPU seconds of the worker processes
	Nondet            []string
	PerScenario       map[string]int64
	MaxDepth          int
	SkipReasons       map[string]int64
	perSig            map[string]int
}

type foundViolation struct {
	Scenario string      `json:"scenario"`
	Choices  []int       `json:"choices"`
	Labels   []string    `json:"labels"`
	Desc     string      `json:"desc"`
	Viol     []Violation `json:"violations"`
	Notes    []string    `json:"notes,omitempty"`
}

type sample struct {
	Scenario string   `json:"scenario"`
	Choices  string   `json:"choices"`
	Notes    []string `json:"notes,omitempty"`
	Verdict  string   `json:"verdict"`
}

// keep caps the stored violating leaves per signature set (3 each, 5000 overall) so that a hot known
// defect can never crowd out a different signature.
func (st *workerStats) keep(v []Violation) bool {
	key := ""
	for _, x := range v {
		key += x.Sig + "|"
	}
	if st.perSig == nil {
		st.perSig = map[string]int{}
	}
	st.perSig[key]++
	return st.perSig[key] <= 3 && len(st.Violations) < 5000
}

func newStats() *workerStats {
	return &workerStats{
		Outcomes: map[uint64]struct{}{}, States: map[uint64]struct{}{}, Cover: map[string]int64{},
		PerScenario: map[string]int64{}, SkipReasons: map[string]int64{},
	}
}

type explorer struct {
	ck       *Check
	tier     string
	seed     uint64
	deadline time.Time
	st       *workerStats
	verbose  bool
	recheck  int // leaves still to be re-run for the determinism gate
}

// runLeaf executes the harness once with the given prefix.
func (e *explorer) runLeaf(sc *Scenario, prefix []int, plabels []string, into *workerStats) (c *Chooser, res leafResult) {
	c = &Chooser{prefix: prefix, plabels: plabels, outcomes: into.Outcomes, states: into.States,
		cover: into.Cover, Verbose: e.verbose, Seed: e.seed, Tier: e.tier}
	func() {
		defer func() {
			if r := recover(); r != nil {
				if ee, ok := r.(engineError); ok {
					panic(ee) // harness/engine defect: never a verdict
				}
				site := panicSite()
				c.viol = append(c.viol, Violation{Sig: "panic@" + site, Msg: fmt.Sprintf("panic: %v", r)})
			}
		}()
		sc.Fn(c)
	}()
	into.Transitions += c.trans
	res = leafResult{Choices: c.choices(), Labels: c.labels(), Desc: c.describe(), Viol: c.viol,
		Skipped: c.skipped, Notes: c.notes}
	return
}

// panicSite returns the innermost non-runtime frame of a recovered panic: a stable signature.
func panicSite() string {
	pcs := make([]uintptr, 64)
	n := runtime.Callers(3, pcs)
	frames := runtime.CallersFrames(pcs[:n])
	for {
		f, more := frames.Next()
		fn := f.Function
		if fn != "" && !strings.HasPrefix(fn, "runtime.") && !strings.Contains(fn, "verif/engine.") {
			if i := strings.LastIndex(fn, "/"); i >= 0 {
				fn = fn[i+1:]
			}
			return fn
		}
		if !more {
			return "unknown"
		}
	}
}

func (e *explorer) exploreScenario(sc *Scenario) {
	e.explore(sc, nil, nil)
}

func (e *explorer) explore(sc *Scenario, prefix []int, plabels []string) {
	if e.st.Capped {
		return
	}
	if time.Now().After(e.deadline) {
		e.st.Capped = true
		return
	}
	c, res := e.runLeaf(sc, prefix, plabels, e.st)
	e.account(sc, c, res)
	trace := c.trace
	if len(trace) > e.st.MaxDepth {
		e.st.MaxDepth = len(trace)
	}
	// deviations spent inside the prefix
	dev := 0
	for i := 0; i < len(prefix); i++ {
		if !trace[i].Free && trace[i].Taken != 0 {
			dev++
		}
	}
	labels := res.Labels
	for i := len(prefix); i < len(trace); i++ {
		p := trace[i]
		cost := dev
		if !p.Free {
			cost++
		}
		if sc.Bound >= 0 && cost > sc.Bound {
			continue
		}
		for alt := 1; alt < p.N; alt++ {
			np := make([]int, i+1)
			copy(np, res.Choices[:i])
			np[i] = alt
			e.explore(sc, np, labels[:i+1])
			if e.st.Capped {
				return
			}
		}
	}
}

func (e *explorer) account(sc *Scenario, c *Chooser, res leafResult) {
	st := e.st
	st.Leaves++
	st.PerScenario[sc.Name]++
	if c.evals == 0 {
		st.Evals++
	} else {
		st.Evals += c.evals
	}
	verdict := "ok"
	if res.Skipped != "" {
		st.Skipped++
		st.SkipReasons[res.Skipped]++
		verdict = "out-of-scope: " + res.Skipped
	}
	if len(res.Viol) > 0 && res.Skipped == "" {
		verdict = "VIOLATION " + res.Viol[0].Sig
		// determinism gate: the same choice vector must fail the same way, every time
		same := true
		for k := 0; k < 2 && same; k++ {
			scratch := newStats()
			_, r2 := e.runLeaf(sc, res.Choices, res.Labels, scratch)
			same = sameViol(res.Viol, r2.Viol)
		}
		if !same {
			st.Nondet = append(st.Nondet, sc.Name+" "+res.Desc)
		} else if st.keep(res.Viol) {
			st.Violations = append(st.Violations, foundViolation{Scenario: sc.Name, Choices: res.Choices,
				Labels: res.Labels, Desc: res.Desc, Viol: res.Viol, Notes: res.Notes})
		}
	} else if e.recheck > 0 {
		// determinism gate on passing leaves: observations of a re-run must be identical
		e.recheck--
		scratch := newStats()
		_, r2 := e.runLeaf(sc, res.Choices, res.Labels, scratch)
		if len(r2.Viol) != 0 || r2.Skipped != res.Skipped {
			st.Nondet = append(st.Nondet, sc.Name+" "+res.Desc+" (re-run verdict differs)")
		}
		for h := range scratch.Outcomes {
			if _, ok := st.Outcomes[h]; !ok {
				st.Nondet = append(st.Nondet, sc.Name+" "+res.Desc+" (re-run observed a new outcome)")
				break
			}
		}
	}
	// samples: first leaves of each scenario, and any violating leaf
	if st.PerScenario[sc.Name] <= 1 && len(st.Samples) < 12 || (len(res.Viol) > 0 && len(st.Samples) < 24) {
		st.Samples = append(st.Samples, sample{Scenario: sc.Name, Choices: res.Desc, Notes: res.Notes, Verdict: verdict})
	}
}

func sameViol(a, b []Violation) bool {
	if len(a) != len(b) {
		return false
	}
	for i := range a {
		if a[i].Sig != b[i].Sig {
			return false
		}
	}
	return true
}
