package engine

import (
	"bufio"
	"context"
	"crypto/sha256"
	"encoding/binary"
	"encoding/hex"
	"encoding/json"
	"flag"
	"fmt"
	"math"
	"os"
	"os/exec"
	"path/filepath"
	"runtime"
	"sort"
	"strconv"
	"strings"
	"syscall"
	"time"
)

// Check is one property's verification: a catalogue of scenarios per tier.
type Check struct {
	ID          string // C01..
	Level       string // evidence level (EVIDENCE.schema.json enum)
	Rule        string // how cases are enumerated / what makes one non-trivial
	Assumptions []string
	Scenarios   func(tier string) []Scenario
	// Budget is the internal deadline per tier; hitting it ends the run with exit 0 and exhaustive:false.
	QuickBudget, ThoroughBudget time.Duration
	// Expect lists coverage buckets ("axis=bucket") that must be hit, else the run is vacuous (exit 3).
	Expect func(tier string) []string
	// MemLimitMB, when >0, is applied to workers with RLIMIT_AS so that a runaway allocation in the
	// code under test kills the worker (an observation) instead of the sandbox.
	MemLimitMB int
	Extra      func(tier string) map[string]interface{} // extra evidence keys
	Workers    int
}

const root = "/verif"

type workerReport struct {
	Leaves, Evals, Skipped, Transitions int64
	Outcomes, States                    []byte // little-endian uint64 hashes
	Cover                               map[string]int64
	Violations                          []foundViolation
	Samples                             []sample
	Capped                              bool
	Nondet                              []string
	PerScenario                         map[string]int64
	MaxDepth                            int
	SkipReasons                         map[string]int64
	Scenarios                           int
}

func packSet(m map[uint64]struct{}) []byte {
	const capN = 4 << 20
	b := make([]byte, 0, 8*len(m))
	var w [8]byte
	n := 0
	for h := range m {
		if n >= capN {
			break
		}
		binary.LittleEndian.PutUint64(w[:], h)
		b = append(b, w[:]...)
		n++
	}
	return b
}

func unpackInto(b []byte, m map[uint64]struct{}) {
	for i := 0; i+8 <= len(b); i += 8 {
		m[binary.LittleEndian.Uint64(b[i:])] = struct{}{}
	}
}

// Main is the entry point of every check binary.
func Main(ck Check) {
	tier := flag.String("tier", "quick", "quick|thorough")
	replay := flag.String("replay", "", "replay artefact to re-execute")
	worker := flag.String("worker", "", "internal: i/n")
	out := flag.String("out", "", "internal: worker report path")
	only := flag.String("only", "", "run only scenarios whose name contains this substring (debugging; evidence not written)")
	list := flag.Bool("list", false, "list scenarios")
	flag.Parse()
	if v := os.Getenv("VERIF_TIER"); v != "" && !isFlagSet("tier") {
		*tier = v
	}
	if *tier != "quick" && *tier != "thorough" {
		fmt.Fprintln(os.Stderr, "bad tier")
		os.Exit(2)
	}
	seed := uint64(1)
	if v := os.Getenv("VERIF_SEED"); v != "" {
		if s, err := strconv.ParseInt(v, 10, 64); err == nil {
			seed = uint64(s)
		}
	}
	if *list {
		for _, s := range ck.Scenarios(*tier) {
			fmt.Println(s.Name)
		}
		return
	}
	if *replay != "" {
		os.Exit(doReplay(&ck, *replay, seed))
	}
	if *worker != "" {
		os.Exit(doWorker(&ck, *tier, seed, *worker, *out, *only))
	}
	os.Exit(doParent(&ck, *tier, seed, *only))
}

func isFlagSet(name string) bool {
	set := false
	flag.Visit(func(f *flag.Flag) {
		if f.Name == name {
			set = true
		}
	})
	return set
}

func budget(ck *Check, tier string) time.Duration {
	b := ck.QuickBudget
	if tier == "thorough" {
		b = ck.ThoroughBudget
	}
	if b == 0 {
		if tier == "thorough" {
			b = 20 * time.Minute
		} else {
			b = 150 * time.Second
		}
	}
	return b
}

func selectScenarios(ck *Check, tier, only string) []Scenario {
	all := ck.Scenarios(tier)
	seen := map[string]bool{}
	for _, s := range all {
		if seen[s.Name] {
			panic("duplicate scenario name " + s.Name)
		}
		seen[s.Name] = true
	}
	if only == "" {
		return all
	}
	var r []Scenario
	for _, s := range all {
		if strings.Contains(s.Name, only) {
			r = append(r, s)
		}
	}
	return r
}

func doWorker(ck *Check, tier string, seed uint64, spec, out, only string) int {
	var wi, wn int
	fmt.Sscanf(spec, "%d/%d", &wi, &wn)
	if ck.MemLimitMB > 0 {
		lim := uint64(ck.MemLimitMB) << 20
		_ = syscall.Setrlimit(syscall.RLIMIT_AS, &syscall.Rlimit{Cur: lim, Max: lim})
	}
	runtime.GOMAXPROCS(1)
	scs := selectScenarios(ck, tier, only)
	e := &explorer{ck: ck, tier: tier, seed: seed, deadline: time.Now().Add(budget(ck, tier)), st: newStats(), recheck: 3}
	n := 0
	for i := range scs {
		if i%wn != wi {
			continue
		}
		// breadcrumb for crash attribution (fatal errors cannot be recovered)
		fmt.Fprintf(os.Stderr, "@scenario %s\n", scs[i].Name)
		e.exploreScenario(&scs[i])
		n++
	}
	st := e.st
	rep := workerReport{Leaves: st.Leaves, Evals: st.Evals, Skipped: st.Skipped, Transitions: st.Transitions,
		Outcomes: packSet(st.Outcomes), States: packSet(st.States), Cover: st.Cover, Violations: st.Violations,
		Samples: st.Samples, Capped: st.Capped, Nondet: st.Nondet, PerScenario: st.PerScenario,
		MaxDepth: st.MaxDepth, SkipReasons: st.SkipReasons, Scenarios: n}
	f, err := os.Create(out)
	if err != nil {
		fmt.Fprintln(os.Stderr, err)
		return 2
	}
	defer f.Close()
	if err := json.NewEncoder(f).Encode(&rep); err != nil {
		fmt.Fprintln(os.Stderr, err)
		return 2
	}
	return 0
}

type knownFinding struct {
	Property, Sig, What string
	hit                 bool
}

func loadKnown(id string) []*knownFinding {
	f, err := os.Open(filepath.Join(root, "known_findings.txt"))
	if err != nil {
		return nil
	}
	defer f.Close()
	var r []*knownFinding
	sc := bufio.NewScanner(f)
	for sc.Scan() {
		line := strings.TrimSpace(sc.Text())
		// finding: property=C08 sig=<sig> :: <what fails>
		if !strings.HasPrefix(line, "finding:") {
			continue // "fixed:" lines and comments suppress nothing
		}
		rest := strings.TrimSpace(strings.TrimPrefix(line, "finding:"))
		parts := strings.SplitN(rest, "::", 2)
		fields := strings.Fields(parts[0])
		k := &knownFinding{}
		for _, fl := range fields {
			if strings.HasPrefix(fl, "property=") {
				k.Property = strings.TrimPrefix(fl, "property=")
			}
			if strings.HasPrefix(fl, "sig=") {
				k.Sig = strings.TrimPrefix(fl, "sig=")
			}
		}
		if len(parts) == 2 {
			k.What = strings.TrimSpace(parts[1])
		}
		if k.Property == id && k.Sig != "" {
			r = append(r, k)
		}
	}
	return r
}

func doParent(ck *Check, tier string, seed uint64, only string) int {
	t0 := time.Now()
	scs := selectScenarios(ck, tier, only)
	if len(scs) == 0 {
		fmt.Println("no scenarios")
		return 2
	}
	nw := ck.Workers
	if nw == 0 {
		nw = runtime.NumCPU()
		if nw > 16 {
			nw = 16
		}
	}
	if nw > len(scs) {
		nw = len(scs)
	}
	work := filepath.Join(root, ".work")
	_ = os.MkdirAll(work, 0o755)
	dir, err := os.MkdirTemp(work, strings.ToLower(ck.ID)+"-")
	if err != nil {
		fmt.Println(err)
		return 2
	}
	defer os.RemoveAll(dir)
	self, _ := os.Executable()
	type wres struct {
		i    int
		err  error
		tail string
		cpu  float64 // user+system seconds of the worker process
	}
	ch := make(chan wres, nw)
	for i := 0; i < nw; i++ {
		go func(i int) {
			args := []string{"-tier", tier, "-worker", fmt.Sprintf("%d/%d", i, nw), "-out", filepath.Join(dir, fmt.Sprintf("w%d.json", i))}
			if only != "" {
				args = append(args, "-only", only)
			}
			grace := budget(ck, tier)
			if grace < 3*time.Minute {
				grace = 3 * time.Minute
			}
			ctx, cancel := context.WithTimeout(context.Background(), budget(ck, tier)+grace)
			defer cancel()
			cmd := exec.CommandContext(ctx, self, args...)
			cmd.Env = append(os.Environ(), "GOMAXPROCS=1")
			errf, _ := os.Create(filepath.Join(dir, fmt.Sprintf("w%d.err", i)))
			cmd.Stderr = errf
			cmd.Stdout = errf
			err := cmd.Run()
			errf.Close()
			tail := ""
			if err != nil {
				b, _ := os.ReadFile(filepath.Join(dir, fmt.Sprintf("w%d.err", i)))
				tail = string(b)
				if ctx.Err() != nil {
					tail += "\n@hang: worker exceeded budget+grace and was killed\n"
				}
			}
			cpu := 0.0
			if ps := cmd.ProcessState; ps != nil {
				cpu = (ps.UserTime() + ps.SystemTime()).Seconds()
			}
			ch <- wres{i, err, tail, cpu}
		}(i)
	}
	total := newStats()
	var crashes []string
	scenariosRun := 0
	for k := 0; k < nw; k++ {
		r := <-ch
		total.CPU += r.cpu
		if r.cpu > total.MaxWorkerCPU {
			total.MaxWorkerCPU = r.cpu
		}
		if r.err != nil {
			// find the last breadcrumb
			last := ""
			for _, l := range strings.Split(r.tail, "\n") {
				if strings.HasPrefix(l, "@scenario ") {
					last = strings.TrimPrefix(l, "@scenario ")
				}
			}
			t := r.tail
			if len(t) > 3000 {
				t = t[:1200] + "\n...\n" + t[len(t)-1500:]
			}
			crashes = append(crashes, fmt.Sprintf("worker %d died (%v) in scenario %q:\n%s", r.i, r.err, last, t))
			continue
		}
		b, err := os.ReadFile(filepath.Join(dir, fmt.Sprintf("w%d.json", r.i)))
		var rep workerReport
		if err == nil {
			err = json.Unmarshal(b, &rep)
		}
		if err != nil {
			crashes = append(crashes, fmt.Sprintf("worker %d: unreadable report: %v", r.i, err))
			continue
		}
		total.Leaves += rep.Leaves
		total.Evals += rep.Evals
		total.Skipped += rep.Skipped
		total.Transitions += rep.Transitions
		unpackInto(rep.Outcomes, total.Outcomes)
		unpackInto(rep.States, total.States)
		for k, v := range rep.Cover {
			total.Cover[k] += v
		}
		for k, v := range rep.PerScenario {
			total.PerScenario[k] += v
		}
		for k, v := range rep.SkipReasons {
			total.SkipReasons[k] += v
		}
		total.Violations = append(total.Violations, rep.Violations...)
		total.Samples = append(total.Samples, rep.Samples...)
		total.Nondet = append(total.Nondet, rep.Nondet...)
		total.Capped = total.Capped || rep.Capped
		if rep.MaxDepth > total.MaxDepth {
			total.MaxDepth = rep.MaxDepth
		}
		scenariosRun += rep.Scenarios
	}
	wall := time.Since(t0).Seconds()

	// classify violations
	known := loadKnown(ck.ID)
	exit := 0
	unlisted := 0
	seenSig := map[string]bool{}
	sort.Slice(total.Violations, func(i, j int) bool {
		a, b := total.Violations[i], total.Violations[j]
		if a.Scenario != b.Scenario {
			return a.Scenario < b.Scenario
		}
		return len(a.Choices) < len(b.Choices)
	})
	knownHits := map[string]int{}
	for _, v := range total.Violations {
		allKnown := true
		for _, vv := range v.Viol {
			matched := false
			for _, k := range known {
				if k.Sig == vv.Sig {
					k.hit = true
					matched = true
					knownHits[k.Sig]++
				}
			}
			if !matched {
				allKnown = false
			}
		}
		if allKnown {
			continue
		}
		unlisted++
		// one artefact per distinct unlisted signature set
		key := ""
		for _, vv := range v.Viol {
			key += vv.Sig + "|"
		}
		if seenSig[key] {
			continue
		}
		seenSig[key] = true
		path := writeReplay(ck, tier, seed, v)
		fmt.Printf("VIOLATION property=%s replay=%s\n", ck.ID, path)
		for _, vv := range v.Viol {
			fmt.Printf("  sig=%s :: %s\n", vv.Sig, vv.Msg)
		}
		fmt.Printf("  scenario=%s choices: %s\n", v.Scenario, v.Desc)
		exit = 1
	}
	for _, k := range known {
		if k.hit {
			fmt.Printf("KNOWN-FINDING: property=%s %s [sig=%s, %d leaves]\n", ck.ID, k.What, k.Sig, knownHits[k.Sig])
		} else if only == "" && !total.Capped {
			fmt.Printf("note: known finding sig=%s was not reproduced by this run (tier %s)\n", k.Sig, tier)
		}
	}
	for _, c := range crashes {
		// a dead worker is a fatal error / hang inside the code under test unless the engine itself
		// complained (replay divergence etc.), which is a harness defect and never a verdict
		if strings.Contains(c, "@hang:") {
			// killed after budget+grace: a time cap is never a verdict (a slow machine or a slow leaf looks
			// exactly like this); the run is reported as not exhaustive. Checks that must decide "never hangs"
			// (C19) run the call under their own watchdog inside the leaf.
			fmt.Println("TIME-CAP (no verdict):", strings.SplitN(c, "\n", 2)[0])
			total.Capped = true
			continue
		}
		if strings.Contains(c, "engine.engineError") || strings.Contains(c, "unreadable report") {
			fmt.Println("ENGINE-ERROR:", c)
			if exit == 0 {
				exit = 2
			}
			continue
		}
		dirR := filepath.Join(root, "replays")
		_ = os.MkdirAll(dirR, 0o755)
		h := sha256.Sum256([]byte(c))
		path := filepath.Join(dirR, fmt.Sprintf("%s-crash-%s.txt", ck.ID, hex.EncodeToString(h[:6])))
		_ = os.WriteFile(path, []byte(c), 0o644)
		fmt.Printf("VIOLATION property=%s replay=%s\n", ck.ID, path)
		fmt.Println("  WORKER-CRASH (fatal error or hang while executing the code under test):", c)
		unlisted++
		exit = 1
	}
	for _, n := range total.Nondet {
		fmt.Println("NONDETERMINISM (harness defect, no verdict):", n)
		if exit == 0 {
			exit = 2
		}
	}
	// vacuity
	var missing []string
	if ck.Expect != nil && only == "" && !total.Capped {
		for _, b := range ck.Expect(tier) {
			if total.Cover[b] == 0 {
				missing = append(missing, b)
			}
		}
	}
	if len(missing) > 0 {
		fmt.Println("VACUOUS: coverage buckets never hit:", strings.Join(missing, ", "))
		if exit == 0 {
			exit = 3
		}
	}
	exhaustive := !total.Capped && len(crashes) == 0
	fmt.Printf("%s %s: scenarios=%d leaves=%d evaluations=%d out_of_scope=%d distinct_outcomes=%d states=%d transitions=%d violations=%d(unlisted %d) exhaustive=%v wall=%.1fs cpu=%.0fs max_worker_cpu=%.1fs\n",
		ck.ID, tier, scenariosRun, total.Leaves, total.Evals, total.Skipped, len(total.Outcomes), len(total.States),
		total.Transitions, len(total.Violations), unlisted, exhaustive, wall, total.CPU, total.MaxWorkerCPU)
	if only == "" {
		writeEvidence(ck, tier, seed, total, scenariosRun, exhaustive, wall, unlisted, known)
	}
	return exit
}

func writeReplay(ck *Check, tier string, seed uint64, v foundViolation) string {
	dir := filepath.Join(root, "replays")
	_ = os.MkdirAll(dir, 0o755)
	art := map[string]interface{}{"check": ck.ID, "tier": tier, "seed": seed, "scenario": v.Scenario,
		"choices": v.Choices, "labels": v.Labels, "desc": v.Desc, "violations": v.Viol, "notes": v.Notes,
		"replay_cmd": fmt.Sprintf("./run %s %s --replay <this file>", ck.ID, tier)}
	b, _ := json.MarshalIndent(art, "", " ")
	h := sha256.Sum256(b)
	path := filepath.Join(dir, fmt.Sprintf("%s-%s.json", ck.ID, hex.EncodeToString(h[:6])))
	_ = os.WriteFile(path, b, 0o644)
	return path
}

func doReplay(ck *Check, path string, seed uint64) int {
	b, err := os.ReadFile(path)
	if err != nil {
		fmt.Println(err)
		return 2
	}
	var art struct {
		Tier     string
		Seed     uint64
		Scenario string
		Choices  []int
		Labels   []string
	}
	if err := json.Unmarshal(b, &art); err != nil {
		fmt.Println(err)
		return 2
	}
	if art.Seed != 0 {
		seed = art.Seed
	}
	for _, sc := range ck.Scenarios(art.Tier) {
		if sc.Name != art.Scenario {
			continue
		}
		e := &explorer{ck: ck, tier: art.Tier, seed: seed, st: newStats(), verbose: true}
		sc := sc
		c, res := e.runLeaf(&sc, art.Choices, art.Labels, e.st)
		fmt.Printf("replayed %s: %s\n", sc.Name, c.describe())
		for _, n := range res.Notes {
			fmt.Println("  note:", n)
		}
		if len(res.Viol) > 0 && res.Skipped == "" {
			fmt.Printf("VIOLATION property=%s replay=%s\n", ck.ID, path)
			for _, v := range res.Viol {
				fmt.Printf("  sig=%s :: %s\n", v.Sig, v.Msg)
			}
			return 1
		}
		fmt.Println("no violation on replay")
		return 0
	}
	fmt.Println("scenario not found:", art.Scenario)
	return 2
}

func writeEvidence(ck *Check, tier string, seed uint64, st *workerStats, scenarios int, exhaustive bool, wall float64, unlisted int, known []*knownFinding) {
	samples := make([]interface{}, 0, 8)
	sort.Slice(st.Samples, func(i, j int) bool { return st.Samples[i].Scenario < st.Samples[j].Scenario })
	step := 1
	if len(st.Samples) > 8 {
		step = len(st.Samples) / 8
	}
	for i := 0; i < len(st.Samples) && len(samples) < 10; i += step {
		samples = append(samples, st.Samples[i])
	}
	if len(samples) == 0 {
		samples = append(samples, "none")
	}
	cover := map[string]int64{}
	for _, k := range sortedKeys(st.Cover) {
		cover[k] = st.Cover[k]
	}
	distinct := len(st.Outcomes)
	states := len(st.States)
	kf := []string{}
	for _, k := range known {
		if k.hit {
			kf = append(kf, k.Sig)
		}
	}
	cov := map[string]interface{}{
		"evaluations":         st.Evals,
		"distinct_nontrivial": distinct,
		"rule":                ck.Rule,
		"samples":             samples,
		"exhaustive":          exhaustive,
		"executions":          st.Leaves,
		"scenarios":           scenarios,
		"out_of_scope":        st.Skipped,
		"out_of_scope_why":    st.SkipReasons,
		"max_choice_depth":    st.MaxDepth,
		"axis_coverage":       cover,
		"time_cap_hit":        st.Capped,
		// load-independent cost: total CPU of the worker processes and the heaviest worker (≈ wall time alone on 16 idle cores)
		"cpu_s":              math.Round(st.CPU*10) / 10,
		"max_worker_cpu_s":   math.Round(st.MaxWorkerCPU*10) / 10,
		"known_findings_hit": kf,
	}
	if states > 0 {
		cov["states"] = states
		cov["transitions"] = st.Transitions
		// every explored execution is an execution of the implementation itself (DESIGN §2)
		cov["traces_validated_against_impl"] = st.Leaves
	}
	if ck.Extra != nil {
		for k, v := range ck.Extra(tier) {
			cov[k] = v
		}
	}
	if ck.Assumptions == nil {
		ck.Assumptions = []string{}
	}
	ev := map[string]interface{}{
		"property_id": ck.ID, "tier": tier, "seed": int64(seed), "level": ck.Level, "coverage": cov,
		"assumptions": ck.Assumptions, "wall_s": wall, "violations": unlisted,
	}
	b, _ := json.MarshalIndent(ev, "", " ")
	evdir := filepath.Join(root, "evidence")
	if d := os.Getenv("VERIF_EVIDENCE_DIR"); d != "" {
		evdir = d // mutation-testing runs against a scratch copy must not overwrite real evidence
	}
	_ = os.MkdirAll(evdir, 0o755)
	_ = os.WriteFile(filepath.Join(evdir, ck.ID+".json"), b, 0o644)
}
