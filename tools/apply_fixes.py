#!/usr/bin/env python3
"""tools/apply_fixes.py <prop> <fixes-dir> <readme> <id>...  : apply builder-prepared repair patches to /repo, one `fix:` commit each,
and record them in known_findings.txt (signatures read from the README section of each patch)."""
import re, subprocess, sys, textwrap
prop, d, readme, *ids = sys.argv[1:]
ENV = "export GOFLAGS=-mod=mod GOPROXY=off GOSUMDB=off GOTOOLCHAIN=local; "
lines = open(readme).read().split("\n")
hdr = re.compile(r'^(?:#+ )?(?:C\d\d-)?([A-Z][\w-]*)\s+\(')
def section(i):
    start = [k for k, l in enumerate(lines) if (m := hdr.match(l)) and m.group(1) == i]
    assert len(start) == 1, (i, start)
    k = start[0] + 1
    out = []
    while k < len(lines) and not hdr.match(lines[k]) and not re.match(r'^(#+ )?Not patched', lines[k]):
        out.append(lines[k]); k += 1
    return out
for i in ids:
    sec = section(i)
    msg = []
    started = False
    for l in sec:
        if l.startswith("    "):
            msg.append(l[4:]); started = True
        elif started and l.strip() == "":
            msg.append("")
        elif started:
            break
    msg = "\n".join(msg).strip()
    title, _, body = msg.partition("\n\n")
    title = " ".join(title.split())
    assert title.startswith("fix:"), (i, title)
    body = "\n".join(textwrap.wrap(" ".join(body.split()), 100))
    txt = "\n".join(sec)
    j = txt.find("ignatures that disappear")
    sigs = []
    if j >= 0:
        t = txt[j:]
        e = re.search(r'\n\s*Tests?:', t)
        if e: t = t[:e.start()]
        sigs = []
        for s in re.findall(r'C\d\d/[^\s`]+', t):
            s = s.rstrip('.,;')
            while s.endswith(')') and s.count(')') > s.count('('):
                s = s[:-1].rstrip('.,;')
            sigs.append(s)
    r = subprocess.run(["git", "-C", "/repo", "apply", f"{d}/{i}.diff"], capture_output=True, text=True)
    if r.returncode != 0:
        r = subprocess.run(["git", "-C", "/repo", "apply", "-3", f"{d}/{i}.diff"], capture_output=True, text=True)
        if r.returncode != 0:
            print("APPLY FAILED", i, r.stderr); sys.exit(1)
    b = subprocess.run(ENV + "cd /repo && go build ./... && gofmt -l $(git diff --name-only HEAD)", shell=True, capture_output=True, text=True)
    if b.returncode != 0 or b.stdout.strip():
        print("BUILD/GOFMT FAILED", i, b.stdout, b.stderr); sys.exit(1)
    subprocess.run(["git", "-C", "/repo", "commit", "-qam", title + "\n\n" + body], check=True)
    h = subprocess.run(["git", "-C", "/repo", "rev-parse", "--short", "HEAD"], capture_output=True, text=True).stdout.strip()
    k = subprocess.run(["python3", "/verif/tools/kf.py", "fixed", h, prop, f"[{prop}-{i}] " + title[5:]] + sigs, capture_output=True, text=True)
    print(i, h, title, "| sigs:", len(sigs), k.stdout.strip())
