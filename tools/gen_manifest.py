#!/usr/bin/env python3
"""Regenerates /verif/MANIFEST.json from the table below (kept valid at all times)."""
import json, os, subprocess
ROOT = os.path.dirname(os.path.dirname(os.path.abspath(__file__)))
CHECKS = {
 "C01": dict(cat="exploration", tech="bounded-exhaustive enumeration of the real kernels (lane x boundary-alphabet x alias products, whole tiny fields) against division-based reference arithmetic",
   text="Every exported kernel of ring.SubRing/ring.Ring/ringqp.Ring, the scalar reductions, NTT (both ring types) and automorphisms are executed on every lane x boundary-alphabet combination, on whole tiny prime fields, on every monomial / two-term / dense-extreme polynomial and on every Galois element, for primes of every size class up to 61 bits, and compared with exact integer arithmetic and the documented output ranges.",
   note="Trusted: the reference arithmetic in /verif/ref (hardware division, schoolbook products); prime coverage is by size class, operand coverage on big primes by boundary alphabet (DESIGN §5, §9).", ref="§6 C01"),
 "C10": dict(cat="model_checking", tech="explicit exploration of every interleaving of whole operations of 2-3 threads (original + copies) with a footprint-isolation oracle on reflective memory snapshots, plus exhaustive (constructor x configuration x operation) structural/behavioural comparison",
   text="Every copy constructor in the catalogue (rlwe/bgv/ckks/rgsw evaluators, encoders, encryptors, decryptors, key sets, basis extender, ring level views, 13 multiparty protocols, deep copies of ciphertexts/keys) x every configuration of the original x with/without P x every operation: reflective structural comparison original vs copy, behavioural equality under the same seed, independence by snapshot diff; for copies documented as concurrently usable every op-granular interleaving of 2 (quick) / 3 threads or 2 ops (thorough) is executed with the oracle that no operation changes memory reachable from another thread's object and that results equal the solo runs.",
   note="Reduction lemma (DESIGN §2 E3): no synchronisation in the library, so footprint isolation at operation granularity implies race freedom; writes restoring the old value are invisible to snapshot diffs; rlwe.Scale internals treated as immutable values; WithKey/WithPRNG copies (documented as sharing buffers) are excluded from the concurrency oracle.", ref="§6 C10"),
 "C05": dict(cat="model_checking", tech="explicit-state enumeration of every straight-line program (register machine) up to the length bound on the real BGV/BFV evaluator, compared after every instruction with a Z_t reference model",
   text="Register machine over the real bgv.Evaluator: every program core x wide and wide x core (1384-instruction alphabet: opcode x operand kind x boundary values x destination form) plus the MulRelin/Rescale spine to level 0 with one deviation (quick); wide x wide and core^3 (thorough), on 5-8 tiny parameter sets (t = 17 smaller plaintext ring, 97, 65537, 30-bit, 60-bit; BGV and scale-invariant BFV; with/without P). After every instruction decrypt+decode with the recorded scale must equal the model vector exactly mod t and level/degree/scale must be the documented ones; documented failure conditions must be errors.",
   note="Programs whose analytic worst-case noise exceeds the budget are counted out of scope; decryption through rlwe.Decryptor (C03 owns it); length >3 only along the spine.", ref="§6 C05, §11"),
 "C06": dict(cat="model_checking", tech="explicit-state enumeration of every straight-line CKKS program up to the length bound on the real evaluator, exact metadata model and model-propagated error bound checked after every instruction",
   text="Register machine over the real ckks.Evaluator: 212 instructions (15 opcodes x operand kinds x destination forms) x 5 register files, all length-2 programs + rescale spine with one deviation (quick), length 3 on reduced alphabets (thorough), on 12-16 configurations (standard / conjugate-invariant, LogN 4-5, sparse packing, scales 2^30/2^45/2^80 = two primes per rescale, 0-2 auxiliary primes). Scale/level/degree/LogDimensions compared exactly with a rational model; values against a 320-bit complex model within an error bound propagated from declared noise supports (x16 safety factor).",
   note="Error bounds are sound over-estimates, not tuned thresholds; no lower bound on noise (C03); evaluator rebuilt after a panic.", ref="§6 C06, §11"),
 "C07": dict(cat="exploration", tech="bounded-exhaustive enumeration of encode/decode round trips over message boundary alphabets, whole Z_t on single slots, all vector lengths, levels, scales and precisions against an independent canonical-embedding reference",
   text="BGV: t in {17,97,193,65537,30-bit,60-bit}, plaintext ring gaps 1/2/4, batched and coefficient encodings, Encode/Decode/EncodeRingT/DecodeRingT/RingT2Q/RingQ2T/Embed, all levels, scales coprime to t, lengths 0..slots, boundary values incl. 2^63, MinInt64; all single-slot vectors over Z_t and all vectors over a 3-value alphabet up to 8 (quick) / 10 slots; slot-wise product of encodings. CKKS: LogN 4-6, both ring types, every LogDimensions, precisions 53..256, slot and coefficient domain, scales 2^20..2^120, against an O(N^2) big.Float canonical embedding; DecodePublic rounding; product of encodings.",
   note="CKKS error bound N/scale + N 2^-prec |v| c with safety factor 16; quick is a pairwise cut of the CKKS product, thorough the full product.", ref="§6 C07, §11"),
 "C11": dict(cat="exploration", tech="exhaustive enumeration of the Galois group algebra and of every rotation / inner-sum argument on tiny rings with keys generated from exactly the advertised lists",
   text="Algebra: every a,b in [-2n,2n] and extreme k for NthRoot 32..128, both ring types (GaloisElement composition, inverse, discrete log on the whole subgroup). Ciphertext semantics: BGV two-row, CKKS standard and conjugate-invariant, full and sparse packing, 0-2 auxiliary primes, every k in [-slots-1, slots+1] and huge k through plain and hoisted rotations; InnerSum/RotateAndAdd/Replicate/PartialTracesSum/Average/Trace for all admissible (batch, n) and depths with keys from exactly the advertised Galois lists (a missing-key error is a violation); ramps as slot vectors.",
   note="GaloisElementsForExpand/Pack lists are not exercised (no ring-packing circuit here; C04 covers Expand/Pack functionally).", ref="§6 C11, §11"),
 "C14": dict(cat="model_checking", tech="explicit-state search of the share merge lattice (every aggregation order and tree shape, with serialization hops) on the real protocols, functional oracle under the ideal secret",
   text="CPK, RLK (both rounds), GAL, EVK protocols x evaluation-key parameters x chains with unequal prime sizes: the full merge lattice for N<=4 (quick) / 5 parties (left-deep orders under a cap for 6..8), with swap / serialization / output-aliasing variants; equal partitions must hold bit-identical shares, all terminal keys identical, the key must act as a key of sum(s_i) (independent phase computation, noise <= N x single-party worst case), CRS replay identical, mismatched shares rejected.",
   note="Standard ring only; serialization hop via MarshalBinary/UnmarshalBinary; RLK noise bound quadratic in N.", ref="§6 C14, §11"),
 "C15": dict(cat="model_checking", tech="exhaustive enumeration of (t, N), every active subset in every listing order and every setup aggregation order on the real Thresholdizer/Combiner against a math/big Shamir reference",
   text="All 1<=t<=N<=5 (quick) / 6 (thorough), four public-point families (small, >2^32, >2^63, mixed), setup shares aggregated in all orders for N<=4, every t-subset in every order (sum of additive shares == sum of all secrets residue by residue, independent Lagrange coefficients), every smaller subset refused with an error, downstream collective decryption equals the N-party one.",
   note="Assumes public points distinct and non-zero modulo every prime of QP (Shamir's own precondition); supersets recorded, not judged.", ref="§6 C15, §11"),
 "C16": dict(cat="model_checking", tech="explicit-state search of the share merge lattice for key switching, share conversion, refresh and masked transform on the real protocols, with exact/precision message oracles and a smudging-noise lower bound",
   text="KeySwitch (to shared and to zero key), PublicKeySwitch, mpbgv/mpckks EncToShare->ShareToEnc, Refresh, MaskedTransform (nil/identity/linear/permutation, decode/encode flags): parties 1..3 (quick) / 4 full lattice, 5..8 capped, all input levels from the protocol minimum x output levels, flooding sigma in {default, 2^10, 2^20}, BGV t in {97,65537}, several CKKS slot counts/scales. Decryption under the target key == message (exact / within computed eps), additive shares sum to the message, refresh at the requested level and scale, transform == f(message), per-share smudging noise non-zero with pooled sigma >= requested/2 and <= truncation bound.",
   note="paramsIn == paramsOut only; lambda=128; standard ring only.", ref="§6 C16, §11"),
 "C20": dict(cat="exploration", tech="bounded-exhaustive enumeration of external-product shapes x decompositions x messages x RGSW plaintexts and of every grid point of the blind-rotation circle, against an independent phase computation and the documented mod-switch",
   text="External product: shapes {q<2^29 32-bit path, one big prime, 3 primes} x #P in 0..2 x BaseTwoDecomposition {0,7,16,+1..5 on the 29-bit family} x levels x out fresh/in place; messages {0,1,X^i all i, q/4 X^i, ramp} x RGSW plaintexts {0,+-1,X^a all a,X^a-1,ternary}; RGSW encryption rows, AddLazy/Reduce, MulByXPowAlphaMinusOne(ThenAdd)Lazy for all 2N exponents, NoiseRGSWCiphertext; phase(out) = m*g + noise <= worst-case bound derived from the decomposition. Blind rotation: ring pairs (16,32),(16,64),(32,128), Hamming weights {1,2,N/4,N/2}, f in {sign, identity, fixed table} on [-1,1],[-4,4], EVERY point of the 2N-point circle, every slot subset of size <=2 of four indices + full set; each rotation judged on the constant coefficient (drift window derived from modSwitchRLWETo2NLvl), on being a rotation of the table and on the documented exponent; a recording key set asserts only generated keys are requested.",
   note="RLWE, RGSW and output at equal levels; secret-key RGSW encryption only; coefficient-domain (IsNTT=false) inputs to ExternalProduct are not judged (contract undefined); when the library's own RGSW rows are malformed (finding F1) the evaluator is judged on harness-built RGSW ciphertexts.", ref="§6 C20, §11"),
}
NOT_YET = {}
def main():
    props = [json.loads(l) for l in open(os.path.join(ROOT, "properties.jsonl"))]
    hooks = subprocess.run(["git","-C","/repo","log","--format=%h %s","--grep","^verif hook"],capture_output=True,text=True).stdout.strip().splitlines()
    checks = []
    na = []
    for p in props:
        i = p["id"]
        if i in CHECKS:
            c = CHECKS[i]
            checks.append({
              "property_id": i, "quick_cmd": f"./run {i} quick", "thorough_cmd": f"./run {i} thorough",
              "evidence_file": f"/verif/evidence/{i}.json", "replay_cmd_template": f"./run {i} quick --replay {{path}}",
              "engine": "engine (choice-tree explorer)", "technique": c["tech"],
              "level_claimed": {"category": c["cat"], "text": c["text"], "design_ref": c["ref"]},
              "level_note": c["note"]})
        else:
            na.append({"property_id": i, "reason": NOT_YET.get(i, "check not built yet in this session (planned, see DESIGN.md §6); not claimed until it exists")})
    m = {
      "version": 1,
      "setup_cmd": "./setup.sh",
      "hooks": {"guard": "verif (Go build tag)", "enable": "go build -tags verif (done by ./run)",
                "baseline_off_cmd": "cd /repo && GOFLAGS=-mod=mod GOPROXY=off GOSUMDB=off GOTOOLCHAIN=local go test -vet=off -count=1 -timeout 25m ./...",
                "source_commits": [h.split()[0] for h in hooks], "add_only": True},
      "engines": [{"name": "engine (choice-tree explorer)", "path": "/verif/engine", "serves_properties": sorted(CHECKS),
                   "kind_free_text": "hand-written stateless bounded-exhaustive explorer: depth-first enumeration of every choice vector of a harness driving the real code (full product or deviation-bounded), prefix replay with divergence detection, determinism gate, sharded over 16 worker processes"}],
      "checks": checks,
      "not_applicable": na,
      "notes": "All deciding steps are exhaustive enumeration of executions of the implementation within stated bounds (DESIGN.md §2). known_findings.txt lists genuine defects that are reported as KNOWN-FINDING.",
    }
    json.dump(m, open(os.path.join(ROOT, "MANIFEST.json"), "w"), indent=1)
    print("checks:", len(checks), "not_applicable:", len(na))
if __name__ == "__main__":
    main()
