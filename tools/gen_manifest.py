#!/usr/bin/env python3
"""Regenerates /verif/MANIFEST.json from the table below (kept valid at all times)."""
import json, os, subprocess
ROOT = os.path.dirname(os.path.dirname(os.path.abspath(__file__)))
CHECKS = {
 "C01": dict(cat="exploration", tech="bounded-exhaustive enumeration of the real kernels (lane x boundary-alphabet x alias products, whole tiny fields) against division-based reference arithmetic",
   text="Every exported kernel of ring.SubRing/ring.Ring/ringqp.Ring, the scalar reductions, NTT (both ring types) and automorphisms are executed on every lane x boundary-alphabet combination, on whole tiny prime fields, on every monomial / two-term / dense-extreme polynomial and on every Galois element, for primes of every size class up to 61 bits, and compared with exact integer arithmetic and the documented output ranges.",
   note="Trusted: the reference arithmetic in /verif/ref (hardware division, schoolbook products); prime coverage is by size class, operand coverage on big primes by boundary alphabet (DESIGN §5, §9).", ref="§6 C01"),
 "C10": dict(cat="model_checking", tech="explicit exploration of every interleaving of whole operations of 2-3 threads (original + copies) with a footprint-isolation oracle on reflective memory snapshots, plus exhaustive (constructor x configuration x operation) structural/behavioural comparison",
   text="Every copy constructor in the catalogue (rlwe/bgv/ckks/rgsw evaluators, encoders, encryptors, decryptors, key sets, basis extender, ring level views, 13 multiparty protocols, deep copies of ciphertexts/keys) x every configuration of the original x with/without P x every operation: reflective structural comparison original vs copy, behavioural equality under the same seed, independence by snapshot diff; for copies documented as concurrently usable every op-granular interleaving of 2 (quick) / 3 threads or 2 ops (thorough) is executed with the oracle that no operation changes memory reachable from another thread's object and that results equal the solo runs.",
   note="Reduction lemma (DESIGN §2 E3): no synchronisation in the library, so footprint isolation at operation granularity implies race freedom; writes restoring the old value are invisible to snapshot diffs; rlwe.Scale internals treated as immutable values; WithKey/WithPRNG copies (documented as sharing buffers) are excluded from the concurrency oracle.", ref="§6 C10"),
}
NOT_YET = {}
def main():
    props = [json.loads(l) for l in open(os.path.join(ROOT, "properties.jsonl"))]
    hooks = subprocess.run(["git","-C","/repo","log","--format=%h %s","--grep","^verif hook"],capture_output=True,text=True).stdout.strip().splitlines()
    checks = []
    na = []
    for p in props:
        i = p["id"]
        if i in CHECKS:
            c = CHECKS[i]
            checks.append({
              "property_id": i, "quick_cmd": f"./run {i} quick", "thorough_cmd": f"./run {i} thorough",
              "evidence_file": f"/verif/evidence/{i}.json", "replay_cmd_template": f"./run {i} quick --replay {{path}}",
              "engine": "engine (choice-tree explorer)", "technique": c["tech"],
              "level_claimed": {"category": c["cat"], "text": c["text"], "design_ref": c["ref"]},
              "level_note": c["note"]})
        else:
            na.append({"property_id": i, "reason": NOT_YET.get(i, "check not built yet in this session (planned, see DESIGN.md §6); not claimed until it exists")})
    m = {
      "version": 1,
      "setup_cmd": "./setup.sh",
      "hooks": {"guard": "verif (Go build tag)", "enable": "go build -tags verif (done by ./run)",
                "baseline_off_cmd": "cd /repo && GOFLAGS=-mod=mod GOPROXY=off GOSUMDB=off GOTOOLCHAIN=local go test -vet=off -count=1 -timeout 25m ./...",
                "source_commits": [h.split()[0] for h in hooks], "add_only": True},
      "engines": [{"name": "engine (choice-tree explorer)", "path": "/verif/engine", "serves_properties": sorted(CHECKS),
                   "kind_free_text": "hand-written stateless bounded-exhaustive explorer: depth-first enumeration of every choice vector of a harness driving the real code (full product or deviation-bounded), prefix replay with divergence detection, determinism gate, sharded over 16 worker processes"}],
      "checks": checks,
      "not_applicable": na,
      "notes": "All deciding steps are exhaustive enumeration of executions of the implementation within stated bounds (DESIGN.md §2). known_findings.txt lists genuine defects that are reported as KNOWN-FINDING.",
    }
    json.dump(m, open(os.path.join(ROOT, "MANIFEST.json"), "w"), indent=1)
    print("checks:", len(checks), "not_applicable:", len(na))
if __name__ == "__main__":
    main()
