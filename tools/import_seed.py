#!/usr/bin/env python3
"""tools/import_seed.py <rt-worktree>/_seeded/<k> <ID> <property> <pkgdir> <TestNameRegex> [checks,comma] [test_pkgs,comma]
Copies a red-team deliverable into /verif/seeded/<ID>/ and writes meta.json (demo = *_test.go files copied into pkgdir)."""
import sys, os, shutil, json, glob
src, sid, prop, pkg, run = sys.argv[1:6]
checks = sys.argv[6].split(",") if len(sys.argv) > 6 else [prop]
tp = sys.argv[7].split(",") if len(sys.argv) > 7 else ["./" + pkg + "/..."]
dst = os.path.join("/verif/seeded", sid)
os.makedirs(dst, exist_ok=True)
files = {}
for f in os.listdir(src):
    if os.path.isdir(os.path.join(src, f)):
        shutil.copytree(os.path.join(src, f), os.path.join(dst, f), dirs_exist_ok=True); continue
    shutil.copy(os.path.join(src, f), dst)
    if f.endswith("_test.go"):
        files[f] = os.path.join(pkg, "zz_" + f)
if run == "AUTO":
    import re
    names = []
    for f in files:
        names += re.findall(r'^func (Test\w+)\(', open(os.path.join(src, f)).read(), re.M)
    assert names, "no Test functions found"
    run = "^(" + "|".join(names) + ")$"
notes = open(os.path.join(src, "NOTES.md")).read() if os.path.exists(os.path.join(src, "NOTES.md")) else ""
meta = {"id": sid, "property": prop, "checks": checks, "origin": "independent red-team sub-agent given only the property text and its own worktree",
        "needs": notes.strip().split("\n\n")[0][:600],
        "demo": {"files": files, "cmd": f"go test -count=1 -run '{run}' ./{pkg}/"}, "test_pkgs": tp}
json.dump(meta, open(os.path.join(dst, "meta.json"), "w"), indent=1)
print("imported", sid, files)
