#!/bin/sh
# usage: tools/sigs.sh C05 [tier]  -> distinct unlisted violation signatures of a run (one per line)
cd /verif && ./run "$1" "${2:-quick}" > .work/sigs-$1.log 2>&1; echo "exit=$?"; grep "^  sig=" .work/sigs-$1.log | sed 's/ :: .*//; s/^  sig=//' | sort | uniq -c; tail -1 .work/sigs-$1.log
