#!/usr/bin/env python3
"""Runs the repository's suite with the guard OFF and compares with /root/.vp/BASELINE.json stable_pass."""
import json, subprocess, sys, os
env=dict(os.environ, GOFLAGS="-mod=mod", GOPROXY="off", GOSUMDB="off", GOTOOLCHAIN="local")
r=subprocess.run("cd /repo && go test -json -vet=off -count=1 -timeout 25m ./...", shell=True, capture_output=True, text=True, env=env)
res={}
for l in r.stdout.splitlines():
    try: e=json.loads(l)
    except: continue
    if e.get("Test") and e.get("Action") in ("pass","fail","skip"):
        res[e["Package"]+"::"+e["Test"]]=e["Action"]
b=json.load(open('/root/.vp/BASELINE.json'))
want=b["stable_pass"]
missing=[t for t in want if res.get(t)!="pass"]
print(f"go test exit={r.returncode}; tests seen={len(res)}; baseline stable_pass={len(want)}; not passing now={len(missing)}")
for t in missing[:20]: print("  ", t, res.get(t))
sys.exit(1 if missing or r.returncode else 0)
