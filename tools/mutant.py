#!/usr/bin/env python3
"""Apply deliberate property-breaking edits to /repo, run checks, revert.
usage: tools/mutant.py <mutant.json>... [--tier quick] [--keep-going]
mutant.json: {"id":..., "property":"C01", "checks":["C01"], "edits":[{"file":..,"old":..,"new":..}], "why":...}
Prints one line per (mutant, check): DETECTED / MISSED (exit code)."""
import json, subprocess, sys, os
def sh(cmd, **kw): return subprocess.run(cmd, shell=True, capture_output=True, text=True, **kw)
def main():
    tier = "quick"
    files = [a for a in sys.argv[1:] if not a.startswith("--")]
    if "--thorough" in sys.argv: tier = "thorough"
    assert sh("git -C /repo status --porcelain").stdout.strip() == "", "/repo not clean"
    for f in files:
        m = json.load(open(f))
        try:
            for e in m["edits"]:
                p = os.path.join("/repo", e["file"])
                s = open(p).read()
                assert s.count(e["old"]) >= 1, f"{f}: pattern not found in {e['file']}"
                s = s.replace(e["old"], e["new"], e.get("count", 1))
                open(p, "w").write(s)
            b = sh("cd /repo && GOFLAGS=-mod=mod GOPROXY=off go build ./... 2>&1")
            if b.returncode != 0:
                print(f"{m['id']}: DOES-NOT-COMPILE\n{b.stdout[-500:]}"); continue
            for c in m["checks"]:
                r = sh(f"cd /verif && ./run {c} {tier}")
                viol = [l for l in r.stdout.splitlines() if l.startswith("VIOLATION")]
                sig = [l.strip() for l in r.stdout.splitlines() if l.strip().startswith("sig=")][:2]
                print(f"{m['id']} x {c} {tier}: {'DETECTED' if r.returncode==1 and viol else 'MISSED'} (exit {r.returncode}) {sig}")
        finally:
            sh("git -C /repo checkout -- .")
main()
