#!/usr/bin/env python3
"""Apply deliberate property-breaking edits to a scratch copy of /repo, run checks against it, remove it.
usage: tools/mutant.py <mutant.json>... [--thorough] [--tests]
mutant.json: {"id":..., "property":"C01", "checks":["C01"], "edits":[{"file":..,"old":..,"new":..}], "why":...}
           or {"id":..., "checks":[..], "patch":"path/to/patch.diff"}
Prints one line per (mutant, check): DETECTED / MISSED (exit code). --tests also runs the repository's own tests
of the touched packages on the mutant (they should still pass for the mutant to be interesting)."""
import json, subprocess, sys, os, shutil, tempfile
ENV = "GOFLAGS=-mod=mod GOPROXY=off GOSUMDB=off GOTOOLCHAIN=local"
def sh(cmd, **kw): return subprocess.run(cmd, shell=True, capture_output=True, text=True, **kw)
def cleanup(path):
    tag = subprocess.run(f"echo {path} | cksum | cut -d' ' -f1", shell=True, capture_output=True, text=True).stdout.strip()
    subprocess.run(f"rm -f /verif/bin/*.{tag} /verif/bin/*.{tag}.build.log /verif/.work/go.{tag}.mod /verif/.work/go.{tag}.sum", shell=True)

def main():
    tier = "thorough" if "--thorough" in sys.argv else "quick"
    files = [a for a in sys.argv[1:] if not a.startswith("--")]
    for f in files:
        m = json.loads(open(f).read(), strict=False)
        d = tempfile.mkdtemp(prefix="mut-", dir="/tmp")
        try:
            sh(f"rsync -a --exclude .git /repo/ {d}/")
            touched = set()
            if "patch" in m:
                pp = m["patch"] if os.path.isabs(m["patch"]) else os.path.join(os.path.dirname(os.path.abspath(f)), m["patch"])
                r = sh(f"cd {d} && patch -p1 < {pp}")
                if r.returncode != 0:
                    print(f"{m['id']}: PATCH-FAILED {r.stdout[-300:]}"); continue
                for l in open(pp):
                    if l.startswith("+++ b/"): touched.add(os.path.dirname(l[6:].strip()))
            for e in m.get("edits", []):
                p = os.path.join(d, e["file"])
                s = open(p).read()
                assert s.count(e["old"]) >= 1, f"{f}: pattern not found in {e['file']}"
                s = s.replace(e["old"], e["new"], e.get("count", 1))
                open(p, "w").write(s)
                touched.add(os.path.dirname(e["file"]))
            b = sh(f"cd {d} && {ENV} go build ./... 2>&1")
            if b.returncode != 0:
                print(f"{m['id']}: DOES-NOT-COMPILE\n{b.stdout[-500:]}"); continue
            if "--tests" in sys.argv:
                pk = " ".join("./" + t + "/..." for t in touched)
                t = sh(f"cd {d} && {ENV} go test -count=1 -vet=off {pk} 2>&1")
                print(f"{m['id']}: repository tests on {pk}: {'pass' if t.returncode==0 else 'FAIL'}")
            for c in m["checks"]:
                r = sh(f"cd /verif && VERIF_REPO={d} ./run {c} {tier}")
                viol = [l for l in r.stdout.splitlines() if l.startswith("VIOLATION")]
                sig = [l.strip()[:230] for l in r.stdout.splitlines() if l.strip().startswith("sig=")][:2]
                print(f"{m['id']} x {c} {tier}: {'DETECTED' if r.returncode==1 and viol else 'MISSED'} (exit {r.returncode}) {sig}", flush=True)
        finally:
            shutil.rmtree(d, ignore_errors=True)
            cleanup(d)
main()
