#!/usr/bin/env python3
"""tools/kf.py fixed <commit> <property> "<what failed>" <sig>...  : remove `finding:` lines for the given exact sigs, append one `fixed:` line."""
import sys
cmd, commit, prop, what, *sigs = sys.argv[1:]
assert cmd == "fixed"
p='/verif/known_findings.txt'
lines=open(p).read().splitlines(keepends=True)
out=[]; removed=0
for l in lines:
    if l.startswith('finding:') and any((' sig='+s+' ') in l for s in sigs):
        removed+=1; continue
    out.append(l)
out.append(f"fixed: property={prop} {commit} {what} [was: {', '.join(sigs)}]\n")
open(p,'w').writelines(out)
print("removed", removed, "finding lines")
