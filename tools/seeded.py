#!/usr/bin/env python3
"""Confirm a seeded property-breaking change and run the checks against it.

usage: tools/seeded.py <seeded/ID>... [--full-suite] [--thorough] [--no-checks]

seeded/<ID>/ contains patch.diff, the demonstration file(s) and meta.json:
  {"property": "C05", "checks": ["C05"], "needs": "...what it needs to manifest...",
   "demo": {"files": {"demo_test.go": "schemes/bgv/zz_seeded_demo_test.go"},   # src in seeded dir -> dest in the tree
            "cmd": "go test -count=1 -run TestSeededDemo ./schemes/bgv/"},
   "test_pkgs": ["./schemes/bgv/..."]}
Steps (all in a scratch git worktree of /repo under /tmp, removed afterwards; /repo is never touched):
  1. demo on the unmodified tree must PASS; 2. patch applies, `go build ./...` ok; 3. demo with the patch must FAIL;
  4. the repository's own tests of test_pkgs (or the whole suite with --full-suite) must still PASS with the patch;
  5. each check in "checks" is run with VERIF_REPO=<worktree>: DETECTED iff exit 1 and a VIOLATION line.
Results are printed and merged into meta.json under "confirmed"."""
import json, os, subprocess, sys, shutil, tempfile, time

ENV = "export GOFLAGS=-mod=mod GOPROXY=off GOSUMDB=off GOTOOLCHAIN=local;"

def sh(cmd, cwd=None, timeout=3600):
    try:
        r = subprocess.run(ENV + cmd, shell=True, capture_output=True, text=True, cwd=cwd, timeout=timeout)
        return r.returncode, r.stdout + r.stderr
    except subprocess.TimeoutExpired:
        return 124, "timeout"

def cleanup(path):
    tag = subprocess.run(f"echo {path} | cksum | cut -d' ' -f1", shell=True, capture_output=True, text=True).stdout.strip()
    subprocess.run(f"rm -f /verif/bin/*.{tag} /verif/bin/*.{tag}.build.log /verif/.work/go.{tag}.mod /verif/.work/go.{tag}.sum", shell=True)

def main():
    args = [a for a in sys.argv[1:] if not a.startswith("--")]
    full = "--full-suite" in sys.argv
    tier = "thorough" if "--thorough" in sys.argv else "quick"
    for d in args:
        d = os.path.abspath(d)
        meta_p = os.path.join(d, "meta.json")
        meta = json.load(open(meta_p))
        wt = tempfile.mkdtemp(prefix="seed-", dir="/tmp")
        os.rmdir(wt)
        rc, out = sh(f"git -C /repo worktree add -q --detach {wt} HEAD")
        assert rc == 0, out
        res = {"when": time.strftime("%Y-%m-%d %H:%M"), "repo_head": sh("git -C /repo rev-parse --short HEAD")[1].strip()}
        try:
            demo = meta["demo"]
            def put_demo():
                for src, dst in demo["files"].items():
                    os.makedirs(os.path.dirname(os.path.join(wt, dst)), exist_ok=True)
                    shutil.copy(os.path.join(d, src), os.path.join(wt, dst))
            def del_demo():
                for src, dst in demo["files"].items():
                    try: os.remove(os.path.join(wt, dst))
                    except FileNotFoundError: pass
            put_demo()
            rc0, o0 = sh(demo["cmd"], cwd=wt)
            res["demo_without_patch"] = "pass" if rc0 == 0 else "FAIL"
            rcp, op = sh(f"git apply {os.path.join(d, 'patch.diff')}", cwd=wt)
            res["patch_applies"] = rcp == 0
            if rcp != 0:
                print(d, "PATCH DOES NOT APPLY", op[-400:]); continue
            rcb, ob = sh("go build ./...", cwd=wt)
            res["builds"] = rcb == 0
            rc1, o1 = sh(demo["cmd"], cwd=wt)
            res["demo_with_patch"] = "fail" if rc1 != 0 else "PASSES(!)"
            del_demo()
            pk = "./..." if full else " ".join(meta.get("test_pkgs", ["./..."]))
            t0 = time.time()
            rct, ot = sh(f"go test -vet=off -count=1 -timeout 40m {pk}", cwd=wt, timeout=3000)
            res["repo_tests_with_patch"] = {"pkgs": pk, "result": "pass" if rct == 0 else "FAIL", "seconds": int(time.time() - t0)}
            if rct != 0:
                res["repo_tests_tail"] = ot[-600:]
            if "--no-checks" not in sys.argv:
                res["checks"] = {}
                for c in meta.get("checks", []):
                    rcc, oc = sh(f"cd /verif && VERIF_REPO={wt} ./run {c} {tier}", timeout=3000)
                    viol = [l for l in oc.splitlines() if l.startswith("VIOLATION")]
                    sigs = sorted(set(l.strip().split(" :: ")[0] for l in oc.splitlines() if l.strip().startswith("sig=")))[:4]
                    res["checks"][c] = {"tier": tier, "exit": rcc, "detected": rcc == 1 and bool(viol), "sigs": sigs}
            ok = res["demo_without_patch"] == "pass" and res.get("demo_with_patch") == "fail" and res.get("builds") and res["repo_tests_with_patch"]["result"] == "pass"
            res["valid_seed"] = bool(ok)
            meta["confirmed"] = res
            json.dump(meta, open(meta_p, "w"), indent=1)
            print(os.path.basename(d), json.dumps(res))
        finally:
            sh(f"git -C /repo worktree remove --force {wt}")
            shutil.rmtree(wt, ignore_errors=True)
            cleanup(wt)
main()
