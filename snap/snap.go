// Package snap takes reflective deep snapshots of object graphs, including unexported fields
// (reflect + unsafe): content hashes per leaf, address ranges of backing arrays, and a structural
// comparison of an original with its copy. Used by the copy / aliasing / schedule oracles.
package snap

import (
	"fmt"
	"hash/fnv"
	"reflect"
	"sort"
	"strings"
	"unsafe"
)

// Leaf is one terminal of the walk: a slice/array of basic values, or a basic scalar.
type Leaf struct {
	Path string
	Hash uint64
	Ptr  uintptr // start of backing memory (slices only; 0 for scalars)
	Len  int     // bytes
	Kind string  // "slice", "scalar", "nil", "ref", "func"
}

// Snapshot is the ordered list of leaves reachable from the roots.
type Snapshot struct {
	Leaves []Leaf
	index  map[string]int
}

type walker struct {
	seen   map[visitKey]string
	leaves []Leaf
	skip   func(t reflect.Type) bool
}

type visitKey struct {
	ptr uintptr
	typ reflect.Type
	n   int
}

// Options configure the walk.
type Options struct {
	// SkipTypes: values of these types (by String()) are recorded as one opaque leaf (nil-ness only).
	SkipTypes []string
}

// Take snapshots everything reachable from the named roots (roots should be pointers).
func Take(opt Options, roots ...interface{}) *Snapshot {
	w := &walker{seen: map[visitKey]string{}}
	skip := map[string]bool{}
	for _, s := range opt.SkipTypes {
		skip[s] = true
	}
	w.skip = func(t reflect.Type) bool { return skip[t.String()] }
	for i := 0; i+1 < len(roots); i += 2 {
		name := roots[i].(string)
		v := reflect.ValueOf(roots[i+1])
		if !v.IsValid() {
			w.leaves = append(w.leaves, Leaf{Path: name, Kind: "nil"})
			continue
		}
		w.walk(name, launder(v))
	}
	s := &Snapshot{Leaves: w.leaves, index: map[string]int{}}
	for i, l := range s.Leaves {
		s.index[l.Path] = i
	}
	return s
}

// launder returns an addressable, non-read-only copy/view of v.
func launder(v reflect.Value) reflect.Value {
	if v.CanAddr() {
		return reflect.NewAt(v.Type(), unsafe.Pointer(v.UnsafeAddr())).Elem()
	}
	nv := reflect.New(v.Type()).Elem()
	nv.Set(v)
	return nv
}

func isBasic(k reflect.Kind) bool {
	switch k {
	case reflect.Bool, reflect.Int, reflect.Int8, reflect.Int16, reflect.Int32, reflect.Int64,
		reflect.Uint, reflect.Uint8, reflect.Uint16, reflect.Uint32, reflect.Uint64, reflect.Uintptr,
		reflect.Float32, reflect.Float64, reflect.Complex64, reflect.Complex128:
		return true
	}
	return false
}

func hashBytes(p unsafe.Pointer, n int) uint64 {
	h := fnv.New64a()
	if n > 0 {
		h.Write(unsafe.Slice((*byte)(p), n))
	}
	return h.Sum64()
}

func (w *walker) add(l Leaf) { w.leaves = append(w.leaves, l) }

func (w *walker) walk(path string, v reflect.Value) {
	t := v.Type()
	if w.skip(t) {
		// opaque: contents are not compared; Len records nil-ness, Hash the identity of the referenced object
		// (so that "the object now points at another PRNG" is visible in before/after diffs of ONE object,
		// while original-vs-copy comparisons only look at nil-ness)
		nilness, ident := 1, uint64(1)
		switch v.Kind() {
		case reflect.Ptr, reflect.Map, reflect.Slice:
			if v.IsNil() {
				nilness, ident = 0, 0
			} else {
				ident = uint64(v.Pointer())
			}
		case reflect.Interface:
			if v.IsNil() {
				nilness, ident = 0, 0
			} else if e := v.Elem(); e.Kind() == reflect.Ptr {
				ident = uint64(e.Pointer())
			}
		}
		w.add(Leaf{Path: path, Hash: ident, Len: nilness, Kind: "opaque"})
		return
	}
	switch v.Kind() {
	case reflect.Ptr:
		if v.IsNil() {
			w.add(Leaf{Path: path, Kind: "nil"})
			return
		}
		k := visitKey{v.Pointer(), t, 0}
		if first, ok := w.seen[k]; ok {
			w.add(Leaf{Path: path, Kind: "ref", Hash: strHash(first)})
			return
		}
		w.seen[k] = path
		w.walk(path, reflect.NewAt(t.Elem(), unsafe.Pointer(v.Pointer())).Elem())
	case reflect.Interface:
		if v.IsNil() {
			w.add(Leaf{Path: path, Kind: "nil"})
			return
		}
		e := v.Elem()
		w.walk(path+"("+e.Type().String()+")", launder(e))
	case reflect.Slice:
		// a nil slice and an empty slice are the same value for every purpose the oracles care about
		n := v.Len()
		et := t.Elem()
		if isBasic(et.Kind()) {
			var p unsafe.Pointer
			if !v.IsNil() && v.Cap() > 0 {
				p = unsafe.Pointer(v.Pointer())
			}
			nb := n * int(et.Size())
			w.add(Leaf{Path: path, Kind: "slice", Ptr: uintptr(p), Len: nb, Hash: hashBytes(p, nb) ^ uint64(n)*0x9E3779B97F4A7C15})
			return
		}
		k := visitKey{v.Pointer(), t, n}
		if n > 0 {
			if first, ok := w.seen[k]; ok {
				w.add(Leaf{Path: path, Kind: "ref", Hash: strHash(first)})
				return
			}
			w.seen[k] = path
		}
		w.add(Leaf{Path: path + ".len", Kind: "scalar", Hash: uint64(n)})
		for i := 0; i < n; i++ {
			w.walk(fmt.Sprintf("%s[%d]", path, i), launder(v.Index(i)))
		}
	case reflect.Array:
		et := t.Elem()
		if isBasic(et.Kind()) {
			p := unsafe.Pointer(v.UnsafeAddr())
			w.add(Leaf{Path: path, Kind: "scalar", Hash: hashBytes(p, int(t.Size()))})
			return
		}
		for i := 0; i < v.Len(); i++ {
			w.walk(fmt.Sprintf("%s[%d]", path, i), launder(v.Index(i)))
		}
	case reflect.Struct:
		for i := 0; i < v.NumField(); i++ {
			f := v.Field(i)
			w.walk(path+"."+t.Field(i).Name, launder(f))
		}
	case reflect.Map:
		if v.IsNil() {
			w.add(Leaf{Path: path, Kind: "nil"})
			return
		}
		type ent struct {
			key string
			val reflect.Value
		}
		var ents []ent
		it := v.MapRange()
		for it.Next() {
			ents = append(ents, ent{fmt.Sprintf("%v", keyString(it.Key())), it.Value()})
		}
		sort.Slice(ents, func(i, j int) bool { return ents[i].key < ents[j].key })
		w.add(Leaf{Path: path + ".len", Kind: "scalar", Hash: uint64(len(ents))})
		for _, e := range ents {
			w.walk(path+"{"+e.key+"}", launder(e.val))
		}
	case reflect.Func, reflect.Chan, reflect.UnsafePointer:
		h := uint64(1)
		if v.Kind() != reflect.UnsafePointer && v.IsNil() {
			h = 0
		}
		w.add(Leaf{Path: path, Kind: "func", Hash: h})
	case reflect.String:
		w.add(Leaf{Path: path, Kind: "scalar", Hash: strHash(v.String())})
	default:
		if isBasic(v.Kind()) {
			p := unsafe.Pointer(v.UnsafeAddr())
			w.add(Leaf{Path: path, Kind: "scalar", Hash: hashBytes(p, int(t.Size()))})
			return
		}
		w.add(Leaf{Path: path, Kind: "func", Hash: 0})
	}
}

func keyString(k reflect.Value) string {
	switch k.Kind() {
	case reflect.Uint, reflect.Uint8, reflect.Uint16, reflect.Uint32, reflect.Uint64:
		return fmt.Sprintf("%020d", k.Uint())
	case reflect.Int, reflect.Int8, reflect.Int16, reflect.Int32, reflect.Int64:
		return fmt.Sprintf("%+020d", k.Int())
	case reflect.String:
		return k.String()
	}
	return fmt.Sprintf("%v", launder(k).Interface())
}

func strHash(s string) uint64 {
	h := fnv.New64a()
	h.Write([]byte(s))
	return h.Sum64()
}

// Hash returns one hash of the whole snapshot (paths + contents).
func (s *Snapshot) Hash() uint64 {
	h := fnv.New64a()
	var b [8]byte
	for _, l := range s.Leaves {
		h.Write([]byte(l.Path))
		for k := 0; k < 8; k++ {
			b[k] = byte(l.Hash >> (8 * k))
		}
		h.Write(b[:])
		h.Write([]byte(l.Kind))
	}
	return h.Sum64()
}

// Diff lists the paths whose content differs between two snapshots of the same roots.
func (s *Snapshot) Diff(o *Snapshot) []string {
	var d []string
	for _, l := range s.Leaves {
		j, ok := o.index[l.Path]
		if !ok {
			d = append(d, l.Path+" (disappeared)")
			continue
		}
		m := o.Leaves[j]
		if m.Hash != l.Hash || m.Kind != l.Kind || m.Len != l.Len {
			d = append(d, l.Path)
		}
	}
	for _, m := range o.Leaves {
		if _, ok := s.index[m.Path]; !ok {
			d = append(d, m.Path+" (appeared)")
		}
	}
	return d
}

// Overlaps lists pairs (path in s, path in o) of slice leaves whose backing memory overlaps.
func (s *Snapshot) Overlaps(o *Snapshot) [][2]string {
	type reg struct {
		lo, hi uintptr
		path   string
	}
	var rs []reg
	for _, l := range o.Leaves {
		if l.Kind == "slice" && l.Len > 0 {
			rs = append(rs, reg{l.Ptr, l.Ptr + uintptr(l.Len), l.Path})
		}
	}
	sort.Slice(rs, func(i, j int) bool { return rs[i].lo < rs[j].lo })
	var out [][2]string
	for _, l := range s.Leaves {
		if l.Kind != "slice" || l.Len == 0 {
			continue
		}
		lo, hi := l.Ptr, l.Ptr+uintptr(l.Len)
		i := sort.Search(len(rs), func(i int) bool { return rs[i].hi > lo })
		for ; i < len(rs) && rs[i].lo < hi; i++ {
			out = append(out, [2]string{l.Path, rs[i].path})
		}
	}
	return out
}

// StructDiff compares an original (rooted at name a) with its copy (rooted at name b): scalars must be
// equal, nil-ness / lengths / map keys must match. Differences in the *content* of slices are returned
// separately (a fresh buffer of equal shape is legitimate for a shallow copy; not for a deep copy).
type StructDiffResult struct {
	Shape   []string // scalar / nil-ness / length / key-set / kind differences (path relative to root)
	Content []string // slice content differences
}

func StructDiff(orig, cp *Snapshot, rootA, rootB string) StructDiffResult {
	var r StructDiffResult
	rel := func(p, root string) string { return strings.TrimPrefix(p, root) }
	bi := map[string]Leaf{}
	for _, l := range cp.Leaves {
		bi[rel(l.Path, rootB)] = l
	}
	seen := map[string]bool{}
	for _, l := range orig.Leaves {
		p := rel(l.Path, rootA)
		seen[p] = true
		m, ok := bi[p]
		if !ok {
			r.Shape = append(r.Shape, p+" (missing in copy)")
			continue
		}
		if m.Kind != l.Kind {
			// "ref" vs concrete: the copy may alias differently; only nil vs non-nil matters
			if (m.Kind == "nil") != (l.Kind == "nil") {
				r.Shape = append(r.Shape, fmt.Sprintf("%s (%s in original, %s in copy)", p, l.Kind, m.Kind))
			}
			continue
		}
		switch l.Kind {
		case "opaque":
			if m.Len != l.Len {
				r.Shape = append(r.Shape, p+" (nil in one, set in the other)")
			}
		case "scalar", "func":
			if m.Hash != l.Hash {
				r.Shape = append(r.Shape, p+" (value differs)")
			}
		case "slice":
			if m.Len < l.Len || (m.Len != l.Len && m.Ptr == l.Ptr) {
				// a fresh scratch buffer may be larger than the original's, never smaller
				r.Shape = append(r.Shape, fmt.Sprintf("%s (length %d vs %d bytes)", p, l.Len, m.Len))
			} else if m.Hash != l.Hash || m.Len != l.Len {
				r.Content = append(r.Content, p)
			}
		}
	}
	for p, m := range bi {
		if !seen[p] && m.Kind != "ref" {
			r.Shape = append(r.Shape, p+" (only in copy)")
		}
	}
	sort.Strings(r.Shape)
	sort.Strings(r.Content)
	return r
}

// FillSlices overwrites every reachable slice of uint64 whose path satisfies pick with pattern values.
func FillSlices(root interface{}, pick func(path string) bool, pattern func(i int) uint64) int {
	s := Take(Options{}, "r", root)
	n := 0
	for _, l := range s.Leaves {
		if l.Kind == "slice" && l.Len > 0 && l.Len%8 == 0 && pick(l.Path) {
			u := unsafe.Slice((*uint64)(unsafe.Pointer(l.Ptr)), l.Len/8)
			for i := range u {
				u[i] = pattern(i)
			}
			n++
		}
	}
	return n
}
