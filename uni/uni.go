// Package uni is the shared "tiny universe" (DESIGN §5): small rings / parameter sets built from the
// current tree's constructors, an independent decryption (phase) oracle, and seeding helpers.
package uni

import (
	"fmt"
	"math/big"

	"github.com/tuneinsight/lattigo/v6/core/rlwe"
	"github.com/tuneinsight/lattigo/v6/ring"
	"github.com/tuneinsight/lattigo/v6/utils/sampling"

	"verif/engine"
	"verif/ref"
)

// Primes returns k NTT-friendly primes (≡ 1 mod 2^(logN+2), hence valid for both ring types) just
// below 2^bits, in decreasing order. bits<=0: the k smallest such primes.
func Primes(logN, bits, k int) []uint64 {
	m := uint64(1) << (logN + 2)
	if bits <= 0 {
		return ref.SmallestPrimes(m, k)
	}
	return ref.PrimesNear(uint64(1)<<bits, m, k, true)
}

// PrimesSkip is Primes skipping the first `skip` primes (to get disjoint Q and P of equal size).
func PrimesSkip(logN, bits, k, skip int) []uint64 {
	return Primes(logN, bits, k+skip)[skip:]
}

// Seed makes every later sampling.NewPRNG() call deterministic: the stream depends on VERIF_SEED,
// and on the given parts (use the scenario name and the choices that should vary the randomness).
func Seed(c *engine.Chooser, parts ...interface{}) uint64 {
	s := engine.Hash(append([]interface{}{c.Seed}, parts...)...)
	sampling.VerifSeed(s)
	return s
}

// KeyedPRNG returns a PRNG keyed by the given parts (independent of NewPRNG's counter).
func KeyedPRNG(parts ...interface{}) *sampling.KeyedPRNG {
	h := engine.Hash(parts...)
	key := make([]byte, 32)
	for i := range key {
		key[i] = byte(h >> (8 * (i % 8)))
		if i%8 == 7 {
			h = h*0x9E3779B97F4A7C15 + 0x1234567
		}
	}
	p, err := sampling.NewKeyedPRNG(key)
	if err != nil {
		panic(err)
	}
	return p
}

// RLWE builds rlwe.Parameters from a literal, panicking on error (harness-side misuse).
func RLWE(lit rlwe.ParametersLiteral) rlwe.Parameters {
	p, err := rlwe.NewParametersFromLiteral(lit)
	if err != nil {
		panic(fmt.Sprintf("uni.RLWE: %v", err))
	}
	return p
}

// TinyRLWE is the default tiny parameter set: LogN, nq primes of qbits bits, np primes of pbits bits.
func TinyRLWE(logN, nq, qbits, np, pbits int, ntt bool) rlwe.Parameters {
	lit := rlwe.ParametersLiteral{LogN: logN, NTTFlag: ntt}
	if qbits == pbits {
		all := Primes(logN, qbits, nq+np)
		lit.Q, lit.P = all[:nq], all[nq:]
	} else {
		lit.Q = Primes(logN, qbits, nq)
		if np > 0 {
			lit.P = Primes(logN, pbits, np)
		}
	}
	if np == 0 {
		lit.P = nil
	}
	return RLWE(lit)
}

// SecretCoeffs returns the secret key as centred integer coefficients (sk.Value.Q is stored in the
// NTT and Montgomery domains).
func SecretCoeffs(params rlwe.Parameters, sk *rlwe.SecretKey) []*big.Int {
	rQ := params.RingQ().AtLevel(0)
	p := rQ.NewPoly()
	rQ.INTT(sk.Value.Q, p)
	rQ.IMForm(p, p)
	q := rQ.SubRings[0].Modulus
	out := make([]*big.Int, params.N())
	for j := range out {
		v := p.Coeffs[0][j] % q
		if v > q/2 {
			out[j] = new(big.Int).Sub(new(big.Int).SetUint64(v), new(big.Int).SetUint64(q))
		} else {
			out[j] = new(big.Int).SetUint64(v)
		}
	}
	return out
}

// PolyCoeffs returns the coefficients of an RNS polynomial at `level` as integers in [0,Q_level),
// taking it out of the NTT / Montgomery domains first as flagged. The input is not modified.
func PolyCoeffs(rQ *ring.Ring, p ring.Poly, level int, isNTT, isMont bool) []*big.Int {
	r := rQ.AtLevel(level)
	t := r.NewPoly()
	for i := 0; i <= level; i++ {
		copy(t.Coeffs[i], p.Coeffs[i])
	}
	if isNTT {
		r.INTT(t, t)
	}
	if isMont {
		r.IMForm(t, t)
	}
	return ref.PolyCRT(t.Coeffs[:level+1], r.ModuliChain()[:level+1])
}

// Phase computes c0 + c1·s + c2·s² + ... over Z_Q (centred), independently of rlwe.Decryptor: CRT of
// the raw residues, integer negacyclic schoolbook products with the secret lifted to Z.
func Phase(params rlwe.Parameters, el *rlwe.Element[ring.Poly], sk *rlwe.SecretKey) []*big.Int {
	level := el.Level()
	rQ := params.RingQ()
	Q := ref.Prod(rQ.ModuliChain()[:level+1])
	s := SecretCoeffs(params, sk)
	n := params.N()
	acc := make([]*big.Int, n)
	for j := range acc {
		acc[j] = new(big.Int)
	}
	spow := make([]*big.Int, n) // s^0 = 1
	for j := range spow {
		spow[j] = new(big.Int)
	}
	spow[0].SetInt64(1)
	for d := 0; d <= el.Degree(); d++ {
		cd := PolyCoeffs(rQ, el.Value[d], level, el.IsNTT, el.IsMontgomery)
		term := ref.BigNegacyclicMul(cd, spow)
		for j := range acc {
			acc[j].Add(acc[j], term[j])
			acc[j].Mod(acc[j], Q)
		}
		spow = ref.BigNegacyclicMul(spow, s)
		for j := range spow {
			spow[j] = ref.Center(spow[j], Q)
		}
	}
	for j := range acc {
		acc[j] = ref.Center(acc[j], Q)
	}
	return acc
}

// SubCentered returns (a-b) centred mod Q.
func SubCentered(a, b []*big.Int, Q *big.Int) []*big.Int {
	r := make([]*big.Int, len(a))
	for i := range a {
		r[i] = ref.Center(new(big.Int).Sub(a[i], b[i]), Q)
	}
	return r
}

// QAtLevel returns the product of the first level+1 moduli of Q.
func QAtLevel(params rlwe.Parameters, level int) *big.Int {
	return ref.Prod(params.RingQ().ModuliChain()[:level+1])
}

// Try runs f and converts a panic into an error string (for "must fail cleanly" oracles).
func Try(f func() error) (err error, panicked interface{}) {
	defer func() {
		if r := recover(); r != nil {
			panicked = r
		}
	}()
	err = f()
	return
}
