package main

import (
	"math/big"

	"github.com/tuneinsight/lattigo/v6/core/rlwe"

	"verif/lib/rk"
	"verif/ref"
)

// roundingSlack bounds |ModDown(x) − x/P| per coefficient: 1/2 for the rounding plus 1 for the
// approximate basis extension (C02 demands "within ±1 of round(x/P)"), rounded up.
const roundingSlack = 2

// ksBound is the worst-case noise added by one gadget product (key switch) at ciphertext level
// `level` with a key of (levelP, base2), for an evaluator with parameters p, target key of
// coefficient bound bsOut, and row errors of the key bounded by be.
//
// Derivation. The key rows satisfy  row_ij[0] + row_ij[1]·s_out = T_ij·s_in + e_ij  (mod QP), with
// T_ij ≡ P·2^(b·j) on the primes of group i and ≡ 0 on all other primes (C03 checks this row by row).
// The evaluator computes  Σ_ij d_ij·row_ij  where the digits satisfy  Σ_j d_ij·2^(b·j) ≡ c (mod q) for
// every prime q of group i, hence Σ_ij d_ij·T_ij ≡ P·c (mod QP) and
//
//	phase_QP = P·c·s_in + Σ_ij d_ij·e_ij        (mod Q_level·P).
//
// Dividing by P (ModDown) gives  c·s_in + (Σ_ij d_ij·e_ij)/P + r0 + r1·s_out,  |r|∞ ≤ roundingSlack.
// With Nm terms per product coefficient:  |Σ_ij d_ij·e_ij|∞ ≤ Σ_ij Nm·|d_ij|∞·be, where
//   - RNS digits (base2 = 0, or levelP > 0 where the library ignores base2): d_i is c reduced modulo
//     D_i = Π(primes of group i up to `level`) and then extended to the other primes by an approximate
//     basis extension, which may add a multiple α·D_i with |α| ≤ (size of the group): |d_i| ≤ (g+1)·D_i;
//   - base-2^b digits (base2 = b > 0, levelP ≤ 0): one group per prime, digits of the residue in
//     [0,q_i): |d_ij| < 2^b, and there are ceil(bits(q_i)/b) ≥ (number of rows in the key) of them.
//
// Without P (levelP = −1) there is no division: P = 1 and the rounding term vanishes (it is kept,
// the bound only needs to be sound).
func ksBound(p rlwe.Parameters, level int, kp keyParams, be, bsOut int64) *big.Int {
	nm := big.NewInt(nMul(p.RingType(), p.N()))
	group := kp.levelP + 1
	if group == 0 {
		group = 1
	}
	qs := p.Q()
	sum := new(big.Int)
	if kp.base2 == 0 || kp.levelP > 0 {
		for i := 0; i*group <= level; i++ {
			hi := (i+1)*group - 1
			if hi > level {
				hi = level
			}
			d := ref.Prod(qs[i*group : hi+1])
			d.Mul(d, big.NewInt(int64(group+1)))
			sum.Add(sum, d)
		}
	} else {
		for i := 0; i <= level; i++ {
			bits := new(big.Int).SetUint64(qs[i]).BitLen()
			digits := (bits + kp.base2 - 1) / kp.base2
			d := new(big.Int).Lsh(big.NewInt(int64(digits)), uint(kp.base2))
			sum.Add(sum, d)
		}
	}
	sum.Mul(sum, nm)
	sum.Mul(sum, big.NewInt(be))
	if kp.levelP >= 0 {
		P := ref.Prod(p.P()[:kp.levelP+1])
		sum.Add(sum, new(big.Int).Sub(P, big.NewInt(1)))
		sum.Quo(sum, P)
	}
	r := new(big.Int).Mul(nm, big.NewInt(bsOut))
	r.Add(r, big.NewInt(1))
	r.Mul(r, big.NewInt(roundingSlack))
	return sum.Add(sum, r)
}

func beOf(p rlwe.Parameters) int64 { return rk.AbsBound(p.Xe()) }
func bsOf(p rlwe.Parameters) int64 { return rk.AbsBound(p.Xs()) }

// inScope: the property speaks of noise "below the bound implied by the key's decomposition
// parameters"; when that bound itself reaches Q/4 the output cannot be decrypted by construction
// (e.g. no P and no base-2 decomposition at level 0) and the combination is outside the statement.
func inScope(bound, Q *big.Int) bool {
	return bound.Cmp(new(big.Int).Rsh(Q, 2)) < 0
}
