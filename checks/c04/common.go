package main

import (
	"bytes"
	"fmt"
	"math/big"

	"github.com/tuneinsight/lattigo/v6/core/rlwe"
	"github.com/tuneinsight/lattigo/v6/ring"

	"verif/engine"
	"verif/lib/rk"
	"verif/ref"
	"verif/uni"
)

// maxLogN: every prime is ≡ 1 mod 2^(maxLogN+2), so the same chain is valid for the standard and
// the conjugate-invariant ring of every degree up to 2^maxLogN (ring-degree switching needs that).
const maxLogN = 6

// chains: shapes of (Q, P). Negative sizes are primes just ABOVE the power of two (bit length one
// more than round(log2 q)), the digit-count edge of BaseTwoDecompositionVectorSize.
func chains(tier string) []rk.Chain {
	cs := []rk.Chain{
		{Name: "q30x3-p30x2", QBits: []int{30, 30, 30}, PBits: []int{30, 30}}, // #P does not divide #Q
		{Name: "q30x4-p61", QBits: []int{30, 30, 30, 30}, PBits: []int{61}},
		{Name: "q60-45-p61x2", QBits: []int{60, 45}, PBits: []int{61, 61}},
		{Name: "mixed-p61-30-45", QBits: []int{60, 30, 45, 55}, PBits: []int{61, 30, 45}},
		{Name: "q45x3-noP", QBits: []int{45, 45, 45}},
		{Name: "q30up-x2-p61", QBits: []int{-30, -30}, PBits: []int{61}},
		{Name: "q55x1-p61", QBits: []int{55}, PBits: []int{61}},
		// largest supported primes: overflow margin floor(2^64/q)/2 = 4 < number of RNS digits (6 at LevelP=0),
		// so the mid-accumulation reductions of the lazy inner products are exercised
		{Name: "q61x6-p61x2", QBits: []int{61, 61, 61, 61, 61, 61}, PBits: []int{61, 61}},
	}
	if tier == "thorough" {
		cs = append(cs,
			rk.Chain{Name: "q30x6-p30x3", QBits: []int{30, 30, 30, 30, 30, 30}, PBits: []int{30, 30, 30}},
			rk.Chain{Name: "q60x5-p61x2", QBits: []int{60, 60, 60, 60, 60}, PBits: []int{61, 61}},
			rk.Chain{Name: "q30x5-noP", QBits: []int{30, 30, 30, 30, 30}},
			rk.Chain{Name: "q45up-x3-p61x2", QBits: []int{-45, -45, -45}, PBits: []int{61, 61}},
		)
	}
	return cs
}

var base2Alphabet = []int{0, 1, 2, 7, 13, 16, 30}

func ringName(rt ring.Type) string {
	if rt == ring.ConjugateInvariant {
		return "CI"
	}
	return "Std"
}

func nMul(rt ring.Type, n int) int64 {
	if rt == ring.ConjugateInvariant {
		return int64(2 * n)
	}
	return int64(n)
}

func qAt(p rlwe.Parameters, level int) *big.Int {
	return ref.Prod(p.RingQ().ModuliChain()[:level+1])
}

// keyParams is one evaluation-key parameterisation.
type keyParams struct {
	levelQ, levelP, base2 int
	compressed            bool
	// transport: 0 the key object is used as generated; 1 it is serialised (MarshalBinary) and read back
	// into a new object (UnmarshalBinary) before use — a compressed key in its compressed form, then
	// expanded; 2 the same through WriteTo / ReadFrom on a plain io.Reader (bytes.Buffer).
	transport int
}

func (kp keyParams) String() string {
	return fmt.Sprintf("LevelQ=%d LevelP=%d base2=%d compressed=%v transport=%d", kp.levelQ, kp.levelP, kp.base2, kp.compressed, kp.transport)
}

func (kp *keyParams) evk() rlwe.EvaluationKeyParameters {
	return rlwe.EvaluationKeyParameters{LevelQ: &kp.levelQ, LevelP: &kp.levelP, BaseTwoDecomposition: &kp.base2, Compressed: kp.compressed}
}

// chooseKeyParams: with freeP, LevelP is always fully enumerated (it selects the code path: several
// P / one P / no P); the other key parameters are deviation-bounded axes.
func chooseKeyParams(c *engine.Chooser, p rlwe.Parameters, freeP bool) (kp keyParams) {
	kp.levelQ = p.MaxLevelQ() - c.Choose(p.MaxLevelQ()+1, "LevelQ")
	if freeP {
		kp.levelP = p.MaxLevelP() - c.ChooseFree(p.MaxLevelP()+2, "LevelP")
	} else {
		kp.levelP = p.MaxLevelP() - c.Choose(p.MaxLevelP()+2, "LevelP")
	}
	kp.base2 = base2Alphabet[c.Choose(len(base2Alphabet), "BaseTwoDecomposition")]
	kp.compressed = c.Bool("Compressed")
	kp.transport = c.Choose(3, "transport")
	c.Cover("transport", []string{"none", "MarshalBinary", "WriteTo/ReadFrom"}[kp.transport])
	c.Cover("base2", fmt.Sprint(kp.base2))
	c.Cover("compressed", fmt.Sprint(kp.compressed))
	c.Cover("LevelP", fmt.Sprint(kp.levelP))
	if kp.levelQ < p.MaxLevelQ() {
		c.Cover("LevelQ", "below-max")
	} else {
		c.Cover("LevelQ", "max")
	}
	if kp.levelP >= 0 && (kp.levelQ+1)%(kp.levelP+1) != 0 {
		c.Cover("tail", "#P-does-not-divide-#Q")
	}
	if kp.levelP >= 0 && kp.levelP < p.MaxLevelP() {
		c.Cover("LevelP", "below-max")
	}
	return
}

// expand turns a compressed key into a usable one (alternating between an allocated and a provided
// buffer); a no-op for an uncompressed key.
func expand(p rlwe.Parameters, evk *rlwe.EvaluationKey, kp keyParams, withBuffer bool) error {
	switch kp.transport {
	case 1:
		b, err := evk.MarshalBinary()
		if err != nil {
			return fmt.Errorf("MarshalBinary: %w", err)
		}
		n := new(rlwe.EvaluationKey)
		if err := n.UnmarshalBinary(b); err != nil {
			return fmt.Errorf("UnmarshalBinary: %w", err)
		}
		*evk = *n
	case 2:
		var buf bytes.Buffer
		if _, err := evk.WriteTo(&buf); err != nil {
			return fmt.Errorf("WriteTo: %w", err)
		}
		n := new(rlwe.EvaluationKey)
		if _, err := n.ReadFrom(&buf); err != nil {
			return fmt.Errorf("ReadFrom: %w", err)
		}
		*evk = *n
	}
	if !kp.compressed {
		return nil
	}
	if !evk.IsCompressed() || evk.Seed == nil {
		return fmt.Errorf("key generated with Compressed=true: IsCompressed=%v Seed set=%v", evk.IsCompressed(), evk.Seed != nil)
	}
	var buf *rlwe.GadgetCiphertext
	if withBuffer {
		buf = rlwe.NewGadgetCiphertext(p, 0, kp.levelQ, kp.levelP, kp.base2)
	}
	return evk.Expand(p, buf)
}

// uniformCt returns a ciphertext with uniformly random components (keyed, deterministic). Any tuple
// of polynomials has a phase, and every operation under test is (affine-)linear in the ciphertext, so
// uniform operands exercise the whole digit range and make any wrong coefficient visible (a wrong
// value is off by ≈ Q, never by a small amount).
func uniformCt(p rlwe.Parameters, degree, level int, isNTT bool, parts ...interface{}) *rlwe.Ciphertext {
	ct := rlwe.NewCiphertext(p, degree, level)
	s := ring.NewUniformSampler(uni.KeyedPRNG(parts...), p.RingQ()).AtLevel(level)
	for i := range ct.Value {
		s.Read(ct.Value[i])
	}
	ct.IsNTT = isNTT
	ct.Scale = rlwe.NewScale(1 << 20)
	ct.LogDimensions = ring.Dimensions{Rows: 0, Cols: 2}
	return ct
}

// topOfRange overwrites polynomial `idx` of ct with the coefficients q_i − 1 − j on every prime (set in
// the coefficient domain, then moved to the flagged domain): the largest residues, whose top bit is
// the first casualty of a digit count that is one short.
func topOfRange(p rlwe.Parameters, ct *rlwe.Ciphertext, idx int) {
	r := p.RingQ().AtLevel(ct.Level())
	pol := ct.Value[idx]
	for i, q := range r.ModuliChain()[:ct.Level()+1] {
		for j := range pol.Coeffs[i] {
			pol.Coeffs[i][j] = q - 1 - uint64(j)
		}
	}
	if ct.IsNTT {
		r.NTT(pol, pol)
	}
}

// dirtyReceiver is a receiver with a HISTORY: uniform stale content and the metadata a previous call
// in the other domain would have left (IsNTT opposite to the coming input, another scale, other
// dimensions, batching flags set). Every operation must overwrite all of it.
func dirtyReceiver(p rlwe.Parameters, degree, level int, inputIsNTT bool, parts ...interface{}) *rlwe.Ciphertext {
	ct := uniformCt(p, degree, level, !inputIsNTT, append(parts, "dirty")...)
	ct.Scale = rlwe.NewScale(999)
	ct.LogDimensions = ring.Dimensions{Rows: 1, Cols: 3}
	ct.IsBatched, ct.IsBitReversed = true, true
	return ct
}

func metaEqual(a, b *rlwe.MetaData) bool {
	return a.IsNTT == b.IsNTT && a.IsMontgomery == b.IsMontgomery && a.IsBatched == b.IsBatched &&
		a.IsBitReversed == b.IsBitReversed && a.LogDimensions == b.LogDimensions && a.Scale.Cmp(b.Scale) == 0
}

// judge compares the phase of `out` under the target key with the expected polynomial.
func judge(c *engine.Chooser, sig, what string, rt ring.Type, rQ *ring.Ring, out *rlwe.Ciphertext, sOut, want []*big.Int, bound *big.Int) bool {
	Q := ref.Prod(rQ.ModuliChain()[:out.Level()+1])
	got := rk.Phase(rt, rQ, &out.Element, sOut)
	e := uni.SubCentered(got, want, Q)
	if n := ref.InfNorm(e); n.Cmp(bound) > 0 {
		c.Fail(sig, "%s: |phase under the target key − transformed plaintext|∞ = 2^%d > bound 2^%d (Q = 2^%d); first coefficients of the difference: %v",
			what, n.BitLen(), bound.BitLen(), Q.BitLen(), e[:3])
		return false
	}
	c.Outcome(sig, ref.InfNorm(e).BitLen(), bound.BitLen())
	return true
}
