package main

import (
	"fmt"
	"math/big"

	"github.com/tuneinsight/lattigo/v6/core/rlwe"
	"github.com/tuneinsight/lattigo/v6/ring"

	"verif/engine"
	"verif/lib/rk"
	"verif/ref"
	"verif/uni"
)

// keyBelowScenario: an evaluation key whose LevelQ is BELOW the level of the ciphertext it is applied
// to. The statement of C04 quantifies over "ciphertexts at any level not above the key's", so this shape
// is outside it; what is demanded here is only that the library does not hand back a ciphertext that
// claims a level it is not valid at: the call must either be refused (error: counted as rejected) or
// return a ciphertext that, AT THE LEVEL IT REPORTS, decrypts under the target key to the transformed
// plaintext (working at min(ciphertext level, key level) and reporting that level is correct: a
// ciphertext truncated to fewer primes is still a valid encryption).
const sigKeyBelow = "C04/key-LevelQ-below-ciphertext-level/result-invalid-at-reported-level"

var keyBelowOps = []string{"ApplyEvaluationKey", "Relinearize", "Automorphism", "AutomorphismHoisted"}

func keyBelowScenario(rt ring.Type, logN int, ch rk.Chain) engine.Scenario {
	name := fmt.Sprintf("keybelow/%s/logN%d/%s", ringName(rt), logN, ch.Name)
	return engine.Scenario{Name: name, Bound: -1, Fn: func(c *engine.Chooser) {
		p := rk.Params(ch.Lit(logN, maxLogN, rt, true, nil, nil))
		L := p.MaxLevel()
		if L == 0 {
			c.Skip("single-prime chain")
			return
		}
		op := keyBelowOps[c.ChooseFree(len(keyBelowOps), "op")]
		kp := keyParams{levelQ: c.ChooseFree(L, "keyLevelQ"), levelP: p.MaxLevelP()}
		level := L - c.ChooseFree(L-kp.levelQ, "ctLevel") // kp.levelQ < level <= L
		isNTT := c.ChooseFree(2, "IsNTT") == 0
		used := c.ChooseFree(2, "evaluator") == 1 // a fresh evaluator, or one whose buffers hold a full-level result
		cfg := fmt.Sprintf("%s key LevelQ=%d ctLevel=%d IsNTT=%v usedEvaluator=%v", op, kp.levelQ, level, isNTT, used)
		c.Note("%s", cfg)
		c.Cover("keybelow-op", op)
		uni.Seed(c, name, cfg)
		if op == "AutomorphismHoisted" && kp.levelP < 0 {
			c.Skip("hoisted form needs a P")
			return
		}
		kgen := rlwe.NewKeyGenerator(p)
		sk, sk2 := kgen.GenSecretKeyNew(), kgen.GenSecretKeyNew()
		s, s2 := rk.Secret(p, sk), rk.Secret(p, sk2)
		rQ := p.RingQ()
		galEl := p.GaloisElement(1)
		full := keyParams{levelQ: L, levelP: p.MaxLevelP()}
		var out *rlwe.Ciphertext
		var want, sOut []*big.Int
		err, pan := uni.Try(func() error {
			gk := kgen.GenGaloisKeyNew(galEl, sk, kp.evk())
			gkFull := kgen.GenGaloisKeyNew(p.GaloisElement(2), sk, full.evk())
			rlk := kgen.GenRelinearizationKeyNew(sk, kp.evk())
			evk := kgen.GenEvaluationKeyNew(sk, sk2, kp.evk())
			eval := rlwe.NewEvaluator(p, rlwe.NewMemEvaluationKeySet(rlk, gk, gkFull))
			if used {
				tmp := uniformCt(p, 1, L, isNTT, name, cfg, "warmup")
				if err := eval.Automorphism(tmp, p.GaloisElement(2), tmp); err != nil {
					return err
				}
			}
			deg := 1
			if op == "Relinearize" {
				deg = 2
			}
			ct := uniformCt(p, deg, level, isNTT, name, cfg, "ct")
			ph := rk.Phase(rt, rQ, &ct.Element, s)
			out = rlwe.NewCiphertext(p, 1, level)
			sOut = s
			switch op {
			case "ApplyEvaluationKey":
				want, sOut = ph, s2
				return eval.ApplyEvaluationKey(ct, evk, out)
			case "Relinearize":
				want = ph
				return eval.Relinearize(ct, out)
			case "Automorphism":
				want = rk.Auto(rt, ph, galEl)
				return eval.Automorphism(ct, galEl, out)
			default:
				want = rk.Auto(rt, ph, galEl)
				eval.DecomposeNTT(level, kp.levelP, kp.levelP+1, ct.Value[1], isNTT, eval.BuffDecompQP)
				return eval.AutomorphismHoisted(level, ct, eval.BuffDecompQP, galEl, out)
			}
		})
		if pan != nil {
			c.Fail(sigKeyBelow, "%s: panicked: %v", cfg, pan)
			return
		}
		if err != nil {
			c.Cover("rejected", "key-LevelQ-below-ciphertext-level")
			return
		}
		lv := out.Level()
		if lv > level {
			c.Fail(sigKeyBelow, "%s: output level %d above the input level", cfg, lv)
			return
		}
		work := lv
		if kp.levelQ < work {
			work = kp.levelQ
		}
		bnd := ksBound(p, work, kp, beOf(p), bsOf(p))
		Q := qAt(p, lv)
		got := rk.Phase(rt, rQ, &out.Element, sOut)
		e := uni.SubCentered(got, rk.CenterAll(want, Q), Q)
		if n := ref.InfNorm(e); n.Cmp(bnd) > 0 && inScope(bnd, Q) {
			c.Fail(sigKeyBelow, "%s: no error, output reports level %d, but at that level |phase − transformed plaintext|∞ = 2^%d (bound 2^%d, Q = 2^%d)", cfg, lv, n.BitLen(), bnd.BitLen(), Q.BitLen())
			return
		}
		c.Cover("keybelow-outcome", "valid-at-reported-level")
	}}
}
