package main

import (
	"fmt"
	"math/big"

	"github.com/tuneinsight/lattigo/v6/core/rlwe"
	"github.com/tuneinsight/lattigo/v6/ring"
	"github.com/tuneinsight/lattigo/v6/schemes/ckks"

	"verif/engine"
	"verif/lib/rk"
	"verif/ref"
	"verif/uni"
)

// otherP returns a P of the same shape as the chain's but made of different primes (the small-degree
// parameters of a ring-degree switch only have to share Q: the key generator must extend the small
// key to the large parameters' own P).
func otherP(ch rk.Chain) []uint64 {
	if len(ch.PBits) == 0 {
		return nil
	}
	d := rk.Chain{QBits: ch.QBits, PBits: append(append([]int{}, ch.PBits...), ch.PBits...)}
	_, p := d.Moduli(maxLogN)
	return p[len(ch.PBits):]
}

// ringDegScenario: ApplyEvaluationKey between ring degrees 2^logN and 2^(logN-1) (Y = X^2).
//
//	small -> large: the input is mapped to the large ring by Y -> X^2 (a ring homomorphism, so its
//	                phase under embed(s_small) is embed(phase)), then re-encrypted under s_large.
//	large -> small: re-encrypted under embed(s_small) in the large ring, then the coefficients of
//	                X^(2w) are kept: c1·embed(s) only meets the even coefficients of c1 there, so the
//	                result is an encryption under s_small of the even coefficients of the phase.
func ringDegScenario(rt ring.Type, logN int, ch rk.Chain, bound int) engine.Scenario {
	name := fmt.Sprintf("ringdeg/%s/logN%d<->%d/%s", ringName(rt), logN-1, logN, ch.Name)
	return engine.Scenario{Name: name, Bound: bound, Fn: func(c *engine.Chooser) {
		pL := rk.Params(ch.Lit(logN, maxLogN, rt, true, nil, nil))
		litS := ch.Lit(logN-1, maxLogN, rt, true, nil, nil)
		litS.P = otherP(ch)
		pS := rk.Params(litS)
		dir := c.ChooseFree(2, "direction")
		kp := chooseKeyParams(c, pL, true)
		level := kp.levelQ - c.Choose(kp.levelQ+1, "ctLevel")
		isNTT := c.Choose(2, "IsNTT") == 0
		top := c.Bool("operand")
		// receiver: 0 at the input's level, 1 one level below, 2 above (top level)
		outMode := c.Choose(3, "out")
		// receiver history: re-used after a call in the OTHER domain (stale content, IsNTT opposite to the
		// input, other scale / dimensions) — also what a receiver allocated from parameters with the
		// opposite NTTFlag looks like
		dirty := c.Bool("dirtyReceiver")
		c.Cover("ringdeg-receiver", map[bool]string{false: "fresh", true: "dirty-metadata"}[dirty])
		dirName := []string{"small->large", "large->small"}[dir]
		cfg := fmt.Sprintf("ApplyEvaluationKey %s %s ctLevel=%d IsNTT=%v top=%v out=%d dirty=%v", dirName, kp, level, isNTT, top, outMode, dirty)
		c.Note("%s", cfg)
		c.Cover("op", "ApplyEvaluationKey/"+dirName)
		c.Cover("ring", ringName(rt))
		uni.Seed(c, name, cfg)
		known := knownKS(pL, kp, level, isNTT)
		sig := func(clause string) string {
			if known != "" {
				return known
			}
			return "C04/ApplyEvaluationKey/" + dirName + "/" + clause
		}
		inLevel, outLevel := level, level
		switch {
		case outMode == 1 && level > 0:
			outLevel, level = level-1, level-1 // the operation runs at the minimum
			c.Cover("out", "ringdeg-below-input")
		case outMode == 2 && level < pL.MaxLevel():
			outLevel = pL.MaxLevel()
			c.Cover("out", "ringdeg-above-input") // (the receiver must be brought down: fixed in /repo 2bc2411)
		}
		bnd := ksBound(pL, level, kp, beOf(pL), bsOf(pL))
		if !inScope(bnd, qAt(pL, level)) {
			c.Skip("noise bound implied by the key parameters ≥ Q/4")
			return
		}
		kgL, kgS := rlwe.NewKeyGenerator(pL), rlwe.NewKeyGenerator(pS)
		skL, skS := kgL.GenSecretKeyNew(), kgS.GenSecretKeyNew()
		sL, sS := rk.Secret(pL, skL), rk.Secret(pS, skS)
		var out *rlwe.Ciphertext
		var want, sOut []*big.Int
		pOut := pL
		err, pan := uni.Try(func() error {
			eval := rlwe.NewEvaluator(pL, nil)
			if dir == 0 {
				evk := kgL.GenEvaluationKeyNew(skS, skL, kp.evk())
				if err := expand(pL, evk, kp, level%2 == 1); err != nil {
					return err
				}
				ct := uniformCt(pS, 1, inLevel, isNTT, name, cfg, "ct")
				if top {
					topOfRange(pS, ct, 1)
				}
				want = rk.CenterAll(rk.Embed(rk.Phase(rt, pS.RingQ(), &ct.Element, sS), 2), qAt(pL, level))
				sOut = sL
				out = rlwe.NewCiphertext(pL, 1, outLevel)
				if dirty {
					out = dirtyReceiver(pL, 1, outLevel, isNTT, name, cfg)
				}
				in := *ct.MetaData
				if err := eval.ApplyEvaluationKey(ct, evk, out); err != nil {
					return err
				}
				if !metaEqual(out.MetaData, &in) {
					return fmt.Errorf("metadata not propagated: %+v -> %+v", in, *out.MetaData)
				}
			} else {
				evk := kgL.GenEvaluationKeyNew(skL, skS, kp.evk())
				if err := expand(pL, evk, kp, level%2 == 1); err != nil {
					return err
				}
				ct := uniformCt(pL, 1, inLevel, isNTT, name, cfg, "ct")
				if top {
					topOfRange(pL, ct, 1)
				}
				want = rk.CenterAll(rk.Subsample(rk.Phase(rt, pL.RingQ(), &ct.Element, sL), 2), qAt(pL, level))
				sOut, pOut = sS, pS
				out = rlwe.NewCiphertext(pS, 1, outLevel)
				if dirty {
					out = dirtyReceiver(pS, 1, outLevel, isNTT, name, cfg)
				}
				in := *ct.MetaData
				if err := eval.ApplyEvaluationKey(ct, evk, out); err != nil {
					return err
				}
				if !metaEqual(out.MetaData, &in) {
					return fmt.Errorf("metadata not propagated: %+v -> %+v", in, *out.MetaData)
				}
			}
			return nil
		})
		if pan != nil {
			c.Fail(sig("panic"), "%s: panicked: %v", cfg, pan)
			return
		}
		if err != nil {
			c.Fail(sig("error"), "%s: %v", cfg, err)
			return
		}
		if out.Level() != level {
			c.Fail(sig("level"), "%s: output level %d, want min(input %d, receiver %d) = %d", cfg, out.Level(), inLevel, outLevel, level)
			return
		}
		judge(c, sig("phase"), cfg, rt, pOut.RingQ(), out, sOut, want, bnd)
	}}
}

// bridgeScenario: ckks.DomainSwitcher between the standard ring of degree 2n and the conjugate-
// invariant ring of degree n (schemes/ckks/bridge.go).
//
//	RealToComplex: unfold (the embedding of Z[X+X^-1]/(X^2n+1) into Z[X]/(X^2n+1)), then key switch
//	               unfold(s_ci) -> s_std: phase_std = unfold(phase_ci) + noise.
//	ComplexToReal: key switch s_std -> unfold(s_ci), then x -> x + x(X^-1) restricted to the
//	               conjugate-invariant ring: in compressed form b_0 = 2·x_0, b_i = x_i − x_(2n−i); the
//	               scale doubles (documented) and so does the key-switch noise.
func bridgeScenario(ch rk.Chain, bound int) engine.Scenario {
	name := fmt.Sprintf("bridge/ckks/logN4ci<->5std/%s", ch.Name)
	var pCI, pStd ckks.Parameters // built once per worker process (parameter construction factors q−1)
	var eval *ckks.Evaluator
	return engine.Scenario{Name: name, Bound: bound, Fn: func(c *engine.Chooser) {
		if eval == nil {
			q, pp := ch.Moduli(maxLogN)
			mk := func(logN int, rt ring.Type, P []uint64) ckks.Parameters {
				p, err := ckks.NewParametersFromLiteral(ckks.ParametersLiteral{LogN: logN, Q: q, P: P, RingType: rt, LogDefaultScale: 20})
				if err != nil {
					panic(err)
				}
				return p
			}
			pCI, pStd = mk(4, ring.ConjugateInvariant, otherP(ch)), mk(5, ring.Standard, pp)
			eval = ckks.NewEvaluator(pStd, nil)
		}
		dir := c.ChooseFree(2, "direction")
		kp := chooseKeyParams(c, pStd.Parameters, true)
		level := kp.levelQ - c.Choose(kp.levelQ+1, "ctLevel")
		top := c.Bool("operand")
		dirName := []string{"RealToComplex", "ComplexToReal"}[dir]
		cfg := fmt.Sprintf("DomainSwitcher.%s %s ctLevel=%d top=%v", dirName, kp, level, top)
		c.Note("%s", cfg)
		c.Cover("op", "DomainSwitcher."+dirName)
		uni.Seed(c, name, cfg)
		known := knownKS(pStd.Parameters, kp, level, true)
		sig := func(clause string) string {
			if known != "" {
				return known
			}
			return "C04/DomainSwitcher." + dirName + "/" + clause
		}
		bnd := ksBound(pStd.Parameters, level, kp, beOf(pStd.Parameters), bsOf(pStd.Parameters))
		if dir == 1 {
			bnd.Lsh(bnd, 1)
		}
		if !inScope(bnd, qAt(pStd.Parameters, level)) {
			c.Skip("noise bound implied by the key parameters ≥ Q/4")
			return
		}
		kgStd, kgCI := rlwe.NewKeyGenerator(pStd), rlwe.NewKeyGenerator(pCI)
		skStd, skCI := kgStd.GenSecretKeyNew(), kgCI.GenSecretKeyNew()
		sStd, sCI := rk.Secret(pStd.Parameters, skStd), rk.Secret(pCI.Parameters, skCI)
		var out *rlwe.Ciphertext
		var want, sOut []*big.Int
		rtOut, rQOut := ring.Standard, pStd.RingQ()
		err, pan := uni.Try(func() error {
			stdToCI, ciToStd := kgStd.GenEvaluationKeysForRingSwapNew(skStd, skCI, kp.evk())
			for _, k := range []*rlwe.EvaluationKey{stdToCI, ciToStd} {
				if err := expand(pStd.Parameters, k, kp, level%2 == 1); err != nil {
					return err
				}
			}
			sw, err := ckks.NewDomainSwitcher(pStd, stdToCI, ciToStd)
			if err != nil {
				return err
			}
			if dir == 0 {
				ct := uniformCt(pCI.Parameters, 1, level, true, name, cfg, "ct")
				if top {
					topOfRange(pCI.Parameters, ct, 1)
				}
				want = rk.Unfold(rk.Phase(ring.ConjugateInvariant, pCI.RingQ(), &ct.Element, sCI))
				sOut = sStd
				out = rlwe.NewCiphertext(pStd, 1, level)
				in := *ct.MetaData
				if err := sw.RealToComplex(eval, ct, out); err != nil {
					return err
				}
				if !metaEqual(out.MetaData, &in) {
					return fmt.Errorf("metadata not propagated: %+v -> %+v", in, *out.MetaData)
				}
			} else {
				ct := uniformCt(pStd.Parameters, 1, level, true, name, cfg, "ct")
				if top {
					topOfRange(pStd.Parameters, ct, 1)
				}
				x := rk.Phase(ring.Standard, pStd.RingQ(), &ct.Element, sStd)
				n := pCI.N()
				want = make([]*big.Int, n)
				want[0] = new(big.Int).Lsh(x[0], 1)
				for i := 1; i < n; i++ {
					want[i] = new(big.Int).Sub(x[i], x[2*n-i])
				}
				want = rk.CenterAll(want, qAt(pStd.Parameters, level))
				sOut, rtOut, rQOut = sCI, ring.ConjugateInvariant, pCI.RingQ()
				out = rlwe.NewCiphertext(pCI, 1, level)
				in := *ct.MetaData
				if err := sw.ComplexToReal(eval, ct, out); err != nil {
					return err
				}
				in.Scale = in.Scale.Mul(rlwe.NewScale(2))
				if !metaEqual(out.MetaData, &in) {
					return fmt.Errorf("metadata: got %+v, want the input's with the scale doubled %+v", *out.MetaData, in)
				}
			}
			return nil
		})
		if pan != nil {
			c.Fail(sig("panic"), "%s: panicked: %v", cfg, pan)
			return
		}
		if err != nil {
			c.Fail(sig("error"), "%s: %v", cfg, err)
			return
		}
		judge(c, sig("phase"), cfg, rtOut, rQOut, out, sOut, want, bnd)
	}}
}

var _ = ref.Prod
