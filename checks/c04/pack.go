package main

import (
	"fmt"
	"math/big"
	"sort"

	"github.com/tuneinsight/lattigo/v6/core/rlwe"
	"github.com/tuneinsight/lattigo/v6/ring"

	"verif/engine"
	"verif/lib/rk"
	"verif/ref"
	"verif/uni"
)

// packScenario drives rlwe.RingPackingEvaluator (core/rlwe/ring_packing*.go) between ring degrees
// 2^minLogN .. 2^logN. All operands are uniform ciphertexts in the NTT domain; every operation is
// linear in the ciphertext, so the expected phase is an exact function of the input phases:
//
//	Split:   even[w] = x[2w], odd[w] = x[2w+1]                 under the key of degree N/2
//	Merge:   x[2w] = even[w], x[2w+1] = odd[w]                 under the key of degree N
//	Expand:  cts[i] = x[i]·X^0 for every i ≡ 0 mod 2^logGap    (the factor N^-1 applied first is
//	         undone exactly by the logN doublings; all other coefficients cancel exactly)
//	Extract: cts[i] = x[i]·X^0 at the minimum degree, for i in idx
//	Repack:  x[i] = cts[i][0] for i in the map, 0 elsewhere, at the maximum degree
//	Pack:    called directly, both values of zeroGarbageSlots × input gap 2^g × index sets {dense, gap 2, gap 3,
//	         gap 4, single, mixed}: input k (k < 2^g) carries its values on the multiples of 2^g; the output
//	         holds in_k[j·2^g] at position j·2^g + k for every k in the map. With zeroGarbageSlots=true every
//	         other position is zero; with false only the positions of the map are judged (the rest is
//	         documented as garbage). A map that cannot be packed (single input without zeroing) must be refused.
//	ExtractNaive+Repack, Extract+RepackNaive: the naive forms leave the non-constant coefficients
//	         alone and are documented as correct only composed with the non-naive counterpart: the
//	         round trip keeps x[i] for i in idx and zeroes the rest
//
// Noise: every automorphism / ring switch adds at most one key-switch term B (ksBound, taken for the
// largest parameters), later doublings at most double what is there: Expand / Pack over logn steps
// accumulate ≤ n·B, each Split / Merge level adds B. 4·N·B is a sound over-estimate for all of them;
// with uniform phases a wrong coefficient is off by ≈ Q, so the slack costs no discrimination.
var packOps = []string{"Split", "Merge", "Expand", "Extract", "Repack", "ExtractNaive+Repack", "Extract+RepackNaive", "Pack"}

// packCase: one direct call of Pack.
type packCase struct {
	zero   bool   // zeroGarbageSlots
	logGap int    // inputLogGap (0: the ring degree, i.e. only the constant coefficients carry values)
	set    string // index set
}

func (pc packCase) String() string {
	return fmt.Sprintf("zeroGarbageSlots=%v/inputLogGap=%d/%s", pc.zero, pc.logGap, pc.set)
}

func (pc packCase) keys(n int) (k []int) {
	switch pc.set {
	case "dense":
		for i := 0; i < n; i++ {
			k = append(k, i)
		}
	case "gap2", "gap3", "gap4":
		for i := 0; i < n; i += int(pc.set[3] - '0') {
			k = append(k, i)
		}
	case "single":
		k = []int{n - 1}
	case "mixed":
		k = []int{0, 1, n - 3, n - 2}
	case "two":
		k = []int{0, n / 2}
	}
	return
}

var packCases = func() (r []packCase) {
	for _, zero := range []bool{true, false} {
		for _, g := range []int{0, 2, 3} {
			for _, set := range []string{"dense", "gap2", "gap3", "gap4", "single", "mixed", "two"} {
				if g == 2 && (set == "gap3" || set == "gap4") {
					continue // (fewer than two indexes below 4)
				}
				r = append(r, packCase{zero, g, set})
			}
		}
	}
	return
}()

func packScenario(logN, minLogN int, ch rk.Chain, bound int) engine.Scenario {
	return packScenarioOf(logN, minLogN, ch, bound, false)
}

// packDirectScenario: the direct calls of Pack (packCases) in their own scenario, with default key
// parameters (every LevelP, both operand domains): the cases are a product of their own.
func packDirectScenario(logN, minLogN int, ch rk.Chain) engine.Scenario {
	return packScenarioOf(logN, minLogN, ch, -1, true)
}

func packScenarioOf(logN, minLogN int, ch rk.Chain, bound int, direct bool) engine.Scenario {
	name := fmt.Sprintf("pack/logN%d..%d/%s", minLogN, logN, ch.Name)
	if direct {
		name = fmt.Sprintf("packdirect/logN%d..%d/%s", minLogN, logN, ch.Name)
	}
	rt := ring.Standard
	return engine.Scenario{Name: name, Bound: bound, Fn: func(c *engine.Chooser) {
		p := rk.Params(ch.Lit(logN, maxLogN, rt, true, nil, nil))
		var kp keyParams
		var op string
		var variant, packCase int
		var inNTT bool
		if direct {
			op = "Pack"
			kp.levelQ = p.MaxLevelQ()
			kp.levelP = p.MaxLevelP() - c.ChooseFree(p.MaxLevelP()+2, "LevelP")
			packCase = c.ChooseFree(len(packCases), "packCase")
			inNTT = c.ChooseFree(2, "IsNTT") == 0
		} else {
			op = packOps[c.ChooseFree(len(packOps)-1, "op")] // ("Pack", the last one, has its own scenario)
			kp.levelQ = p.MaxLevelQ() - c.Choose(p.MaxLevelQ()+1, "LevelQ")
			kp.levelP = p.MaxLevelP() - c.ChooseFree(p.MaxLevelP()+2, "LevelP")
			kp.base2 = base2Alphabet[c.Choose(len(base2Alphabet), "BaseTwoDecomposition")]
			variant = c.Choose(3, "variant") // op-specific: index set / gap / nil odd half
			// keys generated compressed, expanded by the caller before the evaluator is built
			kp.compressed = c.Bool("Compressed")
			// operands in the coefficient domain (parameters with NTTFlag=false would produce them)
			inNTT = c.Choose(2, "IsNTT") == 0
		}
		c.Cover("pack-keys", map[bool]string{false: "plain", true: "compressed-then-expanded"}[kp.compressed])
		c.Cover("pack-IsNTT", fmt.Sprint(inNTT))
		level := kp.levelQ // the smaller parameter sets only have LevelQ+1 primes
		cfg := fmt.Sprintf("RingPacking.%s %s variant=%d IsNTT=%v", op, kp, variant, inNTT)
		if op == "Pack" {
			cfg += " " + packCases[packCase].String()
			c.Cover("pack-case", packCases[packCase].String())
		}
		c.Note("%s", cfg)
		c.Cover("op", "RingPacking."+op)
		uni.Seed(c, name, cfg)
		known := knownKS(p, kp, level, true)
		// Split and Merge (hence Extract*, which splits first) work on NTT values unconditionally
		// (SwitchCiphertextRingDegreeNTT, products with X^±1 in the NTT domain) and never look at
		// ct.IsNTT, whereas Expand and Pack convert a coefficient-domain input: silent garbage.
		coeffSplitMerge := !inNTT && op != "Expand" && op != "Repack"
		sig := func(clause string) string {
			if known != "" {
				return known
			}
			return "C04/RingPacking." + op + "/" + clause
		}
		N := p.N()
		bnd := ksBound(p, level, kp, beOf(p), bsOf(p))
		bnd.Mul(bnd, big.NewInt(int64(4*N)))
		Q := qAt(p, level)
		if !inScope(bnd, Q) {
			c.Skip("noise bound implied by the key parameters ≥ Q/4")
			return
		}
		type result struct {
			what string
			ct   *rlwe.Ciphertext
			logN int
			want []*big.Int
		}
		var results []result
		var packJudged []bool // Pack without zeroing: positions outside the map are unspecified
		var ski map[int]*rlwe.SecretKey
		var rpk rlwe.RingPackingEvaluationKey
		constPoly := func(n int, v *big.Int) []*big.Int {
			w := make([]*big.Int, n)
			for i := range w {
				w[i] = new(big.Int)
			}
			w[0].Set(v)
			return w
		}
		err, pan := uni.Try(func() error {
			sk := rlwe.NewKeyGenerator(p).GenSecretKeyNew()
			var err error
			if ski, err = rpk.GenRingSwitchingKeys(p, sk, minLogN, kp.evk()); err != nil {
				return err
			}
			for l := minLogN; l <= logN; l++ {
				rpk.GenRepackEvaluationKeys(rpk.Parameters[l], ski[l], kp.evk())
			}
			rpk.GenExtractEvaluationKeys(rpk.Parameters[minLogN], ski[minLogN], kp.evk())
			if kp.compressed {
				for a := range rpk.RingSwitchingKeys {
					for b, k := range rpk.RingSwitchingKeys[a] {
						l := a
						if b > a {
							l = b
						}
						if err := k.Expand(rpk.Parameters[l], nil); err != nil {
							return fmt.Errorf("Expand ring-switching key %d->%d: %w", a, b, err)
						}
					}
				}
				for _, sets := range []map[int]rlwe.EvaluationKeySet{rpk.RepackKeys, rpk.ExtractKeys} {
					for l, set := range sets {
						for g, gk := range set.(*rlwe.MemEvaluationKeySet).GaloisKeys {
							if err := gk.Expand(rpk.Parameters[l], nil); err != nil {
								return fmt.Errorf("Expand Galois key %d at logN %d: %w", g, l, err)
							}
						}
					}
				}
			}
			eval := rlwe.NewRingPackingEvaluator(&rpk)
			par := func(l int) rlwe.Parameters { return *rpk.Parameters[l].GetRLWEParameters() }
			phase := func(l int, ct *rlwe.Ciphertext) []*big.Int {
				return rk.Phase(rt, par(l).RingQ(), &ct.Element, rk.Secret(par(l), ski[l]))
			}
			switch op {
			case "Split":
				ct := uniformCt(p, 1, level, inNTT, name, cfg, "ct")
				x := phase(logN, ct)
				even := dirtyReceiver(par(logN-1), 1, level, inNTT, name, cfg, "even") // receivers with a history
				var odd *rlwe.Ciphertext
				if variant != 2 { // the odd half is optional
					odd = dirtyReceiver(par(logN-1), 1, level, inNTT, name, cfg, "odd")
				}
				if variant == 1 {
					var err error
					if even, odd, err = eval.SplitNew(ct); err != nil {
						return err
					}
				} else if err := eval.Split(ct, even, odd); err != nil {
					return err
				}
				we, wo := make([]*big.Int, N/2), make([]*big.Int, N/2)
				for w := range we {
					we[w], wo[w] = x[2*w], x[2*w+1]
				}
				results = append(results, result{"even half", even, logN - 1, we})
				if odd != nil {
					results = append(results, result{"odd half", odd, logN - 1, wo})
				}
			case "Merge":
				even := uniformCt(par(logN-1), 1, level, inNTT, name, cfg, "even")
				odd := uniformCt(par(logN-1), 1, level, inNTT, name, cfg, "odd")
				xe, xo := phase(logN-1, even), phase(logN-1, odd)
				want := make([]*big.Int, N)
				for w := 0; w < N/2; w++ {
					want[2*w], want[2*w+1] = xe[w], xo[w]
				}
				if variant == 2 { // nil odd half
					odd = nil
					for w := 0; w < N/2; w++ {
						want[2*w+1] = new(big.Int)
					}
				}
				var out *rlwe.Ciphertext
				if variant == 1 {
					var err error
					if out, err = eval.MergeNew(even, odd); err != nil {
						return err
					}
				} else {
					out = dirtyReceiver(p, 1, level, inNTT, name, cfg, "merged")
					if err := eval.Merge(even, odd, out); err != nil {
						return err
					}
				}
				results = append(results, result{"merged", out, logN, want})
			case "Expand":
				pm := par(minLogN)
				ct := uniformCt(pm, 1, level, inNTT && variant != 2, name, cfg, "ct")
				x := phase(minLogN, ct)
				logGap := []int{0, 1, 0}[variant]
				cts, err := eval.Expand(ct, logGap)
				if err != nil {
					return err
				}
				for i := 0; i < pm.N(); i += 1 << logGap {
					if cts[i] == nil {
						return fmt.Errorf("Expand(logGap=%d): no ciphertext for index %d", logGap, i)
					}
					results = append(results, result{fmt.Sprintf("cts[%d]", i), cts[i], minLogN, constPoly(pm.N(), x[i])})
				}
			case "Extract", "ExtractNaive+Repack", "Extract+RepackNaive":
				ct := uniformCt(p, 1, level, inNTT, name, cfg, "ct")
				x := phase(logN, ct)
				idx := map[int]bool{}
				switch variant {
				case 0: // every coefficient
					for i := 0; i < N; i++ {
						idx[i] = true
					}
				case 1: // gap 4
					for i := 0; i < N; i += 4 {
						idx[i] = true
					}
				case 2: // irregular
					for _, i := range []int{0, 3, 5, N - 1} {
						idx[i] = true
					}
				}
				if op == "Extract" {
					cts, err := eval.Extract(ct, idx)
					if err != nil {
						return err
					}
					keys := make([]int, 0, len(idx))
					for i := range idx {
						keys = append(keys, i)
					}
					sort.Ints(keys)
					for _, i := range keys {
						if cts[i] == nil {
							return fmt.Errorf("Extract: no ciphertext for index %d", i)
						}
						results = append(results, result{fmt.Sprintf("cts[%d]", i), cts[i], minLogN, constPoly(1<<minLogN, x[i])})
					}
				} else {
					var cts map[int]*rlwe.Ciphertext
					var out *rlwe.Ciphertext
					var err error
					if op == "ExtractNaive+Repack" {
						if cts, err = eval.ExtractNaive(ct, idx); err != nil {
							return err
						}
						out, err = eval.Repack(cts)
					} else {
						if cts, err = eval.Extract(ct, idx); err != nil {
							return err
						}
						out, err = eval.RepackNaive(cts)
					}
					if err != nil {
						return err
					}
					want := make([]*big.Int, N)
					for i := range want {
						want[i] = new(big.Int)
						if idx[i] {
							want[i] = x[i]
						}
					}
					results = append(results, result{"round trip", out, logN, want})
				}
			case "Pack":
				pm := par(minLogN)
				pc := packCases[packCase]
				g := pc.logGap
				if g == 0 {
					g = minLogN
				}
				keys := pc.keys(1 << g)
				cts := map[int]*rlwe.Ciphertext{}
				want := make([]*big.Int, pm.N())
				judged := make([]bool, pm.N())
				for i := range want {
					want[i] = new(big.Int)
					judged[i] = pc.zero // zeroed garbage: every position is specified
				}
				for _, k := range keys {
					cts[k] = uniformCt(pm, 1, level, inNTT, name, cfg, "ct", k)
					x := phase(minLogN, cts[k])
					for j := 0; j < pm.N(); j += 1 << g {
						want[j+k], judged[j+k] = x[j], true
					}
				}
				out, err := eval.Pack(cts, g, pc.zero)
				if err != nil {
					if len(keys) == 1 && !pc.zero {
						c.Cover("rejected", "Pack/single-input-without-zeroing")
						return nil
					}
					return err
				}
				packJudged = judged
				results = append(results, result{"packed", out, minLogN, want})
			case "Repack":
				pm := par(minLogN)
				var keys []int
				switch variant {
				case 0:
					for i := 0; i < N; i++ {
						keys = append(keys, i)
					}
				case 1:
					for i := 0; i < N; i += 4 {
						keys = append(keys, i)
					}
				case 2:
					keys = []int{0, 3, 5, N - 1}
				}
				cts := map[int]*rlwe.Ciphertext{}
				want := make([]*big.Int, N)
				for i := range want {
					want[i] = new(big.Int)
				}
				for _, i := range keys {
					cts[i] = uniformCt(pm, 1, level, inNTT, name, cfg, "ct", i)
					want[i] = phase(minLogN, cts[i])[0]
				}
				out, err := eval.Repack(cts)
				if err != nil {
					return err
				}
				results = append(results, result{"repacked", out, logN, want})
			}
			return nil
		})
		if pan != nil {
			c.Fail(sig("panic"), "%s: panicked: %v", cfg, pan)
			return
		}
		if err != nil && coeffSplitMerge {
			// Split / Merge work on NTT values: refusing a coefficient-domain operand with an error is
			// the documented way out (the defect is processing it silently)
			c.Cover("rejected", "RingPacking.Split|Merge/coefficient-domain-input")
			return
		}
		if err != nil {
			c.Fail(sig("error"), "%s: %v", cfg, err)
			return
		}
		c.Count(len(results)) // (a coefficient-domain operand that is accepted is judged like any other)
		for _, r := range results {
			pr := *rpk.Parameters[r.logN].GetRLWEParameters()
			if r.ct.LogN() != r.logN || r.ct.Level() != level {
				c.Fail(sig("shape"), "%s %s: logN %d level %d, want %d and %d", cfg, r.what, r.ct.LogN(), r.ct.Level(), r.logN, level)
				return
			}
			if packJudged != nil {
				// compare only the specified positions
				got := rk.Phase(rt, pr.RingQ(), &r.ct.Element, rk.Secret(pr, ski[r.logN]))
				for i := range got {
					if !packJudged[i] {
						r.want[i] = got[i]
					}
				}
			}
			if !judge(c, sig("phase"), cfg+" "+r.what, rt, pr.RingQ(), r.ct, rk.Secret(pr, ski[r.logN]), rk.CenterAll(r.want, Q), bnd) {
				return
			}
		}
	}}
}

var _ = ref.Prod
