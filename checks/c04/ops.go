package main

import (
	"fmt"
	"math"
	"math/big"
	"math/bits"

	"github.com/tuneinsight/lattigo/v6/core/rlwe"
	"github.com/tuneinsight/lattigo/v6/ring"
	"github.com/tuneinsight/lattigo/v6/ring/ringqp"

	"verif/engine"
	"verif/lib/rk"
	"verif/uni"
)

// Signatures of the input classes on which the unchanged tree violates the property (triaged:
// replayed, reduced to a standalone program against the public API — see FINDINGS.md). Everything
// else uses "C04/<op>/<clause>".
const (
	// A key generated with EvaluationKeyParameters{LevelP: -1} on parameters that have a P (key
	// generation, gadget ciphertext and ModDown all handle LevelP=-1) makes
	// gadgetProductSinglePAndBitDecompLazy call params.PiOverflowMargin(-1) = slices.Max(pi[:0]): panic.
	sigLevelPMinus1 = "C04/GadgetProduct/key-LevelP=-1-on-parameters-with-P/panic(PiOverflowMargin)"
	// (the former class "no P, BaseTwoDecomposition=0" — every RNS digit read from prime 0 — was fixed in
	// /repo afcaae4 and is judged normally; known/*/q45x3-noP keeps its leaves as controls)
	// BaseTwoDecompositionVectorSize allots ceil(round(log2 q_i)/b) digits: for a prime just above a
	// power of two (bit length = round(log2)+1) and b | round(log2 q_i) the digits cover one bit less
	// than the residues need; residues ≥ 2^(digits·b) lose their top bit in the key switch.
	sigDigitCount = "C04/GadgetProduct/BaseTwoDecomposition-digit-count-uses-rounded-log2(q)/top-bit-of-residue-dropped"
	// Conjugate-invariant ring of odd log2(N) with a 61-bit prime in Q, NTT-domain operands, key with a
	// P: the key switch returns a uniformly random phase (standalone: LogN=5, one 61-bit Q, one P,
	// ApplyEvaluationKey of Enc(0) decrypts to 60 bits; LogN 4/6, the standard ring, a 60-bit Q or
	// NTTFlag=false are all fine). The NTT->NTT branch of Evaluator.ModDown (BasisExtender.ModDownQPtoQNTT)
	// is the only difference to the passing non-NTT path; in that ring the lazy forward NTT returns values
	// up to ≈7.6q (C01 known finding: above the documented 6q−2), which for q ≈ 2^61 leaves no headroom
	// below 2^64. Root cause is in ring/ (C01/C19 territory); the consequence is a C04 violation on
	// accepted parameters.
	sigCIOddLogN61 = "C04/ModDown(NTT)/ConjugateInvariant-ring,odd-logN,61-bit-Q/wrong-result"
)

// digitsTooFew: BaseTwoDecompositionVectorSize allots ceil(round(log2 q_i)/b) digits of b bits to
// prime q_i; for a prime just above a power of two that is one bit short of its bit length.
func digitsTooFew(p rlwe.Parameters, kp keyParams, level int) bool {
	if kp.base2 == 0 || kp.levelP > 0 {
		return false
	}
	for _, q := range p.Q()[:level+1] {
		logq := int(math.Round(math.Log2(float64(q))))
		if (logq+kp.base2-1)/kp.base2*kp.base2 < bits.Len64(q) {
			return true
		}
	}
	return false
}

// knownKS: no listed finding is left (all fixed in /repo): every class is judged under the generic
// signatures. formerKS still names the classes that used to fail, for the coverage of the regression
// leaves in known/*.
func knownKS(p rlwe.Parameters, kp keyParams, level int, isNTT bool) string { return "" }

// formerKS classifies the key-switch input classes that had a defect.
func formerKS(p rlwe.Parameters, kp keyParams, level int, isNTT bool) string {
	ciOdd61 := false
	if p.RingType() == ring.ConjugateInvariant && p.LogN()%2 == 1 && isNTT && kp.levelP >= 0 {
		for _, q := range p.Q()[:level+1] {
			ciOdd61 = ciOdd61 || bits.Len64(q) >= 61
		}
	}
	switch {
	case ciOdd61:
		return sigCIOddLogN61
	case kp.levelP == -1 && p.PCount() > 0:
		return sigLevelPMinus1
	case digitsTooFew(p, kp, level):
		return sigDigitCount
	case kp.levelP == -1 && p.PCount() > 0:
		return sigLevelPMinus1
	}
	return ""
}

var ksOps = []string{"ApplyEvaluationKey", "Relinearize", "GadgetProduct", "GadgetProductHoisted", "GadgetProductHoistedLazy+ModDown"}

// ksScenario: generic key switch s_in -> s_out on one ring.
func ksScenario(rt ring.Type, logN int, ch rk.Chain, bound int) engine.Scenario {
	name := fmt.Sprintf("ks/%s/logN%d/%s", ringName(rt), logN, ch.Name)
	return engine.Scenario{Name: name, Bound: bound, Fn: func(c *engine.Chooser) {
		p := rk.Params(ch.Lit(logN, maxLogN, rt, true, nil, nil))
		op := c.ChooseFree(len(ksOps), "op")
		kp := chooseKeyParams(c, p, true)
		level := kp.levelQ - c.Choose(kp.levelQ+1, "ctLevel")
		isNTT := c.Choose(2, "IsNTT") == 0
		// receiver: 0 fresh at the input's level, 1 the input itself, 2 fresh one level BELOW the input,
		// 3 stale and ABOVE the input (top level) — the operation runs at the minimum of the two levels
		// 4 re-used at the input's level after a call in the OTHER domain (dirty metadata), 5 the same
		// with one more component than needed
		outMode := c.Choose(6, "out")
		top := c.Bool("operand")
		runKS(c, name, p, op, kp, level, isNTT, outMode, top)
	}}
}

// Input classes with a listed defect are judged everywhere, under their own signature (knownKS): the
// engine caps stored violations per signature, so a finding cannot crowd out other violations, and a
// repaired class is judged normally again without any change here.

// knownScenario: representative leaves of the three key-switch input classes on which the unchanged
// tree violates the property (FINDINGS.md); same bodies and oracles as ks/* and auto/*.
func knownScenario(rt ring.Type, logN int, ch rk.Chain, class string) engine.Scenario {
	name := fmt.Sprintf("known/%s/logN%d/%s", ringName(rt), logN, ch.Name)
	return engine.Scenario{Name: name, Bound: -1, Fn: func(c *engine.Chooser) {
		p := rk.Params(ch.Lit(logN, maxLogN, rt, true, nil, nil))
		kp := keyParams{levelQ: p.MaxLevelQ(), levelP: -1}
		top := false
		switch class {
		case sigCIOddLogN61:
			kp.levelP = p.MaxLevelP() - c.ChooseFree(2, "LevelP")
		case sigDigitCount:
			kp.levelP, kp.base2, top = 0, []int{1, 2, 30}[c.ChooseFree(3, "base2")], true
		default: // LevelP=-1 classes
			kp.base2 = []int{0, 16}[c.ChooseFree(2, "base2")] // base 16: control for the no-P class
		}
		level := kp.levelQ - c.ChooseFree(2, "ctLevel")
		isNTT := c.ChooseFree(2, "IsNTT") == 0
		k := formerKS(p, kp, level, isNTT)
		if k == "" {
			k = "none(control)"
		}
		c.Cover("known-class", k)
		if op := c.ChooseFree(len(ksOps)+1, "op"); op < len(ksOps) {
			runKS(c, name, p, op, kp, level, isNTT, 0, top)
		} else {
			runAuto(c, name, p, 0, p.GaloisElement(1), kp, level, isNTT, 0, top)
		}
	}}
}

func runKS(c *engine.Chooser, name string, p rlwe.Parameters, op int, kp keyParams, level int, isNTT bool, outMode int, top bool) {
	rt := p.RingType()
	inPlace := outMode == 1
	{
		c.Cover("operand", map[bool]string{false: "uniform", true: "top-of-range"}[top])
		cfg := fmt.Sprintf("%s %s ctLevel=%d IsNTT=%v out=%d top=%v", ksOps[op], kp, level, isNTT, outMode, top)
		c.Cover("out", []string{"fresh-same-level", "in-place", "fresh-below-input", "stale-above-input", "dirty-metadata", "dirty-metadata-other-degree"}[outMode])
		c.Note("%s", cfg)
		c.Cover("op", ksOps[op])
		c.Cover("IsNTT", fmt.Sprint(isNTT))
		c.Cover("inPlace", fmt.Sprint(inPlace))
		if level < kp.levelQ {
			c.Cover("ctLevel", "below-key-level")
		} else {
			c.Cover("ctLevel", "key-level")
		}
		c.Cover("ring", ringName(rt))
		uni.Seed(c, name, cfg)

		known := knownKS(p, kp, level, isNTT)
		sig := func(clause string) string {
			if known != "" {
				return known
			}
			return "C04/" + ksOps[op] + "/" + clause
		}
		kgen := rlwe.NewKeyGenerator(p)
		sk := kgen.GenSecretKeyNew()
		sk2 := kgen.GenSecretKeyNew()
		s, s2 := rk.Secret(p, sk), rk.Secret(p, sk2)
		rQ := p.RingQ()
		Q := qAt(p, level)
		bnd := ksBound(p, level, kp, beOf(p), bsOf(p))
		if !inScope(bnd, Q) {
			c.Skip("noise bound implied by the key parameters ≥ Q/4")
			return
		}

		var out *rlwe.Ciphertext
		var want, sOut []*big.Int
		aboveInput := false
		err, pan := uni.Try(func() error {
			switch ksOps[op] {
			case "ApplyEvaluationKey":
				evk := kgen.GenEvaluationKeyNew(sk, sk2, kp.evk())
				if err := expand(p, evk, kp, level%2 == 1); err != nil {
					return err
				}
				ct := uniformCt(p, 1, level, isNTT, name, cfg, "ct")
				if top {
					topOfRange(p, ct, 1)
				}
				want, sOut = rk.Phase(rt, rQ, &ct.Element, s), s2
				out = ct
				wantLevel := level
				switch {
				case outMode == 2 && level > 0:
					wantLevel = level - 1
					out = rlwe.NewCiphertext(p, 1, wantLevel)
					want = rk.CenterAll(want, qAt(p, wantLevel))
					bnd = ksBound(p, wantLevel, kp, beOf(p), bsOf(p))
				case outMode == 3 && level < p.MaxLevel():
					out = dirtyReceiver(p, 1, p.MaxLevel(), isNTT, name, cfg)
					aboveInput = true
				case outMode >= 4: // (ApplyEvaluationKey documents degree 1 for the receiver: 5 behaves as 4)
					out = dirtyReceiver(p, 1, level, isNTT, name, cfg)
				case !inPlace:
					out = rlwe.NewCiphertext(p, 1, level)
				}
				in := *ct.MetaData
				if err := rlwe.NewEvaluator(p, nil).ApplyEvaluationKey(ct, evk, out); err != nil {
					return err
				}
				if !metaEqual(out.MetaData, &in) {
					return fmt.Errorf("metadata not propagated: %+v -> %+v", in, *out.MetaData)
				}
				if out.Level() != wantLevel {
					return fmt.Errorf("output level %d, want min(input %d, receiver) = %d (aboveInput=%v)", out.Level(), level, wantLevel, aboveInput)
				}
			case "Relinearize":
				rlk := kgen.GenRelinearizationKeyNew(sk, kp.evk())
				if err := expand(p, &rlk.EvaluationKey, kp, level%2 == 1); err != nil {
					return err
				}
				ct := uniformCt(p, 2, level, isNTT, name, cfg, "ct")
				if top {
					topOfRange(p, ct, 2)
				}
				want, sOut = rk.Phase(rt, rQ, &ct.Element, s), s
				out = ct
				switch {
				case outMode == 3:
					out = dirtyReceiver(p, 1, p.MaxLevel(), isNTT, name, cfg)
				case outMode == 4:
					out = dirtyReceiver(p, 1, level, isNTT, name, cfg)
				case outMode == 5: // a receiver that held a degree-2 ciphertext before: Relinearize resizes it
					out = dirtyReceiver(p, 2, p.MaxLevel(), isNTT, name, cfg)
				case !inPlace:
					out = rlwe.NewCiphertext(p, 1, p.MaxLevel()) // above the input: Relinearize resizes
				}
				in := *ct.MetaData
				if err := rlwe.NewEvaluator(p, rlwe.NewMemEvaluationKeySet(rlk)).Relinearize(ct, out); err != nil {
					return err
				}
				if out.Degree() != 1 || out.Level() != level {
					return fmt.Errorf("output degree %d level %d, want 1 and %d", out.Degree(), out.Level(), level)
				}
				if !metaEqual(out.MetaData, &in) {
					return fmt.Errorf("metadata not propagated: %+v -> %+v", in, *out.MetaData)
				}
			default: // the three gadget products: poly × gadget -> RLWE, phase = cx·s_in
				evk := kgen.GenEvaluationKeyNew(sk, sk2, kp.evk())
				if err := expand(p, evk, kp, level%2 == 1); err != nil {
					return err
				}
				cx := uniformCt(p, 0, level, isNTT, name, cfg, "cx")
				if top {
					topOfRange(p, cx, 0)
				}
				cxc := rk.CoeffsQ(rQ, cx.Value[0], level, isNTT, false)
				want, sOut = rk.CenterAll(rk.Mul(rt, cxc, s), Q), s2
				out = rlwe.NewCiphertext(p, 1, level)
				out.IsNTT = isNTT
				eval := rlwe.NewEvaluator(p, nil)
				switch ksOps[op] {
				case "GadgetProduct":
					eval.GadgetProduct(level, cx.Value[0], &evk.GadgetCiphertext, out)
				case "GadgetProductHoisted":
					if kp.base2 != 0 || kp.levelP < 0 {
						// documented as unsupported for a base-2 decomposition (the Lazy form returns
						// that error, the plain form wraps it in a panic); the hoisted decomposition
						// extends into P and needs one
						c.Cover("rejected", "GadgetProductHoisted/base2!=0-or-no-P")
						out = nil
						return nil
					}
					eval.DecomposeNTT(level, kp.levelP, kp.levelP+1, cx.Value[0], isNTT, eval.BuffDecompQP)
					eval.GadgetProductHoisted(level, eval.BuffDecompQP, &evk.GadgetCiphertext, out)
				case "GadgetProductHoistedLazy+ModDown":
					if kp.levelP < 0 {
						c.Cover("rejected", "GadgetProductHoistedLazy/no-P")
						out = nil
						return nil
					}
					eval.DecomposeNTT(level, kp.levelP, kp.levelP+1, cx.Value[0], isNTT, eval.BuffDecompQP)
					ctQP := rlwe.NewElementExtended(p, 1, level, kp.levelP)
					ctQP.IsNTT = isNTT
					if err := eval.GadgetProductHoistedLazy(level, eval.BuffDecompQP, &evk.GadgetCiphertext, ctQP); err != nil {
						if kp.base2 != 0 {
							c.Cover("rejected", "GadgetProductHoistedLazy/base2!=0")
							out = nil
							return nil
						}
						return err
					}
					if kp.base2 != 0 {
						return fmt.Errorf("GadgetProductHoistedLazy accepted BaseTwoDecomposition=%d, documented as unsupported", kp.base2)
					}
					eval.ModDown(level, kp.levelP, ctQP, out)
				}
			}
			return nil
		})
		if pan != nil {
			c.Fail(sig("panic"), "%s: panicked: %v", cfg, pan)
			return
		}
		if err != nil {
			c.Fail(sig("error"), "%s: %v", cfg, err)
			return
		}
		if out == nil {
			return
		}
		judge(c, sig("phase"), cfg, rt, rQ, out, sOut, want, bnd)
	}
}

var autoOps = []string{"Automorphism", "AutomorphismHoisted", "AutomorphismHoistedLazy+ModDown"}

func galoisElements(p rlwe.Parameters) []uint64 {
	var els []uint64
	if p.RingType() == ring.Standard { // the whole group (Z/2N)^*
		for g := uint64(1); g < uint64(2*p.N()); g += 2 {
			els = append(els, g)
		}
		return els
	}
	// conjugate-invariant ring: the automorphisms are X -> X^(5^k) (mod 4N)
	for k := 0; k < p.N()/2; k++ {
		els = append(els, p.GaloisElement(k))
	}
	return els
}

func autoScenario(rt ring.Type, logN int, ch rk.Chain, bound int) engine.Scenario {
	name := fmt.Sprintf("auto/%s/logN%d/%s", ringName(rt), logN, ch.Name)
	return engine.Scenario{Name: name, Bound: bound, Fn: func(c *engine.Chooser) {
		p := rk.Params(ch.Lit(logN, maxLogN, rt, true, nil, nil))
		op := c.ChooseFree(len(autoOps), "op")
		els := galoisElements(p)
		galEl := els[c.ChooseFree(len(els), "galEl")]
		kp := chooseKeyParams(c, p, false)
		level := kp.levelQ - c.Choose(kp.levelQ+1, "ctLevel")
		isNTT := c.Choose(2, "IsNTT") == 0
		// receiver: 0 fresh above the input, 1 the input itself, 2 re-used at the input's level after a call in
		// the other domain (dirty metadata, stale content), 3 the same above the input
		outMode := c.Choose(4, "out")
		top := c.Bool("operand")
		runAuto(c, name, p, op, galEl, kp, level, isNTT, outMode, top)
	}}
}

func runAuto(c *engine.Chooser, name string, p rlwe.Parameters, op int, galEl uint64, kp keyParams, level int, isNTT bool, outMode int, top bool) {
	rt := p.RingType()
	inPlace := outMode == 1
	{
		c.Cover("out", []string{"auto-fresh-above", "auto-in-place", "auto-dirty-metadata", "auto-dirty-above"}[outMode])
		c.Cover("operand", map[bool]string{false: "uniform", true: "top-of-range"}[top])
		cfg := fmt.Sprintf("%s galEl=%d %s ctLevel=%d IsNTT=%v inPlace=%v top=%v", autoOps[op], galEl, kp, level, isNTT, inPlace, top)
		c.Note("%s", cfg)
		c.Cover("op", autoOps[op])
		c.Cover("galEl/"+ringName(rt), fmt.Sprint(galEl))
		c.Cover("IsNTT", fmt.Sprint(isNTT))
		c.Cover("inPlace", fmt.Sprint(inPlace))
		c.Cover("ring", ringName(rt))
		uni.Seed(c, name, cfg)
		known := knownKS(p, kp, level, isNTT)
		if galEl == 1 && autoOps[op] != "AutomorphismHoistedLazy+ModDown" {
			known = "" // identity: the key is not used
		}
		sig := func(clause string) string {
			if known != "" {
				return known
			}
			return "C04/" + autoOps[op] + "/" + clause
		}
		kgen := rlwe.NewKeyGenerator(p)
		sk := kgen.GenSecretKeyNew()
		s := rk.Secret(p, sk)
		rQ := p.RingQ()
		Q := qAt(p, level)
		bnd := ksBound(p, level, kp, beOf(p), bsOf(p))
		if !inScope(bnd, Q) {
			c.Skip("noise bound implied by the key parameters ≥ Q/4")
			return
		}
		var out *rlwe.Ciphertext
		var want []*big.Int
		err, pan := uni.Try(func() error {
			gk := kgen.GenGaloisKeyNew(galEl, sk, kp.evk())
			if err := expand(p, &gk.EvaluationKey, kp, level%2 == 1); err != nil {
				return err
			}
			eval := rlwe.NewEvaluator(p, rlwe.NewMemEvaluationKeySet(nil, gk))
			ct := uniformCt(p, 1, level, isNTT, name, cfg, "ct")
			if top {
				topOfRange(p, ct, 1)
			}
			want = rk.CenterAll(rk.Auto(rt, rk.Phase(rt, rQ, &ct.Element, s), galEl), Q)
			in := *ct.MetaData
			out = ct
			switch {
			case outMode == 2:
				out = dirtyReceiver(p, 1, level, isNTT, name, cfg)
			case outMode == 3:
				out = dirtyReceiver(p, 1, p.MaxLevel(), isNTT, name, cfg)
			case !inPlace:
				out = rlwe.NewCiphertext(p, 1, p.MaxLevel()) // above the input: the methods resize it
			}
			switch autoOps[op] {
			case "Automorphism":
				if err := eval.Automorphism(ct, galEl, out); err != nil {
					return err
				}
			case "AutomorphismHoisted":
				if kp.base2 != 0 || kp.levelP < 0 {
					c.Cover("rejected", "AutomorphismHoisted/base2!=0-or-no-P")
					out = nil
					return nil
				}
				eval.DecomposeNTT(level, kp.levelP, kp.levelP+1, ct.Value[1], isNTT, eval.BuffDecompQP)
				if err := eval.AutomorphismHoisted(level, ct, eval.BuffDecompQP, galEl, out); err != nil {
					return err
				}
			case "AutomorphismHoistedLazy+ModDown":
				if kp.base2 != 0 || kp.levelP < 0 {
					c.Cover("rejected", "AutomorphismHoistedLazy/base2!=0-or-no-P")
					out = nil
					return nil
				}
				eval.DecomposeNTT(level, kp.levelP, kp.levelP+1, ct.Value[1], isNTT, eval.BuffDecompQP)
				ctQP := rlwe.NewElementExtended(p, 1, level, kp.levelP)
				ctQP.IsNTT = isNTT
				if err := eval.AutomorphismHoistedLazy(level, ct, eval.BuffDecompQP, galEl, ctQP); err != nil {
					return err
				}
				if !inPlace {
					out.Resize(1, level) // ModDown writes into a caller-prepared receiver
				}
				out.IsNTT = isNTT
				eval.ModDown(level, kp.levelP, ctQP, out)
				*out.MetaData = in
			}
			if out.Level() != level || out.Degree() != 1 {
				return fmt.Errorf("output degree %d level %d, want 1 and %d", out.Degree(), out.Level(), level)
			}
			if !metaEqual(out.MetaData, &in) {
				return fmt.Errorf("metadata not propagated: %+v -> %+v", in, *out.MetaData)
			}
			return nil
		})
		if pan != nil {
			c.Fail(sig("panic"), "%s: panicked: %v", cfg, pan)
			return
		}
		if err != nil {
			c.Fail(sig("error"), "%s: %v", cfg, err)
			return
		}
		if out == nil {
			return
		}
		judge(c, sig("phase"), cfg, rt, rQ, out, s, want, bnd)
	}
}

var _ = ringqp.Poly{}
