package main

import (
	"fmt"

	"github.com/tuneinsight/lattigo/v6/ring"

	"verif/engine"
	"verif/lib/rk"
)

// "Many digits" chain shapes: long modulus chains (24..48 primes of Q) at LogN=4, so that the lazy
// inner products of the gadget product accumulate 8, 16, 20 and more RNS (or base-2^b) digits and the
// overflow-margin reductions — separately scheduled for the Q and the P accumulators, from the LARGEST
// prime up to the level — actually fire:
//
//	q45x24-p61x2        P primes (61 bits, margin 4) far larger than the Q primes (45 bits, margin 2^18):
//	                    the P accumulators need reductions the Q schedule never asks for
//	q60+q30x40-p61      one 60-bit prime followed by 30-bit primes: the margin at every level is that of q0
//	q60+q30x47-p61x2    (margin 8), not that of the last prime of the level; 1 P (one digit per prime) and
//	q60+q30x40-noP      2 P (multiple-P path); no P with base 2^4 (8..15 digits per prime)
func manyDigitChains() []rk.Chain {
	rep := func(b, n int) []int {
		r := make([]int, n)
		for i := range r {
			r[i] = b
		}
		return r
	}
	return []rk.Chain{
		{Name: "q45x24-p61x2", QBits: rep(45, 24), PBits: []int{61, 61}},
		{Name: "q60+q30x40-p61", QBits: append([]int{60}, rep(30, 40)...), PBits: []int{61}},
		{Name: "q60+q30x47-p61x2", QBits: append([]int{60}, rep(30, 47)...), PBits: []int{61, 61}},
		{Name: "q60+q30x40-noP", QBits: append([]int{60}, rep(30, 40)...)},
	}
}

// digit counts at which the ciphertext is taken (both sides of the margins 4, 8, 16, and above 20)
var digitTargets = []int{0 /* top level */, 21, 20, 17, 16, 9, 8, 5, 4}

var manyDigitOps = []string{"ApplyEvaluationKey", "Relinearize", "Automorphism", "AutomorphismHoisted", "AutomorphismHoistedLazy+ModDown"}

func manyDigitsScenario(rt ring.Type, logN int, ch rk.Chain, opi int) engine.Scenario {
	name := fmt.Sprintf("manydigits/%s/logN%d/%s/%s", ringName(rt), logN, ch.Name, manyDigitOps[opi])
	return engine.Scenario{Name: name, Bound: -1, Fn: func(c *engine.Chooser) {
		p := rk.Params(ch.Lit(logN, maxLogN, rt, true, nil, nil))
		kp := keyParams{levelQ: p.MaxLevelQ()}
		kp.levelP = p.MaxLevelP() - c.ChooseFree(p.MaxLevelP()+2, "LevelP")
		kp.base2 = []int{0, 4}[c.ChooseFree(2, "BaseTwoDecomposition")]
		group := kp.levelP + 1
		if group < 1 {
			group = 1
		}
		d := digitTargets[c.ChooseFree(len(digitTargets), "digits")]
		level := p.MaxLevel()
		if d > 0 && d*group-1 < level {
			level = d*group - 1
		}
		isNTT := c.ChooseFree(2, "IsNTT") == 0
		top := c.ChooseFree(2, "operand") == 1
		digits := (level + group) / group
		switch {
		case digits >= 20:
			c.Cover("manydigits", ">=20")
		case digits >= 16:
			c.Cover("manydigits", "16..19")
		case digits >= 8:
			c.Cover("manydigits", "8..15")
		default:
			c.Cover("manydigits", "<8")
		}
		c.Cover("manydigits-chain", ch.Name)
		switch manyDigitOps[opi] {
		case "ApplyEvaluationKey":
			runKS(c, name, p, 0, kp, level, isNTT, 0, top)
		case "Relinearize":
			runKS(c, name, p, 1, kp, level, isNTT, 0, top)
		case "Automorphism":
			runAuto(c, name, p, 0, p.GaloisElement(1), kp, level, isNTT, 0, top)
		case "AutomorphismHoisted":
			runAuto(c, name, p, 1, p.GaloisElement(1), kp, level, isNTT, 0, top)
		default:
			runAuto(c, name, p, 2, p.GaloisElement(1), kp, level, isNTT, 0, top)
		}
	}}
}
