package main

import (
	"fmt"
	"math/big"

	"github.com/tuneinsight/lattigo/v6/core/rlwe"
	"github.com/tuneinsight/lattigo/v6/ring"
	"github.com/tuneinsight/lattigo/v6/utils/sampling"

	"verif/engine"
	"verif/lib/rk"
	"verif/uni"
)

// compressScenario: "a compressed key expands to exactly the key that would have been generated
// uncompressed from the same randomness".
//
// How the two paths consume randomness (core/rlwe/keygenerator.go, genEvaluationKey):
//   - uncompressed: the uniform part a_ij and the error e_ij of every row are drawn, interleaved, from
//     the key generator's single PRNG;
//   - compressed: 32 bytes are first read from that PRNG as the seed, the a_ij are then drawn from a
//     KeyedPRNG(seed) and only the e_ij from the generator's PRNG.
//
// So under one and the same NewPRNG seed the two paths cannot produce the same key (FINDINGS.md says
// so explicitly). "The same randomness" is therefore arranged per component, with public API only
// (KeyGenerator embeds *Encryptor as an exported field):
//
//	run A (compressed):    generator PRNG = Keyed(K)                      -> seed S = first 32 bytes of Keyed(K)
//	run B (uncompressed):  generator PRNG = Keyed(K) advanced by 32 bytes,
//	                       uniform sampler = WithPRNG(Keyed(S))
//
// after which Expand(A) must equal B bit for bit, row by row, both components.
var compressKinds = []string{"rlk", "gk", "evk"}

func compressScenario(rt ring.Type, logN int, ch rk.Chain, bound int) engine.Scenario {
	name := fmt.Sprintf("compress/%s/logN%d/%s", ringName(rt), logN, ch.Name)
	return engine.Scenario{Name: name, Bound: bound, Fn: func(c *engine.Chooser) {
		p := rk.Params(ch.Lit(logN, maxLogN, rt, true, nil, nil))
		kind := compressKinds[c.ChooseFree(len(compressKinds), "kind")]
		kp := chooseKeyParamsNoCompress(c, p)
		withBuffer := c.Bool("expandBuffer")
		cfg := fmt.Sprintf("%s %s expandBuffer=%v", kind, kp, withBuffer)
		c.Note("%s", cfg)
		c.Cover("op", "Expand=="+kind)
		c.Cover("ring", ringName(rt))
		uni.Seed(c, name, cfg)
		sig := "C04/Expand/" + kind + "/"

		// the secrets come from a separate generator so that they are identical in both runs
		kg0 := rlwe.NewKeyGenerator(p)
		sk, sk2 := kg0.GenSecretKeyNew(), kg0.GenSecretKeyNew()
		galEl := p.GaloisElement(1)

		gen := func(kg *rlwe.KeyGenerator, compressed bool) (*rlwe.EvaluationKey, error) {
			kq := kp
			kq.compressed = compressed
			var evk *rlwe.EvaluationKey
			err, pan := uni.Try(func() error {
				switch kind {
				case "rlk":
					evk = &kg.GenRelinearizationKeyNew(sk, kq.evk()).EvaluationKey
				case "gk":
					evk = &kg.GenGaloisKeyNew(galEl, sk, kq.evk()).EvaluationKey
				case "evk":
					evk = kg.GenEvaluationKeyNew(sk, sk2, kq.evk())
				}
				return nil
			})
			if pan != nil {
				return nil, fmt.Errorf("panic: %v", pan)
			}
			return evk, err
		}

		K := func() sampling.PRNG { return uni.KeyedPRNG("c04-compress", name, cfg) }

		kgA := rlwe.NewKeyGenerator(p)
		kgA.Encryptor = rlwe.NewTestEncryptorWithPRNG(p, nil, K())
		A, err := gen(kgA, true)
		if err != nil {
			c.Fail(sig+"keygen", "%s: compressed generation failed: %v", cfg, err)
			return
		}
		if !A.IsCompressed() || A.Seed == nil {
			c.Fail(sig+"not-compressed", "%s: Compressed=true produced IsCompressed=%v Seed set=%v", cfg, A.IsCompressed(), A.Seed != nil)
			return
		}
		prB := K()
		var S [32]byte
		if n, err := prB.Read(S[:]); n != 32 || err != nil {
			panic("keyed prng read")
		}
		if S != *A.Seed {
			c.Fail(sig+"seed", "%s: the stored seed is not the first 32 bytes drawn from the generator's PRNG", cfg)
			return
		}
		seeded, _ := sampling.NewKeyedPRNG(S[:])
		kgB := rlwe.NewKeyGenerator(p)
		kgB.Encryptor = rlwe.NewTestEncryptorWithPRNG(p, nil, prB).WithPRNG(seeded)
		B, err := gen(kgB, false)
		if err != nil {
			c.Fail(sig+"keygen", "%s: uncompressed generation failed: %v", cfg, err)
			return
		}
		var buf *rlwe.GadgetCiphertext
		if withBuffer {
			buf = rlwe.NewGadgetCiphertext(p, 0, kp.levelQ, kp.levelP, kp.base2)
		}
		if err := A.Expand(p, buf); err != nil {
			c.Fail(sig+"expand-error", "%s: Expand: %v", cfg, err)
			return
		}
		if A.IsCompressed() || A.Degree() != 1 {
			c.Fail(sig+"still-compressed", "%s: after Expand IsCompressed=%v Degree=%d", cfg, A.IsCompressed(), A.Degree())
			return
		}
		if len(A.Value) != len(B.Value) || A.BaseTwoDecomposition != B.BaseTwoDecomposition {
			c.Fail(sig+"shape", "%s: %d rows (base2 %d) vs %d rows (base2 %d)", cfg, len(A.Value), A.BaseTwoDecomposition, len(B.Value), B.BaseTwoDecomposition)
			return
		}
		rows := 0
		for i := range A.Value {
			if len(A.Value[i]) != len(B.Value[i]) {
				c.Fail(sig+"shape", "%s: row %d: %d vs %d digits", cfg, i, len(A.Value[i]), len(B.Value[i]))
				return
			}
			for j := range A.Value[i] {
				for k := 0; k < 2; k++ {
					a, b := A.Value[i][j][k], B.Value[i][j][k]
					if !a.Equal(&b) {
						c.Fail(sig+"not-bit-equal", "%s: row (%d,%d) component %d of the expanded key differs from the key generated uncompressed from the same randomness", cfg, i, j, k)
						return
					}
				}
				rows++
			}
		}
		c.Count(rows)
		c.Outcome("compress", kind, rows, A.Value[0][0][1].Q.Coeffs[0][0]&0xff)
	}}
}

// chooseKeyParamsNoCompress is chooseKeyParams without the Compressed axis (both forms are generated).
func chooseKeyParamsNoCompress(c *engine.Chooser, p rlwe.Parameters) (kp keyParams) {
	kp.levelQ = p.MaxLevelQ() - c.Choose(p.MaxLevelQ()+1, "LevelQ")
	kp.levelP = p.MaxLevelP() - c.ChooseFree(p.MaxLevelP()+2, "LevelP")
	kp.base2 = base2Alphabet[c.Choose(len(base2Alphabet), "BaseTwoDecomposition")]
	return
}

var _ = ring.Standard
var _ = big.NewInt
