// C04 — evaluation keys re-encrypt faithfully for every key parameterisation.
//
// The real KeyGenerator / Evaluator / DomainSwitcher / RingPackingEvaluator are driven over modulus
// chain shapes × evaluation-key parameters × operations × every Galois element × ciphertext level ×
// NTT flag × aliasing; each output is judged by an independent phase computation under the TARGET key
// (package verif/lib/rk: CRT + integer schoolbook, ring-type aware) against the exactly transformed
// input phase, with a worst-case noise bound derived from the key's decomposition parameters
// (bound.go). Compressed keys are expanded and used, and compared bit for bit with the key generated
// uncompressed from the same randomness (compress.go).
package main

import (
	"fmt"
	"time"

	"github.com/tuneinsight/lattigo/v6/ring"

	"verif/engine"
)

func scenarios(tier string) []engine.Scenario {
	bound, boundAuto := 2, 1
	if tier == "thorough" {
		bound, boundAuto = 3, 2
	}
	// Scenario i runs on worker i mod 16: emitted family by family so that each family (= similar cost)
	// is spread over all workers.
	var ks, auto, rd, br, cp, pk, kn, es, md, kb []engine.Scenario
	for _, ch := range chains(tier) {
		bound := bound
		if ch.Name == "q61x6-p61x2" && tier != "thorough" {
			bound = 1 // quick-tier budget: the seven-level chain at bound 2 is in thorough (manydigits/* covers long chains)
		}
		for _, rt := range []ring.Type{ring.Standard, ring.ConjugateInvariant} {
			ks = append(ks, ksScenario(rt, 4, ch, bound))
			ab := 2
			if rt == ring.ConjugateInvariant && tier != "thorough" {
				ab = 1 // quick-tier budget: the conjugate-invariant automorphisms at bound 2 are in thorough
			}
			auto = append(auto, autoScenario(rt, 4, ch, ab))
			rd = append(rd, ringDegScenario(rt, 5, ch, bound))
			cp = append(cp, compressScenario(rt, 4, ch, bound))
			es = append(es, evalSeqScenario(rt, 4, ch, boundAuto))
			if ch.Name != "q61x6-p61x2" || rt == ring.Standard { // (known class at odd log N in the conjugate-invariant ring)
				es = append(es, evalSeqScenario(rt, 5, ch, boundAuto))
			}
		}
		if tier != "thorough" && (ch.Name == "q30x3-p30x2" || ch.Name == "q60-45-p61x2") {
			// the conjugate-invariant ring with odd log N (lazy NTT range differs there) in the quick tier
			ks = append(ks, ksScenario(ring.ConjugateInvariant, 5, ch, 1))
		}
		br = append(br, bridgeScenario(ch, bound))
		if ch.Name == "q30x3-p30x2" || ch.Name == "q60-45-p61x2" || ch.Name == "q45x3-noP" || tier == "thorough" {
			kb = append(kb, keyBelowScenario(ring.Standard, 4, ch), keyBelowScenario(ring.ConjugateInvariant, 4, ch))
		}
		pk = append(pk, packScenario(5, 4, ch, boundAuto), packDirectScenario(5, 4, ch))
		if tier == "thorough" {
			pk = append(pk, packScenario(6, 4, ch, boundAuto))
			ks = append(ks, ksScenario(ring.Standard, 5, ch, 2), ksScenario(ring.ConjugateInvariant, 5, ch, 2), ksScenario(ring.Standard, 6, ch, 1))
			auto = append(auto, autoScenario(ring.Standard, 5, ch, 1), autoScenario(ring.ConjugateInvariant, 5, ch, 1))
		}
	}
	for _, ch := range chains(tier) {
		class := map[string]string{"q30x3-p30x2": sigLevelPMinus1, "q45x3-noP": "control(no-P)", "q30up-x2-p61": sigDigitCount}[ch.Name]
		if class != "" {
			kn = append(kn, knownScenario(ring.Standard, 4, ch, class), knownScenario(ring.ConjugateInvariant, 4, ch, class))
		}
		if ch.Name == "q61x6-p61x2" {
			kn = append(kn, knownScenario(ring.ConjugateInvariant, 5, ch, sigCIOddLogN61))
		}
	}
	for _, ch := range manyDigitChains() {
		for opi := range manyDigitOps {
			md = append(md, manyDigitsScenario(ring.Standard, 4, ch, opi))
			if tier == "thorough" {
				md = append(md, manyDigitsScenario(ring.ConjugateInvariant, 4, ch, opi), manyDigitsScenario(ring.Standard, 5, ch, opi))
			}
		}
	}
	scs := append(md, auto...)
	scs = append(scs, ks...)
	scs = append(scs, rd...)
	scs = append(scs, br...)
	scs = append(scs, pk...)
	scs = append(scs, cp...)
	scs = append(scs, es...)
	scs = append(scs, kb...)
	scs = append(scs, kn...)
	return scs
}

func expect(tier string) []string {
	e := []string{"ring=Std", "ring=CI", "IsNTT=true", "IsNTT=false", "inPlace=true", "inPlace=false",
		"operand=uniform", "operand=top-of-range", "out=fresh-same-level", "out=in-place", "out=fresh-below-input", "out=stale-above-input",
		"out=ringdeg-below-input", "out=ringdeg-above-input", "transport=none", "transport=MarshalBinary", "transport=WriteTo/ReadFrom",
		"pack-keys=plain", "pack-keys=compressed-then-expanded", "pack-IsNTT=true", "pack-IsNTT=false", "ctLevel=below-key-level", "ctLevel=key-level",
		"compressed=true", "compressed=false", "LevelP=-1", "LevelP=0", "LevelP=1", "LevelP=2", "LevelP=below-max",
		"LevelQ=max", "LevelQ=below-max", "tail=#P-does-not-divide-#Q",
		"op=ApplyEvaluationKey/small->large", "op=ApplyEvaluationKey/large->small",
		"op=DomainSwitcher.RealToComplex", "op=DomainSwitcher.ComplexToReal",
		"op=Expand==rlk", "op=Expand==gk", "op=Expand==evk"}
	for _, k := range []string{sigLevelPMinus1, sigDigitCount, sigCIOddLogN61, "none(control)"} {
		e = append(e, "known-class="+k)
	}
	for _, o := range evalSeqOps {
		e = append(e, "evalseq-op="+o)
	}
	for _, o := range creationNames {
		e = append(e, "evalseq-creation="+o)
	}
	for _, o := range deriveNames {
		e = append(e, "evalseq-evaluator="+o)
	}
	for _, pc := range packCases {
		e = append(e, "pack-case="+pc.String())
	}
	for _, o := range keyBelowOps {
		e = append(e, "keybelow-op="+o)
	}
	e = append(e, "ringdeg-receiver=fresh", "ringdeg-receiver=dirty-metadata", "out=dirty-metadata", "out=dirty-metadata-other-degree",
		"out=auto-fresh-above", "out=auto-in-place", "out=auto-dirty-metadata", "out=auto-dirty-above",
		"evalseq-refused=Automorphism(missing key)", "evalseq-refused=AutomorphismHoisted(missing key)", "evalseq-refused=Relinearize(degree-1 input)",
		"evalseq-refused=Automorphism(degree-2 input)", "evalseq-refused=ApplyEvaluationKey(degree-2 input)", "evalseq-refused=Relinearize(missing key)")
	e = append(e, "manydigits=>=20", "manydigits=16..19", "manydigits=8..15", "manydigits=<8")
	for _, ch := range manyDigitChains() {
		e = append(e, "manydigits-chain="+ch.Name)
	}
	e = append(e, "evalseq-ring=Std", "evalseq-ring=CI", "evalseq-key=galois-added-after-creation", "evalseq-key=rlk-added-after-creation")
	for _, o := range ksOps {
		e = append(e, "op="+o)
	}
	for _, o := range autoOps {
		e = append(e, "op="+o)
	}
	for _, o := range packOps {
		e = append(e, "op=RingPacking."+o)
	}
	for _, b := range base2Alphabet {
		e = append(e, fmt.Sprintf("base2=%d", b))
	}
	for g := 1; g < 32; g += 2 { // the whole group (Z/32)^* at N=16
		e = append(e, fmt.Sprintf("galEl/Std=%d", g))
	}
	return e
}

func main() {
	engine.Main(engine.Check{
		ID:    "C04",
		Level: "exploration",
		Rule: "Per (ring type, modulus-chain shape): ks/* = {ApplyEvaluationKey, Relinearize, GadgetProduct, GadgetProductHoisted, GadgetProductHoistedLazy+ModDown} × every key LevelP × " +
			"≤2 (quick) / ≤3 (thorough) deviations over {key LevelQ, BaseTwoDecomposition ∈ {0,1,2,7,13,16,30}, Compressed, ciphertext level ≤ key level, IsNTT, out==in, operand kind}; " +
			"auto/* = {Automorphism, AutomorphismHoisted, AutomorphismHoistedLazy+ModDown} × EVERY Galois element of (Z/2N)^* at N=16 (5^k in the conjugate-invariant ring) × ≤1/≤2 deviations over the same axes; " +
			"ringdeg/* = ApplyEvaluationKey LogN 4<->5 both ways; bridge/* = ckks.DomainSwitcher both ways; pack/* = RingPackingEvaluator Split/Merge/Expand/Extract/Repack(+naive compositions); " +
			"compress/* = Expand(compressed) == uncompressed bit for bit for rlk/gk/evk × every LevelP × ≤2/≤3 deviations. Distinct = distinct (operation class, noise magnitude, bound magnitude) outcomes.",
		Assumptions: []string{
			"operands are uniformly random ciphertexts (every operation under test is affine-linear in the ciphertext, so the expected phase is an exact function of the input phase) plus a top-of-range operand (all residues q_i−1−j)",
			"noise bound = worst case implied by the key parameters (bound.go): Σ_digits N·|digit|·B_e / P + rounding·(1 + N·|s_out|∞); combinations whose bound reaches Q/4 are outside the statement (skipped, counted)",
			"hoisted forms are only called with BaseTwoDecomposition=0 and LevelP≥0 (documented / asserted unsupported otherwise; counted as rejected)",
			"ciphertext level ≤ key level; out-of-place outputs are fresh; ring packing runs in the NTT domain with uncompressed keys",
			"compressed vs uncompressed 'same randomness' is arranged per component (same error stream, same seeded uniform stream), see compress.go",
		},
		Scenarios:      scenarios,
		QuickBudget:    140 * time.Second,
		ThoroughBudget: 25 * time.Minute,
		Expect:         expect,
	})
}
