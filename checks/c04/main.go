// C04 — evaluation keys re-encrypt faithfully for every key parameterisation.
package main

import (
	"time"

	"github.com/tuneinsight/lattigo/v6/ring"

	"verif/engine"
)

func scenarios(tier string) []engine.Scenario {
	bound, boundAuto := 2, 1
	if tier == "thorough" {
		bound, boundAuto = 3, 2
	}
	var ks, auto, rd, br []engine.Scenario
	for _, ch := range chains(tier) {
		for _, rt := range []ring.Type{ring.Standard, ring.ConjugateInvariant} {
			ks = append(ks, ksScenario(rt, 4, ch, bound))
			auto = append(auto, autoScenario(rt, 4, ch, boundAuto))
			rd = append(rd, ringDegScenario(rt, 5, ch, bound))
		}
		br = append(br, bridgeScenario(ch, bound))
	}
	scs := append(auto, ks...)
	scs = append(scs, rd...)
	scs = append(scs, br...)
	return scs
}

func main() {
	engine.Main(engine.Check{
		ID:             "C04",
		Level:          "exploration",
		Rule:           "TODO",
		Scenarios:      scenarios,
		QuickBudget:    140 * time.Second,
		ThoroughBudget: 25 * time.Minute,
	})
}
