package main

import (
	"fmt"
	"math/big"
	"strings"

	"github.com/tuneinsight/lattigo/v6/core/rlwe"
	"github.com/tuneinsight/lattigo/v6/ring"

	"verif/engine"
	"verif/lib/rk"
	"verif/uni"
)

// evalSeqScenario: state carried by ONE evaluator and ONE key set.
//
// The evaluator is created (NewEvaluator), or derived (ShallowCopy / WithKey) from one, while the key
// set is empty, holds one other Galois key, or holds only a relinearisation key. The keys the program
// needs are added to the key set AFTERWARDS, just before their first use (an application that loads
// keys on demand): the permutation table of such a key is built lazily, not in the constructor. Then a
// program of evalSeqLen operations runs on that one evaluator, with the level and the NTT flag
// changing from step to step (scratch buffers sized / filled by the previous step), each step judged
// exactly like a call on a fresh evaluator: phase under the target key == transformed phase of the
// input, within the key-switch noise bound.
const evalSeqLen = 3

var evalSeqOps = []string{"Automorphism(late key)", "AutomorphismHoisted(late key)", "Automorphism(second late key)",
	"AutomorphismHoistedLazy+ModDown(late key)", "Relinearize(late rlk)", "Automorphism(key present at creation)"}

// ksig: a known-class signature (marked by a trailing '#') is used as is, otherwise sig+clause.
func ksig(sig, clause string) string {
	if strings.HasSuffix(sig, "#") {
		return strings.TrimSuffix(sig, "#")
	}
	return sig + clause
}

var creationNames = []string{"empty-key-set", "one-other-galois-key", "rlk-only"}
var deriveNames = []string{"NewEvaluator", "ShallowCopy", "WithKey"}

func lateGaloisElements(p rlwe.Parameters) []uint64 {
	if p.RingType() == ring.Standard {
		return []uint64{p.GaloisElement(1), uint64(2*p.N() - 1), 3, p.GaloisElement(2)}
	}
	return []uint64{p.GaloisElement(1), p.GaloisElement(-1), p.GaloisElement(3), p.GaloisElement(2)}
}

func evalSeqScenario(rt ring.Type, logN int, ch rk.Chain, bound int) engine.Scenario {
	name := fmt.Sprintf("evalseq/%s/logN%d/%s", ringName(rt), logN, ch.Name)
	return engine.Scenario{Name: name, Bound: bound, Fn: func(c *engine.Chooser) {
		p := rk.Params(ch.Lit(logN, maxLogN, rt, true, nil, nil))
		L := p.MaxLevel()
		creation := c.ChooseFree(3, "keySetAtCreation")
		derive := c.ChooseFree(3, "evaluator")
		els := lateGaloisElements(p)
		gi := c.ChooseFree(len(els)-1, "lateGalEl")
		gLate, gLate2, g0 := els[gi], els[(gi+1)%len(els)], els[(gi+2)%len(els)]
		type step struct {
			op, level int
			isNTT     bool
		}
		steps := make([]step, evalSeqLen)
		cfg := fmt.Sprintf("%s %s late=%d,%d atCreation=%d", creationNames[creation], deriveNames[derive], gLate, gLate2, g0)
		nl := L + 1
		if nl > 3 {
			nl = 3
		}
		for i := range steps {
			// the default program differs from step to step (rotated alphabets), so that already the
			// zero-deviation leaf mixes operations, levels and domains
			steps[i].op = (c.Choose(len(evalSeqOps), fmt.Sprintf("op%d", i)) + i) % len(evalSeqOps)
			steps[i].level = L - (c.Choose(nl, fmt.Sprintf("level%d", i))+i)%nl
			steps[i].isNTT = (c.Choose(2, fmt.Sprintf("IsNTT%d", i)) == 0) != (i == 1)
			cfg += fmt.Sprintf(" | %s @%d ntt=%v", evalSeqOps[steps[i].op], steps[i].level, steps[i].isNTT)
		}
		c.Note("%s", cfg)
		c.Cover("evalseq-creation", creationNames[creation])
		c.Cover("evalseq-evaluator", deriveNames[derive])
		c.Cover("evalseq-ring", ringName(rt))
		uni.Seed(c, name, cfg)

		kp := keyParams{levelQ: p.MaxLevelQ(), levelP: p.MaxLevelP()}
		rQ := p.RingQ()
		kgen := rlwe.NewKeyGenerator(p)
		sk := kgen.GenSecretKeyNew()
		s := rk.Secret(p, sk)

		var set *rlwe.MemEvaluationKeySet
		err, pan := uni.Try(func() error {
			switch creation {
			case 0:
				set = rlwe.NewMemEvaluationKeySet(nil)
			case 1:
				set = rlwe.NewMemEvaluationKeySet(nil, kgen.GenGaloisKeyNew(g0, sk, kp.evk()))
			case 2:
				set = rlwe.NewMemEvaluationKeySet(kgen.GenRelinearizationKeyNew(sk, kp.evk()))
			}
			return nil
		})
		if err != nil || pan != nil {
			c.Fail("C04/evalseq/setup", "%s: %v %v", cfg, err, pan)
			return
		}
		var eval *rlwe.Evaluator
		switch derive {
		case 0:
			eval = rlwe.NewEvaluator(p, set)
		case 1:
			eval = rlwe.NewEvaluator(p, set).ShallowCopy()
		case 2:
			eval = rlwe.NewEvaluator(p, rlwe.NewMemEvaluationKeySet(nil)).WithKey(set)
		}
		// keys are added to the key set on first need, AFTER the evaluator exists
		need := func(galEl uint64) {
			if _, ok := set.GaloisKeys[galEl]; !ok {
				set.GaloisKeys[galEl] = kgen.GenGaloisKeyNew(galEl, sk, kp.evk())
				c.Cover("evalseq-key", "galois-added-after-creation")
			}
		}
		for i, st := range steps {
			what := fmt.Sprintf("%s step %d", cfg, i)
			opName := evalSeqOps[st.op]
			sig := "C04/evalseq/" + opName + "/"
			known := knownKS(p, kp, st.level, st.isNTT)
			bnd := ksBound(p, st.level, kp, beOf(p), bsOf(p))
			if !inScope(bnd, qAt(p, st.level)) {
				c.Skip("noise bound implied by the key parameters ≥ Q/4")
				return
			}
			if known != "" {
				sig = known + "#"
			}
			Q := qAt(p, st.level)
			var out *rlwe.Ciphertext
			var want []*big.Int
			err, pan := uni.Try(func() error {
				galEl := gLate
				switch st.op {
				case 2:
					galEl = gLate2
				case 5:
					galEl = g0
				}
				hoisted := st.op == 1 || st.op == 3
				if hoisted && kp.levelP < 0 {
					hoisted = false // no P: the hoisted forms need one; plain Automorphism instead
					c.Cover("rejected", "evalseq/hoisted-without-P->plain")
				}
				if st.op == 4 {
					if set.RelinearizationKey == nil {
						set.RelinearizationKey = kgen.GenRelinearizationKeyNew(sk, kp.evk())
						c.Cover("evalseq-key", "rlk-added-after-creation")
					}
					ct := uniformCt(p, 2, st.level, st.isNTT, name, cfg, "ct", i)
					want = rk.Phase(rt, rQ, &ct.Element, s)
					out = ct
					if i%2 == 0 {
						out = rlwe.NewCiphertext(p, 1, p.MaxLevel())
					}
					in := *ct.MetaData
					if err := eval.Relinearize(ct, out); err != nil {
						return err
					}
					if !metaEqual(out.MetaData, &in) {
						return fmt.Errorf("metadata not propagated")
					}
					return nil
				}
				need(galEl)
				ct := uniformCt(p, 1, st.level, st.isNTT, name, cfg, "ct", i)
				want = rk.CenterAll(rk.Auto(rt, rk.Phase(rt, rQ, &ct.Element, s), galEl), Q)
				in := *ct.MetaData
				out = ct
				if i%2 == 0 {
					out = rlwe.NewCiphertext(p, 1, p.MaxLevel())
				}
				switch {
				case !hoisted:
					if err := eval.Automorphism(ct, galEl, out); err != nil {
						return err
					}
				case st.op == 1:
					eval.DecomposeNTT(st.level, kp.levelP, kp.levelP+1, ct.Value[1], st.isNTT, eval.BuffDecompQP)
					if err := eval.AutomorphismHoisted(st.level, ct, eval.BuffDecompQP, galEl, out); err != nil {
						return err
					}
				default:
					eval.DecomposeNTT(st.level, kp.levelP, kp.levelP+1, ct.Value[1], st.isNTT, eval.BuffDecompQP)
					ctQP := rlwe.NewElementExtended(p, 1, st.level, kp.levelP)
					ctQP.IsNTT = st.isNTT
					if err := eval.AutomorphismHoistedLazy(st.level, ct, eval.BuffDecompQP, galEl, ctQP); err != nil {
						return err
					}
					out = rlwe.NewCiphertext(p, 1, st.level)
					out.IsNTT = st.isNTT
					eval.ModDown(st.level, kp.levelP, ctQP, out)
					*out.MetaData = in
				}
				if !metaEqual(out.MetaData, &in) {
					return fmt.Errorf("metadata not propagated: %+v -> %+v", in, *out.MetaData)
				}
				return nil
			})
			if pan != nil {
				c.Fail(ksig(sig, "panic"), "%s: panicked: %v", what, pan)
				return
			}
			if err != nil {
				c.Fail(ksig(sig, "error"), "%s: %v", what, err)
				return
			}
			if out.Level() != st.level || out.Degree() != 1 {
				c.Fail(ksig(sig, "shape"), "%s: output degree %d level %d, want 1 and %d", what, out.Degree(), out.Level(), st.level)
				return
			}
			c.Cover("evalseq-op", opName)
			if !judge(c, ksig(sig, "phase"), what, rt, rQ, out, s, want, bnd) {
				return
			}
		}
		c.Count(evalSeqLen)
	}}
}
