package main

import (
	"fmt"
	"math/big"
	"strings"

	"github.com/tuneinsight/lattigo/v6/core/rlwe"
	"github.com/tuneinsight/lattigo/v6/ring"

	"verif/engine"
	"verif/lib/rk"
	"verif/uni"
)

// evalSeqScenario: state carried by ONE evaluator and ONE key set.
//
// The evaluator is created (NewEvaluator), or derived (ShallowCopy / WithKey) from one, while the key
// set is empty, holds one other Galois key, or holds only a relinearisation key. The keys the program
// needs are added to the key set AFTERWARDS, just before their first use (an application that loads
// keys on demand): the permutation table of such a key is built lazily, not in the constructor. Then a
// program of evalSeqLen operations runs on that one evaluator, with the level and the NTT flag
// changing from step to step (scratch buffers sized / filled by the previous step), each step judged
// exactly like a call on a fresh evaluator: phase under the target key == transformed phase of the
// input, within the key-switch noise bound.
const evalSeqLen = 3

var evalSeqOps = []string{"Automorphism(late key)", "AutomorphismHoisted(late key)", "Automorphism(second late key)",
	"AutomorphismHoistedLazy+ModDown(late key)", "Relinearize(late rlk)", "Automorphism(key present at creation)"}

// refusedCalls: missing Galois key, missing relinearisation key (when absent), wrong input degree for
// Relinearize / ApplyEvaluationKey / Automorphism, nil key set is not reachable here. Each must return
// an error (not panic) and must not modify the receiver.
func refusedCalls(c *engine.Chooser, what string, p rlwe.Parameters, eval *rlwe.Evaluator, set *rlwe.MemEvaluationKeySet, name, cfg string) bool {
	snapshot := func(ct *rlwe.Ciphertext) string {
		h := fmt.Sprintf("%d/%d/%+v", ct.Degree(), ct.Level(), *ct.MetaData)
		for _, v := range ct.Value {
			h += fmt.Sprint(engine.Hash(v.Coeffs[0]), engine.Hash(v.Coeffs[len(v.Coeffs)-1]))
		}
		return h
	}
	type call struct {
		name string
		f    func(in, out *rlwe.Ciphertext) error
		deg  int
	}
	missing := uint64(2*p.N() - 3) // a Galois element no key is ever generated for in this scenario
	if p.RingType() == ring.ConjugateInvariant {
		missing = p.GaloisElement(5)
	}
	calls := []call{
		{"Automorphism(missing key)", func(in, out *rlwe.Ciphertext) error { return eval.Automorphism(in, missing, out) }, 1},
		{"AutomorphismHoisted(missing key)", func(in, out *rlwe.Ciphertext) error {
			return eval.AutomorphismHoisted(in.Level(), in, eval.BuffDecompQP, missing, out)
		}, 1},
		{"Relinearize(degree-1 input)", func(in, out *rlwe.Ciphertext) error { return eval.Relinearize(in, out) }, 1},
		{"Automorphism(degree-2 input)", func(in, out *rlwe.Ciphertext) error { return eval.Automorphism(in, p.GaloisElement(1), out) }, 2},
		{"ApplyEvaluationKey(degree-2 input)", func(in, out *rlwe.Ciphertext) error {
			return eval.ApplyEvaluationKey(in, &rlwe.EvaluationKey{GadgetCiphertext: *rlwe.NewGadgetCiphertext(p, 1, p.MaxLevelQ(), p.MaxLevelP(), 0)}, out)
		}, 2},
	}
	if set.RelinearizationKey == nil {
		calls = append(calls, call{"Relinearize(missing key)", func(in, out *rlwe.Ciphertext) error { return eval.Relinearize(in, out) }, 2})
	}
	if _, ok := set.GaloisKeys[missing]; ok {
		calls = calls[2:]
	}
	for k, cl := range calls {
		in := uniformCt(p, cl.deg, p.MaxLevel(), true, name, cfg, "refused-in", k)
		out := dirtyReceiver(p, 1, p.MaxLevel(), true, name, cfg, "refused-out", k)
		before, beforeIn := snapshot(out), snapshot(in)
		err, pan := uni.Try(func() error { return cl.f(in, out) })
		if pan != nil {
			c.Fail("C04/evalseq/refused/"+cl.name+"/panic", "%s: %s panicked instead of returning an error: %v", what, cl.name, pan)
			return false
		}
		if err == nil {
			c.Fail("C04/evalseq/refused/"+cl.name+"/accepted", "%s: %s returned no error", what, cl.name)
			return false
		}
		if snapshot(out) != before || snapshot(in) != beforeIn {
			c.Fail("C04/evalseq/refused/"+cl.name+"/receiver-modified", "%s: %s returned an error (%v) but modified its receiver or input", what, cl.name, err)
			return false
		}
		c.Cover("evalseq-refused", cl.name)
	}
	return true
}

// ksig: a known-class signature (marked by a trailing '#') is used as is, otherwise sig+clause.
func ksig(sig, clause string) string {
	if strings.HasSuffix(sig, "#") {
		return strings.TrimSuffix(sig, "#")
	}
	return sig + clause
}

var creationNames = []string{"empty-key-set", "one-other-galois-key", "rlk-only"}
var deriveNames = []string{"NewEvaluator", "ShallowCopy", "WithKey"}

func lateGaloisElements(p rlwe.Parameters) []uint64 {
	if p.RingType() == ring.Standard {
		return []uint64{p.GaloisElement(1), uint64(2*p.N() - 1), 3, p.GaloisElement(2)}
	}
	return []uint64{p.GaloisElement(1), p.GaloisElement(-1), p.GaloisElement(3), p.GaloisElement(2)}
}

func evalSeqScenario(rt ring.Type, logN int, ch rk.Chain, bound int) engine.Scenario {
	name := fmt.Sprintf("evalseq/%s/logN%d/%s", ringName(rt), logN, ch.Name)
	return engine.Scenario{Name: name, Bound: bound, Fn: func(c *engine.Chooser) {
		p := rk.Params(ch.Lit(logN, maxLogN, rt, true, nil, nil))
		L := p.MaxLevel()
		creation := c.ChooseFree(3, "keySetAtCreation")
		derive := c.ChooseFree(3, "evaluator")
		els := lateGaloisElements(p)
		gi := c.ChooseFree(len(els)-1, "lateGalEl")
		gLate, gLate2, g0 := els[gi], els[(gi+1)%len(els)], els[(gi+2)%len(els)]
		type step struct {
			op, level int
			isNTT     bool
		}
		steps := make([]step, evalSeqLen)
		cfg := fmt.Sprintf("%s %s late=%d,%d atCreation=%d", creationNames[creation], deriveNames[derive], gLate, gLate2, g0)
		nl := L + 1
		if nl > 3 {
			nl = 3
		}
		for i := range steps {
			// the default program differs from step to step (rotated alphabets), so that already the
			// zero-deviation leaf mixes operations, levels and domains
			steps[i].op = (c.Choose(len(evalSeqOps), fmt.Sprintf("op%d", i)) + i) % len(evalSeqOps)
			steps[i].level = L - (c.Choose(nl, fmt.Sprintf("level%d", i))+i)%nl
			steps[i].isNTT = (c.Choose(2, fmt.Sprintf("IsNTT%d", i)) == 0) != (i == 1)
			cfg += fmt.Sprintf(" | %s @%d ntt=%v", evalSeqOps[steps[i].op], steps[i].level, steps[i].isNTT)
		}
		c.Note("%s", cfg)
		c.Cover("evalseq-creation", creationNames[creation])
		c.Cover("evalseq-evaluator", deriveNames[derive])
		c.Cover("evalseq-ring", ringName(rt))
		uni.Seed(c, name, cfg)

		kp := keyParams{levelQ: p.MaxLevelQ(), levelP: p.MaxLevelP()}
		rQ := p.RingQ()
		kgen := rlwe.NewKeyGenerator(p)
		sk := kgen.GenSecretKeyNew()
		s := rk.Secret(p, sk)

		var set *rlwe.MemEvaluationKeySet
		err, pan := uni.Try(func() error {
			switch creation {
			case 0:
				set = rlwe.NewMemEvaluationKeySet(nil)
			case 1:
				set = rlwe.NewMemEvaluationKeySet(nil, kgen.GenGaloisKeyNew(g0, sk, kp.evk()))
			case 2:
				set = rlwe.NewMemEvaluationKeySet(kgen.GenRelinearizationKeyNew(sk, kp.evk()))
			}
			return nil
		})
		if err != nil || pan != nil {
			c.Fail("C04/evalseq/setup", "%s: %v %v", cfg, err, pan)
			return
		}
		var eval *rlwe.Evaluator
		switch derive {
		case 0:
			eval = rlwe.NewEvaluator(p, set)
		case 1:
			eval = rlwe.NewEvaluator(p, set).ShallowCopy()
		case 2:
			eval = rlwe.NewEvaluator(p, rlwe.NewMemEvaluationKeySet(nil)).WithKey(set)
		}
		// keys are added to the key set on first need, AFTER the evaluator exists
		need := func(galEl uint64) {
			if _, ok := set.GaloisKeys[galEl]; !ok {
				set.GaloisKeys[galEl] = kgen.GenGaloisKeyNew(galEl, sk, kp.evk())
				c.Cover("evalseq-key", "galois-added-after-creation")
			}
		}
		for i, st := range steps {
			what := fmt.Sprintf("%s step %d", cfg, i)
			if i == 1 {
				// Between the first and the second step: every documented refusal. A refused call must
				// return an error, leave its receiver untouched, and leave the evaluator in a state from
				// which the next legal call still equals the fresh-evaluator result (judged below).
				if !refusedCalls(c, what, p, eval, set, name, cfg) {
					return
				}
			}
			opName := evalSeqOps[st.op]
			sig := "C04/evalseq/" + opName + "/"
			known := knownKS(p, kp, st.level, st.isNTT)
			bnd := ksBound(p, st.level, kp, beOf(p), bsOf(p))
			if !inScope(bnd, qAt(p, st.level)) {
				c.Skip("noise bound implied by the key parameters ≥ Q/4")
				return
			}
			if known != "" {
				sig = known + "#"
			}
			Q := qAt(p, st.level)
			var out, ref *rlwe.Ciphertext
			var want []*big.Int
			err, pan := uni.Try(func() error {
				galEl := gLate
				switch st.op {
				case 2:
					galEl = gLate2
				case 5:
					galEl = g0
				}
				hoisted := st.op == 1 || st.op == 3
				if hoisted && kp.levelP < 0 {
					hoisted = false // no P: the hoisted forms need one; plain Automorphism instead
					c.Cover("rejected", "evalseq/hoisted-without-P->plain")
				}
				// The operation of this step, on evaluator ev: run once on a FRESH evaluator (reference) and
				// once on the evaluator that carries the history of the previous steps.
				degree := 1
				if st.op == 4 {
					degree = 2
					if set.RelinearizationKey == nil {
						set.RelinearizationKey = kgen.GenRelinearizationKeyNew(sk, kp.evk())
						c.Cover("evalseq-key", "rlk-added-after-creation")
					}
				} else {
					need(galEl)
				}
				ct := uniformCt(p, degree, st.level, st.isNTT, name, cfg, "ct", i)
				ph := rk.Phase(rt, rQ, &ct.Element, s)
				if st.op == 4 {
					want = ph
				} else {
					want = rk.CenterAll(rk.Auto(rt, ph, galEl), Q)
				}
				in := *ct.MetaData
				run := func(ev *rlwe.Evaluator, ct, out *rlwe.Ciphertext) (*rlwe.Ciphertext, error) {
					switch {
					case st.op == 4:
						return out, ev.Relinearize(ct, out)
					case !hoisted:
						return out, ev.Automorphism(ct, galEl, out)
					case st.op == 1:
						ev.DecomposeNTT(st.level, kp.levelP, kp.levelP+1, ct.Value[1], st.isNTT, ev.BuffDecompQP)
						return out, ev.AutomorphismHoisted(st.level, ct, ev.BuffDecompQP, galEl, out)
					default:
						ev.DecomposeNTT(st.level, kp.levelP, kp.levelP+1, ct.Value[1], st.isNTT, ev.BuffDecompQP)
						ctQP := rlwe.NewElementExtended(p, 1, st.level, kp.levelP)
						ctQP.IsNTT = st.isNTT
						if err := ev.AutomorphismHoistedLazy(st.level, ct, ev.BuffDecompQP, galEl, ctQP); err != nil {
							return nil, err
						}
						o := rlwe.NewCiphertext(p, 1, st.level)
						o.IsNTT = st.isNTT
						ev.ModDown(st.level, kp.levelP, ctQP, o)
						*o.MetaData = in
						return o, nil
					}
				}
				var err error
				if ref, err = run(rlwe.NewEvaluator(p, set), ct.CopyNew(), rlwe.NewCiphertext(p, 1, p.MaxLevel())); err != nil {
					return fmt.Errorf("on a fresh evaluator: %w", err)
				}
				out = ct
				if i%2 == 0 {
					out = rlwe.NewCiphertext(p, 1, p.MaxLevel())
				}
				if out, err = run(eval, ct, out); err != nil {
					return err
				}
				if !metaEqual(out.MetaData, &in) {
					return fmt.Errorf("metadata not propagated: %+v -> %+v", in, *out.MetaData)
				}
				return nil
			})
			if pan != nil {
				c.Fail(ksig(sig, "panic"), "%s: panicked: %v", what, pan)
				return
			}
			if err != nil {
				c.Fail(ksig(sig, "error"), "%s: %v", what, err)
				return
			}
			if out.Level() != st.level || out.Degree() != 1 {
				c.Fail(ksig(sig, "shape"), "%s: output degree %d level %d, want 1 and %d", what, out.Degree(), out.Level(), st.level)
				return
			}
			c.Cover("evalseq-op", opName)
			if !judge(c, ksig(sig, "phase"), what, rt, rQ, out, s, want, bnd) {
				return
			}
			// Evaluation is deterministic: the evaluator with a history must return the same residues as a
			// fresh one (an operation that reads scratch left by an earlier call adds a valid-looking but
			// history-dependent term, typically noise well inside any worst-case bound).
			if ref.Level() != out.Level() {
				c.Fail(ksig(sig, "differs-from-fresh-evaluator"), "%s: level %d on the used evaluator, %d on a fresh one", what, out.Level(), ref.Level())
				return
			}
			for d := range out.Value {
				a := rk.PolyCoeffs(rQ, out.Value[d], st.level, false, false)
				b := rk.PolyCoeffs(rQ, ref.Value[d], st.level, false, false)
				if !rk.Equal(a, b) {
					c.Fail(ksig(sig, "differs-from-fresh-evaluator"), "%s: component %d of the result differs (mod Q) from the result of the same call on a fresh evaluator", what, d)
					return
				}
			}
		}
		c.Count(evalSeqLen)
	}}
}
