// C01 — RNS ring arithmetic equals exact arithmetic in Z_Q[X]/(X^N+1).
// Exhaustive lane × boundary-alphabet products over every exported kernel of ring.SubRing / ring.Ring,
// whole tiny fields for the scalar reductions, structured families for NTT / automorphisms.
package main

import (
	"fmt"
	"math/big"
	"time"

	"github.com/tuneinsight/lattigo/v6/ring"
	"github.com/tuneinsight/lattigo/v6/ring/ringqp"

	"verif/engine"
	"verif/ref"
)

// ---------------------------------------------------------------------------------------------
// universe

type primeClass struct {
	name string
	q    func(nthRoot uint64) []uint64
}

func classes(tier string) []primeClass {
	cs := []primeClass{
		{"tiny", func(m uint64) []uint64 { return ref.SmallestPrimes(m, 3) }},
		{"mid30", func(m uint64) []uint64 {
			return append(ref.PrimesNear(1<<30, m, 1, true), ref.PrimesNear(1<<30, m, 1, false)...)
		}},
		{"wordedge", func(m uint64) []uint64 {
			return append(append(ref.PrimesNear(1<<32, m, 1, true), ref.PrimesNear(1<<32, m, 1, false)...), ref.PrimesNear(1<<31, m, 1, true)...)
		}},
		{"big", func(m uint64) []uint64 {
			r := ref.PrimesNear(1<<55, m, 1, false)
			r = append(r, ref.PrimesNear(1<<60, m, 1, true)...)
			r = append(r, ref.PrimesNear(1<<60, m, 1, false)...)
			r = append(r, ref.PrimesNear(1<<61, m, 1, true)...) // largest supported size (61 bits)
			return r
		}},
	}
	if tier == "thorough" {
		// more sizes between the anchors (every limb/shift boundary of the 128-bit reductions sits at a different
		// position of the operand for each size), and the second prime on each side of the word edge
		cs = append(cs, primeClass{"sizes", func(m uint64) []uint64 {
			var r []uint64
			for _, b := range []uint{20, 26, 36, 40, 45, 50, 58, 59} {
				r = append(r, ref.PrimesNear(1<<b, m, 1, true)...)
			}
			r = append(r, ref.PrimesNear(1<<32, m, 2, true)[1:]...)
			r = append(r, ref.PrimesNear(1<<32, m, 2, false)[1:]...)
			r = append(r, ref.PrimesNear(1<<61, m, 2, true)[1:]...)
			return r
		}})
	}
	return cs
}

func degrees(tier string) []int {
	if tier == "thorough" {
		return []int{8, 16, 32, 64, 128}
	}
	return []int{8, 16, 32, 64}
}

// alphabet of boundary residues for modulus q, all < q
func alpha(q uint64) []uint64 {
	c := []uint64{0, 1, 2, q - 2, q - 1, q / 2, q/2 + 1}
	for _, v := range []uint64{1<<32 - 1, 1 << 32, 1<<32 + 1} {
		if v < q {
			c = append(c, v)
			if q-v < q {
				c = append(c, q-v)
			}
		}
	}
	return dedup(c, q)
}

// lazy alphabet: values in [q, 2q)
func alphaLazy(q uint64) []uint64 {
	return []uint64{q, q + 1, q + q/2, 2*q - 2, 2*q - 1}
}

func dedup(c []uint64, lim uint64) []uint64 {
	seen := map[uint64]bool{}
	var r []uint64
	for _, v := range c {
		if v < lim && !seen[v] {
			seen[v] = true
			r = append(r, v)
		}
	}
	return r
}

// ---------------------------------------------------------------------------------------------
// kernel table

type dom int

const (
	strict dom = iota // operand in [0,q)
	lazy2q            // operand in [0,2q)
	anyU64            // any uint64
)

type kern struct {
	name    string
	in2     bool // has second vector input
	acc     bool // output is also read
	inA     dom
	inB     dom
	inAcc   dom
	scalars int
	// call computes out from (a,b,out-as-acc,s0,s1)
	call func(s *ring.SubRing, a, b, out []uint64, s0, s1 uint64)
	// ref returns the expected residue mod q
	ref func(q, rinv, a, b, acc, s0, s1 uint64) uint64
	// max returns the largest documented output value (inclusive); ok=false: no range documented
	max func(q uint64) (uint64, bool)
	// strictOnly: the range claim only applies when all inputs are strict
}

func lt(k uint64, d int64) func(q uint64) (uint64, bool) {
	return func(q uint64) (uint64, bool) { return uint64(int64(k*q) + d), true }
}
func noRange(q uint64) (uint64, bool) { return 0, false }

var mm = ref.MulMod

func kernels() []kern {
	return []kern{
		{name: "Add", in2: true, call: func(s *ring.SubRing, a, b, o []uint64, _, _ uint64) { s.Add(a, b, o) },
			ref: func(q, ri, a, b, c, s0, s1 uint64) uint64 { return ref.AddMod(a, b, q) }, max: lt(1, -1)},
		{name: "AddLazy", in2: true, inA: lazy2q, inB: lazy2q, call: func(s *ring.SubRing, a, b, o []uint64, _, _ uint64) { s.AddLazy(a, b, o) },
			ref: func(q, ri, a, b, c, s0, s1 uint64) uint64 { return ref.AddMod(a, b, q) }, max: noRange},
		{name: "Sub", in2: true, call: func(s *ring.SubRing, a, b, o []uint64, _, _ uint64) { s.Sub(a, b, o) },
			ref: func(q, ri, a, b, c, s0, s1 uint64) uint64 { return ref.SubMod(a, b, q) }, max: lt(1, -1)},
		{name: "SubLazy", in2: true, call: func(s *ring.SubRing, a, b, o []uint64, _, _ uint64) { s.SubLazy(a, b, o) },
			ref: func(q, ri, a, b, c, s0, s1 uint64) uint64 { return ref.SubMod(a, b, q) }, max: noRange},
		{name: "Neg", call: func(s *ring.SubRing, a, b, o []uint64, _, _ uint64) { s.Neg(a, o) },
			ref: func(q, ri, a, b, c, s0, s1 uint64) uint64 { return ref.NegMod(a, q) }, max: noRange},
		{name: "Reduce", inA: anyU64, call: func(s *ring.SubRing, a, b, o []uint64, _, _ uint64) { s.Reduce(a, o) },
			ref: func(q, ri, a, b, c, s0, s1 uint64) uint64 { return a % q }, max: lt(1, -1)},
		{name: "ReduceLazy", inA: anyU64, call: func(s *ring.SubRing, a, b, o []uint64, _, _ uint64) { s.ReduceLazy(a, o) },
			ref: func(q, ri, a, b, c, s0, s1 uint64) uint64 { return a % q }, max: lt(2, -1)},
		{name: "MulCoeffsBarrett", in2: true, call: func(s *ring.SubRing, a, b, o []uint64, _, _ uint64) { s.MulCoeffsBarrett(a, b, o) },
			ref: func(q, ri, a, b, c, s0, s1 uint64) uint64 { return mm(a, b, q) }, max: lt(1, -1)},
		{name: "MulCoeffsBarrettLazy", in2: true, call: func(s *ring.SubRing, a, b, o []uint64, _, _ uint64) { s.MulCoeffsBarrettLazy(a, b, o) },
			ref: func(q, ri, a, b, c, s0, s1 uint64) uint64 { return mm(a, b, q) }, max: lt(2, -1)},
		{name: "MulCoeffsBarrettThenAdd", in2: true, acc: true, call: func(s *ring.SubRing, a, b, o []uint64, _, _ uint64) { s.MulCoeffsBarrettThenAdd(a, b, o) },
			ref: func(q, ri, a, b, c, s0, s1 uint64) uint64 { return ref.AddMod(c, mm(a, b, q), q) }, max: lt(1, -1)},
		{name: "MulCoeffsBarrettThenAddLazy", in2: true, acc: true, call: func(s *ring.SubRing, a, b, o []uint64, _, _ uint64) { s.MulCoeffsBarrettThenAddLazy(a, b, o) },
			ref: func(q, ri, a, b, c, s0, s1 uint64) uint64 { return ref.AddMod(c, mm(a, b, q), q) }, max: noRange},
		{name: "MulCoeffsMontgomery", in2: true, inA: lazy2q, call: func(s *ring.SubRing, a, b, o []uint64, _, _ uint64) { s.MulCoeffsMontgomery(a, b, o) },
			ref: func(q, ri, a, b, c, s0, s1 uint64) uint64 { return mm(mm(a, b, q), ri, q) }, max: lt(1, -1)},
		{name: "MulCoeffsMontgomeryLazy", in2: true, inA: lazy2q, call: func(s *ring.SubRing, a, b, o []uint64, _, _ uint64) { s.MulCoeffsMontgomeryLazy(a, b, o) },
			ref: func(q, ri, a, b, c, s0, s1 uint64) uint64 { return mm(mm(a, b, q), ri, q) }, max: lt(2, -1)},
		{name: "MulCoeffsMontgomeryThenAdd", in2: true, acc: true, call: func(s *ring.SubRing, a, b, o []uint64, _, _ uint64) { s.MulCoeffsMontgomeryThenAdd(a, b, o) },
			ref: func(q, ri, a, b, c, s0, s1 uint64) uint64 { return ref.AddMod(c, mm(mm(a, b, q), ri, q), q) }, max: lt(1, -1)},
		{name: "MulCoeffsMontgomeryThenAddLazy", in2: true, acc: true, inAcc: lazy2q, call: func(s *ring.SubRing, a, b, o []uint64, _, _ uint64) { s.MulCoeffsMontgomeryThenAddLazy(a, b, o) },
			ref: func(q, ri, a, b, c, s0, s1 uint64) uint64 { return ref.AddMod(c, mm(mm(a, b, q), ri, q), q) }, max: noRange},
		{name: "MulCoeffsMontgomeryLazyThenAddLazy", in2: true, acc: true, call: func(s *ring.SubRing, a, b, o []uint64, _, _ uint64) {
			s.MulCoeffsMontgomeryLazyThenAddLazy(a, b, o)
		}, ref: func(q, ri, a, b, c, s0, s1 uint64) uint64 { return ref.AddMod(c, mm(mm(a, b, q), ri, q), q) }, max: lt(3, -2)},
		{name: "MulCoeffsMontgomeryThenSub", in2: true, acc: true, call: func(s *ring.SubRing, a, b, o []uint64, _, _ uint64) { s.MulCoeffsMontgomeryThenSub(a, b, o) },
			ref: func(q, ri, a, b, c, s0, s1 uint64) uint64 { return ref.SubMod(c, mm(mm(a, b, q), ri, q), q) }, max: lt(1, -1)},
		{name: "MulCoeffsMontgomeryThenSubLazy", in2: true, acc: true, call: func(s *ring.SubRing, a, b, o []uint64, _, _ uint64) { s.MulCoeffsMontgomeryThenSubLazy(a, b, o) },
			ref: func(q, ri, a, b, c, s0, s1 uint64) uint64 { return ref.SubMod(c, mm(mm(a, b, q), ri, q), q) }, max: lt(2, -1)}, // doc says 2q-2; q+0-0... see note in DESIGN
		{name: "MulCoeffsMontgomeryLazyThenSubLazy", in2: true, acc: true, call: func(s *ring.SubRing, a, b, o []uint64, _, _ uint64) {
			s.MulCoeffsMontgomeryLazyThenSubLazy(a, b, o)
		}, ref: func(q, ri, a, b, c, s0, s1 uint64) uint64 { return ref.SubMod(c, mm(mm(a, b, q), ri, q), q) }, max: lt(3, -1)},
		{name: "MulCoeffsMontgomeryLazyThenNeg", in2: true, call: func(s *ring.SubRing, a, b, o []uint64, _, _ uint64) { s.MulCoeffsMontgomeryLazyThenNeg(a, b, o) },
			ref: func(q, ri, a, b, c, s0, s1 uint64) uint64 { return ref.NegMod(mm(mm(a, b, q), ri, q), q) }, max: lt(2, 0)},
		{name: "AddLazyThenMulScalarMontgomery", in2: true, scalars: 1, call: func(s *ring.SubRing, a, b, o []uint64, s0, _ uint64) {
			s.AddLazyThenMulScalarMontgomery(a, b, s0, o)
		}, ref: func(q, ri, a, b, c, s0, s1 uint64) uint64 { return mm(mm(ref.AddMod(a, b, q), s0, q), ri, q) }, max: lt(1, -1)},
		{name: "AddScalarLazyThenMulScalarMontgomery", scalars: 2, call: func(s *ring.SubRing, a, b, o []uint64, s0, s1 uint64) {
			s.AddScalarLazyThenMulScalarMontgomery(a, s0, s1, o)
		}, ref: func(q, ri, a, b, c, s0, s1 uint64) uint64 { return mm(mm(ref.AddMod(a, s0, q), s1, q), ri, q) }, max: lt(1, -1)},
		{name: "AddScalar", scalars: 1, call: func(s *ring.SubRing, a, b, o []uint64, s0, _ uint64) { s.AddScalar(a, s0, o) },
			ref: func(q, ri, a, b, c, s0, s1 uint64) uint64 { return ref.AddMod(a, s0, q) }, max: lt(1, -1)},
		{name: "AddScalarLazy", scalars: 1, call: func(s *ring.SubRing, a, b, o []uint64, s0, _ uint64) { s.AddScalarLazy(a, s0, o) },
			ref: func(q, ri, a, b, c, s0, s1 uint64) uint64 { return ref.AddMod(a, s0, q) }, max: noRange},
		{name: "AddScalarLazyThenNegTwoModulusLazy", scalars: 1, call: func(s *ring.SubRing, a, b, o []uint64, s0, _ uint64) {
			s.AddScalarLazyThenNegTwoModulusLazy(a, s0, o)
		}, ref: func(q, ri, a, b, c, s0, s1 uint64) uint64 { return ref.SubMod(s0, a, q) }, max: noRange},
		{name: "SubScalar", scalars: 1, call: func(s *ring.SubRing, a, b, o []uint64, s0, _ uint64) { s.SubScalar(a, s0, o) },
			ref: func(q, ri, a, b, c, s0, s1 uint64) uint64 { return ref.SubMod(a, s0, q) }, max: lt(1, -1)},
		{name: "MulScalarMontgomery", scalars: 1, inA: lazy2q, call: func(s *ring.SubRing, a, b, o []uint64, s0, _ uint64) { s.MulScalarMontgomery(a, s0, o) },
			ref: func(q, ri, a, b, c, s0, s1 uint64) uint64 { return mm(mm(a, s0, q), ri, q) }, max: lt(1, -1)},
		{name: "MulScalarMontgomeryLazy", scalars: 1, inA: lazy2q, call: func(s *ring.SubRing, a, b, o []uint64, s0, _ uint64) { s.MulScalarMontgomeryLazy(a, s0, o) },
			ref: func(q, ri, a, b, c, s0, s1 uint64) uint64 { return mm(mm(a, s0, q), ri, q) }, max: lt(2, -1)},
		{name: "MulScalarMontgomeryThenAdd", scalars: 1, acc: true, call: func(s *ring.SubRing, a, b, o []uint64, s0, _ uint64) { s.MulScalarMontgomeryThenAdd(a, s0, o) },
			ref: func(q, ri, a, b, c, s0, s1 uint64) uint64 { return ref.AddMod(c, mm(mm(a, s0, q), ri, q), q) }, max: lt(1, -1)},
		{name: "MulScalarMontgomeryThenAddScalar", scalars: 2, call: func(s *ring.SubRing, a, b, o []uint64, s0, s1 uint64) {
			s.MulScalarMontgomeryThenAddScalar(a, s0, s1, o)
		}, ref: func(q, ri, a, b, c, s0, s1 uint64) uint64 { return ref.AddMod(s0, mm(mm(a, s1, q), ri, q), q) }, max: lt(1, -1)},
		{name: "SubThenMulScalarMontgomeryTwoModulus", in2: true, scalars: 1, inA: lazy2q, inB: lazy2q, call: func(s *ring.SubRing, a, b, o []uint64, s0, _ uint64) {
			s.SubThenMulScalarMontgomeryTwoModulus(a, b, s0, o)
		}, ref: func(q, ri, a, b, c, s0, s1 uint64) uint64 { return mm(mm(ref.SubMod(a, b, q), s0, q), ri, q) }, max: lt(1, -1)},
		{name: "MForm", inA: anyU64, call: func(s *ring.SubRing, a, b, o []uint64, _, _ uint64) { s.MForm(a, o) },
			ref: func(q, ri, a, b, c, s0, s1 uint64) uint64 { return mm(a, ref.Pow2Mod(64, q), q) }, max: lt(1, -1)},
		{name: "MFormLazy", inA: anyU64, call: func(s *ring.SubRing, a, b, o []uint64, _, _ uint64) { s.MFormLazy(a, o) },
			ref: func(q, ri, a, b, c, s0, s1 uint64) uint64 { return mm(a, ref.Pow2Mod(64, q), q) }, max: lt(2, -1)},
		{name: "IMForm", inA: lazy2q, call: func(s *ring.SubRing, a, b, o []uint64, _, _ uint64) { s.IMForm(a, o) },
			ref: func(q, ri, a, b, c, s0, s1 uint64) uint64 { return mm(a, ri, q) }, max: lt(1, -1)},
	}
}

func domValues(d dom, q uint64) (strictV, extra []uint64) {
	strictV = alpha(q)
	switch d {
	case lazy2q:
		extra = alphaLazy(q)
	case anyU64:
		extra = append(alphaLazy(q), 1<<63, 1<<63+1, ^uint64(0), ^uint64(0)-1, 3*q, 4*q-1)
	}
	return
}

// kernelScenario: for one (kernel, N, q): every lane × alphabet^k product; background lanes hold
// distinct values so that lane cross-talk shows.
func kernelScenario(k kern, N int, q uint64, cls string) engine.Scenario {
	name := fmt.Sprintf("kernel/%s/N=%d/%s/q=%d", k.name, N, cls, q)
	return engine.Scenario{Name: name, Bound: -1, Fn: func(c *engine.Chooser) {
		s, err := ring.NewSubRing(N, q)
		if err != nil {
			c.Fail("C01/NewSubRing", "NewSubRing(%d,%d): %v", N, q, err)
			return
		}
		rinv := ref.InvMod(ref.Pow2Mod(64, q), q)
		aliasModes := 1
		if !k.acc {
			aliasModes = 2 // out distinct, out==p1
			if k.in2 {
				aliasModes = 3 // + out==p2
			}
		}
		sA, xA := domValues(k.inA, q)
		sB, xB := domValues(k.inB, q)
		sC, xC := domValues(k.inAcc, q)
		if !k.in2 {
			sB, xB = []uint64{0}, nil
		}
		if !k.acc {
			sC, xC = []uint64{0}, nil
		}
		sc0 := []uint64{0}
		sc1 := []uint64{0}
		if k.scalars >= 1 {
			sc0 = alpha(q)
		}
		if k.scalars >= 2 {
			sc1 = alpha(q)
		}
		bgA := make([]uint64, N)
		bgB := make([]uint64, N)
		bgC := make([]uint64, N)
		for j := 0; j < N; j++ {
			bgA[j] = (uint64(j)*0x9E3779B97F4A7C15 + 12345) % q
			bgB[j] = (uint64(j)*0xC2B2AE3D27D4EB4F + 777) % q
			bgC[j] = (uint64(j)*0x165667B19E3779F9 + 31) % q
		}
		a := make([]uint64, N)
		b := make([]uint64, N)
		out := make([]uint64, N)
		exp := make([]uint64, N)
		maxv, hasRange := k.max(q)
		evals := 0
		valsA := append(append([]uint64{}, sA...), xA...)
		valsB := append(append([]uint64{}, sB...), xB...)
		valsC := append(append([]uint64{}, sC...), xC...)
		for _, s0 := range sc0 {
			for _, s1 := range sc1 {
				for j := 0; j < N; j++ {
					exp[j] = k.ref(q, rinv, bgA[j], bgB[j], bgC[j], s0, s1)
				}
				for lane := 0; lane < N; lane++ {
					for ia, va := range valsA {
						for ib, vb := range valsB {
							for ic, vc := range valsC {
								allStrict := ia < len(sA) && ib < len(sB) && ic < len(sC)
								for am := 0; am < aliasModes; am++ {
									copy(a, bgA)
									copy(b, bgB)
									a[lane], b[lane] = va, vb
									var o []uint64
									switch am {
									case 0:
										o = out
										copy(o, bgC)
										o[lane] = vc
										if !k.acc {
											for j := range o {
												o[j] = 0xDEADBEEF
											}
										}
									case 1:
										o = a
									case 2:
										o = b
									}
									k.call(s, a, b, o, s0, s1)
									evals++
									want := k.ref(q, rinv, va, vb, vc, s0, s1)
									for j := 0; j < N; j++ {
										w := exp[j]
										if j == lane {
											w = want
										}
										if o[j]%q != w {
											c.Fail("C01/kernel/"+k.name+"/value", "%s N=%d q=%d lane=%d alias=%d a=%d b=%d acc=%d s0=%d s1=%d: out[%d]=%d ≢ %d", k.name, N, q, lane, am, va, vb, vc, s0, s1, j, o[j], w)
											return
										}
										if hasRange && allStrict && o[j] > maxv {
											c.Fail("C01/kernel/"+k.name+"/range", "%s N=%d q=%d lane=%d a=%d b=%d acc=%d s0=%d s1=%d: out[%d]=%d > documented max %d", k.name, N, q, lane, va, vb, vc, s0, s1, j, o[j], maxv)
											return
										}
									}
								}
							}
						}
					}
				}
			}
		}
		c.Count(evals)
		c.Cover("kernel", k.name)
		c.Cover("class", cls)
		c.Outcome(name, exp)
		c.Note("%d evaluations (lanes × alphabet product × alias modes)", evals)
	}}
}

// ---------------------------------------------------------------------------------------------
// scalar reductions

func scalarScenario(q uint64, cls string, full bool) engine.Scenario {
	name := fmt.Sprintf("scalar/%s/q=%d", cls, q)
	return engine.Scenario{Name: name, Bound: -1, Fn: func(c *engine.Chooser) {
		brc := ring.GenBRedConstant(q)
		mrc := ring.GenMRedConstant(q)
		if mrc*q != 1 {
			c.Fail("C01/GenMRedConstant", "q=%d: mrc*q != 1 mod 2^64", q)
		}
		r64 := ref.Pow2Mod(64, q)
		rinv := ref.InvMod(r64, q)
		var xs, ys []uint64
		if full {
			for x := uint64(0); x < 2*q; x++ {
				xs = append(xs, x)
			}
			for y := uint64(0); y < q; y++ {
				ys = append(ys, y)
			}
		} else {
			xs = append(alpha(q), alphaLazy(q)...)
			ys = alpha(q)
		}
		evals := 0
		bad := func(fn string, x, y, got, want uint64, what string) {
			c.Fail("C01/scalar/"+fn+"/"+what, "%s(q=%d, x=%d, y=%d) = %d, want %s %d", fn, q, x, y, got, what, want)
		}
		for _, x := range xs {
			for _, y := range ys {
				evals += 4
				w := mm(x, y, q)
				if x < q {
					if g := ring.BRed(x, y, q, brc); g != w {
						bad("BRed", x, y, g, w, "value")
						return
					}
					if g := ring.BRedLazy(x, y, q, brc); g%q != w || g > 2*q-1 {
						bad("BRedLazy", x, y, g, w, "value/range")
						return
					}
				}
				wm := mm(w, rinv, q)
				if g := ring.MRed(x, y, q, mrc); g != wm {
					bad("MRed", x, y, g, wm, "value")
					return
				}
				if g := ring.MRedLazy(x, y, q, mrc); g%q != wm || g > 2*q-1 {
					bad("MRedLazy", x, y, g, wm, "value/range")
					return
				}
			}
		}
		one := append(append([]uint64{}, xs...), 3*q, 4*q-1, 1<<63, 1<<63+1, ^uint64(0), ^uint64(0)-q)
		if full {
			for x := 2 * q; x < 8*q; x++ {
				one = append(one, x)
			}
		}
		for _, x := range one {
			evals += 7
			if g := ring.BRedAdd(x, q, brc); g != x%q {
				bad("BRedAdd", x, 0, g, x%q, "value")
				return
			}
			if g := ring.BRedAddLazy(x, q, brc); g%q != x%q || g > 2*q-1 {
				bad("BRedAddLazy", x, 0, g, x%q, "value/range")
				return
			}
			wm := mm(x, r64, q)
			if g := ring.MForm(x, q, brc); g != wm {
				bad("MForm", x, 0, g, wm, "value")
				return
			}
			if g := ring.MFormLazy(x, q, brc); g%q != wm || g > 2*q-1 {
				bad("MFormLazy", x, 0, g, wm, "value/range")
				return
			}
			wi := mm(x, rinv, q)
			if g := ring.IMForm(x, q, mrc); g != wi {
				bad("IMForm", x, 0, g, wi, "value")
				return
			}
			if g := ring.IMFormLazy(x, q, mrc); g%q != wi || g > 2*q-1 {
				bad("IMFormLazy", x, 0, g, wi, "value/range")
				return
			}
			if x < 2*q {
				if g := ring.CRed(x, q); g != x%q {
					bad("CRed", x, 0, g, x%q, "value")
					return
				}
			}
		}
		// ModExp family on the alphabet
		for _, x := range alpha(q) {
			for _, e := range []uint64{0, 1, 2, 3, q - 2, q - 1} {
				evals++
				if g := ring.ModExp(x, e, q); g != ref.PowMod(x, e, q) {
					bad("ModExp", x, e, g, ref.PowMod(x, e, q), "value")
					return
				}
			}
		}
		c.Count(evals)
		c.Cover("scalar", cls)
		c.Outcome(name, evals)
	}}
}

// ---------------------------------------------------------------------------------------------
// NTT

func polyFamily(N int, q uint64, dense bool) [][]uint64 {
	var fam [][]uint64
	cs := []uint64{1, q - 1, q / 2}
	for _, cv := range cs {
		for i := 0; i < N; i++ {
			p := make([]uint64, N)
			p[i] = cv
			fam = append(fam, p)
		}
	}
	if dense {
		mk := func(f func(i int) uint64) {
			p := make([]uint64, N)
			for i := range p {
				p[i] = f(i) % q
			}
			fam = append(fam, p)
		}
		mk(func(i int) uint64 { return q - 1 })
		mk(func(i int) uint64 { return uint64(i&1) * (q - 1) })
		mk(func(i int) uint64 { return uint64(i + 1) })
		mk(func(i int) uint64 { return q / 2 })
		mk(func(i int) uint64 { return uint64(i)*0x9E3779B97F4A7C15 + 1 })
		mk(func(i int) uint64 { return q/2 + 1 })
	}
	return fam
}

func twoTerm(N int, q uint64) [][]uint64 {
	var fam [][]uint64
	for i := 0; i < N; i++ {
		for j := i + 1; j < N; j++ {
			p := make([]uint64, N)
			p[i] = q - 1
			p[j] = q/2 + uint64(i)
			fam = append(fam, p)
		}
	}
	return fam
}

func eqv(a, b []uint64, q uint64) int {
	for i := range a {
		if a[i]%q != b[i]%q {
			return i
		}
	}
	return -1
}

func nttScenario(N int, q uint64, cls string, rt ring.Type, tier string) engine.Scenario {
	name := fmt.Sprintf("ntt/%v/N=%d/%s/q=%d", rt, N, cls, q)
	return engine.Scenario{Name: name, Bound: -1, Fn: func(c *engine.Chooser) {
		r, err := ring.NewRingFromType(N, []uint64{q}, rt)
		if err != nil {
			c.Fail("C01/NewRing", "NewRingFromType(%d,[%d],%v): %v", N, q, rt, err)
			return
		}
		s := r.SubRings[0]
		sig := fmt.Sprintf("C01/ntt/%v/", rt)
		fam := polyFamily(N, q, true)
		if N <= 16 || tier == "thorough" && N <= 32 {
			fam = append(fam, twoTerm(N, q)...)
		}
		evals := 0
		ntt := make([]uint64, N)
		back := make([]uint64, N)
		lazyIn := make([]uint64, N)
		ntts := make([][]uint64, len(fam))
		for fi, a := range fam {
			s.NTT(a, ntt)
			ntts[fi] = append([]uint64{}, ntt...)
			for j := range ntt {
				if ntt[j] >= q {
					c.Fail(sig+"NTT/range", "N=%d q=%d fam=%d: NTT out[%d]=%d >= q", N, q, fi, j, ntt[j])
					return
				}
			}
			s.INTT(ntt, back)
			if i := eqv(back, a, q); i >= 0 {
				c.Fail(sig+"INTT(NTT)", "N=%d q=%d fam=%d: INTT(NTT(a))[%d]=%d != %d", N, q, fi, i, back[i], a[i])
				return
			}
			for j := range back {
				if back[j] >= q {
					c.Fail(sig+"INTT/range", "N=%d q=%d fam=%d: INTT out[%d]=%d >= q", N, q, fi, j, back[j])
					return
				}
			}
			// NTT(INTT(a)) = a
			s.INTT(a, back)
			s.NTT(back, back) // in place
			if i := eqv(back, a, q); i >= 0 {
				c.Fail(sig+"NTT(INTT)", "N=%d q=%d fam=%d: NTT(INTT(a))[%d]=%d != %d (in place)", N, q, fi, i, back[i], a[i])
				return
			}
			// lazy variants: ranges + congruence, inputs in [0,q) and shifted into [q,2q)
			s.NTTLazy(a, back)
			for j := range back {
				if back[j] > 6*q-2 && back[j] < 8*q && rt == ring.ConjugateInvariant {
					// above the documented [0, 6q-2] but below 8q (no wrap-around for supported primes):
					// reported under its own signature so that a real overflow (>= 8q) stays distinct
					c.Fail(sig+"NTTLazy/range-above-documented-6q-2(below-8q)", "N=%d q=%d fam=%d: NTTLazy out[%d]=%d = %.3f·q > documented 6q-2", N, q, fi, j, back[j], float64(back[j])/float64(q))
					break
				}
				if back[j] > 6*q-2 {
					c.Fail(sig+"NTTLazy/range", "N=%d q=%d fam=%d: NTTLazy out[%d]=%d > 6q-2", N, q, fi, j, back[j])
					return
				}
			}
			if i := eqv(back, ntt, q); i >= 0 {
				c.Fail(sig+"NTTLazy/value", "N=%d q=%d fam=%d: NTTLazy[%d]=%d ≢ NTT %d", N, q, fi, i, back[i], ntt[i])
				return
			}
			for j := range a {
				lazyIn[j] = a[j] + q*uint64((j+fi)&1)
			}
			s.NTTLazy(lazyIn, back)
			if i := eqv(back, ntt, q); i >= 0 {
				c.Fail(sig+"NTTLazy/lazyinput", "N=%d q=%d fam=%d: NTTLazy(a+q·mask)[%d]=%d ≢ %d", N, q, fi, i, back[i], ntt[i])
				return
			}
			s.INTTLazy(ntt, back)
			for j := range back {
				if back[j] > 2*q-1 {
					c.Fail(sig+"INTTLazy/range", "N=%d q=%d fam=%d: INTTLazy out[%d]=%d > 2q-1", N, q, fi, j, back[j])
					return
				}
			}
			if i := eqv(back, a, q); i >= 0 {
				c.Fail(sig+"INTTLazy/value", "N=%d q=%d fam=%d: INTTLazy(NTT(a))[%d]=%d ≢ %d", N, q, fi, i, back[i], a[i])
				return
			}
			for j := range ntt {
				lazyIn[j] = ntt[j] + q*uint64((j+fi+1)&1)
			}
			s.INTT(lazyIn, back)
			if i := eqv(back, a, q); i >= 0 {
				c.Fail(sig+"INTT/lazyinput", "N=%d q=%d fam=%d: INTT(ntt+q·mask)[%d]=%d ≢ %d", N, q, fi, i, back[i], a[i])
				return
			}
			evals += 8
		}
		// convolution theorem: monomials × family, and additivity. In the conjugate-invariant ring
		// the transform is the restriction of the 2N-point NTT of Z[X]/(X^2N+1) to polynomials
		// invariant under X -> X^-1; products are taken there.
		prod := make([]uint64, N)
		nm := 3 * N // all c·X^i
		step := 1
		if tier != "thorough" && N > 16 {
			step = 3
		}
		ais, bis := []int{}, []int{}
		if N > 128 {
			// large degrees: the schoolbook reference is O(N²) per product — a fixed handful of pairs
			// (low / high / middle monomials with coefficients 1, q-1, q/2 against the dense extremes)
			ais = []int{0, 1, N - 1, N + N/2, 2*N + 3}
			for bi := 3 * N; bi < 3*N+6; bi++ {
				bis = append(bis, bi)
			}
			bis = append(bis, 1, N-1)
		} else {
			for ai := 0; ai < nm; ai += step {
				ais = append(ais, ai)
			}
			for bi := 0; bi < len(fam); bi += step {
				bis = append(bis, bi)
			}
		}
		for _, ai := range ais {
			for _, bi := range bis {
				a, b := fam[ai], fam[bi]
				var want []uint64
				if rt == ring.Standard {
					want = ref.NegacyclicMul(a, b, q)
				} else {
					want = ciMul(a, b, q)
				}
				for j := range prod {
					prod[j] = mm(ntts[ai][j], ntts[bi][j], q)
				}
				s.INTT(prod, back)
				if i := eqv(back, want, q); i >= 0 {
					c.Fail(sig+"convolution", "N=%d q=%d a=fam[%d] b=fam[%d]: INTT(NTT(a)⊙NTT(b))[%d]=%d != (a*b)[%d]=%d", N, q, ai, bi, i, back[i], i, want[i])
					return
				}
				// additivity
				for j := range prod {
					prod[j] = ref.AddMod(a[j], b[j], q)
				}
				s.NTT(prod, back)
				for j := range back {
					if back[j] != ref.AddMod(ntts[ai][j], ntts[bi][j], q) {
						c.Fail(sig+"additivity", "N=%d q=%d a=fam[%d] b=fam[%d]: NTT(a+b)[%d] != NTT(a)[%d]+NTT(b)[%d]", N, q, ai, bi, j, j, j)
						return
					}
				}
				evals += 2
			}
		}
		c.Count(evals)
		c.Cover("ntt", fmt.Sprintf("%v", rt))
		c.Cover("nttN", fmt.Sprintf("%d", N))
		c.Outcome(name, ntts[len(ntts)-1])
	}}
}

// ciMul multiplies two elements of Z_q[X+X^-1]/(X^2N+1) given by their N-coefficient compressed
// form: unfold to 2N coefficients (a_0, a_1.., a_{N-1}, 0?, ...) following the library's own
// documented embedding: coefficient i (1<=i<N) stands for X^i + X^-i = X^i - X^{2N-i}.
func ciMul(a, b []uint64, q uint64) []uint64 {
	n := len(a)
	unfold := func(p []uint64) []uint64 {
		u := make([]uint64, 2*n)
		u[0] = p[0] % q
		for i := 1; i < n; i++ {
			u[i] = p[i] % q
			u[2*n-i] = ref.NegMod(p[i], q)
		}
		return u
	}
	pr := ref.NegacyclicMul(unfold(a), unfold(b), q)
	return pr[:n]
}

// ---------------------------------------------------------------------------------------------
// automorphisms

func autoScenario(N int, moduli []uint64, cls string, rt ring.Type) engine.Scenario {
	name := fmt.Sprintf("auto/%v/N=%d/%s", rt, N, cls)
	return engine.Scenario{Name: name, Bound: -1, Fn: func(c *engine.Chooser) {
		r, err := ring.NewRingFromType(N, moduli, rt)
		if err != nil {
			c.Fail("C01/NewRing", "%v", err)
			return
		}
		sig := fmt.Sprintf("C01/auto/%v/", rt)
		nth := r.NthRoot()
		in := r.NewPoly()
		for i, q := range moduli {
			for j := 0; j < N; j++ {
				in.Coeffs[i][j] = (uint64(j+1)*0x9E3779B97F4A7C15 + uint64(i)) % q
			}
			in.Coeffs[i][0] = 0 // exercises the "q - 0" case
			in.Coeffs[i][N-1] = q - 1
		}
		inNTT := r.NewPoly()
		r.NTT(in, inNTT)
		out := r.NewPoly()
		out2 := r.NewPoly()
		evals := 0
		pow5 := map[uint64]bool{}
		for g, k := uint64(1), uint64(0); k < nth; k++ {
			pow5[g] = true
			g = (g * 5) % nth
		}
		for g := uint64(1); g < nth; g += 2 {
			// coefficient domain
			r.Automorphism(in, g, out)
			for i, q := range moduli {
				var want []uint64
				if rt == ring.Standard {
					want = ref.Automorphism(in.Coeffs[i], g, q)
				} else {
					want = ciAuto(in.Coeffs[i], g, q)
				}
				if k := eqv(out.Coeffs[i], want, q); k >= 0 {
					c.Fail(sig+"Automorphism", "N=%d g=%d q=%d: out[%d]=%d ≢ %d", N, g, q, k, out.Coeffs[i][k], want[k])
					return
				}
			}
			// NTT domain: NTT∘Automorphism∘INTT. In the conjugate-invariant ring the transform keeps the
			// roots of one coset only, which is stable exactly under the subgroup generated by 5.
			if rt == ring.ConjugateInvariant && !pow5[g] {
				evals++
				continue
			}
			r.AutomorphismNTT(inNTT, g, out2)
			r.INTT(out2, out2)
			for i, q := range moduli {
				if k := eqv(out2.Coeffs[i], out.Coeffs[i], q); k >= 0 {
					c.Fail(sig+"AutomorphismNTT", "N=%d g=%d q=%d: INTT(AutomorphismNTT(NTT(a)))[%d]=%d ≢ Automorphism(a)=%d", N, g, q, k, out2.Coeffs[i][k], out.Coeffs[i][k])
					return
				}
			}
			idx, err := ring.AutomorphismNTTIndex(N, nth, g)
			if err != nil {
				c.Fail(sig+"AutomorphismNTTIndex", "err %v", err)
				return
			}
			// ThenAddLazy on a non-zero accumulator
			acc := r.NewPoly()
			for i := range moduli {
				for j := 0; j < N; j++ {
					acc.Coeffs[i][j] = uint64(j + 3)
				}
			}
			r.AutomorphismNTTWithIndexThenAddLazy(inNTT, idx, acc)
			r.AutomorphismNTTWithIndex(inNTT, idx, out2)
			for i, q := range moduli {
				for j := 0; j < N; j++ {
					if acc.Coeffs[i][j]%q != ref.AddMod(out2.Coeffs[i][j], uint64(j+3), q) {
						c.Fail(sig+"AutomorphismNTTWithIndexThenAddLazy", "N=%d g=%d q=%d lane %d", N, g, q, j)
						return
					}
				}
			}
			evals += 4
			// group law on indices: index(g)∘index(h) = index(g·h)
			for h := uint64(1); h < nth; h += 2 {
				if rt == ring.ConjugateInvariant && !pow5[h] {
					continue
				}
				idh, _ := ring.AutomorphismNTTIndex(N, nth, h)
				idgh, _ := ring.AutomorphismNTTIndex(N, nth, (g*h)%nth)
				for j := 0; j < N; j++ {
					// out[j] = in[idx[j]] ; applying h after g: out2[j] = out[idh[j]] = in[idx[idh[j]]]
					if idx[idh[j]] != idgh[j] {
						c.Fail(sig+"indexGroupLaw", "N=%d g=%d h=%d: idx_g[idx_h[%d]] != idx_gh[%d]", N, g, h, j, j)
						return
					}
				}
				evals++
			}
		}
		c.Count(evals)
		c.Cover("auto", fmt.Sprintf("%v", rt))
		c.Outcome(name, out.Coeffs[0])
	}}
}

// ciAuto applies X -> X^g to an element of Z_q[X+X^-1]/(X^2N+1) in compressed form.
func ciAuto(a []uint64, g uint64, q uint64) []uint64 {
	n := len(a)
	u := make([]uint64, 2*n)
	u[0] = a[0] % q
	for i := 1; i < n; i++ {
		u[i] = a[i] % q
		u[2*n-i] = ref.NegMod(a[i], q)
	}
	v := ref.Automorphism(u, g, q)
	return v[:n]
}

// ---------------------------------------------------------------------------------------------
// ring-level wrappers (multi-prime, all levels)

func ringScenario(N int, moduli []uint64, cls string) engine.Scenario {
	name := fmt.Sprintf("ringops/N=%d/%s", N, cls)
	return engine.Scenario{Name: name, Bound: -1, Fn: func(c *engine.Chooser) {
		rMax, err := ring.NewRing(N, moduli)
		if err != nil {
			c.Fail("C01/NewRing", "%v", err)
			return
		}
		evals := 0
		for level := 0; level < len(moduli); level++ {
			// level views are taken directly from the full ring and, on alternating levels, from another view
			// (lowered first, then brought back): a view of a view must be the ring at the requested level
			r := rMax.AtLevel(level)
			if level%2 == 1 || level == len(moduli)-1 {
				r = rMax.AtLevel(0).AtLevel(level)
			}
			if r.Level() != level || len(r.ModuliChain()[:r.Level()+1]) != level+1 {
				c.Fail("C01/ring/AtLevel/view-of-a-view", "AtLevel(0).AtLevel(%d) is at level %d", level, r.Level())
				return
			}
			qs := moduli[:level+1]
			mk := func(seed uint64) ring.Poly {
				p := rMax.NewPoly()
				for i, q := range moduli {
					for j := 0; j < N; j++ {
						p.Coeffs[i][j] = (uint64(j+1)*seed + uint64(i)*7) % q
					}
					p.Coeffs[i][1] = q - 1
					p.Coeffs[i][2] = 0
				}
				return p
			}
			p1 := mk(0x9E3779B97F4A7C15)
			p2 := mk(0xC2B2AE3D27D4EB4F)
			check := func(op string, got ring.Poly, f func(i int, q uint64, j int) uint64, strictRange bool) bool {
				evals++
				sigOf := func(kind string) string { return "C01/ring/" + op + "/" + kind }
				// (the N=8 Double-RNS-scalar operations used to overrun their 4-lane halves: repaired in /repo 6ac16da,
				// judged like every other operation since)
				for i, q := range qs {
					for j := 0; j < N; j++ {
						w := f(i, q, j)
						if got.Coeffs[i][j]%q != w {
							c.Fail(sigOf("value"), "%s N=%d level=%d q=%d j=%d: got %d want %d", op, N, level, q, j, got.Coeffs[i][j], w)
							return false
						}
						if strictRange && got.Coeffs[i][j] >= q {
							c.Fail(sigOf("range"), "%s N=%d level=%d q=%d j=%d: got %d >= q", op, N, level, q, j, got.Coeffs[i][j])
							return false
						}
					}
				}
				// memory above the ring's level must not be stomped (EvalPolyScalar copies whole polys by design;
				// Shift rotates every row of its operand whatever the ring's level: not a ring-level operation)
				if op == "EvalPolyScalar" || op == "Shift" {
					return true
				}
				for i := level + 1; i < len(moduli); i++ {
					for j := 0; j < N; j++ {
						if got.Coeffs[i][j] != 0xABCDEF {
							c.Fail(sigOf("level-overrun"), "%s N=%d at level %d wrote modulus index %d", op, N, level, i)
							return false
						}
					}
				}
				return true
			}
			fresh := func() ring.Poly {
				p := rMax.NewPoly()
				for i := range p.Coeffs {
					for j := range p.Coeffs[i] {
						p.Coeffs[i][j] = 0xABCDEF
					}
				}
				return p
			}
			rinvs := make([]uint64, len(moduli))
			for i, q := range moduli {
				rinvs[i] = ref.InvMod(ref.Pow2Mod(64, q), q)
			}
			// scalars
			for _, sc := range []uint64{0, 1, 2, moduli[0] - 1, moduli[0], 1 << 63, ^uint64(0)} {
				o := fresh()
				r.AddScalar(p1, sc%moduli[0], o) // AddScalar documents no reduction of the scalar: keep it < q_0.. only valid when < every q
				_ = o
				o = fresh()
				r.MulScalar(p1, sc, o)
				if !check("MulScalar", o, func(i int, q uint64, j int) uint64 { return mm(p1.Coeffs[i][j], sc%q, q) }, true) {
					return
				}
				o = fresh()
				copyLvl(o, p2, level)
				r.MulScalarThenAdd(p1, sc, o)
				if !check("MulScalarThenAdd", o, func(i int, q uint64, j int) uint64 {
					return ref.AddMod(p2.Coeffs[i][j], mm(p1.Coeffs[i][j], sc%q, q), q)
				}, true) {
					return
				}
				o = fresh()
				copyLvl(o, p2, level)
				r.MulScalarThenSub(p1, sc, o)
				if !check("MulScalarThenSub", o, func(i int, q uint64, j int) uint64 {
					return ref.SubMod(p2.Coeffs[i][j], mm(p1.Coeffs[i][j], sc%q, q), q)
				}, true) {
					return
				}
			}
			Q := ref.Prod(qs)
			bigs := []*big.Int{big.NewInt(0), big.NewInt(1), big.NewInt(-1), new(big.Int).Set(Q), new(big.Int).Neg(Q),
				new(big.Int).Add(Q, big.NewInt(1)), new(big.Int).Sub(Q, big.NewInt(1)), new(big.Int).Lsh(big.NewInt(1), 200),
				new(big.Int).Neg(new(big.Int).Lsh(big.NewInt(3), 199))}
			for _, bs := range bigs {
				keep := new(big.Int).Set(bs)
				o := fresh()
				r.AddScalarBigint(p1, bs, o)
				if !check("AddScalarBigint", o, func(i int, q uint64, j int) uint64 { return ref.AddMod(p1.Coeffs[i][j], ref.ModU(bs, q), q) }, true) {
					return
				}
				o = fresh()
				r.SubScalarBigint(p1, bs, o)
				if !check("SubScalarBigint", o, func(i int, q uint64, j int) uint64 { return ref.SubMod(p1.Coeffs[i][j], ref.ModU(bs, q), q) }, true) {
					return
				}
				o = fresh()
				r.MulScalarBigint(p1, bs, o)
				if !check("MulScalarBigint", o, func(i int, q uint64, j int) uint64 { return mm(p1.Coeffs[i][j], ref.ModU(bs, q), q) }, true) {
					return
				}
				o = fresh()
				copyLvl(o, p2, level)
				r.MulScalarBigintThenAdd(p1, bs, o)
				if !check("MulScalarBigintThenAdd", o, func(i int, q uint64, j int) uint64 {
					return ref.AddMod(p2.Coeffs[i][j], mm(p1.Coeffs[i][j], ref.ModU(bs, q), q), q)
				}, true) {
					return
				}
				if keep.Cmp(bs) != 0 {
					c.Fail("C01/ring/bigint-scalar-mutated", "a *big.Int scalar argument was modified")
					return
				}
				rs := r.NewRNSScalarFromBigint(bs)
				for i, q := range qs {
					if rs[i] != ref.ModU(bs, q) {
						c.Fail("C01/ring/NewRNSScalarFromBigint", "level=%d q=%d", level, q)
						return
					}
				}
			}
			// vector wrappers: one representative per kernel family through the Ring API at this level
			type w3 struct {
				name   string
				acc    bool
				call   func(a, b, o ring.Poly)
				ref    func(q, ri, a, b, acc uint64) uint64
				strict bool
			}
			for _, w := range []w3{
				{"Add", false, r.Add, func(q, ri, a, b, acc uint64) uint64 { return ref.AddMod(a, b, q) }, true},
				{"AddLazy", false, r.AddLazy, func(q, ri, a, b, acc uint64) uint64 { return ref.AddMod(a, b, q) }, false},
				{"Sub", false, r.Sub, func(q, ri, a, b, acc uint64) uint64 { return ref.SubMod(a, b, q) }, true},
				{"SubLazy", false, r.SubLazy, func(q, ri, a, b, acc uint64) uint64 { return ref.SubMod(a, b, q) }, false},
				{"MulCoeffsBarrett", false, r.MulCoeffsBarrett, func(q, ri, a, b, acc uint64) uint64 { return mm(a, b, q) }, true},
				{"MulCoeffsBarrettLazy", false, r.MulCoeffsBarrettLazy, func(q, ri, a, b, acc uint64) uint64 { return mm(a, b, q) }, false},
				{"MulCoeffsBarrettThenAdd", true, r.MulCoeffsBarrettThenAdd, func(q, ri, a, b, acc uint64) uint64 { return ref.AddMod(acc, mm(a, b, q), q) }, true},
				{"MulCoeffsBarrettThenAddLazy", true, r.MulCoeffsBarrettThenAddLazy, func(q, ri, a, b, acc uint64) uint64 { return ref.AddMod(acc, mm(a, b, q), q) }, false},
				{"MulCoeffsMontgomery", false, r.MulCoeffsMontgomery, func(q, ri, a, b, acc uint64) uint64 { return mm(mm(a, b, q), ri, q) }, true},
				{"MulCoeffsMontgomeryLazy", false, r.MulCoeffsMontgomeryLazy, func(q, ri, a, b, acc uint64) uint64 { return mm(mm(a, b, q), ri, q) }, false},
				{"MulCoeffsMontgomeryLazyThenNeg", false, r.MulCoeffsMontgomeryLazyThenNeg, func(q, ri, a, b, acc uint64) uint64 { return ref.NegMod(mm(mm(a, b, q), ri, q), q) }, false},
				{"MulCoeffsMontgomeryThenAdd", true, r.MulCoeffsMontgomeryThenAdd, func(q, ri, a, b, acc uint64) uint64 { return ref.AddMod(acc, mm(mm(a, b, q), ri, q), q) }, true},
				{"MulCoeffsMontgomeryThenAddLazy", true, r.MulCoeffsMontgomeryThenAddLazy, func(q, ri, a, b, acc uint64) uint64 { return ref.AddMod(acc, mm(mm(a, b, q), ri, q), q) }, false},
				{"MulCoeffsMontgomeryLazyThenAddLazy", true, r.MulCoeffsMontgomeryLazyThenAddLazy, func(q, ri, a, b, acc uint64) uint64 { return ref.AddMod(acc, mm(mm(a, b, q), ri, q), q) }, false},
				{"MulCoeffsMontgomeryThenSub", true, r.MulCoeffsMontgomeryThenSub, func(q, ri, a, b, acc uint64) uint64 { return ref.SubMod(acc, mm(mm(a, b, q), ri, q), q) }, true},
				{"MulCoeffsMontgomeryThenSubLazy", true, r.MulCoeffsMontgomeryThenSubLazy, func(q, ri, a, b, acc uint64) uint64 { return ref.SubMod(acc, mm(mm(a, b, q), ri, q), q) }, false},
				{"MulCoeffsMontgomeryLazyThenSubLazy", true, r.MulCoeffsMontgomeryLazyThenSubLazy, func(q, ri, a, b, acc uint64) uint64 { return ref.SubMod(acc, mm(mm(a, b, q), ri, q), q) }, false},
			} {
				o := fresh()
				if w.acc {
					copyLvl(o, p2, level)
				}
				w.call(p1, p2, o)
				w := w
				if !check(w.name, o, func(i int, q uint64, j int) uint64 {
					return w.ref(q, rinvs[i], p1.Coeffs[i][j], p2.Coeffs[i][j], p2.Coeffs[i][j])
				}, w.strict) {
					return
				}
			}
			type w2 struct {
				name   string
				call   func(a, o ring.Poly)
				ref    func(q, ri, a uint64) uint64
				strict bool
			}
			for _, w := range []w2{
				{"Neg", r.Neg, func(q, ri, a uint64) uint64 { return ref.NegMod(a, q) }, false},
				{"Reduce", r.Reduce, func(q, ri, a uint64) uint64 { return a % q }, true},
				{"ReduceLazy", r.ReduceLazy, func(q, ri, a uint64) uint64 { return a % q }, false},
				{"MForm", r.MForm, func(q, ri, a uint64) uint64 { return mm(a, ref.Pow2Mod(64, q), q) }, true},
				{"MFormLazy", r.MFormLazy, func(q, ri, a uint64) uint64 { return mm(a, ref.Pow2Mod(64, q), q) }, false},
				{"IMForm", r.IMForm, func(q, ri, a uint64) uint64 { return mm(a, ri, q) }, true},
			} {
				o := fresh()
				w.call(p1, o)
				w := w
				if !check(w.name, o, func(i int, q uint64, j int) uint64 { return w.ref(q, rinvs[i], p1.Coeffs[i][j]) }, w.strict) {
					return
				}
			}
			// monomials: all k in [-2N-1, 2N+1], out of place and in place
			for k := -2*N - 1; k <= 2*N+1; k++ {
				o := fresh()
				r.MultByMonomial(p1, k, o)
				wants := make([][]uint64, len(qs))
				for i, q := range qs {
					wants[i] = ref.MonomialMul(p1.Coeffs[i], k, q)
				}
				if !check("MultByMonomial", o, func(i int, q uint64, j int) uint64 { return wants[i][j] }, false) {
					c.Note("k=%d", k)
					return
				}
				ip := fresh()
				copyLvl(ip, p1, level)
				r.MultByMonomial(ip, k, ip)
				if !check("MultByMonomial/inplace", ip, func(i int, q uint64, j int) uint64 { return wants[i][j] }, false) {
					c.Note("k=%d", k)
					return
				}
			}
			// NTT round trip and product across the chain at this level
			a, b := fresh(), fresh()
			r.NTT(p1, a)
			r.NTT(p2, b)
			pr := fresh()
			r.MulCoeffsBarrett(a, b, pr)
			r.INTT(pr, pr)
			wants := make([][]uint64, len(qs))
			for i, q := range qs {
				wants[i] = ref.NegacyclicMul(p1.Coeffs[i], p2.Coeffs[i], q)
			}
			if !check("NTT-product", pr, func(i int, q uint64, j int) uint64 { return wants[i][j] }, true) {
				return
			}
			// Montgomery product path used by the schemes: MForm(a) then MulCoeffsMontgomery
			am := fresh()
			r.MForm(a, am)
			r.MulCoeffsMontgomery(am, b, pr)
			r.INTT(pr, pr)
			if !check("NTT-product-montgomery", pr, func(i int, q uint64, j int) uint64 { return wants[i][j] }, true) {
				return
			}
			// lazy pipeline: NTTLazy -> MulCoeffsMontgomeryLazy... INTTLazy -> Reduce
			r.NTTLazy(p1, a)
			r.MForm(b, am)
			r.MulCoeffsMontgomeryLazy(a, am, pr)
			r.INTTLazy(pr, pr)
			r.Reduce(pr, pr)
			if !check("NTT-product-lazy", pr, func(i int, q uint64, j int) uint64 { return wants[i][j] }, true) {
				return
			}
			// RNS scalars
			rs1 := r.NewRNSScalarFromUInt64(^uint64(0))
			rs2 := r.NewRNSScalarFromBigint(new(big.Int).Sub(Q, big.NewInt(2)))
			so := r.NewRNSScalar()
			r.SubRNSScalar(rs1, rs2, so)
			for i, q := range qs {
				if so[i]%q != ref.SubMod(rs1[i], rs2[i], q) {
					c.Fail("C01/ring/SubRNSScalar", "level=%d q=%d", level, q)
					return
				}
			}
			m1 := r.NewRNSScalar()
			r.MFormRNSScalar(rs1, m1)
			r.MulRNSScalar(m1, rs2, so)
			for i, q := range qs {
				if so[i]%q != mm(rs1[i], rs2[i], q) {
					c.Fail("C01/ring/MulRNSScalar", "level=%d q=%d", level, q)
					return
				}
			}
			inv := append(ring.RNSScalar{}, m1...)
			r.Inverse(inv)
			r.MulRNSScalar(inv, rs1, so) // (x^-1·R)·x·R^-1 = 1
			for i, q := range qs {
				if rs1[i]%q != 0 && so[i]%q != 1 {
					c.Fail("C01/ring/Inverse", "level=%d q=%d: x·x^-1 = %d", level, q, so[i]%q)
					return
				}
			}
			r.NegRNSScalar(rs2, so)
			for i, q := range qs {
				if so[i]%q != ref.NegMod(rs2[i], q) {
					c.Fail("C01/ring/NegRNSScalar", "level=%d q=%d", level, q)
					return
				}
			}
			// double RNS scalar ops
			o := fresh()
			r.MulDoubleRNSScalar(p1, rs1, rs2, o)
			if !check("MulDoubleRNSScalar", o, func(i int, q uint64, j int) uint64 {
				sc := rs1[i]
				if j >= N/2 {
					sc = rs2[i]
				}
				return mm(p1.Coeffs[i][j], sc, q)
			}, true) {
				if N != 8 {
					return
				}
			}
			o = fresh()
			r.AddDoubleRNSScalar(p1, rs1, rs2, o)
			if !check("AddDoubleRNSScalar", o, func(i int, q uint64, j int) uint64 {
				sc := rs1[i]
				if j >= N/2 {
					sc = rs2[i]
				}
				return ref.AddMod(p1.Coeffs[i][j], sc, q)
			}, true) {
				if N != 8 {
					return
				}
			}
			o = fresh()
			r.SubDoubleRNSScalar(p1, rs1, rs2, o)
			if !check("SubDoubleRNSScalar", o, func(i int, q uint64, j int) uint64 {
				sc := rs1[i]
				if j >= N/2 {
					sc = rs2[i]
				}
				return ref.SubMod(p1.Coeffs[i][j], sc, q)
			}, true) {
				if N != 8 {
					return
				}
			}
			o = fresh()
			copyLvl(o, p2, level)
			r.MulDoubleRNSScalarThenAdd(p1, rs1, rs2, o)
			if !check("MulDoubleRNSScalarThenAdd", o, func(i int, q uint64, j int) uint64 {
				sc := rs1[i]
				if j >= N/2 {
					sc = rs2[i]
				}
				return ref.AddMod(p2.Coeffs[i][j], mm(p1.Coeffs[i][j], sc, q), q)
			}, true) {
				if N != 8 {
					return
				}
			}
			// EvalPolyScalar: p(x) = p1 + p2·x + p1·x²
			for _, x := range []uint64{0, 1, 2, moduli[0] - 1, 1<<32 + 1, 1<<40 + 3, 1<<63 + 5, ^uint64(0)} {
				o = fresh()
				r.EvalPolyScalar([]ring.Poly{p1, p2, p1}, x, o)
				if !check("EvalPolyScalar", o, func(i int, q uint64, j int) uint64 {
					a0, a1 := p1.Coeffs[i][j], p2.Coeffs[i][j]
					return ref.AddMod(a0, mm(x%q, ref.AddMod(a1, mm(x%q, a0, q), q), q), q)
				}, true) {
					return
				}
			}
			// NewMonomialXi: X^i in Z_q[X]/(X^N+1) for every exponent class incl. negative and > 2N ones
			for _, i := range []int{0, 1, N - 1, N, N + 1, 2*N - 1, 2 * N, 2*N + 1, 3*N + 2, -1, -N + 1, -N, -2*N - 3} {
				mono := r.NewMonomialXi(i)
				if mono.Level() != level {
					c.Fail("C01/ring/NewMonomialXi/level", "level %d, ring at level %d", mono.Level(), level)
					return
				}
				o = fresh()
				copyLvl(o, mono, level)
				e := ((i % (2 * N)) + 2*N) % (2 * N)
				if !check("NewMonomialXi", o, func(k int, q uint64, j int) uint64 {
					if e < N && j == e {
						return 1
					}
					if e >= N && j == e-N {
						return q - 1
					}
					return 0
				}, true) {
					return
				}
			}
			// Shift: rotation of the coefficient vector by k positions to the left
			for _, k := range []int{0, 1, N - 1, N, N + 3, -1, -N - 2} {
				o = fresh()
				r.Shift(p1, k, o)
				kk := ((k % N) + N) % N
				if !check("Shift", o, func(i int, q uint64, j int) uint64 { return p1.Coeffs[i][(j+kk)%N] }, true) {
					return
				}
			}
			// MulByVectorMontgomery(ThenAddLazy): one vector (Montgomery form of v_j = j+2 and of boundary values) for all moduli
			{
				vec := make([]uint64, N)
				for j := range vec {
					vec[j] = uint64(j + 2)
				}
				vec[0], vec[N-1] = 0, 1
				o = fresh()
				r.MulByVectorMontgomery(p1, vec, o)
				if !check("MulByVectorMontgomery", o, func(i int, q uint64, j int) uint64 { return mm(mm(p1.Coeffs[i][j], vec[j]%q, q), rinvs[i], q) }, true) {
					return
				}
				o = fresh()
				copyLvl(o, p2, level)
				r.MulByVectorMontgomeryThenAddLazy(p1, vec, o)
				if !check("MulByVectorMontgomeryThenAddLazy", o, func(i int, q uint64, j int) uint64 {
					return ref.AddMod(p2.Coeffs[i][j], mm(mm(p1.Coeffs[i][j], vec[j]%q, q), rinvs[i], q), q)
				}, false) {
					return
				}
			}
			// bigint import/export
			coeffs := make([]*big.Int, N)
			r.PolyToBigint(p1, 1, coeffs)
			want := ref.PolyCRT(p1.Coeffs[:level+1], qs)
			for j := range coeffs {
				if coeffs[j].Cmp(want[j]) != 0 {
					c.Fail("C01/ring/PolyToBigint", "level=%d coefficient %d", level, j)
					return
				}
			}
			r.PolyToBigintCentered(p1, 1, coeffs)
			for j := range coeffs {
				if coeffs[j].Cmp(ref.Center(want[j], Q)) != 0 {
					c.Fail("C01/ring/PolyToBigintCentered", "level=%d coefficient %d: %v vs %v", level, j, coeffs[j], ref.Center(want[j], Q))
					return
				}
			}
			o = fresh()
			r.SetCoefficientsBigint(want, o)
			if !check("SetCoefficientsBigint", o, func(i int, q uint64, j int) uint64 { return p1.Coeffs[i][j] }, true) {
				return
			}
		}
		c.Count(evals)
		c.Cover("ringops", cls)
		c.Outcome(name, evals)
	}}
}

func copyLvl(dst, src ring.Poly, level int) {
	for i := 0; i <= level; i++ {
		copy(dst.Coeffs[i], src.Coeffs[i])
	}
}

// ringqp: the same wrappers over the pair (Q,P)
func ringqpScenario(N int, qs, ps []uint64, cls string) engine.Scenario {
	name := fmt.Sprintf("ringqp/N=%d/%s", N, cls)
	return engine.Scenario{Name: name, Bound: -1, Fn: func(c *engine.Chooser) {
		rq, err := ring.NewRing(N, qs)
		if err != nil {
			c.Fail("C01/NewRing", "%v", err)
			return
		}
		rp, err := ring.NewRing(N, ps)
		if err != nil {
			c.Fail("C01/NewRing", "%v", err)
			return
		}
		R := ringqp.Ring{RingQ: rq, RingP: rp}
		evals := 0
		for lq := 0; lq < len(qs); lq++ {
			for lp := -1; lp < len(ps); lp++ {
				var r ringqp.Ring
				if lp >= 0 {
					r = R.AtLevel(lq, lp)
					// on alternating shapes through a lowered view first, then raised (a view of a view)
					if (lq+lp)%2 == 1 || (lq == len(qs)-1 && lp == len(ps)-1) {
						r = R.AtLevel(0, 0).AtLevel(lq, lp)
					}
					if r.LevelQ() != lq || r.LevelP() != lp {
						c.Fail("C01/ringqp/AtLevel/view-of-a-view", "AtLevel(0,0).AtLevel(%d,%d) is at levels (%d,%d)", lq, lp, r.LevelQ(), r.LevelP())
						return
					}
				} else {
					r = ringqp.Ring{RingQ: rq.AtLevel(lq)}
				}
				mk := func(seed uint64) ringqp.Poly {
					p := r.NewPoly()
					for i := 0; i <= lq; i++ {
						for j := 0; j < N; j++ {
							p.Q.Coeffs[i][j] = (uint64(j+1)*seed + uint64(i)) % qs[i]
						}
						p.Q.Coeffs[i][0] = qs[i] - 1
					}
					for i := 0; i <= lp; i++ {
						for j := 0; j < N; j++ {
							p.P.Coeffs[i][j] = (uint64(j+1)*seed + uint64(i) + 99) % ps[i]
						}
						p.P.Coeffs[i][0] = ps[i] - 1
					}
					return p
				}
				a, b := mk(0x9E3779B97F4A7C15), mk(0xC2B2AE3D27D4EB4F)
				chk := func(op string, got ringqp.Poly, f func(q, ri, x, y, acc uint64) uint64, acc ringqp.Poly) bool {
					evals++
					for i := 0; i <= lq; i++ {
						q := qs[i]
						ri := ref.InvMod(ref.Pow2Mod(64, q), q)
						for j := 0; j < N; j++ {
							var ac uint64
							if acc.Q.Coeffs != nil {
								ac = acc.Q.Coeffs[i][j]
							}
							if got.Q.Coeffs[i][j]%q != f(q, ri, a.Q.Coeffs[i][j], b.Q.Coeffs[i][j], ac) {
								c.Fail("C01/ringqp/"+op, "%s (lq=%d,lp=%d) Q[%d][%d]", op, lq, lp, i, j)
								return false
							}
						}
					}
					for i := 0; i <= lp; i++ {
						q := ps[i]
						ri := ref.InvMod(ref.Pow2Mod(64, q), q)
						for j := 0; j < N; j++ {
							var ac uint64
							if acc.P.Coeffs != nil {
								ac = acc.P.Coeffs[i][j]
							}
							if got.P.Coeffs[i][j]%q != f(q, ri, a.P.Coeffs[i][j], b.P.Coeffs[i][j], ac) {
								c.Fail("C01/ringqp/"+op, "%s (lq=%d,lp=%d) P[%d][%d]", op, lq, lp, i, j)
								return false
							}
						}
					}
					return true
				}
				none := ringqp.Poly{}
				o := r.NewPoly()
				r.Add(a, b, o)
				if !chk("Add", o, func(q, ri, x, y, ac uint64) uint64 { return ref.AddMod(x, y, q) }, none) {
					return
				}
				r.AddLazy(a, b, o)
				if !chk("AddLazy", o, func(q, ri, x, y, ac uint64) uint64 { return ref.AddMod(x, y, q) }, none) {
					return
				}
				r.Sub(a, b, o)
				if !chk("Sub", o, func(q, ri, x, y, ac uint64) uint64 { return ref.SubMod(x, y, q) }, none) {
					return
				}
				r.Neg(a, o)
				if !chk("Neg", o, func(q, ri, x, y, ac uint64) uint64 { return ref.NegMod(x, q) }, none) {
					return
				}
				r.MulCoeffsMontgomery(a, b, o)
				if !chk("MulCoeffsMontgomery", o, func(q, ri, x, y, ac uint64) uint64 { return mm(mm(x, y, q), ri, q) }, none) {
					return
				}
				r.MulCoeffsMontgomeryLazy(a, b, o)
				if !chk("MulCoeffsMontgomeryLazy", o, func(q, ri, x, y, ac uint64) uint64 { return mm(mm(x, y, q), ri, q) }, none) {
					return
				}
				acc := mk(0x165667B19E3779F9)
				o = *acc.CopyNew()
				r.MulCoeffsMontgomeryThenAdd(a, b, o)
				if !chk("MulCoeffsMontgomeryThenAdd", o, func(q, ri, x, y, ac uint64) uint64 { return ref.AddMod(ac, mm(mm(x, y, q), ri, q), q) }, acc) {
					return
				}
				o = *acc.CopyNew()
				r.MulCoeffsMontgomeryLazyThenAddLazy(a, b, o)
				if !chk("MulCoeffsMontgomeryLazyThenAddLazy", o, func(q, ri, x, y, ac uint64) uint64 { return ref.AddMod(ac, mm(mm(x, y, q), ri, q), q) }, acc) {
					return
				}
				o = *acc.CopyNew()
				r.MulCoeffsMontgomeryThenSub(a, b, o)
				if !chk("MulCoeffsMontgomeryThenSub", o, func(q, ri, x, y, ac uint64) uint64 { return ref.SubMod(ac, mm(mm(x, y, q), ri, q), q) }, acc) {
					return
				}
				o = *acc.CopyNew()
				r.MulCoeffsMontgomeryLazyThenSubLazy(a, b, o)
				if !chk("MulCoeffsMontgomeryLazyThenSubLazy", o, func(q, ri, x, y, ac uint64) uint64 { return ref.SubMod(ac, mm(mm(x, y, q), ri, q), q) }, acc) {
					return
				}
				o = r.NewPoly()
				r.MForm(a, o)
				if !chk("MForm", o, func(q, ri, x, y, ac uint64) uint64 { return mm(x, ref.Pow2Mod(64, q), q) }, none) {
					return
				}
				r.IMForm(a, o)
				if !chk("IMForm", o, func(q, ri, x, y, ac uint64) uint64 { return mm(x, ri, q) }, none) {
					return
				}
				r.MulScalar(a, 12345, o)
				if !chk("MulScalar", o, func(q, ri, x, y, ac uint64) uint64 { return mm(x, 12345, q) }, none) {
					return
				}
				// NTT round trip
				r.NTT(a, o)
				r.INTT(o, o)
				if !chk("INTT(NTT)", o, func(q, ri, x, y, ac uint64) uint64 { return x }, none) {
					return
				}
				r.NTTLazy(a, o)
				r.Reduce(o, o) // INTT admits inputs below 2q only
				r.INTTLazy(o, o)
				if !chk("INTTLazy(NTTLazy)", o, func(q, ri, x, y, ac uint64) uint64 { return x }, none) {
					return
				}
				// EvalPolyScalar: a + b·x + a·x² + b·x³ at points whose powers exceed 2^64, into a receiver with history
				for _, x := range []uint64{0, 1, 2, 1<<32 + 1, 1<<40 + 3, 1<<63 + 5, ^uint64(0)} {
					o = *acc.CopyNew()
					r.EvalPolyScalar([]ringqp.Poly{a, b, a, b}, x, o)
					if !chk("EvalPolyScalar", o, func(q, ri, u, v, ac uint64) uint64 {
						xq := x % q
						h := v
						h = ref.AddMod(u, mm(xq, h, q), q)
						h = ref.AddMod(v, mm(xq, h, q), q)
						return ref.AddMod(u, mm(xq, h, q), q)
					}, none) {
						return
					}
				}
				// automorphisms: the wrapper must act on the Q and on the P part like the ring-level operation
				for _, g := range []uint64{3, 5, uint64(2*N - 1), uint64(2*N + 5)} {
					want := r.NewPoly()
					r.RingQ.Automorphism(a.Q, g, want.Q)
					if r.RingP != nil {
						r.RingP.Automorphism(a.P, g, want.P)
					}
					o = *acc.CopyNew()
					r.Automorphism(a, g, o)
					evals++
					if !r.Equal(o, want) {
						c.Fail("C01/ringqp/Automorphism", "(lq=%d,lp=%d) g=%d differs from the ring-level automorphism of the parts", lq, lp, g)
						return
					}
					idx, err := ring.AutomorphismNTTIndex(N, uint64(2*N), g)
					if err != nil {
						c.Fail("C01/ringqp/AutomorphismNTTIndex", "%v", err)
						return
					}
					r.RingQ.AutomorphismNTTWithIndex(a.Q, idx, want.Q)
					if r.RingP != nil {
						r.RingP.AutomorphismNTTWithIndex(a.P, idx, want.P)
					}
					o = *acc.CopyNew()
					r.AutomorphismNTT(a, g, o)
					o2 := *acc.CopyNew()
					r.AutomorphismNTTWithIndex(a, idx, o2)
					evals += 2
					if !r.Equal(o, want) || !r.Equal(o2, want) {
						c.Fail("C01/ringqp/AutomorphismNTT", "(lq=%d,lp=%d) g=%d differs from the ring-level permutation of the parts", lq, lp, g)
						return
					}
					o = *acc.CopyNew()
					r.AutomorphismNTTWithIndexThenAddLazy(a, idx, o)
					r.Reduce(o, o)
					r.Add(want, acc, want)
					evals++
					if !r.Equal(o, want) {
						c.Fail("C01/ringqp/AutomorphismNTTWithIndexThenAddLazy", "(lq=%d,lp=%d) g=%d", lq, lp, g)
						return
					}
				}
				// RNS scalars over QP (layout Q||P is only defined on the full chain)
				if lq == len(qs)-1 && lp == len(ps)-1 {
					all := append(append([]uint64{}, qs...), ps...)
					for _, v := range []uint64{0, 1, 2, 1<<32 + 1, 1<<63 + 5, ^uint64(0)} {
						s1 := r.NewRNSScalarFromUInt64(v)
						s2 := r.NewRNSScalarFromUInt64(12345)
						so := r.NewRNSScalar()
						if len(s1) != len(all) || len(so) != len(all) {
							c.Fail("C01/ringqp/NewRNSScalar/length", "len=%d,%d want %d", len(s1), len(so), len(all))
							return
						}
						r.SubRNSScalar(s1, s2, so)
						for i, q := range all {
							if s1[i] != v%q || so[i] != ref.SubMod(v%q, 12345%q, q) {
								c.Fail("C01/ringqp/SubRNSScalar", "v=%d modulus %d", v, q)
								return
							}
						}
						// Montgomery product and inverse: (v·R)^-1 · v = 1·... checked through MulRNSScalar
						m := r.NewRNSScalar()
						for i, q := range all {
							m[i] = mm(v%q, ref.Pow2Mod(64, q), q)
						}
						r.MulRNSScalar(m, s2, so) // (v·R)·12345·R^-1
						for i, q := range all {
							if so[i]%q != mm(v%q, 12345%q, q) {
								c.Fail("C01/ringqp/MulRNSScalar", "v=%d modulus %d", v, q)
								return
							}
						}
						if v != 0 {
							inv := append(ring.RNSScalar{}, m...)
							r.Inverse(inv)
							r.MulRNSScalar(inv, s1, so) // (v^-1·R)·v·R^-1 = 1 where v is invertible
							for i, q := range all {
								if v%q != 0 && so[i]%q != 1 {
									c.Fail("C01/ringqp/Inverse", "v=%d modulus %d: v^-1·v = %d", v, q, so[i]%q)
									return
								}
							}
						}
						o = *acc.CopyNew()
						r.MulRNSScalarMontgomery(a, m, o)
						if !chk("MulRNSScalarMontgomery", o, func(q, ri, u, w, ac uint64) uint64 { return mm(u, v%q, q) }, none) {
							return
						}
						evals += 4
					}
				}
			}
		}
		c.Count(evals)
		c.Cover("ringqp", cls)
		c.Outcome(name, evals)
	}}
}

// fold / unfold / pad between the standard and the conjugate-invariant ring
func foldScenario(N int, moduli []uint64, cls string) engine.Scenario {
	name := fmt.Sprintf("fold/N=%d/%s", N, cls)
	return engine.Scenario{Name: name, Bound: -1, Fn: func(c *engine.Chooser) {
		rStd, err := ring.NewRing(2*N, moduli)
		if err != nil {
			c.Fail("C01/NewRing", "%v", err)
			return
		}
		rCI, err := ring.NewRingConjugateInvariant(N, moduli)
		if err != nil {
			c.Fail("C01/NewRing", "%v", err)
			return
		}
		// a conjugate-invariant element in compressed coefficient form
		ci := rCI.NewPoly()
		for i, q := range moduli {
			for j := 0; j < N; j++ {
				ci.Coeffs[i][j] = (uint64(j+1) * 0x9E3779B97F4A7C15) % q
			}
		}
		// its standard-ring image by the documented embedding X^i + X^-i
		std := rStd.NewPoly()
		for i, q := range moduli {
			std.Coeffs[i][0] = ci.Coeffs[i][0]
			for j := 1; j < N; j++ {
				std.Coeffs[i][j] = ci.Coeffs[i][j]
				std.Coeffs[i][2*N-j] = ref.NegMod(ci.Coeffs[i][j], q)
			}
		}
		// NTT in both rings, then Unfold(NTT_ci) must equal NTT_std
		ciN := rCI.NewPoly()
		rCI.NTT(ci, ciN)
		stdN := rStd.NewPoly()
		rStd.NTT(std, stdN)
		un := rStd.NewPoly()
		rStd.UnfoldConjugateInvariantToStandard(ciN, un)
		for i, q := range moduli {
			if k := eqv(un.Coeffs[i], stdN.Coeffs[i], q); k >= 0 {
				c.Fail("C01/fold/Unfold", "N=%d q=%d: Unfold(NTT_ci(a))[%d]=%d != NTT_std(embed(a))=%d", N, q, k, un.Coeffs[i][k], stdN.Coeffs[i][k])
				return
			}
		}
		// Fold(NTT_std(b)) for arbitrary b = NTT_ci of (b + conj(b)) compressed
		b := rStd.NewPoly()
		for i, q := range moduli {
			for j := 0; j < 2*N; j++ {
				b.Coeffs[i][j] = (uint64(j+5) * 0xC2B2AE3D27D4EB4F) % q
			}
		}
		bN := rStd.NewPoly()
		rStd.NTT(b, bN)
		idx, err := ring.AutomorphismNTTIndex(2*N, rStd.NthRoot(), rStd.NthRoot()-1)
		if err != nil {
			c.Fail("C01/fold/index", "%v", err)
			return
		}
		fo := rCI.NewPoly()
		rCI.FoldStandardToConjugateInvariant(bN, idx, fo)
		rCI.INTT(fo, fo)
		for i, q := range moduli {
			conj := ref.Automorphism(b.Coeffs[i], 4*uint64(N)-1, q)
			for j := 0; j < N; j++ {
				w := ref.AddMod(b.Coeffs[i][j], conj[j], q)
				if fo.Coeffs[i][j]%q != w {
					c.Fail("C01/fold/Fold", "N=%d q=%d: INTT_ci(Fold(NTT_std(b)))[%d]=%d != (b+conj b)[%d]=%d", N, q, j, fo.Coeffs[i][j], j, w)
					return
				}
			}
		}
		// MapSmallDimensionToLargerDimensionNTT: Y = X^{gap}
		rSmall, _ := ring.NewRing(N, moduli)
		sm := rSmall.NewPoly()
		for i, q := range moduli {
			for j := 0; j < N; j++ {
				sm.Coeffs[i][j] = (uint64(j+1) * 0x165667B19E3779F9) % q
			}
		}
		smN := rSmall.NewPoly()
		rSmall.NTT(sm, smN)
		lg := rStd.NewPoly()
		ring.MapSmallDimensionToLargerDimensionNTT(smN, lg)
		rStd.INTT(lg, lg)
		for i, q := range moduli {
			for j := 0; j < 2*N; j++ {
				w := uint64(0)
				if j%2 == 0 {
					w = sm.Coeffs[i][j/2]
				}
				if lg.Coeffs[i][j]%q != w {
					c.Fail("C01/fold/MapSmallToLargeNTT", "N=%d q=%d: coefficient %d = %d want %d", N, q, j, lg.Coeffs[i][j], w)
					return
				}
			}
		}
		c.Count(3)
		c.Cover("fold", cls)
		c.Outcome(name, fo.Coeffs[0])
	}}
}

// kernelTinyFull: for a tiny prime, EVERY operand pair (a,b) in [0,q)² (and every accumulator value from a small
// alphabet) in every lane position of one 8-lane block: the whole operand space of the kernel over that field.
func kernelTinyFull(k kern, N int, q uint64) engine.Scenario {
	name := fmt.Sprintf("kernel-full/%s/N=%d/q=%d", k.name, N, q)
	return engine.Scenario{Name: name, Bound: -1, Fn: func(c *engine.Chooser) {
		s, err := ring.NewSubRing(N, q)
		if err != nil {
			c.Fail("C01/NewSubRing", "%v", err)
			return
		}
		rinv := ref.InvMod(ref.Pow2Mod(64, q), q)
		a := make([]uint64, N)
		b := make([]uint64, N)
		o := make([]uint64, N)
		accs := []uint64{0}
		if k.acc {
			accs = []uint64{0, 1, q / 2, q - 1}
		}
		s0s, s1s := []uint64{0}, []uint64{0}
		if k.scalars >= 1 {
			s0s = []uint64{0, 1, q / 2, q - 1}
		}
		if k.scalars >= 2 {
			s1s = []uint64{1, q - 1}
		}
		maxv, hasRange := k.max(q)
		evals := 0
		for _, s0 := range s0s {
			for _, s1 := range s1s {
				for _, ac := range accs {
					// lane j of the block gets operand pair (x, (x*7+j) mod q): all q values of a in every lane,
					// and over the q iterations of the shift every (a,b) pair in every lane
					for shift := uint64(0); shift < q; shift++ {
						for x0 := uint64(0); x0 < q; x0 += uint64(N) {
							for j := 0; j < N; j++ {
								a[j] = (x0 + uint64(j)) % q
								b[j] = (a[j] + shift) % q
								o[j] = ac
							}
							if !k.in2 && shift > 0 {
								continue
							}
							k.call(s, a, b, o, s0, s1)
							evals++
							for j := 0; j < N; j++ {
								w := k.ref(q, rinv, a[j], b[j], ac, s0, s1)
								if o[j]%q != w {
									c.Fail("C01/kernel/"+k.name+"/value", "%s N=%d q=%d lane=%d a=%d b=%d acc=%d s0=%d s1=%d: got %d want %d (tiny field exhaustion)", k.name, N, q, j, a[j], b[j], ac, s0, s1, o[j], w)
									return
								}
								if hasRange && o[j] > maxv {
									c.Fail("C01/kernel/"+k.name+"/range", "%s N=%d q=%d lane=%d a=%d b=%d acc=%d: got %d > documented max %d (tiny field exhaustion)", k.name, N, q, j, a[j], b[j], ac, o[j], maxv)
									return
								}
							}
						}
					}
				}
			}
		}
		c.Count(evals * N)
		c.Cover("kernel-full", k.name)
		c.Outcome(name, evals)
	}}
}

// kernelLanePairs: two lanes of the same 8-lane block carry boundary values at once (operand a in lane l1, operand
// b in lane l2): an operand read from the neighbouring lane shows even when single-lane probes agree by accident.
func kernelLanePairs(k kern, N int, q uint64, cls string) engine.Scenario {
	name := fmt.Sprintf("kernel-pairs/%s/N=%d/%s/q=%d", k.name, N, cls, q)
	return engine.Scenario{Name: name, Bound: -1, Fn: func(c *engine.Chooser) {
		s, err := ring.NewSubRing(N, q)
		if err != nil {
			c.Fail("C01/NewSubRing", "%v", err)
			return
		}
		rinv := ref.InvMod(ref.Pow2Mod(64, q), q)
		vals := []uint64{0, 1, q - 1, q / 2}
		a := make([]uint64, N)
		b := make([]uint64, N)
		o := make([]uint64, N)
		bg := func(j int, salt uint64) uint64 { return (uint64(j+1)*0x9E3779B97F4A7C15 + salt) % q }
		evals := 0
		for blk := 0; blk < N; blk += 8 {
			for l1 := blk; l1 < blk+8; l1++ {
				for l2 := blk; l2 < blk+8; l2++ {
					for _, va := range vals {
						for _, vb := range vals {
							for j := 0; j < N; j++ {
								a[j], b[j], o[j] = bg(j, 1), bg(j, 2), bg(j, 3)
							}
							a[l1], b[l2] = va, vb
							acc := append([]uint64{}, o...)
							k.call(s, a, b, o, vals[1], vals[2])
							evals++
							for j := 0; j < N; j++ {
								if w := k.ref(q, rinv, a[j], b[j], acc[j], vals[1], vals[2]); o[j]%q != w {
									c.Fail("C01/kernel/"+k.name+"/value", "%s N=%d q=%d: a[%d]=%d b[%d]=%d: out[%d]=%d want %d (lane pairs)", k.name, N, q, l1, va, l2, vb, j, o[j], w)
									return
								}
							}
						}
					}
				}
			}
		}
		c.Count(evals)
		c.Cover("kernel-pairs", k.name)
		c.Outcome(name, evals)
	}}
}

// nttTwoTermFull: every polynomial with at most two non-zero coefficients over the WHOLE field, for the two tiny
// rings (non-unrolled path N=8,q=17; unrolled path N=16,q=97), against linearity over the monomial transforms
// (which the convolution oracle of nttScenario pins) and the round trip.
func nttTwoTermFull(N int, q uint64, rt ring.Type) engine.Scenario {
	name := fmt.Sprintf("ntt-two-term-full/%v/N=%d/q=%d", rt, N, q)
	return engine.Scenario{Name: name, Bound: -1, Fn: func(c *engine.Chooser) {
		r, err := ring.NewRingFromType(N, []uint64{q}, rt)
		if err != nil {
			c.Fail("C01/NewRing", "%v", err)
			return
		}
		s := r.SubRings[0]
		mono := make([][]uint64, N)
		p := make([]uint64, N)
		for i := 0; i < N; i++ {
			for j := range p {
				p[j] = 0
			}
			p[i] = 1
			mono[i] = make([]uint64, N)
			s.NTT(p, mono[i])
		}
		out := make([]uint64, N)
		back := make([]uint64, N)
		evals := 0
		sig := fmt.Sprintf("C01/ntt/%v/", rt)
		for i := 0; i < N; i++ {
			for j := i; j < N; j++ {
				for c1 := uint64(0); c1 < q; c1++ {
					for c2 := uint64(1); c2 < q; c2++ {
						if i == j && c1 != 0 {
							continue
						}
						for k := range p {
							p[k] = 0
						}
						p[i] = c1
						p[j] = ref.AddMod(p[j], c2, q)
						s.NTT(p, out)
						evals++
						for k := 0; k < N; k++ {
							w := ref.AddMod(mm(c1, mono[i][k], q), mm(c2, mono[j][k], q), q)
							if i == j {
								w = mm(c2, mono[j][k], q)
							}
							if out[k] != w {
								c.Fail(sig+"two-term/linearity", "N=%d q=%d: NTT(%d·X^%d + %d·X^%d)[%d] = %d, want %d", N, q, c1, i, c2, j, k, out[k], w)
								return
							}
						}
						s.INTT(out, back)
						for k := 0; k < N; k++ {
							if back[k] != p[k] {
								c.Fail(sig+"two-term/INTT(NTT)", "N=%d q=%d: INTT(NTT(%d·X^%d + %d·X^%d))[%d] = %d, want %d", N, q, c1, i, c2, j, k, back[k], p[k])
								return
							}
						}
					}
				}
			}
		}
		c.Count(evals)
		c.Cover("ntt-two-term-full", fmt.Sprintf("%v/N=%d", rt, N))
		c.Outcome(name, evals)
	}}
}

// ---------------------------------------------------------------------------------------------

func scenarios(tier string) []engine.Scenario {
	var scs []engine.Scenario
	// scalar reductions: tiny fields fully, others on alphabets
	for _, N := range []int{8, 16} {
		for _, q := range ref.SmallestPrimes(uint64(2*N), 4) {
			scs = append(scs, scalarScenario(q, fmt.Sprintf("tinyfull%d", N), true))
		}
	}
	seenQ := map[uint64]bool{}
	for _, cl := range classes(tier) {
		for _, q := range cl.q(128) {
			if !seenQ[q] {
				seenQ[q] = true
				scs = append(scs, scalarScenario(q, cl.name, false))
			}
		}
	}
	ks := kernels()
	// whole-field operand exhaustion per kernel, lane pairs, two-term NTT exhaustion
	for _, k := range ks {
		scs = append(scs, kernelTinyFull(k, 16, 97))
		scs = append(scs, kernelTinyFull(k, 8, 17))
		if tier == "thorough" {
			scs = append(scs, kernelTinyFull(k, 16, 193), kernelTinyFull(k, 32, 257))
		}
		if k.in2 {
			for _, N := range []int{8, 16} {
				scs = append(scs, kernelLanePairs(k, N, ref.PrimesNear(1<<61, uint64(4*N), 1, true)[0], "big"))
				scs = append(scs, kernelLanePairs(k, N, ref.SmallestPrimes(uint64(4*N), 1)[0], "tiny"))
			}
		}
	}
	for _, rt := range []ring.Type{ring.Standard, ring.ConjugateInvariant} {
		scs = append(scs, nttTwoTermFull(8, 97, rt)) // 97 = 1 mod 32: valid for both ring types at N=8
		scs = append(scs, nttTwoTermFull(16, 193, rt))
		if tier == "thorough" {
			scs = append(scs, nttTwoTermFull(16, 257, rt), nttTwoTermFull(32, 257, rt))
		}
	}
	for _, N := range degrees(tier) {
		for _, cl := range classes(tier) {
			qs := cl.q(uint64(4 * N)) // ≡1 mod 4N: valid for both ring types
			// (quick and thorough use every prime of every class at every degree; thorough adds N=128 and the large-N NTTs)
			for _, q := range qs {
				if N <= 64 || N == 128 {
					for _, k := range ks {
						if tier != "thorough" && N >= 64 && k.scalars == 2 && cl.name != "big" && cl.name != "tiny" {
							continue // quadratic scalar product at N=64: tiny and big classes only in quick
						}
						scs = append(scs, kernelScenario(k, N, q, cl.name))
					}
				}
				scs = append(scs, nttScenario(N, q, cl.name, ring.Standard, tier))
				scs = append(scs, nttScenario(N, q, cl.name, ring.ConjugateInvariant, tier))
			}
			chain := cl.q(uint64(4 * N))
			if len(chain) > 3 {
				chain = chain[:3]
			}
			if N <= 64 {
				scs = append(scs, autoScenario(N, chain, cl.name, ring.Standard))
				scs = append(scs, autoScenario(N, chain, cl.name, ring.ConjugateInvariant))
				scs = append(scs, ringScenario(N, chain, cl.name))
				scs = append(scs, foldScenario(N, chain, cl.name))
			}
		}
		if N <= 64 {
			tiny := ref.SmallestPrimes(uint64(2*N), 5)
			big := append(ref.PrimesNear(1<<61, uint64(2*N), 2, true), ref.PrimesNear(1<<45, uint64(2*N), 1, true)...)
			scs = append(scs, ringqpScenario(N, tiny[:3], tiny[3:], "tiny"))
			scs = append(scs, ringqpScenario(N, []uint64{big[0], big[2]}, []uint64{big[1]}, "bigmixed"))
			scs = append(scs, ringScenario(N, []uint64{big[0], tiny[0], big[2], big[1]}, "mixed"))
		}
	}
	{
		// large-N NTT on dense extremes (code paths and index ranges that depend on N); the largest only in thorough
		largeN := []int{256, 1024, 4096}
		if tier == "thorough" {
			largeN = []int{256, 512, 1024, 2048, 4096}
		}
		for _, N := range largeN {
			for _, q := range []uint64{ref.SmallestPrimes(uint64(4*N), 1)[0], ref.PrimesNear(1<<61, uint64(4*N), 1, true)[0]} {
				scs = append(scs, nttScenario(N, q, "largeN", ring.Standard, "quick"))
				scs = append(scs, nttScenario(N, q, "largeN", ring.ConjugateInvariant, "quick"))
			}
		}
	}
	return scs
}

func main() {
	engine.Main(engine.Check{
		ID:    "C01",
		Level: "exploration",
		Rule: "Each scenario is one (kernel|scalar-reduction|NTT|automorphism|ring wrapper) × ring degree × prime; inside, every lane × boundary-alphabet^k × alias mode (kernels), " +
			"every (x,y) of the tiny fields (scalar reductions), every monomial/two-term/dense-extreme polynomial (NTT) and every Galois element (automorphisms) is evaluated against division-based reference arithmetic. " +
			"distinct_nontrivial counts distinct (scenario, observed output vector) classes.",
		Assumptions: []string{
			"inputs in [0,q) unless the kernel's doc or its callers admit lazy/unreduced inputs; range claims only checked against ranges the doc comment states",
			"primes are NTT-friendly and at most 61 bits (6q < 2^64)",
		},
		Scenarios:      scenarios,
		QuickBudget:    150 * time.Second,
		ThoroughBudget: 25 * time.Minute,
		Expect: func(tier string) []string {
			e := []string{"ntt=Standard", "ntt=ConjugateInvariant", "auto=Standard", "auto=ConjugateInvariant", "class=big", "class=tiny", "ringqp=tiny", "fold=tiny"}
			for _, k := range kernels() {
				e = append(e, "kernel="+k.name)
			}
			return e
		},
	})
}
