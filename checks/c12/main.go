// C12 — homomorphic linear transformations compute the plaintext matrix-vector product.
//
// Bounded-exhaustive exploration of circuits/{bgv,ckks}/lintrans (and the shared circuits/common/lintrans):
// every small set of non-zero diagonals × BSGS ratio × levels × entry point is encoded, evaluated with keys
// generated from exactly the advertised Galois elements, decrypted, and compared with a matrix-vector product
// written from the definition of the diagonal representation.
package main

import (
	"fmt"
	"sync"
	"time"

	"verif/engine"
	"verif/lib/circ"
	"verif/ref"
	"verif/uni"
)

// ---------------------------------------------------------------------------------------------
// worlds (built once per process and spec; deterministic in (VERIF_SEED, spec))

var (
	worldMu sync.Mutex
	bgvW    = map[string]*circ.BGV{}
	ckksW   = map[string]*circ.CKKS{}
)

func getBGV(c *engine.Chooser, s circ.BGVSpec) *circ.BGV {
	worldMu.Lock()
	defer worldMu.Unlock()
	if w, ok := bgvW[s.String()]; ok {
		return w
	}
	uni.Seed(c, "world", s.String())
	w := circ.NewBGV(s)
	bgvW[s.String()] = w
	return w
}

func getCKKS(c *engine.Chooser, s circ.CKKSSpec) *circ.CKKS {
	worldMu.Lock()
	defer worldMu.Unlock()
	if w, ok := ckksW[s.String()]; ok {
		return w
	}
	uni.Seed(c, "world", s.String())
	w := circ.NewCKKS(s)
	ckksW[s.String()] = w
	return w
}

// a target is one scheme/parameter set/packing on which transformations of dimension n are evaluated
type target struct {
	name   string
	n      int
	lite   bool  // structured sets only (parameter sets that exist for one code path)
	ratios []int // nil: ratioCycle
	margin bool  // lazy-accumulation margin target: dense bands, every level, high BSGS ratios
	dense  bool  // only the dense structured sets, core entry points, no secondary axes (large n)
	leaf   func(c *engine.Chooser, scName string, cfg *scenarioCfg)
}

var (
	bgvA  = map[string]*adapter[uint64]{}
	ckksA = map[string]*adapter[complex128]{}
)

func bgvTarget(s circ.BGVSpec) target {
	name := s.String()
	return target{name: name, n: 1 << (s.LogN - 1), leaf: func(c *engine.Chooser, sc string, cfg *scenarioCfg) {
		a, ok := bgvA[name]
		if !ok {
			a = bgvAdapter(getBGV(c, s))
			bgvA[name] = a
		}
		runLeaf(c, a, sc, cfg)
	}}
}

func getCKKSAdapter(c *engine.Chooser, s circ.CKKSSpec, logSlots int) *adapter[complex128] {
	name := fmt.Sprintf("%s-slots%d", s.String(), 1<<logSlots)
	a, ok := ckksA[name]
	if !ok {
		a = ckksAdapter(getCKKS(c, s), logSlots)
		ckksA[name] = a
	}
	return a
}

func getBGVAdapter(c *engine.Chooser, s circ.BGVSpec) *adapter[uint64] {
	a, ok := bgvA[s.String()]
	if !ok {
		a = bgvAdapter(getBGV(c, s))
		bgvA[s.String()] = a
	}
	return a
}

func ckksTarget(s circ.CKKSSpec, logSlots int) target {
	return target{name: fmt.Sprintf("%s-slots%d", s.String(), 1<<logSlots), n: 1 << logSlots, leaf: func(c *engine.Chooser, sc string, cfg *scenarioCfg) {
		runLeaf(c, getCKKSAdapter(c, s, logSlots), sc, cfg)
	}}
}

func targets(tier string) []target {
	ts := []target{
		// BGV 2x8 (t=97: every slot value is small; 4 Q primes of 30 bits, 2 P primes)
		bgvTarget(circ.BGVSpec{LogN: 4, NQ: 4, QBits: 30, NP: 2, PBits: 30, T: 97}),
		// BGV 2x16 (t=65537, 5 Q primes of 45 bits, 2 P primes of 50 bits)
		bgvTarget(circ.BGVSpec{LogN: 5, NQ: 5, QBits: 45, NP: 2, PBits: 50, T: 65537}),
		// CKKS 8 complex slots (full packing)
		ckksTarget(circ.CKKSSpec{LogN: 4, NQ: 4, Q0Bits: 50, QBits: 40, NP: 2, PBits: 50, LogScale: 40}, 3),
		// CKKS 16 complex slots (full packing), 30-bit scale
		ckksTarget(circ.CKKSSpec{LogN: 5, NQ: 5, Q0Bits: 45, QBits: 30, NP: 2, PBits: 46, LogScale: 30}, 4),
		// CKKS sparse packing: 4 slots in a ring with 16
		ckksTarget(circ.CKKSSpec{LogN: 5, NQ: 5, Q0Bits: 45, QBits: 30, NP: 2, PBits: 46, LogScale: 30}, 2),
		// CKKS conjugate-invariant ring: 16 real slots
		ckksTarget(circ.CKKSSpec{LogN: 4, NQ: 4, Q0Bits: 55, QBits: 45, NP: 1, PBits: 56, LogScale: 45, CI: true}, 4),
	}
	// sparse packing, 8 and 2 slots in a ring with 16; three P primes with 5 Q primes (#P does not divide #Q; LevelP 0..2)
	sp8 := ckksTarget(circ.CKKSSpec{LogN: 5, NQ: 5, Q0Bits: 45, QBits: 30, NP: 2, PBits: 46, LogScale: 30}, 3)
	sp8.lite = true
	sp2 := ckksTarget(circ.CKKSSpec{LogN: 5, NQ: 5, Q0Bits: 45, QBits: 30, NP: 2, PBits: 46, LogScale: 30}, 1)
	sp2.lite = true
	p3b := bgvTarget(circ.BGVSpec{LogN: 4, NQ: 5, QBits: 36, NP: 3, PBits: 37, T: 97})
	p3b.lite = true
	p3c := ckksTarget(circ.CKKSSpec{LogN: 4, NQ: 5, Q0Bits: 50, QBits: 40, NP: 3, PBits: 51, LogScale: 40}, 3)
	p3c.lite = true
	ts = append(ts, sp8, sp2, p3b, p3c)
	// BGV 2x16 with 60-bit Q primes and one 61-bit P prime: the lazy accumulations of the evaluation run
	// with the smallest overflow margins (QiOverflowMargin = 16), and LevelP = 0 takes the single-P gadget product
	big := bgvTarget(circ.BGVSpec{LogN: 5, NQ: 3, QBits: 60, NP: 1, PBits: 61, T: 65537})
	big.lite = true
	ts = append(ts, big)
	// BGV 2x64, 60-bit Q primes, dense matrices: baby-step loops of 16 terms exceed the overflow margin (8 lazy
	// products) so the mid-loop reductions of the lazy accumulators are needed for a correct result
	big7 := bgvTarget(circ.BGVSpec{LogN: 7, NQ: 3, QBits: 60, NP: 1, PBits: 61, T: 65537})
	big7.lite, big7.dense = true, true
	ts = append(ts, big7)
	// Lazy-accumulation margins (QiOverF / PiOverF): a 60-bit q0 followed by 45-bit primes (the margin is governed by the
	// LARGEST prime up to the level, not by the level's own prime), 128 slots, dense bands of 96..128 consecutive diagonals
	// at ratios that give N1 = 16 and 32 baby steps per giant step, evaluated at every level, BSGS and not.
	mb := bgvTarget(circ.BGVSpec{LogN: 8, NQ: 4, Q0Bits: 60, QBits: 45, NP: 1, PBits: 61, T: 65537})
	mb.lite, mb.margin, mb.ratios = true, true, []int{-1, 3, 4, 5}
	mc := ckksTarget(circ.CKKSSpec{LogN: 8, NQ: 4, Q0Bits: 60, QBits: 45, NP: 1, PBits: 61, LogScale: 45}, 7)
	mc.lite, mc.margin, mc.ratios = true, true, []int{-1, 3, 4, 5}
	// the same with the 60-bit prime at level 1 (a level whose prime is larger than every prime below it)
	mb1 := bgvTarget(circ.BGVSpec{LogN: 8, NQ: 4, Q0Bits: 60, QBits: 45, NP: 1, PBits: 61, T: 65537, BigAt: 1})
	mb1.lite, mb1.margin, mb1.ratios = true, true, []int{-1, 4, 5}
	mc1 := ckksTarget(circ.CKKSSpec{LogN: 8, NQ: 4, Q0Bits: 60, QBits: 45, NP: 1, PBits: 61, LogScale: 45, BigAt: 1}, 7)
	mc1.lite, mc1.margin, mc1.ratios = true, true, []int{-1, 4, 5}
	// plaintext moduli of 40 and 60 bits: scales are large residues mod t (products exceed 2^64 as integers)
	t40 := bgvTarget(circ.BGVSpec{LogN: 4, NQ: 5, QBits: 55, NP: 2, PBits: 56, T: ref.PrimesNear(1<<40, 64, 1, false)[0]})
	t40.lite = true
	t60 := bgvTarget(circ.BGVSpec{LogN: 4, NQ: 6, QBits: 61, NP: 1, PBits: 61, T: ref.PrimesNear(1<<60, 64, 1, true)[0]})
	t60.lite = true
	ts = append(ts, t40, t60)
	// first in the list: few, expensive leaves that should run before an internal deadline can strike on a loaded machine
	ts = append([]target{mb, mc, mb1, mc1}, ts...)
	if tier == "thorough" {
		// n = 32: structured sets only
		b6 := bgvTarget(circ.BGVSpec{LogN: 6, NQ: 4, QBits: 45, NP: 2, PBits: 50, T: 65537})
		b6.lite = true
		c6 := ckksTarget(circ.CKKSSpec{LogN: 6, NQ: 4, Q0Bits: 50, QBits: 40, NP: 2, PBits: 51, LogScale: 40}, 5)
		c6.lite = true
		ts = append(ts, b6, c6)
	}
	return ts
}

func toSets(prefix string, ss [][]int) []diagSet {
	r := make([]diagSet, len(ss))
	for i, s := range ss {
		r[i] = diagSet{prefix, s}
	}
	return r
}

func scenarios(tier string) []engine.Scenario {
	var scs []engine.Scenario
	maxSize := 3
	for _, tg := range targets(tier) {
		tg := tg
		ratios := ratioCycle
		if tg.ratios != nil {
			ratios = tg.ratios
		}
		for _, ratio := range ratios {
			ratio := ratio
			var add func(family string, sets []diagSet, bound int, entries []int)
			// families are split into scenarios of similar cost (the engine distributes scenarios, not leaves)
			addSplit := func(family string, sets []diagSet, bound int, entries []int) {
				per := map[int]int{0: 1, 1: 15, 2: 100}[bound] * len(entries)
				chunk := 6000/per + 1
				if len(sets) <= chunk {
					add(family, sets, bound, entries)
					return
				}
				for lo, part := 0, 0; lo < len(sets); lo, part = lo+chunk, part+1 {
					hi := lo + chunk
					if hi > len(sets) {
						hi = len(sets)
					}
					add(fmt.Sprintf("%s.%d", family, part), sets[lo:hi], bound, entries)
				}
			}
			add = func(family string, sets []diagSet, bound int, entries []int) {
				if len(sets) == 0 {
					return
				}
				cfg := &scenarioCfg{sets: sets, ratio: ratio, entries: entries}
				name := fmt.Sprintf("%s/%s/ratio%d", tg.name, family, ratio)
				scs = append(scs, engine.Scenario{Name: name, Bound: bound, Fn: func(c *engine.Chooser) { tg.leaf(c, name, cfg) }})
			}
			// EVERY subset of (-n,n) of each size, one scenario per size (similar cost per scenario).
			// Secondary axes (levels, scales, receiver, buffers, key level) under a deviation bound that
			// shrinks as the family grows: the BSGS split depends on (set, ratio, n), not on them.
			thorough := tier == "thorough"
			coreEntries := []int{eEvaluateNew, eEvaluate, eMany2, eSeqNew2}
			for size := 1; size <= maxSize && !tg.lite; size++ {
				sets := subsetsOfSize(tg.n, size)
				bound, entries := 1, allEntries
				switch {
				case size <= 2 && tg.n <= 8:
					bound = 2 // quick and thorough
				case thorough && size <= 3 && tg.n <= 8:
					bound = 2
				case thorough && size == 1:
					bound = 2
				case !thorough && size == 2 && tg.n >= 16:
					bound, entries = 0, coreEntries
				case size == 3 && tg.n >= 16 && !thorough:
					bound, entries = 0, []int{eEvaluateNew}
				case size == 3 && tg.n >= 16:
					bound, entries = 1, coreEntries
				case size == 3 && !thorough:
					bound, entries = 0, coreEntries
				}
				addSplit(fmt.Sprintf("subsets%d", size), toSets("sub", sets), bound, entries)
			}
			if tg.margin {
				var all, band, bandNeg []int
				for k := 0; k < tg.n; k++ {
					all = append(all, k)
					if k < 3*tg.n/4 {
						band = append(band, k)
						bandNeg = append(bandNeg, k-tg.n/4)
					}
				}
				add("margin", []diagSet{{"all", all}, {"band", band}, {"band-neg", bandNeg}}, 1, []int{eEvaluateNew, eMany2})
			} else if tg.dense {
				var ds []diagSet
				for _, d := range structuredSets(tg.n) {
					if len(d.idx) >= tg.n/2-1 {
						ds = append(ds, d)
					}
				}
				add("dense", ds, 0, []int{eEvaluateNew, eEvaluate, eMany2, eSeqNew2})
			} else if tier == "thorough" {
				addSplit("structured", structuredSets(tg.n), 2, allEntries)
			} else {
				addSplit("structured", structuredSets(tg.n), 1, allEntries)
			}
			if tier == "thorough" && tg.n == 8 && !tg.lite {
				addSplit("powerset", toSets("pow", powerSetNonNeg(8)), 2, allEntries)
			}
		}
	}
	// the special scenarios are few and cheap: first, so that an internal deadline on a loaded machine cannot cut them off
	scs = append(specialScenarios(tier), scs...)
	return scs
}

func main() {
	engine.Main(engine.Check{
		ID:    "C12",
		Level: "exploration",
		Rule: "One scenario = scheme/parameter set/packing × family of diagonal index sets × LogBabyStepGiantStepRatio. A leaf = one index set × entry point " +
			"(Evaluate, EvaluateNew, EvaluateMany[New] on 1-3 matrices, EvaluateSequential[New] on 2) × (LevelQ of the transformation, ciphertext level above/equal/below, LevelP, " +
			"receiver kind, encoding scale, input scale, fresh/reused evaluator buffers, key level) under the stated deviation bound on the secondary axes. Index sets: EVERY subset of (-n,n) " +
			"of size <=2 (quick) / <=3 (thorough) with indices distinct modulo n, every subset of {0..7} (thorough), structured sets, out-of-range indices, all permutations of 4 slots. " +
			"Diagonal contents and the input are ramps with distinct values in every slot of every packed row. Keys are generated from exactly the advertised Galois elements. " +
			"Oracle: own matrix-vector product from the diagonal definition, exact mod t (BGV) / within a worst-case ε (CKKS); level and scale as documented.",
		Assumptions: []string{
			"diagonal indices of one matrix are distinct modulo the dimension n (two indices congruent mod n would name one diagonal twice)",
			"BGV: noise stays within budget (LevelQ >= 1 for one product, enough levels for the rescalings of EvaluateSequential)",
			"CKKS ε: truncated-Gaussian error bound params.NoiseBound(), ternary secret, secret-key encryption; worst-case (not statistical) propagation × safety factor 16",
			"LevelP of the transformation equals the LevelP of the Galois keys; LevelP >= 0 (at least one special prime)",
			"receivers of EvaluateMany are distinct from the input and from each other",
		},
		Scenarios:      scenarios,
		QuickBudget:    140 * time.Second,
		ThoroughBudget: 25 * time.Minute,
		Expect: func(tier string) []string {
			e := []string{"algo=naive", "algo=bsgs", "index=negative", "index=positive", "index=zero",
				"ltLevelQ=max", "ltLevelQ=max-1", "ltLevelQ=lowest", "levelP=max", "levelP=max-1",
				"ctLevel=above-lt", "ctLevel=equal-lt", "ctLevel=below-lt", "ltScale=true", "ltScale=false", "ctScale=true", "ctScale=false",
				"evaluator=fresh", "evaluator=reused", "evaluator=late-keys", "repeat=yes", "nDiags=3", "levelP=lowest3", "nDiags=1", "nDiags=2", "nDiags=all", "checked=sequential", "checked=many1", "checked=many2", "checked=many3",
				"N1=1", "N1=2", "N1=4", "N1=8", "N1=16", "N1=32", "bgv-t=>2^32", "many-sequence=3", "many-sequence=A,B,A", "high-precision-encoder=original", "diagonal-type=ckks/*big.Float/prec90", "diagonal-type=ckks/*bignum.Complex/prec90", "diagonal-type=ckks/float64/prec53", "diagonal-type=bgv/int64", "diagonal-type=bgv/uint64", "high-precision-encoder=shallow-copy", "refusal=missing-galois-key", "encode-mismatch=superset/naive", "encode-mismatch=superset/bsgs", "encode-mismatch=subset/naive", "perm=all-of-4", "perm=family-8", "special=out-of-range-index", "special=empty-diagonal-set", "class=naive-only-diagonal-0", "class=EvaluateMany-after-giant-step", "many=no-earlier-giant-step"}
			for _, r := range ratioCycle {
				e = append(e, fmt.Sprintf("ratio=%d", r))
			}
			for _, s := range []string{"bgv", "ckks", "ckks-ci"} {
				for _, en := range entryName {
					e = append(e, "entry="+s+"/"+en)
				}
			}
			return e
		},
	})
}
