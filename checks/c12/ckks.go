package main

import (
	"fmt"
	"math"
	"math/big"
	"math/cmplx"

	ckkslt "github.com/tuneinsight/lattigo/v6/circuits/ckks/lintrans"
	"github.com/tuneinsight/lattigo/v6/circuits/common/lintrans"
	"github.com/tuneinsight/lattigo/v6/core/rlwe"
	"github.com/tuneinsight/lattigo/v6/schemes/ckks"

	"verif/engine"
	"verif/lib/circ"
)

// ckksEval adapts circuits/ckks/lintrans.Evaluator to ltEval.
type ckksEval struct{ e *ckkslt.Evaluator }

func ckksLTs(l []lintrans.LinearTransformation) []ckkslt.LinearTransformation {
	r := make([]ckkslt.LinearTransformation, len(l))
	for i := range l {
		r[i] = ckkslt.LinearTransformation(l[i])
	}
	return r
}
func (b ckksEval) Evaluate(ct *rlwe.Ciphertext, lt lintrans.LinearTransformation, out *rlwe.Ciphertext) error {
	return b.e.Evaluate(ct, ckkslt.LinearTransformation(lt), out)
}
func (b ckksEval) EvaluateNew(ct *rlwe.Ciphertext, lt lintrans.LinearTransformation) (*rlwe.Ciphertext, error) {
	return b.e.EvaluateNew(ct, ckkslt.LinearTransformation(lt))
}
func (b ckksEval) EvaluateMany(ct *rlwe.Ciphertext, lts []lintrans.LinearTransformation, out []*rlwe.Ciphertext) error {
	return b.e.EvaluateMany(ct, ckksLTs(lts), out)
}
func (b ckksEval) EvaluateManyNew(ct *rlwe.Ciphertext, lts []lintrans.LinearTransformation) ([]*rlwe.Ciphertext, error) {
	return b.e.EvaluateManyNew(ct, ckksLTs(lts))
}
func (b ckksEval) EvaluateSequential(ct *rlwe.Ciphertext, lts []lintrans.LinearTransformation, out *rlwe.Ciphertext) error {
	return b.e.EvaluateSequential(ct, ckksLTs(lts), out)
}
func (b ckksEval) EvaluateSequentialNew(ct *rlwe.Ciphertext, lts []lintrans.LinearTransformation) (*rlwe.Ciphertext, error) {
	return b.e.EvaluateSequentialNew(ct, ckksLTs(lts))
}

// safety is the explicit safety factor applied on top of the worst-case error model (DESIGN §8.1).
const safety = 16

// ckksAdapter: logSlots < LogMaxSlots is sparse packing. real: real-valued slots (conjugate-invariant ring).
func ckksAdapter(w *circ.CKKS, logSlots int) *adapter[complex128] {
	p := w.Params
	n := 1 << logSlots
	isReal := w.Spec.CI
	z := circ.NoiseOf(p.Parameters)
	a := &adapter[complex128]{
		scheme: "ckks", world: w.Spec.String(), params: p.Parameters, rows: 1, n: n, logN: logSlots,
		maxLevel: p.MaxLevel(), maxLvlP: p.MaxLevelP(), sk: w.Sk,
		f: field[complex128]{zero: 0,
			add: func(x, y complex128) complex128 { return x + y },
			mul: func(x, y complex128) complex128 { return x * y },
			abs: func(x complex128) float64 { return cmplx.Abs(x) }},
	}
	if isReal {
		a.scheme = "ckks-ci"
	}
	fn := float64(n)
	// distinct values in every slot, |v| <= 1.5
	a.input = func() []complex128 {
		v := make([]complex128, n)
		for i := range v {
			re := -1 + (2*float64(i)+1)/fn
			im := 0.5 - float64((3*i)%n)/fn
			if isReal {
				im = 0
			}
			v[i] = complex(re, im)
		}
		return v
	}
	// ramps depending on diagonal and matrix, |d| <= 1.5
	a.diag = func(m, r int) []complex128 {
		d := make([]complex128, n)
		for i := range d {
			re := 0.25 + 0.75*float64((i+3*r+m)%n)/fn + 0.03125*float64(r)
			im := -0.5 + 0.125*float64((5*i+r+2*m)%7)
			if isReal {
				im = 0
			}
			d[i] = complex(re, im)
		}
		return d
	}
	def := p.DefaultScale()
	a.ctScale = func(alt bool) rlwe.Scale {
		if alt {
			return rlwe.NewScale(circ.ScaleF(def)*1.5 + 1) // not a power of two
		}
		return def
	}
	a.ltScale = func(alt bool) rlwe.Scale {
		if alt {
			return rlwe.NewScale(circ.ScaleF(def)*0.375 + 3)
		}
		return def
	}
	a.encrypt = func(v []complex128, level int, scale rlwe.Scale) *rlwe.Ciphertext {
		return w.Encrypt(v, logSlots, level, scale)
	}
	a.newCt = func(level int) *rlwe.Ciphertext { return ckks.NewCiphertext(p, 1, level) }
	a.newLT = func(c *engine.Chooser, lp lintrans.Parameters, diags map[int][]complex128) (lintrans.LinearTransformation, []uint64, error) {
		lt := ckkslt.NewTransformation(p, ckkslt.Parameters(lp))
		if err := ckkslt.Encode(w.Ecd, ckkslt.Diagonals[complex128](diags), lt); err != nil {
			return lintrans.LinearTransformation(lt), nil, err
		}
		// the documented way to obtain the keys: lintrans.GaloisElements(params, ltparams)
		gals := ckkslt.GaloisElements(p, ckkslt.Parameters(lp))
		if g2 := lt.GaloisElements(p); !sameGalSet(gals, g2) {
			c.Fail("C12/ckks/GaloisElements/method-vs-function", "idx=%v ratio=%d: GaloisElements(params, ltparams)=%v, lt.GaloisElements=%v",
				lp.DiagonalsIndexList, lp.LogBabyStepGiantStepRatio, gals, g2)
		}
		return lintrans.LinearTransformation(lt), gals, nil
	}
	tmpl := ckks.NewEvaluator(p, nil)
	a.newEval = func(evk rlwe.EvaluationKeySet) (ltEval, func(rlwe.EvaluationKeySet) ltEval) {
		base := tmpl.ShallowCopy().WithKey(evk) // own, zeroed buffers
		return ckksEval{ckkslt.NewEvaluator(base)}, func(e2 rlwe.EvaluationKeySet) ltEval {
			return ckksEval{ckkslt.NewEvaluator(base.WithKey(e2))}
		}
	}
	a.fromScale = func(s rlwe.Scale) xscale { return xscale{f: circ.BigScale(s)} }
	a.mulScale = func(x xscale, b rlwe.Scale) xscale {
		return xscale{f: new(big.Float).SetPrec(256).Mul(x.f, circ.BigScale(b))}
	}
	// ckks.Evaluator.Rescale: "divides op0 by the last prime of the moduli chain" (one prime per rescaling
	// in the default precision mode): scale / q_level
	a.rescaleScale = func(x xscale, level int) xscale {
		q := new(big.Float).SetPrec(256).SetUint64(p.Q()[level])
		return xscale{f: new(big.Float).SetPrec(256).Quo(x.f, q)}
	}
	a.scaleOK = func(got rlwe.Scale, want xscale) bool { return circ.ScaleClose(got, want.f) }
	a.decode = func(ct *rlwe.Ciphertext, want xscale) []complex128 {
		return w.Decode(ct, logSlots, rlwe.NewScale(want.f))
	}
	a.equal = func(g, x complex128, eps float64) bool { return cmplx.Abs(g-x) <= eps }
	a.show = func(v []complex128) string {
		s := "["
		for i, x := range v {
			if i > 0 {
				s += " "
			}
			s += fmt.Sprintf("%.6f%+.6fi", real128(x), imag(x))
		}
		return s + "]"
	}

	// ---- error model (message domain, worst case from declared supports; see lib/circ.KeySwitch) ----
	//
	// A coefficient-domain error polynomial e contributes at most z.Embed*|e|_inf / scale to any slot.
	a.freshErr = func(scale rlwe.Scale) float64 { return z.Embed * z.Fresh() / circ.ScaleF(scale) }
	// One transformation  out = sum_k d_k ⊙ rot_k(v):
	//   * the input error errIn and the key-switch noise of the (hoisted) rotation, E_ks/Δ_in, are multiplied
	//     slot-wise by the encoded diagonal: |d_k| * (errIn + ks)
	//   * the encoded diagonal is rounded to integer coefficients (<= 1 with float slop): slot error
	//     δ_d = Embed/Δ_lt, multiplied by the (noisy) rotated input: (|v| + errIn + ks) * δ_d
	//   * each giant step and the final division by P add key-switch / rounding noise at the OUTPUT scale
	//     Δ_in*Δ_lt: (giant+1) * Embed * E_ks / (Δ_in*Δ_lt)
	//   * the reference itself is computed in float64: 2^-40 relative slack
	a.ltErr = func(errIn, vmax float64, dmax []float64, scaleIn xscale, ltScale rlwe.Scale, levelQ, levelP, giant int) float64 {
		din, _ := scaleIn.f.Float64()
		dlt := circ.ScaleF(ltScale)
		eks := circ.KeySwitch(p.Parameters, levelQ, levelP)
		ks := z.Embed * eks / din
		dd := z.Embed / dlt
		sum := 0.0
		mag := 0.0
		for _, d := range dmax {
			sum += d*(errIn+ks) + (vmax+errIn+ks)*dd
			mag += d * vmax
		}
		sum += float64(giant+1) * z.Embed * eks / (din * dlt)
		return safety*sum + mag*math.Exp2(-40)
	}
	a.rescaleErr = func(after xscale) float64 {
		f, _ := after.f.Float64()
		return safety * z.Embed * z.Rescale() / f
	}
	return a
}

func real128(x complex128) float64 { return real(x) }
