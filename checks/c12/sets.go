package main

import "sort"

// A diagSet is one set of non-zero diagonal indices, as a user would pass it in
// lintrans.Parameters.DiagonalsIndexList (and as keys of lintrans.Diagonals).
type diagSet struct {
	name string
	idx  []int
}

// distinctModN reports whether all indices are distinct modulo n. Two indices that are congruent
// modulo n name the SAME diagonal twice (e.g. 3 and 3-n): the matrix is then not well defined
// (which content wins?), so such sets are not generated.
func distinctModN(idx []int, n int) bool {
	seen := map[int]bool{}
	for _, k := range idx {
		r := ((k % n) + n) % n
		if seen[r] {
			return false
		}
		seen[r] = true
	}
	return true
}

// subsetsUpTo returns EVERY subset of the open interval (-n, n) with 1..k elements whose indices are
// distinct modulo n, in lexicographic order of the sorted index list.
func subsetsUpTo(n, k int) [][]int {
	var all []int
	for i := -(n - 1); i <= n-1; i++ {
		all = append(all, i)
	}
	var out [][]int
	var rec func(start int, cur []int)
	rec = func(start int, cur []int) {
		if len(cur) > 0 && distinctModN(cur, n) {
			out = append(out, append([]int(nil), cur...))
		}
		if len(cur) == k {
			return
		}
		for i := start; i < len(all); i++ {
			rec(i+1, append(cur, all[i]))
		}
	}
	rec(0, nil)
	return out
}

// subsetsOfSize filters subsetsUpTo to one size.
func subsetsOfSize(n, size int) [][]int {
	var r [][]int
	for _, s := range subsetsUpTo(n, size) {
		if len(s) == size {
			r = append(r, s)
		}
	}
	return r
}

// powerSetNonNeg returns every non-empty subset of {0..n-1} (2^n - 1 sets), by bit mask order.
func powerSetNonNeg(n int) [][]int {
	var out [][]int
	for m := 1; m < 1<<n; m++ {
		var s []int
		for b := 0; b < n; b++ {
			if m>>b&1 == 1 {
				s = append(s, b)
			}
		}
		out = append(out, s)
	}
	return out
}

// structuredSets: identity, every single shift ±k, all diagonals (non-negative form, negative form and
// mixed-sign form), a test-suite style mixed list, "every other" and the two extreme pairs.
func structuredSets(n int) []diagSet {
	var r []diagSet
	r = append(r, diagSet{"identity", []int{0}})
	for k := 1; k < n; k++ {
		r = append(r, diagSet{"shift+" + itoa(k), []int{k}})
		r = append(r, diagSet{"shift-" + itoa(k), []int{-k}})
	}
	var all, allNeg, allMixed, even, odd []int
	for k := 0; k < n; k++ {
		all = append(all, k)
		if k == 0 {
			allNeg = append(allNeg, 0)
		} else {
			allNeg = append(allNeg, -k)
		}
		if k%2 == 0 {
			allMixed = append(allMixed, k)
			even = append(even, k)
		} else {
			allMixed = append(allMixed, k-n)
			odd = append(odd, k)
		}
	}
	r = append(r, diagSet{"all", all}, diagSet{"allneg", allNeg}, diagSet{"allmixed", allMixed},
		diagSet{"even", even}, diagSet{"odd", odd})
	// the repository's own list {-15,-4,-1,0,1,2,3,4,15} has collisions modulo n<=16; keep its shape
	// (a band around 0 plus far diagonals of both signs) with indices distinct modulo n.
	band := []int{-(n - 2), -1, 0, 1, 2, n/2 + 1}
	if distinctModN(band, n) {
		r = append(r, diagSet{"band", band})
	}
	r = append(r, diagSet{"ends", []int{-(n - 1), n - 1}})
	r = append(r, diagSet{"allbut0", all[1:]})
	// indices of one set must be distinct modulo n (n = 2: {-1, 1} names diagonal 1 twice)
	var ok []diagSet
	for _, d := range r {
		if distinctModN(d.idx, n) {
			ok = append(ok, d)
		}
	}
	return ok
}

// outOfRangeSets: indices >= n and <= -n (normalisation modulo the dimension).
func outOfRangeSets(n int) []diagSet {
	return []diagSet{
		{"n", []int{n}}, {"n+2", []int{n + 2}}, {"-n", []int{-n}}, {"-n-3", []int{-n - 3}},
		{"0,n+1", []int{0, n + 1}}, {"1,-n-2", []int{1, -n - 2}}, {"2n+1", []int{2*n + 1}}, {"-2n-1", []int{-2*n - 1}},
	}
}

func itoa(k int) string {
	if k == 0 {
		return "0"
	}
	s := ""
	neg := k < 0
	if neg {
		k = -k
	}
	for k > 0 {
		s = string(rune('0'+k%10)) + s
		k /= 10
	}
	if neg {
		s = "-" + s
	}
	return s
}

func sortedCopy(a []int) []int {
	b := append([]int(nil), a...)
	sort.Ints(b)
	return b
}

// permutations of {0..k-1} in lexicographic order.
func permutations(k int) [][]int {
	var out [][]int
	p := make([]int, k)
	for i := range p {
		p[i] = i
	}
	var rec func(i int)
	rec = func(i int) {
		if i == k {
			out = append(out, append([]int(nil), p...))
			return
		}
		for j := i; j < k; j++ {
			p[i], p[j] = p[j], p[i]
			rec(i + 1)
			p[i], p[j] = p[j], p[i]
		}
	}
	rec(0)
	sort.Slice(out, func(a, b int) bool {
		for i := range out[a] {
			if out[a][i] != out[b][i] {
				return out[a][i] < out[b][i]
			}
		}
		return false
	})
	return out
}
