package main

import (
	"fmt"
	"math/bits"

	bgvlt "github.com/tuneinsight/lattigo/v6/circuits/bgv/lintrans"
	"github.com/tuneinsight/lattigo/v6/circuits/common/lintrans"
	"github.com/tuneinsight/lattigo/v6/core/rlwe"
	"github.com/tuneinsight/lattigo/v6/schemes/bgv"

	"verif/engine"
	"verif/lib/circ"
	"verif/ref"
)

// bgvEval adapts circuits/bgv/lintrans.Evaluator to ltEval.
type bgvEval struct{ e *bgvlt.Evaluator }

func bgvLTs(l []lintrans.LinearTransformation) []bgvlt.LinearTransformation {
	r := make([]bgvlt.LinearTransformation, len(l))
	for i := range l {
		r[i] = bgvlt.LinearTransformation(l[i])
	}
	return r
}
func (b bgvEval) Evaluate(ct *rlwe.Ciphertext, lt lintrans.LinearTransformation, out *rlwe.Ciphertext) error {
	return b.e.Evaluate(ct, bgvlt.LinearTransformation(lt), out)
}
func (b bgvEval) EvaluateNew(ct *rlwe.Ciphertext, lt lintrans.LinearTransformation) (*rlwe.Ciphertext, error) {
	return b.e.EvaluateNew(ct, bgvlt.LinearTransformation(lt))
}
func (b bgvEval) EvaluateMany(ct *rlwe.Ciphertext, lts []lintrans.LinearTransformation, out []*rlwe.Ciphertext) error {
	return b.e.EvaluateMany(ct, bgvLTs(lts), out)
}
func (b bgvEval) EvaluateManyNew(ct *rlwe.Ciphertext, lts []lintrans.LinearTransformation) ([]*rlwe.Ciphertext, error) {
	return b.e.EvaluateManyNew(ct, bgvLTs(lts))
}
func (b bgvEval) EvaluateSequential(ct *rlwe.Ciphertext, lts []lintrans.LinearTransformation, out *rlwe.Ciphertext) error {
	return b.e.EvaluateSequential(ct, bgvLTs(lts), out)
}
func (b bgvEval) EvaluateSequentialNew(ct *rlwe.Ciphertext, lts []lintrans.LinearTransformation) (*rlwe.Ciphertext, error) {
	return b.e.EvaluateSequentialNew(ct, bgvLTs(lts))
}

// sameGalSet: both lists as sets.
func sameGalSet(a, b []uint64) bool {
	m := map[uint64]int{}
	for _, x := range a {
		m[x] |= 1
	}
	for _, x := range b {
		m[x] |= 2
	}
	for _, v := range m {
		if v != 3 {
			return false
		}
	}
	return true
}

func bgvAdapter(w *circ.BGV) *adapter[uint64] {
	t := w.T
	p := w.Params
	n := p.MaxSlots() / 2
	bigT := t > 1<<32 // plaintext modulus above 2^32
	a := &adapter[uint64]{
		scheme: "bgv", world: w.Spec.String(), params: p.Parameters, rows: 2, n: n, logN: p.LogMaxSlots() - 1,
		maxLevel: p.MaxLevel(), maxLvlP: p.MaxLevelP(), sk: w.Sk,
		f: field[uint64]{zero: 0,
			add: func(x, y uint64) uint64 { return ref.AddMod(x, y, t) },
			mul: func(x, y uint64) uint64 { return ref.MulMod(x, y, t) },
			abs: func(x uint64) float64 { return float64(x) }},
	}
	// distinct values in every slot of both rows (2n <= 32 < t)
	a.input = func() []uint64 {
		v := make([]uint64, 2*n)
		for i := range v {
			v[i] = (2 + 3*uint64(i)) % t
			if bigT && i%2 == 1 {
				v[i] = t - 1 - 3*uint64(i) // large residues too
			}
		}
		return v
	}
	// ramps with a slope and offset that depend on the diagonal and the matrix, different on the two rows
	a.diag = func(m, r int) []uint64 {
		d := make([]uint64, 2*n)
		for i := range d {
			d[i] = (1 + 7*uint64(r+1) + uint64(i)*uint64(2*r+3) + 31*uint64(m)) % t
			if d[i] == 0 {
				d[i] = 1
			}
		}
		return d
	}
	a.ctScale = func(alt bool) rlwe.Scale {
		switch {
		case bigT && alt:
			return rlwe.NewScaleModT(uint64(1<<32+7), t)
		case bigT:
			// plaintext modulus above 2^32: scales are LARGE residues in every leaf (their product exceeds 2^64 as integers)
			return rlwe.NewScaleModT(t-1, t)
		case alt:
			return rlwe.NewScaleModT(5, t)
		}
		return p.DefaultScale()
	}
	a.ltScale = func(alt bool) rlwe.Scale {
		switch {
		case bigT && alt:
			return rlwe.NewScaleModT(uint64(1<<32), t)
		case bigT:
			return rlwe.NewScaleModT(t-2, t)
		case alt:
			return rlwe.NewScaleModT(3, t)
		}
		return p.DefaultScale()
	}
	if bigT {
		// noise budget of one product: about 2 log2(t) + log2(N) + 14 bits; levels below are out of scope
		need := 2*bits.Len64(t) + p.LogN() + 14
		logQ := func(level int) int { return p.RingQ().ModulusAtLevel[level].BitLen() }
		for a.minEvalLevel = 1; logQ(a.minEvalLevel) < need+2 && a.minEvalLevel < p.MaxLevel(); a.minEvalLevel++ {
		}
	}
	a.encrypt = func(v []uint64, level int, scale rlwe.Scale) *rlwe.Ciphertext {
		return w.Encrypt(v, level, scale.Uint64())
	}
	a.newCt = func(level int) *rlwe.Ciphertext { return bgv.NewCiphertext(p, 1, level) }
	a.newLT = func(c *engine.Chooser, lp lintrans.Parameters, diags map[int][]uint64) (lintrans.LinearTransformation, []uint64, error) {
		lt := bgvlt.NewLinearTransformation(p, bgvlt.Parameters(lp))
		if err := bgvlt.Encode(w.Ecd, bgvlt.Diagonals[uint64](diags), lt); err != nil {
			return lintrans.LinearTransformation(lt), nil, err
		}
		gals := lt.GaloisElements(p)
		// the package-level advertisement computed from the parameters alone must name the same keys
		g2 := lintrans.GaloisElements(p, lp.DiagonalsIndexList, 1<<lp.LogDimensions.Cols, lp.LogBabyStepGiantStepRatio)
		if !sameGalSet(gals, g2) {
			c.Fail("C12/bgv/GaloisElements/method-vs-function", "idx=%v ratio=%d: LinearTransformation.GaloisElements=%v, lintrans.GaloisElements=%v",
				lp.DiagonalsIndexList, lp.LogBabyStepGiantStepRatio, gals, g2)
		}
		return lintrans.LinearTransformation(lt), g2, nil
	}
	tmpl := bgv.NewEvaluator(p, nil)
	a.newEval = func(evk rlwe.EvaluationKeySet) (ltEval, func(rlwe.EvaluationKeySet) ltEval) {
		base := tmpl.ShallowCopy().WithKey(evk) // own, zeroed buffers
		return bgvEval{bgvlt.NewEvaluator(base)}, func(e2 rlwe.EvaluationKeySet) ltEval {
			return bgvEval{bgvlt.NewEvaluator(base.WithKey(e2))}
		}
	}
	a.fromScale = func(s rlwe.Scale) xscale { return xscale{u: s.Uint64() % t} }
	a.mulScale = func(x xscale, b rlwe.Scale) xscale { return xscale{u: ref.MulMod(x.u, b.Uint64(), t)} }
	// bgv.Evaluator.Rescale: "scale of opOut will be updated to op0.Scale * qi^{-1} mod PlaintextModulus"
	a.rescaleScale = func(x xscale, level int) xscale {
		q := p.Q()[level]
		return xscale{u: ref.MulMod(x.u, ref.InvMod(q%t, t), t)}
	}
	a.scaleOK = func(got rlwe.Scale, want xscale) bool { return got.Uint64()%t == want.u }
	a.decode = func(ct *rlwe.Ciphertext, want xscale) []uint64 { return w.Decode(ct, want.u) }
	a.equal = func(g, x uint64, _ float64) bool { return g == x }
	a.show = func(v []uint64) string { return fmt.Sprint(v) }
	return a
}
