package main

import (
	"fmt"

	bgvlt "github.com/tuneinsight/lattigo/v6/circuits/bgv/lintrans"
	ckkslt "github.com/tuneinsight/lattigo/v6/circuits/ckks/lintrans"
	"github.com/tuneinsight/lattigo/v6/circuits/common/lintrans"

	"verif/engine"
	"verif/lib/circ"
)

// specialScenarios: index normalisation outside (-n,n), the empty diagonal set, and Permutation.GetDiagonals.
func specialScenarios(tier string) []engine.Scenario {
	var scs []engine.Scenario
	tgs := targets(tier)
	for _, tg := range smallTargets(tgs) { // BGV 2x8 and CKKS 8 slots
		tg := tg
		for _, ratio := range ratioCycle {
			ratio := ratio
			{
				cfg := &scenarioCfg{sets: outOfRangeSets(tg.n), ratio: ratio, entries: []int{eEvaluateNew, eEvaluate, eMany2}, tag: "out-of-range-index"}
				name := fmt.Sprintf("%s/out-of-range/ratio%d", tg.name, ratio)
				scs = append(scs, engine.Scenario{Name: name, Bound: 1, Fn: func(c *engine.Chooser) { tg.leaf(c, name, cfg) }})
			}
			{
				cfg := &scenarioCfg{sets: []diagSet{{"empty", nil}}, ratio: ratio, entries: []int{eEvaluateNew, eEvaluate}, tag: "empty-diagonal-set"}
				name := fmt.Sprintf("%s/empty/ratio%d", tg.name, ratio)
				scs = append(scs, engine.Scenario{Name: name, Bound: 1, Fn: func(c *engine.Chooser) { tg.leaf(c, name, cfg) }})
			}
		}
	}
	// dedicated scenarios of the known-defect input classes (see core.go: classNaiveOnlyZero, classManyAfterGiant)
	for _, tg := range smallTargets(tgs) {
		tg := tg
		{
			cfg := &scenarioCfg{sets: []diagSet{{"identity", []int{0}}}, ratio: -1, entries: []int{eEvaluateNew, eEvaluate, eMany1, eSeqNew2}, dedicated: true}
			name := fmt.Sprintf("known-class/%s/naive-only-diagonal-0", tg.name)
			scs = append(scs, engine.Scenario{Name: name, Bound: 1, Fn: func(c *engine.Chooser) { tg.leaf(c, name, cfg) }})
		}
		for _, ratio := range []int{0, 1} {
			ratio := ratio
			cfg := &scenarioCfg{sets: []diagSet{{"one", []int{-3}}, {"two", []int{1, 5}}, {"three", []int{0, 2, 5}}}, ratio: ratio,
				entries: []int{eMany2, eMany3, eManyNew2}, dedicated: true}
			name := fmt.Sprintf("known-class/%s/many-after-giant-step/ratio%d", tg.name, ratio)
			scs = append(scs, engine.Scenario{Name: name, Bound: 0, Fn: func(c *engine.Chooser) { tg.leaf(c, name, cfg) }})
		}
	}
	scs = append(scs, permScenarios(tier)...)
	return scs
}

// smallTargets: the BGV 2x8 and the CKKS 8-slot (full packing) targets, by name.
func smallTargets(tgs []target) []target {
	var r []target
	for _, want := range []string{"bgv-N4-q4x30-p2x30-t97", "ckks-N4-q50+3x40-p2x50-s40-slots8"} {
		for _, tg := range tgs {
			if tg.name == want {
				r = append(r, tg)
			}
		}
	}
	if len(r) != 2 {
		panic("harness: small targets not found")
	}
	return r
}

// ---------------------------------------------------------------------------------------------
// permutations
//
// Doc (circuits/*/lintrans.PermutationMapping): "a mapping: From -> To and a scaling value": the value of
// slot From, multiplied by Scaling, lands in slot To; slots that are not the target of a mapping are zero.

type permCase struct {
	name string
	to   []int // to[from] = destination, -1 = slot not mapped (partial permutation)
}

// permFamily8: rotations, reversal, transpositions, a 3-cycle, two partial ones, on k slots.
func permFamily(k int) []permCase {
	var r []permCase
	id := func() []int {
		p := make([]int, k)
		for i := range p {
			p[i] = i
		}
		return p
	}
	for s := 0; s < k; s++ {
		p := id()
		for i := range p {
			p[i] = (i + s) % k
		}
		r = append(r, permCase{fmt.Sprintf("rot%d", s), p})
	}
	rev := id()
	for i := range rev {
		rev[i] = k - 1 - i
	}
	r = append(r, permCase{"reverse", rev})
	for i := 0; i < k; i++ {
		for j := i + 1; j < k; j++ {
			p := id()
			p[i], p[j] = j, i
			r = append(r, permCase{fmt.Sprintf("swap%d-%d", i, j), p})
		}
	}
	cyc := id()
	cyc[0], cyc[1], cyc[k-1] = 1, k-1, 0
	r = append(r, permCase{"3cycle", cyc})
	part := id()
	for i := range part {
		part[i] = (i*3 + 1) % k
		if i%2 == 1 {
			part[i] = -1
		}
	}
	r = append(r, permCase{"partial-odd-dropped", part})
	one := id()
	for i := range one {
		one[i] = -1
	}
	one[k-1] = 0
	r = append(r, permCase{"single-mapping", one})
	return r
}

func allPerms(k int) []permCase {
	var r []permCase
	for _, p := range permutations(k) {
		r = append(r, permCase{fmt.Sprintf("perm%v", p), p})
		// and the partial version dropping the first mapping
		q := append([]int(nil), p...)
		q[0] = -1
		r = append(r, permCase{fmt.Sprintf("perm%v-partial", p), q})
	}
	return r
}

func permScenarios(tier string) []engine.Scenario {
	var scs []engine.Scenario
	bgvSpec := circ.BGVSpec{LogN: 4, NQ: 4, QBits: 30, NP: 2, PBits: 30, T: 97}
	ckks8 := circ.CKKSSpec{LogN: 4, NQ: 4, Q0Bits: 50, QBits: 40, NP: 2, PBits: 50, LogScale: 40}
	ckks4 := circ.CKKSSpec{LogN: 5, NQ: 5, Q0Bits: 45, QBits: 30, NP: 2, PBits: 46, LogScale: 30}
	for _, ratio := range []int{-1, 0, 1} {
		ratio := ratio
		// CKKS, 4 slots (sparse packing): ALL permutations of 4 slots (+ partial versions)
		{
			name := fmt.Sprintf("perm/ckks-4slots-all/ratio%d", ratio)
			cases := allPerms(4)
			scs = append(scs, engine.Scenario{Name: name, Bound: -1, Fn: func(c *engine.Chooser) {
				pc := cases[c.ChooseFree(len(cases), "perm")]
				c.Cover("perm", "all-of-4")
				permLeafCKKS(c, name, getCKKSAdapter(c, ckks4, 2), 2, pc, ratio)
			}})
		}
		// CKKS, 8 slots: family
		{
			name := fmt.Sprintf("perm/ckks-8slots-family/ratio%d", ratio)
			cases := permFamily(8)
			scs = append(scs, engine.Scenario{Name: name, Bound: -1, Fn: func(c *engine.Chooser) {
				pc := cases[c.ChooseFree(len(cases), "perm")]
				c.Cover("perm", "family-8")
				permLeafCKKS(c, name, getCKKSAdapter(c, ckks8, 3), 3, pc, ratio)
			}})
		}
		// BGV 2x8: family on row 0 × a different member on row 1
		{
			name := fmt.Sprintf("perm/bgv-2x8-family/ratio%d", ratio)
			cases := permFamily(8)
			scs = append(scs, engine.Scenario{Name: name, Bound: -1, Fn: func(c *engine.Chooser) {
				i := c.ChooseFree(len(cases), "perm-row0")
				j := (i*7 + 3) % len(cases) // row 1 gets another member of the family
				c.Cover("perm", "family-8")
				permLeafBGV(c, name, getBGVAdapter(c, bgvSpec), getBGV(c, bgvSpec), [2]permCase{cases[i], cases[j]}, ratio)
			}})
		}
	}
	return scs
}

func permLeafCKKS(c *engine.Chooser, scName string, a *adapter[complex128], logSlots int, pc permCase, ratio int) {
	c.Note("ckks permutation %s to=%v ratio=%d", pc.name, pc.to, ratio)
	n := a.n
	v := a.input()
	want := make([]complex128, n)
	var perm ckkslt.Permutation[complex128]
	for from, to := range pc.to {
		if to < 0 {
			continue
		}
		sc := complex(0.5+0.25*float64(from), -0.125*float64(to+1)) // distinct scaling per mapping
		perm = append(perm, ckkslt.PermutationMapping[complex128]{From: from, To: to, Scaling: sc})
		want[to] = sc * v[from]
	}
	diags := perm.GetDiagonals(logSlots)
	// (1) the diagonals alone, through the reference product
	plain := matvec(a.f, map[int][]complex128(diags), v, 1, n)
	for i := range want {
		if !a.equal(plain[i], want[i], 1e-12) {
			c.Fail("C12/ckks/Permutation.GetDiagonals/value", "%s to=%v: diagonals %v give %s, permutation gives %s", pc.name, pc.to, diags.DiagonalsIndexList(), a.show(plain), a.show(want))
			return
		}
	}
	// (2) homomorphically
	permEvaluate(c, a, "C12/ckks/Permutation", pc.name, map[int][]complex128(diags), v, want, ratio)
}

func permLeafBGV(c *engine.Chooser, scName string, a *adapter[uint64], w *circ.BGV, pcs [2]permCase, ratio int) {
	c.Note("bgv permutation row0=%s %v row1=%s %v ratio=%d", pcs[0].name, pcs[0].to, pcs[1].name, pcs[1].to, ratio)
	n := a.n
	v := a.input()
	want := make([]uint64, 2*n)
	var perm bgvlt.Permutation[uint64]
	for row := 0; row < 2; row++ {
		for from, to := range pcs[row].to {
			if to < 0 {
				continue
			}
			sc := uint64(2 + 5*from + 11*row + to)
			perm[row] = append(perm[row], bgvlt.PermutationMapping[uint64]{From: from, To: to, Scaling: sc})
			want[row*n+to] = a.f.mul(sc, v[row*n+from])
		}
	}
	diags := perm.GetDiagonals(w.Params.LogMaxSlots())
	plain := matvec(a.f, map[int][]uint64(diags), v, 2, n)
	for i := range want {
		if plain[i] != want[i] {
			c.Fail("C12/bgv/Permutation.GetDiagonals/value", "%s/%s: diagonals %v give %v, permutation gives %v", pcs[0].name, pcs[1].name, diags.DiagonalsIndexList(), plain, want)
			return
		}
	}
	permEvaluate(c, a, "C12/bgv/Permutation", pcs[0].name+"/"+pcs[1].name, map[int][]uint64(diags), v, want, ratio)
}

// permEvaluate encodes the diagonals returned by GetDiagonals and evaluates them at the top level.
func permEvaluate[T any](c *engine.Chooser, a *adapter[T], sig, what string, diags map[int][]T, v, want []T, ratio int) {
	if len(diags) == 0 {
		c.Skip("permutation without mappings")
		return
	}
	var idx []int
	for k := range diags {
		idx = append(idx, k)
	}
	idx = sortedCopy(idx)
	ctScale, ltScale := a.ctScale(false), a.ltScale(false)
	ct := a.ciphertext(c, "input", v, a.maxLevel, false)
	lp := lintrans.Parameters{DiagonalsIndexList: idx, LevelQ: a.maxLevel, LevelP: a.maxLvlP, Scale: ltScale,
		LogDimensions: ct.LogDimensions, LogBabyStepGiantStepRatio: ratio}
	lt, gals, err := a.newLT(c, lp, diags)
	if err != nil {
		c.Fail(sig+"/Encode/error", "%s: %v", what, err)
		return
	}
	ev, _ := a.newEval(a.galoisKeys(c, gals, -1, a.maxLvlP))
	out, err := ev.EvaluateNew(ct, lt)
	if err != nil {
		c.Fail(sig+"/EvaluateNew/error", "%s: %v", what, err)
		return
	}
	eps := 0.0
	if a.ltErr != nil {
		eps = a.ltErr(a.freshErr(ctScale), maxAbs(a.f, v), dmaxOf(a, diags), a.fromScale(ctScale), ltScale, a.maxLevel, a.maxLvlP, giantSteps(idx))
	}
	p := plan{describe: what, mats: []matrixPlan{{idx: idx, ratio: ratio, levelQ: a.maxLevel}}}
	judge(c, a, sig+"/EvaluateNew", "", false, p, 0, out, a.maxLevel, a.mulScale(a.fromScale(ctScale), ltScale), want, eps)
}
