package main

import (
	"fmt"
	"github.com/tuneinsight/lattigo/v6/utils/bignum"
	"math"
	"math/big"
	"sort"
	"verif/uni"

	bgvlt "github.com/tuneinsight/lattigo/v6/circuits/bgv/lintrans"
	ckkslt "github.com/tuneinsight/lattigo/v6/circuits/ckks/lintrans"
	"github.com/tuneinsight/lattigo/v6/circuits/common/lintrans"

	"github.com/tuneinsight/lattigo/v6/core/rlwe"

	"verif/engine"
	"verif/lib/circ"
)

// specialScenarios: index normalisation outside (-n,n), the empty diagonal set, and Permutation.GetDiagonals.
func specialScenarios(tier string) []engine.Scenario {
	var scs []engine.Scenario
	tgs := targets(tier)
	for _, tg := range smallTargets(tgs) { // BGV 2x8 and CKKS 8 slots
		tg := tg
		for _, ratio := range ratioCycle {
			ratio := ratio
			{
				cfg := &scenarioCfg{sets: outOfRangeSets(tg.n), ratio: ratio, entries: []int{eEvaluateNew, eEvaluate, eMany2}, tag: "out-of-range-index"}
				name := fmt.Sprintf("%s/out-of-range/ratio%d", tg.name, ratio)
				scs = append(scs, engine.Scenario{Name: name, Bound: 1, Fn: func(c *engine.Chooser) { tg.leaf(c, name, cfg) }})
			}
			{
				cfg := &scenarioCfg{sets: []diagSet{{"empty", nil}}, ratio: ratio, entries: []int{eEvaluateNew, eEvaluate}, tag: "empty-diagonal-set"}
				name := fmt.Sprintf("%s/empty/ratio%d", tg.name, ratio)
				scs = append(scs, engine.Scenario{Name: name, Bound: 1, Fn: func(c *engine.Chooser) { tg.leaf(c, name, cfg) }})
			}
		}
	}
	// dedicated scenarios of the known-defect input classes (see core.go: classNaiveOnlyZero, classManyAfterGiant)
	for _, tg := range smallTargets(tgs) {
		tg := tg
		{
			cfg := &scenarioCfg{sets: []diagSet{{"identity", []int{0}}}, ratio: -1, entries: []int{eEvaluateNew, eEvaluate, eMany1, eSeqNew2}, dedicated: true}
			name := fmt.Sprintf("known-class/%s/naive-only-diagonal-0", tg.name)
			scs = append(scs, engine.Scenario{Name: name, Bound: 1, Fn: func(c *engine.Chooser) { tg.leaf(c, name, cfg) }})
		}
		for _, ratio := range []int{0, 1} {
			ratio := ratio
			cfg := &scenarioCfg{sets: []diagSet{{"one", []int{-3}}, {"two", []int{1, 5}}, {"three", []int{0, 2, 5}}}, ratio: ratio,
				entries: []int{eMany2, eMany3, eManyNew2}, dedicated: true}
			name := fmt.Sprintf("known-class/%s/many-after-giant-step/ratio%d", tg.name, ratio)
			scs = append(scs, engine.Scenario{Name: name, Bound: 0, Fn: func(c *engine.Chooser) { tg.leaf(c, name, cfg) }})
		}
	}
	// Encode with another index set than allocated; documented refusals of the evaluator
	{
		bs := circ.BGVSpec{LogN: 4, NQ: 4, QBits: 30, NP: 2, PBits: 30, T: 97}
		cs := circ.CKKSSpec{LogN: 4, NQ: 4, Q0Bits: 50, QBits: 40, NP: 2, PBits: 50, LogScale: 40}
		scs = append(scs,
			engine.Scenario{Name: "encode-mismatch/bgv", Bound: -1, Fn: func(c *engine.Chooser) { encodeMismatchLeaf(c, getBGVAdapter(c, bs), "encode-mismatch/bgv") }},
			engine.Scenario{Name: "encode-mismatch/ckks", Bound: -1, Fn: func(c *engine.Chooser) { encodeMismatchLeaf(c, getCKKSAdapter(c, cs, 3), "encode-mismatch/ckks") }},
			engine.Scenario{Name: "refusals/bgv", Bound: -1, Fn: func(c *engine.Chooser) { refusalLeaf(c, getBGVAdapter(c, bs), "refusals/bgv") }},
			engine.Scenario{Name: "many-sequence/bgv-n8", Bound: -1, Fn: func(c *engine.Chooser) {
				manySequenceLeaf(c, getBGVAdapter(c, bs), "many-sequence/bgv-n8", manyCount(tier))
			}},
			engine.Scenario{Name: "many-sequence/ckks-n8", Bound: -1, Fn: func(c *engine.Chooser) {
				manySequenceLeaf(c, getCKKSAdapter(c, cs, 3), "many-sequence/ckks-n8", manyCount(tier))
			}},
			engine.Scenario{Name: "many-sequence/ckks-n16", Bound: -1, Fn: func(c *engine.Chooser) {
				manySequenceLeaf(c, getCKKSAdapter(c, circ.CKKSSpec{LogN: 5, NQ: 5, Q0Bits: 45, QBits: 30, NP: 2, PBits: 46, LogScale: 30}, 4), "many-sequence/ckks-n16", 3)
			}},
			engine.Scenario{Name: "many-sequence/bgv-n16", Bound: -1, Fn: func(c *engine.Chooser) {
				manySequenceLeaf(c, getBGVAdapter(c, circ.BGVSpec{LogN: 5, NQ: 5, QBits: 45, NP: 2, PBits: 50, T: 65537}), "many-sequence/bgv-n16", 3)
			}},
			engine.Scenario{Name: "diagonal-types/ckks-prec128", Bound: -1, Fn: func(c *engine.Chooser) { highPrecisionLeaf(c, hpSpec) }},
			engine.Scenario{Name: "diagonal-types/ckks-prec53", Bound: -1, Fn: func(c *engine.Chooser) { highPrecisionLeaf(c, cs) }},
			engine.Scenario{Name: "diagonal-types/bgv", Bound: -1, Fn: func(c *engine.Chooser) { bgvDiagTypeLeaf(c, bs) }},
			engine.Scenario{Name: "refusals/ckks", Bound: -1, Fn: func(c *engine.Chooser) { refusalLeaf(c, getCKKSAdapter(c, cs, 3), "refusals/ckks") }},
		)
	}
	scs = append(scs, permScenarios(tier)...)
	return scs
}

func manyCount(tier string) int {
	if tier == "thorough" {
		return 4
	}
	return 3
}

// smallTargets: the BGV 2x8 and the CKKS 8-slot (full packing) targets, by name.
func smallTargets(tgs []target) []target {
	var r []target
	for _, want := range []string{"bgv-N4-q4x30-p2x30-t97", "ckks-N4-q50+3x40-p2x50-s40-slots8"} {
		for _, tg := range tgs {
			if tg.name == want {
				r = append(r, tg)
			}
		}
	}
	if len(r) != 2 {
		panic("harness: small targets not found")
	}
	return r
}

// ---------------------------------------------------------------------------------------------
// permutations
//
// Doc (circuits/*/lintrans.PermutationMapping): "a mapping: From -> To and a scaling value": the value of
// slot From, multiplied by Scaling, lands in slot To; slots that are not the target of a mapping are zero.

type permCase struct {
	name string
	to   []int // to[from] = destination, -1 = slot not mapped (partial permutation)
}

// permFamily8: rotations, reversal, transpositions, a 3-cycle, two partial ones, on k slots.
func permFamily(k int) []permCase {
	var r []permCase
	id := func() []int {
		p := make([]int, k)
		for i := range p {
			p[i] = i
		}
		return p
	}
	for s := 0; s < k; s++ {
		p := id()
		for i := range p {
			p[i] = (i + s) % k
		}
		r = append(r, permCase{fmt.Sprintf("rot%d", s), p})
	}
	rev := id()
	for i := range rev {
		rev[i] = k - 1 - i
	}
	r = append(r, permCase{"reverse", rev})
	for i := 0; i < k; i++ {
		for j := i + 1; j < k; j++ {
			p := id()
			p[i], p[j] = j, i
			r = append(r, permCase{fmt.Sprintf("swap%d-%d", i, j), p})
		}
	}
	cyc := id()
	cyc[0], cyc[1], cyc[k-1] = 1, k-1, 0
	r = append(r, permCase{"3cycle", cyc})
	part := id()
	for i := range part {
		part[i] = (i*3 + 1) % k
		if i%2 == 1 {
			part[i] = -1
		}
	}
	r = append(r, permCase{"partial-odd-dropped", part})
	one := id()
	for i := range one {
		one[i] = -1
	}
	one[k-1] = 0
	r = append(r, permCase{"single-mapping", one})
	return r
}

func allPerms(k int) []permCase {
	var r []permCase
	for _, p := range permutations(k) {
		r = append(r, permCase{fmt.Sprintf("perm%v", p), p})
		// and the partial version dropping the first mapping
		q := append([]int(nil), p...)
		q[0] = -1
		r = append(r, permCase{fmt.Sprintf("perm%v-partial", p), q})
	}
	return r
}

func permScenarios(tier string) []engine.Scenario {
	var scs []engine.Scenario
	bgvSpec := circ.BGVSpec{LogN: 4, NQ: 4, QBits: 30, NP: 2, PBits: 30, T: 97}
	ckks8 := circ.CKKSSpec{LogN: 4, NQ: 4, Q0Bits: 50, QBits: 40, NP: 2, PBits: 50, LogScale: 40}
	ckks4 := circ.CKKSSpec{LogN: 5, NQ: 5, Q0Bits: 45, QBits: 30, NP: 2, PBits: 46, LogScale: 30}
	for _, ratio := range []int{-1, 0, 1} {
		ratio := ratio
		// CKKS, 4 slots (sparse packing): ALL permutations of 4 slots (+ partial versions)
		{
			name := fmt.Sprintf("perm/ckks-4slots-all/ratio%d", ratio)
			cases := allPerms(4)
			scs = append(scs, engine.Scenario{Name: name, Bound: -1, Fn: func(c *engine.Chooser) {
				pc := cases[c.ChooseFree(len(cases), "perm")]
				c.Cover("perm", "all-of-4")
				permLeafCKKS(c, name, getCKKSAdapter(c, ckks4, 2), 2, pc, ratio)
			}})
		}
		// CKKS, 8 slots: family
		{
			name := fmt.Sprintf("perm/ckks-8slots-family/ratio%d", ratio)
			cases := permFamily(8)
			scs = append(scs, engine.Scenario{Name: name, Bound: -1, Fn: func(c *engine.Chooser) {
				pc := cases[c.ChooseFree(len(cases), "perm")]
				c.Cover("perm", "family-8")
				permLeafCKKS(c, name, getCKKSAdapter(c, ckks8, 3), 3, pc, ratio)
			}})
		}
		// BGV 2x8: family on row 0 × a different member on row 1
		{
			name := fmt.Sprintf("perm/bgv-2x8-family/ratio%d", ratio)
			cases := permFamily(8)
			scs = append(scs, engine.Scenario{Name: name, Bound: -1, Fn: func(c *engine.Chooser) {
				i := c.ChooseFree(len(cases), "perm-row0")
				j := (i*7 + 3) % len(cases) // row 1 gets another member of the family
				c.Cover("perm", "family-8")
				permLeafBGV(c, name, getBGVAdapter(c, bgvSpec), getBGV(c, bgvSpec), [2]permCase{cases[i], cases[j]}, ratio)
			}})
		}
	}
	return scs
}

func permLeafCKKS(c *engine.Chooser, scName string, a *adapter[complex128], logSlots int, pc permCase, ratio int) {
	c.Note("ckks permutation %s to=%v ratio=%d", pc.name, pc.to, ratio)
	n := a.n
	v := a.input()
	want := make([]complex128, n)
	var perm ckkslt.Permutation[complex128]
	for from, to := range pc.to {
		if to < 0 {
			continue
		}
		sc := complex(0.5+0.25*float64(from), -0.125*float64(to+1)) // distinct scaling per mapping
		perm = append(perm, ckkslt.PermutationMapping[complex128]{From: from, To: to, Scaling: sc})
		want[to] = sc * v[from]
	}
	diags := perm.GetDiagonals(logSlots)
	// (1) the diagonals alone, through the reference product
	plain := matvec(a.f, map[int][]complex128(diags), v, 1, n)
	for i := range want {
		if !a.equal(plain[i], want[i], 1e-12) {
			c.Fail("C12/ckks/Permutation.GetDiagonals/value", "%s to=%v: diagonals %v give %s, permutation gives %s", pc.name, pc.to, diags.DiagonalsIndexList(), a.show(plain), a.show(want))
			return
		}
	}
	// (2) homomorphically
	permEvaluate(c, a, "C12/ckks/Permutation", pc.name, map[int][]complex128(diags), v, want, ratio)
}

func permLeafBGV(c *engine.Chooser, scName string, a *adapter[uint64], w *circ.BGV, pcs [2]permCase, ratio int) {
	c.Note("bgv permutation row0=%s %v row1=%s %v ratio=%d", pcs[0].name, pcs[0].to, pcs[1].name, pcs[1].to, ratio)
	n := a.n
	v := a.input()
	want := make([]uint64, 2*n)
	var perm bgvlt.Permutation[uint64]
	for row := 0; row < 2; row++ {
		for from, to := range pcs[row].to {
			if to < 0 {
				continue
			}
			sc := uint64(2 + 5*from + 11*row + to)
			perm[row] = append(perm[row], bgvlt.PermutationMapping[uint64]{From: from, To: to, Scaling: sc})
			want[row*n+to] = a.f.mul(sc, v[row*n+from])
		}
	}
	diags := perm.GetDiagonals(w.Params.LogMaxSlots())
	plain := matvec(a.f, map[int][]uint64(diags), v, 2, n)
	for i := range want {
		if plain[i] != want[i] {
			c.Fail("C12/bgv/Permutation.GetDiagonals/value", "%s/%s: diagonals %v give %v, permutation gives %v", pcs[0].name, pcs[1].name, diags.DiagonalsIndexList(), plain, want)
			return
		}
	}
	permEvaluate(c, a, "C12/bgv/Permutation", pcs[0].name+"/"+pcs[1].name, map[int][]uint64(diags), v, want, ratio)
}

// permEvaluate encodes the diagonals returned by GetDiagonals and evaluates them at the top level.
func permEvaluate[T any](c *engine.Chooser, a *adapter[T], sig, what string, diags map[int][]T, v, want []T, ratio int) {
	if len(diags) == 0 {
		c.Skip("permutation without mappings")
		return
	}
	var idx []int
	for k := range diags {
		idx = append(idx, k)
	}
	idx = sortedCopy(idx)
	ctScale, ltScale := a.ctScale(false), a.ltScale(false)
	ct := a.ciphertext(c, "input", v, a.maxLevel, false)
	lp := lintrans.Parameters{DiagonalsIndexList: idx, LevelQ: a.maxLevel, LevelP: a.maxLvlP, Scale: ltScale,
		LogDimensions: ct.LogDimensions, LogBabyStepGiantStepRatio: ratio}
	lt, gals, err := a.newLT(c, lp, diags)
	if err != nil {
		c.Fail(sig+"/Encode/error", "%s: %v", what, err)
		return
	}
	ev, _ := a.newEval(a.galoisKeys(c, gals, -1, a.maxLvlP))
	out, err := ev.EvaluateNew(ct, lt)
	if err != nil {
		c.Fail(sig+"/EvaluateNew/error", "%s: %v", what, err)
		return
	}
	eps := 0.0
	if a.ltErr != nil {
		eps = a.ltErr(a.freshErr(ctScale), maxAbs(a.f, v), dmaxOf(a, diags), a.fromScale(ctScale), ltScale, a.maxLevel, a.maxLvlP, giantSteps(idx))
	}
	p := plan{describe: what, mats: []matrixPlan{{idx: idx, ratio: ratio, levelQ: a.maxLevel}}}
	judge(c, a, sig+"/EvaluateNew", "", false, p, 0, out, a.maxLevel, a.mulScale(a.fromScale(ctScale), ltScale), want, eps)
}

// ---------------------------------------------------------------------------------------------
// Encode with a matrix whose index set differs from the one the transformation was allocated for.
//
// Doc: Encode returns "plaintext diagonal [%d] does not exist" / "input does not match the same non-zero diagonals";
// tutorial: "trying to encode a linear transformation with different non-zero diagonals ... will return an error".
// Oracle: refused -> counted; accepted -> Evaluate must equal the product by the matrix that was GIVEN to Encode
// (missing diagonals are zero); an accepted call that evaluates another matrix is the violation.

var mismatchShapes = []string{"superset", "subset", "one-index-different", "congruent-mod-n", "equal"}

func encodeMismatchLeaf[T any](c *engine.Chooser, a *adapter[T], scName string) {
	bases := [][]int{{0, 1, 3}, {-2, 5}, {1, 2, 3, 4, 6}}
	A := bases[c.ChooseFree(len(bases), "allocated")]
	shape := c.ChooseFree(len(mismatchShapes), "given")
	ratio := []int{-1, 0, 1}[c.ChooseFree(3, "ratio")]
	n := a.n
	G := append([]int(nil), A...)
	switch mismatchShapes[shape] {
	case "superset":
		G = append(G, 7)
	case "subset":
		G = G[:len(G)-1]
	case "one-index-different":
		G[len(G)-1] = 7
	case "congruent-mod-n":
		// the same diagonals named by other integers of (-n, n)
		for i, k := range G {
			if k > 0 {
				G[i] = k - n
			} else if k < 0 {
				G[i] = k + n
			}
		}
	}
	algo := "naive"
	if ratio >= 0 {
		algo = "bsgs"
	}
	desc := fmt.Sprintf("%s allocated=%v given=%v (%s) ratio=%d", a.scheme, A, G, mismatchShapes[shape], ratio)
	c.Note("%s", desc)
	c.Cover("encode-mismatch", mismatchShapes[shape]+"/"+algo)
	sig := "C12/lintrans/Encode/index-set-mismatch/" + mismatchShapes[shape] + "/" + algo
	given := map[int][]T{}
	for _, k := range G {
		given[k] = a.diag(0, ((k%n)+n)%n)
	}
	v := a.input()
	ct := a.ciphertext(c, "input", v, a.maxLevel, false)
	lp := lintrans.Parameters{DiagonalsIndexList: append([]int(nil), A...), LevelQ: a.maxLevel, LevelP: a.maxLvlP, Scale: a.ltScale(false),
		LogDimensions: ct.LogDimensions, LogBabyStepGiantStepRatio: ratio}
	var lt lintrans.LinearTransformation
	var gals []uint64
	var err error
	if pe := recoverToErr(func() error { lt, gals, err = a.newLT(c, lp, given); return nil }); pe != "" {
		c.Fail(sig+"/panic", "%s: %s", desc, pe)
		return
	}
	legal := mismatchShapes[shape] == "equal" || mismatchShapes[shape] == "congruent-mod-n"
	if err != nil {
		if legal {
			c.Fail(sig+"/refused", "%s: the same diagonals are refused: %v", desc, err)
			return
		}
		c.Cover("rejected", "encode-mismatch/"+mismatchShapes[shape])
		c.Outcome("rejected", desc)
		return
	}
	ev, _ := a.newEval(a.galoisKeys(c, gals, -1, a.maxLvlP))
	var out *rlwe.Ciphertext
	if pe := recoverToErr(func() error { out, err = ev.EvaluateNew(ct, lt); return nil }); pe != "" {
		c.Fail(sig+"/evaluate-panic", "%s: %s", desc, pe)
		return
	}
	if err != nil {
		c.Fail(sig+"/evaluate-error", "%s: Encode accepted, EvaluateNew: %v", desc, err)
		return
	}
	want := matvec(a.f, given, v, a.rows, n)
	eps := 0.0
	if a.ltErr != nil {
		eps = a.ltErr(a.freshErr(a.ctScale(false)), maxAbs(a.f, v), dmaxOf(a, given), a.fromScale(a.ctScale(false)), a.ltScale(false), a.maxLevel, a.maxLvlP, giantSteps(A)+len(G))
	}
	got := a.decode(out, a.mulScale(a.fromScale(a.ctScale(false)), a.ltScale(false)))
	for j := range want {
		if !a.equal(got[j], want[j], eps) {
			c.Fail(sig+"/accepted-but-another-matrix", "%s: Encode returned nil but Evaluate is not the product by the matrix given to Encode (slot %d)\n got  %s\n want %s", desc, j, a.show(got), a.show(want))
			break
		}
	}
	c.Cover("accepted", "encode-mismatch/"+mismatchShapes[shape])
	c.Outcome("accepted", desc)
	c.Count(1)
}

// ---------------------------------------------------------------------------------------------
// Documented refusals of the evaluator: each must be an error (not a panic, not a result); the nearest legal call is
// exercised by every ordinary leaf.

var refusalKinds = []string{"missing-galois-key", "levelP-differs-from-keys", "many-output-slice-too-short", "many-nil-receiver", "many-levelP-differ"}

func refusalLeaf[T any](c *engine.Chooser, a *adapter[T], scName string) {
	kind := refusalKinds[c.ChooseFree(len(refusalKinds), "refusal")]
	ratio := []int{-1, 1}[c.ChooseFree(2, "ratio")]
	if a.maxLvlP == 0 && (kind == "levelP-differs-from-keys" || kind == "many-levelP-differ") {
		c.Skip("one P prime only")
		return
	}
	desc := fmt.Sprintf("%s %s ratio=%d", a.scheme, kind, ratio)
	c.Note("%s", desc)
	c.Cover("refusal", kind)
	sig := "C12/lintrans/refusal/" + kind
	v := a.input()
	ct := a.ciphertext(c, "input", v, a.maxLevel, false)
	idx := []int{1, 2, 5}
	mk := func(levelP int) (lintrans.LinearTransformation, []uint64) {
		d := map[int][]T{}
		for _, k := range idx {
			d[k] = a.diag(0, k)
		}
		lt, gals, err := a.newLT(c, lintrans.Parameters{DiagonalsIndexList: idx, LevelQ: a.maxLevel, LevelP: levelP, Scale: a.ltScale(false),
			LogDimensions: ct.LogDimensions, LogBabyStepGiantStepRatio: ratio}, d)
		if err != nil {
			panic(fmt.Sprintf("harness: %v", err))
		}
		return lt, gals
	}
	lt, gals := mk(a.maxLvlP)
	var err error
	pe := recoverToErr(func() error {
		switch kind {
		case "missing-galois-key":
			// one advertised key is not there (deterministic choice: the largest Galois element; never the identity, element 1,
			// which the list may contain for rotation 0 and which no evaluation needs)
			sorted := append([]uint64(nil), gals...)
			sort.Slice(sorted, func(i, j int) bool { return sorted[i] < sorted[j] })
			ev, _ := a.newEval(a.galoisKeys(c, sorted[:len(sorted)-1], -1, a.maxLvlP))
			_, err = ev.EvaluateNew(ct, lt)
		case "levelP-differs-from-keys":
			ev, _ := a.newEval(a.galoisKeys(c, gals, -1, a.maxLvlP-1)) // keys with one P prime less than the transformation
			_, err = ev.EvaluateNew(ct, lt)
		case "many-output-slice-too-short":
			ev, _ := a.newEval(a.galoisKeys(c, gals, -1, a.maxLvlP))
			err = ev.EvaluateMany(ct, []lintrans.LinearTransformation{lt, lt}, []*rlwe.Ciphertext{a.newCt(a.maxLevel)})
		case "many-nil-receiver":
			ev, _ := a.newEval(a.galoisKeys(c, gals, -1, a.maxLvlP))
			err = ev.EvaluateMany(ct, []lintrans.LinearTransformation{lt, lt}, []*rlwe.Ciphertext{a.newCt(a.maxLevel), nil})
		case "many-levelP-differ":
			lt2, _ := mk(a.maxLvlP - 1)
			ev, _ := a.newEval(a.galoisKeys(c, gals, -1, a.maxLvlP))
			err = ev.EvaluateMany(ct, []lintrans.LinearTransformation{lt, lt2}, []*rlwe.Ciphertext{a.newCt(a.maxLevel), a.newCt(a.maxLevel)})
		}
		return nil
	})
	switch {
	case pe != "":
		c.Fail(sig+"/panic", "%s: a documented refusal panics: %s", desc, pe)
	case err == nil:
		c.Fail(sig+"/accepted", "%s: no error", desc)
	default:
		c.Cover("rejected", "refusal/"+kind)
	}
	c.Outcome("refusal", desc)
}

// ---------------------------------------------------------------------------------------------
// Arbitrary-precision encoding (scale 2^90, encoder precision 90 bits): the matrix is encoded with the world's encoder or
// with a ShallowCopy of it; the result must be within the noise-implied precision (worst-case ε of the same model as
// everywhere, about 2^-70 here), far below the 2^-52 of a float64 path. Reference: exact dyadic values, big.Float arithmetic.

var hpSpec = circ.CKKSSpec{LogN: 4, NQ: 5, Q0Bits: 60, QBits: 45, NP: 2, PBits: 61, LogScale: 90}

// diagonal element types accepted by circuits/ckks/lintrans.Diagonals[T]
var ckksDiagTypes = []string{"complex128", "float64", "*big.Float", "*bignum.Complex"}

func highPrecisionLeaf(c *engine.Chooser, spec circ.CKKSSpec) {
	a := getCKKSAdapter(c, spec, 3)
	w := getCKKS(c, spec)
	p := w.Params
	useCopy := c.ChooseFree(2, "encoder") == 1
	dtype := ckksDiagTypes[c.ChooseFree(len(ckksDiagTypes), "diagonal-type")]
	realOnly := dtype == "float64" || dtype == "*big.Float"
	ratio := []int{-1, 1}[c.ChooseFree(2, "ratio")]
	idx := [][]int{{0, 1, 3}, {-2, 5}, {0, 1, 2, 3, 4, 5, 6, 7}}[c.ChooseFree(3, "set")]
	desc := fmt.Sprintf("ckks scale 2^%d (encoder precision %d), encoder ShallowCopy=%v, Diagonals[%s], ratio=%d, diagonals %v", spec.LogScale, w.Ecd.Prec(), useCopy, dtype, ratio, idx)
	c.Note("%s", desc)
	c.Cover("high-precision-encoder", map[bool]string{false: "original", true: "shallow-copy"}[useCopy])
	c.Cover("diagonal-type", fmt.Sprintf("ckks/%s/prec%d", dtype, w.Ecd.Prec()))
	sig := "C12/ckks/diagonal-type/" + dtype + "/" + map[bool]string{false: "encoder", true: "encoder-shallow-copy"}[useCopy]
	uni.Seed(c, "high-precision", desc)
	n := a.n
	// dyadic values: exact in float64 and in the reference
	v := make([]complex128, n)
	for i := range v {
		v[i] = complex(float64((i*5)%17-8)/16, float64((i*3)%13-6)/32)
	}
	diags := map[int][]complex128{}
	for _, k := range idx {
		r := ((k % n) + n) % n
		d := make([]complex128, n)
		for i := range d {
			d[i] = complex(float64((i+2*r)%11-5)/8, float64((3*i+r)%7-3)/16)
			if realOnly {
				d[i] = complex(real(d[i]), 0)
			}
		}
		diags[k] = d
	}
	ecd := w.Ecd
	if useCopy {
		ecd = w.Ecd.ShallowCopy()
	}
	ct := w.Encrypt(v, a.logN, p.MaxLevel(), p.DefaultScale())
	lp := lintrans.Parameters{DiagonalsIndexList: append([]int(nil), idx...), LevelQ: p.MaxLevel(), LevelP: p.MaxLevelP(), Scale: p.DefaultScale(),
		LogDimensions: ct.LogDimensions, LogBabyStepGiantStepRatio: ratio}
	lt := ckkslt.NewTransformation(p, ckkslt.Parameters(lp))
	// the same matrix handed over as Diagonals[T] for the chosen element type
	var encErr error
	switch dtype {
	case "complex128":
		encErr = ckkslt.Encode(ecd, ckkslt.Diagonals[complex128](diags), lt)
	case "float64":
		m := ckkslt.Diagonals[float64]{}
		for k, d := range diags {
			m[k] = make([]float64, len(d))
			for i := range d {
				m[k][i] = real(d[i])
			}
		}
		encErr = ckkslt.Encode(ecd, m, lt)
	case "*big.Float":
		m := ckkslt.Diagonals[*big.Float]{}
		for k, d := range diags {
			m[k] = make([]*big.Float, len(d))
			for i := range d {
				m[k][i] = new(big.Float).SetPrec(ecd.Prec()).SetFloat64(real(d[i]))
			}
		}
		encErr = ckkslt.Encode(ecd, m, lt)
	case "*bignum.Complex":
		m := ckkslt.Diagonals[*bignum.Complex]{}
		for k, d := range diags {
			m[k] = make([]*bignum.Complex, len(d))
			for i := range d {
				m[k][i] = bignum.ToComplex(d[i], ecd.Prec())
			}
		}
		encErr = ckkslt.Encode(ecd, m, lt)
	}
	if err := encErr; err != nil {
		c.Fail(sig+"/Encode/error", "%s: %v", desc, err)
		return
	}
	evk := a.galoisKeys(c, ckkslt.GaloisElements(p, ckkslt.Parameters(lp)), -1, p.MaxLevelP())
	ev, _ := a.newEval(evk)
	out, err := ev.EvaluateNew(ct, lintrans.LinearTransformation(lt))
	if err != nil {
		c.Fail(sig+"/EvaluateNew/error", "%s: %v", desc, err)
		return
	}
	got := make([]*bignum.Complex, n)
	if err := w.Ecd.Decode(w.Dec.DecryptNew(out), got); err != nil {
		c.Fail(sig+"/Decode/error", "%s: %v", desc, err)
		return
	}
	var dmax []float64
	for _, k := range sortedCopy(idx) {
		dmax = append(dmax, maxAbs(a.f, diags[k]))
	}
	eps := a.ltErr(a.freshErr(p.DefaultScale()), maxAbs(a.f, v), dmax, a.fromScale(p.DefaultScale()), p.DefaultScale(), p.MaxLevel(), p.MaxLevelP(), giantSteps(idx))
	// the float64 slack of the generic model (2^-40 of the magnitude) does not apply: the reference below is exact
	if w.Ecd.Prec() > 53 {
		for _, d := range dmax {
			eps -= d * maxAbs(a.f, v) * math.Exp2(-40)
		}
	}
	bf := func(x float64) *big.Float { return new(big.Float).SetPrec(256).SetFloat64(x) }
	worst := 0.0
	for i := 0; i < n; i++ {
		re, im := bf(0), bf(0)
		for k, d := range diags {
			r := ((k % n) + n) % n
			x := v[(i+r)%n]
			// (a+bi)(c+di)
			ac := new(big.Float).SetPrec(256).Mul(bf(real(d[i])), bf(real(x)))
			bd := new(big.Float).SetPrec(256).Mul(bf(imag(d[i])), bf(imag(x)))
			ad := new(big.Float).SetPrec(256).Mul(bf(real(d[i])), bf(imag(x)))
			bc := new(big.Float).SetPrec(256).Mul(bf(imag(d[i])), bf(real(x)))
			re.Add(re, ac).Sub(re, bd)
			im.Add(im, ad).Add(im, bc)
		}
		dr, _ := new(big.Float).SetPrec(256).Sub(got[i][0], re).Float64()
		di, _ := new(big.Float).SetPrec(256).Sub(got[i][1], im).Float64()
		e := math.Hypot(dr, di)
		worst = math.Max(worst, e)
		if e > eps {
			c.Fail(sig+"/value", "%s: slot %d: |decoded - exact| = 2^%.1f > eps = 2^%.1f (noise-implied precision; a float64 path gives about 2^-51)", desc, i, math.Log2(e), math.Log2(eps))
			break
		}
	}
	c.Note("max error 2^%.1f, eps 2^%.1f", math.Log2(worst+1e-300), math.Log2(eps))
	c.Outcome("high-precision", desc)
	c.Count(1)
}

// ---------------------------------------------------------------------------------------------
// EvaluateMany with 3 (thorough: 4) transformations whose baby-step tables are equal / disjoint / nested / overlapping, in every
// order and with repeats (A,B,A): the table of pre-rotated ciphertexts is shared by the transformations of one call. Every output
// is judged against its own matrix-vector product (= the transformation evaluated alone).

func manyPool(n int) []diagSet {
	// With q = n/4 and ratios 0 / 1 these sets are split with N1 = 4 at n = 16, and their baby-step tables are
	// A {0,1}, B {0,2}, C {1,2}, D {0,3}, E {1,3}, F {0,1,2,3}: equal, disjoint (apart from 0), nested and overlapping pairs.
	q := n / 4
	return uniqueModN(n, []diagSet{
		{"A", []int{1, 1 + q, 1 + 2*q, 1 + 3*q, 0, q}},
		{"B", []int{2, 2 + q, 2 + 2*q, 2 + 3*q, 0, 2 * q}},
		{"C", []int{1, 2, 1 + q, 2 + q, 1 + 2*q, 2 + 2*q}},
		{"D", []int{0, q, 2 * q, 3 * q, 3, 3 + q}},
		{"E", []int{3, 1, 3 + q, 1 + q, 3 + 2*q, 1 + 2*q}},
		{"F", []int{1, 2, 3, q, 2 * q, q + 1}},
	})
}

// uniqueModN reduces the indices modulo n and drops repetitions (small n).
func uniqueModN(n int, sets []diagSet) []diagSet {
	for i := range sets {
		seen := map[int]bool{}
		var idx []int
		for _, k := range sets[i].idx {
			if r := k % n; !seen[r] {
				seen[r] = true
				idx = append(idx, r)
			}
		}
		sets[i].idx = idx
	}
	return sets
}

func manySequenceLeaf[T any](c *engine.Chooser, a *adapter[T], scName string, count int) {
	pool := manyPool(a.n)
	var seq []diagSet
	name := ""
	for m := 0; m < count; m++ {
		s := pool[c.ChooseFree(len(pool), fmt.Sprintf("matrix%d", m))]
		seq = append(seq, s)
		name += s.name
	}
	ratio := []int{1, 0, 2, -1}[c.ChooseFree(4, "ratio")]
	mix := c.ChooseFree(2, "second-naive") == 1 // the second transformation without BSGS
	useNew := c.ChooseFree(2, "new") == 1
	desc := fmt.Sprintf("%s EvaluateMany %s ratio=%d second-naive=%v new=%v", a.scheme, name, ratio, mix, useNew)
	c.Note("%s", desc)
	c.Cover("many-sequence", fmt.Sprintf("%d", count))
	if count >= 3 && seq[0].name == seq[2].name && seq[0].name != seq[1].name {
		c.Cover("many-sequence", "A,B,A")
	}
	sig := "C12/" + a.scheme + "/EvaluateMany-sequence"
	v := a.input()
	ct := a.ciphertext(c, "input", v, a.maxLevel, false)
	var lts []lintrans.LinearTransformation
	var models []map[int][]T
	galSet := map[uint64]bool{}
	for m, s := range seq {
		d := map[int][]T{}
		for _, k := range s.idx {
			d[k] = a.diag(m%3, ((k%a.n)+a.n)%a.n)
		}
		r := ratio
		if mix && m == 1 {
			r = -1
		}
		lt, gals, err := a.newLT(c, lintrans.Parameters{DiagonalsIndexList: append([]int(nil), s.idx...), LevelQ: a.maxLevel, LevelP: a.maxLvlP,
			Scale: a.ltScale(false), LogDimensions: ct.LogDimensions, LogBabyStepGiantStepRatio: r}, d)
		if err != nil {
			c.Fail(sig+"/Encode/error", "%s: %v", desc, err)
			return
		}
		for _, g := range gals {
			galSet[g] = true
		}
		lts = append(lts, lt)
		models = append(models, d)
	}
	var gals []uint64
	for g := range galSet {
		gals = append(gals, g)
	}
	sort.Slice(gals, func(i, j int) bool { return gals[i] < gals[j] })
	ev, _ := a.newEval(a.galoisKeys(c, gals, -1, a.maxLvlP))
	var outs []*rlwe.Ciphertext
	var err error
	pe := recoverToErr(func() error {
		if useNew {
			outs, err = ev.EvaluateManyNew(ct, lts)
		} else {
			for range lts {
				outs = append(outs, a.newCt(a.maxLevel))
			}
			err = ev.EvaluateMany(ct, lts, outs)
		}
		return nil
	})
	if pe != "" {
		c.Fail(sig+"/panic", "%s: %s", desc, pe)
		return
	}
	if err != nil {
		c.Fail(sig+"/error", "%s: %v", desc, err)
		return
	}
	scale := a.mulScale(a.fromScale(a.ctScale(false)), a.ltScale(false))
	for m := range lts {
		want := matvec(a.f, models[m], v, a.rows, a.n)
		eps := 0.0
		if a.ltErr != nil {
			eps = a.ltErr(a.freshErr(a.ctScale(false)), maxAbs(a.f, v), dmaxOf(a, models[m]), a.fromScale(a.ctScale(false)), a.ltScale(false), a.maxLevel, a.maxLvlP, giantSteps(seq[m].idx))
		}
		got := a.decode(outs[m], scale)
		for j := range want {
			if !a.equal(got[j], want[j], eps) {
				c.Fail(sig+"/value", "%s: output %d (%s%v) differs from the transformation evaluated alone (slot %d)\n got  %s\n want %s", desc, m, seq[m].name, seq[m].idx, j, a.show(got), a.show(want))
				break
			}
		}
		c.Count(1)
	}
	c.Outcome("many-sequence", desc)
}

// bgvDiagTypeLeaf: circuits/bgv/lintrans.Diagonals[T] for T = uint64 and int64 (negative values mean t - |x|), >= 2 diagonals,
// BSGS and naive, exact modulo t.
func bgvDiagTypeLeaf(c *engine.Chooser, spec circ.BGVSpec) {
	a := getBGVAdapter(c, spec)
	w := getBGV(c, spec)
	p := w.Params
	t := w.T
	signed := c.ChooseFree(2, "diagonal-type") == 1
	ratio := []int{-1, 0, 1}[c.ChooseFree(3, "ratio")]
	idx := [][]int{{0, 1, 3}, {-2, 5}, {0, 1, 2, 3, 4, 5, 6, 7}}[c.ChooseFree(3, "set")]
	dtype := map[bool]string{false: "uint64", true: "int64"}[signed]
	desc := fmt.Sprintf("bgv Diagonals[%s], ratio=%d, diagonals %v", dtype, ratio, idx)
	c.Note("%s", desc)
	c.Cover("diagonal-type", "bgv/"+dtype)
	sig := "C12/bgv/diagonal-type/" + dtype
	uni.Seed(c, "diagonal-types/bgv", desc)
	n := a.n
	v := a.input()
	ct := a.ciphertext(c, "input", v, p.MaxLevel(), false)
	model := map[int][]uint64{}
	du := bgvlt.Diagonals[uint64]{}
	di := bgvlt.Diagonals[int64]{}
	for _, k := range idx {
		r := ((k % n) + n) % n
		mu := make([]uint64, 2*n)
		mi := make([]int64, 2*n)
		for i := range mu {
			x := int64((i*7+3*r)%41) - 20 // in [-20, 20]
			if !signed && x < 0 {
				x = -x + 21
			}
			mi[i] = x
			if x < 0 {
				mu[i] = t - uint64(-x)
			} else {
				mu[i] = uint64(x)
			}
		}
		model[k], du[k], di[k] = mu, mu, mi
	}
	lp := lintrans.Parameters{DiagonalsIndexList: append([]int(nil), idx...), LevelQ: p.MaxLevel(), LevelP: p.MaxLevelP(), Scale: p.DefaultScale(),
		LogDimensions: ct.LogDimensions, LogBabyStepGiantStepRatio: ratio}
	lt := bgvlt.NewLinearTransformation(p, bgvlt.Parameters(lp))
	var err error
	if signed {
		err = bgvlt.Encode(w.Ecd, di, lt)
	} else {
		err = bgvlt.Encode(w.Ecd, du, lt)
	}
	if err != nil {
		c.Fail(sig+"/Encode/error", "%s: %v", desc, err)
		return
	}
	ev, _ := a.newEval(a.galoisKeys(c, lt.GaloisElements(p), -1, p.MaxLevelP()))
	out, err := ev.EvaluateNew(ct, lintrans.LinearTransformation(lt))
	if err != nil {
		c.Fail(sig+"/EvaluateNew/error", "%s: %v", desc, err)
		return
	}
	want := matvec(a.f, model, v, 2, n)
	got := w.Decode(out, 1)
	for j := range want {
		if got[j] != want[j] {
			c.Fail(sig+"/value", "%s: slot %d got %d want %d\n got  %v\n want %v", desc, j, got[j], want[j], got, want)
			break
		}
	}
	c.Outcome("diag-type", desc)
	c.Count(1)
}
