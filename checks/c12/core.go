package main

import (
	"fmt"
	"math"
	"math/big"
	"sort"

	"github.com/tuneinsight/lattigo/v6/circuits/common/lintrans"
	"github.com/tuneinsight/lattigo/v6/core/rlwe"

	"verif/engine"
	"verif/uni"
)

// ---------------------------------------------------------------------------------------------
// reference model: the matrix-vector product written from the definition of the diagonal
// representation (package doc of circuits/common/lintrans):
//
//	out[row][i] = sum over non-zero diagonals k of  diag_k[row][i] * v[row][(i+k) mod n]
//
// independently on each packed row. It does not use Diagonals.Evaluate, BSGSIndex or any rotation helper.

type field[T any] struct {
	zero T
	add  func(a, b T) T
	mul  func(a, b T) T
	abs  func(a T) float64
}

// matvec: diags is keyed by the index the USER gave (any integer); it is interpreted modulo n.
func matvec[T any](f field[T], diags map[int][]T, v []T, rows, n int) []T {
	out := make([]T, rows*n)
	for i := range out {
		out[i] = f.zero
	}
	keys := make([]int, 0, len(diags))
	for k := range diags {
		keys = append(keys, k)
	}
	sort.Ints(keys) // fixed summation order (floating point)
	for _, k := range keys {
		d := diags[k]
		r := ((k % n) + n) % n
		for row := 0; row < rows; row++ {
			for i := 0; i < n; i++ {
				out[row*n+i] = f.add(out[row*n+i], f.mul(d[row*n+i], v[row*n+(i+r)%n]))
			}
		}
	}
	return out
}

func maxAbs[T any](f field[T], v []T) float64 {
	m := 0.0
	for _, x := range v {
		m = math.Max(m, f.abs(x))
	}
	return m
}

// ---------------------------------------------------------------------------------------------
// expected scale: an integer modulo t (BGV) or a real number (CKKS)

type xscale struct {
	u uint64     // BGV
	f *big.Float // CKKS (256-bit)
}

// ---------------------------------------------------------------------------------------------
// scheme adapter: everything the generic leaf needs from one scheme

// ltEval is the common shape of circuits/{bgv,ckks}/lintrans.Evaluator (their methods take their
// own wrapper type of lintrans.LinearTransformation; the adapters convert).
type ltEval interface {
	Evaluate(ct *rlwe.Ciphertext, lt lintrans.LinearTransformation, out *rlwe.Ciphertext) error
	EvaluateNew(ct *rlwe.Ciphertext, lt lintrans.LinearTransformation) (*rlwe.Ciphertext, error)
	EvaluateMany(ct *rlwe.Ciphertext, lts []lintrans.LinearTransformation, out []*rlwe.Ciphertext) error
	EvaluateManyNew(ct *rlwe.Ciphertext, lts []lintrans.LinearTransformation) ([]*rlwe.Ciphertext, error)
	EvaluateSequential(ct *rlwe.Ciphertext, lts []lintrans.LinearTransformation, out *rlwe.Ciphertext) error
	EvaluateSequentialNew(ct *rlwe.Ciphertext, lts []lintrans.LinearTransformation) (*rlwe.Ciphertext, error)
}

type adapter[T any] struct {
	scheme            string
	world             string // parameter set name (part of every seed)
	params            rlwe.Parameters
	rows, n, logN     int // packed rows, matrix dimension (columns), log2(n)
	maxLevel, maxLvlP int
	minEvalLevel      int // > 1: products below this level are outside the noise budget (large plaintext modulus)
	f                 field[T]

	input   func() []T                // the encrypted vector (rows*n distinct values)
	diag    func(m, r int) []T        // contents of diagonal r (normalised) of matrix m (rows*n values, distinct)
	ctScale func(alt bool) rlwe.Scale // default / non-default input scale
	ltScale func(alt bool) rlwe.Scale // default / non-default encoding scale
	encrypt func(v []T, level int, scale rlwe.Scale) *rlwe.Ciphertext
	newCt   func(level int) *rlwe.Ciphertext

	// newLT allocates + encodes one transformation through the scheme's lintrans package and returns the
	// advertised Galois elements (all advertised variants must agree; disagreement is reported by newLT).
	newLT func(c *engine.Chooser, p lintrans.Parameters, diags map[int][]T) (lt lintrans.LinearTransformation, galEls []uint64, err error)
	sk    *rlwe.SecretKey
	// caches (per world): Galois keys and input ciphertexts are deterministic functions of
	// (VERIF_SEED, world, what they are), whatever ran before: each is generated right after its own uni.Seed.
	keyCache map[string]*rlwe.GaloisKey
	ctCache  map[string]*rlwe.Ciphertext
	// newEval builds a scheme evaluator with the given keys; rekey returns an evaluator sharing the
	// first one's buffers (Evaluator.WithKey) with another key set.
	newEval func(evk rlwe.EvaluationKeySet) (ev ltEval, rekey func(evk rlwe.EvaluationKeySet) ltEval)

	mulScale     func(a xscale, b rlwe.Scale) xscale // scale after a transformation
	rescaleScale func(a xscale, level int) xscale    // scale after eval.Rescale from `level`
	fromScale    func(s rlwe.Scale) xscale
	scaleOK      func(got rlwe.Scale, want xscale) bool
	decode       func(ct *rlwe.Ciphertext, want xscale) []T

	// error model (CKKS; all zero for BGV): message-domain bound of |decoded - model|
	freshErr   func(scale rlwe.Scale) float64
	ltErr      func(errIn, vmax float64, dmax []float64, scaleIn xscale, ltScale rlwe.Scale, levelQ, levelP, giant int) float64
	rescaleErr func(scaleAfter xscale) float64
	equal      func(got, want T, eps float64) bool
	show       func(v []T) string
}

// galoisKey returns the Galois key for galEl at (levelQ, levelP); levelQ < 0 = default (maximum).
func (a *adapter[T]) galoisKey(c *engine.Chooser, galEl uint64, levelQ, levelP int) *rlwe.GaloisKey {
	id := fmt.Sprintf("%d/%d/%d", galEl, levelQ, levelP)
	if k, ok := a.keyCache[id]; ok {
		return k
	}
	uni.Seed(c, "galois-key", a.world, a.n, id)
	evkp := rlwe.EvaluationKeyParameters{LevelP: &levelP}
	if levelQ >= 0 {
		evkp.LevelQ = &levelQ
	}
	k := rlwe.NewKeyGenerator(a.params).GenGaloisKeyNew(galEl, a.sk, evkp)
	if a.keyCache == nil {
		a.keyCache = map[string]*rlwe.GaloisKey{}
	}
	a.keyCache[id] = k
	return k
}

func (a *adapter[T]) galoisKeys(c *engine.Chooser, galEls []uint64, levelQ, levelP int) *rlwe.MemEvaluationKeySet {
	gks := make([]*rlwe.GaloisKey, len(galEls))
	for i, g := range galEls {
		gks[i] = a.galoisKey(c, g, levelQ, levelP)
	}
	return rlwe.NewMemEvaluationKeySet(nil, gks...)
}

// ciphertext returns a private copy of the (cached) encryption of v at (level, scale).
func (a *adapter[T]) ciphertext(c *engine.Chooser, what string, v []T, level int, alt bool) *rlwe.Ciphertext {
	id := fmt.Sprintf("%s/%d/%v", what, level, alt)
	if ct, ok := a.ctCache[id]; ok {
		return ct.CopyNew()
	}
	uni.Seed(c, "ciphertext", a.world, a.n, id)
	ct := a.encrypt(v, level, a.ctScale(alt))
	if a.ctCache == nil {
		a.ctCache = map[string]*rlwe.Ciphertext{}
	}
	a.ctCache[id] = ct
	return ct.CopyNew()
}

// ---------------------------------------------------------------------------------------------
// leaf plan

const (
	eEvaluateNew = iota
	eEvaluate
	eMany1
	eMany2
	eMany3
	eManyNew2
	eSeq2
	eSeqNew2
	nEntries
)

var entryName = []string{"EvaluateNew", "Evaluate", "EvaluateMany1", "EvaluateMany2", "EvaluateMany3", "EvaluateManyNew2", "EvaluateSequential2", "EvaluateSequentialNew2"}

// entries a scenario enumerates
var allEntries = []int{eEvaluateNew, eEvaluate, eMany1, eMany2, eMany3, eManyNew2, eSeq2, eSeqNew2}

func nMatrices(entry int) int {
	switch entry {
	case eMany2, eManyNew2, eSeq2, eSeqNew2:
		return 2
	case eMany3:
		return 3
	}
	return 1
}

type matrixPlan struct {
	idx    []int // indices as the user passes them
	ratio  int
	levelQ int
}

type plan struct {
	entry   int
	mats    []matrixPlan
	ctLevel int
	levelP  int
	outMode int // eEvaluate / eSeq2 / eMany*: 0 fresh at the expected level, 1 max level holding another ciphertext's data, 2 in place (eEvaluate only)
	ltAlt   bool
	ctAlt   bool
	warm    int // 0: fresh evaluator; 1: WithKey copy of an evaluator already used for another transformation (shared buffers);
	// 2: the SAME evaluator, the keys of the transformation under test are added to its key set after it was created and used
	repeat   bool // the call is issued twice on the same input (out of place)
	keyLvlQ  bool // keys generated at exactly the level needed instead of the maximum
	describe string
}

// companion returns the index set of the i-th extra matrix of a Many/Sequential call: the mirror image
// of the first (so that it needs other rotations), resp. a dense matrix.
func companion(idx []int, n, which int) []int {
	if which == 1 {
		var r []int
		for _, k := range idx {
			r = append(r, -k)
		}
		if distinctModN(append(append([]int(nil), r...), 1), n) {
			r = append(r, 1)
		}
		return r
	}
	var r []int
	for k := 0; k < n; k++ {
		r = append(r, k)
	}
	return r
}

type scenarioCfg struct {
	sets      []diagSet
	ratio     int
	entries   []int
	dedicated bool   // small scenario that reports value failures of the known-defect input classes
	tag       string // non-empty: special input class, becomes part of every signature of the scenario
}

var ratioCycle = []int{-1, 0, 1, 2, 3}

func otherRatio(r, step int) int {
	for i, x := range ratioCycle {
		if x == r {
			return ratioCycle[(i+step)%len(ratioCycle)]
		}
	}
	return 1
}

func choosePlan[T any](c *engine.Chooser, a *adapter[T], cfg *scenarioCfg) plan {
	var p plan
	s := cfg.sets[c.ChooseFree(len(cfg.sets), "set")]
	p.entry = cfg.entries[c.ChooseFree(len(cfg.entries), "entry")]
	L := a.maxLevel
	ltLevel := L - c.Choose(L, "ltLevelQ") // L, L-1, .., 1
	// ciphertext level relative to the transformation's: at the top, equal, one below (if >= 1)
	ctOpts := []int{L}
	if ltLevel != L {
		ctOpts = append(ctOpts, ltLevel)
	}
	if ltLevel-1 >= 1 {
		ctOpts = append(ctOpts, ltLevel-1)
	}
	p.ctLevel = ctOpts[c.Choose(len(ctOpts), "ctLevel")]
	p.levelP = a.maxLvlP - c.Choose(a.maxLvlP+1, "levelP")
	switch p.entry {
	case eEvaluate:
		p.outMode = c.Choose(3, "out")
	case eMany1, eMany2, eMany3, eSeq2:
		p.outMode = c.Choose(2, "out")
	}
	p.ltAlt = c.Bool("ltScale")
	p.ctAlt = c.Bool("ctScale")
	p.warm = c.Choose(3, "warm")
	p.keyLvlQ = c.Bool("keyLevelQ")
	p.repeat = c.Bool("repeat")
	for m := 0; m < nMatrices(p.entry); m++ {
		mp := matrixPlan{idx: s.idx, ratio: cfg.ratio, levelQ: ltLevel}
		if m > 0 {
			mp.idx = companion(s.idx, a.n, m)
			mp.ratio = otherRatio(cfg.ratio, m)
			if m == 1 && ltLevel-1 >= 1 && (p.entry == eMany2 || p.entry == eMany3 || p.entry == eManyNew2) {
				mp.levelQ = ltLevel - 1 // transformations of one Many call at different levels
			}
			if m == 2 && ltLevel-2 >= 1 {
				mp.levelQ = ltLevel - 2
			}
		}
		p.mats = append(p.mats, mp)
	}
	shown := fmt.Sprint(s.idx)
	if len(s.idx) > 16 {
		shown = fmt.Sprintf("[%d .. %d, %d indexes]", s.idx[0], s.idx[len(s.idx)-1], len(s.idx))
	}
	p.describe = fmt.Sprintf("%s set=%s%s ratio=%d ltLevelQ=%d ctLevel=%d levelP=%d out=%d ltAlt=%v ctAlt=%v warm=%v keyLvlQ=%v repeat=%v",
		entryName[p.entry], s.name, shown, cfg.ratio, ltLevel, p.ctLevel, p.levelP, p.outMode, p.ltAlt, p.ctAlt, p.warm, p.keyLvlQ, p.repeat)
	return p
}

// ---------------------------------------------------------------------------------------------
// the leaf

func min2(a, b int) int {
	if a < b {
		return a
	}
	return b
}

// giantSteps over-estimates the number of outer (giant-step) key-switches of one transformation.
func giantSteps(idx []int) int { return len(idx) + 1 }

func runLeaf[T any](c *engine.Chooser, a *adapter[T], scName string, cfg *scenarioCfg) {
	p := choosePlan(c, a, cfg)
	c.Note("%s", p.describe)
	if a.minEvalLevel > 1 {
		lv := p.ctLevel
		for _, mp := range p.mats {
			lv = min2(lv, mp.levelQ)
		}
		if p.entry == eSeq2 || p.entry == eSeqNew2 {
			lv-- // the second product runs one level lower
		}
		if lv < a.minEvalLevel {
			c.Skip("noise budget of a product with this plaintext modulus needs a higher level")
			return
		}
		c.Cover("bgv-t", ">2^32")
	}
	sigBase := "C12/" + a.scheme + "/" + entryName[p.entry]
	if cfg.tag != "" {
		// one signature per special input class (the code path is shared by both schemes and all entry points)
		sigBase = "C12/lintrans/" + cfg.tag
		c.Cover("special", cfg.tag)
	}
	c.Cover("entry", a.scheme+"/"+entryName[p.entry])
	c.Cover("ratio", fmt.Sprint(cfg.ratio))
	c.Cover("ltLevelQ", levelBucket(p.mats[0].levelQ, a.maxLevel))
	c.Cover("levelP", levelBucket(p.levelP, a.maxLvlP))
	if a.maxLvlP == 2 && p.levelP == 0 {
		c.Cover("levelP", "lowest3")
	}
	c.Cover("ctLevel", relBucket(p.ctLevel, p.mats[0].levelQ))
	c.Cover("nDiags", sizeBucket(len(p.mats[0].idx), a.n))
	c.Cover("ltScale", fmt.Sprint(p.ltAlt))
	c.Cover("ctScale", fmt.Sprint(p.ctAlt))
	for _, k := range p.mats[0].idx {
		if k < 0 {
			c.Cover("index", "negative")
		} else if k > 0 {
			c.Cover("index", "positive")
		} else {
			c.Cover("index", "zero")
		}
	}

	// model input, ciphertext
	v := a.input()
	ctScale := a.ctScale(p.ctAlt)
	ct := a.ciphertext(c, "input", v, p.ctLevel, p.ctAlt)
	ctBackup := ct.CopyNew()
	ltScale := a.ltScale(p.ltAlt)

	// transformations
	var lts []lintrans.LinearTransformation
	var models []map[int][]T
	galSet := map[uint64]bool{}
	for m, mp := range p.mats {
		diags := map[int][]T{}
		for _, k := range mp.idx {
			r := ((k % a.n) + a.n) % a.n
			diags[k] = a.diag(m, r)
		}
		lp := lintrans.Parameters{
			DiagonalsIndexList:        append([]int(nil), mp.idx...),
			LevelQ:                    mp.levelQ,
			LevelP:                    p.levelP,
			Scale:                     ltScale,
			LogDimensions:             ct.LogDimensions,
			LogBabyStepGiantStepRatio: mp.ratio,
		}
		var lt lintrans.LinearTransformation
		var gals []uint64
		var err error
		if pe := recoverToErr(func() error { lt, gals, err = a.newLT(c, lp, diags); return nil }); pe != "" {
			c.Fail(sigBase+"/encode-panic", "%s: matrix %d idx=%v: %s", p.describe, m, mp.idx, pe)
			return
		}
		if err != nil {
			if cfg.tag != "" {
				// inputs outside the documented index range may be refused with an error
				c.Cover("rejected", cfg.tag+"/encode")
				c.Outcome("rejected-encode")
				return
			}
			c.Fail("C12/"+a.scheme+"/Encode/error", "%s: matrix %d idx=%v: %v", p.describe, m, mp.idx, err)
			return
		}
		if lt.N1 == 0 {
			c.Cover("algo", "naive")
		} else {
			c.Cover("algo", "bsgs")
			c.Cover("N1", fmt.Sprint(lt.N1))
		}
		for _, g := range gals {
			galSet[g] = true
		}
		lts = append(lts, lt)
		models = append(models, diags)
	}
	// keys for EXACTLY the advertised Galois elements
	var gals []uint64
	for g := range galSet {
		gals = append(gals, g)
	}
	sort.Slice(gals, func(i, j int) bool { return gals[i] < gals[j] })
	keyLevelQ := -1
	if p.keyLvlQ {
		for _, mp := range p.mats {
			if mp.levelQ > keyLevelQ {
				keyLevelQ = mp.levelQ
			}
		}
		keyLevelQ = min2(keyLevelQ, p.ctLevel)
	}
	evk := a.galoisKeys(c, gals, keyLevelQ, p.levelP)
	var ev ltEval
	if p.warm > 0 {
		// The evaluator is not fresh: it first computes another product with its own keys.
		//   warm=1: dense matrix; the evaluator under test is its WithKey copy, which shares the scratch buffers.
		//   warm=2: a single shift; the keys of the transformation under test are then ADDED to the key set the
		//           evaluator was created with (tables built lazily for keys that were not there at creation).
		widx, wratio := []int{1}, -1
		if p.warm == 1 {
			widx, wratio = nil, 1
			for k := 0; k < a.n; k++ {
				widx = append(widx, k)
			}
		}
		wd := map[int][]T{}
		for _, k := range widx {
			wd[k] = a.diag(2, k)
		}
		wlt, wgals, werr := a.newLT(c, lintrans.Parameters{DiagonalsIndexList: widx, LevelQ: a.maxLevel, LevelP: p.levelP,
			Scale: a.ltScale(false), LogDimensions: ct.LogDimensions, LogBabyStepGiantStepRatio: wratio}, wd)
		if werr != nil {
			c.Fail("C12/"+a.scheme+"/Encode/error", "%s: warm-up matrix: %v", p.describe, werr)
			return
		}
		wks := a.galoisKeys(c, wgals, -1, p.levelP)
		ev0, rekey := a.newEval(wks)
		wct := a.ciphertext(c, "warm-up", a.diag(1, 2), a.maxLevel, false)
		if _, werr = ev0.EvaluateNew(wct, wlt); werr != nil {
			c.Fail("C12/"+a.scheme+"/EvaluateNew/error", "%s: warm-up evaluation: %v", p.describe, werr)
			return
		}
		if p.warm == 1 {
			ev = rekey(evk)
			c.Cover("evaluator", "reused")
		} else {
			for g, k := range evk.GaloisKeys {
				wks.GaloisKeys[g] = k
			}
			ev = ev0
			c.Cover("evaluator", "late-keys")
		}
	} else {
		ev, _ = a.newEval(evk)
		c.Cover("evaluator", "fresh")
	}

	// run the entry point (all randomness so far came from the per-object seeds of the caches)
	uni.Seed(c, scName, p.describe)
	var outs []*rlwe.Ciphertext
	var err error
	fresh := func(i int) *rlwe.Ciphertext {
		lvl := min2(p.ctLevel, p.mats[i].levelQ)
		if p.outMode == 1 {
			// a receiver at the maximum level that already holds data (another encryption)
			return a.ciphertext(c, "receiver", a.diag(2, 1), a.maxLevel, !p.ctAlt)
		}
		return a.newCt(lvl)
	}
	inPlace := false
	call := func() error {
		outs = nil
		switch p.entry {
		case eEvaluateNew:
			var o *rlwe.Ciphertext
			o, err = ev.EvaluateNew(ct, lts[0])
			outs = []*rlwe.Ciphertext{o}
		case eEvaluate:
			o := fresh(0)
			if p.outMode == 2 {
				o, inPlace = ct, true
			}
			err = ev.Evaluate(ct, lts[0], o)
			outs = []*rlwe.Ciphertext{o}
		case eMany1, eMany2, eMany3:
			for i := range lts {
				outs = append(outs, fresh(i))
			}
			err = ev.EvaluateMany(ct, lts, outs)
		case eManyNew2:
			outs, err = ev.EvaluateManyNew(ct, lts)
		case eSeq2:
			o := fresh(0)
			err = ev.EvaluateSequential(ct, lts, o)
			outs = []*rlwe.Ciphertext{o}
		case eSeqNew2:
			var o *rlwe.Ciphertext
			o, err = ev.EvaluateSequentialNew(ct, lts)
			outs = []*rlwe.Ciphertext{o}
		}
		return nil
	}
	pe := recoverToErr(call)
	if pe != "" {
		c.Fail(sigBase+"/panic", "%s: %s", p.describe, pe)
		return
	}
	first, firstErr := outs, err
	// The same call once more on the same input, same evaluator, new receivers (out of place only): evaluation is
	// deterministic, so it must give the SAME ciphertexts; a difference means the first call changed its input,
	// the transformation or the evaluator.
	if p.repeat && !inPlace && err == nil {
		if pe2 := recoverToErr(call); pe2 != "" {
			c.Fail(sigBase+"/repeat/panic", "%s: second identical call: %s", p.describe, pe2)
			return
		}
		if err != nil {
			c.Fail(sigBase+"/repeat/error", "%s: second identical call: %v", p.describe, err)
			return
		}
		for i := range first {
			if first[i] != nil && outs[i] != nil && !first[i].Equal(outs[i]) {
				// the two known input classes read stale buffers, hence are history dependent: same class, same treatment
				known := false
				for m := range lts {
					known = known || naiveOnlyZero(lts[m])
				}
				known = known || (len(lts) > 1 && p.entry != eSeq2 && p.entry != eSeqNew2 && earlierGiantStep(lts[:len(lts)-1]))
				if known && cfg.tag == "" {
					c.Cover("demoted", "repeat-in-known-class")
					break
				}
				c.Fail(sigBase+"/repeat/differs", "%s: output %d of a second identical out-of-place call differs from the first", p.describe, i)
				break
			}
		}
		c.Cover("repeat", "yes")
	}
	outs, err = first, firstErr

	seq := p.entry == eSeq2 || p.entry == eSeqNew2
	// expected levels
	outLvl := func(i int) int { // level of receiver i before the call
		if p.entry == eEvaluateNew || p.entry == eManyNew2 || p.entry == eSeqNew2 {
			if seq {
				return p.mats[0].levelQ
			}
			return p.mats[i].levelQ
		}
		if inPlace {
			return p.ctLevel
		}
		if p.outMode == 1 {
			return a.maxLevel
		}
		return min2(p.ctLevel, p.mats[i].levelQ)
	}
	if seq {
		// M1(M0(ct)) with a Rescale after each product (doc of EvaluateSequential + scheme Rescale):
		// level l0 = min(receiver, ct, lt0) -> l0-1 -> l1 = min(l0-1, lt1) -> l1-1
		l0 := min2(outLvl(0), min2(p.ctLevel, p.mats[0].levelQ))
		l1 := min2(l0-1, p.mats[1].levelQ)
		if l0 < 1 || l1 < 1 {
			// Rescale documents an error at level 0: the call must be refused, not answered
			if err == nil {
				c.Fail(sigBase+"/level-too-low-accepted", "%s: no error although a Rescale at level 0 is needed", p.describe)
			} else {
				c.Cover("rejected", "sequential-level-too-low")
				c.Outcome("rejected")
			}
			return
		}
		if err != nil {
			c.Fail(sigBase+"/error", "%s: %v", p.describe, err)
			return
		}
		want := matvec(a.f, models[1], matvec(a.f, models[0], v, a.rows, a.n), a.rows, a.n)
		s0 := a.mulScale(a.fromScale(ctScale), ltScale)
		s0r := a.rescaleScale(s0, l0)
		s1 := a.mulScale(s0r, ltScale)
		s1r := a.rescaleScale(s1, l1)
		eps := 0.0
		if a.ltErr != nil {
			w0 := matvec(a.f, models[0], v, a.rows, a.n)
			e0 := a.ltErr(a.freshErr(ctScale), maxAbs(a.f, v), dmaxOf(a, models[0]), a.fromScale(ctScale), ltScale, l0, p.levelP, giantSteps(p.mats[0].idx))
			e0 += a.rescaleErr(s0r)
			e1 := a.ltErr(e0, maxAbs(a.f, w0), dmaxOf(a, models[1]), s0r, ltScale, l1, p.levelP, giantSteps(p.mats[1].idx))
			eps = e1 + a.rescaleErr(s1r)
		}
		class := ""
		if naiveOnlyZero(lts[0]) || naiveOnlyZero(lts[1]) {
			class = classNaiveOnlyZero
		}
		judge(c, a, sigBase, class, cfg.dedicated, p, 0, outs[0], l1-1, s1r, want, eps)
		c.Cover("checked", "sequential")
	} else {
		if err != nil {
			if cfg.tag != "" {
				c.Cover("rejected", cfg.tag+"/evaluate")
				c.Outcome("rejected-evaluate")
				return
			}
			c.Fail(sigBase+"/error", "%s: %v", p.describe, err)
			return
		}
		for i := range lts {
			lvl := min2(outLvl(i), min2(p.ctLevel, p.mats[i].levelQ))
			want := matvec(a.f, models[i], v, a.rows, a.n)
			s := a.mulScale(a.fromScale(ctScale), ltScale)
			eps := 0.0
			if a.ltErr != nil {
				// decomposition level of a Many call: min(max lt.LevelQ, ct.Level) (EvaluateMany)
				dl := 0
				for _, mp := range p.mats {
					if mp.levelQ > dl {
						dl = mp.levelQ
					}
				}
				dl = min2(dl, p.ctLevel)
				eps = a.ltErr(a.freshErr(ctScale), maxAbs(a.f, v), dmaxOf(a, models[i]), a.fromScale(ctScale), ltScale, dl, p.levelP, giantSteps(p.mats[i].idx))
			}
			class := ""
			if naiveOnlyZero(lts[i]) {
				class = classNaiveOnlyZero
			} else if i >= 1 && earlierGiantStep(lts[:i]) {
				class = classManyAfterGiant
			} else if i >= 1 {
				c.Cover("many", "no-earlier-giant-step")
			}
			judge(c, a, sigBase, class, cfg.dedicated, p, i, outs[i], lvl, s, want, eps)
		}
		c.Cover("checked", fmt.Sprintf("many%d", len(lts)))
	}
	// the input ciphertext is only read (unless it is the receiver)
	if !inPlace && !ct.Equal(ctBackup) {
		c.Fail(sigBase+"/input-modified", "%s: ctIn differs after the call", p.describe)
	}
}

// Input classes with a known defect (checks/c12/FINDINGS.md). A wrong VALUE in such a class is reported
// under the class signature by the small dedicated scenarios ("known-class/...") only; the broad scenarios
// count it under coverage bucket "demoted=<class>" instead. Reason: the engine keeps at most 200 violations
// per worker, and thousands of leaves fall in these classes; reporting each would crowd out any OTHER
// violation. Level and scale of such outputs, and all other outputs of the same leaf, are judged as usual.
// Once the defect is fixed the outputs compare equal and nothing is demoted.
const (
	classNaiveOnlyZero  = "naive-only-diagonal-0"         // FINDINGS #2
	classManyAfterGiant = "EvaluateMany-after-giant-step" // FINDINGS #1
)

// earlierGiantStep reports whether one of the transformations uses the baby-step giant-step algorithm
// with a non-zero giant step (public API only: N1 and BSGSIndex).
func earlierGiantStep(lts []lintrans.LinearTransformation) bool {
	for _, lt := range lts {
		if lt.N1 == 0 {
			continue
		}
		index, _, _ := lt.BSGSIndex()
		for j := range index {
			if j != 0 {
				return true
			}
		}
	}
	return false
}

// naiveOnlyZero: evaluated without BSGS and the only non-zero diagonal is diagonal 0.
func naiveOnlyZero(lt lintrans.LinearTransformation) bool {
	if lt.N1 != 0 || len(lt.Vec) != 1 {
		return false
	}
	_, ok := lt.Vec[0]
	return ok
}

func dmaxOf[T any](a *adapter[T], diags map[int][]T) []float64 {
	keys := make([]int, 0, len(diags))
	for k := range diags {
		keys = append(keys, k)
	}
	sort.Ints(keys)
	var r []float64
	for _, k := range keys {
		r = append(r, maxAbs(a.f, diags[k]))
	}
	return r
}

// judge compares one output ciphertext with the model: level, scale, values.
func judge[T any](c *engine.Chooser, a *adapter[T], sigBase, class string, dedicated bool, p plan, i int, out *rlwe.Ciphertext, wantLevel int, wantScale xscale, want []T, eps float64) {
	kind := "naive"
	if p.mats[i].ratio >= 0 {
		kind = "bsgs"
	}
	if out == nil {
		c.Fail(sigBase+"/nil-output", "%s: output %d is nil", p.describe, i)
		return
	}
	if out.Level() != wantLevel {
		c.Fail(sigBase+"/level", "%s: output %d at level %d, expected min(receiver, ctIn, lt.LevelQ)[-rescales] = %d", p.describe, i, out.Level(), wantLevel)
	}
	if !a.scaleOK(out.Scale, wantScale) {
		c.Fail(sigBase+"/scale", "%s: output %d scale %v, expected ct.scale*lt.scale[/q] = %v", p.describe, i, &out.Scale.Value, showScale(wantScale))
	}
	got := a.decode(out, wantScale)
	bad := -1
	for j := range want {
		if !a.equal(got[j], want[j], eps) {
			bad = j
			break
		}
	}
	if bad >= 0 {
		switch {
		case class == "":
			c.Fail(valueSig(sigBase, kind), "%s: output %d slot %d (eps=%.3g)\n got  %s\n want %s", p.describe, i, bad, eps, a.show(got), a.show(want))
		case dedicated:
			c.Fail("C12/lintrans/"+class+"/value", "%s: output %d slot %d (eps=%.3g)\n got  %s\n want %s", p.describe, i, bad, eps, a.show(got), a.show(want))
		default:
			c.Cover("demoted", class)
		}
	}
	if class != "" {
		c.Cover("class", class)
	}
	c.Outcome(a.scheme, a.show(want))
	c.Count(1)
}

func valueSig(sigBase, kind string) string {
	if len(sigBase) > 13 && sigBase[:13] == "C12/lintrans/" {
		return sigBase + "/value"
	}
	return sigBase + "/value/" + kind
}

func showScale(s xscale) string {
	if s.f != nil {
		return s.f.Text('g', 20)
	}
	return fmt.Sprint(s.u)
}

func recoverToErr(f func() error) (panicked string) {
	_, p := uni.Try(f)
	if p != nil {
		return fmt.Sprintf("panic: %v", p)
	}
	return ""
}

func levelBucket(l, max int) string {
	switch {
	case l == max:
		return "max"
	case l == max-1:
		return "max-1"
	case l <= 1 && max > 2:
		return "lowest"
	}
	return "mid"
}

func relBucket(ct, lt int) string {
	switch {
	case ct > lt:
		return "above-lt"
	case ct == lt:
		return "equal-lt"
	}
	return "below-lt"
}

func sizeBucket(k, n int) string {
	switch {
	case k == 1:
		return "1"
	case k == 2:
		return "2"
	case k == 3:
		return "3"
	case k == n:
		return "all"
	}
	return "4+"
}
