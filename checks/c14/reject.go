package main

import (
	"fmt"
	"math/big"
	"strings"

	"github.com/tuneinsight/lattigo/v6/core/rlwe"
	"github.com/tuneinsight/lattigo/v6/multiparty"

	"verif/engine"
	"verif/lib/mp"
	"verif/snap"
	"verif/uni"
)

// A rejection case gives every slot of one call (operands, output, key, crp) one of a few shapes
// (chosen through the Chooser: the full product). All slots equal = positive control: the call must
// succeed. Otherwise the statement demands an error: a panic and a nil error are both "not rejected".
type rejCase struct {
	name   string // coverage bucket "mismatch=<name>"
	sig    string // C14/<proto>/<Func>/mismatch-<what>-not-rejected
	chain  mp.Chain
	shapes []evkp   // alternatives per slot (for galEl: .b2 abused as the Galois element)
	slots  []string // slot names
	call   func(params rlwe.Parameters, P *mp.Parties, sh []evkp, r *rej) error
}

// rej records, right before the judged call, a deep snapshot (contents incl. unexported fields and metadata) of the
// receiver, the inputs and the callee. A call that refuses must leave all of them unchanged; post, when set, runs
// after a refusal and returns what else is wrong ("" = nothing): the previously valid receiver still verifies, the
// next legal call on the same protocol object equals the same call on a fresh object.
type rej struct {
	before *snap.Snapshot
	roots  []interface{}
	post   func() string
}

func (r *rej) watch(roots ...interface{}) {
	r.roots = roots
	r.before = mp.Snap(roots...)
}

func ep(params rlwe.Parameters, e evkp) rlwe.EvaluationKeyParameters {
	p, _, _ := evkParameters(params, cfg{lq: e.lq, lp: e.lp, b2: e.b2})
	return p
}

func evkShare(params rlwe.Parameters, P *mp.Parties, party int, e evkp) (multiparty.EvaluationKeyGenProtocol, multiparty.EvaluationKeyGenShare, multiparty.EvaluationKeyGenCRP) {
	pr := multiparty.NewEvaluationKeyGenProtocol(params)
	crp := pr.SampleCRP(mp.CRS(0), ep(params, e))
	sh := pr.AllocateShare(ep(params, e))
	if err := pr.GenShare(P.SK[party], P.SK[1-party], crp, &sh); err != nil {
		panic(fmt.Sprintf("harness: GenShare: %v", err))
	}
	return pr, sh, crp
}

func rlkShares(params rlwe.Parameters, P *mp.Parties, party int, e evkp) (multiparty.RelinearizationKeyGenProtocol, multiparty.RelinearizationKeyGenShare, multiparty.RelinearizationKeyGenShare) {
	pr := multiparty.NewRelinearizationKeyGenProtocol(params)
	crp := pr.SampleCRP(mp.CRS(0), ep(params, e))
	eph, r1, r2 := pr.AllocateShare(ep(params, e))
	pr.GenShareRoundOne(P.SK[party], crp, eph, &r1)
	pr.GenShareRoundTwo(eph, P.SK[party], r1, &r2)
	return pr, r1, r2
}

func evkAgg(params rlwe.Parameters, P *mp.Parties, sh []evkp, r *rej) error {
	pr, a, _ := evkShare(params, P, 0, sh[0])
	_, b, _ := evkShare(params, P, 1, sh[1])
	out := pr.AllocateShare(ep(params, sh[2]))
	r.watch("a", &a, "b", &b, "out", &out, "callee", &pr)
	r.post = func() string { // the next legal call on the same object equals the same call on a fresh object
		o1, o2 := pr.AllocateShare(ep(params, sh[0])), pr.AllocateShare(ep(params, sh[0]))
		e1 := pr.AggregateShares(a, a, &o1)
		e2 := multiparty.NewEvaluationKeyGenProtocol(params).AggregateShares(a, a, &o2)
		if e1 != nil || e2 != nil || !o1.Equal(&o2.GadgetCiphertext) {
			return fmt.Sprintf("the next legal AggregateShares on the same protocol object differs from a fresh object's (err %v / %v)", e1, e2)
		}
		return ""
	}
	return pr.AggregateShares(a, b, &out)
}

func evkGen(params rlwe.Parameters, P *mp.Parties, sh []evkp, r *rej) error {
	// the reference polynomials always match the share: only share vs. key shapes are "mismatched shares"
	pr, a, crp := evkShare(params, P, 0, sh[0])
	key := rlwe.NewEvaluationKey(params, ep(params, sh[1]))
	r.watch("share", &a, "crp", &crp, "key", key, "callee", &pr)
	return pr.GenEvaluationKey(a, crp, key)
}

func evkGenShare(params rlwe.Parameters, P *mp.Parties, sh []evkp, r *rej) error {
	pr := multiparty.NewEvaluationKeyGenProtocol(params)
	crp := pr.SampleCRP(mp.CRS(0), ep(params, sh[0]))
	s := pr.AllocateShare(ep(params, sh[1]))
	r.watch("crp", &crp, "share", &s, "skIn", P.SK[0], "skOut", P.SK[1])
	return pr.GenShare(P.SK[0], P.SK[1], crp, &s)
}

func rlkAgg(round int) func(params rlwe.Parameters, P *mp.Parties, sh []evkp, r *rej) error {
	return func(params rlwe.Parameters, P *mp.Parties, sh []evkp, r *rej) error {
		pr, a1, a2 := rlkShares(params, P, 0, sh[0])
		_, b1, b2 := rlkShares(params, P, 1, sh[1])
		_, o1, o2 := pr.AllocateShare(ep(params, sh[2]))
		if round == 1 {
			pr.AggregateShares(a1, b1, &o1)
		} else {
			pr.AggregateShares(a2, b2, &o2)
		}
		return nil // the method has no error result: returning at all means "combined"
	}
}

func rlkGen(params rlwe.Parameters, P *mp.Parties, sh []evkp, r *rej) error {
	pr, r1, _ := rlkShares(params, P, 0, sh[0])
	_, _, r2 := rlkShares(params, P, 0, sh[1])
	key := rlwe.NewRelinearizationKey(params, ep(params, sh[2]))
	pr.GenRelinearizationKey(r1, r2, key)
	return nil
}

func galAgg(params rlwe.Parameters, P *mp.Parties, sh []evkp, r *rej) error {
	pr := multiparty.NewGaloisKeyGenProtocol(params)
	crp := pr.SampleCRP(mp.CRS(0))
	var s [2]multiparty.GaloisKeyGenShare
	for i := range s {
		s[i] = pr.AllocateShare()
		if err := pr.GenShare(P.SK[i], uint64(sh[i].b2), crp, &s[i]); err != nil {
			panic(fmt.Sprintf("harness: GenShare: %v", err))
		}
	}
	out := pr.AllocateShare()
	r.watch("a", &s[0], "b", &s[1], "out", &out, "callee", &pr)
	return pr.AggregateShares(s[0], s[1], &out)
}

// galGenIntoValidKey: gk already holds the valid collective key of two parties for Galois element 5. A second
// GenGaloisKey into the same gk is given a share for element 25 generated with the slot's parameters: refused when
// they differ from the key's. The refusal must leave gk (key material and labels GaloisElement / NthRoot) untouched,
// gk must still be a key of the ideal secret for element 5, and the protocol object must still produce the same key.
func galGenIntoValidKey(params rlwe.Parameters, P *mp.Parties, sh []evkp, r *rej) error {
	base := ep(params, sh[1]) // the key's parameters
	pr := multiparty.NewGaloisKeyGenProtocol(params)
	crpA := pr.SampleCRP(mp.CRS(0), base)
	var aggA multiparty.GaloisKeyGenShare
	for i := 0; i < 2; i++ {
		s := pr.AllocateShare(base)
		if err := pr.GenShare(P.SK[i], 5, crpA, &s); err != nil {
			panic(fmt.Sprintf("harness: %v", err))
		}
		if i == 0 {
			aggA = s
		} else if err := pr.AggregateShares(aggA, s, &aggA); err != nil {
			panic(fmt.Sprintf("harness: %v", err))
		}
	}
	gk := rlwe.NewGaloisKey(params, base)
	if err := pr.GenGaloisKey(aggA, crpA, gk); err != nil {
		panic(fmt.Sprintf("harness: %v", err))
	}
	other := ep(params, sh[0])
	crpB := pr.SampleCRP(mp.CRS(1), other)
	shB := pr.AllocateShare(other)
	if err := pr.GenShare(P.SK[0], 25, crpB, &shB); err != nil {
		panic(fmt.Sprintf("harness: %v", err))
	}
	r.watch("key", gk, "share", &shB, "crp", &crpB, "callee", &pr)
	r.post = func() string {
		if gk.GaloisElement != 5 || gk.NthRoot != params.RingQ().NthRoot() {
			return fmt.Sprintf("the key is now labelled (galEl=%d, nthRoot=%d)", gk.GaloisElement, gk.NthRoot)
		}
		sI := mp.SecretInts(params, P.Ideal)
		nth, inv := params.RingQ().NthRoot(), uint64(1)
		for inv*5%nth != 1 {
			inv += 2
		}
		bound := new(big.Int).Mul(big.NewInt(2), mp.XeSup(params.Xe()))
		if worst := mp.KeyRowNoise(params, &gk.GadgetCiphertext, sI, mp.RingAuto(params, sI, inv)); worst.Cmp(bound) > 0 {
			return fmt.Sprintf("the previously valid key no longer verifies against the ideal secret (row error %v > %v)", worst, bound)
		}
		g1, g2 := rlwe.NewGaloisKey(params, base), rlwe.NewGaloisKey(params, base)
		e1 := pr.GenGaloisKey(aggA, crpA, g1)
		e2 := multiparty.NewGaloisKeyGenProtocol(params).GenGaloisKey(aggA, crpA, g2)
		if e1 != nil || e2 != nil || !galKeyEqual(g1, g2) || !galKeyEqual(g1, gk) {
			return fmt.Sprintf("the next legal GenGaloisKey on the same protocol object differs from a fresh object's / from the first key (err %v / %v)", e1, e2)
		}
		return ""
	}
	return pr.GenGaloisKey(shB, crpB, gk)
}

func galKeyEqual(a, b *rlwe.GaloisKey) bool {
	return a.GaloisElement == b.GaloisElement && a.NthRoot == b.NthRoot && a.GadgetCiphertext.Equal(&b.GadgetCiphertext)
}

func rejectCases() []rejCase {
	lq := []evkp{{lqMax, lpMax, 0}, {0, lpMax, 0}}
	lp := []evkp{{lqMax, lpMax, 0}, {lqMax, 0, 0}}
	b2 := []evkp{{lqMax, lpMax, 0}, {lqMax, lpMax, 7}, {lqMax, lpMax, 16}}
	abo := []string{"a", "b", "out"}
	return []rejCase{
		{"gal/galEl", "C14/gal/AggregateShares/mismatch-galEl-not-rejected", mp.ChainMid, []evkp{{b2: 5}, {b2: 25}}, []string{"a", "b"}, galAgg},
		{"gal/gen-into-valid-key", "C14/gal/GenGaloisKey/mismatch-not-rejected", mp.ChainMid, []evkp{{lqMax, lpMax, 0}, {0, lpMax, 0}, {lqMax, 0, 16}}, []string{"share", "key"}, galGenIntoValidKey},
		{"evk/levelQ", "C14/evk/AggregateShares/mismatch-levelQ-not-rejected", mp.ChainMid, lq, abo, evkAgg},
		{"evk/levelP", "C14/evk/AggregateShares/mismatch-levelP-not-rejected", mp.ChainMid, lp, abo, evkAgg},
		{"evk/base2", "C14/evk/AggregateShares/mismatch-base2-not-rejected", mp.ChainMixed, b2, abo, evkAgg},
		{"evk/gen-levelQ", "C14/evk/GenEvaluationKey/mismatch-levelQ-not-rejected", mp.ChainMid, lq, []string{"share", "key"}, evkGen},
		{"evk/gen-levelP", "C14/evk/GenEvaluationKey/mismatch-levelP-not-rejected", mp.ChainMid, lp, []string{"share", "key"}, evkGen},
		{"evk/gen-base2", "C14/evk/GenEvaluationKey/mismatch-base2-not-rejected", mp.ChainMid, []evkp{{lqMax, 0, 0}, {lqMax, 0, 16}}, []string{"share", "key"}, evkGen},
		{"evk/genshare-base2", "C14/evk/GenShare/mismatch-base2-not-rejected", mp.ChainMixed, b2, []string{"crp", "share"}, evkGenShare},
		{"evk/genshare-levelQ", "C14/evk/GenShare/mismatch-levelQ-not-rejected", mp.ChainMid, lq, []string{"crp", "share"}, evkGenShare},
		// RelinearizationKeyGenProtocol.AggregateShares / GenRelinearizationKey have no error result and validate
		// nothing: one defect per method whatever differs, hence one signature per method.
		{"rlk/levelQ", "C14/rlk/AggregateShares/mismatch-not-rejected", mp.ChainMid, lq, abo, rlkAgg(1)},
		{"rlk/levelP", "C14/rlk/AggregateShares/mismatch-not-rejected", mp.ChainMid, lp, abo, rlkAgg(2)},
		{"rlk/base2", "C14/rlk/AggregateShares/mismatch-not-rejected", mp.ChainMixed, b2, abo, rlkAgg(1)},
		{"rlk/gen-levelQ", "C14/rlk/GenRelinearizationKey/mismatch-not-rejected", mp.ChainMid, lq, []string{"round1", "round2", "key"}, rlkGen},
		{"rlk/gen-base2", "C14/rlk/GenRelinearizationKey/mismatch-not-rejected", mp.ChainMixed, b2, []string{"round1", "round2", "key"}, rlkGen},
	}
}

func rejectScenarios(tier string) []engine.Scenario {
	var out []engine.Scenario
	for _, rc := range rejectCases() {
		rc := rc
		nm := "reject/" + rc.name
		out = append(out, engine.Scenario{Name: nm, Bound: -1, Fn: func(c *engine.Chooser) {
			params := rc.chain.RLWE(true)
			uni.Seed(c, nm)
			P := mp.NewParties(params, 2)
			sh := make([]evkp, len(rc.slots))
			equal := true
			desc := ""
			for i, s := range rc.slots {
				v := c.Choose(len(rc.shapes), s)
				sh[i] = rc.shapes[v]
				equal = equal && sh[i] == sh[0]
				desc += fmt.Sprintf(" %s=%+v", s, sh[i])
			}
			r := &rej{}
			err, pan := uni.Try(func() error { return rc.call(params, P, sh, r) })
			c.State(nm, desc)
			fn := rc.sig[:strings.LastIndex(rc.sig, "/")] // C14/<proto>/<Func>
			switch {
			case equal && (err != nil || pan != nil):
				c.Fail(rc.sig+"/control", "matching shapes (%s) refused: err=%v panic=%v", desc, err, pan)
			case equal:
				c.Cover("mismatch-control", rc.name)
				c.Outcome(nm, "accepted")
			case pan != nil:
				c.Outcome(nm, "panic")
				c.Fail(rc.sig, "mismatched shapes (%s): panic instead of an error: %v", desc, pan)
			case err == nil:
				c.Outcome(nm, "combined")
				c.Fail(rc.sig, "mismatched shapes (%s): no error, shares silently combined", desc)
			default:
				c.Outcome(nm, "rejected")
				c.Cover("rejected", rc.name)
				// a refused call leaves receiver, inputs and callee as they were
				if r.before != nil {
					if d := mp.Changed(r.before, r.roots...); d != "" {
						c.Fail(fn+"/refused-call-modified-its-operands", "shapes (%s): the call returned %q but changed %s", desc, err, d)
					}
					c.Cover("refused-call", "operands-unchanged-checked")
				}
				if r.post != nil {
					if why := r.post(); why != "" {
						c.Fail(fn+"/state-after-refused-call", "shapes (%s), after the refusal %q: %s", desc, err, why)
					}
					c.Cover("refused-call", "aftermath-checked")
				}
			}
			c.Cover("mismatch", rc.name)
		}})
	}
	return out
}
