package main

import (
	"fmt"
	"io"
	"math/big"

	"github.com/tuneinsight/lattigo/v6/core/rlwe"
	"github.com/tuneinsight/lattigo/v6/multiparty"
	"github.com/tuneinsight/lattigo/v6/ring"

	"verif/engine"
	"verif/lib/mp"
	"verif/uni"
)

// degree2Ciphertext returns (c0,c1,c2) with c1,c2 uniform and c0 = m - c1*s - c2*s^2, i.e. a noiseless
// degree-2 ciphertext of a uniform plaintext m under sk (checked with the independent phase), in the
// domain the parameters ask for.
func degree2Ciphertext(params rlwe.Parameters, sk *rlwe.SecretKey, lvl int, key ...interface{}) (*rlwe.Ciphertext, []*big.Int) {
	rQ := params.RingQ().AtLevel(lvl)
	us := ring.NewUniformSampler(uni.KeyedPRNG(append(key, "deg2")...), rQ)
	m, c1, c2, t := rQ.NewPoly(), rQ.NewPoly(), rQ.NewPoly(), rQ.NewPoly()
	us.Read(m)
	us.Read(c1)
	us.Read(c2)
	// work in the NTT domain: sk.Value.Q is NTT+Montgomery, so MulCoeffsMontgomery(x, s) = x*s
	c0 := rQ.NewPoly()
	rQ.MulCoeffsMontgomery(c2, sk.Value.Q, t) // c2*s
	rQ.Add(t, c1, t)                          // c2*s + c1
	rQ.MulCoeffsMontgomery(t, sk.Value.Q, t)  // c2*s^2 + c1*s
	rQ.Sub(m, t, c0)
	ct := rlwe.NewCiphertext(params, 2, lvl)
	if !params.NTTFlag() {
		for _, p := range []ring.Poly{m, c0, c1, c2} {
			rQ.INTT(p, p)
		}
	}
	ct.Value[0].Copy(c0)
	ct.Value[1].Copy(c1)
	ct.Value[2].Copy(c2)
	want := uni.PolyCoeffs(params.RingQ(), m, lvl, params.NTTFlag(), false)
	if n := mp.NoiseInf(params, ct.El(), sk, want); n.Sign() != 0 {
		panic("harness: degree-2 ciphertext is not noiseless")
	}
	return ct, want
}

// rlkLeaf: RelinearizationKeyGenProtocol. proto rlk1 searches the lattice of the round-one shares
// (round two folded in index order), rlk2 the lattice of the round-two shares.
func rlkLeaf(c *engine.Chooser, name string, k cfg) {
	params := k.chain.RLWE(k.ntt)
	coverCfg(c, params, k)
	evkp, lq, _ := evkParameters(params, k)
	uni.Seed(c, name, "setup")
	P := mp.NewParties(params, k.n)
	sig := "C14/rlk"

	inst, hist := axes(c)
	alt := altEvkp(params, k, hist)
	protos := mp.Instances(inst, k.n, func() multiparty.RelinearizationKeyGenProtocol {
		return multiparty.NewRelinearizationKeyGenProtocol(params)
	},
		func(p multiparty.RelinearizationKeyGenProtocol) multiparty.RelinearizationKeyGenProtocol {
			return p.ShallowCopy()
		})
	crps := make([]multiparty.RelinearizationKeyGenCRP, k.n)
	eph := make([]*rlwe.SecretKey, k.n)
	r1 := make([]multiparty.RelinearizationKeyGenShare, k.n)
	r2 := make([]multiparty.RelinearizationKeyGenShare, k.n)
	for i := range protos {
		if hist > 0 { // the instance already ran both rounds for another shape with another key
			e0, a1, a2 := protos[i].AllocateShare(alt)
			// hist 1: the same key object at a lower shape; hist 2: another key at the maximal other shape
			protos[i].GenShareRoundOne(P.SK[(i+hist-1)%k.n], protos[i].SampleCRP(mp.CRS(1-k.crs), alt), e0, &a1)
			protos[i].GenShareRoundTwo(e0, P.SK[(i+hist-1)%k.n], a1, &a2)
		}
		crps[i] = protos[i].SampleCRP(mp.CRS(k.crs), evkp)
		eph[i], r1[i], r2[i] = protos[i].AllocateShare(evkp)
		protos[i].GenShareRoundOne(P.SK[i], crps[i], eph[i], &r1[i])
	}
	for i := 1; i < k.n; i++ {
		if !crps[i].Value.Equal(crps[0].Value) {
			c.Fail(sig+"/SampleCRP/parties-disagree", "party %d read different reference polynomials from the same CRS", i)
			return
		}
	}
	c.Cover("crs", "replayed")
	coverDigits(c, &r1[0].GadgetCiphertext)

	flat := func(tag string) func(s multiparty.RelinearizationKeyGenShare) mp.Flat {
		return func(s multiparty.RelinearizationKeyGenShare) mp.Flat {
			return mp.FlatGadget(params, &s.GadgetCiphertext, tag)
		}
	}
	ops := func(round int) mp.Ops[multiparty.RelinearizationKeyGenShare] {
		tag := [...]string{"", "rlk-round1", "rlk-round2"}[round]
		return mp.Ops[multiparty.RelinearizationKeyGenShare]{
			Sig: sig, Key: name + "#" + tag,
			New: func() multiparty.RelinearizationKeyGenShare {
				_, a, b := protos[0].AllocateShare(evkp)
				if round == 1 {
					return a
				}
				return b
			},
			Agg: func(a, b multiparty.RelinearizationKeyGenShare, out *multiparty.RelinearizationKeyGenShare) error {
				protos[0].AggregateShares(a, b, out)
				return nil
			},
			Hop: func(a multiparty.RelinearizationKeyGenShare) (r multiparty.RelinearizationKeyGenShare, err error) {
				err = hopGadget(a.MarshalBinary, r.UnmarshalBinary)
				return
			},
			Stream: func(a multiparty.RelinearizationKeyGenShare, wrap func(io.Reader) io.Reader) (multiparty.RelinearizationKeyGenShare, error) {
				return mp.StreamHop[multiparty.RelinearizationKeyGenShare](a, wrap)
			},
			Used: func(which int) multiparty.RelinearizationKeyGenShare {
				// the other round's share shape too: a round-one receiver (two polynomials per row) for a round-two share and conversely
				_, u1, u2 := protos[0].AllocateShare(mp.UsedShapes(params, which))
				r := u2
				if round == 2 {
					r = u1
				}
				mp.FillGadget(params, &r.GadgetCiphertext, name, "used-receiver", which, round)
				return r
			},
			Into: func(a multiparty.RelinearizationKeyGenShare, recv *multiparty.RelinearizationKeyGenShare) error {
				return hopGadget(a.MarshalBinary, recv.UnmarshalBinary)
			},
			Flat: flat(tag),
		}
	}
	agg1, ok := mp.FoldOrMerge(c, ops(1), r1, k.search(), k.proto == "rlk1")
	if !ok {
		return
	}
	for i := range protos {
		protos[i].GenShareRoundTwo(eph[i], P.SK[i], agg1, &r2[i])
	}
	agg2, ok := mp.FoldOrMerge(c, ops(2), r2, k.search(), k.proto == "rlk2")
	if !ok {
		return
	}
	c.Outcome(name, flat("1")(agg1).Hash(), flat("2")(agg2).Hash())

	rlk := rlwe.NewRelinearizationKey(params, evkp)
	if err, pan := uni.Try(func() error { protos[0].GenRelinearizationKey(agg1, agg2, rlk); return nil }); pan != nil || err != nil {
		c.Fail(sig+"/GenRelinearizationKey/panic", "on aggregates of matching shares (digits per modulus %v): %v", agg1.BaseTwoDecompositionVectorSize(), pan)
		return
	}

	if inst == 0 && hist == 0 {
		if ov := mp.Overlap([]interface{}{"key", rlk}, []interface{}{"round 1", &agg1, "round 2", &agg2, "protocol", &protos[0]}); ov != "" {
			c.Fail(sig+"/GenRelinearizationKey/output-aliases-input-or-callee", "%s", ov)
			return
		}
		if ov := mp.Overlap([]interface{}{"round-two share of party 0", &r2[0]}, []interface{}{"protocol", &protos[0], "ephemeral key", eph[0], "aggregated round 1", &agg1}); ov != "" && k.n > 1 {
			c.Fail(sig+"/GenShareRoundTwo/output-aliases-input-or-callee", "%s", ov)
			return
		}
		c.Cover("alias", "key-vs-inputs-and-callee")
	}
	// functional oracle: relinearisation of a noiseless degree-2 ciphertext under the ideal secret.
	// Key noise of the protocol: rlk0 + rlk1*s = P*w*s^2 + s*e0 + u*e1 + e2 with s, u sums of N ternary
	// polynomials and e0, e1, e2 sums of N errors: sup <= 2*N_ring*N*(N*B) + N*B.
	uni.Seed(c, name, "use")
	n, Nr, B := int64(k.n), mp.RingFactor(params), mp.XeSup(params.Xe()).Int64()
	E := big.NewInt(2*Nr*n*n*B + n*B)
	S := big.NewInt(n)
	// evaluator-independent oracle: every row is an RLWE sample under s of the gadget multiple of s^2 with error
	// s*e0 + u*e1 + e2 (<= E, see above)
	{
		sI := mp.SecretInts(params, P.Ideal)
		if worst := mp.KeyRowNoise(params, &rlk.GadgetCiphertext, mp.RingMul(params, sI, sI), sI); worst.Cmp(E) > 0 {
			c.Fail(sig+"/key-rows/not-samples-of-the-ideal-secret", "a row of the relinearisation key is not b = -a*s + P*w*s^2 + e with |e| <= %v: largest |e| = %v (%d parties)", E, worst, k.n)
			return
		}
		c.Cover("functional", "key-rows")
	}
	use := func(key *rlwe.RelinearizationKey, lvl int) (noise *big.Int, err error) {
		defer func() {
			if r := recover(); r != nil {
				err = fmt.Errorf("panic: %v", r)
			}
		}()
		ct, want := degree2Ciphertext(params, P.Ideal, lvl, name, "pt", lvl)
		out := rlwe.NewCiphertext(params, 1, lvl)
		if err := rlwe.NewEvaluator(params, rlwe.NewMemEvaluationKeySet(key)).Relinearize(ct, out); err != nil {
			return nil, err
		}
		return mp.NoiseInf(params, out.El(), P.Ideal, want), nil
	}
	for _, lvl := range levels(lq) {
		bound := mp.GadgetNoiseBound(params, lvl, &rlk.GadgetCiphertext, E, S)
		if new(big.Int).Lsh(bound, 3).Cmp(uni.QAtLevel(params, lvl)) > 0 {
			c.Cover("functional", "skipped-noise-bound-above-Q/8")
			continue
		}
		noise, err := use(rlk, lvl)
		if err == nil && noise.Cmp(bound) <= 0 {
			c.Note("relinearize level %d: noise %v <= bound %v", lvl, noise, bound)
			c.Cover("functional", "rlk-relinearize")
			continue
		}
		// "as a single-party key would": see evk.go
		single := rlwe.NewKeyGenerator(params).GenRelinearizationKeyNew(P.Ideal, evkp)
		if n1, e1 := use(single, lvl); e1 != nil || n1.Cmp(bound) > 0 {
			c.Cover("functional", "not-judged-single-party-key-fails-too")
			c.Note("relinearize level %d: collective key fails (err=%v noise=%v) and so does the single-party key (err=%v noise=%v), bound %v", lvl, err, noise, e1, n1, bound)
			continue
		}
		if err != nil {
			c.Fail(sig+"/use/error", "Relinearize at level %d: %v (the single-party key works)", lvl, err)
			return
		}
		c.Fail(sig+"/use/not-a-key-of-the-ideal-secret", "Relinearize at level %d: |phase - m| = %v > bound %v (%d parties); the single-party key for the ideal secret is within the bound", lvl, noise, bound, k.n)
		return
	}
}
