package main

import (
	"fmt"

	"github.com/tuneinsight/lattigo/v6/core/rlwe"
	"github.com/tuneinsight/lattigo/v6/multiparty"
	"github.com/tuneinsight/lattigo/v6/utils"

	"verif/engine"
	"verif/lib/mp"
	"verif/uni"
)

// crsCalls is the alphabet of SampleCRP calls; each returns the flattened reference polynomials.
// A party = its own protocol instances + its own CRS object with the common key.
type crsParty struct {
	params rlwe.Parameters
	crs    multiparty.CRS
	cpk    multiparty.PublicKeyGenProtocol
	rlk    multiparty.RelinearizationKeyGenProtocol
	gal    multiparty.GaloisKeyGenProtocol
	evk    multiparty.EvaluationKeyGenProtocol
	ks     multiparty.KeySwitchProtocol
}

func newCRSParty(params rlwe.Parameters, which int) *crsParty {
	ks, err := multiparty.NewKeySwitchProtocol(params, params.Xe())
	if err != nil {
		panic(err)
	}
	return &crsParty{params: params, crs: mp.CRS(which),
		cpk: multiparty.NewPublicKeyGenProtocol(params), rlk: multiparty.NewRelinearizationKeyGenProtocol(params),
		gal: multiparty.NewGaloisKeyGenProtocol(params), evk: multiparty.NewEvaluationKeyGenProtocol(params), ks: ks}
}

var crsCallNames = []string{"cpk", "rlk", "gal-b16", "evk-l0", "ks-l0", "ks-max"}

func (p *crsParty) call(i int) mp.Flat {
	f := mp.Flat{Tag: crsCallNames[i]}
	switch i {
	case 0:
		f.Rows = mp.RowsQP(nil, p.params, p.cpk.SampleCRP(p.crs).Value)
	case 1:
		for _, row := range p.rlk.SampleCRP(p.crs).Value {
			for _, x := range row {
				f.Rows = mp.RowsQP(f.Rows, p.params, x)
			}
		}
	case 2:
		for _, row := range p.gal.SampleCRP(p.crs, rlwe.EvaluationKeyParameters{LevelP: utils.Pointy(0), BaseTwoDecomposition: utils.Pointy(16)}).Value {
			for _, x := range row {
				f.Rows = mp.RowsQP(f.Rows, p.params, x)
			}
		}
	case 3:
		for _, row := range p.evk.SampleCRP(p.crs, rlwe.EvaluationKeyParameters{LevelQ: utils.Pointy(0)}).Value {
			for _, x := range row {
				f.Rows = mp.RowsQP(f.Rows, p.params, x)
			}
		}
	case 4:
		f.Rows = mp.RowsQ(nil, p.params.RingQ(), p.ks.SampleCRP(0, p.crs).Value)
	case 5:
		f.Rows = mp.RowsQ(nil, p.params.RingQ(), p.ks.SampleCRP(p.params.MaxLevel(), p.crs).Value)
	}
	return f
}

// crsScenarios: two parties replay every sequence of <= maxLen SampleCRP calls on their own CRS
// objects (same key) and must read identical polynomials at every step; a third reader with the
// other CRS key must not (non-vacuity: the polynomials do depend on the string).
func crsScenarios(tier string) []engine.Scenario {
	maxLen := 3
	var out []engine.Scenario
	for _, ch := range []mp.Chain{mp.ChainMid, mp.ChainMixed} {
		ch := ch
		nm := "crs/" + ch.Name
		out = append(out, engine.Scenario{Name: nm, Bound: -1, Fn: func(c *engine.Chooser) {
			params := ch.RLWE(true)
			uni.Seed(c, nm)
			A, B, Z := newCRSParty(params, 0), newCRSParty(params, 0), newCRSParty(params, 1)
			n := 1 + c.Choose(maxLen, "len")
			seq := ""
			for step := 0; step < n; step++ {
				i := c.Choose(len(crsCallNames), "call")
				seq += crsCallNames[i] + ","
				a, b, z := A.call(i), B.call(i), Z.call(i)
				c.State(nm, seq)
				if same, why := a.Equal(b); !same {
					c.Fail("C14/crs/same-call-sequence-different-polynomials", "after calls %s: %s", seq, why)
					return
				}
				if same, _ := a.Equal(z); same {
					c.Fail("C14/crs/polynomials-independent-of-the-string", "after calls %s the reader of a different CRS got the same polynomials", seq)
					return
				}
				c.Outcome(nm, a.Hash())
			}
			c.Cover("crs", "sequence-len-"+fmt.Sprint(n))
		}})
	}
	return out
}
