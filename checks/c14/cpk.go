package main

import (
	"fmt"
	"io"
	"math/big"

	"github.com/tuneinsight/lattigo/v6/core/rlwe"
	"github.com/tuneinsight/lattigo/v6/multiparty"

	"verif/engine"
	"verif/lib/mp"
	"verif/uni"
)

func coverCfg(c *engine.Chooser, params rlwe.Parameters, k cfg) {
	c.Cover("proto", k.proto)
	c.Cover("chain", k.chain.Name)
	c.Cover("ntt", fmt.Sprint(k.ntt))
	if k.proto != "cpk" {
		_, lq, lp := evkParameters(params, k)
		c.Cover("b2", fmt.Sprint(k.b2))
		c.Cover("lp", fmt.Sprint(lp))
		c.Cover("lq", fmt.Sprint(lq))
	}
}

// cpkEncryptBound is N_parties x the single-party worst case of a public-key encryption read under
// the secret. A public key is (-a*s+e, a); Encrypt computes (u*pk0 + e0 + m, u*pk1 + e1) (dividing
// u*pk by P first when an auxiliary modulus exists), so the phase is m + u*e + e0 + e1*s (+ rounding):
//
//	single party:  |u*e| <= N*B (u ternary, N-term convolution), |e0| <= B, |e1*s| <= N*B (s ternary),
//	               rounding of the division by P of both components, read under s: (#P+1)*(1+N)
//	N parties:     e is a sum of N errors (<= N*B), s a sum of N ternary keys (<= N): every term is at
//	               most N x its single-party bound.
func cpkEncryptBound(params rlwe.Parameters, parties int) *big.Int {
	N := mp.RingFactor(params) // terms per coefficient of a product in the ring
	B := mp.XeSup(params.Xe()).Int64()
	single := N*B + B + N*B
	if params.PCount() > 0 {
		single += int64(params.PCount()+1) * (1 + N)
	}
	return big.NewInt(int64(parties) * single)
}

func cpkLeaf(c *engine.Chooser, name string, k cfg) {
	params := k.chain.RLWE(k.ntt)
	coverCfg(c, params, k)
	uni.Seed(c, name, "setup")
	P := mp.NewParties(params, k.n)

	// every party has its own protocol instance (how it was obtained is an axis) and reads its own copy of the CRS
	inst, hist := axes(c)
	protos := mp.Instances(inst, k.n, func() multiparty.PublicKeyGenProtocol { return multiparty.NewPublicKeyGenProtocol(params) },
		func(p multiparty.PublicKeyGenProtocol) multiparty.PublicKeyGenProtocol { return p.ShallowCopy() })
	crps := make([]multiparty.PublicKeyGenCRP, k.n)
	shares := make([]multiparty.PublicKeyGenShare, k.n)
	for i := range protos {
		if hist > 0 { // the instance already served another run: the same key object with another CRS / another key
			scratch := protos[i].AllocateShare()
			protos[i].GenShare(P.SK[(i+hist-1)%k.n], protos[i].SampleCRP(mp.CRS(1-k.crs)), &scratch)
			protos[i].AggregateShares(scratch, scratch, &scratch)
		}
		crps[i] = protos[i].SampleCRP(mp.CRS(k.crs))
		shares[i] = protos[i].AllocateShare()
		protos[i].GenShare(P.SK[i], crps[i], &shares[i])
	}
	for i := 1; i < k.n; i++ {
		if !crps[i].Value.Equal(&crps[0].Value) {
			c.Fail("C14/cpk/SampleCRP/parties-disagree", "party %d read a different reference polynomial from the same CRS", i)
			return
		}
	}
	c.Cover("crs", "replayed")

	flat := func(s multiparty.PublicKeyGenShare) mp.Flat {
		return mp.Flat{Tag: "cpk", Rows: mp.RowsQP(nil, params, s.Value)}
	}
	ops := mp.Ops[multiparty.PublicKeyGenShare]{
		Sig: "C14/cpk", Key: name,
		New: func() multiparty.PublicKeyGenShare { return protos[0].AllocateShare() },
		Agg: func(a, b multiparty.PublicKeyGenShare, out *multiparty.PublicKeyGenShare) error {
			protos[0].AggregateShares(a, b, out)
			return nil
		},
		Hop: func(a multiparty.PublicKeyGenShare) (r multiparty.PublicKeyGenShare, err error) {
			var data []byte
			if data, err = a.MarshalBinary(); err != nil {
				return
			}
			err = r.UnmarshalBinary(data)
			return
		},
		Stream: func(a multiparty.PublicKeyGenShare, wrap func(io.Reader) io.Reader) (multiparty.PublicKeyGenShare, error) {
			return mp.StreamHop[multiparty.PublicKeyGenShare](a, wrap)
		},
		Flat: flat,
	}
	final, ok := mp.Merge(c, ops, shares, k.search())
	if !ok {
		return
	}
	c.Outcome(name, flat(final).Hash())

	pk := rlwe.NewPublicKey(params)
	protos[0].GenPublicKey(final, crps[0], pk)
	if inst == 0 && hist == 0 {
		// outputs never alias the callee's memory or the inputs: the key must survive reuse of the share, the
		// reference polynomial and the protocol object
		if ov := mp.Overlap([]interface{}{"public key", pk}, []interface{}{"aggregated share", &final, "crp", &crps[0], "protocol", &protos[0]}); ov != "" {
			c.Fail("C14/cpk/GenPublicKey/output-aliases-input-or-callee", "%s", ov)
			return
		}
		c.Cover("alias", "key-vs-inputs-and-callee")
	}

	// functional oracle: the collective key encrypts; read under the ideal secret
	uni.Seed(c, name, "use")
	enc := rlwe.NewEncryptor(params, pk)
	bound := cpkEncryptBound(params, k.n)
	for _, lvl := range levels(params.MaxLevel()) {
		if new(big.Int).Lsh(bound, 3).Cmp(uni.QAtLevel(params, lvl)) > 0 {
			c.Cover("functional", "skipped-noise-bound-above-Q/8")
			continue
		}
		pt, want := mp.UniformPlaintext(params, lvl, name, "pt", lvl)
		ct := rlwe.NewCiphertext(params, 1, lvl)
		if err := enc.Encrypt(pt, ct); err != nil {
			c.Fail("C14/cpk/encrypt/error", "Encrypt with the collective key at level %d: %v", lvl, err)
			return
		}
		noise := mp.NoiseInf(params, ct.El(), P.Ideal, want)
		c.Note("level %d: noise %v <= bound %v", lvl, noise, bound)
		if noise.Cmp(bound) > 0 {
			c.Fail("C14/cpk/encrypt/not-a-key-of-the-ideal-secret", "level %d: |phase_s(Enc_cpk(m)) - m| = %v > %d parties x single-party bound = %v", lvl, noise, k.n, bound)
			return
		}
		c.Cover("functional", "cpk-encrypt")
	}
}

// axes takes the two per-leaf axes every key protocol shares (non-free choices: each costs one deviation):
// how the parties' protocol objects were obtained, and whether they already served another run.
func axes(c *engine.Chooser) (inst, hist int) {
	inst = c.Choose(3, "instances")
	hist = c.Choose(3, "history")
	c.Cover("instances", mp.InstanceNames[inst])
	c.Cover("history", [...]string{"first-use", "after-run-at-lower-shape-same-keys", "after-run-at-other-shape-other-keys"}[hist])
	return
}

// levels returns {0, max} (deduplicated).
func levels(max int) []int {
	if max == 0 {
		return []int{0}
	}
	return []int{0, max}
}
