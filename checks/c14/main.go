// C14 — collective keys are keys of the ideal secret, whatever the share order.
//
// Explicit-state search over the merge lattice of share aggregation (lib/mp.Merge): state = the
// partition of the parties' shares into already-merged groups, transition = AggregateShares of two
// pending groups (optionally swapped / through serialization / in place). One scenario per
// (protocol, chain, evaluation-key parameters, number of parties); one leaf per path through the lattice.
package main

import (
	"fmt"
	"sort"
	"time"

	"verif/engine"
	"verif/lib/mp"
)

// cfg is one configuration (= one scenario).
type cfg struct {
	proto  string // cpk | rlk1 | rlk2 | gal | evk
	chain  mp.Chain
	ntt    bool // NTTFlag of the parameters (domain of ciphertexts in the functional oracle)
	n      int  // parties
	mode   mp.Mode
	bound  int // deviation bound: non-default merge variants (Full/Adjacent), also non-index-order steps (LeftDeep)
	lq, lp int // evaluation-key LevelQ / LevelP; lq = -1: max; lp = -2: max (lp = -1: no auxiliary modulus)
	b2     int // BaseTwoDecomposition
	galEl  uint64
	crs    int
}

func (k cfg) name() string {
	s := fmt.Sprintf("%s/%s/ntt=%v/N=%d/%s", k.proto, k.chain.Name, k.ntt, k.n, k.mode)
	if k.proto != "cpk" {
		s += fmt.Sprintf("/lq=%d/lp=%d/b2=%d", k.lq, k.lp, k.b2)
	}
	if k.proto == "gal" {
		s += fmt.Sprintf("/g=%d", k.galEl)
	}
	if k.crs != 0 {
		s += fmt.Sprintf("/crs=%d", k.crs)
	}
	return s
}

// weight estimates the number of leaves of a configuration.
func weight(k cfg) int {
	w := mp.Histories(k.mode, k.n)
	if k.mode == mp.LeftDeep {
		w = 40 * k.n * k.n
		for b := 1; b < k.bound; b++ {
			w *= 4 * k.n
		}
	} else if k.bound > 0 {
		w *= 8 * k.n
		if k.bound > 1 {
			w *= 4 * k.n
		}
	}
	return w
}

func (k cfg) search() mp.Search { return mp.Search{Mode: k.mode, Variants: true} }

func scenarios(tier string) []engine.Scenario {
	out := append(rejectScenarios(tier), crsScenarios(tier)...) // small scenarios first
	add := func(k cfg) {
		k2 := k
		nm := k2.name()
		var fn func(c *engine.Chooser)
		switch k2.proto {
		case "cpk":
			fn = func(c *engine.Chooser) { cpkLeaf(c, nm, k2) }
		case "rlk1", "rlk2":
			fn = func(c *engine.Chooser) { rlkLeaf(c, nm, k2) }
		case "gal", "evk":
			fn = func(c *engine.Chooser) { evkLeaf(c, nm, k2) }
		}
		out = append(out, engine.Scenario{Name: nm, Bound: k2.bound, Fn: fn})
	}
	cat := catalogue(tier)
	// cheapest first: when the internal deadline strikes on a loaded machine, depth is lost, not breadth
	sort.SliceStable(cat, func(i, j int) bool { return weight(cat[i]) < weight(cat[j]) })
	for _, k := range cat {
		add(k)
	}
	return out
}

func main() {
	engine.Main(engine.Check{
		ID:    "C14",
		Level: "model_checking",
		Rule: "One scenario per (protocol CPK/RLK round 1/RLK round 2/GAL/EVK, modulus chain incl. three conjugate-invariant rings of even and odd log N, NTT flag, evaluation-key parameters LevelQ/LevelP/BaseTwoDecomposition, Galois element (the whole group on the default chains), number of parties N). " +
			"Inside, the merge lattice of share aggregation is searched: state = partition of the N party shares into merged groups, transition = AggregateShares(a,b) of two pending groups. " +
			"mode full (N<=4, CPK <=5 quick; <=5, CPK <=6 thorough): every pair at every step = every order and every tree shape (N!(N-1)!/2^(N-1) histories); mode adjacent: every tree shape in index order ((N-1)! histories); " +
			"mode leftdeep (N=6..8): every fold order within <= `bound` departures from index order (the cap: 2 quick, 3 thorough). Per merge one of 10 variants (for CPK 8) (plain, operands swapped, MarshalBinary hop of either operand, output aliasing either operand, " +
			"WriteTo/ReadFrom hop of the first operand over a one-byte-per-read transport / of the second over a transport whose first read ends at byte 5, UnmarshalBinary of the first / second operand into a receive buffer that already holds a share of the largest / smallest shape). Chains include one with 60/61-bit primes in Q and P at 5..8 parties. Two more non-free axes per leaf: how the parties' protocol objects were obtained " +
			"(ShallowCopies of party 0's, all constructed, a chain of copies) and what they did before (nothing / a run at a lower shape with the same key objects / a run at another shape with other keys). At most `bound` (1; 2 in thorough for N<=3) non-default answers over all non-free axes. " +
			"Every transition is compared with the coefficient-wise modular sum of the member shares (so equal partitions hold equal shares and all terminal states coincide); " +
			"each terminal state's key is then used by the single-party encryptor/evaluator and read with an independent, ring-type aware phase computation under the ideal secret sum(s_i). " +
			"Mismatch scenarios enumerate every operand position of a share with a different Galois element / level / decomposition; a refused call must leave receiver, inputs and callee deep-equal (reflective snapshot incl. labels and metadata) to what they were, a previously valid receiver must still verify against the ideal secret, and the next legal call on the same protocol object must equal the same call on a fresh object; CRS scenarios replay every call sequence of length <=3 by two parties.",
		Assumptions: []string{
			"all parties use the same parameters, the same CRS key and the same sequence of SampleCRP calls",
			"noise bound: N x the support-derived single-party worst case (Xe truncated at floor(6 sigma+0.5), ternary secrets; a product in the ring has N terms per coefficient, 2N in the conjugate-invariant ring) for CPK/GAL/EVK; for RLK the support-derived N-party worst case (its s*e0+u*e1 term is a product of two N-party sums, hence quadratic in N: no linear worst-case bound exists)",
			"functional oracle only where the worst-case noise bound is below Q/8 (otherwise the phase carries no information)",
			"every EVK/GAL/RLK key is also judged without any evaluator: each row must be an RLWE sample of the gadget multiple of the ideal input secret under the ideal output secret with error <= N*B (RLK: the N-party bound above); this also judges the shapes the evaluator cannot use",
			"a key whose single-party counterpart (rlwe.KeyGenerator, same ideal secret, same parameters) fails the same functional test is outside the statement ('as a single-party key would')",
			"conjugate-invariant ring: Galois elements are taken in the subgroup <5> modulo 4N (the representatives the library indexes its automorphisms by)",
			"protocol objects are used sequentially (sharing of scratch memory between ShallowCopies is C10's subject)",
		},
		Scenarios:      scenarios,
		QuickBudget:    150 * time.Second,
		ThoroughBudget: 25 * time.Minute,
		Expect:         expect,
	})
}

func expect(tier string) []string {
	e := []string{
		"proto=cpk", "proto=rlk1", "proto=rlk2", "proto=gal", "proto=evk",
		"merge-mode=full", "merge-mode=leftdeep", "merge-mode=adjacent",
		"merge-variant=plain", "merge-variant=swap", "merge-variant=hop-first", "merge-variant=hop-second", "merge-variant=alias-first", "merge-variant=alias-second",
		"merge-variant=stream-first-1byte", "merge-variant=stream-second-split5", "merge-variant=decode-first-into-used-receiver-A", "merge-variant=decode-second-into-used-receiver-B",
		"instances=copies-of-party0", "instances=all-constructed", "instances=chain-of-copies",
		"history=first-use", "history=after-run-at-lower-shape-same-keys", "history=after-run-at-other-shape-other-keys",
		"parties=1", "parties=2", "parties=3", "parties=4", "parties=5", "parties=6", "parties=7", "parties=8",
		"chain=mid", "chain=mixed", "chain=mixup", "chain=nop", "chain=big", "chain=big61", "chain=midci", "chain=mixedci", "chain=nopci",
		"ntt=true", "ntt=false", "b2=0", "b2=7", "b2=16", "lp=-1", "lp=0", "lp=1", "lq=0",
		"functional=key-rows", "functional=cpk-encrypt", "functional=rlk-relinearize", "functional=gal-automorphism", "functional=evk-reencrypt",
		"digits=unequal", "crs=replayed",
		"mismatch=gal/galEl", "mismatch=gal/gen-into-valid-key", "refused-call=operands-unchanged-checked", "refused-call=aftermath-checked", "alias=key-vs-inputs-and-callee", "mismatch=evk/levelQ", "mismatch=evk/levelP", "mismatch=evk/base2", "mismatch=rlk/levelQ", "mismatch=rlk/base2",
	}
	for g := uint64(1); g < 32; g += 2 {
		e = append(e, fmt.Sprintf("galEl=%d", g))
	}
	e = append(e, "galEl=61", "galEl=125") // conjugate-invariant rings: -3 modulo 64 and 128
	return e
}
