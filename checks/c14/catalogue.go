package main

import (
	"verif/lib/mp"
)

// quickGalEls is a covering subset of the Galois group (Z/32)^* of the N=16 ring: the two generators
// 5 (rotations) and 31 = -1 (conjugation), a power of 5 (25), an element of the -1 coset (27 = -5), and 3.
var quickGalEls = []uint64{5, 31, 25, 27, 3}

const (
	lqMax = -1
	lpMax = -2
)

// evkp are the evaluation-key parameterisations of a chain: (LevelQ, LevelP, BaseTwoDecomposition).
type evkp struct{ lq, lp, b2 int }

func evkParamsOf(ch mp.Chain, tier string) []evkp {
	var r []evkp
	switch ch.Name {
	case "mid", "mid5": // 3 Q, 2 P: RNS decomposition with alpha=2 (levelP=1, #P does not divide #Q) or alpha=1 (levelP=0), base two only with levelP=0
		r = []evkp{{lqMax, lpMax, 0}, {lqMax, 0, 0}, {lqMax, 0, 7}, {lqMax, 0, 16}, {0, lpMax, 0}, {0, 0, 16}, {1, lpMax, 0}}
		if tier == "thorough" {
			r = append(r, evkp{1, 0, 7}, evkp{lqMax, lpMax, 16}, evkp{lqMax, -1, 7}, evkp{lqMax, -1, 16})
		}
	case "mixed", "mixup": // unequal prime sizes, 1 P: the per-modulus digit counts differ for base two 7 and 16
		r = []evkp{{lqMax, lpMax, 0}, {lqMax, lpMax, 7}, {lqMax, lpMax, 16}, {1, lpMax, 16}, {0, lpMax, 7}}
		if tier == "thorough" {
			r = append(r, evkp{lqMax, -1, 16}, evkp{2, lpMax, 7})
		}
	case "nop": // no auxiliary modulus: LevelP = -1
		r = []evkp{{lqMax, -1, 0}, {lqMax, -1, 7}, {lqMax, -1, 16}, {0, -1, 16}}
	case "big":
		r = []evkp{{lqMax, lpMax, 0}, {lqMax, lpMax, 16}}
	}
	return r
}

func catalogue(tier string) []cfg {
	th := tier == "thorough"
	var r []cfg
	chains := []mp.Chain{mp.ChainMid, mp.ChainMixed, mp.ChainMixup, mp.ChainNoP}
	if th {
		chains = append(chains, mp.ChainBig)
	}
	fullMax := 4
	vb := 1 // deviation bound on merge variants
	if th {
		fullMax = 5
	}
	bnd := func(n int) int {
		if th && n <= 4 {
			return 2
		}
		return vb
	}

	// CPK: every chain, both ciphertext domains, 1..fullMax parties in full; 6..8 leftdeep + adjacent
	for _, ch := range chains {
		for _, ntt := range []bool{true, false} {
			for n := 1; n <= fullMax; n++ {
				if !ntt && n != 3 {
					continue
				}
				r = append(r, cfg{proto: "cpk", chain: ch, ntt: ntt, n: n, mode: mp.Full, bound: bnd(n)})
			}
		}
	}
	r = append(r, cfg{proto: "cpk", chain: mp.ChainMid, ntt: true, n: 3, mode: mp.Full, bound: bnd(3), crs: 1})
	big := []int{6, 8}
	if th {
		big = []int{6, 7, 8}
	}
	for _, n := range big {
		ld := 2
		if th {
			ld = 3
		}
		r = append(r, cfg{proto: "cpk", chain: mp.ChainMid, ntt: true, n: n, mode: mp.LeftDeep, bound: ld})
		if n <= 7 || th {
			r = append(r, cfg{proto: "cpk", chain: mp.ChainMixed, ntt: true, n: n, mode: mp.Adjacent, bound: 0})
		}
	}

	// RLK (round-1 lattice with round 2 folded in index order, and the converse), EVK, GAL x evk parameters
	for _, ch := range chains {
		for _, e := range evkParamsOf(ch, tier) {
			ns := []int{2, 3}
			if th {
				ns = []int{1, 2, 3, 4}
			}
			for _, n := range ns {
				for _, proto := range []string{"rlk1", "rlk2", "evk"} {
					r = append(r, cfg{proto: proto, chain: ch, ntt: true, n: n, mode: mp.Full, bound: bnd(n), lq: e.lq, lp: e.lp, b2: e.b2})
				}
			}
			// GAL on every evk parameterisation with one rotation and the conjugation
			for _, g := range []uint64{5, 31} {
				r = append(r, cfg{proto: "gal", chain: ch, ntt: true, n: 3, mode: mp.Full, bound: bnd(3), lq: e.lq, lp: e.lp, b2: e.b2, galEl: g})
			}
		}
	}
	// one 4-party (quick) / 5-party (thorough) run of each key protocol, non-NTT ciphertext domain, second CRS
	for _, proto := range []string{"rlk1", "rlk2", "evk", "gal"} {
		r = append(r, cfg{proto: proto, chain: mp.ChainMid, ntt: false, n: fullMax, mode: mp.Full, bound: vb, lq: lqMax, lp: lpMax, galEl: 5, crs: 1})
		r = append(r, cfg{proto: proto, chain: mp.ChainMixed, ntt: true, n: 6, mode: mp.LeftDeep, bound: 2, lq: lqMax, lp: lpMax, b2: 16, galEl: 5})
	}
	// GAL: Galois elements of the group (all 16 in thorough, covering subset in quick) on the default parameters
	gs := quickGalEls
	if th {
		gs = nil
		for g := uint64(1); g < 32; g += 2 {
			gs = append(gs, g)
		}
	}
	for _, g := range gs {
		if g == 5 || g == 31 {
			continue // already above
		}
		r = append(r, cfg{proto: "gal", chain: mp.ChainMid, ntt: true, n: 3, mode: mp.Full, bound: bnd(3), lq: lqMax, lp: lpMax, galEl: g})
		if th {
			r = append(r, cfg{proto: "gal", chain: mp.ChainMixed, ntt: true, n: 2, mode: mp.Full, bound: 2, lq: lqMax, lp: lpMax, b2: 16, galEl: g})
		}
	}
	return r
}
