package main

import (
	"verif/lib/mp"
)

// quickGalEls is a covering subset of the Galois group (Z/32)^* of the N=16 ring: the two generators
// 5 (rotations) and 31 = -1 (conjugation), a power of 5 (25), an element of the -1 coset (27 = -5), and 3.
var quickGalEls = []uint64{5, 31, 25, 27, 3}

const (
	lqMax = -1
	lpMax = -2
)

// evkp are the evaluation-key parameterisations of a chain: (LevelQ, LevelP, BaseTwoDecomposition).
type evkp struct{ lq, lp, b2 int }

func evkParamsOf(ch mp.Chain, tier string) []evkp {
	var r []evkp
	switch ch.Name {
	case "mid", "mid5", "midci": // 3 Q, 2 P: RNS decomposition with alpha=2 (levelP=1, #P does not divide #Q) or alpha=1 (levelP=0), base two only with levelP=0
		r = []evkp{{lqMax, lpMax, 0}, {lqMax, 0, 0}, {lqMax, 0, 7}, {lqMax, 0, 16}, {0, lpMax, 0}, {0, 0, 16}, {1, lpMax, 0},
			{1, 0, 7}, {lqMax, lpMax, 16}, {lqMax, -1, 7}, {lqMax, -1, 16}}
		if tier == "thorough" {
			r = append(r, evkp{lqMax, -1, 0}, evkp{0, -1, 7}, evkp{1, 0, 0}, evkp{0, 0, 0})
		}
	case "mixed", "mixup", "mixedci": // unequal prime sizes, 1 P: the per-modulus digit counts differ for base two 7 and 16
		r = []evkp{{lqMax, lpMax, 0}, {lqMax, lpMax, 7}, {lqMax, lpMax, 16}, {1, lpMax, 16}, {0, lpMax, 7}, {lqMax, -1, 16}, {2, lpMax, 7}}
		if tier == "thorough" {
			r = append(r, evkp{lqMax, -1, 7}, evkp{lqMax, -1, 0}, evkp{1, lpMax, 0}, evkp{2, -1, 16})
		}
	case "nop", "nopci": // no auxiliary modulus: LevelP = -1
		r = []evkp{{lqMax, -1, 0}, {lqMax, -1, 7}, {lqMax, -1, 16}, {0, -1, 16}, {0, -1, 0}}
	case "big":
		r = []evkp{{lqMax, lpMax, 0}, {lqMax, lpMax, 16}, {0, lpMax, 7}}
	case "big61": // 3 Q, 2 P of 60..61 bits
		r = []evkp{{lqMax, lpMax, 0}, {lqMax, 0, 16}, {1, 0, 0}}
	}
	return r
}

// galElsOf: the Galois elements exercised on a chain. Standard ring of degree 16: the group (Z/32)^* (all of it in
// thorough and on the default chain in quick). Conjugate-invariant ring: X -> X^g acts on Z[X+X^-1]; g and -g give
// the same map and the library indexes the maps by the representative in <5> (g = 1 mod 4): 5, 25, 5^3 = -3, 9;
// with all: the whole subgroup <5> modulo 4N.
func galElsOf(ch mp.Chain, all bool) []uint64 {
	nth := uint64(1) << uint(ch.LogN+1)
	if ch.CI {
		nth <<= 1
		if !all {
			return []uint64{5, 25, nth - 3, 9}
		}
		var gs []uint64
		for g := uint64(1); g < nth; g += 4 {
			gs = append(gs, g)
		}
		return gs
	}
	if !all {
		return quickGalEls
	}
	var gs []uint64
	for g := uint64(1); g < nth; g += 2 {
		gs = append(gs, g)
	}
	return gs
}

func catalogue(tier string) []cfg {
	th := tier == "thorough"
	var r []cfg
	chains := []mp.Chain{mp.ChainMid, mp.ChainMixed, mp.ChainMixup, mp.ChainNoP, mp.ChainBig, mp.ChainBig61, mp.ChainMidCI, mp.ChainMixedCI, mp.ChainNoPCI}
	fullMax := 4
	if th {
		fullMax = 5
	}
	bnd := func(n int) int { // deviation bound on the non-free axes (merge variants, instances, history)
		if th && n <= 3 {
			return 2
		}
		return 1
	}

	// CPK: every chain, both ciphertext domains, 1..fullMax parties in full (one more on the default chain)
	for _, ch := range chains {
		for _, ntt := range []bool{true, false} {
			top := fullMax
			if ch.Name == "mid" && ntt {
				top++
			}
			for n := 1; n <= top; n++ {
				if !ntt && n != 3 {
					continue
				}
				b := bnd(n)
				if n == 6 {
					b = 0 // 2700 histories: plain merges only
				}
				r = append(r, cfg{proto: "cpk", chain: ch, ntt: ntt, n: n, mode: mp.Full, bound: b})
			}
		}
	}
	r = append(r, cfg{proto: "cpk", chain: mp.ChainMid, ntt: true, n: 3, mode: mp.Full, bound: bnd(3), crs: 1})
	// 6..8 parties: left-deep fold orders within `ld` departures from index order (the cap), and every tree shape in index order
	ld := 2
	if th {
		ld = 3
	}
	for _, n := range []int{6, 7, 8} {
		r = append(r, cfg{proto: "cpk", chain: mp.ChainMid, ntt: true, n: n, mode: mp.LeftDeep, bound: ld})
		r = append(r, cfg{proto: "cpk", chain: mp.ChainMidCI, ntt: true, n: n, mode: mp.LeftDeep, bound: ld - 1})
		if n <= 7 || th {
			r = append(r, cfg{proto: "cpk", chain: mp.ChainMixed, ntt: true, n: n, mode: mp.Adjacent, bound: 0})
		}
	}

	// RLK (round-1 lattice with round 2 folded in index order, and the converse), EVK, GAL x evk parameters
	for _, ch := range chains {
		for _, e := range evkParamsOf(ch, tier) {
			ns := []int{1, 2, 3}
			if th || ch.Name == "mid" || ch.Name == "mixed" || ch.Name == "midci" || ch.Name == "big61" {
				ns = []int{1, 2, 3, 4}
			}
			if th && ch.Name == "mid" && e.lq == lqMax && e.b2 != 7 {
				ns = append(ns, 5)
			}
			for _, n := range ns {
				for _, proto := range []string{"rlk1", "rlk2", "evk"} {
					r = append(r, cfg{proto: proto, chain: ch, ntt: true, n: n, mode: mp.Full, bound: bnd(n), lq: e.lq, lp: e.lp, b2: e.b2})
				}
			}
			// GAL on every evk parameterisation with a rotation and an element of the other coset
			gs := galElsOf(ch, false)
			for _, g := range []uint64{gs[0], gs[len(gs)-2]} {
				r = append(r, cfg{proto: "gal", chain: ch, ntt: true, n: 3, mode: mp.Full, bound: bnd(3), lq: e.lq, lp: e.lp, b2: e.b2, galEl: g})
			}
		}
	}
	// larger party counts of each key protocol: full lattice at fullMax, non-NTT ciphertext domain, second CRS; capped left-deep at 6 and 8
	for _, proto := range []string{"rlk1", "rlk2", "evk", "gal"} {
		r = append(r, cfg{proto: proto, chain: mp.ChainMid, ntt: false, n: fullMax, mode: mp.Full, bound: 1, lq: lqMax, lp: lpMax, galEl: 5, crs: 1})
		r = append(r, cfg{proto: proto, chain: mp.ChainMixed, ntt: true, n: 6, mode: mp.LeftDeep, bound: ld, lq: lqMax, lp: lpMax, b2: 16, galEl: 5})
		r = append(r, cfg{proto: proto, chain: mp.ChainNoP, ntt: true, n: 8, mode: mp.LeftDeep, bound: ld - 1, lq: lqMax, lp: -1, b2: 7, galEl: 5})
		r = append(r, cfg{proto: proto, chain: mp.ChainMixedCI, ntt: true, n: 7, mode: mp.LeftDeep, bound: ld - 1, lq: lqMax, lp: lpMax, b2: 0, galEl: 5})
	}
	// 60/61-bit primes in Q and P with 5..8 parties: where sums of lazily reduced shares would first leave 64 bits
	for _, proto := range []string{"cpk", "rlk1", "rlk2", "evk", "gal"} {
		for _, n := range []int{5, 6, 7, 8} {
			for _, e := range []evkp{{lqMax, lpMax, 0}, {lqMax, 0, 16}} {
				if proto == "cpk" && e.b2 != 0 {
					continue
				}
				r = append(r, cfg{proto: proto, chain: mp.ChainBig61, ntt: true, n: n, mode: mp.LeftDeep, bound: ld - 1, lq: e.lq, lp: e.lp, b2: e.b2, galEl: 5})
			}
		}
		if proto != "cpk" {
			r = append(r, cfg{proto: proto, chain: mp.ChainBig61, ntt: true, n: 5, mode: mp.Adjacent, bound: 0, lq: lqMax, lp: lpMax, b2: 0, galEl: 27})
		}
	}
	// GAL: every Galois element of the group on the default parameters; in thorough also on the unequal-size chain
	for _, ch := range []mp.Chain{mp.ChainMid, mp.ChainMixed, mp.ChainMidCI, mp.ChainMixedCI, mp.ChainNoPCI} {
		if ch.Name == "mixed" && !th {
			continue
		}
		b2 := 0
		if ch.Name == "mixed" || ch.Name == "mixedci" {
			b2 = 16
		}
		lp := lpMax
		if len(ch.PBits) == 0 {
			lp, b2 = -1, 7
		}
		for _, g := range galElsOf(ch, true) {
			r = append(r, cfg{proto: "gal", chain: ch, ntt: true, n: 2, mode: mp.Full, bound: bnd(2), lq: lqMax, lp: lp, b2: b2, galEl: g, crs: 1})
		}
	}
	return r
}
