package main

import (
	"fmt"
	"io"
	"math/big"

	"github.com/tuneinsight/lattigo/v6/core/rlwe"
	"github.com/tuneinsight/lattigo/v6/multiparty"
	"github.com/tuneinsight/lattigo/v6/ring"
	"github.com/tuneinsight/lattigo/v6/ring/ringqp"
	"github.com/tuneinsight/lattigo/v6/utils"

	"verif/engine"
	"verif/lib/mp"
	"verif/lib/rk"
	"verif/ref"
	"verif/uni"
)

// evkParameters resolves the scenario's (lq, lp, b2) against the parameter set.
func evkParameters(params rlwe.Parameters, k cfg) (rlwe.EvaluationKeyParameters, int, int) {
	lq, lp := k.lq, k.lp
	if lq == lqMax {
		lq = params.MaxLevelQ()
	}
	if lp == lpMax {
		lp = params.MaxLevelP()
	}
	return rlwe.EvaluationKeyParameters{LevelQ: utils.Pointy(lq), LevelP: utils.Pointy(lp), BaseTwoDecomposition: utils.Pointy(k.b2)}, lq, lp
}

// altEvkp is the shape of the warm-up run of the history axis: hist 1 a lower one (level 0, other base two),
// hist 2 the maximal levels with another base two.
func altEvkp(params rlwe.Parameters, k cfg, hist int) rlwe.EvaluationKeyParameters {
	_, _, lp := evkParameters(params, k)
	b2 := 16
	if k.b2 == 16 {
		b2 = 7
	}
	lq := 0
	if hist == 2 {
		lq = params.MaxLevelQ()
		if lp < params.MaxLevelP() {
			lp = params.MaxLevelP()
		} else if lp > 0 {
			lp = 0
		}
	}
	return rlwe.EvaluationKeyParameters{LevelQ: utils.Pointy(lq), LevelP: utils.Pointy(lp), BaseTwoDecomposition: utils.Pointy(b2)}
}

func altGalEl(params rlwe.Parameters, g uint64) uint64 {
	return g * 5 % params.RingQ().NthRoot()
}

func coverDigits(c *engine.Chooser, g *rlwe.GadgetCiphertext) {
	d := g.BaseTwoDecompositionVectorSize()
	for _, x := range d {
		if x != d[0] {
			c.Cover("digits", "unequal")
			return
		}
	}
	c.Cover("digits", "equal")
}

func hopGadget(marshal func() ([]byte, error), unmarshal func([]byte) error) error {
	data, err := marshal()
	if err != nil {
		return err
	}
	return unmarshal(data)
}

// freshCiphertext encrypts a uniform plaintext under sk with the secret-key encryptor (noise = one
// error polynomial: sup <= B) and returns the ciphertext and the plaintext coefficients.
func freshCiphertext(params rlwe.Parameters, sk *rlwe.SecretKey, lvl int, key ...interface{}) (*rlwe.Ciphertext, []*big.Int) {
	pt, want := mp.UniformPlaintext(params, lvl, key...)
	ct := rlwe.NewCiphertext(params, 1, lvl)
	if err := rlwe.NewEncryptor(params, sk).Encrypt(pt, ct); err != nil {
		panic(fmt.Sprintf("harness: secret-key encryption failed: %v", err))
	}
	return ct, want
}

// automorph applies X -> X^g to integer coefficients in [0,Q_lvl): through ref.Automorphism on every residue in
// the standard ring, through lib/rk's unfolded map in the conjugate-invariant ring.
func automorph(params rlwe.Parameters, lvl int, a []*big.Int, g uint64) []*big.Int {
	if params.RingType() == ring.ConjugateInvariant {
		return rk.Auto(ring.ConjugateInvariant, a, g)
	}
	mod := params.RingQ().ModuliChain()[:lvl+1]
	rows := make([][]uint64, len(mod))
	for i, q := range mod {
		res := make([]uint64, len(a))
		for j := range a {
			res[j] = ref.ModU(a[j], q)
		}
		rows[i] = ref.Automorphism(res, g, q)
	}
	return ref.PolyCRT(rows, mod)
}

// evkLeaf: EvaluationKeyGenProtocol (skIn != skOut) and GaloisKeyGenProtocol.
func evkLeaf(c *engine.Chooser, name string, k cfg) {
	params := k.chain.RLWE(k.ntt)
	coverCfg(c, params, k)
	evkp, lq, lp := evkParameters(params, k)
	uni.Seed(c, name, "setup")
	In := mp.NewParties(params, k.n)
	Out := In
	if k.proto == "evk" {
		Out = mp.NewParties(params, k.n)
	}
	sig := "C14/" + k.proto
	inst, hist := axes(c)
	alt := altEvkp(params, k, hist)

	var final *rlwe.GadgetCiphertext // the aggregated share's gadget ciphertext
	var key *rlwe.EvaluationKey
	var crpVal [][]ringqp.Poly // the reference polynomials (party 0's reading)
	var genErr error
	var genPanic interface{}

	if k.proto == "evk" {
		protos := mp.Instances(inst, k.n, func() multiparty.EvaluationKeyGenProtocol { return multiparty.NewEvaluationKeyGenProtocol(params) },
			func(p multiparty.EvaluationKeyGenProtocol) multiparty.EvaluationKeyGenProtocol {
				return p.ShallowCopy()
			})
		crps := make([]multiparty.EvaluationKeyGenCRP, k.n)
		shares := make([]multiparty.EvaluationKeyGenShare, k.n)
		for i := range protos {
			if hist > 0 { // the instance already produced a share of another shape: with the same key objects (1) / other keys (2)
				scratch := protos[i].AllocateShare(alt)
				a, b := In.SK[i], Out.SK[i]
				if hist == 2 {
					a, b = Out.SK[i], In.SK[(i+1)%k.n]
				}
				_ = protos[i].GenShare(a, b, protos[i].SampleCRP(mp.CRS(1-k.crs), alt), &scratch)
			}
			crps[i] = protos[i].SampleCRP(mp.CRS(k.crs), evkp)
			shares[i] = protos[i].AllocateShare(evkp)
			if err, pan := uni.Try(func() error { return protos[i].GenShare(In.SK[i], Out.SK[i], crps[i], &shares[i]) }); err != nil || pan != nil {
				c.Fail(sig+"/GenShare/fails-on-accepted-parameters", "party %d (LevelQ=%d LevelP=%d base2=%d, #P=%d): err=%v panic=%v", i, lq, lp, k.b2, params.PCount(), err, pan)
				return
			}
		}
		for i := 1; i < k.n; i++ {
			if !crps[i].Value.Equal(crps[0].Value) {
				c.Fail(sig+"/SampleCRP/parties-disagree", "party %d read different reference polynomials from the same CRS", i)
				return
			}
		}
		c.Cover("crs", "replayed")
		coverDigits(c, &shares[0].GadgetCiphertext)
		flat := func(s multiparty.EvaluationKeyGenShare) mp.Flat {
			return mp.FlatGadget(params, &s.GadgetCiphertext, "evk")
		}
		ops := mp.Ops[multiparty.EvaluationKeyGenShare]{
			Sig: sig, Key: name,
			New: func() multiparty.EvaluationKeyGenShare { return protos[0].AllocateShare(evkp) },
			Agg: func(a, b multiparty.EvaluationKeyGenShare, out *multiparty.EvaluationKeyGenShare) error {
				return protos[0].AggregateShares(a, b, out)
			},
			Hop: func(a multiparty.EvaluationKeyGenShare) (r multiparty.EvaluationKeyGenShare, err error) {
				err = hopGadget(a.MarshalBinary, r.UnmarshalBinary)
				return
			},
			Stream: func(a multiparty.EvaluationKeyGenShare, wrap func(io.Reader) io.Reader) (multiparty.EvaluationKeyGenShare, error) {
				return mp.StreamHop[multiparty.EvaluationKeyGenShare](a, wrap)
			},
			Used: func(which int) multiparty.EvaluationKeyGenShare {
				r := protos[0].AllocateShare(mp.UsedShapes(params, which))
				mp.FillGadget(params, &r.GadgetCiphertext, name, "used-receiver", which)
				return r
			},
			Into: func(a multiparty.EvaluationKeyGenShare, recv *multiparty.EvaluationKeyGenShare) error {
				return hopGadget(a.MarshalBinary, recv.UnmarshalBinary)
			},
			Flat: flat,
		}
		agg, ok := mp.Merge(c, ops, shares, k.search())
		if !ok {
			return
		}
		c.Outcome(name, flat(agg).Hash())
		final = &agg.GadgetCiphertext
		key = rlwe.NewEvaluationKey(params, evkp)
		crpVal = crps[0].Value
		genErr, genPanic = uni.Try(func() error { return protos[0].GenEvaluationKey(agg, crps[0], key) })
	} else {
		c.Cover("galEl", fmt.Sprint(k.galEl))
		protos := mp.Instances(inst, k.n, func() multiparty.GaloisKeyGenProtocol { return multiparty.NewGaloisKeyGenProtocol(params) },
			func(p multiparty.GaloisKeyGenProtocol) multiparty.GaloisKeyGenProtocol { return p.ShallowCopy() })
		crps := make([]multiparty.GaloisKeyGenCRP, k.n)
		shares := make([]multiparty.GaloisKeyGenShare, k.n)
		for i := range protos {
			if hist > 0 { // the instance already produced a share of another shape for another Galois element
				scratch := protos[i].AllocateShare(alt)
				// hist 1: the same key object and Galois element at a lower shape; hist 2: another key, another element
				_ = protos[i].GenShare(In.SK[(i+hist-1)%k.n], []uint64{k.galEl, altGalEl(params, k.galEl)}[hist-1], protos[i].SampleCRP(mp.CRS(1-k.crs), alt), &scratch)
			}
			crps[i] = protos[i].SampleCRP(mp.CRS(k.crs), evkp)
			shares[i] = protos[i].AllocateShare(evkp)
			if err, pan := uni.Try(func() error { return protos[i].GenShare(In.SK[i], k.galEl, crps[i], &shares[i]) }); err != nil || pan != nil {
				c.Fail(sig+"/GenShare/fails-on-accepted-parameters", "party %d (LevelQ=%d LevelP=%d base2=%d, #P=%d): err=%v panic=%v", i, lq, lp, k.b2, params.PCount(), err, pan)
				return
			}
		}
		for i := 1; i < k.n; i++ {
			if !crps[i].Value.Equal(crps[0].Value) {
				c.Fail(sig+"/SampleCRP/parties-disagree", "party %d read different reference polynomials from the same CRS", i)
				return
			}
		}
		c.Cover("crs", "replayed")
		coverDigits(c, &shares[0].GadgetCiphertext)
		flat := func(s multiparty.GaloisKeyGenShare) mp.Flat {
			return mp.FlatGadget(params, &s.GadgetCiphertext, fmt.Sprintf("gal g=%d", s.GaloisElement))
		}
		ops := mp.Ops[multiparty.GaloisKeyGenShare]{
			Sig: sig, Key: name,
			New: func() multiparty.GaloisKeyGenShare { return protos[0].AllocateShare(evkp) },
			Agg: func(a, b multiparty.GaloisKeyGenShare, out *multiparty.GaloisKeyGenShare) error {
				return protos[0].AggregateShares(a, b, out)
			},
			Hop: func(a multiparty.GaloisKeyGenShare) (r multiparty.GaloisKeyGenShare, err error) {
				err = hopGadget(a.MarshalBinary, r.UnmarshalBinary)
				return
			},
			Stream: func(a multiparty.GaloisKeyGenShare, wrap func(io.Reader) io.Reader) (multiparty.GaloisKeyGenShare, error) {
				return mp.StreamHop[multiparty.GaloisKeyGenShare](a, wrap)
			},
			Used: func(which int) multiparty.GaloisKeyGenShare {
				r := protos[0].AllocateShare(mp.UsedShapes(params, which))
				r.GaloisElement = altGalEl(params, k.galEl)
				mp.FillGadget(params, &r.GadgetCiphertext, name, "used-receiver", which)
				return r
			},
			Into: func(a multiparty.GaloisKeyGenShare, recv *multiparty.GaloisKeyGenShare) error {
				return hopGadget(a.MarshalBinary, recv.UnmarshalBinary)
			},
			Flat: flat,
		}
		agg, ok := mp.Merge(c, ops, shares, k.search())
		if !ok {
			return
		}
		c.Outcome(name, flat(agg).Hash())
		final = &agg.GadgetCiphertext
		gk := rlwe.NewGaloisKey(params, evkp)
		genErr, genPanic = uni.Try(func() error { return protos[0].GenGaloisKey(agg, crps[0], gk) })
		key = &gk.EvaluationKey
		crpVal = crps[0].Value
		if genErr == nil && genPanic == nil && (gk.GaloisElement != k.galEl || gk.NthRoot != params.RingQ().NthRoot()) {
			c.Fail(sig+"/GenGaloisKey/wrong-tag", "key tagged (galEl=%d, nthRoot=%d), want (%d, %d)", gk.GaloisElement, gk.NthRoot, k.galEl, params.RingQ().NthRoot())
			return
		}
	}
	fn := map[string]string{"evk": "GenEvaluationKey", "gal": "GenGaloisKey"}[k.proto]
	digits := final.BaseTwoDecompositionVectorSize()
	unequal := false
	for _, d := range digits {
		unequal = unequal || d != digits[0]
	}
	// the key must contain every row of the aggregate (b) and of the reference polynomials (a)
	complete := genPanic == nil && genErr == nil
	if complete {
		for i := range final.Value {
			for j := range final.Value[i] {
				complete = complete && key.Value[i][j][0].Equal(&final.Value[i][j][0]) && key.Value[i][j][1].Equal(&crpVal[i][j])
			}
		}
	}
	switch {
	case !complete && unequal && genErr == nil:
		// One defect, two faces (panic when row 0 has the most digits, rows silently left zero when it has
		// the fewest): GenEvaluationKey sizes every row by len(share.Value[0]). GenGaloisKey delegates to it.
		c.Fail("C14/evk/GenEvaluationKey/unequal-digit-counts", "%s on the aggregate of matching shares with digits per modulus %v: panic=%v, all rows copied=%v", fn, digits, genPanic, complete)
		// keep checking everything else with the key the call should have produced
		key = rlwe.NewEvaluationKey(params, evkp)
		for i := range final.Value {
			for j := range final.Value[i] {
				key.Value[i][j][0].Copy(final.Value[i][j][0])
				key.Value[i][j][1].Copy(crpVal[i][j])
			}
		}
	case genPanic != nil:
		c.Fail(sig+"/"+fn+"/panic", "%s on the aggregate of matching shares (digits per modulus %v) panicked: %v", fn, digits, genPanic)
		return
	case genErr != nil:
		c.Fail(sig+"/"+fn+"/error-on-matching-shares", "%v", genErr)
		return
	case !complete:
		c.Fail(sig+"/"+fn+"/row-not-copied", "a key row (digit counts %v) is not the aggregated share's / the reference polynomial's row", digits)
		return
	}
	if inst == 0 && hist == 0 && complete {
		if ov := mp.Overlap([]interface{}{"key", key}, []interface{}{"aggregated share", final, "crp", &crpVal}); ov != "" {
			c.Fail(sig+"/"+fn+"/output-aliases-input", "%s", ov)
			return
		}
		c.Cover("alias", "key-vs-inputs-and-callee")
	}
	if key.BaseTwoDecomposition != k.b2 {
		c.Fail(sig+"/"+fn+"/wrong-base2", "key BaseTwoDecomposition=%d, want %d", key.BaseTwoDecomposition, k.b2)
		return
	}

	// evaluator-independent oracle: every row of the key is an RLWE sample, under the ideal output secret, of the
	// gadget multiple of the ideal input secret, with an error that is the sum of the N parties' errors: <= N*B.
	// (For a Galois key the protocol's output secret is the ideal secret moved by the inverse Galois element.)
	{
		sIn, sOut := mp.SecretInts(params, In.Ideal), mp.SecretInts(params, Out.Ideal)
		if k.proto == "gal" {
			nth := params.RingQ().NthRoot()
			inv := uint64(1)
			for inv*k.galEl%nth != 1 {
				inv += 2
			}
			sOut = mp.RingAuto(params, sIn, inv)
		}
		rowBound := new(big.Int).Mul(big.NewInt(int64(k.n)), mp.XeSup(params.Xe()))
		if worst := mp.KeyRowNoise(params, &key.GadgetCiphertext, sIn, sOut); worst.Cmp(rowBound) > 0 {
			c.Fail(sig+"/key-rows/not-samples-of-the-ideal-secret", "a key row is not b = -a*s_out + P*w*s_in + e with |e| <= %d parties x %v: largest |e| = %v", k.n, mp.XeSup(params.Xe()), worst)
			return
		}
		c.Cover("functional", "key-rows")
	}

	// functional oracle: the key re-encrypts from the ideal input secret to the ideal output secret
	uni.Seed(c, name, "use")
	E := new(big.Int).Mul(big.NewInt(int64(k.n)), mp.XeSup(params.Xe())) // key noise: sum of N errors
	S := big.NewInt(int64(k.n))                                          // ideal secret: sum of N ternary keys
	B := mp.XeSup(params.Xe())                                           // input ciphertext: one fresh error
	what := map[string]string{"evk": "evk-reencrypt", "gal": "gal-automorphism"}[k.proto]
	// use applies the key to a fresh ciphertext of a uniform plaintext under the ideal input secret and
	// returns the distance of the phase under the ideal output secret from the expected plaintext.
	use := func(key *rlwe.EvaluationKey, lvl int) (noise *big.Int, err error) {
		// a panic of the evaluator counts as a failure of the use (then compared with the single-party key)
		defer func() {
			if r := recover(); r != nil {
				err = fmt.Errorf("panic: %v", r)
			}
		}()
		ct, m := freshCiphertext(params, In.Ideal, lvl, name, "pt", lvl)
		out := rlwe.NewCiphertext(params, 1, lvl)
		if k.proto == "evk" {
			if err = rlwe.NewEvaluator(params, nil).ApplyEvaluationKey(ct, key, out); err == nil {
				noise = mp.NoiseInf(params, out.El(), Out.Ideal, m)
			}
			return
		}
		gk := &rlwe.GaloisKey{GaloisElement: k.galEl, NthRoot: params.RingQ().NthRoot(), EvaluationKey: *key}
		if err = rlwe.NewEvaluator(params, rlwe.NewMemEvaluationKeySet(nil, gk)).Automorphism(ct, k.galEl, out); err == nil {
			noise = mp.NoiseInf(params, out.El(), In.Ideal, automorph(params, lvl, m, k.galEl))
		}
		return
	}
	for _, lvl := range levels(lq) {
		bound := new(big.Int).Add(B, mp.GadgetNoiseBound(params, lvl, &key.GadgetCiphertext, E, S))
		if new(big.Int).Lsh(bound, 3).Cmp(uni.QAtLevel(params, lvl)) > 0 {
			c.Cover("functional", "skipped-noise-bound-above-Q/8")
			continue
		}
		noise, err := use(key, lvl)
		if err == nil && noise.Cmp(bound) <= 0 {
			c.Note("%s level %d: noise %v <= bound %v", what, lvl, noise, bound)
			c.Cover("functional", what)
			continue
		}
		// "exactly as a single-party key for that ideal secret would": if the library's own key generator,
		// given the ideal secrets and the same parameters, produces a key that fails the same test (with the
		// same, for it N-fold generous, bound), the failure is the evaluator's, not the protocol's.
		var single *rlwe.EvaluationKey
		if k.proto == "evk" {
			single = rlwe.NewKeyGenerator(params).GenEvaluationKeyNew(In.Ideal, Out.Ideal, evkp)
		} else {
			single = &rlwe.NewKeyGenerator(params).GenGaloisKeyNew(k.galEl, In.Ideal, evkp).EvaluationKey
		}
		if n1, e1 := use(single, lvl); e1 != nil || n1.Cmp(bound) > 0 {
			c.Cover("functional", "not-judged-single-party-key-fails-too")
			c.Note("%s level %d: collective key fails (err=%v noise=%v) and so does the single-party key (err=%v noise=%v), bound %v", what, lvl, err, noise, e1, n1, bound)
			continue
		}
		if err != nil {
			c.Fail(sig+"/use/error", "%s at level %d: %v (the single-party key works)", what, lvl, err)
			return
		}
		c.Fail(sig+"/use/not-a-key-of-the-ideal-secret", "%s at level %d: |phase - expected| = %v > bound %v (%d parties); the single-party key for the ideal secret is within the bound", what, lvl, noise, bound, k.n)
		return
	}
}
