// C15 — t-out-of-N threshold: any t parties reconstruct, fewer cannot.
//
// Explicit-state search: (i) the merge lattice of the Shamir shares a party receives during setup
// (every aggregation order and tree shape); (ii) every ordered list of exactly t active parties
// (every subset in every listing order), every shorter list (must be refused), for every 1<=t<=N and
// several public-point families, against a math/big Shamir/Lagrange reference and a downstream
// collective decryption.
package main

import (
	"fmt"
	"sort"
	"time"

	"verif/engine"
	"verif/lib/mp"
)

type cfg struct {
	kind   string // setup | combine | collide
	chain  mp.Chain
	n, t   int
	family string // small | p32 | p63 | mixed
	secret string // ternary | ones | monomial
	coef   bool   // parameters with NTTFlag=false (coefficient-domain ciphertexts in the downstream runs)
}

func (k cfg) name() string {
	s := fmt.Sprintf("%s/%s/%s/%s/N=%d/t=%d", k.kind, k.chain.Name, k.family, k.secret, k.n, k.t)
	if k.coef {
		s += "/ntt=false"
	}
	return s
}

var families = []string{"small", "p32", "p63", "mixed"}

func catalogue(tier string) []cfg {
	maxN := 5
	if tier == "thorough" {
		maxN = 6
	}
	var r []cfg
	chains := []mp.Chain{mp.ChainMid, mp.ChainTiny, mp.ChainBig, mp.ChainMidCI, mp.ChainNoP}
	for ci, ch := range chains {
		for fi, fam := range families {
			top := maxN
			if tier == "quick" && (ch.Name == "mid" || ch.Name == "tiny" || ch.Name == "midci") {
				top = 6 // promoted from thorough: N = 6 on the three main chains
			}
			if tier == "quick" && (fam == "p63" || fam == "mixed") {
				top = 6 // ... and on every chain for the two families with the largest points
			}
			if ch.Name == "mid" && fam == "mixed" {
				top = 7 // one step beyond the property's N <= 6
			}
			if tier == "thorough" && (ch.Name == "mid" || ch.Name == "tiny") {
				top = 7
				if fam == "mixed" && ch.Name == "mid" {
					top = 8
				}
			}
			for n := 1; n <= top; n++ {
				for t := 1; t <= n; t++ {
					// every (N,t) on every chain x family; the secret kind rotates so that each kind meets each chain and family
					sec := []string{"ternary", "ones", "monomial"}[(ci+fi+n+t)%3]
					if tier == "quick" && (ch.Name == "big" || ch.Name == "nop") && fam != "p63" && fam != "mixed" {
						continue
					}
					// coefficient-domain parameters on a third of the configurations
					r = append(r, cfg{kind: "combine", chain: ch, n: n, t: t, family: fam, secret: sec, coef: (ci+n+2*t)%3 == 0})
				}
			}
		}
	}
	// setup lattice: all aggregation orders of the N received shares for N <= 4, every receiver
	for _, ch := range []mp.Chain{mp.ChainMid, mp.ChainTiny, mp.ChainMidCI} {
		for _, fam := range families {
			for n := 1; n <= 4; n++ {
				for _, t := range []int{1, (n + 1) / 2, n} {
					if (t == (n+1)/2 && (t == 1 || t == n)) || (t == n && n == 1) {
						continue
					}
					r = append(r, cfg{kind: "setup", chain: ch, n: n, t: t, family: fam, secret: "ternary"})
				}
			}
		}
	}
	// colliding points: only required not to panic
	for _, ch := range []mp.Chain{mp.ChainMid, mp.ChainTiny} {
		for _, n := range []int{2, 3} {
			r = append(r, cfg{kind: "collide", chain: ch, n: n, t: 2, family: "collide", secret: "ternary"})
		}
	}
	return r
}

func scenarios(tier string) []engine.Scenario {
	var out []engine.Scenario
	cat := catalogue(tier)
	// cheapest first (the number of ordered active lists grows like N!/(N-t)!): when the internal deadline strikes
	// on a loaded machine, depth is lost, not breadth
	sort.SliceStable(cat, func(i, j int) bool { return cat[i].n*10+cat[i].t < cat[j].n*10+cat[j].t })
	for _, k := range cat {
		k := k
		nm := k.name()
		var fn func(c *engine.Chooser)
		switch k.kind {
		case "setup":
			fn = func(c *engine.Chooser) { setupLeaf(c, nm, k) }
		case "combine":
			fn = func(c *engine.Chooser) { combineLeaf(c, nm, k) }
		case "collide":
			fn = func(c *engine.Chooser) { collideLeaf(c, nm, k) }
		}
		bound := -1
		if k.kind == "setup" {
			bound = 1 // at most 1 (quick) / 2 (thorough) non-plain merge variants per history (pair choices are free)
			if tier == "thorough" {
				bound = 2
			}
		}
		out = append(out, engine.Scenario{Name: nm, Bound: bound, Fn: fn})
	}
	return out
}

func main() {
	engine.Main(engine.Check{
		ID:    "C15",
		Level: "model_checking",
		Rule: "One scenario per (kind, chain, public-point family, secret kind, N, t), all 1<=t<=N<=5 (quick) / 6 (thorough). combine: every ordered list of exactly t distinct active parties (sum over t of N!/(N-t)! leaves) x 3 listing orders of the points given to NewCombiner, " +
			"every ordered list of fewer than t parties (must be refused with an error), and every list of t+1 parties (superset: outcome recorded, not judged). Each leaf: every active party's GenAdditiveShare is compared residue by residue over QP with lambda_i * (sum_j f_j(x_i)) computed with math/big (Horner + ModInverse), " +
			"their sum with the sum of all N secret keys, and the t parties then decrypt collectively (KeySwitch to the zero key) a ciphertext under the ideal secret, compared with the N-party run. " +
			"N = 7 on one family in quick, on two chains and N = 8 on one family in thorough (beyond the property's N <= 6). combine leaves also vary the Combiner history (fresh / already served the reversed list / another subset); every other party's Thresholdizer already served another sharing; GenShamirSecretShare writes into a fresh share / the dealer's outgoing buffer still holding the previous recipient's share / a buffer holding a share of another sharing (rotating over dealer x recipient); every other aggregation output and additive-share output is a used buffer; retained objects are independent of their inputs: the key object given to GenShamirPolynomial is overwritten between two dealing sessions (first half / second half of the recipients) and the points slice given to NewCombiner is overwritten after construction, and a reflective snapshot (snap) finds no memory shared between a returned polynomial / share / additive share and the inputs or the callee; a third of the configurations use coefficient-domain parameters; chains include a conjugate-invariant ring and one without P;  The t parties also generate a collective public key with their additive shares, which must be a key of the ideal secret. " +
			"setup: merge lattice (all orders and tree shapes, N<=4, 8 variants per merge incl. WriteTo/ReadFrom over fragmenting transports, <=1 non-plain quick / <=2 thorough) of the N Shamir shares a receiver gets, for every receiver, against the reference evaluation of the senders' polynomials. collide: points colliding / zero modulo a prime, only required not to panic.",
		Assumptions: []string{
			"public points are pairwise distinct and non-zero modulo every prime q_i and p_j of the parameters (Shamir's precondition in each field Z_q); candidates that violate it are walked upwards until they satisfy it",
			"active lists contain distinct parties, all of which were given to NewCombiner; the party computing GenAdditiveShare is among the first t listed (the statement quantifies over exactly t active parties)",
			"downstream decryption: noise bound parties x floor(6*sigma_ks+0.5) + floor(6*sigma+0.5) from the declared truncated Gaussians",
		},
		Scenarios:      scenarios,
		QuickBudget:    150 * time.Second,
		ThoroughBudget: 25 * time.Minute,
		Expect: func(tier string) []string {
			e := []string{"kind=setup", "kind=combine", "kind=collide", "chain=mid", "chain=tiny", "chain=big", "chain=midci", "chain=nop", "downstream=collective-public-key", "downstream-domain=ntt=true", "downstream-domain=ntt=false", "retained-objects=input-overwritten", "thresholdizer-history=after-another-sharing", "share-buffer=fresh", "share-buffer=previous-recipient", "share-buffer=other-sharing", "merge-variant=stream-first-1byte", "merge-variant=stream-second-split5", "N=6",
				"family=small", "family=p32", "family=p63", "family=mixed", "secret=ternary", "secret=ones", "secret=monomial",
				"actives=exactly-t", "actives=fewer-than-t", "actives=superset", "refused=fewer-than-t", "downstream=decrypts",
				"point>q=true", "point>q=false", "point>=2^63=true", "others-order=index", "others-order=reversed", "others-order=own-omitted",
				"combiner-history=fresh", "combiner-history=after-reversed-list", "combiner-history=after-other-subset", "merge-variant=swap", "merge-variant=hop-first", "merge-variant=alias-second", "collide=no-panic",
				"t=1", "t=N", "N=1", "N=5"}
			if tier == "thorough" {
				e = append(e, "N=6")
			}
			return e
		},
	})
}
