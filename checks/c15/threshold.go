package main

import (
	"fmt"
	"io"
	"math/big"
	"sort"

	"github.com/tuneinsight/lattigo/v6/core/rlwe"
	"github.com/tuneinsight/lattigo/v6/multiparty"
	"github.com/tuneinsight/lattigo/v6/ring/ringqp"

	"verif/engine"
	"verif/lib/mp"
	"verif/ref"
	"verif/uni"
)

// world is the state after the threshold setup: every party holds a secret key, a public point, a
// Shamir polynomial with its key as constant term, and has sent one share to every party.
type world struct {
	params rlwe.Parameters
	n, t   int
	pts    []uint64
	sks    []*rlwe.SecretKey
	thr    []multiparty.Thresholdizer
	shares [][]multiparty.ShamirSecretShare // shares[sender][receiver]
	refPol [][]mp.Flat                      // refPol[sender][k]: residues of the k-th coefficient of the sender's polynomial
	ideal  mp.Flat                          // Σ_j sk_j, residues over QP
	refT   map[int]mp.Flat                  // memo of refTsks (reference values, read only)
}

func points(params rlwe.Parameters, family string, n int) []uint64 {
	cand := make([]uint64, n)
	mixed := []uint64{3, 1<<32 + 5, 1<<63 + 7, 1<<20 + 1, ^uint64(0) - 58, 7}
	for i := range cand {
		switch family {
		case "small":
			cand[i] = uint64(i + 1)
		case "p32":
			cand[i] = 1<<32 + uint64(i+1)
		case "p63":
			cand[i] = 1<<63 + uint64(2*i+1)
		case "mixed":
			cand[i] = mixed[i%len(mixed)]
		}
	}
	// precondition (assumption): distinct and non-zero modulo every prime; walk upwards by 2 until it holds
	return mp.MakeAdmissible(params, cand, 2)
}

func secrets(params rlwe.Parameters, kind string, n int) []*rlwe.SecretKey {
	sks := make([]*rlwe.SecretKey, n)
	kg := rlwe.NewKeyGenerator(params)
	N := params.N()
	for i := range sks {
		switch kind {
		case "ternary":
			sks[i] = kg.GenSecretKeyNew()
		case "ones": // adversarial: every coefficient 1, the same key for every party
			co := make([]int64, N)
			for j := range co {
				co[j] = 1
			}
			sks[i] = mp.SecretFromCoeffs(params, co)
		case "monomial": // adversarial: +-X^i
			co := make([]int64, N)
			co[i%N] = 1 - 2*int64(i%2)
			sks[i] = mp.SecretFromCoeffs(params, co)
		}
	}
	return sks
}

func cover(c *engine.Chooser, k cfg, w *world) {
	c.Cover("kind", k.kind)
	c.Cover("chain", k.chain.Name)
	c.Cover("family", k.family)
	c.Cover("secret", k.secret)
	c.Cover("N", fmt.Sprint(k.n))
	if k.t == 1 {
		c.Cover("t", "1")
	}
	if k.t == k.n {
		c.Cover("t", "N")
	}
	above, big63 := false, false
	for _, x := range w.pts {
		above = above || x > w.params.Q()[0]
		big63 = big63 || x >= 1<<63
	}
	c.Cover("point>q", fmt.Sprint(above))
	c.Cover("point>=2^63", fmt.Sprint(big63))
}

// newWorld runs the setup with the implementation and records the reference view of the polynomials.
// ok=false: a violation was recorded.
//
// The setup of a scenario is the same for all its leaves (it is seeded by the scenario name and takes no choice),
// and the leaves only read it (aggregates and additive shares are written into fresh objects), so the world built by
// the first leaf of a scenario is kept for the following ones of the same worker process. A setup that recorded a
// violation is never kept.
var worldCache struct {
	name string
	w    *world
}

func newWorld(c *engine.Chooser, name string, k cfg, pts []uint64) (w *world, ok bool) {
	if k.n > 1 {
		c.Cover("thresholdizer-history", "after-another-sharing")
		c.Cover("retained-objects", "input-overwritten")
	}
	for j := 0; j < k.n; j++ {
		for r := 0; r < k.n; r++ {
			c.Cover("share-buffer", [...]string{"fresh", "previous-recipient", "other-sharing"}[shareBufferKind(j, r)])
		}
	}
	if worldCache.name == name && worldCache.w != nil {
		return worldCache.w, true
	}
	defer func() {
		if ok {
			worldCache.name, worldCache.w = name, w
		}
	}()
	params := k.chain.RLWE(!k.coef)
	uni.Seed(c, name, "setup")
	w = &world{params: params, n: k.n, t: k.t, pts: pts}
	w.sks = secrets(params, k.secret, k.n)
	w.ideal = mp.FlatQP(params, mp.SumKeys(params, w.sks).Value, "qp")
	w.thr = make([]multiparty.Thresholdizer, k.n)
	w.shares = make([][]multiparty.ShamirSecretShare, k.n)
	w.refPol = make([][]mp.Flat, k.n)
	for j := 0; j < k.n; j++ {
		w.thr[j] = multiparty.NewThresholdizer(params)
		if j%2 == 1 {
			// thresholdizer history: every other party's Thresholdizer already served another sharing (other
			// threshold, other secret, shares for all points) before the judged one
			if wp, err := w.thr[j].GenShamirPolynomial(k.t+1, w.sks[(j+1)%k.n]); err == nil {
				ws := w.thr[j].AllocateThresholdSecretShare()
				for r := 0; r < k.n; r++ {
					w.thr[j].GenShamirSecretShare(multiparty.ShamirPublicPoint(pts[r]), wp, &ws)
				}
				_ = w.thr[j].AggregateShares(ws, ws, &ws)
			}
		}
		// The key object handed to GenShamirPolynomial is the caller's: it may legally be overwritten later (e.g. as the
		// output of GenAdditiveShare). The retained polynomial must not depend on it: no shared memory, and the shares
		// dealt in a second session, after the key object was overwritten, are still points of the same polynomial.
		skIn := w.sks[j].CopyNew()
		pol, err := w.thr[j].GenShamirPolynomial(k.t, skIn)
		if err != nil {
			c.Fail("C15/GenShamirPolynomial/error", "threshold %d: %v", k.t, err)
			return nil, false
		}
		if ov := mp.Overlap([]interface{}{"polynomial", &pol}, []interface{}{"secret", skIn}); ov != "" {
			c.Fail("C15/GenShamirPolynomial/retains-the-callers-key-memory", "the returned polynomial aliases its input: %s", ov)
			return nil, false
		}
		if len(pol.Value) != k.t {
			c.Fail("C15/GenShamirPolynomial/wrong-degree", "threshold %d: polynomial has %d coefficients (degree must be t-1)", k.t, len(pol.Value))
			return nil, false
		}
		for _, co := range pol.Value {
			w.refPol[j] = append(w.refPol[j], mp.FlatQP(params, co, "qp"))
		}
		if same, why := w.refPol[j][0].Equal(mp.FlatQP(params, w.sks[j].Value, "qp")); !same {
			c.Fail("C15/GenShamirPolynomial/constant-term-not-the-secret", "party %d: %s", j, why)
			return nil, false
		}
		w.shares[j] = make([]multiparty.ShamirSecretShare, k.n)
		// share-buffer history: what the output buffer of GenShamirSecretShare held before the call. Rotating over
		// (dealer, recipient): a freshly allocated (zero) share / the dealer's single outgoing buffer, which still holds
		// the share of the previous recipient / a buffer that holds a share of another sharing (uniform content).
		outgoing := w.thr[j].AllocateThresholdSecretShare()
		for r := 0; r < k.n; r++ {
			if r == (k.n+1)/2 {
				// second dealing session: the key object the polynomial was built from has been reused since
				ringqp.NewUniformSampler(uni.KeyedPRNG(name, "key-object-reused", j), *params.RingQP()).Read(skIn.Value)
			}
			var buf multiparty.ShamirSecretShare
			kind := shareBufferKind(j, r)
			switch kind {
			case 0:
				buf = w.thr[j].AllocateThresholdSecretShare()
			case 1:
				buf = outgoing
			case 2:
				buf = w.thr[j].AllocateThresholdSecretShare()
				ringqp.NewUniformSampler(uni.KeyedPRNG(name, "stale-share", j, r), *params.RingQP()).Read(buf.Poly)
			}
			w.thr[j].GenShamirSecretShare(multiparty.ShamirPublicPoint(pts[r]), pol, &buf)
			if r == 0 {
				if ov := mp.Overlap([]interface{}{"share", &buf}, []interface{}{"polynomial", &pol, "thresholdizer", &w.thr[j]}); ov != "" {
					c.Fail("C15/GenShamirSecretShare/output-aliases-polynomial-or-thresholdizer", "%s", ov)
					return nil, false
				}
			}
			w.shares[j][r] = multiparty.ShamirSecretShare{Poly: *buf.Poly.CopyNew()}
			outgoing.Poly.Copy(buf.Poly) // the outgoing buffer now holds the share just sent
			want := mp.EvalShamir(w.refPol[j], pts[r])
			if same, why := mp.FlatQP(params, w.shares[j][r].Poly, "qp").Equal(want); !same {
				c.Fail("C15/GenShamirSecretShare/not-the-polynomial-value", "share of party %d for point %d, written into %s, differs from f_%d(x) computed with math/big: %s", j, pts[r], shareBufferNames[kind], j, why)
				return nil, false
			}
		}
	}
	return w, true
}

// shareBufferKind rotates the share-buffer history over (dealer, recipient) so that every scenario with two or more
// parties meets the three kinds.
func shareBufferKind(dealer, recipient int) int { return (dealer + 2*recipient + 1) % 3 }

var shareBufferNames = [...]string{"a fresh share", "the dealer's outgoing buffer holding the previous recipient's share", "a buffer holding a share of another sharing"}

func shamirOps(w *world, name string, receiver int) mp.Ops[multiparty.ShamirSecretShare] {
	thr := w.thr[receiver]
	used := false
	return mp.Ops[multiparty.ShamirSecretShare]{
		Sig: "C15/setup", Key: fmt.Sprintf("%s#r%d", name, receiver),
		New: func() multiparty.ShamirSecretShare {
			// every other aggregation output is a used buffer (holds an unrelated share), not aliasing any operand
			out := thr.AllocateThresholdSecretShare()
			if used = !used; used {
				out.Poly.Copy(w.shares[(receiver+1)%w.n][receiver].Poly)
			}
			return out
		},
		Agg: func(a, b multiparty.ShamirSecretShare, out *multiparty.ShamirSecretShare) error {
			return thr.AggregateShares(a, b, out)
		},
		Hop: func(a multiparty.ShamirSecretShare) (r multiparty.ShamirSecretShare, err error) {
			var data []byte
			if data, err = a.MarshalBinary(); err != nil {
				return
			}
			err = r.UnmarshalBinary(data)
			return
		},
		Stream: func(a multiparty.ShamirSecretShare, wrap func(io.Reader) io.Reader) (multiparty.ShamirSecretShare, error) {
			return mp.StreamHop[multiparty.ShamirSecretShare](a, wrap)
		},
		Flat: func(a multiparty.ShamirSecretShare) mp.Flat {
			return mp.Flat{Tag: "qp", Rows: mp.RowsQP(nil, w.params, a.Poly)}
		},
	}
}

// refTsks is the reference aggregated share of a receiver: Σ_j f_j(x_r).
func (w *world) refTsks(r int) mp.Flat {
	if w.refT == nil {
		w.refT = map[int]mp.Flat{}
	}
	if f, ok := w.refT[r]; ok {
		return f
	}
	f := w.refTsksCompute(r)
	w.refT[r] = f
	return f
}

func (w *world) refTsksCompute(r int) mp.Flat {
	f := mp.EvalShamir(w.refPol[0], w.pts[r])
	for j := 1; j < w.n; j++ {
		f = mp.AddFlat(f, mp.EvalShamir(w.refPol[j], w.pts[r]))
	}
	return f
}

// setupLeaf: one path through the merge lattice of the shares one receiver gets.
func setupLeaf(c *engine.Chooser, name string, k cfg) {
	params := k.chain.RLWE(!k.coef)
	w, ok := newWorld(c, name, k, points(params, k.family, k.n))
	if !ok {
		return
	}
	cover(c, k, w)
	r := c.ChooseFree(k.n, "receiver")
	in := make([]multiparty.ShamirSecretShare, k.n)
	for j := range in {
		// deep copies: the lattice search overwrites operands in its aliasing variants, the world is shared by the leaves
		in[j] = multiparty.ShamirSecretShare{Poly: *w.shares[j][r].Poly.CopyNew()}
	}
	ops := shamirOps(w, name, r)
	agg, ok := mp.Merge(c, ops, in, mp.Search{Mode: mp.Full, Variants: true})
	if !ok {
		return
	}
	if same, why := ops.Flat(agg).Equal(w.refTsks(r)); !same {
		c.Fail("C15/setup/aggregate-not-sum-of-polynomial-values", "receiver %d: %s", r, why)
		return
	}
	c.Outcome(name, r, ops.Flat(agg).Hash())
}

// orderedList picks `size` distinct parties in a chosen order (every ordered list is enumerated).
func orderedList(c *engine.Chooser, n, size int) []int {
	rest := make([]int, n)
	for i := range rest {
		rest[i] = i
	}
	var out []int
	for len(out) < size {
		i := c.ChooseFree(len(rest), "active")
		out = append(out, rest[i])
		rest = append(rest[:i:i], rest[i+1:]...)
	}
	return out
}

// subset picks `size` parties in increasing order (every subset is enumerated once).
func subset(c *engine.Chooser, n, size int) []int {
	var out []int
	next := 0
	for len(out) < size {
		// the next member is one of next..n-(size-len(out))
		i := next + c.ChooseFree(n-(size-len(out))-next+1, "member")
		out = append(out, i)
		next = i + 1
	}
	return out
}

func combineLeaf(c *engine.Chooser, name string, k cfg) {
	params := k.chain.RLWE(!k.coef)
	w, ok := newWorld(c, name, k, points(params, k.family, k.n))
	if !ok {
		return
	}
	cover(c, k, w)
	// every party aggregates what it received (index order; the lattice is the setup scenarios' job)
	tsks := make([]multiparty.ShamirSecretShare, k.n)
	refT := make([]mp.Flat, k.n)
	for r := 0; r < k.n; r++ {
		tsks[r] = w.thr[r].AllocateThresholdSecretShare()
		for j := 0; j < k.n; j++ {
			if err := w.thr[r].AggregateShares(tsks[r], w.shares[j][r], &tsks[r]); err != nil {
				c.Fail("C15/setup/AggregateShares/error-on-matching-shares", "%v", err)
				return
			}
		}
		refT[r] = w.refTsks(r)
		if same, why := mp.FlatQP(params, tsks[r].Poly, "qp").Equal(refT[r]); !same {
			c.Fail("C15/setup/aggregate-not-sum-of-polynomial-values", "receiver %d: %s", r, why)
			return
		}
	}

	nmodes := 3
	if k.t == k.n {
		nmodes = 2 // no superset when t = N
	}
	mode := c.ChooseFree(nmodes, "actives") // 0 exactly t | 1 fewer than t | 2 t+1 (superset, not judged)
	size := k.t
	switch mode {
	case 1:
		size = c.ChooseFree(k.t, "size") // 0..t-1
	case 2:
		size = k.t + 1
	}
	var act []int
	if mode == 1 {
		act = subset(c, k.n, size) // "every subset of size < t": listing order is irrelevant to a refusal
	} else {
		act = orderedList(c, k.n, size)
	}
	actPts := make([]multiparty.ShamirPublicPoint, len(act))
	actU := make([]uint64, len(act))
	for i, p := range act {
		actPts[i], actU[i] = multiparty.ShamirPublicPoint(w.pts[p]), w.pts[p]
	}
	// the points handed to NewCombiner: index order / reversed / index order without the party's own point
	oo := 0
	if mode == 0 {
		oo = c.ChooseFree(3, "others-order")
	}
	c.Cover("others-order", [...]string{"index", "reversed", "own-omitted"}[oo])
	others := func(own int) []multiparty.ShamirPublicPoint {
		var o []multiparty.ShamirPublicPoint
		for i := 0; i < k.n; i++ {
			j := i
			if oo == 1 {
				j = k.n - 1 - i
			}
			if oo == 2 && j == own {
				continue
			}
			o = append(o, multiparty.ShamirPublicPoint(w.pts[j]))
		}
		return o
	}
	// combiner history: a Combiner caches Lagrange data between calls, so the judged call is also made on a
	// combiner that already served another request (same parties in reverse order / one party exchanged).
	hist := 0
	if mode == 0 && oo == 0 && k.t >= 2 {
		hist = c.ChooseFree(3, "combiner-history")
	}
	c.Cover("combiner-history", [...]string{"fresh", "after-reversed-list", "after-other-subset"}[hist])
	warm := func(p int) []multiparty.ShamirPublicPoint {
		l := append([]int{}, act...)
		switch hist {
		case 1:
			for i, j := 0, len(l)-1; i < j; i, j = i+1, j-1 {
				l[i], l[j] = l[j], l[i]
			}
		case 2:
			// exchange one active party (not p) for an inactive one when there is one, then rotate
			in := map[int]bool{}
			for _, x := range l {
				in[x] = true
			}
			for cand := 0; cand < k.n; cand++ {
				if !in[cand] {
					for i := range l {
						if l[i] != p {
							l[i] = cand
							break
						}
					}
					break
				}
			}
			l = append(l[1:], l[0])
		}
		r := make([]multiparty.ShamirPublicPoint, len(l))
		for i, x := range l {
			r[i] = multiparty.ShamirPublicPoint(w.pts[x])
		}
		return r
	}
	c.State(name, mode, fmt.Sprint(act), oo, hist)

	genShare := func(p int) (*rlwe.SecretKey, error, interface{}) {
		oth := others(p)
		cmb := multiparty.NewCombiner(params, multiparty.ShamirPublicPoint(w.pts[p]), oth, k.t)
		for i := range oth { // the caller's slice of points is reused after construction: the combiner must not depend on it
			oth[i] = multiparty.ShamirPublicPoint(0xdead0000 + uint64(i))
		}
		if hist > 0 {
			scratch := rlwe.NewSecretKey(params)
			_, _ = uni.Try(func() error {
				return cmb.GenAdditiveShare(warm(p), multiparty.ShamirPublicPoint(w.pts[p]), tsks[p], scratch)
			})
		}
		out := rlwe.NewSecretKey(params)
		if p%2 == 1 { // a used output: it holds the party's own key
			out.Value.Copy(w.sks[p].Value)
		}
		err, pan := uni.Try(func() error {
			return cmb.GenAdditiveShare(actPts, multiparty.ShamirPublicPoint(w.pts[p]), tsks[p], out)
		})
		if err == nil && pan == nil && len(act) > 0 && p == act[0] && oo == 0 && hist == 0 && sort.IntsAreSorted(act) {
			// outputs never alias the callee's memory or its inputs
			if ov := mp.Overlap([]interface{}{"additive share", out}, []interface{}{"combiner", &cmb, "own share", &tsks[p]}); ov != "" {
				c.Fail("C15/GenAdditiveShare/output-aliases-combiner-or-input", "%s", ov)
			}
		}
		return out, err, pan
	}

	switch mode {
	case 1: // fewer than t: every caller must be refused
		c.Cover("actives", "fewer-than-t")
		callers := act
		if len(callers) == 0 {
			callers = []int{0}
		}
		for _, p := range callers {
			_, err, pan := genShare(p)
			if pan != nil {
				c.Fail("C15/GenAdditiveShare/fewer-than-t-panic", "%d active parties, threshold %d: panic %v", len(act), k.t, pan)
				return
			}
			if err == nil {
				c.Fail("C15/GenAdditiveShare/fewer-than-t-accepted", "%d active parties %v, threshold %d: no error", len(act), act, k.t)
				return
			}
		}
		c.Cover("refused", "fewer-than-t")
		c.Outcome(name, "refused")
		return
	case 2: // superset: recorded only
		c.Cover("actives", "superset")
		sum := mp.Flat{}
		for i, p := range act[:k.t] {
			sk, err, pan := genShare(p)
			if err != nil || pan != nil {
				c.Cover("superset", "first-t-caller-fails")
				return
			}
			f := mp.FlatQP(params, sk.Value, "qp")
			if i == 0 {
				sum = f
			} else {
				sum = mp.AddFlat(sum, f)
			}
		}
		if same, _ := sum.Equal(w.ideal); same {
			c.Cover("superset", "first-t-sum-is-the-secret")
		} else {
			c.Cover("superset", "first-t-sum-is-not-the-secret")
		}
		c.Outcome(name, "superset", sum.Hash())
		return
	}

	// exactly t
	c.Cover("actives", "exactly-t")
	tsk := make([]*rlwe.SecretKey, len(act))
	var sum mp.Flat
	for i, p := range act {
		sk, err, pan := genShare(p)
		if pan != nil || err != nil {
			c.Fail("C15/GenAdditiveShare/fails-with-t-parties", "actives %v, caller %d: err=%v panic=%v", act, p, err, pan)
			return
		}
		tsk[i] = sk
		got := mp.FlatQP(params, sk.Value, "qp")
		own := w.pts[p]
		want := mp.ScaleFlat(refT[p], func(q uint64) *big.Int { return mp.Lagrange(q, actU, own) })
		if same, why := got.Equal(want); !same {
			c.Fail("C15/GenAdditiveShare/not-lagrange-times-share", "actives %v (points %v), caller %d: differs from lambda*share with math/big Lagrange coefficients: %s", act, actU, p, why)
			return
		}
		if i == 0 {
			sum = got
		} else {
			sum = mp.AddFlat(sum, got)
		}
	}
	if same, why := sum.Equal(w.ideal); !same {
		c.Fail("C15/combine/sum-differs-from-ideal-secret", "actives %v: sum of the additive shares != sum of the %d secret keys: %s", act, k.n, why)
		return
	}
	c.Outcome(name, "reconstructed", fmt.Sprint(act))

	downstream(c, name, k, w, act, tsk)
}

// downstream: the t active parties decrypt collectively (KeySwitch to the zero key) with their additive
// shares; the N parties do the same with their original keys; both must give the encrypted message.
func downstream(c *engine.Chooser, name string, k cfg, w *world, act []int, tsk []*rlwe.SecretKey) {
	params := w.params
	uni.Seed(c, name, "ks")
	lvl := params.MaxLevel()
	Q := uni.QAtLevel(params, lvl)
	const T = 8
	// message: coefficient j holds (3j+1) mod 8, scaled by floor(Q/8)
	delta := new(big.Int).Div(Q, big.NewInt(T))
	pt := rlwe.NewPlaintext(params, lvl)
	msg := make([]int64, params.N())
	want := make([]*big.Int, params.N())
	for j := range msg {
		msg[j] = int64((3*j + 1) % T)
		want[j] = new(big.Int).Mul(delta, big.NewInt(msg[j]))
		for i, q := range params.Q()[:lvl+1] {
			pt.Value.Coeffs[i][j] = ref.ModU(want[j], q)
		}
	}
	if params.NTTFlag() { // the plaintext is built in the coefficient domain; NewPlaintext flags it as the parameters say
		params.RingQ().AtLevel(lvl).NTT(pt.Value, pt.Value)
	}
	c.Cover("downstream-domain", fmt.Sprintf("ntt=%v", params.NTTFlag()))
	ideal := mp.SumKeys(params, w.sks)
	ct := rlwe.NewCiphertext(params, 1, lvl)
	if err := rlwe.NewEncryptor(params, ideal).Encrypt(pt, ct); err != nil {
		panic(fmt.Sprintf("harness: %v", err))
	}
	zero := rlwe.NewSecretKey(params)
	ks, err := multiparty.NewKeySwitchProtocol(params, params.Xe())
	if err != nil {
		panic(err)
	}
	// noise: one fresh error + per party one Gaussian of sigma_ks = sqrt(sigma^2+sigma^2) truncated at 6 sigma_ks
	sig := params.NoiseFreshSK()
	per := new(big.Float).SetFloat64(6*sig*1.4142135623730951 + 0.5 + 1)
	perI, _ := per.Int(nil)
	run := func(keys []*rlwe.SecretKey) ([]int64, *big.Int) {
		agg := ks.AllocateShare(lvl)
		for i, sk := range keys {
			sh := ks.AllocateShare(lvl)
			ks.GenShare(sk, zero, ct, &sh)
			if i == 0 {
				agg = sh
			} else if err := ks.AggregateShares(agg, sh, &agg); err != nil {
				panic(fmt.Sprintf("harness: %v", err))
			}
		}
		out := rlwe.NewCiphertext(params, 1, lvl)
		ks.KeySwitch(ct, agg, out)
		ph := mp.Phase(params, out.El(), zero)
		dec := make([]int64, len(ph))
		for j := range ph {
			v := ref.RoundDivHalfUp(new(big.Int).Mul(ph[j], big.NewInt(T)), Q)
			dec[j] = v.Mod(v, big.NewInt(T)).Int64()
		}
		return dec, ref.InfNorm(uni.SubCentered(ph, want, Q))
	}
	bound := func(parties int) *big.Int {
		b := new(big.Int).Mul(big.NewInt(int64(parties)), perI)
		return b.Add(b, mp.XeSup(params.Xe()))
	}
	decT, noiseT := run(tsk)
	decN, noiseN := run(w.sks)
	for j := range msg {
		if decN[j] != msg[j] {
			c.Fail("C15/downstream/N-party-decryption-wrong", "coefficient %d: %d != %d", j, decN[j], msg[j])
			return
		}
		if decT[j] != decN[j] {
			c.Fail("C15/downstream/t-party-decryption-differs-from-N-party", "actives %v coefficient %d: t-party %d, N-party %d", act, j, decT[j], decN[j])
			return
		}
	}
	if noiseT.Cmp(bound(len(tsk))) > 0 || noiseN.Cmp(bound(k.n)) > 0 {
		c.Fail("C15/downstream/noise-above-bound", "t-party noise %v (bound %v), N-party noise %v (bound %v)", noiseT, bound(len(tsk)), noiseN, bound(k.n))
		return
	}
	c.Cover("downstream", "decrypts")

	// keys: the t active parties generate a collective public key with their additive shares as secret keys; it
	// must be a public key of the ideal secret (the sum of all N original keys): what it encrypts is read under
	// the ideal secret within the bound of C14 (pk error = sum of t errors, secret = sum of N ternary keys):
	//   |u*e| <= R*t*B, |e0| <= B, |e1*s| <= R*B*N, rounding of the division by P: (#P+1)*(1+R*N),  R = ring factor.
	ckg := multiparty.NewPublicKeyGenProtocol(params)
	crp := ckg.SampleCRP(mp.CRS(0))
	aggPK := ckg.AllocateShare()
	for i, sk := range tsk {
		p := ckg
		if i > 0 {
			p = ckg.ShallowCopy()
		}
		sh := p.AllocateShare()
		p.GenShare(sk, crp, &sh)
		if i == 0 {
			aggPK = sh
		} else {
			p.AggregateShares(aggPK, sh, &aggPK)
		}
	}
	pk := rlwe.NewPublicKey(params)
	ckg.GenPublicKey(aggPK, crp, pk)
	ct2 := rlwe.NewCiphertext(params, 1, lvl)
	if err := rlwe.NewEncryptor(params, pk).Encrypt(pt, ct2); err != nil {
		c.Fail("C15/downstream/collective-public-key-unusable", "%v", err)
		return
	}
	R, B, nt, nn := mp.RingFactor(params), mp.XeSup(params.Xe()).Int64(), int64(len(tsk)), int64(k.n)
	pkBound := R*nt*B + B + R*B*nn
	if params.PCount() > 0 {
		pkBound += int64(params.PCount()+1) * (1 + R*nn)
	}
	if nz := mp.NoiseInf(params, ct2.El(), ideal, want); nz.Cmp(big.NewInt(pkBound)) > 0 {
		c.Fail("C15/downstream/t-party-public-key-not-a-key-of-the-ideal-secret", "actives %v: |phase under sum(s_j) of Enc_pk(m) - m| = %v > %d", act, nz, pkBound)
		return
	}
	c.Cover("downstream", "collective-public-key")
}

// collideLeaf: points that collide (or vanish) modulo one prime. Only "no panic" is required.
func collideLeaf(c *engine.Chooser, name string, k cfg) {
	params := k.chain.RLWE(!k.coef)
	q0, p0 := params.Q()[0], params.P()[0]
	variants := [][]uint64{
		{5, 5 + q0, 7},      // two points equal modulo q0
		{p0, 3, 4},          // a point that is 0 modulo p0
		{2, 2 + p0, 2 + q0}, // one point colliding with two others in different fields
		{q0, 3, 4},          // a point that is 0 modulo q0
	}
	c.Cover("kind", k.kind)
	v := c.Choose(len(variants), "points")
	pts := variants[v][:k.n]
	if ok, _ := mp.PointsAdmissible(params, pts); ok {
		c.Skip("points happen to be admissible")
		return
	}
	err, pan := uni.Try(func() error {
		w, ok := newWorldNoOracle(c, name, k, pts)
		if !ok {
			return nil
		}
		for _, order := range [][]int{{0, 1}, {1, 0}} {
			actPts := []multiparty.ShamirPublicPoint{multiparty.ShamirPublicPoint(pts[order[0]]), multiparty.ShamirPublicPoint(pts[order[1]])}
			var all []multiparty.ShamirPublicPoint
			for _, x := range pts {
				all = append(all, multiparty.ShamirPublicPoint(x))
			}
			for _, p := range order {
				cmb := multiparty.NewCombiner(params, multiparty.ShamirPublicPoint(pts[p]), all, k.t)
				out := rlwe.NewSecretKey(params)
				tsks := w.thr[p].AllocateThresholdSecretShare()
				for j := 0; j < k.n; j++ {
					_ = w.thr[p].AggregateShares(tsks, w.shares[j][p], &tsks)
				}
				_ = cmb.GenAdditiveShare(actPts, multiparty.ShamirPublicPoint(pts[p]), tsks, out)
			}
		}
		return nil
	})
	c.State(name, v)
	if pan != nil {
		c.Fail("C15/colliding-points/panic", "points %v: %v", pts, pan)
		return
	}
	_ = err
	c.Cover("collide", "no-panic")
	c.Outcome(name, v)
}

// newWorldNoOracle is the setup without reference comparisons (colliding points have no reference).
func newWorldNoOracle(c *engine.Chooser, name string, k cfg, pts []uint64) (*world, bool) {
	params := k.chain.RLWE(!k.coef)
	uni.Seed(c, name, "setup")
	w := &world{params: params, n: k.n, t: k.t, pts: pts}
	w.sks = secrets(params, k.secret, k.n)
	w.thr = make([]multiparty.Thresholdizer, k.n)
	w.shares = make([][]multiparty.ShamirSecretShare, k.n)
	for j := 0; j < k.n; j++ {
		w.thr[j] = multiparty.NewThresholdizer(params)
		pol, err := w.thr[j].GenShamirPolynomial(k.t, w.sks[j])
		if err != nil {
			return nil, false
		}
		w.shares[j] = make([]multiparty.ShamirSecretShare, k.n)
		for r := 0; r < k.n; r++ {
			w.shares[j][r] = w.thr[j].AllocateThresholdSecretShare()
			w.thr[j].GenShamirSecretShare(multiparty.ShamirPublicPoint(pts[r]), pol, &w.shares[j][r])
		}
	}
	return w, true
}
