package main

import (
	"fmt"
	"math"
	"math/big"
	"math/cmplx"

	ckkspoly "github.com/tuneinsight/lattigo/v6/circuits/ckks/polynomial"
	"github.com/tuneinsight/lattigo/v6/circuits/common/polynomial"
	"github.com/tuneinsight/lattigo/v6/core/rlwe"
	"github.com/tuneinsight/lattigo/v6/schemes/ckks"
	"github.com/tuneinsight/lattigo/v6/utils/bignum"

	"verif/engine"
	"verif/lib/circ"
	"verif/uni"
)

const prec = 256 // big.Float precision of the reference evaluation

// ---------------------------------------------------------------------------------------------
// world

type ckksWorld struct {
	*circ.CKKS
	rlk   *rlwe.RelinearizationKey
	evk   *rlwe.MemEvaluationKeySet
	tmpl  *ckks.Evaluator
	cts   map[string]*rlwe.Ciphertext
	slots int
}

var ckksWorlds = map[string]*ckksWorld{}

func getCKKSWorld(c *engine.Chooser, s circ.CKKSSpec) *ckksWorld {
	if w, ok := ckksWorlds[s.String()]; ok {
		return w
	}
	uni.Seed(c, "world", s.String())
	b := circ.NewCKKS(s)
	w := &ckksWorld{CKKS: b, cts: map[string]*rlwe.Ciphertext{}, slots: b.Params.MaxSlots()}
	w.rlk = rlwe.NewKeyGenerator(b.Params).GenRelinearizationKeyNew(b.Sk)
	w.evk = rlwe.NewMemEvaluationKeySet(w.rlk)
	w.tmpl = ckks.NewEvaluator(b.Params, w.evk)
	ckksWorlds[s.String()] = w
	return w
}

// ciphertext: cached encryption of values (deterministic in seed, world, id), private copy per leaf.
func (w *ckksWorld) ciphertext(c *engine.Chooser, id string, values []complex128, level int, scale rlwe.Scale) *rlwe.Ciphertext {
	return w.ciphertextSlots(c, id, values, w.Params.LogMaxSlots(), level, scale)
}

func (w *ckksWorld) ciphertextSlots(c *engine.Chooser, id string, values []complex128, logSlots, level int, scale rlwe.Scale) *rlwe.Ciphertext {
	id = fmt.Sprintf("%s/slots%d/%d/%s", id, logSlots, level, scale.Value.Text('g', 30))
	if ct, ok := w.cts[id]; ok {
		return ct.CopyNew()
	}
	uni.Seed(c, "ciphertext", w.Spec.String(), id)
	ct := w.Encrypt(values, logSlots, level, scale)
	w.cts[id] = ct
	return ct.CopyNew()
}

// ---------------------------------------------------------------------------------------------
// bases

type basisCase struct {
	name  string
	basis bignum.Basis
	a, b  float64 // Chebyshev interval
}

var basisCases = []basisCase{
	{"monomial", bignum.Monomial, 0, 0},
	{"chebyshev[-1,1]", bignum.Chebyshev, -1, 1},
	{"chebyshev[-3,5]", bignum.Chebyshev, -3, 5},
}

// inputs: monomial: complex points of modulus <= 1 including 0, 1, -1, i; Chebyshev: real points of
// the interval [a,b] including both end points and the centre.
func ckksInput(bc basisCase, slots int) []complex128 {
	v := make([]complex128, slots)
	for j := range v {
		if bc.basis == bignum.Monomial {
			switch j {
			case 0:
				v[j] = 0
			case 1:
				v[j] = 1
			case 2:
				v[j] = -1
			case 3:
				v[j] = complex(0, 1)
			default:
				r := 0.35 + 0.6*float64(j)/float64(slots)
				v[j] = cmplx.Rect(r, 2.4*float64(j))
			}
		} else {
			// a, b, centre, then interior points not symmetric around the centre
			switch j {
			case 0:
				v[j] = complex(bc.a, 0)
			case 1:
				v[j] = complex(bc.b, 0)
			case 2:
				v[j] = complex((bc.a+bc.b)/2, 0)
			default:
				f := (float64(j) - 2.3) / (float64(slots) - 2) // in (0,1)
				v[j] = complex(bc.a+(bc.b-bc.a)*f, 0)
			}
		}
	}
	return v
}

// coefficient i of polynomial k: real for Chebyshev, complex for monomial; decaying, alternating.
func ckksCoeff(bc basisCase, k, i int) complex128 {
	m := (0.35 + 0.5*float64((3*i+5*k)%7)/7) / (1 + float64(i)/6)
	if i%2 == 1 {
		m = -m
	}
	if bc.basis == bignum.Monomial {
		return complex(m, 0.25*m*float64((i+k)%3-1))
	}
	return complex(m, 0)
}

// ---------------------------------------------------------------------------------------------
// reference evaluation in big.Float (own arithmetic; no bignum.Polynomial.Evaluate)

type bc2 struct{ re, im *big.Float }

func newC(re, im float64) bc2 {
	return bc2{new(big.Float).SetPrec(prec).SetFloat64(re), new(big.Float).SetPrec(prec).SetFloat64(im)}
}
func cAdd(a, b bc2) bc2 {
	return bc2{new(big.Float).SetPrec(prec).Add(a.re, b.re), new(big.Float).SetPrec(prec).Add(a.im, b.im)}
}
func cSub(a, b bc2) bc2 {
	return bc2{new(big.Float).SetPrec(prec).Sub(a.re, b.re), new(big.Float).SetPrec(prec).Sub(a.im, b.im)}
}
func cMul(a, b bc2) bc2 {
	f := func() *big.Float { return new(big.Float).SetPrec(prec) }
	re := f().Sub(f().Mul(a.re, b.re), f().Mul(a.im, b.im))
	im := f().Add(f().Mul(a.re, b.im), f().Mul(a.im, b.re))
	return bc2{re, im}
}
func (a bc2) c128() complex128 {
	r, _ := a.re.Float64()
	i, _ := a.im.Float64()
	return complex(r, i)
}

// refEval: monomial: Horner; Chebyshev on [a,b]: u = (2x-a-b)/(b-a), sum c_k T_k(u) with the three-term recurrence.
func refEval(bc basisCase, coeffs []complex128, x complex128) complex128 {
	X := newC(real(x), imag(x))
	if bc.basis == bignum.Monomial {
		y := newC(0, 0)
		for i := len(coeffs) - 1; i >= 0; i-- {
			y = cAdd(cMul(y, X), newC(real(coeffs[i]), imag(coeffs[i])))
		}
		return y.c128()
	}
	// u = (2x - a - b)/(b - a)
	inv := new(big.Float).SetPrec(prec).Quo(big.NewFloat(1).SetPrec(prec), new(big.Float).SetPrec(prec).SetFloat64(bc.b-bc.a))
	u := cSub(cAdd(X, X), newC(bc.a+bc.b, 0))
	u = bc2{new(big.Float).SetPrec(prec).Mul(u.re, inv), new(big.Float).SetPrec(prec).Mul(u.im, inv)}
	tPrev, tCur := newC(1, 0), u
	y := newC(0, 0)
	for k := range coeffs {
		ck := newC(real(coeffs[k]), imag(coeffs[k]))
		switch k {
		case 0:
			y = cAdd(y, ck)
		case 1:
			y = cAdd(y, cMul(ck, tCur))
		default:
			tNext := cSub(cMul(cAdd(u, u), tCur), tPrev)
			tPrev, tCur = tCur, tNext
			y = cAdd(y, cMul(ck, tCur))
		}
	}
	return y.c128()
}

// ---------------------------------------------------------------------------------------------
// error model (message domain)
//
// All power-basis elements have modulus <= 1 on the inputs used (|x|<=1 monomial, u in [-1,1] Chebyshev).
//
//	rho   error of the encrypted input:              Embed*(B+1)/Δin
//	mu    noise added by one ct×ct product:          Embed*(KeySwitch/Δlo² + Rescale/Δlo) + 1/Δlo
//	      (relinearization at the product scale, rescaling at the result scale, integer rounding of a scale ratio in Add/Sub)
//	kappa rounding of one encoded coefficient:        Embed/Δlo
//	Δlo   lower bound on every intermediate scale:  Δ/4 (input scale within 2% of Δ, degree <= 31, primes within 2^-20 of Δ)
//
// Power k is the product of powers a and b = polynomial.SplitDegree(k) (documented public rule):
//
//	monomial  E[k] <= E[a]+E[b]+E[a]E[b]+mu
//	Chebyshev E[k] <= 2(E[a]+E[b]+E[a]E[b]+mu) + E[a-b]        (T_k = 2 T_a T_b - T_|a-b|)
//
// The result is a sum of terms coefficient × (one baby power) × (giant powers X^(2^m)), with a rescaling
// after each product; the Chebyshev factorisation p = q*T_n + r replaces coefficients by sums of at most 3
// times their total modulus per recursion level. So with S = sum |c_k|, L = ceil(log2(deg+1)):
//
//	W   = S (monomial) or 3^(L-1) * S (Chebyshev)
//	err <= W * ( max_{k<=deg} E[k] + sum_{2^m<=deg} E[2^m] + (L+1)*mu ) + (deg+1)*kappa*2
func polyEps(p rlwe.Parameters, cheb bool, degree int, S float64, scaleIn, delta float64) float64 {
	z := circ.NoiseOf(p)
	return safety*polyModel(p, cheb, degree, S, z.Embed*z.Fresh()/scaleIn, delta) + 1e-13*(1+S)
}

// polyModel is the bound without safety factor, for an input whose error is at most rho.
func polyModel(p rlwe.Parameters, cheb bool, degree int, S float64, rho, delta float64) float64 {
	z := circ.NoiseOf(p)
	dlo := delta / 4
	mu := z.Embed*(circ.KeySwitch(p, p.MaxLevel(), p.MaxLevelP())/(dlo*dlo)+z.Rescale()/dlo) + 1/dlo
	kappa := z.Embed / dlo
	E := make([]float64, degree+2)
	if degree >= 1 {
		E[1] = rho
	}
	for k := 2; k <= degree; k++ {
		// the product tree of the power basis is the documented one: polynomial.SplitDegree
		// ("a + b = n such that |a-b| is minimized"); the worst case over ALL splits grows like 2.4^k
		// (chains a = k-1, b = 1) and would make the bound meaningless above degree ~20.
		a, b := polynomial.SplitDegree(k)
		if a < b {
			a, b = b, a
		}
		e := E[a] + E[b] + E[a]*E[b] + mu
		if cheb {
			e = 2*e + E[a-b]
		}
		E[k] = e
	}
	L := float64(bitsLen(degree))
	W := S
	if cheb && L > 1 {
		W = S * math.Pow(3, L-1)
	}
	maxE, giants := 0.0, 0.0
	for k := 1; k <= degree; k++ {
		maxE = math.Max(maxE, E[k])
		if k&(k-1) == 0 {
			giants += E[k]
		}
	}
	return W*(maxE+giants+(L+1)*mu) + float64(degree+1)*kappa*2
}

const safety = 16

// snapshotPolys records every coefficient of the caller's polynomials (nil-ness and exact value).
func snapshotPolys(ps []bignum.Polynomial) [][]string {
	r := make([][]string, len(ps))
	for k, p := range ps {
		r[k] = make([]string, len(p.Coeffs))
		for i, c := range p.Coeffs {
			if c == nil {
				r[k][i] = "nil"
			} else {
				r[k][i] = c[0].Text('p', 0) + "," + c[1].Text('p', 0)
			}
		}
	}
	return r
}

func diffPolys(a, b [][]string) string {
	for k := range a {
		for i := range a[k] {
			if a[k][i] != b[k][i] {
				return fmt.Sprintf("polynomial %d coefficient %d: %s -> %s", k, i, a[k][i], b[k][i])
			}
		}
	}
	return ""
}

// ---------------------------------------------------------------------------------------------
// leaf

type ckksCfg struct {
	spec        circ.CKKSSpec
	basis       basisCase
	shapes      []shape
	dedicated   bool
	kinds       []int
	declared    bool
	declareEach bool
	nilHoles    bool // absent coefficients are nil pointers (as bignum.NewPolynomial keeps them) instead of zeros
	twice       bool // evaluate the same polynomial object a second time
	irregular   bool // irregular-hole shapes
	logSlots    int  // 0: full packing; otherwise sparse packing on 2^logSlots slots
}

func ckksLeaf(c *engine.Chooser, scName string, cfg *ckksCfg) {
	w := getCKKSWorld(c, cfg.spec)
	bc := cfg.basis
	maps := mappings()
	if cfg.declareEach {
		// probe scenario: every polynomial of the mixed vector declares its own parity
		maps = append(maps, mapping{"mixed-parity-declared", 3, thirds, true, true, false})
	}
	sh := cfg.shapes[c.ChooseFree(len(cfg.shapes), "shape")]
	kind := 0
	if cfg.kinds != nil {
		kind = cfg.kinds[c.ChooseFree(len(cfg.kinds), "kind")]
	} else {
		kind = c.ChooseFree(kVector0+len(maps), "kind")
	}
	entry := c.Choose(nEntry, "entry")
	maxLevel := w.Params.MaxLevel()
	need := bitsLen(sh.degree) * w.Params.LevelsConsumedPerRescaling()
	levels := []int{maxLevel}
	for l := need; l < maxLevel; l++ {
		levels = append(levels, l)
	}
	if need-1 >= 0 {
		levels = append(levels, need-1)
	}
	level := levels[c.Choose(len(levels), "level")]
	delta := circ.ScaleF(w.Params.DefaultScale())
	inScale, tgtScale := w.Params.DefaultScale(), w.Params.DefaultScale()
	inAlt, tgtAlt := c.Bool("inScale"), c.Bool("targetScale")
	if inAlt {
		inScale = rlwe.NewScale(delta*(1+1.0/128) + 1)
	}
	if tgtAlt {
		tgtScale = rlwe.NewScale(delta*1.25 + 3)
	}
	declare := sh.parity != 0 && (cfg.declared || c.Bool("declareParity"))
	nilHoles := cfg.nilHoles || c.Bool("nilHoles")
	twice := cfg.twice || c.Bool("twice")
	desc := fmt.Sprintf("ckks/%s %s kind=%d entry=%s level=%d(need %d, max %d) inScaleAlt=%v targetScaleAlt=%v declareParity=%v nilHoles=%v twice=%v",
		bc.name, sh.name, kind, entryNames[entry], level, need, maxLevel, inAlt, tgtAlt, declare, nilHoles, twice)
	c.Cover("nilHoles", fmt.Sprint(nilHoles))
	c.Cover("twice", fmt.Sprint(twice))
	if cfg.irregular {
		c.Cover("holes", "irregular")
	}
	c.Note("%s", desc)
	sig := "C13/ckks-" + bc.name + "/" + entryNames[entry]
	class := knownClass("ckks", sh, kind, entry, declare)
	rep := reporter{c: c, class: class, dedicated: cfg.dedicated}
	if nilHoles && kind < kVector0 && sh.mask != uint64(1)<<(sh.degree+1)-1 && !(cfg.irregular && bc.basis == bignum.Chebyshev) {
		// single polynomial with a nil coefficient: one input class, one signature
		rep = reporter{c: c, class: classNilCoeff, dedicated: true}
	}
	if cfg.declareEach && sh.degree > 0 {
		rep = reporter{c: c, class: classMixedDeclared, dedicated: true}
	}

	c.Cover("scheme", "ckks-"+bc.name)
	c.Cover("entry", "ckks/"+entryNames[entry])
	c.Cover("degree", degBucket(sh.degree))
	c.Cover("parity", fmt.Sprintf("%d/declared=%v", sh.parity, declare))
	c.Cover("kind", kindName(kind, maps))
	c.Cover("level", levelBucket(level, need, maxLevel))
	c.Cover("inScale", fmt.Sprint(inAlt))
	c.Cover("targetScale", fmt.Sprint(tgtAlt))

	// ---- model
	logSlots := w.Params.LogMaxSlots()
	if cfg.logSlots > 0 {
		logSlots = cfg.logSlots
		c.Cover("packing", "sparse")
	} else {
		c.Cover("packing", "full")
	}
	slots := 1 << logSlots
	isReal := w.Spec.CI // conjugate-invariant ring: real slots, real coefficients
	if isReal {
		c.Cover("ring", "conjugate-invariant")
	} else {
		c.Cover("ring", "standard")
	}
	x := ckksInput(bc, slots)
	if isReal {
		for j := range x {
			x[j] = complex(real(x[j]), 0)
		}
	}
	npoly := 1
	var mp map[int][]int
	if kind >= kVector0 {
		m := maps[kind-kVector0]
		npoly, mp = m.npoly, m.m(slots)
	}
	// basis (interval) of every polynomial; inputs of a slot lie in the interval of the polynomial that covers it
	bcs := make([]basisCase, npoly)
	for k := range bcs {
		bcs[k] = bc
	}
	if kind >= kVector0 && maps[kind-kVector0].perPolyIntervals && bc.basis == bignum.Chebyshev {
		c.Cover("vector-intervals", "per-polynomial")
		for k := 1; k < npoly; k++ {
			iv := extraIntervals[(k-1)%len(extraIntervals)]
			bcs[k] = basisCase{fmt.Sprintf("chebyshev[%v,%v]", iv[0], iv[1]), bignum.Chebyshev, iv[0], iv[1]}
			xk := ckksInput(bcs[k], slots)
			for _, j := range mp[k] {
				x[j] = xk[j]
			}
		}
	}
	coeffs := make([][]complex128, npoly)
	S := 0.0
	for k := range coeffs {
		coeffs[k] = make([]complex128, sh.degree+1)
		s := 0.0
		mask := sh.mask
		if kind >= kVector0 {
			mask = maps[kind-kVector0].maskOf(sh, k)
		}
		for i := range coeffs[k] {
			if mask>>i&1 == 1 {
				coeffs[k][i] = ckksCoeff(bc, k, i)
				if isReal {
					coeffs[k][i] = complex(real(coeffs[k][i]), 0)
				}
				s += cmplx.Abs(coeffs[k][i])
			}
		}
		S = math.Max(S, s)
	}
	want := make([]complex128, slots)
	if mp == nil {
		for j := range want {
			want[j] = refEval(bc, coeffs[0], x[j])
		}
	} else {
		for k, slots := range mp {
			for _, j := range slots {
				want[j] = refEval(bcs[k], coeffs[k], x[j])
			}
		}
	}

	// ---- polynomial object
	mkBig := func(k int) bignum.Polynomial {
		var p bignum.Polynomial
		var cs interface{} = coeffs[k]
		// nil (absent) coefficients: bignum.Polynomial treats nil as zero (Evaluate, Factorize, Clone; mod1 builds such
		// polynomials); so must the evaluator
		if nilHoles {
			bc := make([]*bignum.Complex, len(coeffs[k]))
			for i, v := range coeffs[k] {
				if v != 0 {
					bc[i] = bignum.ToComplex(v, w.Params.EncodingPrecision())
				}
			}
			cs = bc
		}
		if bc.basis == bignum.Chebyshev {
			p = bignum.NewPolynomial(bignum.Chebyshev, cs, [2]float64{bcs[k].a, bcs[k].b})
		} else {
			p = bignum.NewPolynomial(bignum.Monomial, cs, nil)
		}
		if kind >= kVector0 && maps[kind-kVector0].declareEach {
			switch k {
			case 1:
				p.IsEven = false
			case 2:
				p.IsOdd = false
			}
			return p
		}
		if declare {
			if sh.parity == 1 {
				p.IsEven = false
			} else {
				p.IsOdd = false
			}
		}
		return p
	}
	var pol interface{}
	var vec *ckkspoly.PolynomialVector
	p0 := mkBig(0)
	bigs := []bignum.Polynomial{p0} // the caller's polynomial objects (their Coeffs are shared with what is handed over)
	switch {
	case kind == kBignum:
		pol = p0
	case kind == kPoly || kind == kPolyLazy:
		pp := ckkspoly.NewPolynomial(p0)
		pp.Lazy = kind == kPolyLazy
		pol = pp
	default:
		ps := make([]bignum.Polynomial, npoly)
		for k := range ps {
			ps[k] = mkBig(k)
		}
		pv, err := ckkspoly.NewPolynomialVector(ps, mp)
		if err != nil {
			c.Fail("C13/ckks/NewPolynomialVector/error", "%s: %v", desc, err)
			return
		}
		pol = pv
		vec = &pv
		bigs = ps
	}

	// ---- change of basis ct' = scalar * ct + constant, applied on the plaintext side (before encryption) with the
	// values the library advertises: Polynomial.ChangeOfBasis() for one polynomial, PolynomialVector.ChangeOfBasis(slots)
	// (one pair per slot; 0, 0 on uncovered slots, whose result is 0 anyway) for a vector.
	enc := make([]complex128, len(x))
	ctID := bc.name
	if vec == nil {
		scalar, constant := p0.ChangeOfBasis()
		sf, _ := scalar.Float64()
		cf, _ := constant.Float64()
		for j := range x {
			enc[j] = x[j]*complex(sf, 0) + complex(cf, 0)
		}
	} else {
		scalars, constants := vec.ChangeOfBasis(slots)
		for j := range x {
			sf, _ := scalars[j].Float64()
			cf, _ := constants[j].Float64()
			enc[j] = x[j]*complex(sf, 0) + complex(cf, 0)
		}
		ctID = bc.name + "/" + kindName(kind, maps)
	}

	// ---- run
	uni.Seed(c, scName, desc)
	ct := w.ciphertextSlots(c, ctID, enc, logSlots, level, inScale)
	ctBackup := ct.CopyNew()
	ev := w.tmpl.ShallowCopy()
	pe := ckkspoly.NewEvaluator(w.Params, ev)
	var out *rlwe.Ciphertext
	var err error
	before := snapshotPolys(bigs)
	runOnce := func() error {
		switch entry {
		case eEvaluate:
			out, err = pe.Evaluate(ct, pol, tgtScale)
		default:
			pb := polynomial.NewPowerBasis(ct, bc.basis)
			if entry == eFromPBPre || entry == eFromPBPreLazy {
				for _, n := range []int{2, 4, 3} {
					lazy := entry == eFromPBPreLazy && n&(n-1) != 0
					if n <= sh.degree && bitsLen(n) <= level {
						if e := pb.GenPower(n, lazy, ev); e != nil {
							err = fmt.Errorf("GenPower(%d): %w", n, e)
							return nil
						}
					}
				}
			}
			out, err = pe.EvaluateFromPowerBasis(pb, pol, tgtScale)
		}
		return nil
	}
	_, panicked := uni.Try(runOnce)
	// the polynomial handed to the evaluator is an input: its coefficients must be what they were
	if d := diffPolys(before, snapshotPolys(bigs)); d != "" && panicked == nil {
		rep.fail(sig+"/polynomial-modified", "polynomial-modified", "%s: the caller's polynomial changed during the evaluation: %s", desc, d)
	}
	tooLow := level < need
	switch {
	case panicked != nil:
		rep.fail(panicSig(sig, tooLow), "panic", "%s: panic: %v", desc, panicked)
		return
	case tooLow:
		if err == nil {
			rep.fail(sig+"/too-few-levels-accepted", "too-few-levels-accepted", "%s: no error with %d levels, %d needed; output level %d", desc, level, need, out.Level())
		} else {
			c.Cover("rejected", "ckks/too-few-levels")
			c.Outcome("rejected")
		}
		return
	case err != nil && cfg.logSlots > 0 && kind >= kVector0:
		// polynomial vectors on a sparsely packed ciphertext are refused ("#values (MaxSlots) <= slots"): the
		// evaluator's coefficient getter is sized for full packing. Clean refusal, counted.
		c.Cover("rejected", "ckks/vector-on-sparse-packing")
		c.Outcome("rejected")
		return
	case err != nil && entry == eFromPBPreLazy && kind != kPolyLazy:
		// A basis holding a non-relinearized power handed to a polynomial that is not flagged Lazy: the non-lazy
		// GenPower refuses to multiply the degree-2 power ("total degree cannot exceed 2"). A clean refusal
		// (GenPower's doc promises automatic relinearization; it only happens on the lazy path: observation, not judged).
		c.Cover("rejected", "lazy-basis-with-non-lazy-polynomial")
		c.Outcome("rejected")
		return
	case err != nil:
		debugFail(sig+"/error", desc+" :: "+err.Error())
		rep.fail(sig+"/error", "error", "%s: %v", desc, err)
		return
	}

	// ---- oracle
	if out.Level() != level-need {
		rep.fail(sig+"/levels-consumed", "levels-consumed", "%s: output level %d, expected %d", desc, out.Level(), level-need)
	}
	if !circ.ScaleClose(out.Scale, circ.BigScale(tgtScale)) {
		rep.fail(sig+"/output-scale", "output-scale", "%s: output scale %v, requested %v", desc, &out.Scale.Value, &tgtScale.Value)
	}
	if out.Degree() != 1 {
		rep.fail(sig+"/output-degree", "output-degree", "%s: output ciphertext of degree %d", desc, out.Degree())
		return
	}
	eps := polyEps(w.Params.Parameters, bc.basis == bignum.Chebyshev, sh.degree, S, circ.ScaleF(inScale), delta)
	got := w.Decode(out, logSlots, tgtScale)
	worst := 0.0
	for j := range want {
		d := cmplx.Abs(got[j] - want[j])
		worst = math.Max(worst, d)
		if d > eps {
			debugFail(valueSig(sig, kind), desc)
			rep.fail(valueSig(sig, kind), "value", "%s: slot %d (x=%v): got %v want %v, |diff|=%.3g > eps=%.3g", desc, j, x[j], got[j], want[j], d, eps)
			break
		}
	}
	if !ct.Equal(ctBackup) {
		rep.fail(sig+"/input-modified", "input-modified", "%s: input ciphertext changed", desc)
	}
	if twice {
		// the SAME polynomial object, ciphertext and evaluator once more: evaluation is deterministic, the result must be the same ciphertext
		first := out
		if _, p2 := uni.Try(runOnce); p2 != nil {
			rep.fail(sig+"/second-evaluation/panic", "second-evaluation-panic", "%s: second evaluation of the same polynomial object: panic: %v", desc, p2)
		} else if err != nil {
			rep.fail(sig+"/second-evaluation/error", "second-evaluation-error", "%s: second evaluation of the same polynomial object: %v", desc, err)
		} else if !out.Equal(first) {
			got2 := w.Decode(out, logSlots, tgtScale)
			rep.fail(sig+"/second-evaluation/differs", "second-evaluation-differs", "%s: second evaluation of the same polynomial object differs from the first\n first  %v\n second %v", desc, got, got2)
		}
	}
	c.Note("max |diff| = %.3g, eps = %.3g", worst, eps)
	c.Outcome("ckks", bc.name, fmt.Sprint(want))
	c.Count(1)
}

var (
	ckksA = circ.CKKSSpec{LogN: 4, NQ: 7, Q0Bits: 55, QBits: 45, NP: 2, PBits: 56, LogScale: 45}
	ckksB = circ.CKKSSpec{LogN: 5, NQ: 7, Q0Bits: 50, QBits: 40, NP: 2, PBits: 51, LogScale: 40}
	// conjugate-invariant ring, odd log N
	ckksCI = circ.CKKSSpec{LogN: 5, NQ: 7, Q0Bits: 55, QBits: 45, NP: 2, PBits: 56, LogScale: 45, CI: true}
)

func ckksScenarios(tier string, shapes []shape, bound int) []engine.Scenario {
	var scs []engine.Scenario
	const chunk = 24
	for _, spec := range []circ.CKKSSpec{ckksA, ckksB} {
		for _, bc := range basisCases {
			if spec == ckksB && bc.name == "chebyshev[-3,5]" && tier != "thorough" {
				continue
			}
			for lo := 0; lo < len(shapes); lo += chunk {
				hi := lo + chunk
				if hi > len(shapes) {
					hi = len(shapes)
				}
				cfg := &ckksCfg{spec: spec, basis: bc, shapes: shapes[lo:hi]}
				name := fmt.Sprintf("%s/%s/shapes%03d-%03d", spec.String(), bc.name, lo, hi-1)
				scs = append(scs, engine.Scenario{Name: name, Bound: bound, Fn: func(c *engine.Chooser) { ckksLeaf(c, name, cfg) }})
			}
		}
	}
	// irregular holes above degree 8, as nil coefficients, every evaluation repeated with the same polynomial object
	{
		irr := irregularHoleShapes()
		for _, bc := range basisCases {
			for lo := 0; lo < len(irr); lo += chunk {
				hi := lo + chunk
				if hi > len(irr) {
					hi = len(irr)
				}
				cfg := &ckksCfg{spec: ckksA, basis: bc, shapes: irr[lo:hi], nilHoles: true, twice: true, irregular: true}
				name := fmt.Sprintf("%s/irregular-holes/%s/shapes%03d-%03d", ckksA.String(), bc.name, lo, hi-1)
				scs = append(scs, engine.Scenario{Name: name, Bound: bound, Fn: func(c *engine.Chooser) { ckksLeaf(c, name, cfg) }})
			}
		}
	}
	// sparse packing (4 slots in a ring with 8) and the conjugate-invariant ring (16 real slots), on the shapes
	// above the exhaustive range plus every mask up to degree 3
	extra := shapesFor(3, shapes[len(shapes)-1].degree)
	type xt struct {
		spec     circ.CKKSSpec
		logSlots int
		bases    []basisCase
		tag      string
	}
	for _, t := range []xt{
		{ckksA, 2, []basisCase{basisCases[0], basisCases[1]}, "sparse4"},
		{ckksCI, 0, []basisCase{basisCases[0], basisCases[2]}, "ci"},
	} {
		for _, bc := range t.bases {
			for lo := 0; lo < len(extra); lo += chunk {
				hi := lo + chunk
				if hi > len(extra) {
					hi = len(extra)
				}
				cfg := &ckksCfg{spec: t.spec, basis: bc, shapes: extra[lo:hi], logSlots: t.logSlots}
				name := fmt.Sprintf("%s/%s/%s/shapes%03d-%03d", t.spec.String(), t.tag, bc.name, lo, hi-1)
				scs = append(scs, engine.Scenario{Name: name, Bound: bound, Fn: func(c *engine.Chooser) { ckksLeaf(c, name, cfg) }})
			}
		}
	}
	// dedicated scenarios of the known-defect classes
	for _, bc := range basisCases[:2] {
		bc := bc
		{
			cfg := &ckksCfg{spec: ckksA, basis: bc, shapes: allMasks(0), dedicated: true, kinds: []int{kBignum, kVector0}}
			name := fmt.Sprintf("known-class/%s/ckks-%s", classDegree0, bc.name)
			scs = append(scs, engine.Scenario{Name: name, Bound: 0, Fn: func(c *engine.Chooser) { ckksLeaf(c, name, cfg) }})
		}
		{
			cfg := &ckksCfg{spec: ckksA, basis: bc, dedicated: true, kinds: []int{kPolyLazy},
				shapes: []shape{mkShape("d4/dense", 4, 0x1f), mkShape("d5/dense", 5, 0x3f), mkShape("d7/odd", 7, 0xaa)}}
			name := fmt.Sprintf("known-class/%s/ckks-%s", classLazy, bc.name)
			scs = append(scs, engine.Scenario{Name: name, Bound: 0, Fn: func(c *engine.Chooser) { ckksLeaf(c, name, cfg) }})
		}
		{
			cfg := &ckksCfg{spec: ckksA, basis: bc, dedicated: true, kinds: []int{kBignum, kVector0}, declared: true,
				shapes: []shape{mkShape("d2/m100", 2, 4), mkShape("d4/m10101", 4, 0x15), mkShape("d8/even", 8, 0x155)}}
			name := fmt.Sprintf("known-class/%s/ckks-%s", classDeclaredEven, bc.name)
			scs = append(scs, engine.Scenario{Name: name, Bound: 0, Fn: func(c *engine.Chooser) { ckksLeaf(c, name, cfg) }})
		}
	}
	return scs
}

func expectCKKS(tier string) []string {
	e := []string{"rejected=ckks/too-few-levels", "vector-intervals=per-polynomial", "nilHoles=true", "nilHoles=false", "twice=true", "twice=false", "holes=irregular", "packing=sparse", "packing=full", "ring=standard", "ring=conjugate-invariant"}
	for _, bc := range basisCases {
		e = append(e, "scheme=ckks-"+bc.name)
	}
	for _, n := range entryNames {
		e = append(e, "entry=ckks/"+n)
	}
	return e
}
