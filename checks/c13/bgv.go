package main

import (
	"fmt"

	bgvpoly "github.com/tuneinsight/lattigo/v6/circuits/bgv/polynomial"
	"github.com/tuneinsight/lattigo/v6/circuits/common/polynomial"
	"github.com/tuneinsight/lattigo/v6/core/rlwe"
	"github.com/tuneinsight/lattigo/v6/schemes/bgv"
	"github.com/tuneinsight/lattigo/v6/utils/bignum"

	"verif/engine"
	"verif/lib/circ"
	"verif/ref"
	"verif/uni"
)

// bgvWorld: a BGV parameter set with its relinearization key and the per-mode template evaluators.
type bgvWorld struct {
	*circ.BGV
	rlk   *rlwe.RelinearizationKey
	tmpl  [2]*bgv.Evaluator // [0] standard, [1] scale-invariant
	cts   map[string]*rlwe.Ciphertext
	slots int
}

var bgvWorlds = map[string]*bgvWorld{}

func getBGVWorld(c *engine.Chooser, s circ.BGVSpec) *bgvWorld {
	if w, ok := bgvWorlds[s.String()]; ok {
		return w
	}
	uni.Seed(c, "world", s.String())
	b := circ.NewBGV(s)
	w := &bgvWorld{BGV: b, cts: map[string]*rlwe.Ciphertext{}, slots: b.Params.MaxSlots()}
	w.rlk = rlwe.NewKeyGenerator(b.Params).GenRelinearizationKeyNew(b.Sk)
	evk := rlwe.NewMemEvaluationKeySet(w.rlk)
	w.tmpl[0] = bgv.NewEvaluator(b.Params, evk, false)
	w.tmpl[1] = bgv.NewEvaluator(b.Params, evk, true)
	bgvWorlds[s.String()] = w
	return w
}

// input: distinct slot values including 0, 1, t-1 and a value of large order.
func (w *bgvWorld) input() []uint64 {
	v := make([]uint64, w.slots)
	t := w.T
	for i := range v {
		switch i {
		case 0:
			v[i] = 0
		case 1:
			v[i] = 1
		case 2:
			v[i] = t - 1
		default:
			v[i] = (uint64(i)*7 + 3) % t
		}
	}
	return v
}

// ciphertext: cached encryption (deterministic in seed, world, level, scale), private copy per leaf.
func (w *bgvWorld) ciphertext(c *engine.Chooser, level int, scale uint64) *rlwe.Ciphertext {
	id := fmt.Sprintf("%d/%d", level, scale)
	if ct, ok := w.cts[id]; ok {
		return ct.CopyNew()
	}
	uni.Seed(c, "ciphertext", w.Spec.String(), id)
	ct := w.Encrypt(w.input(), level, scale)
	w.cts[id] = ct
	return ct.CopyNew()
}

// coefficient i of polynomial k of a vector: non-zero residues, all distinct for small i.
func bgvCoeff(t uint64, k, i int) uint64 {
	c := (3 + 5*uint64(i) + 11*uint64(k) + uint64(i*i)) % t
	if c == 0 {
		c = 1
	}
	return c
}

func bgvCoeffs(t uint64, sh shape, k int) []uint64 { return bgvCoeffsKind(t, sh, k, 0) }

// coefficient alphabets: 0 small distinct residues; 1 residues at the edges (t-1, t-2, t-5 and, when they are below t,
// 2^53-1, 2^53, 2^53+1: the float64 mantissa edge); 2 unreduced integers (>= t, up to the edges of uint64): the result
// is demanded modulo t.
func bgvCoeffsKind(t uint64, sh shape, k, kind int) []uint64 {
	edge := []uint64{t - 1, t - 2, t - 5}
	for _, v := range []uint64{1<<53 - 1, 1 << 53, 1<<53 + 1} {
		if v < t {
			edge = append(edge, v)
		}
	}
	unred := []uint64{1<<63 + 1<<10 + 1, 1<<53 + 1, 1<<64 - 1, 1 << 63, t + 1, 2*t + 3}
	cs := make([]uint64, sh.degree+1)
	for i := range cs {
		if sh.mask>>i&1 == 1 {
			switch kind {
			case 1:
				cs[i] = edge[(i+2*k)%len(edge)]
			case 2:
				cs[i] = unred[(i+k)%len(unred)]
			default:
				cs[i] = bgvCoeff(t, k, i)
			}
		}
	}
	return cs
}

// hornerMod is the reference: p(x) mod t by Horner with division-based modular arithmetic.
func hornerMod(cs []uint64, x, t uint64) uint64 {
	y := uint64(0)
	for i := len(cs) - 1; i >= 0; i-- {
		y = ref.AddMod(ref.MulMod(y, x, t), cs[i], t)
	}
	return y
}

type bgvCfg struct {
	spec        circ.BGVSpec
	invariant   bool
	shapes      []shape
	dedicated   bool  // small scenario reporting the failures of one known-defect input class (see classes.go)
	kinds       []int // nil: all kinds
	declared    bool  // dedicated scenarios: always declare the parity
	declareEach bool
}

const (
	kBignum   = iota // bignum.Polynomial
	kPoly            // bgv/polynomial.Polynomial
	kPolyLazy        // the same with Lazy (lazy relinearization of the power basis)
	kVector0         // PolynomialVector with mapping index kind-kVector0
)

const (
	eEvaluate      = iota
	eFromPB        // EvaluateFromPowerBasis, basis holds X only
	eFromPBPre     // basis with X^2, X^3 (and X^4) generated beforehand (relinearized)
	eFromPBPreLazy // the same, generated lazily (degree-2 ciphertexts in the basis)
	nEntry
)

var entryNames = []string{"Evaluate", "EvaluateFromPowerBasis", "EvaluateFromPowerBasis/pregenerated", "EvaluateFromPowerBasis/pregenerated-lazy"}

func bgvLeaf(c *engine.Chooser, scName string, cfg *bgvCfg) {
	w := getBGVWorld(c, cfg.spec)
	t := w.T
	maps := mappings()
	if cfg.declareEach {
		// probe scenario: every polynomial of the mixed vector declares its own parity
		maps = append(maps, mapping{"mixed-parity-declared", 3, thirds, true, true, false})
	}
	sh := cfg.shapes[c.ChooseFree(len(cfg.shapes), "shape")]
	kind := 0
	if cfg.kinds != nil {
		kind = cfg.kinds[c.ChooseFree(len(cfg.kinds), "kind")]
	} else {
		kind = c.ChooseFree(kVector0+len(maps), "kind")
	}
	entry := c.Choose(nEntry, "entry")
	maxLevel := w.Params.MaxLevel()
	need := bitsLen(sh.degree) // documented: ceil(log2(deg+1)) levels
	// input level: max, then need, need+1, .., max-1, and need-1 (must be refused)
	levels := []int{maxLevel}
	for l := need; l < maxLevel; l++ {
		levels = append(levels, l)
	}
	if need-1 >= 0 {
		levels = append(levels, need-1)
	}
	level := levels[c.Choose(len(levels), "level")]
	inScale, tgtScale := uint64(1), uint64(1)
	if c.Bool("inScale") {
		inScale = 5
	}
	if c.Bool("targetScale") {
		tgtScale = 7
	}
	declare := sh.parity != 0 && (cfg.declared || c.Bool("declareParity"))
	nilHoles := c.Bool("nilHoles") // zero coefficients handed over as nil (absent) coefficients
	coeffKind := c.Choose(3, "coeffs")
	if t > 1<<53 {
		// with a plaintext modulus above 2^53 the edge alphabet is the ordinary one (so that it combines with every
		// other single deviation: entry points, levels, scales, kinds)
		coeffKind = []int{1, 2, 0}[coeffKind]
	}
	c.Cover("bgv-coeffs", []string{"small", "edge", "unreduced"}[coeffKind])
	if t > 1<<53 {
		c.Cover("bgv-t", ">2^53")
		// noise budget: with t > 2^53 a product grows the noise by about t*N = 2^58; the output must stay above level 0
		if !cfg.invariant && level-need < 1 && level >= need {
			c.Skip("t > 2^53: output at level 0 is outside the noise budget")
			return
		}
	}
	mode := "standard"
	if cfg.invariant {
		mode = "invariant"
	}
	desc := fmt.Sprintf("bgv/%s %s kind=%d entry=%s level=%d(need %d, max %d) inScale=%d targetScale=%d declareParity=%v nilHoles=%v coeffs=%d",
		mode, sh.name, kind, entryNames[entry], level, need, maxLevel, inScale, tgtScale, declare, nilHoles, coeffKind)
	c.Note("%s", desc)
	sig := "C13/bgv-" + mode + "/" + entryNames[entry]
	class := knownClass("bgv", sh, kind, entry, declare)
	rep := reporter{c: c, class: class, dedicated: cfg.dedicated}
	c.Cover("nilHoles", fmt.Sprint(nilHoles))
	if nilHoles && kind < kVector0 && sh.mask != uint64(1)<<(sh.degree+1)-1 {
		rep = reporter{c: c, class: classNilCoeff, dedicated: true}
	}
	if cfg.declareEach && sh.degree > 0 {
		rep = reporter{c: c, class: classMixedDeclared, dedicated: true}
	}

	c.Cover("scheme", "bgv-"+mode)
	c.Cover("entry", "bgv/"+entryNames[entry])
	c.Cover("degree", degBucket(sh.degree))
	c.Cover("parity", fmt.Sprintf("%d/declared=%v", sh.parity, declare))
	c.Cover("kind", kindName(kind, maps))
	c.Cover("level", levelBucket(level, need, maxLevel))
	c.Cover("inScale", fmt.Sprint(inScale != 1))
	c.Cover("targetScale", fmt.Sprint(tgtScale != 1))
	if sh.mask>>sh.degree&1 == 0 {
		c.Cover("leading", "zero")
	} else {
		c.Cover("leading", "nonzero")
	}

	// ---- model: polynomial(s), mapping, expected slot values
	x := w.input()
	want := make([]uint64, w.slots)
	npoly := 1
	var mp map[int][]int
	if kind >= kVector0 {
		m := maps[kind-kVector0]
		npoly, mp = m.npoly, m.m(w.slots)
	}
	coeffs := make([][]uint64, npoly)
	for k := range coeffs {
		shk := sh
		if kind >= kVector0 {
			shk.mask = maps[kind-kVector0].maskOf(sh, k)
		}
		coeffs[k] = bgvCoeffsKind(t, shk, k, coeffKind)
	}
	if mp == nil {
		for j := range want {
			want[j] = hornerMod(coeffs[0], x[j], t)
		}
	} else {
		for k, slots := range mp {
			for _, j := range slots {
				want[j] = hornerMod(coeffs[k], x[j], t)
			}
		}
	}

	// ---- the object handed to the evaluator
	mkBig := func(k int) bignum.Polynomial {
		var cs interface{} = coeffs[k]
		if nilHoles {
			bc := make([]*bignum.Complex, len(coeffs[k]))
			for i, v := range coeffs[k] {
				if v != 0 {
					bc[i] = bignum.ToComplex(v, 64)
				}
			}
			cs = bc
		}
		p := bignum.NewPolynomial(bignum.Monomial, cs, nil)
		if kind >= kVector0 && maps[kind-kVector0].declareEach {
			switch k {
			case 1:
				p.IsEven = false
			case 2:
				p.IsOdd = false
			}
			return p
		}
		if declare {
			// MetaData.IsOdd / IsEven: "has odd / even powers"; clearing one declares the sparsity
			if sh.parity == 1 {
				p.IsEven = false
			} else {
				p.IsOdd = false
			}
		}
		return p
	}
	var pol interface{}
	switch {
	case kind == kBignum:
		pol = mkBig(0)
	case kind == kPoly || kind == kPolyLazy:
		pp := bgvpoly.Polynomial(polynomial.NewPolynomial(mkBig(0)))
		pp.Lazy = kind == kPolyLazy
		pol = pp
	default:
		ps := make([]bignum.Polynomial, npoly)
		for k := range ps {
			ps[k] = mkBig(k)
		}
		pv, err := polynomial.NewPolynomialVector(ps, mp)
		if err != nil {
			c.Fail("C13/bgv/NewPolynomialVector/error", "%s: %v", desc, err)
			return
		}
		pol = bgvpoly.PolynomialVector(pv)
	}

	// ---- run
	uni.Seed(c, scName, desc)
	ct := w.ciphertext(c, level, inScale)
	ctBackup := ct.CopyNew()
	mi := 0
	if cfg.invariant {
		mi = 1
	}
	ev := w.tmpl[mi].ShallowCopy()
	pe := bgvpoly.NewEvaluator(w.Params, ev)
	target := rlwe.NewScaleModT(tgtScale, t)
	var out *rlwe.Ciphertext
	var err error
	_, panicked := uni.Try(func() error {
		switch entry {
		case eEvaluate:
			out, err = pe.Evaluate(ct, pol, target)
		default:
			pb := polynomial.NewPowerBasis(ct, bignum.Monomial)
			if entry == eFromPBPre || entry == eFromPBPreLazy {
				for _, n := range []int{2, 4, 3} {
					// Lazy generation as Evaluate itself does it: powers of two are always relinearized
					// (they are multiplied with degree-2 intermediate results), the others may stay of degree 2.
					lazy := entry == eFromPBPreLazy && n&(n-1) != 0
					// only powers that the level budget allows (a user would not generate others)
					if n <= sh.degree && (cfg.invariant || bitsLen(n)-1+1 <= level) {
						if e := pb.GenPower(n, lazy, ev); e != nil {
							err = fmt.Errorf("GenPower(%d): %w", n, e)
							return nil
						}
					}
				}
			}
			out, err = pe.EvaluateFromPowerBasis(pb, pol, target)
		}
		return nil
	})

	tooLow := level < need
	switch {
	case panicked != nil:
		rep.fail(panicSig(sig, tooLow), "panic", "%s: panic: %v", desc, panicked)
		return
	case tooLow && !cfg.invariant:
		// "Returns an error if the input ciphertext does not have enough level"
		if err == nil {
			rep.fail(sig+"/too-few-levels-accepted", "too-few-levels-accepted", "%s: no error with %d levels, %d needed; output level %d", desc, level, need, out.Level())
		} else {
			c.Cover("rejected", "bgv/too-few-levels")
			c.Outcome("rejected")
		}
		return
	case tooLow && cfg.invariant && err != nil:
		// scale-invariant mode consumes no level; refusing below ceil(log2 deg) is conservative, not wrong
		c.Cover("rejected", "bgv-invariant/conservative")
		c.Outcome("rejected")
		return
	case err != nil && entry == eFromPBPreLazy && kind != kPolyLazy:
		// A basis holding a non-relinearized power handed to a polynomial that is not flagged Lazy: the non-lazy
		// GenPower refuses to multiply the degree-2 power ("total degree cannot exceed 2"). A clean refusal
		// (GenPower's doc promises automatic relinearization; it only happens on the lazy path: observation, not judged).
		c.Cover("rejected", "lazy-basis-with-non-lazy-polynomial")
		c.Outcome("rejected")
		return
	case err != nil:
		debugFail(sig+"/error", desc+" :: "+err.Error())
		rep.fail(sig+"/error", "error", "%s: %v", desc, err)
		return
	}

	// ---- oracle: levels consumed, scale, values, input untouched
	wantLevel := level - need
	if cfg.invariant {
		wantLevel = level // "none in the scale-invariant integer mode"
	}
	if out.Level() != wantLevel {
		rep.fail(sig+"/levels-consumed", "levels-consumed", "%s: output level %d, expected %d", desc, out.Level(), wantLevel)
	}
	if out.Scale.Uint64()%t != tgtScale {
		rep.fail(sig+"/output-scale", "output-scale", "%s: output scale %d, requested %d", desc, out.Scale.Uint64(), tgtScale)
	}
	if out.Degree() != 1 {
		rep.fail(sig+"/output-degree", "output-degree", "%s: output ciphertext of degree %d", desc, out.Degree())
		return
	}
	got := w.Decode(out, tgtScale)
	for j := range want {
		if got[j] != want[j] {
			debugFail(valueSig(sig, kind), desc)
			rep.fail(valueSig(sig, kind), "value", "%s: slot %d (x=%d): got %d want %d\n got  %v\n want %v", desc, j, x[j], got[j], want[j], got, want)
			break
		}
	}
	if !ct.Equal(ctBackup) {
		rep.fail(sig+"/input-modified", "input-modified", "%s: input ciphertext changed", desc)
	}
	c.Outcome("bgv", fmt.Sprint(want))
	c.Count(1)
}

func valueSig(sig string, kind int) string {
	if kind >= kVector0 {
		return sig + "/value/vector"
	}
	return sig + "/value"
}

func panicSig(sig string, tooLow bool) string {
	if tooLow {
		return sig + "/panic/too-few-levels"
	}
	return sig + "/panic"
}

func degBucket(d int) string {
	switch {
	case d == 0:
		return "0"
	case d == 1:
		return "1"
	case d&(d-1) == 0:
		return "pow2"
	case d&(d+1) == 0:
		return "pow2-1"
	}
	return "other"
}

func levelBucket(level, need, max int) string {
	switch {
	case level < need:
		return "need-1"
	case level == need:
		return "need"
	case level == max:
		return "max"
	}
	return "between"
}

func kindName(kind int, maps []mapping) string {
	switch kind {
	case kBignum:
		return "bignum.Polynomial"
	case kPoly:
		return "Polynomial"
	case kPolyLazy:
		return "Polynomial-lazy"
	}
	return "vector/" + maps[kind-kVector0].name
}
