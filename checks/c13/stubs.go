package main

import "verif/engine"

func ckksScenarios(tier string, shapes []shape, bound int) []engine.Scenario { return nil }
func bignumScenarios(tier string) []engine.Scenario                         { return nil }
func compositeScenarios(tier string) []engine.Scenario                      { return nil }
func expectCKKS(tier string) []string                                       { return nil }
