package main

import (
	"fmt"
	"math"
	"math/big"
	"math/cmplx"

	"github.com/tuneinsight/lattigo/v6/utils/bignum"

	"verif/engine"
	"verif/uni"
)

// Plaintext-side polynomial tools (utils/bignum): Evaluate, ChangeOfBasis, Factorize, Depth and
// ChebyshevApproximation against own big.Float arithmetic (refEval). No ciphertext involved; tolerances
// are those of 64-bit mantissas over <= 32 operations on values <= 2^10 (1e-9 is loose by a factor 1e6).

const bigTol = 1e-9

type bnCase struct {
	bc     basisCase
	shapes []shape
}

func bignumScenarios(tier string) []engine.Scenario {
	var scs []engine.Scenario
	exhaust, maxDeg := 5, 31
	if tier == "thorough" {
		exhaust, maxDeg = 7, 63
	}
	shapes := shapesFor(exhaust, maxDeg)
	for _, bc := range basisCases {
		bc := bc
		name := "bignum/" + bc.name
		scs = append(scs, engine.Scenario{Name: name, Bound: -1, Fn: func(c *engine.Chooser) { bignumLeaf(c, bc, shapes) }})
	}
	scs = append(scs, engine.Scenario{Name: "bignum/ChebyshevApproximation", Bound: -1, Fn: chebApproxLeaf})
	return scs
}

func bnPoly(bc basisCase, coeffs []complex128) bignum.Polynomial {
	if bc.basis == bignum.Chebyshev {
		return bignum.NewPolynomial(bignum.Chebyshev, coeffs, [2]float64{bc.a, bc.b})
	}
	return bignum.NewPolynomial(bignum.Monomial, coeffs, nil)
}

func bignumLeaf(c *engine.Chooser, bc basisCase, shapes []shape) {
	sh := shapes[c.ChooseFree(len(shapes), "shape")]
	inputKind := c.ChooseFree(4, "x-type") // float64, complex128, *big.Float, *bignum.Complex
	uni.Seed(c, "bignum", bc.name, sh.name)
	desc := fmt.Sprintf("%s %s x-type=%d", bc.name, sh.name, inputKind)
	c.Note("%s", desc)
	c.Cover("bignum", "Evaluate/"+bc.name)
	coeffs := make([]complex128, sh.degree+1)
	S := 0.0
	for i := range coeffs {
		if sh.mask>>i&1 == 1 {
			coeffs[i] = ckksCoeff(basisCases[0], 0, i) // complex coefficients in every basis
			S += cmplx.Abs(coeffs[i])
		}
	}
	p := bnPoly(bc, coeffs)
	xs := ckksInput(bc, 8)
	if inputKind == 1 || inputKind == 3 {
		// complex evaluation points (also for Chebyshev: the recurrence is a polynomial identity)
		for j := range xs {
			xs[j] += complex(0, 0.125*float64(j%3))
		}
	}
	// magnitude bound for the tolerance: |T_k(u)| grows with Im(u); (1+|u|)^deg is a crude majorant
	for j, x := range xs {
		var arg interface{}
		switch inputKind {
		case 0:
			if imag(x) != 0 {
				continue
			}
			arg = real(x)
		case 1:
			arg = x
		case 2:
			if imag(x) != 0 {
				continue
			}
			arg = new(big.Float).SetPrec(prec).SetFloat64(real(x))
		case 3:
			arg = &bignum.Complex{new(big.Float).SetPrec(prec).SetFloat64(real(x)), new(big.Float).SetPrec(prec).SetFloat64(imag(x))}
		}
		var got *bignum.Complex
		_, pan := uni.Try(func() error { got = p.Evaluate(arg); return nil })
		if pan != nil {
			c.Fail("C13/bignum/Polynomial.Evaluate/panic/"+basisKind(bc), "%s x=%v: panic: %v", desc, x, pan)
			return
		}
		want := refEval(bc, coeffs, x)
		g := got.Complex128()
		tol := bigTol * (1 + S) * math.Pow(1+uAbs(bc, x), float64(sh.degree))
		if cmplx.Abs(g-want) > tol {
			if intervalKind(bc) != "" && sh.degree > 2 {
				// Known input class (FINDINGS.md: Chebyshev basis on an interval with a+b != 0): reported by the
				// shapes of degree <= 2 only, counted here, so that it cannot crowd out other violations;
				// the remaining checks of this leaf still run.
				c.Cover("demoted", "bignum-evaluate-asymmetric-interval")
				break
			}
			c.Fail("C13/bignum/Polynomial.Evaluate/value/"+basisKind(bc)+intervalKind(bc), "%s point %d x=%v: got %v want %v (tol %.3g)", desc, j, x, g, want, tol)
			break
		}
		// the argument must not be modified
		if inputKind == 3 {
			a := arg.(*bignum.Complex)
			if re, _ := a[0].Float64(); re != real(x) {
				c.Fail("C13/bignum/Polynomial.Evaluate/argument-modified", "%s: x changed from %v to %v", desc, x, a.Complex128())
				return
			}
			if im, _ := a[1].Float64(); im != imag(x) {
				c.Fail("C13/bignum/Polynomial.Evaluate/argument-modified", "%s: x changed from %v to %v", desc, x, a.Complex128())
				return
			}
		}
		c.Count(1)
	}
	c.Outcome("eval", bc.name, sh.name, fmt.Sprint(refEval(bc, coeffs, xs[3])))

	// ChangeOfBasis: scalar*x + constant must map [a,b] onto [-1,1] (doc: scalar=2/(b-a), constant=(-a-b)/(b-a))
	scalar, constant := p.ChangeOfBasis()
	sf, _ := scalar.Float64()
	cf, _ := constant.Float64()
	ws, wc := 1.0, 0.0
	if bc.basis == bignum.Chebyshev {
		ws, wc = 2/(bc.b-bc.a), (-bc.a-bc.b)/(bc.b-bc.a)
	}
	if math.Abs(sf-ws) > 1e-15 || math.Abs(cf-wc) > 1e-15 {
		c.Fail("C13/bignum/Polynomial.ChangeOfBasis/value", "%s: got (%v,%v) want (%v,%v)", desc, sf, cf, ws, wc)
	}
	c.Cover("bignum", "ChangeOfBasis")

	// Depth: "number of sequential multiplications needed to evaluate the polynomial" = ceil(log2(degree))
	if sh.degree >= 1 {
		if d, w := p.Depth(), bitsLen(sh.degree-1); d != w {
			c.Fail("C13/bignum/Polynomial.Depth/value", "%s: Depth()=%d, ceil(log2(%d))=%d", desc, d, sh.degree, w)
		}
		c.Cover("bignum", "Depth")
	}

	// Factorize(n): p = X^n * pq + pr (monomial) resp. T_n * pq + pr (Chebyshev), for every admissible n
	// (the function documents a panic for n < degree/2), checked as an identity of values.
	if inputKind == 0 && sh.degree >= 1 {
		for n := (sh.degree + 1) / 2; n <= sh.degree; n++ {
			if n == 0 {
				continue
			}
			var pq, pr bignum.Polynomial
			_, pan := uni.Try(func() error { pq, pr = p.Factorize(n); return nil })
			if pan != nil {
				c.Fail("C13/bignum/Polynomial.Factorize/panic", "%s n=%d: panic: %v", desc, n, pan)
				return
			}
			cq, cr := toC128(pq.Coeffs), toC128(pr.Coeffs)
			// X^n resp. T_n as a polynomial of the same basis
			mono := make([]complex128, n+1)
			mono[n] = 1
			for j, x := range ckksInput(bc, 8) {
				lhs := refEval(bc, coeffs, x)
				rhs := refEval(bc, mono, x)*refEval(bc, cq, x) + refEval(bc, cr, x)
				if cmplx.Abs(lhs-rhs) > bigTol*(1+S)*4 {
					c.Fail("C13/bignum/Polynomial.Factorize/value/"+basisKind(bc), "%s n=%d point %d: p=%v, basis_n*pq+pr=%v (pq=%v pr=%v)", desc, n, j, lhs, rhs, cq, cr)
					return
				}
			}
			c.Count(1)
		}
		c.Cover("bignum", "Factorize/"+basisKind(bc))
	}
}

func toC128(cs []*bignum.Complex) []complex128 {
	r := make([]complex128, len(cs))
	for i, c := range cs {
		if c != nil {
			r[i] = c.Complex128()
		}
	}
	return r
}

func basisKind(bc basisCase) string {
	if bc.basis == bignum.Chebyshev {
		return "chebyshev"
	}
	return "monomial"
}

func intervalKind(bc basisCase) string {
	if bc.basis == bignum.Chebyshev && bc.a != -bc.b {
		return "/asymmetric-interval"
	}
	return ""
}

// uAbs is |u| after the change of basis.
func uAbs(bc basisCase, x complex128) float64 {
	if bc.basis == bignum.Chebyshev {
		return cmplx.Abs((2*x - complex(bc.a+bc.b, 0)) / complex(bc.b-bc.a, 0))
	}
	return cmplx.Abs(x)
}

// chebApproxLeaf: interpolation at Nodes Chebyshev nodes reproduces every polynomial of degree < Nodes
// exactly, on any interval; and a smooth function within its classical truncation bound.
func chebApproxLeaf(c *engine.Chooser) {
	intervals := [][2]float64{{-1, 1}, {-3, 5}, {0, 1}, {-8, 8}}
	iv := intervals[c.ChooseFree(len(intervals), "interval")]
	nodes := []int{2, 3, 4, 8, 16, 17, 32}[c.ChooseFree(7, "nodes")]
	deg := c.ChooseFree(4, "degree") // polynomial of degree 0..3 (must be < nodes)
	if deg >= nodes {
		c.Skip("degree >= nodes")
		return
	}
	c.Cover("bignum", "ChebyshevApproximation")
	f := func(x float64) float64 {
		switch deg {
		case 0:
			return 0.75
		case 1:
			return 0.5 - 0.25*x
		case 2:
			return 0.125*x*x - x + 0.3
		}
		return 0.01*x*x*x - 0.2*x + 1
	}
	inter := bignum.Interval{Nodes: nodes, A: *new(big.Float).SetPrec(128).SetFloat64(iv[0]), B: *new(big.Float).SetPrec(128).SetFloat64(iv[1])}
	var pol bignum.Polynomial
	_, pan := uni.Try(func() error { pol = bignum.ChebyshevApproximation(f, inter); return nil })
	if pan != nil {
		c.Fail("C13/bignum/ChebyshevApproximation/panic", "interval=%v nodes=%d deg=%d: panic: %v", iv, nodes, deg, pan)
		return
	}
	bc := basisCase{"cheb", bignum.Chebyshev, iv[0], iv[1]}
	cs := toC128(pol.Coeffs)
	for k := 0; k <= 16; k++ {
		x := iv[0] + (iv[1]-iv[0])*float64(k)/16
		got := refEval(bc, cs, complex(x, 0))
		if cmplx.Abs(got-complex(f(x), 0)) > 1e-9*(1+math.Abs(f(x))) {
			c.Fail("C13/bignum/ChebyshevApproximation/value", "interval=%v nodes=%d deg=%d: approximant(%v)=%v, f=%v (coeffs %v)", iv, nodes, deg, x, got, f(x), cs)
			return
		}
	}
	c.Outcome("chebapprox", fmt.Sprint(iv, nodes, deg))
	c.Count(17)
}
