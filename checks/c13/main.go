// C13 — homomorphic polynomial evaluation returns p(x) at the advertised depth and scale; the composite
// circuits built on it (sign/step, max/min, inverse, mod1) stay within their stated error.
//
// Bounded-exhaustive exploration of circuits/{bgv,ckks}/polynomial (+ circuits/common/polynomial),
// utils/bignum polynomial tools, and circuits/ckks/{minimax,comparison,inverse,mod1}.
package main

import (
	"fmt"
	"strings"
	"time"

	"verif/engine"
	"verif/lib/circ"
	"verif/ref"
)

var (
	bgvSmall = circ.BGVSpec{LogN: 4, NQ: 7, QBits: 36, NP: 2, PBits: 36, T: 97}
	bgvLarge = circ.BGVSpec{LogN: 5, NQ: 7, QBits: 55, NP: 2, PBits: 56, T: 65537}
	// plaintext modulus just above 2^53 (the float64 mantissa), 60-bit Q primes
	bgvBigT = circ.BGVSpec{LogN: 4, NQ: 5, QBits: 60, NP: 1, PBits: 61, T: ref.PrimesNear(1<<53, 64, 1, false)[0]}
)

func scenarios(tier string) []engine.Scenario {
	var scs []engine.Scenario
	exhaustDeg, maxDeg := 5, 31
	if tier == "thorough" {
		exhaustDeg, maxDeg = 8, 63
	}
	bound := 1
	if tier == "thorough" {
		bound = 2
	}
	// shapes are split into chunks so that scenarios have similar cost
	shapes := shapesFor(exhaustDeg, maxDeg)
	const chunk = 24
	for _, spec := range []circ.BGVSpec{bgvSmall, bgvLarge} {
		for _, inv := range []bool{false, true} {
			for lo := 0; lo < len(shapes); lo += chunk {
				hi := lo + chunk
				if hi > len(shapes) {
					hi = len(shapes)
				}
				cfg := &bgvCfg{spec: spec, invariant: inv, shapes: shapes[lo:hi]}
				mode := "std"
				if inv {
					mode = "inv"
				}
				name := fmt.Sprintf("%s/%s/shapes%03d-%03d", spec.String(), mode, lo, hi-1)
				scs = append(scs, engine.Scenario{Name: name, Bound: bound, Fn: func(c *engine.Chooser) { bgvLeaf(c, name, cfg) }})
			}
		}
	}
	// plaintext modulus above 2^53: every mask up to degree 3, structured masks up to degree 7, all kinds and entry points
	{
		bigShapes := shapesFor(3, 7)
		for lo := 0; lo < len(bigShapes); lo += chunk {
			hi := lo + chunk
			if hi > len(bigShapes) {
				hi = len(bigShapes)
			}
			cfg := &bgvCfg{spec: bgvBigT, shapes: bigShapes[lo:hi]}
			name := fmt.Sprintf("%s/std/shapes%03d-%03d", bgvBigT.String(), lo, hi-1)
			scs = append(scs, engine.Scenario{Name: name, Bound: bound, Fn: func(c *engine.Chooser) { bgvLeaf(c, name, cfg) }})
		}
	}
	scs = append(scs, engine.Scenario{Name: "vector-validation", Bound: -1, Fn: vectorValidationLeaf})
	// dedicated scenarios of the known-defect input classes (classes.go)
	for _, inv := range []bool{false, true} {
		inv := inv
		mode := map[bool]string{false: "std", true: "inv"}[inv]
		add := func(class string, shapes []shape, kinds []int) {
			cfg := &bgvCfg{spec: bgvSmall, invariant: inv, shapes: shapes, dedicated: true, kinds: kinds}
			name := fmt.Sprintf("known-class/%s/bgv-%s", class, mode)
			scs = append(scs, engine.Scenario{Name: name, Bound: 0, Fn: func(c *engine.Chooser) { bgvLeaf(c, name, cfg) }})
		}
		add(classDegree0, allMasks(0), []int{kBignum, kVector0})
		{
			cfg := &bgvCfg{spec: bgvSmall, invariant: inv, dedicated: true, kinds: []int{kBignum, kVector0}, declared: true,
				shapes: []shape{mkShape("d2/m100", 2, 4), mkShape("d4/m10101", 4, 0x15), mkShape("d8/even", 8, 0x155)}}
			name := fmt.Sprintf("known-class/%s/bgv-%s", classDeclaredEven, mode)
			scs = append(scs, engine.Scenario{Name: name, Bound: 0, Fn: func(c *engine.Chooser) { bgvLeaf(c, name, cfg) }})
		}
		add(classLazy, []shape{mkShape("d4/dense", 4, 0x1f), mkShape("d5/dense", 5, 0x3f), mkShape("d7/odd", 7, 0xaa)}, []int{kPolyLazy})
	}
	// vectors whose polynomials declare different parities (general / odd / even)
	{
		mixedShapes := []shape{mkShape("d3/dense", 3, 0xf), mkShape("d5/dense", 5, 0x3f), mkShape("d6/dense", 6, 0x7f), mkShape("d7/dense", 7, 0xff), mkShape("d9/dense", 9, 0x3ff)}
		cfgB := &bgvCfg{spec: bgvSmall, shapes: mixedShapes, kinds: []int{kVector0 + len(mappings())}, declareEach: true}
		nameB := "mixed-declared-parity/bgv-std"
		scs = append(scs, engine.Scenario{Name: nameB, Bound: 1, Fn: func(c *engine.Chooser) { bgvLeaf(c, nameB, cfgB) }})
		cfgC := &ckksCfg{spec: ckksA, basis: basisCases[1], shapes: mixedShapes, kinds: []int{kVector0 + len(mappings())}, declareEach: true}
		nameC := "mixed-declared-parity/ckks-chebyshev"
		scs = append(scs, engine.Scenario{Name: nameC, Bound: 1, Fn: func(c *engine.Chooser) { ckksLeaf(c, nameC, cfgC) }})
	}
	scs = append(scs, ckksScenarios(tier, shapes, bound)...)
	scs = append(scs, historyScenarios(tier)...)
	scs = append(scs, pbHistoryScenarios(tier)...)
	scs = append(scs, bignumScenarios(tier)...)
	scs = append(scs, compositeScenarios(tier)...)
	scs = append(scs, mod1Scenarios(tier)...)
	scs = append(scs, inverseScenarios(tier)...)
	// the small families first, so that an internal deadline on a loaded machine cannot cut them off
	var first, rest []engine.Scenario
	for _, sc := range scs {
		small := false
		for _, pre := range []string{"vector-validation", "vector-history/", "power-basis-history/", "mixed-declared-parity/", "known-class/", "mod1/", "composite/", "bignum/"} {
			if strings.HasPrefix(sc.Name, pre) {
				small = true
			}
		}
		if small {
			first = append(first, sc)
		} else {
			rest = append(rest, sc)
		}
	}
	return append(first, rest...)
}

func main() {
	engine.Main(engine.Check{
		ID:    "C13",
		Level: "exploration",
		Rule: "Polynomial evaluation: one scenario = scheme/mode/parameter set × chunk of (formal degree, coefficient mask) shapes; a leaf = shape × kind of polynomial object " +
			"(bignum.Polynomial, Polynomial, lazy Polynomial, PolynomialVector with 4 slot mappings) × (entry point, input level from need-1 to max, input scale, target scale, declared parity, basis/interval) " +
			"under the stated deviation bound. Shapes: EVERY mask for degree <=5 (quick) / <=8 (thorough), structured masks up to degree 31 / 63. " +
			"Oracle: Horner mod t (BGV) / big.Float evaluation with a worst-case ε (CKKS); levels consumed == ceil(log2(deg+1)) (0 in scale-invariant mode), output scale == target scale, " +
			"need-1 levels refused with an error. bignum: Evaluate/ChangeOfBasis/Factorize against own big.Float arithmetic. Composite circuits: grid of inputs on the stated domain.",
		Assumptions: []string{
			"degree means the formal degree len(Coeffs)-1 (the library's Degree()), also when the leading coefficient is zero",
			"BGV: noise within budget for the parameter sets used (36-bit primes with t=97, 55-bit primes with t=65537)",
			"CKKS: inputs real in [-1,1] after the change of basis (Chebyshev) or complex with |x|<=1 (monomial); input scale within 2% of the default scale; ε = worst-case model × 16",
			"polynomials of one vector have the same formal degree, basis and declared parity (required by NewPolynomialVector)",
		},
		Scenarios:      scenarios,
		QuickBudget:    140 * time.Second,
		ThoroughBudget: 25 * time.Minute,
		Expect:         expect,
	})
}

func expect(tier string) []string {
	e := []string{"scheme=bgv-standard", "scheme=bgv-invariant", "degree=0", "degree=1", "degree=pow2", "degree=pow2-1", "degree=other",
		"leading=zero", "leading=nonzero", "level=need-1", "level=need", "level=max", "level=between",
		"inScale=true", "inScale=false", "targetScale=true", "targetScale=false",
		"parity=1/declared=true", "parity=2/declared=true", "parity=1/declared=false", "parity=0/declared=false",
		"kind=bignum.Polynomial", "kind=Polynomial", "kind=Polynomial-lazy", "rejected=bgv/too-few-levels"}
	for _, m := range mappings() {
		e = append(e, "kind=vector/"+m.name)
	}
	for _, n := range entryNames {
		e = append(e, "entry=bgv/"+n)
	}
	e = append(e, expectCKKS(tier)...)
	for _, n := range opNames {
		e = append(e, "composite="+n)
	}
	e = append(e, "bgv-coeffs=small", "bgv-coeffs=edge", "bgv-coeffs=unreduced", "bgv-t=>2^53", "vector-validation=refused")
	for _, l := range mod1Literals(10) {
		e = append(e, "mod1="+l.name)
	}
	e = append(e, "mod1-length=2", "mod1-length=3", "mod1=ignored-field/DoubleAngle-with-sin")
	e = append(e, "power-basis-history=bgv-standard", "power-basis-history=ckks-monomial", "power-basis-history=ckks-chebyshev[-1,1]")
	e = append(e, "history=bgv-standard", "history=bgv-invariant", "history=ckks-monomial", "history=ckks-chebyshev[-1,1]")
	for _, sq := range histSequences {
		e = append(e, "history-sequence="+histSeqName(sq))
	}
	e = append(e, "composite=inverse.GoldschmidtDivisionNew", "composite=inverse.EvaluatePositiveDomainNew", "composite=inverse.EvaluateNegativeDomainNew", "composite=inverse.EvaluateFullDomainNew", "inverse-normalisation=yes", "inverse-normalisation=no", "composite=doc-examples", "composite=default=comparison.NewEvaluator/default-sign-polynomial", "composite=default=inverse.EvaluateFullDomainNew/default-sign-polynomial", "composite=default-sign-slot-judged", "composite=default-sign-slot-tight", "composite-bootstrapped=yes", "composite-bootstrapped=no",
		"bignum=Evaluate/monomial", "bignum=Evaluate/chebyshev[-3,5]", "bignum=ChangeOfBasis", "bignum=Depth", "bignum=Factorize/monomial", "bignum=Factorize/chebyshev", "bignum=ChebyshevApproximation")
	return e
}
