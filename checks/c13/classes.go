package main

import "verif/engine"

// Input classes with a known defect (checks/c13/FINDINGS.md). Failures of a leaf that falls in such a
// class are reported under the class signature "C13/<class>/<what>" by the small dedicated scenarios
// ("known-class/...") only; the broad scenarios count them under coverage bucket "demoted=<class>".
// Reason: the engine keeps at most 200 violations per worker and thousands of leaves fall in these classes;
// reporting each would crowd out any OTHER violation. Once a defect is fixed nothing is demoted any more
// (a leaf that passes is a leaf that passes), so no coverage is lost.
const (
	classNilCoeff      = "nil-coefficient"       // single polynomial with a nil (absent) coefficient: nil dereference in the coefficient getters
	classDegree0       = "degree-0"              // constant polynomial: panic (negative shift amount)
	classLazy          = "lazy-power-basis"      // FIXED in /repo ed879d8 (MulThenAdd resize): lazy power bases are judged like everything else; the small scenarios stay as a regression
	classMixedDeclared = "mixed-declared-parity" // vector whose polynomials declare different parities: PolynomialVector.IsEven/IsOdd AND the flags, constant and terms dropped
	classDeclaredEven  = "declared-even"         // IsOdd=false and a constant quotient in the Paterson-Stockmeyer split: wrong values
)

func knownClass(scheme string, sh shape, kind, entry int, declared bool) string {
	switch {
	case sh.degree == 0:
		return classDegree0
	case declared && sh.parity == 2:
		return classDeclaredEven
	}
	return ""
}

type reporter struct {
	c         *engine.Chooser
	class     string
	dedicated bool
}

// fail reports a failure: under sig for ordinary leaves, under the class signature in a dedicated
// scenario, as a coverage count otherwise.
func (r reporter) fail(sig, what, format string, args ...interface{}) {
	switch {
	case r.class == "":
		r.c.Fail(sig, format, args...)
	case r.dedicated:
		r.c.Fail("C13/"+r.class+"/"+what, format, args...)
	default:
		r.c.Cover("demoted", r.class)
	}
}
