package main

import (
	"fmt"
	"os"
)

// debugFail appends one line per failing leaf to $C13_DEBUG_FAILS (development aid; unset in normal runs).
func debugFail(sig, desc string) {
	p := os.Getenv("C13_DEBUG_FAILS")
	if p == "" {
		return
	}
	f, err := os.OpenFile(p, os.O_APPEND|os.O_CREATE|os.O_WRONLY, 0o644)
	if err != nil {
		return
	}
	defer f.Close()
	fmt.Fprintf(f, "%s :: %s\n", sig, desc)
}
