package main

import (
	"fmt"
	"math"
	"math/cmplx"

	bgvpoly "github.com/tuneinsight/lattigo/v6/circuits/bgv/polynomial"
	ckkspoly "github.com/tuneinsight/lattigo/v6/circuits/ckks/polynomial"
	"github.com/tuneinsight/lattigo/v6/circuits/common/polynomial"
	"github.com/tuneinsight/lattigo/v6/core/rlwe"
	"github.com/tuneinsight/lattigo/v6/utils/bignum"

	"verif/engine"
	"verif/lib/circ"
	"verif/uni"
)

// Evaluator-history axis for polynomial vectors: ONE polynomial evaluator evaluates a sequence of polynomial
// vectors A, B(, C) whose mappings cover different slot sets, with different coefficients; every result is
// judged (covered slots p(x), "slots not covered by a mapping evaluating to zero"), in particular the later ones.
// A vector evaluation must not depend on what the evaluator did before.

// slot sets of one step: polynomial index -> slots
type histMap struct {
	name  string
	npoly int
	m     func(s int) map[int][]int
}

var (
	hFull = histMap{"full", 2, func(s int) map[int][]int {
		m := map[int][]int{0: nil, 1: nil}
		for i := 0; i < s; i++ {
			m[i%2] = append(m[i%2], i)
		}
		return m
	}}
	hFirstHalf = histMap{"first-half", 1, func(s int) map[int][]int {
		m := map[int][]int{0: nil}
		for i := 0; i < s/2; i++ {
			m[0] = append(m[0], i)
		}
		return m
	}}
	hSecondHalf = histMap{"second-half", 1, func(s int) map[int][]int {
		m := map[int][]int{0: nil}
		for i := s / 2; i < s; i++ {
			m[0] = append(m[0], i)
		}
		return m
	}}
	hQuarters = histMap{"quarters", 2, func(s int) map[int][]int {
		m := map[int][]int{0: nil, 1: nil}
		for i := 0; i < s; i++ {
			switch i % 4 {
			case 1:
				m[0] = append(m[0], i)
			case 2:
				m[1] = append(m[1], i)
			}
		}
		return m
	}}
	hSingleA = histMap{"singletons-a", 3, func(s int) map[int][]int { return map[int][]int{0: {0}, 1: {s/2 + 1}, 2: {s - 1}} }}
	hSingleB = histMap{"singletons-b", 3, func(s int) map[int][]int { return map[int][]int{0: {1}, 1: {s / 2}, 2: {s - 2}} }}
)

// the orders: full cover -> partial, partial -> disjoint partial, singleton -> other singleton, and longer ones
var histSequences = [][]histMap{
	{hFull, hFirstHalf},
	{hFirstHalf, hSecondHalf},
	{hSingleA, hSingleB},
	{hFull, hSingleA},
	{hQuarters, hFirstHalf},
	{hFirstHalf, hFull}, // growing cover (control)
	{hFull, hQuarters, hSingleB},
	{hSecondHalf, hSingleA, hFirstHalf},
}

func histSeqName(seq []histMap) string {
	s := ""
	for i, h := range seq {
		if i > 0 {
			s += ">"
		}
		s += h.name
	}
	return s
}

var histDegrees = []int{1, 2, 3, 5, 7}

func historyScenarios(tier string) []engine.Scenario {
	var scs []engine.Scenario
	for _, inv := range []bool{false, true} {
		inv := inv
		mode := map[bool]string{false: "std", true: "inv"}[inv]
		name := "vector-history/bgv-" + mode
		scs = append(scs, engine.Scenario{Name: name, Bound: -1, Fn: func(c *engine.Chooser) { bgvHistoryLeaf(c, name, bgvSmall, inv) }})
	}
	for _, bc := range basisCases[:2] {
		bc := bc
		name := "vector-history/ckks-" + bc.name
		scs = append(scs, engine.Scenario{Name: name, Bound: -1, Fn: func(c *engine.Chooser) { ckksHistoryLeaf(c, name, ckksA, bc) }})
	}
	return scs
}

func bgvHistoryLeaf(c *engine.Chooser, scName string, spec circ.BGVSpec, invariant bool) {
	w := getBGVWorld(c, spec)
	t := w.T
	seq := histSequences[c.ChooseFree(len(histSequences), "sequence")]
	deg := histDegrees[c.ChooseFree(len(histDegrees), "degree")]
	mode := map[bool]string{false: "standard", true: "invariant"}[invariant]
	desc := fmt.Sprintf("bgv/%s vector history %s degree=%d", mode, histSeqName(seq), deg)
	c.Note("%s", desc)
	c.Cover("history", "bgv-"+mode)
	c.Cover("history-sequence", histSeqName(seq))
	sig := "C13/bgv-" + mode + "/vector-history"
	uni.Seed(c, scName, desc)

	sh := mkShape("dense", deg, uint64(1)<<(deg+1)-1)
	x := w.input()
	level := w.Params.MaxLevel()
	mi := 0
	if invariant {
		mi = 1
	}
	ev := w.tmpl[mi].ShallowCopy()
	pe := bgvpoly.NewEvaluator(w.Params, ev) // ONE evaluator for the whole sequence
	target := rlwe.NewScaleModT(1, t)
	for step, h := range seq {
		mp := h.m(w.slots)
		want := make([]uint64, w.slots)
		polys := make([][]uint64, h.npoly)
		for k := range polys {
			polys[k] = bgvCoeffs(t, sh, 10*step+k) // different coefficients at every step
			for _, j := range mp[k] {
				want[j] = hornerMod(polys[k], x[j], t)
			}
		}
		pv, err := bgvpoly.NewPolynomialVector(polys, mp)
		if err != nil {
			c.Fail(sig+"/NewPolynomialVector/error", "%s step %d: %v", desc, step, err)
			return
		}
		ct := w.ciphertext(c, level, 1)
		var out *rlwe.Ciphertext
		_, pan := uni.Try(func() error { out, err = pe.Evaluate(ct, pv, target); return nil })
		if pan != nil {
			c.Fail(sig+"/panic", "%s step %d (%s): panic: %v", desc, step, h.name, pan)
			return
		}
		if err != nil {
			c.Fail(sig+"/error", "%s step %d (%s): %v", desc, step, h.name, err)
			return
		}
		wantLevel := level - bitsLen(deg)
		if invariant {
			wantLevel = level
		}
		if out.Level() != wantLevel {
			c.Fail(sig+"/levels-consumed", "%s step %d (%s): output level %d, expected %d", desc, step, h.name, out.Level(), wantLevel)
		}
		if out.Scale.Uint64()%t != 1 {
			c.Fail(sig+"/output-scale", "%s step %d (%s): output scale %d, requested 1", desc, step, h.name, out.Scale.Uint64())
		}
		got := w.Decode(out, 1)
		covered := map[int]bool{}
		for _, ss := range mp {
			for _, j := range ss {
				covered[j] = true
			}
		}
		for j := range want {
			if got[j] != want[j] {
				what := "/value/covered-slot"
				if !covered[j] {
					what = "/value/uncovered-slot-not-zero"
				}
				c.Fail(sig+what, "%s step %d (%s): slot %d (x=%d, covered=%v): got %d want %d\n got  %v\n want %v", desc, step, h.name, j, x[j], covered[j], got[j], want[j], got, want)
				break
			}
		}
		c.Count(1)
	}
	c.Outcome("history", desc)
}

func ckksHistoryLeaf(c *engine.Chooser, scName string, spec circ.CKKSSpec, bc basisCase) {
	w := getCKKSWorld(c, spec)
	seq := histSequences[c.ChooseFree(len(histSequences), "sequence")]
	deg := histDegrees[c.ChooseFree(len(histDegrees), "degree")]
	desc := fmt.Sprintf("ckks/%s vector history %s degree=%d", bc.name, histSeqName(seq), deg)
	c.Note("%s", desc)
	c.Cover("history", "ckks-"+bc.name)
	c.Cover("history-sequence", histSeqName(seq))
	sig := "C13/ckks-" + bc.name + "/vector-history"
	uni.Seed(c, scName, desc)

	x := ckksInput(bc, w.slots)
	level := w.Params.MaxLevel()
	delta := circ.ScaleF(w.Params.DefaultScale())
	ev := w.tmpl.ShallowCopy()
	pe := ckkspoly.NewEvaluator(w.Params, ev) // ONE evaluator for the whole sequence
	for step, h := range seq {
		mp := h.m(w.slots)
		want := make([]complex128, w.slots)
		ps := make([]bignum.Polynomial, h.npoly)
		S := 0.0
		for k := range ps {
			cs := make([]complex128, deg+1)
			s := 0.0
			for i := range cs {
				cs[i] = ckksCoeff(bc, 10*step+k, i)
				s += cmplx.Abs(cs[i])
			}
			S = math.Max(S, s)
			if bc.basis == bignum.Chebyshev {
				ps[k] = bignum.NewPolynomial(bignum.Chebyshev, cs, [2]float64{bc.a, bc.b})
			} else {
				ps[k] = bignum.NewPolynomial(bignum.Monomial, cs, nil)
			}
			for _, j := range mp[k] {
				want[j] = refEval(bc, cs, x[j])
			}
		}
		pv, err := ckkspoly.NewPolynomialVector(ps, mp)
		if err != nil {
			c.Fail(sig+"/NewPolynomialVector/error", "%s step %d: %v", desc, step, err)
			return
		}
		// change of basis on the plaintext side (as in ckksLeaf)
		scalar, constant := ps[0].ChangeOfBasis()
		sf, _ := scalar.Float64()
		cf, _ := constant.Float64()
		enc := make([]complex128, len(x))
		for j := range x {
			enc[j] = x[j]*complex(sf, 0) + complex(cf, 0)
		}
		ct := w.ciphertext(c, bc.name, enc, level, w.Params.DefaultScale())
		var out *rlwe.Ciphertext
		_, pan := uni.Try(func() error { out, err = pe.Evaluate(ct, pv, w.Params.DefaultScale()); return nil })
		if pan != nil {
			c.Fail(sig+"/panic", "%s step %d (%s): panic: %v", desc, step, h.name, pan)
			return
		}
		if err != nil {
			c.Fail(sig+"/error", "%s step %d (%s): %v", desc, step, h.name, err)
			return
		}
		if out.Level() != level-bitsLen(deg) {
			c.Fail(sig+"/levels-consumed", "%s step %d (%s): output level %d, expected %d", desc, step, h.name, out.Level(), level-bitsLen(deg))
		}
		if !circ.ScaleClose(out.Scale, circ.BigScale(w.Params.DefaultScale())) {
			c.Fail(sig+"/output-scale", "%s step %d (%s): output scale %v", desc, step, h.name, &out.Scale.Value)
		}
		eps := polyEps(w.Params.Parameters, bc.basis == bignum.Chebyshev, deg, S, delta, delta)
		got := w.Decode(out, w.Params.LogMaxSlots(), w.Params.DefaultScale())
		covered := map[int]bool{}
		for _, ss := range mp {
			for _, j := range ss {
				covered[j] = true
			}
		}
		for j := range want {
			if d := cmplx.Abs(got[j] - want[j]); d > eps {
				what := "/value/covered-slot"
				if !covered[j] {
					what = "/value/uncovered-slot-not-zero"
				}
				c.Fail(sig+what, "%s step %d (%s): slot %d (covered=%v): got %v want %v |diff|=%.3g > eps=%.3g", desc, step, h.name, j, covered[j], got[j], want[j], d, eps)
				break
			}
		}
		c.Count(1)
	}
	c.Outcome("history", desc)
}

// vectorValidationLeaf: NewPolynomialVector documents (by its errors) that all polynomials of a vector share basis and
// degree; a vector violating this at ANY position (first, middle, last) must be refused, in both wrappers.
func vectorValidationLeaf(c *engine.Chooser) {
	n := 2 + c.ChooseFree(2, "polys")       // 2 or 3 polynomials
	odd := c.ChooseFree(n, "odd-one")       // position of the polynomial that differs
	what := c.ChooseFree(3, "difference")   // 0 basis, 1 higher degree, 2 lower degree
	scheme := c.ChooseFree(2, "wrapper")    // 0 circuits/ckks/polynomial, 1 circuits/common/polynomial (used by bgv)
	base := c.ChooseFree(2, "common-basis") // common basis of the others
	basisOf := func(b int) bignum.Basis {
		if b == 0 {
			return bignum.Monomial
		}
		return bignum.Chebyshev
	}
	mk := func(b bignum.Basis, deg int) bignum.Polynomial {
		cs := make([]float64, deg+1)
		for i := range cs {
			cs[i] = float64(i + 1)
		}
		return bignum.NewPolynomial(b, cs, [2]float64{-1, 1})
	}
	ps := make([]bignum.Polynomial, n)
	mp := map[int][]int{}
	for k := range ps {
		b, d := basisOf(base), 3
		if k == odd {
			switch what {
			case 0:
				b = basisOf(1 - base)
			case 1:
				d = 5
			case 2:
				d = 2
			}
		}
		ps[k] = mk(b, d)
		mp[k] = []int{k}
	}
	desc := fmt.Sprintf("%d polynomials, number %d differs (%s), wrapper %d, common basis %d", n, odd, []string{"basis", "higher degree", "lower degree"}[what], scheme, base)
	c.Note("%s", desc)
	var err error
	_, pan := uni.Try(func() error {
		if scheme == 0 {
			_, err = ckkspoly.NewPolynomialVector(ps, mp)
		} else {
			_, err = polynomial.NewPolynomialVector(ps, mp)
		}
		return nil
	})
	switch {
	case pan != nil:
		c.Fail("C13/NewPolynomialVector/invalid-vector/panic", "%s: panic: %v", desc, pan)
	case err == nil:
		c.Fail("C13/NewPolynomialVector/invalid-vector/accepted", "%s: accepted (no error)", desc)
	default:
		c.Cover("vector-validation", "refused")
	}
	c.Outcome("validation", desc)
}

// ---------------------------------------------------------------------------------------------
// History of one PowerBasis: two successive EvaluateFromPowerBasis calls of different shapes (degree, Lazy flag) on the SAME
// basis, every ordered pair; each call is judged like the same call on a fresh basis (not refused, level, scale, value).

type pbPoly struct {
	deg  int
	lazy bool
}

var pbPolys = []pbPoly{{7, true}, {15, true}, {31, true}, {5, false}, {9, false}, {31, false}}

func (q pbPoly) String() string { return fmt.Sprintf("d%d/lazy=%v", q.deg, q.lazy) }

func pbHistoryScenarios(tier string) []engine.Scenario {
	var scs []engine.Scenario
	for _, bc := range basisCases[:2] {
		bc := bc
		name := "power-basis-history/ckks-" + bc.name
		scs = append(scs, engine.Scenario{Name: name, Bound: -1, Fn: func(c *engine.Chooser) { pbHistoryCKKS(c, name, bc) }})
	}
	scs = append(scs, engine.Scenario{Name: "power-basis-history/bgv-std", Bound: -1, Fn: func(c *engine.Chooser) { pbHistoryBGV(c, "power-basis-history/bgv-std") }})
	return scs
}

func pbClass(seq []pbPoly, step int) string {
	if !seq[step].lazy {
		for _, q := range seq[:step] {
			if q.lazy {
				return "non-lazy-after-lazy"
			}
		}
	}
	return "other"
}

func pbHistoryCKKS(c *engine.Chooser, scName string, bc basisCase) {
	w := getCKKSWorld(c, ckksA)
	i, j := c.ChooseFree(len(pbPolys), "first"), c.ChooseFree(len(pbPolys), "second")
	if i == j {
		c.Skip("same shape twice")
		return
	}
	seq := []pbPoly{pbPolys[i], pbPolys[j]}
	desc := fmt.Sprintf("ckks/%s one PowerBasis: %v then %v", bc.name, seq[0], seq[1])
	c.Note("%s", desc)
	c.Cover("power-basis-history", "ckks-"+bc.name)
	uni.Seed(c, scName, desc)
	x := ckksInput(bc, w.slots)
	level := w.Params.MaxLevel()
	delta := circ.ScaleF(w.Params.DefaultScale())
	ct := w.ciphertext(c, bc.name, x, level, w.Params.DefaultScale()) // [-1,1] / monomial: no change of basis needed
	ev := w.tmpl.ShallowCopy()
	pe := ckkspoly.NewEvaluator(w.Params, ev)
	pb := polynomial.NewPowerBasis(ct, bc.basis) // ONE basis for the whole sequence
	for step, q := range seq {
		cs := make([]complex128, q.deg+1)
		S := 0.0
		for k := range cs {
			cs[k] = ckksCoeff(bc, 3*step, k)
			S += cmplx.Abs(cs[k])
		}
		var bp bignum.Polynomial
		if bc.basis == bignum.Chebyshev {
			bp = bignum.NewPolynomial(bignum.Chebyshev, cs, [2]float64{bc.a, bc.b})
		} else {
			bp = bignum.NewPolynomial(bignum.Monomial, cs, nil)
		}
		pol := ckkspoly.NewPolynomial(bp)
		pol.Lazy = q.lazy
		sig := "C13/power-basis-history/" + pbClass(seq, step)
		var out *rlwe.Ciphertext
		var err error
		if _, pan := uni.Try(func() error { out, err = pe.EvaluateFromPowerBasis(pb, pol, w.Params.DefaultScale()); return nil }); pan != nil {
			c.Fail(sig+"/panic", "%s, call %d: panic: %v", desc, step, pan)
			return
		}
		if err != nil {
			c.Fail(sig+"/refused", "%s, call %d (%v) is refused although the same call on a fresh basis is not: %v", desc, step, q, err)
			return
		}
		if out.Level() != level-bitsLen(q.deg) {
			c.Fail(sig+"/levels-consumed", "%s, call %d: output level %d, expected %d", desc, step, out.Level(), level-bitsLen(q.deg))
		}
		if !circ.ScaleClose(out.Scale, circ.BigScale(w.Params.DefaultScale())) {
			c.Fail(sig+"/output-scale", "%s, call %d: output scale %v", desc, step, &out.Scale.Value)
		}
		eps := polyEps(w.Params.Parameters, bc.basis == bignum.Chebyshev, q.deg, S, delta, delta)
		got := w.Decode(out, w.Params.LogMaxSlots(), w.Params.DefaultScale())
		for s := range got {
			if d := cmplx.Abs(got[s] - refEval(bc, cs, x[s])); d > eps {
				c.Fail(sig+"/value", "%s, call %d: slot %d |diff|=%.3g > eps=%.3g", desc, step, s, d, eps)
				break
			}
		}
		c.Count(1)
	}
	c.Outcome("pb-history", desc)
}

func pbHistoryBGV(c *engine.Chooser, scName string) {
	w := getBGVWorld(c, bgvSmall)
	t := w.T
	polys := pbPolys[:2] // degrees within the level budget of the small world, plus the non-lazy ones
	polys = append(append([]pbPoly(nil), polys...), pbPolys[3:]...)
	i, j := c.ChooseFree(len(polys), "first"), c.ChooseFree(len(polys), "second")
	if i == j {
		c.Skip("same shape twice")
		return
	}
	seq := []pbPoly{polys[i], polys[j]}
	desc := fmt.Sprintf("bgv/standard one PowerBasis: %v then %v", seq[0], seq[1])
	c.Note("%s", desc)
	c.Cover("power-basis-history", "bgv-standard")
	uni.Seed(c, scName, desc)
	x := w.input()
	level := w.Params.MaxLevel()
	ct := w.ciphertext(c, level, 1)
	ev := w.tmpl[0].ShallowCopy()
	pe := bgvpoly.NewEvaluator(w.Params, ev)
	pb := polynomial.NewPowerBasis(ct, bignum.Monomial)
	for step, q := range seq {
		sh := mkShape("dense", q.deg, uint64(1)<<(q.deg+1)-1)
		cs := bgvCoeffs(t, sh, 3*step)
		pol := bgvpoly.NewPolynomial(cs)
		pol.Lazy = q.lazy
		sig := "C13/power-basis-history/" + pbClass(seq, step)
		var out *rlwe.Ciphertext
		var err error
		if _, pan := uni.Try(func() error { out, err = pe.EvaluateFromPowerBasis(pb, pol, rlwe.NewScaleModT(1, t)); return nil }); pan != nil {
			c.Fail(sig+"/panic", "%s, call %d: panic: %v", desc, step, pan)
			return
		}
		if err != nil {
			c.Fail(sig+"/refused", "%s, call %d (%v) is refused although the same call on a fresh basis is not: %v", desc, step, q, err)
			return
		}
		if out.Level() != level-bitsLen(q.deg) {
			c.Fail(sig+"/levels-consumed", "%s, call %d: output level %d, expected %d", desc, step, out.Level(), level-bitsLen(q.deg))
		}
		got := w.Decode(out, 1)
		for s := range got {
			if want := hornerMod(cs, x[s], t); got[s] != want {
				c.Fail(sig+"/value", "%s, call %d: slot %d got %d want %d", desc, step, s, got[s], want)
				break
			}
		}
		c.Count(1)
	}
	c.Outcome("pb-history", desc)
}
