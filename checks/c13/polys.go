package main

import "fmt"

// A shape is one (formal degree, coefficient mask) pair: coefficient i is non-zero iff bit i of mask is set.
// The formal degree is len(Coeffs)-1, whatever the leading coefficient is (this is what the library calls
// Degree() and what its documented depth refers to).
type shape struct {
	name   string
	degree int
	mask   uint64
	parity int // 0: general, 1: only odd powers, 2: only even powers (among the set bits)
}

func mkShape(name string, degree int, mask uint64) shape {
	s := shape{name: name, degree: degree, mask: mask}
	switch {
	case mask != 0 && mask&evenBits == 0:
		s.parity = 1
	case mask != 0 && mask&oddBits == 0:
		s.parity = 2
	}
	return s
}

// allMasks returns EVERY coefficient mask of every formal degree 0..maxDeg (2^(d+1) masks for degree d),
// including the all-zero polynomial and zero leading coefficients.
func allMasks(maxDeg int) []shape {
	var r []shape
	for d := 0; d <= maxDeg; d++ {
		for m := uint64(0); m < 1<<(d+1); m++ {
			r = append(r, mkShape(fmt.Sprintf("d%d/m%0*b", d, d+1, m), d, m))
		}
	}
	return r
}

// structuredMasks for one degree: dense, odd, even, leading only (single monomial), zero leading,
// zero trailing (no constant), constant + leading, a mid single monomial.
func structuredMasks(d int) []shape {
	full := uint64(1)<<(d+1) - 1
	var odd, even uint64
	for i := 0; i <= d; i++ {
		if i%2 == 1 {
			odd |= 1 << i
		} else {
			even |= 1 << i
		}
	}
	r := []shape{
		mkShape(fmt.Sprintf("d%d/dense", d), d, full),
		mkShape(fmt.Sprintf("d%d/leading-only", d), d, 1<<d),
	}
	if d >= 1 {
		r = append(r,
			mkShape(fmt.Sprintf("d%d/odd", d), d, odd),
			mkShape(fmt.Sprintf("d%d/even", d), d, even),
			mkShape(fmt.Sprintf("d%d/zero-leading", d), d, full&^(1<<d)),
			mkShape(fmt.Sprintf("d%d/zero-trailing", d), d, full&^1),
			mkShape(fmt.Sprintf("d%d/const+leading", d), d, 1|1<<d),
		)
	}
	if d >= 3 {
		r = append(r, mkShape(fmt.Sprintf("d%d/mid-monomial", d), d, 1<<(d/2)))
	}
	return r
}

// shapesFor: every mask up to exhaustDeg, structured masks for the degrees above up to maxDeg.
func shapesFor(exhaustDeg, maxDeg int) []shape {
	r := allMasks(exhaustDeg)
	for d := exhaustDeg + 1; d <= maxDeg; d++ {
		r = append(r, structuredMasks(d)...)
	}
	return r
}

// irregularHoleShapes: degrees 9..17 with a hole (absent coefficient) at n-j while the coefficient at n+j is present, for
// the power-of-two split points n = 4, 8, 16 of the Paterson-Stockmeyer decomposition (p = q*T_n + r moves c_{n+j} onto
// index n-j of the remainder), plus two adjacent holes below each split point. Dense and parity-regular masks never have
// this pattern.
func irregularHoleShapes() []shape {
	var r []shape
	seen := map[[2]uint64]bool{}
	add := func(d int, holes ...int) {
		m := uint64(1)<<(d+1) - 1
		name := fmt.Sprintf("d%d/holes", d)
		for _, h := range holes {
			m &^= 1 << h
			name += fmt.Sprintf("-%d", h)
		}
		if !seen[[2]uint64{uint64(d), m}] {
			seen[[2]uint64{uint64(d), m}] = true
			r = append(r, mkShape(name, d, m))
		}
	}
	for d := 9; d <= 17; d++ {
		for _, n := range []int{4, 8, 16} {
			if n >= d {
				continue
			}
			for j := 1; j <= n-1 && n+j <= d; j++ { // j < n: the sub-polynomial split at n has degree < 2n
				add(d, n-j)
			}
			if n+2 <= d {
				add(d, n-1, n-2)
			}
		}
	}
	return r
}

// bitsLen is ceil(log2(d+1)): the documented number of levels for a polynomial of formal degree d.
func bitsLen(d int) int {
	n := 0
	for d > 0 {
		n++
		d >>= 1
	}
	return n
}

// ---------------------------------------------------------------------------------------------
// slot mappings of polynomial vectors

type mapping struct {
	name  string
	npoly int
	m     func(slots int) map[int][]int
	// mixed: polynomial 0 keeps the shape's mask (general), polynomial 1 only its odd powers, polynomial 2 only
	// its even powers: a vector mixing odd / even / general polynomials of one formal degree.
	mixed bool
	// declareEach: every polynomial additionally declares its own parity (IsEven=false resp. IsOdd=false)
	declareEach bool
	// perPolyIntervals (Chebyshev basis): every polynomial of the vector has its own interval; the change of basis
	// comes from PolynomialVector.ChangeOfBasis(slots)
	perPolyIntervals bool
}

// intervals of polynomials 1 and 2 of a perPolyIntervals vector (polynomial 0 keeps the scenario's interval)
var extraIntervals = [][2]float64{{0, 4}, {-2, -0.5}}

const oddBits, evenBits = 0xAAAAAAAAAAAAAAAA, 0x5555555555555555

// maskOf returns the coefficient mask of polynomial k of a vector.
func (m mapping) maskOf(sh shape, k int) uint64 {
	if !m.mixed {
		return sh.mask
	}
	switch k {
	case 1:
		return sh.mask & oddBits
	case 2:
		return sh.mask & evenBits
	}
	return sh.mask
}

func thirds(s int) map[int][]int {
	m := map[int][]int{0: nil, 1: nil, 2: nil}
	for i := 0; i < s; i++ {
		m[i%3] = append(m[i%3], i)
	}
	return m
}

func mappings() []mapping {
	return []mapping{
		// two polynomials, every slot covered: even slots -> P0, odd slots -> P1
		{"disjoint-cover", 2, func(s int) map[int][]int {
			m := map[int][]int{0: nil, 1: nil}
			for i := 0; i < s; i++ {
				m[i%2] = append(m[i%2], i)
			}
			return m
		}, false, false, false},
		// one polynomial on the first half only: the other slots must evaluate to 0
		{"partial-one", 1, func(s int) map[int][]int {
			m := map[int][]int{0: nil}
			for i := 0; i < s/2; i++ {
				m[0] = append(m[0], i)
			}
			return m
		}, false, false, false},
		// two polynomials on a quarter each (not contiguous), half of the slots uncovered
		{"partial-two", 2, func(s int) map[int][]int {
			m := map[int][]int{0: nil, 1: nil}
			for i := 0; i < s; i++ {
				switch i % 4 {
				case 1:
					m[0] = append(m[0], i)
				case 2:
					m[1] = append(m[1], i)
				}
			}
			return m
		}, false, false, false},
		// three polynomials on one slot each (first, a middle one, last)
		{"singletons", 3, func(s int) map[int][]int {
			return map[int][]int{0: {0}, 1: {s/2 + 1}, 2: {s - 1}}
		}, false, false, false},
		// general / odd / even polynomials in one vector, parity not declared
		{"mixed-parity", 3, thirds, true, false, false},
		// three polynomials on three different (also asymmetric) Chebyshev intervals
		{"per-poly-intervals", 3, thirds, false, false, true},
	}
}
