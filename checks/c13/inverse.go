package main

import (
	"fmt"
	"math"
	"math/cmplx"

	"github.com/tuneinsight/lattigo/v6/circuits/ckks/bootstrapping"
	"github.com/tuneinsight/lattigo/v6/circuits/ckks/inverse"
	"github.com/tuneinsight/lattigo/v6/circuits/ckks/minimax"
	"github.com/tuneinsight/lattigo/v6/core/rlwe"

	"verif/engine"
	"verif/lib/circ"
	"verif/uni"
)

// inverse.Evaluate{Positive,Negative,Full}DomainNew: 1/x on [2^log2min, 2^log2max] (resp. the negative / both intervals).
// The wrappers state no error bound. Oracle: the documented algorithm evaluated in plaintext
//   1. interval normalisation (doc of IntervalNormalization: n = ceil(log_L max) steps z = 1-(c_i y)^2, y <- y z, F <- F z,
//      L = 2.45, c_i = 2/sqrt(27 L^(2(n-1-i)))),
//   2. full domain: y <- y * sign(y) with the given composite sign polynomial,
//   3. Goldschmidt division (doc: a = 2-y, b = 1-y; b <- b^2, a <- a + a b; iterations from the scale),
//   4. result a * F (* sign),
// with a worst-case error tracked through the same steps; and, implied, |result - 1/x| <= plaintext algorithm's own error + ε.

// tv is a plaintext value with a bound on the error of its encrypted counterpart.
type tv struct{ v, e float64 }

type tracker struct{ mu, rho float64 }

func (t tracker) mulc(a tv, c float64) tv { return tv{a.v * c, math.Abs(c)*a.e + t.mu} }
func (t tracker) addc(a tv, c float64) tv { return tv{a.v + c, a.e} }
func (t tracker) mul(a, b tv) tv {
	return tv{a.v * b.v, math.Abs(a.v)*b.e + math.Abs(b.v)*a.e + a.e*b.e + t.mu}
}
func (t tracker) add(a, b tv) tv { return tv{a.v + b.v, a.e + b.e} }
func (t tracker) boot(a tv) tv   { return tv{a.v, a.e + t.rho} } // a possible re-encryption

const (
	invPositive = iota
	invNegative
	invFull
)

var invNames = []string{"EvaluatePositiveDomainNew", "EvaluateNegativeDomainNew", "EvaluateFullDomainNew"}

func inverseScenarios(tier string) []engine.Scenario {
	var scs []engine.Scenario
	specs := []circ.CKKSSpec{compSpec6}
	if tier == "thorough" {
		specs = append(specs, compSpec7)
	}
	for _, spec := range specs {
		spec := spec
		name := fmt.Sprintf("composite/%s/inverse-domains", spec.String())
		scs = append(scs, engine.Scenario{Name: name, Bound: -1, Fn: func(c *engine.Chooser) { inverseLeaf(c, name, spec) }})
	}
	return scs
}

func inverseLeaf(c *engine.Chooser, scName string, spec circ.CKKSSpec) {
	w := getCompWorld(c, spec)
	op := c.ChooseFree(3, "domain")
	log2max := []float64{3, 0, 1.5}[c.ChooseFree(3, "log2max")]
	log2min := []float64{-3, -2}[c.ChooseFree(2, "log2min")]
	lowLevel := c.Bool("lowLevel")
	desc := fmt.Sprintf("inverse.%s log2min=%v log2max=%v lowLevel=%v", invNames[op], log2min, log2max, lowLevel)
	c.Note("%s", desc)
	c.Cover("composite", "inverse."+invNames[op])
	if log2max > 0 {
		c.Cover("inverse-normalisation", "yes")
	} else {
		c.Cover("inverse-normalisation", "no")
	}
	sig := "C13/composite/inverse." + invNames[op]
	uni.Seed(c, scName, desc)
	p := w.Params
	n := w.slots
	min, max := math.Exp2(log2min), math.Exp2(log2max)
	// geometric grid of [min, max] including both end points and 1; signs by domain
	x := make([]complex128, n)
	for j := range x {
		v := min * math.Pow(max/min, float64(j)/float64(n-1))
		switch {
		case op == invNegative, op == invFull && j%2 == 1:
			v = -v
		}
		x[j] = complex(v, 0)
	}
	level := p.MaxLevel()
	if lowLevel {
		level = 4
	}
	ct := w.Encrypt(x, p.LogMaxSlots(), level, p.DefaultScale())
	ev := w.tmpl.ShallowCopy()
	btp := bootstrapping.NewSecretKeyBootstrapper(p, w.Sk)
	inv := inverse.NewEvaluator(p, minimax.NewEvaluator(p, ev, btp))
	signCp := composite{"X4.X4.X4.X4.X2", [][]string{x4, x4, x4, x4, x2}}
	var out *rlwe.Ciphertext
	var err error
	_, pan := uni.Try(func() error {
		switch op {
		case invPositive:
			out, err = inv.EvaluatePositiveDomainNew(ct, log2min, log2max)
		case invNegative:
			out, err = inv.EvaluateNegativeDomainNew(ct, log2min, log2max)
		case invFull:
			out, err = inv.EvaluateFullDomainNew(ct, log2min, log2max, minimax.NewPolynomial(signCp.polys))
		}
		return nil
	})
	if pan != nil {
		c.Fail(sig+"/panic", "%s: panic: %v", desc, pan)
		return
	}
	if err != nil {
		c.Fail(sig+"/error", "%s: %v", desc, err)
		return
	}
	z := circ.NoiseOf(p.Parameters)
	delta := circ.ScaleF(p.DefaultScale())
	tr := tracker{
		mu:  z.Embed*(circ.KeySwitch(p.Parameters, p.MaxLevel(), p.MaxLevelP())/(delta*delta/16)+z.Rescale()/(delta/4)) + 4/delta,
		rho: z.Embed * z.Fresh() / delta,
	}
	got := w.Decode(out, p.LogMaxSlots(), out.Scale) // the output scale is not documented: decode at the reported one
	worst := 0.0
	for j := range x {
		xv := real(x[j])
		y := tv{xv, tr.rho}
		if op == invNegative {
			y = tr.mulc(y, -1) // the negative wrapper inverts -x and negates the result
		}
		var F *tv
		if log2max > 0 {
			const L = 2.45
			steps := math.Ceil(log2max / math.Log2(L))
			for i := 0; i < int(steps); i++ {
				cc := 2.0 / math.Sqrt(27*math.Pow(L, 2*(steps-1-float64(i))))
				zz := tr.mulc(y, cc)
				zz = tr.mul(zz, zz)
				zz = tr.boot(tr.addc(tr.mulc(zz, -1), 1))
				if F == nil {
					f := zz
					F = &f
				} else {
					f := tr.boot(tr.mul(*F, zz))
					F = &f
				}
				y = tr.boot(tr.mul(y, zz))
			}
		}
		var s tv
		ok := true
		if op == invFull {
			s.v, s.e, ok = compTrack(w, signCp, y.v, y.e, false)
			s = tr.boot(s)
			y = tr.mul(tr.boot(y), s)
		}
		if !ok {
			c.Cover("composite", "slot-outside-model")
			continue
		}
		// Goldschmidt (iterations as documented: until (1-2^log2min)^(2^k) is below 2^-(scale precision), at least 3)
		prec := float64(p.N()/2) / delta
		start, iters := 1-math.Exp2(log2min), 1
		for start >= prec {
			start *= start
			iters++
		}
		if iters < 3 {
			iters = 3
		}
		a := tr.addc(tr.mulc(y, -1), 2)
		b := tr.addc(tr.mulc(y, -1), 1)
		for i := 1; i < iters; i++ {
			b = tr.boot(tr.mul(tr.boot(b), b))
			a = tr.boot(tr.add(tr.mulc(a, 1), tr.mul(a, b)))
		}
		res := a
		if F != nil {
			res = tr.mul(tr.boot(res), tr.boot(*F))
		}
		if op == invFull {
			res = tr.mul(res, s)
		}
		if op == invNegative {
			res = tr.mulc(res, -1)
		}
		eps := safety*res.e + 1e-12
		d := cmplx.Abs(got[j] - complex(res.v, 0))
		worst = math.Max(worst, d/eps)
		if d > eps {
			c.Fail(sig+"/value-vs-plaintext-algorithm", "%s: slot %d x=%v: got %v, documented algorithm in plaintext %v (1/x = %v), |diff|=%.3g > eps=%.3g", desc, j, xv, got[j], res.v, 1/xv, d, eps)
			break
		}
		// implied: distance to 1/x within the algorithm's own plaintext error + eps
		if d2 := cmplx.Abs(got[j] - complex(1/xv, 0)); d2 > math.Abs(res.v-1/xv)+eps {
			c.Fail(sig+"/value-vs-inverse", "%s: slot %d x=%v: got %v want 1/x = %v", desc, j, xv, got[j], 1/xv)
			break
		}
	}
	c.Note("max |diff|/eps = %.3g, bootstraps=%d", worst, btp.Counter)
	debugFail("note", fmt.Sprintf("%s %s: max |diff|/eps = %.3g bootstraps=%d", spec.String(), desc, worst, btp.Counter))
	c.Outcome("inverse", desc)
	c.Count(n)
}
