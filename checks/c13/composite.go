package main

import (
	"fmt"
	"math"
	"math/cmplx"
	"strconv"

	"github.com/tuneinsight/lattigo/v6/circuits/ckks/bootstrapping"
	"github.com/tuneinsight/lattigo/v6/circuits/ckks/comparison"
	"github.com/tuneinsight/lattigo/v6/circuits/ckks/inverse"
	"github.com/tuneinsight/lattigo/v6/circuits/ckks/minimax"
	"github.com/tuneinsight/lattigo/v6/core/rlwe"
	"github.com/tuneinsight/lattigo/v6/schemes/ckks"

	"verif/engine"
	"verif/lib/circ"
	"verif/uni"
)

// Composite circuits on top of the polynomial evaluator: minimax composite polynomials (sign), comparison
// (Sign, Step, Max, Min) and the Goldschmidt inversion. The circuits state no numeric error bound for the
// composite polynomials, so the oracle is: homomorphic result == plaintext evaluation of the SAME composite
// polynomials (own big.Float Chebyshev evaluation) within the CKKS ε, on a grid of the stated domain
// including its end points; the documented output scale; and the documented semantics of the gates
// (Step = (sign+1)/2, Max = step(a-b)*(a-b)+b, Min = a-step(a-b)*(a-b)). Goldschmidt states its error.

type compWorld struct {
	*circ.CKKS
	evk   *rlwe.MemEvaluationKeySet
	tmpl  *ckks.Evaluator
	slots int
}

var compWorlds = map[string]*compWorld{}

func getCompWorld(c *engine.Chooser, s circ.CKKSSpec) *compWorld {
	if w, ok := compWorlds[s.String()]; ok {
		return w
	}
	uni.Seed(c, "world", s.String())
	b := circ.NewCKKS(s)
	kgen := rlwe.NewKeyGenerator(b.Params)
	w := &compWorld{CKKS: b, slots: b.Params.MaxSlots()}
	// relinearization + complex conjugation (minimax.Evaluator cleans the imaginary part with it)
	// (the conjugate-invariant ring has real slots and no conjugation)
	var gks []*rlwe.GaloisKey
	if !s.CI {
		gks = append(gks, kgen.GenGaloisKeyNew(b.Params.GaloisElementForComplexConjugation(), b.Sk))
	}
	w.evk = rlwe.NewMemEvaluationKeySet(kgen.GenRelinearizationKeyNew(b.Sk), gks...)
	w.tmpl = ckks.NewEvaluator(b.Params, w.evk)
	compWorlds[s.String()] = w
	return w
}

type composite struct {
	name  string
	polys [][]string
}

var x2, x4 = minimax.CoeffsSignX2Cheby, minimax.CoeffsSignX4Cheby

func composites(tier string) []composite {
	cs := []composite{
		{"X2", [][]string{x2}},
		{"X4", [][]string{x4}},
		{"X2.X4", [][]string{x2, x4}},
		{"X4.X4.X2", [][]string{x4, x4, x2}},
	}
	if tier == "thorough" {
		cs = append(cs, composite{"X2.X2.X2.X2", [][]string{x2, x2, x2, x2}}, composite{"X4.X4.X4.X4", [][]string{x4, x4, x4, x4}})
	}
	return cs
}

func parseF(ss []string) []complex128 {
	r := make([]complex128, len(ss))
	for i, s := range ss {
		f, err := strconv.ParseFloat(s, 64)
		if err != nil {
			panic(err)
		}
		r[i] = complex(f, 0)
	}
	return r
}

var chebUnit = basisCase{"chebyshev[-1,1]", 1, -1, 1}

// chebDeriv returns p'(y) for p = sum c_k T_k (real coefficients, real y): T_k' = k U_{k-1}.
func chebDeriv(cs []complex128, y float64) float64 {
	// U_0 = 1, U_1 = 2y, U_k = 2y U_{k-1} - U_{k-2}
	uPrev, uCur := 1.0, 2*y
	d := 0.0
	for k := 1; k < len(cs); k++ {
		var u float64 // U_{k-1}
		switch k {
		case 1:
			u = uPrev
		case 2:
			u = uCur
		default:
			uPrev, uCur = uCur, 2*y*uCur-uPrev
			u = uCur
		}
		d += real(cs[k]) * float64(k) * u
	}
	return d
}

// chebF evaluates sum c_k T_k(t) in float64 (Clenshaw); used only inside error bounds.
func chebF(cs []float64, t float64) float64 {
	var b1, b2 float64
	for k := len(cs) - 1; k >= 1; k-- {
		b1, b2 = 2*t*b1-b2+cs[k], b1
	}
	return t*b1 - b2 + cs[0]
}

// supDev bounds sup over |t-y| <= e of |p(t)-p(y)|: maximum over a grid of spacing h plus the piecewise-linear
// interpolation remainder M2 h^2/8 (M2 >= max |p”| on [-1,1]: sum |c_k| k^2(k^2-1)/3), plus float slack.
func supDev(cs []float64, M2, y, e float64) float64 {
	if e == 0 {
		return 0
	}
	n := int(2*e*math.Sqrt(M2/8e-10)) + 16
	if n > 40000 {
		n = 40000
	}
	h := 2 * e / float64(n)
	py := chebF(cs, y)
	sup := 0.0
	for j := 0; j <= n; j++ {
		sup = math.Max(sup, math.Abs(chebF(cs, y-e+float64(j)*h)-py))
	}
	return sup + M2*h*h/8 + 1e-13
}

// compTrack evaluates the composite p_k(...p_0(x)) in plaintext (last polynomial replaced by (p+1)/2 for Step)
// and, alongside, a bound on the error of its homomorphic evaluation for an input error e0 (no safety factor):
//
//	stage i:  e_i = sup over |t-y| <= e_{i-1} of |p_i(t)-p_i(y)| * 1.01   effect of the incoming error at the point y actually
//	                                                                    reached (supDev; the minimax sign polynomials amplify by
//	                                                                    10..400 in places and flatten near +-1: a global
//	                                                                    Lipschitz constant would be useless)
//	              + polyModel(deg_i, S_i, rho=0)                        noise added by the evaluation itself
//	              + conj + boot                                         key-switch of the conjugation; one possible re-encryption
//
// ok=false: the interval [y-e, y+e] leaves [-1-1e-6, 1+1e-6], where the bounds do not hold (slot not judged).
func compTrack(w *compWorld, cp composite, x, e0 float64, step bool) (y, e float64, ok bool) {
	p := w.Params.Parameters
	z := circ.NoiseOf(p)
	delta := circ.ScaleF(w.Params.DefaultScale())
	boot := z.Embed * z.Fresh() / delta
	conj := z.Embed * circ.KeySwitch(p, p.MaxLevel(), p.MaxLevelP()) / (delta / 4)
	y, e, ok = x, e0, true
	for i, ps := range cp.polys {
		cs := parseF(ps)
		last := step && i == len(cp.polys)-1
		if math.Abs(y)+e > 1+1e-6 {
			return y, e, false
		}
		fs := make([]float64, len(cs))
		M2, S := 0.0, 0.0
		for k, ck := range cs {
			fs[k] = real(ck)
			kk := float64(k * k)
			M2 += cmplx.Abs(ck) * kk * (kk - 1) / 3
			S += cmplx.Abs(ck)
		}
		dev := supDev(fs, M2*1.001, y, e)
		y = real(refEval(chebUnit, cs, complex(y, 0)))
		if last {
			y, dev, S = (y+1)/2, dev/2, S/2+0.5
		}
		e = 1.01*dev + polyModel(p, true, len(cs)-1, S, 0, delta) + conj + boot
	}
	return y, e, true
}

const (
	opMinimax = iota
	opSign
	opStep
	opMax
	opMin
	nOps
)

var opNames = []string{"minimax.Evaluate", "comparison.Sign", "comparison.Step", "comparison.Max", "comparison.Min"}

var compSpec6 = circ.CKKSSpec{LogN: 6, NQ: 11, Q0Bits: 55, QBits: 45, NP: 2, PBits: 56, LogScale: 45}
var compSpecHP = circ.CKKSSpec{LogN: 4, NQ: 11, Q0Bits: 60, QBits: 55, NP: 2, PBits: 61, LogScale: 55}
var compSpec7 = circ.CKKSSpec{LogN: 7, NQ: 11, Q0Bits: 55, QBits: 45, NP: 2, PBits: 56, LogScale: 45}
var compSpec8CI = circ.CKKSSpec{LogN: 8, NQ: 11, Q0Bits: 55, QBits: 45, NP: 2, PBits: 56, LogScale: 45, CI: true}

func compositeScenarios(tier string) []engine.Scenario {
	var scs []engine.Scenario
	specs := []circ.CKKSSpec{compSpec6}
	if tier == "thorough" {
		specs = append(specs, compSpec7, compSpec8CI)
	}
	for _, spec := range specs {
		spec := spec
		for _, cp := range composites(tier) {
			cp := cp
			name := fmt.Sprintf("composite/%s/%s", spec.String(), cp.name)
			scs = append(scs, engine.Scenario{Name: name, Bound: -1, Fn: func(c *engine.Chooser) { compositeLeaf(c, name, spec, cp) }})
		}
		name := fmt.Sprintf("composite/%s/Goldschmidt", spec.String())
		scs = append(scs, engine.Scenario{Name: name, Bound: -1, Fn: func(c *engine.Chooser) { goldschmidtLeaf(c, name, spec) }})
	}
	// The package's default composite polynomial for the sign (8 minimax polynomials of degree 15..31, then X4) amplifies
	// perturbations by 10..400 per stage before it flattens: the tracked bound is only meaningful with very little noise,
	// hence a dedicated world with 8 slots and a 2^55 scale. Slots where the tracked interval still leaves [-1,1] are
	// counted (composite=slot-outside-model), not judged.
	{
		cp := composite{"default-sign", comparison.DefaultCompositePolynomialForSign}
		name := fmt.Sprintf("composite/%s/%s", compSpecHP.String(), cp.name)
		scs = append(scs, engine.Scenario{Name: name, Bound: -1, Fn: func(c *engine.Chooser) { compositeLeaf(c, name, compSpecHP, cp) }})
	}
	scs = append(scs, engine.Scenario{Name: "composite/defaults", Bound: -1, Fn: defaultsLeaf})
	scs = append(scs, engine.Scenario{Name: "composite/doc-examples", Bound: -1, Fn: docExamplesLeaf})
	return scs
}

func compositeLeaf(c *engine.Chooser, scName string, spec circ.CKKSSpec, cp composite) {
	w := getCompWorld(c, spec)
	op := c.ChooseFree(nOps, "op")
	lowLevel := c.Bool("lowLevel") // input at a level that forces the (secret-key) bootstrapper to run in between
	desc := fmt.Sprintf("%s %s lowLevel=%v", opNames[op], cp.name, lowLevel)
	c.Note("%s", desc)
	c.Cover("composite", opNames[op])
	c.Cover("composite-level", fmt.Sprint(lowLevel))
	sig := "C13/composite/" + opNames[op]
	uni.Seed(c, scName, desc)

	p := w.Params
	level := p.MaxLevel()
	if lowLevel {
		level = 4
	}
	n := w.slots
	// grid of the stated domain [-1,1] including both end points and 0; second operand for Max/Min such
	// that a+b and a-b stay in [-1,1] (doc of Max/Min)
	a := make([]complex128, n)
	b := make([]complex128, n)
	for j := 0; j < n; j++ {
		a[j] = complex(-1+2*float64(j)/float64(n-1), 0)
		if op == opMax || op == opMin {
			a[j] = complex(-0.5+float64(j)/float64(n-1), 0)
			b[j] = complex(0.5*math.Cos(1.7*float64(j)), 0)
		}
	}
	a[n/2] = 0
	cta := w.Encrypt(a, p.LogMaxSlots(), level, p.DefaultScale())
	var ctb *rlwe.Ciphertext
	if op == opMax || op == opMin {
		ctb = w.Encrypt(b, p.LogMaxSlots(), level, p.DefaultScale())
	}
	ev := w.tmpl.ShallowCopy()
	btp := bootstrapping.NewSecretKeyBootstrapper(p, w.Sk)
	mm := minimax.NewEvaluator(p, ev, btp)
	poly := minimax.NewPolynomial(cp.polys)
	cmp := comparison.NewEvaluator(p, mm, poly)

	var out *rlwe.Ciphertext
	var err error
	_, pan := uni.Try(func() error {
		switch op {
		case opMinimax:
			out, err = mm.Evaluate(cta, poly)
		case opSign:
			out, err = cmp.Sign(cta)
		case opStep:
			out, err = cmp.Step(cta)
		case opMax:
			out, err = cmp.Max(cta, ctb)
		case opMin:
			out, err = cmp.Min(cta, ctb)
		}
		return nil
	})
	if pan != nil {
		c.Fail(sig+"/panic", "%s: panic: %v", desc, pan)
		return
	}
	if err != nil {
		c.Fail(sig+"/error", "%s: %v", desc, err)
		return
	}
	if btp.Counter > 0 {
		c.Cover("composite-bootstrapped", "yes")
	} else {
		c.Cover("composite-bootstrapped", "no")
	}
	// "This will ensure that sign.Scale = params.DefaultScale()" (Sign, Step, Max, Min); minimax.Evaluate
	// returns the input's scale, which is the default scale here. Equality up to float rounding of the scale
	// bookkeeping (2^-40 relative: invisible at 45-bit scales).
	if !scaleWithin(out.Scale, p.DefaultScale(), 40) {
		c.Fail(sig+"/output-scale", "%s: output scale %v, documented: params.DefaultScale() = %v", desc, &out.Scale.Value, circ.BigScale(p.DefaultScale()))
	}
	z := circ.NoiseOf(p.Parameters)
	delta := circ.ScaleF(p.DefaultScale())
	rho := z.Embed * z.Fresh() / delta
	mu := z.Embed*(circ.KeySwitch(p.Parameters, p.MaxLevel(), p.MaxLevelP())/(delta*delta/16)+z.Rescale()/(delta/4)) + 4/delta
	got := w.Decode(out, p.LogMaxSlots(), p.DefaultScale())
	worst, worstEps := 0.0, 0.0
	for j := 0; j < n; j++ {
		var want, model float64
		x, y := real(a[j]), real(b[j])
		ok := true
		switch op {
		case opMinimax, opSign:
			want, model, ok = compTrack(w, cp, x, rho, false)
		case opStep:
			want, model, ok = compTrack(w, cp, x, rho, true)
		case opMax, opMin:
			// diff = a-b (error 2 rho, possibly re-encrypted: +rho), step(diff) (tracked), rescaling of diff by a
			// constant (mu), product step*diff (|diff|<=1, |step|<=1.01) and rescale (mu), +- an input (rho)
			d := x - y
			var st, es float64
			st, es, ok = compTrack(w, cp, d, 3*rho, true)
			ed := 3*rho + mu
			model = math.Abs(d)*es + 1.01*ed + es*ed + mu + rho
			if op == opMax {
				want = st*d + y
			} else {
				want = x - st*d
			}
		}
		if !ok {
			c.Cover("composite", "slot-outside-model")
			continue
		}
		if cp.name == "default-sign" {
			c.Cover("composite", "default-sign-slot-judged")
		}
		eps := safety*model + 1e-12
		if cp.name == "default-sign" && eps < 1e-6 {
			c.Cover("composite", "default-sign-slot-tight") // the bound is far below the +-1 output there
		}
		dlt := cmplx.Abs(got[j] - complex(want, 0))
		if dlt > worst {
			worst, worstEps = dlt, eps
		}
		if dlt > eps {
			c.Fail(sig+"/value", "%s: slot %d a=%v b=%v: got %v want %v |diff|=%.3g > eps=%.3g", desc, j, x, y, got[j], want, dlt, eps)
			break
		}
	}
	c.Note("max |diff| = %.3g (eps there %.3g)", worst, worstEps)
	debugFail("note", fmt.Sprintf("%s %s: max |diff| = %.3g (eps there %.3g) bootstraps=%d", spec.String(), desc, worst, worstEps, btp.Counter))
	c.Outcome("composite", desc)
	c.Count(n)
}

func scaleWithin(a, b rlwe.Scale, bits int) bool {
	x, y := circ.BigScale(a), circ.BigScale(b)
	x.Sub(x, y)
	x.Quo(x, y)
	f, _ := x.Float64()
	return math.Abs(f) <= math.Exp2(-float64(bits))
}

// goldschmidtLeaf: doc of GoldschmidtDivisionNew: input in [2^log2min, 2-2^log2min]; output 1/x - e with the
// number of iterations chosen "to achieve the optimal precision, which is derived from the plaintext scale".
// Oracle: |out - 1/x| <= 2 * safety * noise model: the algorithmic error must not exceed the noise floor.
//
// Noise model per slot (K = 12 >= the number of iterations for log2min >= -4; extra iterations only add):
//
//	a = 2-x, b = 1-x (errors rho);  repeat K times:
//	  b <- b*b           e_b <- 2|b| e_b + e_b^2 + mu (+ rho if re-encrypted)
//	  a <- a + a*b       e_a <- e_a (1+|b|+e_b) + |a| e_b + 2 mu (+ rho)
func goldschmidtLeaf(c *engine.Chooser, scName string, spec circ.CKKSSpec) {
	w := getCompWorld(c, spec)
	log2min := []float64{-2, -3, -1}[c.ChooseFree(3, "log2min")]
	lowLevel := c.Bool("lowLevel")
	desc := fmt.Sprintf("GoldschmidtDivisionNew log2min=%v lowLevel=%v", log2min, lowLevel)
	c.Note("%s", desc)
	c.Cover("composite", "inverse.GoldschmidtDivisionNew")
	sig := "C13/composite/inverse.GoldschmidtDivisionNew"
	uni.Seed(c, scName, desc)
	p := w.Params
	n := w.slots
	min := math.Exp2(log2min)
	x := make([]complex128, n)
	for j := range x {
		x[j] = complex(min+(2-2*min)*float64(j)/float64(n-1), 0) // end points included, 1 included when n is odd.. add it:
	}
	x[n/2] = 1
	level := p.MaxLevel()
	if lowLevel {
		level = 3
	}
	ct := w.Encrypt(x, p.LogMaxSlots(), level, p.DefaultScale())
	ev := w.tmpl.ShallowCopy()
	btp := bootstrapping.NewSecretKeyBootstrapper(p, w.Sk)
	inv := inverse.NewEvaluator(p, minimax.NewEvaluator(p, ev, btp))
	var out *rlwe.Ciphertext
	var err error
	_, pan := uni.Try(func() error { out, err = inv.GoldschmidtDivisionNew(ct, log2min); return nil })
	if pan != nil {
		c.Fail(sig+"/panic", "%s: panic: %v", desc, pan)
		return
	}
	if err != nil {
		c.Fail(sig+"/error", "%s: %v", desc, err)
		return
	}
	z := circ.NoiseOf(p.Parameters)
	delta := circ.ScaleF(p.DefaultScale())
	rho := z.Embed * z.Fresh() / delta
	mu := z.Embed*(circ.KeySwitch(p.Parameters, p.MaxLevel(), p.MaxLevelP())/(delta*delta/16)+z.Rescale()/(delta/4)) + 4/delta
	got := w.Decode(out, p.LogMaxSlots(), out.Scale) // the output scale is not documented: decode at the reported one
	worst := 0.0
	for j := range x {
		xv := real(x[j])
		ea, eb := rho, rho
		av, bv := 2-xv, math.Abs(1-xv)
		for k := 0; k < 12; k++ {
			eb = 2*bv*eb + eb*eb + mu + rho
			bv = bv * bv
			ea = ea*(1+bv+eb) + av*eb + 2*mu + rho
			av = av * (1 + bv)
		}
		eps := 2*safety*ea + 1e-12
		d := cmplx.Abs(got[j] - complex(1/xv, 0))
		worst = math.Max(worst, d/eps)
		if d > eps {
			c.Fail(sig+"/value", "%s: slot %d x=%v: got %v want %v |diff|=%.3g > eps=%.3g", desc, j, xv, got[j], 1/xv, d, eps)
			break
		}
	}
	c.Note("max |diff|/eps = %.3g", worst)
	debugFail("note", fmt.Sprintf("%s %s: max |diff|/eps = %.3g bootstraps=%d", spec.String(), desc, worst, btp.Counter))
	c.Outcome("goldschmidt", desc)
	c.Count(n)
}

// docExamplesLeaf: the numeric examples in the doc comments of CoeffsSignX2Cheby / CoeffsSignX4Cheby.
func docExamplesLeaf(c *engine.Chooser) {
	c.Cover("composite", "doc-examples")
	x := -0.9993209
	if y := real(refEval(chebUnit, parseF(x2), complex(x, 0))); math.Abs(y-(-0.999999308)) > 1e-9 {
		c.Fail("C13/composite/doc/CoeffsSignX2Cheby", "p(%v) = %v, documented -0.999999308", x, y)
	}
	if y := real(refEval(chebUnit, parseF(x4), complex(x, 0))); math.Abs(y-(-0.9999999999990705)) > 1e-15 {
		c.Fail("C13/composite/doc/CoeffsSignX4Cheby", "p(%v) = %.17g, documented -0.9999999999990705", x, y)
	}
	// documented closed forms: 1.5x-0.5x^3 and 35/16x - 35/16x^3 + 21/16x^5 - 5/16x^7
	for k := 0; k <= 20; k++ {
		x := -1 + float64(k)/10
		f2 := 1.5*x - 0.5*x*x*x
		f4 := 35.0/16*x - 35.0/16*math.Pow(x, 3) + 21.0/16*math.Pow(x, 5) - 5.0/16*math.Pow(x, 7)
		if y := real(refEval(chebUnit, parseF(x2), complex(x, 0))); math.Abs(y-f2) > 1e-14 {
			c.Fail("C13/composite/doc/CoeffsSignX2Cheby", "p(%v) = %v, 1.5x-0.5x^3 = %v", x, y, f2)
		}
		if y := real(refEval(chebUnit, parseF(x4), complex(x, 0))); math.Abs(y-f4) > 1e-14 {
			c.Fail("C13/composite/doc/CoeffsSignX4Cheby", "p(%v) = %v, closed form = %v", x, y, f4)
		}
	}
	c.Outcome("doc")
	c.Count(44)
}

// defaultsLeaf: an optional argument left out must mean the documented default: comparison.NewEvaluator without a sign polynomial
// and inverse.EvaluateFullDomainNew without one use DefaultCompositePolynomialForSign. Same input, same seed (the secret-key
// bootstrapper re-encrypts): the result must be the SAME ciphertext as with the default passed explicitly.
func defaultsLeaf(c *engine.Chooser) {
	w := getCompWorld(c, compSpecHP)
	which := c.ChooseFree(2, "circuit")
	p := w.Params
	n := w.slots
	x := make([]complex128, n)
	for j := range x {
		x[j] = complex(-1+2*float64(j)/float64(n-1), 0)
		if which == 1 {
			x[j] = complex(0.25+0.75*float64(j)/float64(n-1), 0) // inverse: [2^-2, 1], signs alternate
			if j%2 == 1 {
				x[j] = -x[j]
			}
		}
	}
	name := []string{"comparison.NewEvaluator/default-sign-polynomial", "inverse.EvaluateFullDomainNew/default-sign-polynomial"}[which]
	c.Note("%s", name)
	c.Cover("composite", "default="+name)
	def := minimax.NewPolynomial(comparison.DefaultCompositePolynomialForSign)
	run := func(explicit bool) (out *rlwe.Ciphertext, err error, pan interface{}) {
		uni.Seed(c, "defaults", name) // identical randomness for both runs
		ct := w.Encrypt(x, p.LogMaxSlots(), p.MaxLevel(), p.DefaultScale())
		ev := w.tmpl.ShallowCopy()
		mm := minimax.NewEvaluator(p, ev, bootstrapping.NewSecretKeyBootstrapper(p, w.Sk))
		_, pan = uni.Try(func() error {
			switch {
			case which == 0 && explicit:
				out, err = comparison.NewEvaluator(p, mm, def).Sign(ct)
			case which == 0:
				out, err = comparison.NewEvaluator(p, mm).Sign(ct)
			case explicit:
				out, err = inverse.NewEvaluator(p, mm).EvaluateFullDomainNew(ct, -2, 0, def)
			default:
				out, err = inverse.NewEvaluator(p, mm).EvaluateFullDomainNew(ct, -2, 0)
			}
			return nil
		})
		return
	}
	oe, ee, pe := run(true)
	od, ed, pd := run(false)
	sig := "C13/composite/default/" + name
	switch {
	case pe != nil || ee != nil:
		c.Fail(sig+"/explicit-failed", "%s with the default passed explicitly: %v %v", name, ee, pe)
	case pd != nil:
		c.Fail(sig+"/panic", "%s: panic: %v", name, pd)
	case ed != nil:
		c.Fail(sig+"/error", "%s: %v", name, ed)
	case !od.Equal(oe):
		c.Fail(sig+"/differs", "%s: result differs from the one with DefaultCompositePolynomialForSign passed explicitly", name)
	}
	c.Outcome("defaults", name)
	c.Count(n)
}
