package main

import (
	"fmt"
	"math"
	"math/cmplx"

	"github.com/tuneinsight/lattigo/v6/circuits/ckks/mod1"
	ckkspoly "github.com/tuneinsight/lattigo/v6/circuits/ckks/polynomial"
	"github.com/tuneinsight/lattigo/v6/core/rlwe"
	"github.com/tuneinsight/lattigo/v6/schemes/ckks"
	"github.com/tuneinsight/lattigo/v6/utils/bignum"

	"verif/engine"
	"verif/lib/circ"
	"verif/uni"
)

// Homomorphic x mod 1 (circuits/ckks/mod1). The package states no numeric error bound, so each result is compared
//
//	(a) with the plaintext evaluation of the SAME polynomials (Mod1Poly, scaling, double-angle iterations), taken
//	    from a pristine mod1.Parameters that never saw an evaluator, within the CKKS ε;
//	(b) with scaling * QDiff * (x - round(x)), within ε + the approximation's own plaintext error at that point
//	    (computed exactly from the same coefficients);
//	(c) with the result of the same call on a fresh evaluator built from fresh parameters, on the same input
//	    ciphertext: evaluation is deterministic, so the two ciphertexts must be EQUAL (history insensitivity).
//
// One mod1.Evaluator sharing one mod1.Parameters runs a sequence of 2-3 calls out of
// {EvaluateNew, EvaluateAndScaleNew(1), EvaluateAndScaleNew(2), EvaluateAndScaleNew(0.5)}, all orders.
//
// Input convention (doc of EvaluateNew + the package's tests): at the scale 2^LogScale the message is
// u = x/K in [-1,1] with x = I + f, I an integer with |I| <= K-1 and |f| <= 2^-LogMessageRatio.
// The harness encrypts u directly at scale 2^LogScale and level LevelQ (no scale juggling needed).

type mod1Lit struct {
	name string
	lit  mod1.ParametersLiteral
}

func mod1Literals(levelQ int) []mod1Lit {
	return []mod1Lit{
		{"CosDiscrete-K12-d30-da3", mod1.ParametersLiteral{LevelQ: levelQ, Mod1Type: mod1.CosDiscrete, LogMessageRatio: 8, K: 12, Mod1Degree: 30, DoubleAngle: 3, LogScale: 60}},
		{"CosContinuous-K6-d63-da0", mod1.ParametersLiteral{LevelQ: levelQ, Mod1Type: mod1.CosContinuous, LogMessageRatio: 8, K: 6, Mod1Degree: 63, DoubleAngle: 0, LogScale: 60}},
		{"SinContinuous-K6-d63", mod1.ParametersLiteral{LevelQ: levelQ, Mod1Type: mod1.SinContinuous, LogMessageRatio: 8, K: 6, Mod1Degree: 63, LogScale: 60}},
		// with arcsine (as in the package's own SineContinuousWithArcSine test, smaller K and degree)
		{"SinContinuous-K6-d63-arcsine7", mod1.ParametersLiteral{LevelQ: levelQ, Mod1Type: mod1.SinContinuous, LogMessageRatio: 8, K: 6, Mod1Degree: 63, Mod1InvDegree: 7, LogScale: 60}},
		{"CosContinuous-K10-d40-da2", mod1.ParametersLiteral{LevelQ: levelQ, Mod1Type: mod1.CosContinuous, LogMessageRatio: 6, K: 10, Mod1Degree: 40, DoubleAngle: 2, LogScale: 60}},
	}
}

type mod1Op struct {
	name    string
	scaled  bool // EvaluateAndScaleNew instead of EvaluateNew
	scaling float64
}

var mod1Ops = []mod1Op{
	{"EvaluateNew", false, 1},
	{"EvaluateAndScaleNew(1)", true, 1},
	{"EvaluateAndScaleNew(2)", true, 2},
	{"EvaluateAndScaleNew(0.5)", true, 0.5},
}

func mod1Spec(logN int) circ.CKKSSpec {
	return circ.CKKSSpec{LogN: logN, NQ: 11, Q0Bits: 55, QBits: 60, NP: 3, PBits: 61, LogScale: 45}
}

type mod1World struct {
	*circ.CKKS
	tmpl  *ckks.Evaluator
	slots int
	cts   map[string]*rlwe.Ciphertext // input per literal
	fresh map[string]*rlwe.Ciphertext // result of one call on fresh evaluator + fresh parameters, per literal/op
}

var mod1Worlds = map[string]*mod1World{}

func getMod1World(c *engine.Chooser, s circ.CKKSSpec) *mod1World {
	if w, ok := mod1Worlds[s.String()]; ok {
		return w
	}
	uni.Seed(c, "world", s.String())
	b := circ.NewCKKS(s)
	w := &mod1World{CKKS: b, slots: b.Params.MaxSlots(), cts: map[string]*rlwe.Ciphertext{}, fresh: map[string]*rlwe.Ciphertext{}}
	w.tmpl = ckks.NewEvaluator(b.Params, rlwe.NewMemEvaluationKeySet(rlwe.NewKeyGenerator(b.Params).GenRelinearizationKeyNew(b.Sk)))
	mod1Worlds[s.String()] = w
	return w
}

// grid of the stated interval: every integer part in [-(K-1), K-1] (both ends first), fractional parts on a
// grid of [-2^-r, 2^-r] including both ends and 0.
func mod1Grid(K float64, logRatio, slots int) (x []float64) {
	k := int(K) - 1
	dev := math.Exp2(-float64(logRatio))
	x = make([]float64, slots)
	for j := range x {
		var I int
		switch j {
		case 0:
			I = -k
		case 1:
			I = k
		case 2:
			I = 0
		default:
			I = (7*j)%(2*k+1) - k
		}
		f := dev * (-1 + 2*float64((5*j)%9)/8) // -dev .. dev in 9 steps
		x[j] = float64(I) + f
	}
	return
}

// mod1Plain evaluates the composite of EvaluateAndScaleNew in plaintext from (pristine) parameters; it also
// returns the largest modulus seen before each double-angle step (for the error model).
func mod1Plain(pm mod1.Parameters, u, scaling float64) (y float64, ymax float64) {
	v := u
	if pm.Mod1Type == mod1.CosDiscrete || pm.Mod1Type == mod1.CosContinuous {
		a, _ := pm.Mod1Poly.A.Float64()
		b, _ := pm.Mod1Poly.B.Float64()
		v += -0.5 / ((b - a) * pm.IntervalShrinkFactor())
	}
	// without arcsine the scaling goes into the polynomial (2^r-th root, squared back by the double angles);
	// with arcsine it goes into the arcsine polynomial
	spow := 1.0
	if pm.Mod1InvPoly == nil {
		spow = math.Pow(scaling, 1/pm.IntervalShrinkFactor())
	}
	cs := toC128(pm.Mod1Poly.Coeffs)
	y = real(refEval(chebUnit, cs, complex(v, 0))) * spow
	sq := pm.Sqrt2Pi * spow
	for i := 0; i < pm.DoubleAngle; i++ {
		ymax = math.Max(ymax, math.Abs(y))
		sq *= sq
		y = 2*y*y - sq
	}
	ymax = math.Max(ymax, math.Abs(y))
	if pm.Mod1InvPoly != nil {
		y = real(refEval(basisCases[0], toC128(pm.Mod1InvPoly.Coeffs), complex(y, 0))) * scaling
	}
	return
}

func mod1Scenarios(tier string) []engine.Scenario {
	var scs []engine.Scenario
	logNs := []int{6}
	if tier == "thorough" {
		logNs = []int{6, 7, 8}
	}
	for _, logN := range logNs {
		spec := mod1Spec(logN)
		for li := range mod1Literals(10) {
			for first := range mod1Ops {
				li, first := li, first
				name := fmt.Sprintf("mod1/%s/%s/first=%s", spec.String(), mod1Literals(10)[li].name, mod1Ops[first].name)
				scs = append(scs, engine.Scenario{Name: name, Bound: -1, Fn: func(c *engine.Chooser) { mod1Leaf(c, name, spec, li, first) }})
			}
		}
		name := fmt.Sprintf("mod1/%s/ignored-fields", spec.String())
		scs = append(scs, engine.Scenario{Name: name, Bound: -1, Fn: func(c *engine.Chooser) { mod1IgnoredFieldLeaf(c, name, spec) }})
	}
	return scs
}

func mod1Leaf(c *engine.Chooser, scName string, spec circ.CKKSSpec, li, first int) {
	w := getMod1World(c, spec)
	p := w.Params
	ml := mod1Literals(p.MaxLevel())[li]
	seq := []int{first, c.ChooseFree(len(mod1Ops), "op2")}
	if k := c.ChooseFree(len(mod1Ops)+1, "op3"); k > 0 {
		seq = append(seq, k-1)
	}
	desc := ml.name + ":"
	for _, o := range seq {
		desc += " " + mod1Ops[o].name
	}
	c.Note("%s", desc)
	c.Cover("mod1", ml.name)
	c.Cover("mod1-length", fmt.Sprint(len(seq)))
	sig := "C13/composite/mod1"
	uni.Seed(c, scName, desc)

	newParams := func() mod1.Parameters {
		pm, err := mod1.NewParametersFromLiteral(p, ml.lit)
		if err != nil {
			panic(fmt.Sprintf("mod1.NewParametersFromLiteral(%s): %v", ml.name, err))
		}
		return pm
	}
	pristine := newParams() // never handed to an evaluator: source of the plaintext reference
	x := mod1Grid(pristine.K, ml.lit.LogMessageRatio, w.slots)
	scaleIn := pristine.ScalingFactor()
	// input ciphertext (cached per literal; deterministic in seed, world, literal)
	ct, ok := w.cts[ml.name]
	if !ok {
		uni.Seed(c, "mod1-input", spec.String(), ml.name)
		u := make([]complex128, len(x))
		for j := range x {
			u[j] = complex(x[j]/pristine.K, 0)
		}
		ct = w.Encrypt(u, p.LogMaxSlots(), ml.lit.LevelQ, scaleIn)
		w.cts[ml.name] = ct
	}
	call := func(me *mod1.Evaluator, op mod1Op) (out *rlwe.Ciphertext, err error, pan interface{}) {
		_, pan = uni.Try(func() error {
			if op.scaled {
				out, err = me.EvaluateAndScaleNew(ct.CopyNew(), complex(op.scaling, 0))
			} else {
				out, err = me.EvaluateNew(ct.CopyNew())
			}
			return nil
		})
		return
	}
	newEval := func(pm mod1.Parameters) *mod1.Evaluator {
		ev := w.tmpl.ShallowCopy()
		return mod1.NewEvaluator(ev, ckkspoly.NewEvaluator(p, ev), pm)
	}
	// (c) baseline: the same call on a fresh evaluator with fresh parameters
	freshOf := func(o int) *rlwe.Ciphertext {
		id := ml.name + "/" + mod1Ops[o].name
		if f, ok := w.fresh[id]; ok {
			return f
		}
		out, err, pan := call(newEval(newParams()), mod1Ops[o])
		if pan != nil || err != nil {
			return nil // reported by the sequence below when it happens there too
		}
		w.fresh[id] = out
		return out
	}

	// error model
	z := circ.NoiseOf(p.Parameters)
	delta := circ.ScaleF(scaleIn)
	rho := z.Embed * z.Fresh() / delta
	mu := z.Embed*(circ.KeySwitch(p.Parameters, p.MaxLevel(), p.MaxLevelP())/(delta*delta/16)+z.Rescale()/(delta/4)) + 4/delta
	S := 0.0
	for _, ck := range toC128(pristine.Mod1Poly.Coeffs) {
		S += cmplx.Abs(ck)
	}

	shared := newParams()
	me := newEval(shared) // ONE evaluator, ONE mod1.Parameters for the whole sequence
	for step, o := range seq {
		op := mod1Ops[o]
		out, err, pan := call(me, op)
		if pan != nil {
			c.Fail(sig+"/panic", "%s step %d: panic: %v", desc, step, pan)
			return
		}
		if err != nil {
			c.Fail(sig+"/error", "%s step %d: %v", desc, step, err)
			return
		}
		// "Multiplies back by q": the output carries the input's scale; levels: Depth() of the literal
		if !circ.ScaleClose(out.Scale, circ.BigScale(scaleIn)) {
			c.Fail(sig+"/output-scale", "%s step %d: output scale %v, input scale %v", desc, step, &out.Scale.Value, &scaleIn.Value)
		}
		if want := ml.lit.LevelQ - ml.lit.Depth(); out.Level() != want {
			c.Fail(sig+"/levels-consumed", "%s step %d: output level %d, LevelQ - Depth() = %d", desc, step, out.Level(), want)
		}
		if f := freshOf(o); f != nil && !out.Equal(f) {
			c.Fail(sig+"/history-sensitive", "%s step %d (%s): result differs from the same call on a fresh evaluator with fresh parameters", desc, step, op.name)
		}
		got := w.Decode(out, p.LogMaxSlots(), scaleIn)
		spow := 1.0
		if pristine.Mod1InvPoly == nil {
			spow = math.Pow(op.scaling, 1/pristine.IntervalShrinkFactor())
		}
		worst, worstApprox, maxEps := 0.0, 0.0, 0.0
		for j := range x {
			plain, ymax := mod1Plain(pristine, x[j]/pristine.K, op.scaling)
			// ε: Chebyshev evaluation of the scaled polynomial, then r double-angle steps y <- 2y^2 - c:
			//    e <- 4|y|e + 2e^2 + mu
			e := polyModel(p.Parameters, true, len(pristine.Mod1Poly.Coeffs)-1, S*spow, rho, delta)
			for i := 0; i < pristine.DoubleAngle; i++ {
				e = 4*(ymax+e)*e + 2*e*e + mu
			}
			if inv := pristine.Mod1InvPoly; inv != nil {
				// monomial arcsine polynomial q (coefficients times scaling) at |y| <= Y < 1:
				// |q(y+e)-q(y)| <= sum |c_i| i Y^(i-1) * e, plus the noise of its own evaluation
				ic := toC128(inv.Coeffs)
				Y := ymax + e
				L, S2 := 0.0, 0.0
				for i, ci := range ic {
					if i > 0 {
						L += cmplx.Abs(ci) * float64(i) * math.Pow(Y, float64(i-1))
					}
					S2 += cmplx.Abs(ci)
				}
				e = op.scaling * (L*e + polyModel(p.Parameters, false, len(ic)-1, S2, 0, delta))
			}
			eps := safety*e + 1e-12
			d := cmplx.Abs(got[j] - complex(plain, 0))
			worst = math.Max(worst, d/eps)
			maxEps = math.Max(maxEps, eps)
			if d > eps {
				c.Fail(sig+"/value-vs-plaintext-polynomial", "%s step %d (%s): slot %d x=%v: got %v, same polynomials in plaintext %v, |diff|=%.3g > eps=%.3g", desc, step, op.name, j, x[j], got[j], plain, d, eps)
				break
			}
			truth := op.scaling * pristine.QDiff * (x[j] - math.Round(x[j]))
			approx := math.Abs(plain - truth)
			worstApprox = math.Max(worstApprox, approx)
			if d2 := cmplx.Abs(got[j] - complex(truth, 0)); d2 > approx+eps {
				c.Fail(sig+"/value-vs-x-mod-1", "%s step %d (%s): slot %d x=%v: got %v, scaling*QDiff*(x-round(x)) = %v, |diff|=%.3g > approximation error %.3g + eps %.3g", desc, step, op.name, j, x[j], got[j], truth, d2, approx, eps)
				break
			}
		}
		c.Note("step %d %s: max |diff|/eps = %.3g, plaintext approximation error <= %.3g", step, op.name, worst, worstApprox)
		debugFail("note", fmt.Sprintf("%s %s step %d %s: max |diff|/eps = %.3g approx err %.3g eps %.3g", spec.String(), desc, step, op.name, worst, worstApprox, maxEps))
		c.Count(len(x))
	}
	c.Outcome("mod1", desc)
}

// mod1IgnoredFieldLeaf: "DoubleAngle: Number of rescale and double angle formula (only applies for cos and is ignored if sin
// is used)". A SinContinuous literal with DoubleAngle in {1,2,3} must therefore behave exactly like the same literal with
// DoubleAngle 0: same Parameters (normalised DoubleAngle, Sqrt2Pi, K, QDiff, polynomials), same Depth(), and - evaluation being
// deterministic - the SAME output ciphertext on the same input.
func mod1IgnoredFieldLeaf(c *engine.Chooser, scName string, spec circ.CKKSSpec) {
	w := getMod1World(c, spec)
	p := w.Params
	da := 1 + c.ChooseFree(3, "DoubleAngle")
	arcsine := c.ChooseFree(2, "arcsine") == 1
	op := mod1Ops[c.ChooseFree(len(mod1Ops), "op")]
	lit0 := mod1.ParametersLiteral{LevelQ: p.MaxLevel(), Mod1Type: mod1.SinContinuous, LogMessageRatio: 8, K: 6, Mod1Degree: 63, LogScale: 60}
	if arcsine {
		lit0.Mod1InvDegree = 7
	}
	lit1 := lit0
	lit1.DoubleAngle = da
	desc := fmt.Sprintf("SinContinuous DoubleAngle=%d arcsine=%v %s", da, arcsine, op.name)
	c.Note("%s", desc)
	c.Cover("mod1", "ignored-field/DoubleAngle-with-sin")
	sig := "C13/composite/mod1/ignored-DoubleAngle"
	uni.Seed(c, scName, desc)
	if lit0.Depth() != lit1.Depth() {
		c.Fail(sig+"/depth", "%s: ParametersLiteral.Depth() = %d, with DoubleAngle 0: %d", desc, lit1.Depth(), lit0.Depth())
	}
	pm0, err0 := mod1.NewParametersFromLiteral(p, lit0)
	pm1, err1 := mod1.NewParametersFromLiteral(p, lit1)
	if err0 != nil || err1 != nil {
		c.Fail(sig+"/error", "%s: NewParametersFromLiteral: %v / %v", desc, err0, err1)
		return
	}
	same := pm0.DoubleAngle == pm1.DoubleAngle && pm0.Sqrt2Pi == pm1.Sqrt2Pi && pm0.K == pm1.K && pm0.QDiff == pm1.QDiff &&
		pm0.LevelQ == pm1.LevelQ && pm0.LogMessageRatio == pm1.LogMessageRatio && pm0.Mod1Type == pm1.Mod1Type &&
		diffPolys(snapshotPolys([]bignum.Polynomial{pm0.Mod1Poly}), snapshotPolys([]bignum.Polynomial{pm1.Mod1Poly})) == ""
	if same && arcsine {
		same = pm0.Mod1InvPoly != nil && pm1.Mod1InvPoly != nil &&
			diffPolys(snapshotPolys([]bignum.Polynomial{*pm0.Mod1InvPoly}), snapshotPolys([]bignum.Polynomial{*pm1.Mod1InvPoly})) == ""
	}
	if !same {
		c.Fail(sig+"/parameters-differ", "%s: Parameters differ from those of DoubleAngle 0: DoubleAngle %d vs %d, Sqrt2Pi %v vs %v", desc, pm1.DoubleAngle, pm0.DoubleAngle, pm1.Sqrt2Pi, pm0.Sqrt2Pi)
	}
	// same input, fresh evaluators
	x := mod1Grid(pm0.K, lit0.LogMessageRatio, w.slots)
	u := make([]complex128, len(x))
	for j := range x {
		u[j] = complex(x[j]/pm0.K, 0)
	}
	ct := w.Encrypt(u, p.LogMaxSlots(), lit0.LevelQ, pm0.ScalingFactor())
	run := func(pm mod1.Parameters) (out *rlwe.Ciphertext, err error, pan interface{}) {
		ev := w.tmpl.ShallowCopy()
		me := mod1.NewEvaluator(ev, ckkspoly.NewEvaluator(p, ev), pm)
		_, pan = uni.Try(func() error {
			if op.scaled {
				out, err = me.EvaluateAndScaleNew(ct.CopyNew(), complex(op.scaling, 0))
			} else {
				out, err = me.EvaluateNew(ct.CopyNew())
			}
			return nil
		})
		return
	}
	o0, e0, p0 := run(pm0)
	o1, e1, p1 := run(pm1)
	switch {
	case p0 != nil || e0 != nil:
		c.Fail(sig+"/baseline", "%s: DoubleAngle 0 itself failed: %v %v", desc, e0, p0)
	case p1 != nil:
		c.Fail(sig+"/panic", "%s: panic: %v", desc, p1)
	case e1 != nil:
		c.Fail(sig+"/error", "%s: %v", desc, e1)
	case o1.Level() != lit1.LevelQ-lit1.Depth():
		c.Fail(sig+"/levels-consumed", "%s: output level %d, LevelQ - Depth() = %d", desc, o1.Level(), lit1.LevelQ-lit1.Depth())
	case !o1.Equal(o0):
		c.Fail(sig+"/result-differs", "%s: result differs from the one with DoubleAngle 0", desc)
	}
	c.Outcome("mod1-ignored", desc)
	c.Count(len(x))
}
