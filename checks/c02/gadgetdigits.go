// The digits a gadget product actually uses, for keys strictly below the parameters' maximum levels.
//
// gadgetRecombineScenario (decomp.go) runs a noise-free gadget ciphertext whose (levelQ, levelP) are those of the
// accumulator and judges the recombination Σ d_ij·g_ij only. Recombination cannot tell "whole residue × row 0" from
// "digit j × row j" (row 0 of a base-2^w key is the row of the RNS-only key), and an accumulator with exactly the key's
// levelP hides every dispatch made on the accumulator instead of the key. This family closes both:
//
//	axis     parameters with 0..3 auxiliary primes × key LevelP in {-1, 0, .., max} × key LevelQ at / below the maximum ×
//	         product level at / below the key's × BaseTwoDecomposition in {0, small, large} × entry point in
//	         {GadgetProductLazy on an accumulator at the key's levelP, GadgetProductLazy on an accumulator with ALL the
//	         auxiliary primes (what GadgetProduct hands over), GadgetProduct, GadgetProductHoistedLazy (both accumulators),
//	         GadgetProductHoisted} × NTT flag
//	oracle   a harness-built SELECTOR gadget ciphertext: row (i,j) holds the constants (1, 3) (GadgetProduct[Hoisted]:
//	         (P, 3P), so that the division by P is exact), every other row is zero; the product then IS digit (i,j), read
//	         exactly (no noise margin): base 2^w keys (LevelP <= 0) must use d_ij = ((x mod q_i) >> w·j) & (2^w-1) and the
//	         d_ij must recombine to x mod q_i; RNS keys must use digits congruent to x modulo their group of primes,
//	         bounded by it, recombining against the gadget vector (digitOracle); rows the product level does not reach
//	         must contribute nothing; component 1 = 3 × component 0
//	         + the library's own gadget vector (AddPolyTimesGadgetVectorToGadgetCiphertext) through the same entry point
//	         must give c·P·x (lazy) / c·x (after the division by P) exactly
package main

import (
	"fmt"
	"math/big"

	"github.com/tuneinsight/lattigo/v6/core/rlwe"
	"github.com/tuneinsight/lattigo/v6/ring"
	"github.com/tuneinsight/lattigo/v6/ring/ringqp"

	"verif/engine"
	"verif/ref"
)

var gdEntries = []string{"GadgetProductLazy(acc@keyLevelP)", "GadgetProductLazy(acc@maxLevelP)", "GadgetProduct",
	"GadgetProductHoistedLazy(acc@keyLevelP)", "GadgetProductHoistedLazy(acc@maxLevelP)", "GadgetProductHoisted"}

func gdBase2(thorough bool) []int {
	if thorough {
		return []int{0, 2, 7, 16, 30}
	}
	return []int{0, 7, 30}
}

// gdLevelPairs: (key LevelQ, product levelQ) with the key at and strictly below the maximum.
func gdLevelPairs(nQ int, thorough bool) [][2]int {
	var out [][2]int
	seen := map[[2]int]bool{}
	add := func(k, l int) {
		if k < 0 || l < 0 || l > k || k >= nQ || seen[[2]int{k, l}] {
			return
		}
		seen[[2]int{k, l}] = true
		out = append(out, [2]int{k, l})
	}
	if thorough {
		for k := nQ - 1; k >= 0; k-- {
			for l := k; l >= 0; l-- {
				add(k, l)
			}
		}
		return out
	}
	L := nQ - 1
	add(L, L)
	add(L, 1)
	add(L-1, L-1)
	add(L-1, 0)
	add(1, 1)
	add(0, 0)
	return out
}

// gdAlphabet: a small alphabet (the selector reads every digit exactly; lane / boundary coverage of the decomposition
// itself is the business of the Decomposer scenarios).
func gdAlphabet(Q []uint64, levelQ int) []*big.Int {
	a := newAlphabet(prod(Q[:levelQ+1]))
	a.around(new(big.Int), 2)
	a.around(new(big.Int).Rsh(a.S, 1), 1)
	for _, k := range []uint{6, 7, 8, 14, 15, 16, 29, 30, 31, 59, 60} {
		p := new(big.Int).Lsh(bint(1), k)
		a.add(p)
		a.add(new(big.Int).Sub(p, bint(1)))
		a.add(new(big.Int).Neg(p))
	}
	m := Q[:levelQ+1]
	for c := 0; c < 16; c++ {
		res := make([]uint64, len(m))
		for i, q := range m {
			if i < 2 {
				res[i] = []uint64{0, 1, (q - 1) / 2, q - 1}[(c>>(2*uint(i)))&3]
			} else {
				res[i] = (uint64(c+1)*0x9E3779B97F4A7C15 + uint64(i)) % q
			}
		}
		a.add(ref.CRT(res, m))
	}
	a.generic(8)
	return a.vals
}

func mformU(x, q uint64) uint64 { return ref.MulMod(x%q, ref.Pow2Mod(64, q), q) }

// gdSetRow writes the constants (c0, c1) (as integers; NTT + Montgomery form of a constant polynomial: the same word in
// every slot) into row (i,j) of gct; withP: also on the P rows (else the P rows are zero).
func gdSetRow(gct *rlwe.GadgetCiphertext, Q, P []uint64, i, j int, c0, c1 *big.Int, withP bool) {
	for u, cst := range []*big.Int{c0, c1} {
		el := gct.Value[i][j][u]
		for k := range el.Q.Coeffs {
			w := mformU(ref.ModU(cst, Q[k]), Q[k])
			for s := range el.Q.Coeffs[k] {
				el.Q.Coeffs[k][s] = w
			}
		}
		for k := range el.P.Coeffs {
			w := uint64(0)
			if withP {
				w = mformU(ref.ModU(cst, P[k]), P[k])
			}
			for s := range el.P.Coeffs[k] {
				el.P.Coeffs[k][s] = w
			}
		}
	}
}

// gdOut is the output of one product: reduced rows over Q[:levelQ+1] then (lazy entries) P[:keyLP+1], per component.
type gdOut [2][][]uint64

func gadgetDigitsScenario(ch chain, nP int, thorough bool) engine.Scenario {
	name := fmt.Sprintf("gadget/digits-used/%s/nP=%d", ch.name, nP)
	Q, P := ch.Q, ch.P[:nP]
	nQ := len(Q)
	pairs := gdLevelPairs(nQ, thorough)
	base2s := gdBase2(thorough)
	return engine.Scenario{Name: name, Bound: -1, Fn: func(c *engine.Chooser) {
		pr := pairs[c.Choose(len(pairs), "keyLevelQ,levelQ")]
		keyLQ, levelQ := pr[0], pr[1]
		keyLP := c.Choose(nP+1, "keyLevelP") - 1
		base2 := base2s[c.Choose(len(base2s), "base2")]
		entry := c.Choose(len(gdEntries), "entry")
		isNTT := c.Choose(2, "IsNTT") == 0
		maxLP := nP - 1
		lazy := entry == 0 || entry == 1 || entry == 3 || entry == 4
		hoisted := entry >= 3
		accMax := entry == 1 || entry == 4
		if accMax && maxLP == keyLP {
			c.Skip("the accumulator with all auxiliary primes is the accumulator at the key's levelP")
			return
		}
		if hoisted && keyLP < 0 {
			c.Skip("hoisted products take digits from Evaluator.DecomposeNTT, which needs auxiliary primes")
			return
		}
		if entry == 5 && base2 != 0 {
			c.Skip("GadgetProductHoisted panics on the documented error of GadgetProductHoistedLazy for BaseTwoDecomposition != 0")
			return
		}
		params, err := rlweParams(Q, P)
		if err != nil {
			fail(c, "C02/decompose/rlwe-parameters-rejected", "rlwe parameters Q=%v P=%v rejected: %v", Q, P, err)
			return
		}
		ctx := fmt.Sprintf("%s Q=%v P=%v key(LevelQ=%d,LevelP=%d,base2=%d) levelQ=%d %s IsNTT=%v", ch.name, Q, P, keyLQ, keyLP, base2, levelQ, gdEntries[entry], isNTT)
		eval := rlwe.NewEvaluator(params, nil)
		rQ := params.RingQ().AtLevel(levelQ)
		var rPk *ring.Ring
		if keyLP >= 0 {
			rPk = params.RingP().AtLevel(keyLP)
		}
		accLP := keyLP
		if accMax {
			accLP = maxLP
		}
		rAcc := params.RingQP().AtLevel(levelQ, accLP)
		PL := bint(1)
		if keyLP >= 0 {
			PL = prod(P[:keyLP+1])
		}
		nOutP := 0
		if lazy {
			nOutP = keyLP + 1
		}
		gct := rlwe.NewGadgetCiphertext(params, 1, keyLQ, keyLP, base2)
		rowsOf := gct.BaseTwoDecompositionVectorSize()
		bitPath := base2 != 0 && keyLP <= 0
		nbPi := keyLP + 1
		if nbPi < 1 {
			nbPi = 1
		}
		used := ceilDiv(levelQ+1, nbPi) // RNS digits the product level reaches
		if len(gct.Value) != ceilDiv(keyLQ+1, nbPi) {
			fail(c, "C02/gadget/digits-used/key-shape", "%s: gadget ciphertext has %d RNS rows, want ceil((LevelQ+1)/max(LevelP+1,1))=%d", ctx, len(gct.Value), ceilDiv(keyLQ+1, nbPi))
			return
		}

		vals := gdAlphabet(Q, levelQ)
		nb := nBlocks(vals)

		// product runs one entry point on block b with gadget ciphertext g
		product := func(g *rlwe.GadgetCiphertext, b int) (out gdOut, ok bool) {
			cx := rQ.NewPoly()
			for j := 0; j < N; j++ {
				setCoeff(cx.Coeffs, Q[:levelQ+1], j, blockValue(vals, b, 0, j))
			}
			if isNTT {
				rQ.NTT(cx, cx)
			}
			var resQ [2]ring.Poly
			var resP [2]ring.Poly
			if lazy {
				ctQP := &rlwe.Element[ringqp.Poly]{MetaData: &rlwe.MetaData{}, Value: []ringqp.Poly{rAcc.NewPoly(), rAcc.NewPoly()}}
				ctQP.IsNTT = isNTT
				var err error
				if hoisted {
					rQPk := params.RingQP().AtLevel(levelQ, keyLP)
					dec := make([]ringqp.Poly, params.BaseRNSDecompositionVectorSize(levelQ, keyLP))
					for i := range dec {
						dec[i] = rQPk.NewPoly()
					}
					eval.DecomposeNTT(levelQ, keyLP, keyLP+1, cx, isNTT, dec)
					err = eval.GadgetProductHoistedLazy(levelQ, dec, g, ctQP)
					if base2 != 0 {
						if err == nil {
							fail(c, "C02/gadget/GadgetProductHoistedLazy/base2-accepted", "%s: no error for BaseTwoDecomposition != 0 (documented as unsupported)", ctx)
						}
						return out, false
					}
				} else {
					err = eval.GadgetProductLazy(levelQ, cx, g, ctQP)
				}
				if err != nil {
					fail(c, "C02/gadget/digits-used/error", "%s: %v", ctx, err)
					return out, false
				}
				for u := 0; u < 2; u++ {
					resQ[u], resP[u] = ctQP.Value[u].Q, ctQP.Value[u].P
					if isNTT {
						rQ.INTT(resQ[u], resQ[u])
						if rPk != nil {
							rPk.INTT(resP[u], resP[u])
						}
					}
				}
			} else {
				ct := rlwe.NewCiphertext(params, 1, levelQ)
				ct.IsNTT = isNTT
				if hoisted {
					rQPk := params.RingQP().AtLevel(levelQ, keyLP)
					dec := make([]ringqp.Poly, params.BaseRNSDecompositionVectorSize(levelQ, keyLP))
					for i := range dec {
						dec[i] = rQPk.NewPoly()
					}
					eval.DecomposeNTT(levelQ, keyLP, keyLP+1, cx, isNTT, dec)
					eval.GadgetProductHoisted(levelQ, dec, g, ct)
				} else {
					eval.GadgetProduct(levelQ, cx, g, ct)
				}
				for u := 0; u < 2; u++ {
					resQ[u] = ct.Value[u]
					if isNTT {
						rQ.INTT(resQ[u], resQ[u])
					}
				}
			}
			for u := 0; u < 2; u++ {
				rows := make([][]uint64, 0, levelQ+1+nOutP)
				for k := 0; k <= levelQ; k++ {
					row := make([]uint64, N)
					for s := 0; s < N; s++ {
						row[s] = resQ[u].Coeffs[k][s] % Q[k]
					}
					rows = append(rows, row)
				}
				for k := 0; k < nOutP; k++ {
					row := make([]uint64, N)
					for s := 0; s < N; s++ {
						row[s] = resP[u].Coeffs[k][s] % P[k]
					}
					rows = append(rows, row)
				}
				out[u] = rows
			}
			return out, true
		}
		mods := append(append([]uint64{}, Q[:levelQ+1]...), P[:nOutP]...)

		// ---- the library's own gadget vector through this entry point ------------------------------------
		{
			const c1, c2 = 1, 3
			real := rlwe.NewGadgetCiphertext(params, 1, keyLQ, keyLP, base2)
			dummy := rlwe.NewGadgetCiphertext(params, 1, keyLQ, keyLP, base2)
			rQfull := params.RingQ()
			buff := rQfull.NewPoly()
			if err := rlwe.AddPolyTimesGadgetVectorToGadgetCiphertext(constNTTMont(rQfull, c1), []rlwe.GadgetCiphertext{*real}, *params.RingQP(), buff); err != nil {
				panic(err)
			}
			if err := rlwe.AddPolyTimesGadgetVectorToGadgetCiphertext(constNTTMont(rQfull, c2), []rlwe.GadgetCiphertext{*dummy, *real}, *params.RingQP(), buff); err != nil {
				panic(err)
			}
			for b := 0; b < nb; b++ {
				out, ok := product(real, b)
				if !ok {
					if hoisted && base2 != 0 && !c.Failed() {
						c.Cover("gadget-digits-hoisted-base2", "error")
						c.Outcome(name, keyLQ, levelQ, keyLP, base2, entry, isNTT, "error")
					}
					return
				}
				for s := 0; s < N; s++ {
					x := blockValue(vals, b, 0, s)
					for u, cst := range []int64{c1, c2} {
						want := new(big.Int).Mul(x, bint(cst))
						if lazy {
							want.Mul(want, PL)
						}
						for k, m := range mods {
							w := ref.ModU(want, m)
							if k > levelQ {
								w = 0
							}
							if out[u][k][s] != w {
								fail(c, "C02/gadget/digits-used/gadget-vector/recombination", "%s: x=%s lane %d component %d modulus %d: %d, want %d (Σ digits·gadget ≢ %d·P·x, or its exact quotient by P)", ctx, x, s, u, m, out[u][k][s], w, cst)
								return
							}
						}
					}
				}
			}
			c.Count(2 * N * nb)
		}

		// ---- selector rows: the product is the digit --------------------------------------------------------
		c0, c1 := bint(1), bint(3)
		if !lazy {
			c0, c1 = new(big.Int).Set(PL), new(big.Int).Mul(PL, bint(3))
		}
		mask := uint64(1)<<uint(base2) - 1
		// digits[i][b] = component-0 rows of RNS digit i on block b (RNS path)
		digits := make([][][][]uint64, len(gct.Value))
		var h uint64
		for i := range gct.Value {
			digits[i] = make([][][]uint64, nb)
			for j := 0; j < rowsOf[i]; j++ {
				gdSetRow(gct, Q, P, i, j, c0, c1, lazy)
				for b := 0; b < nb; b++ {
					out, ok := product(gct, b)
					if !ok {
						return
					}
					for s := 0; s < N; s++ {
						x := blockValue(vals, b, 0, s)
						// component 1 = 3 x component 0
						for k, m := range mods {
							if out[1][k][s] != ref.MulMod(out[0][k][s], 3%m, m) {
								fail(c, "C02/gadget/digits-used/component-1-differs", "%s: row (%d,%d) x=%s lane %d modulus %d: component 1 = %d, component 0 = %d (selector constants 1 and 3)", ctx, i, j, x, s, m, out[1][k][s], out[0][k][s])
								return
							}
						}
						switch {
						case (bitPath && i > levelQ) || (!bitPath && i >= used):
							for k, m := range mods {
								if out[0][k][s] != 0 {
									fail(c, "C02/gadget/digits-used/row-above-the-product-level-contributes", "%s: row (%d,%d) x=%s lane %d modulus %d: %d, want 0", ctx, i, j, x, s, m, out[0][k][s])
									return
								}
							}
						case bitPath:
							d := (ref.ModU(x, Q[i]) >> uint(j*base2)) & mask
							for k, m := range mods {
								if out[0][k][s] != d%m {
									fail(c, "C02/gadget/digits-used/base2/digit-is-not-the-base-2^w-digit", "%s: row (%d,%d) x=%s (x mod q_%d = %d) lane %d modulus %d: digit used = %d, want ((x mod q_i) >> %d) & (2^%d-1) = %d", ctx, i, j, x, i, ref.ModU(x, Q[i]), s, m, out[0][k][s], j*base2, base2, d)
									return
								}
							}
						}
					}
					if !bitPath && j == 0 {
						digits[i][b] = out[0]
					}
					h = h*1099511628211 + out[0][0][b%N]
				}
				gdSetRow(gct, Q, P, i, j, new(big.Int), new(big.Int), false)
			}
		}
		evals := 0
		if bitPath {
			// the digits checked above are the bit slices of x mod q_i: they recombine iff the rows cover q_i
			for i := 0; i <= levelQ; i++ {
				if rowsOf[i]*base2 < bitlen(Q[i]-1) {
					fail(c, "C02/gadget/digits-used/base2/recombination", "%s: %d digits of %d bits do not cover q_%d=%d", ctx, rowsOf[i], base2, i, Q[i])
					return
				}
				evals += rowsOf[i] * N * nb
			}
		} else {
			site := "GadgetProduct-digits"
			for b := 0; b < nb; b++ {
				for s := 0; s < N; s++ {
					dg := make([][]uint64, used)
					for i := 0; i < used; i++ {
						for k := range mods {
							dg[i] = append(dg[i], digits[i][b][k][s])
						}
					}
					if !digitOracle(c, site, ctx, Q, P, levelQ, nOutP-1, nbPi, blockValue(vals, b, 0, s), dg) {
						return
					}
				}
			}
			evals += used * N * nb
		}
		c.Count(evals)
		c.Cover("gadget-digits-entry", gdEntries[entry])
		c.Cover("gadget-digits-key", fmt.Sprintf("nP=%d/keyLevelP=%d", nP, keyLP))
		c.Cover("gadget-digits-base2", fmt.Sprint(base2))
		if keyLQ < nQ-1 {
			c.Cover("gadget-digits-keyLevelQ", "below-max")
		} else {
			c.Cover("gadget-digits-keyLevelQ", "max")
		}
		if bitPath {
			c.Cover("gadget-digits-path", "base2")
		} else if keyLP > 0 {
			c.Cover("gadget-digits-path", "rns-multipleP")
		} else {
			c.Cover("gadget-digits-path", "rns-singleP-or-noP")
		}
		c.Outcome(name, keyLQ, levelQ, keyLP, base2, entry, isNTT, h)
	}}
}
