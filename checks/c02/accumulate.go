// Lazy accumulation over MANY digits in the gadget product (core/rlwe gadgetProductMultiplePLazy /
// gadgetProductSinglePAndBitDecompLazy): the products digit_i ⊙ key_i are added as unreduced 64-bit words and reduced every
// floor(2^64/max prime)/2 terms, separately for the Q and the P rows. Chains with many RNS / power-of-two digits on both
// sides of every reduction step, with the largest prime first / last / only in P, and key rows filled with ARBITRARY
// residues (zero, all q-1, generic) so that every accumulated term is full size.
//
// Oracle (exact, per modulus and per NTT slot): ctQP.Value[u] = Σ_{i,j} NTT(digit_ij) ⊙ key_ij[u] · 2^-64 — the definition of
// "<decomp(cx), gadget[u]>" in the doc comment of GadgetProductLazy — with the digits obtained from the decomposition
// entry points judged in decomp.go (Evaluator.DecomposeNTT for >= 2 auxiliary primes, Decomposer.DecomposeAndSplit with one
// prime per digit or ring.MaskVec power-of-two digits otherwise) and the sum done with division-based arithmetic.
package main

import (
	"fmt"

	"github.com/tuneinsight/lattigo/v6/core/rlwe"
	"github.com/tuneinsight/lattigo/v6/ring"
	"github.com/tuneinsight/lattigo/v6/ring/ringqp"

	"verif/engine"
	"verif/ref"
)

// longChains: N=16, standard ring.
func longChains() []chain {
	m30 := below(30, 60)
	m45 := below(45, 24)
	b61 := below(61, 3)
	b60 := below(60, 1)
	m36 := above(35, 2)
	return []chain{
		// 24 x 45-bit Q, 2 x 61-bit P: 1..12 digits of two primes; Q margin 2^18, P margin 4
		{"q24x45+p2x61", m45, b61[:2]},
		// a 60-bit q0 followed by 47 small primes: the largest prime is NOT the last one of any level >= 1; P = 61-bit then 36-bit
		{"q60+47x30+p61,36", append([]uint64{b60[0]}, m30[:47]...), []uint64{b61[0], m36[0]}},
		// 60-bit q0 + mixed small primes, used without P and with base-2^4 digits (15 + 8 + 12 + ... digits)
		{"q60+small", []uint64{b60[0], m30[47], m45[0], m30[48], m36[1], m30[49], m45[1], m30[50]}, nil},
		// every P prime larger than every Q prime
		{"q12x30+p3x61", m30[:12], b61},
	}
}

var fillNames = []string{"generic", "all-q-minus-1", "zero"}

func fillRow(row []uint64, q uint64, kind int, seed uint64) {
	for k := range row {
		switch kind {
		case 0:
			x := (seed + uint64(k)*0x9E3779B97F4A7C15) * 0xBF58476D1CE4E5B9
			row[k] = (x ^ x>>31) % q
		case 1:
			row[k] = q - 1
		default:
			row[k] = 0
		}
	}
}

// shard/shards: the levels of a long chain are spread over several scenarios (levelQ ≡ shard mod shards) so that the
// workers share them.
func gadgetAccumulationScenario(ch chain, shard, shards int) engine.Scenario {
	name := fmt.Sprintf("gadget/lazy-accumulation/%s", ch.name)
	if shards > 1 {
		name += fmt.Sprintf("/levels=%d mod %d", shard, shards)
	}
	Q, P := ch.Q, ch.P
	nQ, nP := len(Q), len(P)
	return engine.Scenario{Name: name, Bound: -1, Fn: func(c *engine.Chooser) {
		levelQ := c.Choose((nQ-shard+shards-1)/shards, "levelQ")*shards + shard
		levelP := -1
		if nP > 0 {
			levelP = c.Choose(nP, "levelP")
		}
		base2 := 0
		if levelP <= 0 {
			base2 = []int{0, 4, 16}[c.Choose(3, "base2")]
		}
		fill := c.Choose(len(fillNames), "key-rows")
		isNTT := c.Choose(2, "IsNTT") == 0
		params, err := rlweParams(Q, P)
		if err != nil {
			fail(c, "C02/decompose/rlwe-parameters-rejected", "rlwe parameters Q=%v P=%v rejected: %v", Q, P, err)
			return
		}
		eval := rlwe.NewEvaluator(params, nil)
		rQ := params.RingQ().AtLevel(levelQ)
		rQP := params.RingQP().AtLevel(levelQ, levelP)
		var mods []uint64
		mods = append(mods, Q[:levelQ+1]...)
		if levelP >= 0 {
			mods = append(mods, P[:levelP+1]...)
		}
		row := func(p ringqp.Poly, t int) []uint64 {
			if t <= levelQ {
				return p.Q.Coeffs[t]
			}
			return p.P.Coeffs[t-levelQ-1]
		}
		// key with arbitrary rows, at the maximum level of Q
		gct := rlwe.NewGadgetCiphertext(params, 1, nQ-1, levelP, base2)
		for i := range gct.Value {
			for j := range gct.Value[i] {
				for u := 0; u < 2; u++ {
					for t, q := range Q {
						fillRow(gct.Value[i][j][u].Q.Coeffs[t], q, fill, uint64(1000*i+10*j+u)*7919+uint64(t))
					}
					for t := 0; t <= levelP; t++ {
						fillRow(gct.Value[i][j][u].P.Coeffs[t], P[t], fill, uint64(1000*i+10*j+u)*104729+uint64(t))
					}
				}
			}
		}
		// input: generic residues (full size in every row)
		cxCoeff := hashInput(params.RingQ(), levelQ, 99)
		cxNTT := rQ.NewPoly()
		rQ.NTT(cxCoeff, cxNTT)
		in := cxCoeff
		if isNTT {
			in = cxNTT
		}
		ct := &rlwe.Element[ringqp.Poly]{MetaData: &rlwe.MetaData{}, Value: []ringqp.Poly{rQP.NewPoly(), rQP.NewPoly()}}
		ct.IsNTT = isNTT
		if err := eval.GadgetProductLazy(levelQ, *in.CopyNew(), gct, ct); err != nil {
			fail(c, "C02/gadget/GadgetProductLazy/error", "levelQ=%d levelP=%d base2=%d: %v", levelQ, levelP, base2, err)
			return
		}
		if !isNTT {
			rQP.NTT(ct.Value[0], ct.Value[0])
			rQP.NTT(ct.Value[1], ct.Value[1])
		}
		// the digits, in the NTT domain, one ringqp polynomial per (i, j)
		type dig struct {
			i, j int
			p    ringqp.Poly
		}
		var digits []dig
		if levelP > 0 {
			n := params.BaseRNSDecompositionVectorSize(levelQ, levelP)
			dec := make([]ringqp.Poly, n)
			for i := range dec {
				dec[i] = rQP.NewPoly()
			}
			rlwe.NewEvaluator(params, nil).DecomposeNTT(levelQ, levelP, levelP+1, *cxNTT.CopyNew(), true, dec)
			for i := range dec {
				digits = append(digits, dig{i, 0, dec[i]})
			}
		} else {
			nDig := gct.BaseTwoDecompositionVectorSize()
			for i := 0; i <= levelQ; i++ {
				for j := 0; j < nDig[i]; j++ {
					d := rQP.NewPoly()
					if base2 == 0 {
						eval.Decomposer.DecomposeAndSplit(levelQ, levelP, 1, i, cxCoeff, d.Q, d.P)
					} else {
						cw := make([]uint64, N)
						ring.MaskVec(cxCoeff.Coeffs[i], j*base2, uint64(1)<<uint(base2)-1, cw)
						for t := range mods {
							copy(row(d, t), cw)
						}
					}
					rQP.NTT(d, d)
					digits = append(digits, dig{i, j, d})
				}
			}
		}
		for u := 0; u < 2; u++ {
			for t, q := range mods {
				rinv := ref.InvMod(ref.Pow2Mod(64, q), q)
				got := row(ct.Value[u], t)
				for k := 0; k < N; k++ {
					acc := uint64(0)
					for _, d := range digits {
						acc = ref.AddMod(acc, ref.MulMod(ref.MulMod(row(d.p, t)[k], row(gct.Value[d.i][d.j][u], t)[k], q), rinv, q), q)
					}
					if got[k]%q != acc {
						where := "Q"
						if t > levelQ {
							where = "P"
						}
						fail(c, "C02/gadget/GadgetProductLazy/lazy-accumulation-over-"+where+"-rows", "%s levelQ=%d gct.levelP=%d base2=%d key-rows=%s IsNTT=%v: %d digits: component %d, modulus %d (%s row %d, %d bits), slot %d: got %d, Σ digit·key = %d", ch.name, levelQ, levelP, base2, fillNames[fill], isNTT, len(digits), u, q, where, t, bitlen(q), k, got[k]%q, acc)
						return
					}
				}
			}
		}
		c.Count(2 * len(mods) * N)
		c.Cover("accumulation-chain", ch.name)
		nd := len(digits)
		switch {
		case nd >= 33:
			c.Cover("accumulation-digits", ">=33")
		case nd >= 17:
			c.Cover("accumulation-digits", "17..32")
		case nd >= 9:
			c.Cover("accumulation-digits", "9..16")
		case nd >= 5:
			c.Cover("accumulation-digits", "5..8")
		default:
			c.Cover("accumulation-digits", "1..4")
		}
		if levelP > 0 {
			c.Cover("accumulation-path", "multipleP")
		} else if base2 != 0 {
			c.Cover("accumulation-path", "pow2")
		} else {
			c.Cover("accumulation-path", "singleP-rns")
		}
		c.Outcome(name, levelQ, levelP, base2, fill, isNTT, engine.Hash(ct.Value[1].Q.Coeffs[0]))
	}}
}

func bitlen(q uint64) int {
	n := 0
	for ; q != 0; q >>= 1 {
		n++
	}
	return n
}
