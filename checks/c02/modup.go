// Basis extension and division by P / Q: ring.BasisExtender.ModUpQtoP, ModUpPtoQ, ModDownQPtoQ[NTT], ModDownQPtoP.
//
// Statement: "Extending a centred value from basis Q to basis P (and back) returns a value congruent to it modulo
// the source modulus that is the exact centred representative whenever the value is smaller than a quarter of the
// source modulus and never differs from it by more than one multiple of that modulus; dividing a value in basis QP
// by P (or by Q) returns the rounded quotient up to an error of at most 1 per coefficient."
//
// Oracles (per coefficient, ONE integer for all destination moduli):
//
//	up:   out ≡ xc + e·S (mod every destination modulus) for a single e in {-1,0,1}; e = 0 when 4|xc| < S
//	      (xc = centred representative of the input modulo the source modulus S);
//	down: out ≡ round(x/D) + e (mod every destination modulus) for a single e in {-1,0,1}
//	      (D = P resp. Q is odd, so round has no ties; a centred negative x gives the same quotient mod Q resp. P).
//
// Outputs are compared as residues (ModUpExact documents values in [0,2p-1]; the callers state no range).
package main

import (
	"fmt"
	"math/big"

	"github.com/tuneinsight/lattigo/v6/core/rlwe"
	"github.com/tuneinsight/lattigo/v6/ring"
	"github.com/tuneinsight/lattigo/v6/ring/ringqp"

	"verif/engine"
	"verif/ref"
)

type beOp struct {
	name string
	down bool
	ntt  bool
	toP  bool // destination basis is P
}

var beOps = []beOp{
	{"ModUpQtoP", false, false, true},
	{"ModUpPtoQ", false, false, false},
	{"ModDownQPtoQ", true, false, false},
	{"ModDownQPtoQNTT", true, true, false},
	{"ModDownQPtoP", true, false, true},
}

type beCtx struct {
	Q, P   []uint64
	rQ, rP *ring.Ring
	be     *ring.BasisExtender
}

func newBE(Q, P []uint64) *beCtx {
	x := &beCtx{Q: Q, P: P, rQ: mustRing(Q), rP: mustRing(P)}
	x.be = ring.NewBasisExtender(x.rQ, x.rP)
	return x
}

// src / dst moduli and the integer modulus of the input value and the divisor.
func (x *beCtx) shape(o beOp, lq, lp int) (in []uint64, dst []uint64, S, D *big.Int) {
	q, p := x.Q[:lq+1], x.P[:lp+1]
	switch {
	case !o.down && o.toP:
		return q, p, prod(q), nil
	case !o.down && !o.toP:
		return p, q, prod(p), nil
	case o.down && !o.toP:
		return append(append([]uint64{}, q...), p...), q, new(big.Int).Mul(prod(q), prod(p)), prod(p)
	default:
		return append(append([]uint64{}, q...), p...), p, new(big.Int).Mul(prod(q), prod(p)), prod(q)
	}
}

// run executes the operation. inQ/inP hold the input residues (coefficient domain); returns the destination
// rows in the coefficient domain. alias=1: output written over the corresponding input polynomial.
func (x *beCtx) run(o beOp, lq, lp, alias int, inQ, inP ring.Poly) [][]uint64 {
	rq, rp := x.rQ.AtLevel(lq), x.rP.AtLevel(lp)
	switch o.name {
	case "ModUpQtoP":
		out := rp.NewPoly()
		x.be.ModUpQtoP(lq, lp, inQ, out)
		return out.Coeffs
	case "ModUpPtoQ":
		out := rq.NewPoly()
		x.be.ModUpPtoQ(lp, lq, inP, out)
		return out.Coeffs
	case "ModDownQPtoQ":
		out := rq.NewPoly()
		if alias == 1 {
			out = inQ
		}
		x.be.ModDownQPtoQ(lq, lp, inQ, inP, out)
		return out.Coeffs
	case "ModDownQPtoQNTT":
		rq.NTT(inQ, inQ)
		rp.NTT(inP, inP)
		out := rq.NewPoly()
		if alias == 1 {
			out = inQ
		}
		x.be.ModDownQPtoQNTT(lq, lp, inQ, inP, out)
		rq.INTT(out, out)
		return out.Coeffs
	case "ModDownQPtoP":
		out := rp.NewPoly()
		if alias == 1 {
			out = inP
		}
		x.be.ModDownQPtoP(lq, lp, inQ, inP, out)
		return out.Coeffs
	}
	panic("unknown op")
}

func aliasModes(o beOp) int {
	if o.down {
		return 2
	}
	return 1
}

// judge applies the oracle to one coefficient. want0 is xc (up) or round(x/D) (down); step is S (up) or 1 (down).
// Returns the e that fits, or ok=false.
func fitE(got []uint64, dst []uint64, want0, step *big.Int) (e int, ok bool) {
	for _, e := range []int{0, -1, 1} {
		w := new(big.Int).Mul(step, bint(int64(e)))
		w.Add(w, want0)
		all := true
		for i, t := range dst {
			if got[i]%t != ref.ModU(w, t) {
				all = false
				break
			}
		}
		if all {
			return e, true
		}
	}
	return 0, false
}

// ---------------------------------------------------------------------------------------------
// boundary alphabets, every (levelQ, levelP)

func beAlphabet(x *beCtx, o beOp, lq, lp int) []*big.Int {
	in, _, S, D := x.shape(o, lq, lp)
	a := newAlphabet(S)
	a.base()
	if D != nil {
		a.divisor(D)
	} else {
		// up: boundaries of the single source primes as well
		a.divisor(bi(in[0]))
		a.divisor(bi(in[len(in)-1]))
	}
	a.corners(in)
	a.generic(16)
	return a.vals
}

func beAlphaScenario(ch chain, o beOp) engine.Scenario {
	name := fmt.Sprintf("basisext/alphabet/%s/%s", ch.name, o.name)
	return engine.Scenario{Name: name, Bound: -1, Fn: func(c *engine.Chooser) {
		lq := c.Choose(len(ch.Q), "levelQ")
		lp := c.Choose(len(ch.P), "levelP")
		alias := c.Choose(aliasModes(o), "alias")
		x := newBE(ch.Q, ch.P)
		in, dst, S, D := x.shape(o, lq, lp)
		_ = in
		vals := beAlphabet(x, o, lq, lp)
		quarter := new(big.Int).Set(S)
		evals, nonzeroE := 0, 0
		var h uint64
		got := make([]uint64, len(dst))
		xs := make([]*big.Int, N)
		for b := 0; b < nBlocks(vals); b++ {
			for rot := 0; rot < 8; rot++ {
				inQ := x.rQ.AtLevel(lq).NewPoly()
				inP := x.rP.AtLevel(lp).NewPoly()
				for j := 0; j < N; j++ {
					v := blockValue(vals, b, rot, j)
					xs[j] = v
					if o.down || o.toP {
						setCoeff(inQ.Coeffs, x.Q[:lq+1], j, v)
					}
					if o.down || !o.toP {
						setCoeff(inP.Coeffs, x.P[:lp+1], j, v)
					}
				}
				out := x.run(o, lq, lp, alias, inQ, inP)
				for j := 0; j < N; j++ {
					for i := range dst {
						got[i] = out[i][j]
					}
					if !o.down {
						xc := ref.Center(xs[j], S)
						e, ok := fitE(got, dst, xc, S)
						if !ok {
							fail(c, "C02/basisext/"+o.name+"/not-within-one-multiple", "%s lq=%d lp=%d: x=%s (centred %s) lane %d: output %v mod %v is not xc+e·S for any e in {-1,0,1}", ch.name, lq, lp, xs[j], xc, j, got, dst)
							return
						}
						if e != 0 {
							nonzeroE++
							if new(big.Int).Lsh(new(big.Int).Abs(xc), 2).Cmp(quarter) < 0 {
								fail(c, "C02/basisext/"+o.name+"/small-value-not-exact", "%s lq=%d lp=%d: |x|=|%s| < S/4 but output is xc%+d·S", ch.name, lq, lp, xc, e)
								return
							}
						}
					} else {
						rq := ref.RoundDivHalfUp(xs[j], D)
						e, ok := fitE(got, dst, rq, bint(1))
						if !ok {
							fail(c, "C02/basisext/"+o.name+"/quotient-error>1", "%s lq=%d lp=%d alias=%d: x=%s lane %d: output %v mod %v is not round(x/D)+e for any e in {-1,0,1} (round=%s)", ch.name, lq, lp, alias, xs[j], j, got, dst, rq)
							return
						}
						if e != 0 {
							nonzeroE++
						}
					}
				}
				evals += N
				h = h*1099511628211 + out[0][rot]
			}
		}
		c.Count(evals)
		c.Cover("be-alpha", o.name)
		c.Cover("be-class", ch.name)
		c.Cover("be-levelP", fmt.Sprint(lp))
		if nonzeroE > 0 {
			c.Cover("be-e", "nonzero")
		} else {
			c.Cover("be-e", "zero")
		}
		c.Outcome(name, lq, lp, alias, h)
	}}
}

// ---------------------------------------------------------------------------------------------
// tiny chains: whole integer ranges

// beTinyScenario: every integer of the input modulus (family="all") or the boundary family
// {k·D+δ, k·D+⌊D/2⌋+δ : all k, |δ|<=3} (family="kD", down only), for one op and one (lq,lp).
func beTinyScenario(Q, P []uint64, o beOp, lq, lp int, family string, parts int) engine.Scenario {
	return beTinyShard(Q, P, o, lq, lp, family, parts, 0, 1)
}

// beTinyShard is beTinyScenario cut into `shards` scenarios (for the large ranges of the thorough tier, so that the
// 16 workers share them); a sharded scenario alternates the alias mode with the part instead of running both.
func beTinyShard(Q, P []uint64, o beOp, lq, lp int, family string, parts, shard, shards int) engine.Scenario {
	name := fmt.Sprintf("basisext/tiny-exhaustive/Q=%v/P=%v/%s/lq=%d/lp=%d/%s", Q, P, o.name, lq, lp, family)
	if shards > 1 {
		name += fmt.Sprintf("/shard=%d", shard)
	}
	return engine.Scenario{Name: name, Bound: -1, Fn: func(c *engine.Chooser) {
		part := c.Choose(parts, "part")
		alias := 0
		if shards > 1 {
			part = part*shards + shard
			alias = part % aliasModes(o)
		} else {
			alias = c.Choose(aliasModes(o), "alias")
		}
		x := newBE(Q, P)
		_, dst, Sb, Db := x.shape(o, lq, lp)
		S := Sb.Int64()
		var D int64
		if Db != nil {
			D = Db.Int64()
		}
		// domain size
		var dom int64
		if family == "all" {
			dom = S
		} else {
			dom = (S / D) * 14
		}
		value := func(idx int64) int64 {
			idx %= dom
			if family == "all" {
				return idx
			}
			k, t := idx/14, idx%14
			v := k * D
			if t < 7 {
				v += t - 3
			} else {
				v += D/2 + (t - 10)
			}
			return ((v % S) + S) % S
		}
		nPolys := (dom + int64(N) - 1) / int64(N)
		lo := nPolys * int64(part) / int64(parts*shards)
		hi := nPolys * int64(part+1) / int64(parts*shards)
		inQ := x.rQ.AtLevel(lq).NewPoly()
		inP := x.rP.AtLevel(lp).NewPoly()
		xs := make([]int64, N)
		mod := func(a, m int64) uint64 { return uint64(((a % m) + m) % m) }
		nonzeroE := 0
		var h uint64
		for p := lo; p < hi; p++ {
			for j := 0; j < N; j++ {
				v := value(p*int64(N) + int64(j))
				xs[j] = v
				if o.down || o.toP {
					for i, q := range Q[:lq+1] {
						inQ.Coeffs[i][j] = uint64(v) % q
					}
				}
				if o.down || !o.toP {
					for i, q := range P[:lp+1] {
						inP.Coeffs[i][j] = uint64(v) % q
					}
				}
			}
			out := x.run(o, lq, lp, alias, inQ, inP)
			for j := 0; j < N; j++ {
				var want0, step int64
				if !o.down {
					want0, step = xs[j], S
					if want0 > (S-1)/2 {
						want0 -= S
					}
				} else {
					want0, step = (2*xs[j]+D)/(2*D), 1
				}
				fit, e := false, int64(0)
				for _, e = range []int64{0, -1, 1} {
					fit = true
					for i, t := range dst {
						if out[i][j]%t != mod(want0+e*step, int64(t)) {
							fit = false
							break
						}
					}
					if fit {
						break
					}
				}
				if !fit {
					kind := "not-within-one-multiple"
					if o.down {
						kind = "quotient-error>1"
					}
					fail(c, "C02/basisext/"+o.name+"/"+kind, "Q=%v P=%v lq=%d lp=%d alias=%d: x=%d lane %d: no e in {-1,0,1} fits (expected base value %d, step %d)", Q, P, lq, lp, alias, xs[j], j, want0, step)
					return
				}
				if e != 0 {
					nonzeroE++
					a := want0
					if a < 0 {
						a = -a
					}
					if !o.down && 4*a < S {
						fail(c, "C02/basisext/"+o.name+"/small-value-not-exact", "Q=%v P=%v lq=%d lp=%d: |x|=%d < S/4=%d/4 but output is xc%+d·S", Q, P, lq, lp, a, S, e)
						return
					}
				}
			}
			h = h*1099511628211 + out[0][int(p)%N]
		}
		c.Count(int(hi-lo) * N)
		c.Cover("be-tiny", o.name+"/"+family)
		if nonzeroE > 0 {
			c.Cover("be-e", "nonzero")
		}
		c.Outcome(name, part, alias, h)
	}}
}

// ---------------------------------------------------------------------------------------------
// rlwe.Evaluator.ModDown: the four NTT-flag combinations around BasisExtender.ModDownQPtoQ[NTT] (and the copy /
// transform-only paths when there is no P)

func evaluatorModDownScenario(ch chain) engine.Scenario {
	name := fmt.Sprintf("basisext/Evaluator.ModDown/%s", ch.name)
	return engine.Scenario{Name: name, Bound: -1, Fn: func(c *engine.Chooser) {
		lq := c.Choose(len(ch.Q), "levelQ")
		lp := c.Choose(len(ch.P)+1, "levelP+1") - 1
		inNTT := c.Choose(2, "ctQP.IsNTT") == 1
		outNTT := c.Choose(2, "ct.IsNTT") == 1
		P := ch.P
		if lp == -1 {
			P = nil // parameters without P: ModDown only copies / changes the domain
		}
		params, err := rlweParams(ch.Q, P)
		if err != nil {
			fail(c, "C02/decompose/rlwe-parameters-rejected", "rlwe parameters rejected: %v", err)
			return
		}
		eval := rlwe.NewEvaluator(params, nil)
		rQ := params.RingQ().AtLevel(lq)
		rQP := params.RingQP().AtLevel(lq, lp)
		S := prod(ch.Q[:lq+1])
		D := bint(1)
		if lp >= 0 {
			D = prod(ch.P[:lp+1])
			S = new(big.Int).Mul(S, D)
		}
		a := newAlphabet(S)
		a.base()
		if lp >= 0 {
			a.divisor(D)
		}
		a.corners(ch.Q[:lq+1])
		a.generic(16)
		vals := a.vals
		evals := 0
		var h uint64
		got := make([]uint64, lq+1)
		for b := 0; b < nBlocks(vals); b++ {
			for rot := 0; rot < 8; rot += 3 {
				ctQP := &rlwe.Element[ringqp.Poly]{MetaData: &rlwe.MetaData{}, Value: []ringqp.Poly{rQP.NewPoly(), rQP.NewPoly()}}
				ctQP.IsNTT = inNTT
				xs := [2][]*big.Int{make([]*big.Int, N), make([]*big.Int, N)}
				for u := 0; u < 2; u++ {
					for j := 0; j < N; j++ {
						v := blockValue(vals, b, rot+u, j) // the two components hold different rotations
						xs[u][j] = v
						setCoeff(ctQP.Value[u].Q.Coeffs, ch.Q[:lq+1], j, v)
						if lp >= 0 {
							setCoeff(ctQP.Value[u].P.Coeffs, ch.P[:lp+1], j, v)
						}
					}
					if inNTT {
						rQP.NTT(ctQP.Value[u], ctQP.Value[u])
					}
				}
				ct := rlwe.NewCiphertext(params, 1, lq)
				ct.IsNTT = outNTT
				eval.ModDown(lq, lp, ctQP, ct)
				for u := 0; u < 2; u++ {
					if outNTT {
						rQ.INTT(ct.Value[u], ct.Value[u])
					}
					for j := 0; j < N; j++ {
						for i := 0; i <= lq; i++ {
							got[i] = ct.Value[u].Coeffs[i][j]
						}
						rq := ref.RoundDivHalfUp(xs[u][j], D)
						if lp < 0 {
							rq = xs[u][j]
						}
						e, ok := fitE(got, ch.Q[:lq+1], rq, bint(1))
						if (!ok || e != 0) && lp < 0 && inNTT == outNTT {
							// known input class (FINDINGS.md #3): no P, same domain, ctQP.Q not aliasing ct: the copy goes the wrong way
							c.Fail("C02/basisext/Evaluator.ModDown/noP-same-domain/copies-ct-into-ctQP-instead-of-ctQP-into-ct", "%s lq=%d ctQP.IsNTT=ct.IsNTT=%v component %d: x=%s lane %d: ct holds %v, want x", ch.name, lq, inNTT, u, xs[u][j], j, got)
							return
						}
						if !ok || (lp < 0 && e != 0) {
							fail(c, "C02/basisext/Evaluator.ModDown/quotient-error>1", "%s lq=%d lp=%d ctQP.IsNTT=%v ct.IsNTT=%v component %d: x=%s lane %d: output %v is not round(x/P)+e, e in {-1,0,1} (round=%s)", ch.name, lq, lp, inNTT, outNTT, u, xs[u][j], j, got, rq)
							return
						}
					}
				}
				evals += 2 * N
				h = h*1099511628211 + ct.Value[1].Coeffs[0][rot]
			}
		}
		c.Count(evals)
		c.Cover("evaluator-moddown", fmt.Sprintf("in=%v/out=%v", inNTT, outNTT))
		if lp < 0 {
			c.Cover("evaluator-moddown", "noP")
		}
		c.Outcome(name, lq, lp, inNTT, outNTT, h)
	}}
}
