// Division by the last modulus: ring.Ring.DivFloor/DivRoundByLastModulus[Many][NTT].
//
// Statement: "Dividing a polynomial by its last modulus (floored or rounded, once or several times, in or out
// of the NTT domain) yields exactly the floored, respectively rounded-half-up, integer quotient of every
// coefficient." The quotient lives modulo the remaining moduli, so outputs are compared as residues mod q_i
// (the doc comments state no output range); "several times" is sequential (doc: "divides sequentially
// nbRescales times"). Input coefficients are the representatives in [0,Q_l) (rounding a centred negative value
// gives the same quotient modulo Q_{l-1} because q_l | Q_l).
package main

import (
	"fmt"
	"math/big"

	"github.com/tuneinsight/lattigo/v6/ring"

	"verif/engine"
	"verif/ref"
)

type divOp struct {
	name  string
	round bool
	ntt   bool
	many  bool
}

var divOps = []divOp{
	{"DivFloorByLastModulus", false, false, false},
	{"DivFloorByLastModulusNTT", false, true, false},
	{"DivRoundByLastModulus", true, false, false},
	{"DivRoundByLastModulusNTT", true, true, false},
	{"DivFloorByLastModulusMany", false, false, true},
	{"DivFloorByLastModulusManyNTT", false, true, true},
	{"DivRoundByLastModulusMany", true, false, true},
	{"DivRoundByLastModulusManyNTT", true, true, true},
}

func (o divOp) call(r *ring.Ring, nb int, p0, buff, p1 ring.Poly) {
	switch o.name {
	case "DivFloorByLastModulus":
		r.DivFloorByLastModulus(p0, p1)
	case "DivFloorByLastModulusNTT":
		r.DivFloorByLastModulusNTT(p0, buff, p1)
	case "DivRoundByLastModulus":
		r.DivRoundByLastModulus(p0, p1)
	case "DivRoundByLastModulusNTT":
		r.DivRoundByLastModulusNTT(p0, buff, p1)
	case "DivFloorByLastModulusMany":
		r.DivFloorByLastModulusMany(nb, p0, buff, p1)
	case "DivFloorByLastModulusManyNTT":
		r.DivFloorByLastModulusManyNTT(nb, p0, buff, p1)
	case "DivRoundByLastModulusMany":
		r.DivRoundByLastModulusMany(nb, p0, buff, p1)
	case "DivRoundByLastModulusManyNTT":
		r.DivRoundByLastModulusManyNTT(nb, p0, buff, p1)
	default:
		panic("unknown op")
	}
}

// nbChoices: numbers of consecutive rescalings valid at `level` for this op.
func (o divOp) nbChoices(level int) []int {
	if !o.many {
		return []int{1}
	}
	var r []int
	for nb := 0; nb <= level && nb <= 3; nb++ {
		r = append(r, nb)
	}
	return r
}

// sigCIFloorNTT: DivFloorByLastModulusNTT hands the INTTLazy output of the last row (range [0,2q_l)) to the other
// moduli without reducing it; the conjugate-invariant INTTLazy does return values in [q_l,2q_l) (q_l for 0, q_l+1 for
// 1, ...; the standard-ring one happens not to), so those coefficients come out exactly one too small.
const sigCIFloorNTT = "C02/div/DivFloorByLastModulusNTT/conjugate-invariant/unreduced-INTTLazy-row-quotient-one-too-small"

var aliasNames = []string{"out-at-reduced-level", "in-place", "out-at-input-level"}

// outPoly returns the output polynomial for an alias mode (documented: "Output poly level must be equal or
// nbRescales less than input level").
func outPoly(alias int, level, nb int, p0 ring.Poly) ring.Poly {
	switch alias {
	case 0:
		return ring.NewPoly(N, level-nb)
	case 1:
		return p0
	default:
		return ring.NewPoly(N, level)
	}
}

// ---------------------------------------------------------------------------------------------
// tiny chains: every integer of [0,Q)

// divTiny: one (chain, op, nb, alias); leaves are contiguous parts of [0,Q).
func divTinyScenario(mod []uint64, o divOp, nb, alias, parts int) engine.Scenario {
	name := fmt.Sprintf("div/tiny-exhaustive/%v/%s/nb=%d/%s", mod, o.name, nb, aliasNames[alias])
	level := len(mod) - 1
	Q := uint64(1)
	for _, q := range mod {
		Q *= q
	}
	return engine.Scenario{Name: name, Bound: -1, Fn: func(c *engine.Chooser) {
		part := c.Choose(parts, "part")
		r := mustRing(mod)
		rOut := r.AtLevel(level - nb)
		nPolys := (Q + uint64(N) - 1) / uint64(N)
		lo := nPolys * uint64(part) / uint64(parts)
		hi := nPolys * uint64(part+1) / uint64(parts)
		p0 := r.NewPoly()
		buff := r.NewPoly()
		xs := make([]uint64, N)
		want := make([]uint64, N)
		var h uint64
		for p := lo; p < hi; p++ {
			for j := 0; j < N; j++ {
				x := (p*uint64(N) + uint64(j)) % Q
				xs[j] = x
				for i, q := range mod {
					p0.Coeffs[i][j] = x % q
				}
				// reference in plain uint64 arithmetic (Q < 2^27): sequential exact division
				y, Ql := x, Q
				for s := 0; s < nb; s++ {
					q := mod[level-s]
					if o.round {
						y = (2*y + q) / (2 * q) // floor(y/q + 1/2)
					} else {
						y = y / q
					}
					Ql /= q
					y %= Ql // round may reach Q_{l-1} ≡ 0
				}
				want[j] = y
			}
			if o.ntt {
				r.NTT(p0, p0)
			}
			out := outPoly(alias, level, nb, p0)
			o.call(r, nb, p0, buff, out)
			if o.ntt {
				rOut.INTT(out, out)
			}
			for i := 0; i <= level-nb; i++ {
				q := mod[i]
				for j := 0; j < N; j++ {
					if out.Coeffs[i][j]%q != want[j]%q {
						fail(c, "C02/div/"+o.name+"/quotient", "Q=%v nb=%d %s: x=%d lane %d: result mod q_%d=%d is %d, exact %s quotient %d ≡ %d",
							mod, nb, aliasNames[alias], xs[j], j, i, q, out.Coeffs[i][j]%q, map[bool]string{true: "rounded", false: "floored"}[o.round], want[j], want[j]%q)
						return
					}
				}
			}
			h = h*1099511628211 + out.Coeffs[0][int(p)%N]
		}
		c.Count(int(hi-lo) * N)
		c.Cover("div-tiny", o.name)
		c.Cover("div-nb", fmt.Sprint(nb))
		c.Cover("div-alias", aliasNames[alias])
		c.Outcome(name, part, h)
	}}
}

// ---------------------------------------------------------------------------------------------
// boundary alphabets on mid / big / mixed chains

func divAlphabet(mod []uint64, level int) []*big.Int {
	S := prod(mod[:level+1])
	a := newAlphabet(S)
	a.base()
	ql := bi(mod[level])
	a.divisor(ql)
	if level >= 1 {
		a.divisor(bi(mod[0]))
	}
	if level >= 2 {
		// two consecutive divisions: boundaries of the combined divisor and values whose first quotient sits
		// on a rounding boundary of the second division
		ql1 := bi(mod[level-1])
		a.divisor(new(big.Int).Mul(ql, ql1))
		h1 := new(big.Int).Rsh(ql1, 1)
		for _, k := range []int64{0, 1, 7} {
			for d := int64(-1); d <= 1; d++ {
				t := new(big.Int).Mul(bint(k), ql1)
				t.Add(t, h1).Add(t, bint(d)) // first quotient = k·q_{l-1} + q_{l-1}/2 + d
				x := new(big.Int).Mul(t, ql)
				a.around(x, 1)
				a.around(new(big.Int).Add(x, new(big.Int).Rsh(ql, 1)), 1)
			}
		}
	}
	a.corners(mod[:level+1])
	a.generic(16)
	return a.vals
}

// refDiv: sequential exact division of x in [0,Q_level), result modulo the remaining modulus.
func refDiv(x *big.Int, mod []uint64, level, nb int, round bool) *big.Int {
	y := new(big.Int).Set(x)
	for s := 0; s < nb; s++ {
		q := bi(mod[level-s])
		if round {
			y = ref.RoundDivHalfUp(y, q)
		} else {
			y = ref.FloorDiv(y, q)
		}
		y.Mod(y, prod(mod[:level-s]))
	}
	return y
}

func divAlphaScenario(ch chain, o divOp) engine.Scenario {
	name := fmt.Sprintf("div/alphabet/%s/%s", ch.name, o.name)
	mod := ch.Q
	return engine.Scenario{Name: name, Bound: -1, Fn: func(c *engine.Chooser) {
		level := 1 + c.Choose(len(mod)-1, "level")
		nbs := o.nbChoices(level)
		nb := nbs[c.Choose(len(nbs), "nb")]
		alias := c.Choose(3, "alias")
		rFull := mustRing(mod)
		r := rFull.AtLevel(level)
		rOut := rFull.AtLevel(level - nb)
		vals := divAlphabet(mod, level)
		p0 := r.NewPoly()
		buff := r.NewPoly()
		want := make([]*big.Int, N)
		xs := make([]*big.Int, N)
		evals := 0
		var h uint64
		for b := 0; b < nBlocks(vals); b++ {
			for rot := 0; rot < 8; rot++ {
				for j := 0; j < N; j++ {
					x := blockValue(vals, b, rot, j)
					xs[j] = x
					setCoeff(p0.Coeffs, mod[:level+1], j, x)
					want[j] = refDiv(x, mod, level, nb, o.round)
				}
				if o.ntt {
					r.NTT(p0, p0)
				}
				out := outPoly(alias, level, nb, p0)
				o.call(r, nb, p0, buff, out)
				if o.ntt {
					rOut.INTT(out, out)
				}
				for i := 0; i <= level-nb; i++ {
					q := mod[i]
					for j := 0; j < N; j++ {
						if w := ref.ModU(want[j], q); out.Coeffs[i][j]%q != w {
							if CI && o.name == "DivFloorByLastModulusNTT" && ref.AddMod(out.Coeffs[i][j], 1, q) == w {
								// known class (FINDINGS.md): conjugate-invariant ring, this operation, result exactly one too
								// small; keep judging the other coefficients
								c.Fail(sigCIFloorNTT, "%s Q=%v level=%d %s: x=%s lane %d: result mod %d is %d, exact floored quotient ≡ %d (one too small)", ch.name, mod[:level+1], level, aliasNames[alias], xs[j], j, q, out.Coeffs[i][j]%q, w)
								continue
							}
							fail(c, "C02/div/"+o.name+"/quotient", "%s Q=%v level=%d nb=%d %s: x=%s lane %d: result mod q_%d=%d is %d, exact quotient %s ≡ %d",
								ch.name, mod[:level+1], level, nb, aliasNames[alias], xs[j], j, i, q, out.Coeffs[i][j]%q, want[j], w)
							return
						}
					}
				}
				evals += N
				h = h*1099511628211 + out.Coeffs[0][rot]
			}
		}
		c.Count(evals)
		c.Cover("div-alpha", o.name)
		c.Cover("div-class", ch.name)
		c.Cover("div-nb", fmt.Sprint(nb))
		c.Outcome(name, level, nb, alias, h)
	}}
}
