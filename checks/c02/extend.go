// Small-norm basis extension of secrets and errors:
// ringqp.Ring.ExtendBasisSmallNormAndCenter and rlwe.ExtendBasisSmallNormAndCenterNTTMontgomery.
//
// Both read the residue modulo q_0 only, centre it and write the same small integer modulo every destination
// modulus. "Small norm" is made explicit as |x| <= (q_0-1)/2 (so that q_0 determines x) and |x| < every destination
// modulus (the functions do not reduce): Assumptions in main.go.
package main

import (
	"fmt"

	"github.com/tuneinsight/lattigo/v6/core/rlwe"
	"github.com/tuneinsight/lattigo/v6/ring"
	"github.com/tuneinsight/lattigo/v6/ring/ringqp"

	"verif/engine"
)

// smallAlphabet: centred small integers admissible for source modulus q0 and destination moduli dst.
func smallAlphabet(q0 uint64, dst []uint64) []int64 {
	B := int64((q0 - 1) / 2)
	for _, p := range dst {
		if int64(p)-1 < B {
			B = int64(p) - 1
		}
	}
	var r []int64
	seen := map[int64]bool{}
	add := func(v int64) {
		if v < 0 {
			v = -v
		}
		if v <= B {
			for _, s := range []int64{v, -v} {
				if !seen[s] {
					seen[s] = true
					r = append(r, s)
				}
			}
		}
	}
	for v := int64(0); v <= 3; v++ {
		add(v)
	}
	for _, v := range []int64{B, B - 1, B - 2, B / 2, B/2 + 1, 19, 20, 1 << 20} {
		add(v)
	}
	return r
}

func umod(x int64, q uint64) uint64 {
	m := int64(q)
	return uint64(((x % m) + m) % m)
}

func extendScenario(ch chain) engine.Scenario {
	name := fmt.Sprintf("extend/SmallNorm/%s", ch.name)
	return engine.Scenario{Name: name, Bound: -1, Fn: func(c *engine.Chooser) {
		fn := c.Choose(3, "function") // 0 ringqp; 1 rlwe Q0->P; 2 rlwe Q0->Q_l (in place, as the key generator does)
		rQ, rP := mustRing(ch.Q), mustRing(ch.P)
		var dst []uint64
		var lvl int
		if fn == 2 {
			lvl = c.Choose(len(ch.Q), "levelQ-out")
			dst = ch.Q[:lvl+1]
		} else {
			lvl = c.Choose(len(ch.P), "levelP")
			dst = ch.P[:lvl+1]
		}
		alias := c.Choose(2, "alias")
		vals := smallAlphabet(ch.Q[0], dst)
		for rot := 0; rot < len(vals); rot++ {
			xs := make([]int64, N)
			in := rQ.NewPoly()
			for j := 0; j < N; j++ {
				xs[j] = vals[(j+rot)%len(vals)]
				for i, q := range ch.Q {
					in.Coeffs[i][j] = umod(xs[j], q)
				}
			}
			var out [][]uint64
			switch fn {
			case 0:
				qp := ringqp.Ring{RingQ: rQ, RingP: rP}
				outQ := in
				if alias == 1 {
					outQ = rQ.NewPoly()
				}
				outP := rP.AtLevel(lvl).NewPoly()
				qp.ExtendBasisSmallNormAndCenter(in, lvl, outQ, outP)
				for i, q := range ch.Q {
					for j := 0; j < N; j++ {
						if outQ.Coeffs[i][j] != umod(xs[j], q) {
							fail(c, "C02/extend/ringqp.ExtendBasisSmallNormAndCenter/Q-part-changed", "%s: Q part row %d lane %d = %d, want the input %d", ch.name, i, j, outQ.Coeffs[i][j], umod(xs[j], q))
							return
						}
					}
				}
				out = outP.Coeffs
			default:
				rQ.NTT(in, in)
				rQ.MForm(in, in)
				buff := rQ.NewPoly()
				var rOut *ring.Ring
				var polP ring.Poly
				if fn == 1 {
					rOut = rP.AtLevel(lvl)
					polP = rOut.NewPoly()
				} else {
					rOut = rQ.AtLevel(lvl)
					if alias == 1 {
						polP = rOut.NewPoly()
					} else {
						polP = in // in place
					}
				}
				rlwe.ExtendBasisSmallNormAndCenterNTTMontgomery(rQ, rOut, in, buff, polP)
				res := rOut.NewPoly()
				rOut.IMForm(polP, res)
				rOut.INTT(res, res)
				out = res.Coeffs
			}
			for i, p := range dst {
				for j := 0; j < N; j++ {
					if out[i][j]%p != umod(xs[j], p) {
						fail(c, "C02/extend/"+[]string{"ringqp.ExtendBasisSmallNormAndCenter", "rlwe.ExtendBasisSmallNormAndCenterNTTMontgomery", "rlwe.ExtendBasisSmallNormAndCenterNTTMontgomery"}[fn]+"/value",
							"%s fn=%d: x=%d lane %d: output mod %d is %d, want %d", ch.name, fn, xs[j], j, p, out[i][j]%p, umod(xs[j], p))
						return
					}
				}
			}
		}
		c.Count(len(vals) * N)
		c.Cover("extend-fn", fmt.Sprint(fn))
		c.Cover("extend-class", ch.name)
		c.Outcome(name, fn, lvl, alias)
	}}
}
