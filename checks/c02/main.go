// C02 — RNS basis extension, rescaling and gadget decomposition match integer division.
//
// Bounded-exhaustive exploration of the real ring / rlwe code against exact integer arithmetic (verif/ref, math/big,
// plain uint64 for the tiny chains):
//
//	div.go     DivFloor/DivRoundByLastModulus[Many][NTT]: every integer of tiny chains; boundary alphabets elsewhere
//	modup.go   BasisExtender.ModUpQtoP/PtoQ, ModDownQPtoQ[NTT]/QPtoP: every integer of tiny chains; boundary alphabets, all (levelQ,levelP)
//	decomp.go  Decomposer.DecomposeAndSplit, Evaluator.DecomposeNTT/DecomposeSingleNTT, MaskVec, and the recombination of
//	           the digits through Evaluator.GadgetProductLazy on a noise-free gadget ciphertext
//	gadgetdigits.go  the digits GadgetProduct[Lazy] / GadgetProductHoisted[Lazy] actually use (selector gadget ciphertexts), keys at
//	           every LevelP in -1..max under 0..3 auxiliary primes and at LevelQ below the maximum, base 2^w in {0, small, large}
//	extend.go  ExtendBasisSmallNormAndCenter (ringqp) / ExtendBasisSmallNormAndCenterNTTMontgomery (rlwe)
package main

import (
	"fmt"
	"os"
	"sort"
	"strconv"
	"time"

	"verif/engine"
)

func scenarios(tier string) []engine.Scenario {
	thorough := tier == "thorough"
	var scs []engine.Scenario
	setUniverse(16, false) // the whole-integer exhaustion packs 16 integers per polynomial
	t := tinyPrimes(6)     // 97 193 257 353 449 577

	// ---- whole-integer exhaustion on tiny chains ------------------------------------------------
	// every integer of [0,Q): the three rotations of 97·193·257 (each prime once as the divisor) and 2-prime chains
	divChains := [][]uint64{{t[0], t[1], t[2]}, {t[1], t[2], t[0]}, {t[2], t[0], t[1]}, {t[0], t[1]}, {t[1], t[2]}, {t[2], t[0]}}
	if thorough {
		divChains = append(divChains,
			[]uint64{t[0], t[2], t[1]}, []uint64{t[1], t[0], t[2]}, []uint64{t[2], t[1], t[0]},
			[]uint64{t[2], t[3], t[4]}, []uint64{t[5], t[0], t[3]})
	}
	for _, mod := range divChains {
		parts := 1
		if len(mod) == 3 {
			parts = 4
		}
		for _, o := range divOps {
			for _, nb := range o.nbChoices(len(mod) - 1) {
				for alias := 0; alias < 3; alias++ {
					if nb == 0 && alias == 2 {
						continue // identical to alias 0
					}
					scs = append(scs, divTinyScenario(mod, o, nb, alias, parts))
				}
			}
		}
	}
	Q3, Q2 := []uint64{t[0], t[1], t[2]}, []uint64{t[0], t[1]}
	P2, P1 := []uint64{t[3], t[4]}, []uint64{t[3]}
	for _, o := range beOps {
		if !o.down {
			for lq := 0; lq < 3; lq++ {
				for lp := 0; lp < 2; lp++ {
					parts := 1
					if (o.toP && lq == 2) || thorough {
						parts = 4
					}
					scs = append(scs, beTinyScenario(Q3, P2, o, lq, lp, "all", parts))
				}
			}
			continue
		}
		// every value modulo Q·P for the 2-prime Q and 1-prime P; the k·D family for larger P / Q
		scs = append(scs, beTinyScenario(Q2, P1, o, 1, 0, "all", 6))
		scs = append(scs, beTinyScenario(Q2, P1, o, 0, 0, "all", 1))
		scs = append(scs, beTinyScenario(Q2, P2, o, 1, 1, "kD", 2))
		scs = append(scs, beTinyScenario(Q2, P2, o, 0, 1, "kD", 1))
		scs = append(scs, beTinyScenario(Q3, P2, o, 1, 0, "kD", 1))
		if thorough {
			scs = append(scs, beTinyScenario(Q3, P2, o, 2, 1, "kD", 16))
			scs = append(scs, beTinyScenario(Q3, P2, o, 2, 0, "kD", 16))
			for shard := 0; shard < 16; shard++ { // every value mod 97·193·257·353 = 1.7e9, one shard per worker
				scs = append(scs, beTinyShard(Q3, P1, o, 2, 0, "all", 8, shard, 16))
			}
		}
	}
	for shard := 0; shard < 4; shard++ {
		scs = append(scs, decomposerTinyScenario(Q3, P2, shard, 4))
		if thorough {
			scs = append(scs, decomposerTinyScenario([]uint64{t[2], t[0], t[1]}, []uint64{t[4], t[3]}, shard, 4))
			scs = append(scs, decomposerTinyScenario(Q3, []uint64{t[3], t[4], t[5]}, shard, 4))
		}
	}

	// ---- boundary alphabets on every chain class, every (levelQ, levelP), in several universes ------
	type universe struct {
		n       int
		ci      bool
		classes []string // nil: all
	}
	unis := []universe{
		{16, false, nil},
		{64, false, []string{"ratios", "mixed", "big61"}}, // 8 blocks of 8 lanes, NTT stage loops
		{16, true, []string{"mid30", "mixed"}},            // conjugate-invariant ring
		{32, true, []string{"ratios", "big61"}},           // conjugate-invariant ring, odd log N
	}
	if thorough {
		unis = []universe{{16, false, nil}, {32, false, nil}, {64, false, nil}, {16, true, nil}, {32, true, nil}, {64, true, []string{"ratios", "mixed", "tiny"}}}
	}
	for _, u := range unis {
		setUniverse(u.n, u.ci)
		var us []engine.Scenario
		for _, ch := range chains() {
			if u.classes != nil && !contains(u.classes, ch.name) {
				continue
			}
			for _, o := range divOps {
				us = append(us, divAlphaScenario(ch, o))
			}
			for _, o := range beOps {
				us = append(us, beAlphaScenario(ch, o))
			}
			us = append(us, extendScenario(ch), evaluatorModDownScenario(ch), pow2Scenario(ch))
			if ch.name == "mixed" || ch.name == "ratios" || thorough {
				us = append(us, beSequenceScenario(ch))
			}
			for nQ := 1; nQ <= len(ch.Q); nQ++ {
				for nP := 0; nP <= len(ch.P); nP++ {
					us = append(us, decomposerScenario(ch, nQ, nP))
					if nP > 0 {
						us = append(us, evaluatorDecomposeScenario(ch, nQ, nP))
					}
					us = append(us, gadgetRecombineScenario(ch, nQ, nP))
				}
			}
			// the digits the gadget products actually use, keys strictly below the parameters' maximum levels
			if (u.n == 16 && !u.ci) || thorough {
				for nP := 0; nP <= len(ch.P); nP++ {
					us = append(us, gadgetDigitsScenario(ch, nP, thorough))
				}
			} else if u.classes != nil && ch.name == u.classes[0] {
				us = append(us, gadgetDigitsScenario(ch, 2, thorough))
			}
			// state carried by one Evaluator / its ShallowCopy between calls
			if (ch.name == "mixed" && u.n == 16 && !u.ci) || (ch.name == "ratios" && u.n != 16) || thorough {
				for recv := 0; recv < 2; recv++ {
					us = append(us, evaluatorSequenceScenario(ch, len(ch.Q), len(ch.P), recv))
					if thorough {
						us = append(us, evaluatorSequenceScenario(ch, 4, 2, recv))
					}
				}
			}
		}
		// a 6-prime Q with 4 P primes: digit shapes on both sides of "#P divides #Q" (6/1, 6/2, 6/3 divide; 6/4 does not),
		// every intermediate levelP of a 4-prime P
		if !u.ci && (u.n == 16 || thorough) {
			m := below(40, 10)
			wide := chain{"wide40", m[:6], m[6:10]}
			for nP := 0; nP <= 4; nP++ {
				us = append(us, decomposerScenario(wide, 6, nP))
				if nP > 0 {
					us = append(us, evaluatorDecomposeScenario(wide, 6, nP))
				}
				us = append(us, gadgetRecombineScenario(wide, 6, nP))
			}
			us = append(us, beSequenceScenario(chain{"wide40", m[:6], m[6:9]}))
		}
		scs = append(scs, inUniverse(u.n, u.ci, us)...)
	}
	// ---- lazy accumulation over many digits (N=16, standard ring): exact linear-form oracle + recombination ----
	setUniverse(16, false)
	for _, ch := range longChains() {
		shards := 1
		if len(ch.Q) > 12 {
			shards = 4
		}
		for sh := 0; sh < shards; sh++ {
			scs = append(scs, gadgetAccumulationScenario(ch, sh, shards))
		}
		if len(ch.Q) <= 12 { // the big-integer alphabets of the recombination oracle are too slow on the 24/48-prime chains
			scs = append(scs, gadgetRecombineScenario(ch, len(ch.Q), len(ch.P)))
		}
	}
	// Scenario i runs on worker i mod 16: families of equally heavy scenarios recur with a period that can coincide with
	// 16, so the order is decorrelated (deterministically) from the construction order.
	sort.SliceStable(scs, func(a, b int) bool { return engine.Hash(scs[a].Name) < engine.Hash(scs[b].Name) })
	return scs
}

// budget: the internal wall-clock deadline; VERIF_BUDGET_S overrides it for runs on a heavily loaded machine (the
// deadline never is a verdict, it only decides whether the run may call itself exhaustive).
func budget(d time.Duration) time.Duration {
	if s, err := strconv.Atoi(os.Getenv("VERIF_BUDGET_S")); err == nil && s > 0 {
		return time.Duration(s) * time.Second
	}
	return d
}

func contains(l []string, s string) bool {
	for _, x := range l {
		if x == s {
			return true
		}
	}
	return false
}

// inUniverse makes the scenarios run under setUniverse(n, ci) and tags their names (the default universe N=16,
// standard ring keeps the plain names).
func inUniverse(n int, ci bool, scs []engine.Scenario) []engine.Scenario {
	tag := ""
	if n != 16 || ci {
		tag = fmt.Sprintf("N=%d", n)
		if ci {
			tag += ",conjugate-invariant"
		}
		tag += "/"
	}
	out := make([]engine.Scenario, len(scs))
	for i, sc := range scs {
		fn := sc.Fn
		out[i] = engine.Scenario{Name: tag + sc.Name, Bound: sc.Bound, Fn: func(c *engine.Chooser) {
			setUniverse(n, ci)
			defer setUniverse(16, false)
			fn(c)
			c.Cover("universe", fmt.Sprintf("N=%d,ci=%v", n, ci))
		}}
	}
	return out
}

func main() {
	engine.Main(engine.Check{
		ID:    "C02",
		Level: "exploration",
		Rule: "One scenario = one (operation, chain[, shape]); leaves = (levelQ, levelP, nbRescales, alias mode, digit convention, part of the integer range). " +
			"tiny-exhaustive scenarios run EVERY integer of [0,Q) (Q=97·193·257 and sub-chains; every value mod Q·P for Q=97·193,P=353; the families k·P+δ, k·P+P/2+δ for all k) " +
			"packed N=16 per polynomial; alphabet scenarios run the boundary integers (0,±1..3, k·D+δ, k·D+D/2+δ, ±S/2+δ, ±S/4+δ, CRT corners {0,1,(q-1)/2,q-1}^k) in every lane class mod 8 " +
			"on tiny/30-bit/61-bit/mixed-size chains for every (levelQ, levelP). evaluations = coefficients judged; distinct_nontrivial = distinct (scenario, leaf, output hash) classes.",
		Assumptions: []string{
			"input residues are reduced (in [0,q_i)); outputs are compared modulo q_i (no output range is documented for these functions)",
			"Q and P primes are distinct, NTT friendly for N=16 and at most 61 bits",
			"several rescalings are sequential single rescalings, each on the representative in [0,Q_l) (doc: 'divides sequentially nbRescales times')",
			"ModDownQPtoP is judged as the statement says (rounded quotient ±1); its doc comment says 'floored', which is within the same ±1 band only after allowing e=-1",
			"small-norm extension: |x| <= (q_0-1)/2 and |x| < every destination modulus",
			"Evaluator.DecomposeNTT/DecomposeSingleNTT are only called with parameters that have P (they dereference RingP)",
			"the gadget ciphertext of the recombination scenarios is noise free (zero mask, zero error): GadgetProductLazy must then return exactly pt·P·x",
		},
		Scenarios:      scenarios,
		QuickBudget:    budget(150 * time.Second),
		ThoroughBudget: 25 * time.Minute,
		Expect: func(tier string) []string {
			setUniverse(16, false)
			e := []string{"universe=N=64,ci=false", "universe=N=16,ci=true", "universe=N=32,ci=true", "be-sequence-receiver=ShallowCopy", "be-sequence-receiver=NewBasisExtender",
				"evaluator-sequence-receiver=ShallowCopy", "evaluator-sequence-receiver=NewEvaluator", "div-class=ratios", "accumulation-digits=>=33", "accumulation-digits=17..32", "accumulation-digits=9..16", "accumulation-digits=5..8", "accumulation-digits=1..4",
				"accumulation-path=multipleP", "accumulation-path=pow2", "accumulation-path=singleP-rns", "be-e=zero", "decomposer-tiny=exhaustive", "decomposer-branch=reconstruct", "decomposer-branch=has-copy-only-digit",
				"decomposer-tail=partial-last-digit", "gadget-class=rns", "gadget-class=base2", "gadget-path=multipleP", "gadget-path=singleP-or-pow2",
				"pow2-cover=covers", "evaluator-decompose=Evaluator.DecomposeNTT", "evaluator-decompose=Evaluator.DecomposeSingleNTT",
				"extend-fn=0", "extend-fn=1", "extend-fn=2", "evaluator-moddown=noP", "evaluator-moddown=in=true/out=true", "evaluator-moddown=in=true/out=false",
				"evaluator-moddown=in=false/out=true", "evaluator-moddown=in=false/out=false", "div-nb=0", "div-nb=1", "div-nb=2", "div-nb=3"}
			for _, o := range divOps {
				e = append(e, "div-tiny="+o.name, "div-alpha="+o.name)
			}
			for _, o := range beOps {
				e = append(e, "be-alpha="+o.name, "be-tiny="+o.name+"/all")
				if o.down {
					e = append(e, "be-tiny="+o.name+"/kD")
				}
			}
			for _, ch := range chains() {
				e = append(e, "div-class="+ch.name, "be-class="+ch.name, "decomposer-class="+ch.name, "gadget-chain="+ch.name, "extend-class="+ch.name)
			}
			for _, b := range base2Choices[1:] {
				e = append(e, fmt.Sprintf("pow2-base=%d", b))
			}
			for nP := 0; nP <= 3; nP++ {
				e = append(e, fmt.Sprintf("decomposer-nP=%d", nP))
				for lp := -1; lp < nP; lp++ {
					e = append(e, fmt.Sprintf("gadget-digits-key=nP=%d/keyLevelP=%d", nP, lp))
				}
			}
			for _, en := range gdEntries {
				e = append(e, "gadget-digits-entry="+en)
			}
			for _, b := range gdBase2(tier == "thorough") {
				e = append(e, fmt.Sprintf("gadget-digits-base2=%d", b))
			}
			e = append(e, "gadget-digits-keyLevelQ=below-max", "gadget-digits-keyLevelQ=max", "gadget-digits-path=base2", "gadget-digits-path=rns-multipleP",
				"gadget-digits-path=rns-singleP-or-noP", "gadget-digits-hoisted-base2=error")
			return e
		},
	})
}
